/-
  C14 — helper lemmas about the restricted matcher of RtoscModel/Param/Port.lean on the
  patterns of the array port macros, `name#N:…`: the path must be the name followed by a run
  of decimal digits whose value is below `N`, and nothing else.
-/
import RtoscModel.Proofs.ParamDelivery
namespace Rtosc.Param
open Rtosc

/-! ### one step of `matchPath` -/

theorem matchPath_hash (f : Nat) (p msg : Bytes) :
    matchPath (f + 1) (35 :: p) msg =
      (match p, msg with
       | pc :: _, mc :: _ =>
         if isDigit pc && isDigit mc then
           match atoi p, atoi msg with
           | some mx, some v =>
             if v < mx then matchPath f (dropDigits p) (dropDigits msg) else .ok none
           | _, _ => .error .unsup
         else .ok none
       | _, _ => .ok none) := by
  conv => lhs; unfold matchPath
  split <;> first | rfl | (simp_all; done) | skip
  rename_i heq
  cases heq
  rfl

theorem matchPath_lit (f : Nat) (c m : UInt8) (p ms : Bytes)
    (hc : c ≠ 58 ∧ c ≠ 123 ∧ c ≠ 42 ∧ c ≠ 47 ∧ c ≠ 35) :
    matchPath (f + 1) (c :: p) (m :: ms) = if c = m then matchPath f p ms else .ok none := by
  obtain ⟨h1, h2, h3, h4, h5⟩ := hc
  conv => lhs; unfold matchPath
  split
  all_goals first | (simp_all; done) | skip
  rename_i h; exact (h _ _ _ _ rfl rfl).elim

theorem matchPath_lit_nil (f : Nat) (c : UInt8) (p : Bytes)
    (hc : c ≠ 58 ∧ c ≠ 123 ∧ c ≠ 42 ∧ c ≠ 47 ∧ c ≠ 35) :
    matchPath (f + 1) (c :: p) [] = .ok none := by
  obtain ⟨h1, h2, h3, h4, h5⟩ := hc
  conv => lhs; unfold matchPath
  split
  all_goals first | rfl | (simp_all; done) | skip

theorem matchPath_colon (f : Nat) (p msg : Bytes) :
    matchPath (f + 1) (58 :: p) msg = if msg = [] then .ok (some (58 :: p)) else .ok none := by
  conv => lhs; unfold matchPath
  split
  all_goals first | rfl | (simp_all; done) | skip

/-! ### digit runs -/

/-- the text behind a run of digits: nothing, or something that does not begin with a digit -/
def Stops (tail : Bytes) : Prop := tail = [] ∨ ∃ c r, tail = c :: r ∧ isDigit c = false

theorem stops_colon (spec : Bytes) : Stops (58 :: spec) := Or.inr ⟨58, spec, rfl, by decide⟩
theorem stops_nil : Stops [] := Or.inl rfl

theorem dropDigits_stop (ds tail : Bytes) (h : AllDigits ds) (ht : Stops tail) :
    dropDigits (ds ++ tail) = tail := by
  induction ds with
  | nil =>
    rcases ht with rfl | ⟨c, r, rfl, hc⟩
    · rfl
    · simp [dropDigits, hc]
  | cons c r ih =>
    have hc : isDigit c = true := h c (List.mem_cons_self)
    have hr : AllDigits r := fun x hx => h x (List.mem_cons_of_mem _ hx)
    simp only [List.cons_append, dropDigits, hc, ↓reduceIte]
    exact ih hr

/-- `atoi` of a non-empty digit run followed by a stop: its value, or `none` (undefined in C)
    when that does not fit an `int` -/
theorem atoi_run (ds tail : Bytes) (h : AllDigits ds) (hne : ds ≠ []) (ht : Stops tail) :
    atoi (ds ++ tail) = if digitsVal ds ≤ 2147483647 then some (digitsVal ds : Int) else none := by
  have hbody : atoiBody false (ds ++ tail) =
      if digitsVal ds ≤ 2147483647 then some (digitsVal ds : Int) else none := by
    by_cases hv : digitsVal ds ≤ 2147483647
    · rw [atoiBody_stop false ds tail h ht hv]; simp [hv]
    · unfold atoiBody
      simp only [takeDigits_stop ds tail 0 h ht, Bool.false_eq_true, ↓reduceIte, hv]
      have : (List.foldl (fun a c => a * 10 + (c.toNat - 48)) 0 ds : Nat) = digitsVal ds := rfl
      rw [this]
      have h2 : ¬ ((digitsVal ds : Int) ≤ IntTy.i32.max) := by simp only [IntTy.max]; omega
      simp [h2]
  obtain ⟨c, r, rfl⟩ := List.exists_cons_of_ne_nil hne
  have hc : isDigit c = true := h c (List.mem_cons_self)
  have hs := isDigit_not_space hc
  have hne1 : c ≠ 45 := by intro hc'; subst hc'; simp [isDigit] at hc
  have hne2 : c ≠ 43 := by intro hc'; subst hc'; simp [isDigit] at hc
  rw [← hbody]
  unfold atoi
  simp only [List.cons_append, skipSpaces, hs, Bool.false_eq_true, ↓reduceIte]
  split
  · rename_i heq; simp only [List.cons.injEq] at heq; exact absurd heq.1 hne1
  · rename_i heq; simp only [List.cons.injEq] at heq; exact absurd heq.1 hne2
  · rfl

/-! ### the `#N` step and the whole array pattern -/

/-- **the `#N` step** (`rtosc_match_number`), for every text `ds ++ tail` (a run of digits and
    what stops it) found in the path where the pattern has its `#N`. -/
theorem matchPath_number (f : Nat) (nd spec ds tail : Bytes)
    (hnd : AllDigits nd) (hnne : nd ≠ []) (hnv : digitsVal nd ≤ 2147483647)
    (hds : AllDigits ds) (ht : Stops tail) :
    matchPath (f + 2) (35 :: (nd ++ 58 :: spec)) (ds ++ tail) =
      if ds = [] then .ok none
      else if 2147483647 < digitsVal ds then .error .unsup
      else if digitsVal ds < digitsVal nd ∧ tail = [] then .ok (some (58 :: spec))
      else .ok none := by
  rw [matchPath_hash]
  obtain ⟨n0, nr, rfl⟩ := List.exists_cons_of_ne_nil hnne
  have hn0 : isDigit n0 = true := hnd n0 (List.mem_cons_self)
  cases ds with
  | nil =>
    rcases ht with rfl | ⟨c, r, rfl, hc⟩
    · simp
    · simp [hc]
  | cons d0 dr =>
    have hd0 : isDigit d0 = true := hds d0 (List.mem_cons_self)
    have hN := atoi_run (n0 :: nr) (58 :: spec) hnd (by simp) (stops_colon spec)
    have hK := atoi_run (d0 :: dr) tail hds (by simp) ht
    simp only [hnv, ↓reduceIte] at hN
    simp only [List.cons_append] at hN hK ⊢
    simp only [hn0, hd0, Bool.and_self, ↓reduceIte, hN, hK, reduceCtorEq]
    by_cases hv : digitsVal (d0 :: dr) ≤ 2147483647
    · have hv' : ¬ (2147483647 < digitsVal (d0 :: dr)) := by omega
      simp only [hv, ↓reduceIte, hv']
      have e1 := dropDigits_stop (n0 :: nr) (58 :: spec) hnd (stops_colon spec)
      have e2 := dropDigits_stop (d0 :: dr) tail hds ht
      simp only [List.cons_append] at e1 e2
      rw [e1, e2, matchPath_colon]
      by_cases hlt : digitsVal (d0 :: dr) < digitsVal (n0 :: nr)
      · have : ((digitsVal (d0 :: dr) : Nat) : Int) < ((digitsVal (n0 :: nr) : Nat) : Int) := by omega
        simp only [this, ↓reduceIte, hlt, true_and]
      · have : ¬ (((digitsVal (d0 :: dr) : Nat) : Int) < ((digitsVal (n0 :: nr) : Nat) : Int)) := by omega
        simp only [this, ↓reduceIte, hlt, false_and]
    · have hv' : 2147483647 < digitsVal (d0 :: dr) := by omega
      simp only [hv, ↓reduceIte, hv']

/-- walking the literal name in front of the `#` -/
theorem matchPath_walk (name pat rest : Bytes) (hn : PlainName name) (f : Nat) :
    matchPath (f + name.length) (name ++ pat) (name ++ rest) = matchPath f pat rest := by
  induction name with
  | nil => rfl
  | cons c r ih =>
    have hr : PlainName r := fun x hx => hn x (List.mem_cons_of_mem _ hx)
    have : f + (c :: r).length = (f + r.length) + 1 := by simp; omega
    rw [this, List.cons_append, List.cons_append, matchPath_lit _ _ _ _ _ (hn c (List.mem_cons_self))]
    simp only [↓reduceIte]
    exact ih hr

/-- a path that does not begin with the name matches nothing -/
theorem matchPath_not_prefix (name pat path : Bytes) (hn : PlainName name)
    (hnp : ¬ name <+: path) (f : Nat) :
    matchPath (f + name.length) (name ++ pat) path = .ok none := by
  induction name generalizing path with
  | nil => exact absurd (List.nil_prefix) hnp
  | cons c r ih =>
    have hr : PlainName r := fun x hx => hn x (List.mem_cons_of_mem _ hx)
    have : f + (c :: r).length = (f + r.length) + 1 := by simp; omega
    rw [this, List.cons_append]
    cases path with
    | nil => exact matchPath_lit_nil _ _ _ (hn c (List.mem_cons_self))
    | cons m ms =>
      rw [matchPath_lit _ _ _ _ _ (hn c (List.mem_cons_self))]
      by_cases hcm : c = m
      · subst hcm
        simp only [↓reduceIte]
        exact ih ms hr (fun hp => hnp (by
          obtain ⟨t, ht⟩ := hp
          exact ⟨t, by rw [← ht]; rfl⟩))
      · simp [hcm]

/-- the digits at the start of a text, and what stops them -/
theorem digit_split (s : Bytes) : ∃ ds tail, s = ds ++ tail ∧ AllDigits ds ∧ Stops tail := by
  induction s with
  | nil => exact ⟨[], [], rfl, (by intro c hc; cases hc), stops_nil⟩
  | cons c r ih =>
    by_cases hc : isDigit c = true
    · obtain ⟨ds, tail, h1, h2, h3⟩ := ih
      refine ⟨c :: ds, tail, by rw [h1]; rfl, ?_, h3⟩
      intro x hx
      rcases List.mem_cons.mp hx with rfl | hx
      · exact hc
      · exact h2 x hx
    · exact ⟨[], c :: r, rfl, (by intro x hx; cases hx), Or.inr ⟨c, r, rfl, by simpa using hc⟩⟩

/-- the pattern of an array port macro: `name#N` followed by the type specification -/
def arrPattern (name nd spec : Bytes) : Bytes := name ++ 35 :: (nd ++ 58 :: spec)

/-- **`rtosc_match_path` on an array port**, the address `name<digits>`: matches iff the index is below `N` -/
theorem matchPath_array (name nd spec ds : Bytes) (hn : PlainName name)
    (hnd : AllDigits nd) (hnne : nd ≠ []) (hnv : digitsVal nd ≤ 2147483647)
    (hds : AllDigits ds) (hdne : ds ≠ []) (hdv : digitsVal ds ≤ 2147483647) (f : Nat) :
    matchPath (f + 2 + name.length) (arrPattern name nd spec) (name ++ ds) =
      if digitsVal ds < digitsVal nd then .ok (some (58 :: spec)) else .ok none := by
  have h := matchPath_number f nd spec ds [] hnd hnne hnv hds stops_nil
  rw [List.append_nil] at h
  rw [arrPattern, matchPath_walk name _ _ hn, h]
  have : ¬ (2147483647 < digitsVal ds) := by omega
  simp [hdne, this]

/-- **only such addresses**: whatever the path is, a match means that it is the name followed
    by a non-empty run of digits whose value is below `N` -/
theorem matchPath_array_only (name nd spec path sp : Bytes) (hn : PlainName name)
    (hnd : AllDigits nd) (hnne : nd ≠ []) (hnv : digitsVal nd ≤ 2147483647) (f : Nat)
    (h : matchPath (f + 2 + name.length) (arrPattern name nd spec) path = .ok (some sp)) :
    sp = 58 :: spec ∧ ∃ ds, path = name ++ ds ∧ ds ≠ [] ∧ AllDigits ds ∧ digitsVal ds < digitsVal nd := by
  by_cases hp : name <+: path
  · obtain ⟨rest, rfl⟩ := hp
    obtain ⟨ds, tail, rfl, hds, ht⟩ := digit_split rest
    rw [arrPattern, matchPath_walk name _ _ hn, matchPath_number f nd spec ds tail hnd hnne hnv hds ht] at h
    split at h
    · cases h
    · split at h
      · cases h
      · split at h
        · rename_i hne _ hlt
          obtain ⟨hlt, rfl⟩ := hlt
          simp only [Except.ok.injEq, Option.some.injEq] at h
          exact ⟨h.symm, ds, by simp, hne, hds, hlt⟩
        · cases h
  · rw [arrPattern, matchPath_not_prefix name _ path hn hp] at h
    cases h

/-- `rtosc_match` on an array macro port `name#N::tags…` and the address `name<digits>` -/
theorem portMatches_array (name nd spec ds tags : Bytes) (hn : PlainName name)
    (hnd : AllDigits nd) (hnne : nd ≠ []) (hnv : digitsVal nd ≤ 2147483647)
    (hds : AllDigits ds) (hdne : ds ≠ []) (hdv : digitsVal ds ≤ 2147483647) :
    portMatches (arrPattern name nd spec) (name ++ ds) tags =
      .ok (decide (digitsVal ds < digitsVal nd) && matchArgs ((58 :: spec).length + 2) (58 :: spec) tags) := by
  unfold portMatches
  have hf : (arrPattern name nd spec).length + (name ++ ds).length + 2 =
      (nd.length + spec.length + (name ++ ds).length + 2) + 2 + name.length := by
    simp [arrPattern]; omega
  rw [hf, matchPath_array name nd spec ds hn hnd hnne hnv hds hdne hdv]
  by_cases h : digitsVal ds < digitsVal nd <;> simp [h]

theorem portMatches_array_only (name nd spec path tags : Bytes) (hn : PlainName name)
    (hnd : AllDigits nd) (hnne : nd ≠ []) (hnv : digitsVal nd ≤ 2147483647)
    (h : portMatches (arrPattern name nd spec) path tags = .ok true) :
    ∃ ds, path = name ++ ds ∧ ds ≠ [] ∧ AllDigits ds ∧ digitsVal ds < digitsVal nd := by
  unfold portMatches at h
  have hf : (arrPattern name nd spec).length + path.length + 2 =
      (nd.length + spec.length + path.length + 2) + 2 + name.length := by
    simp [arrPattern]; omega
  rw [hf] at h
  split at h
  · cases h
  · cases h
  · rename_i sp hsp
    exact (matchPath_array_only name nd spec path sp hn hnd hnne hnv _ hsp).2


/-- the elements of `takeWhile p` satisfy `p` -/
theorem mem_takeWhile_sat {α : Type} (p : α → Bool) : ∀ (l : List α) (c : α), c ∈ l.takeWhile p → p c = true := by
  intro l
  induction l with
  | nil => intro c hc; simp at hc
  | cons x r ih =>
    intro c hc
    by_cases hx : p x = true
    · simp only [List.takeWhile_cons, hx, ↓reduceIte, List.mem_cons] at hc
      rcases hc with rfl | hc
      · exact hx
      · exact ih c hc
    · simp [List.takeWhile_cons, hx] at hc

end Rtosc.Param
