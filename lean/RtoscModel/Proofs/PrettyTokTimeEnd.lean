/-
  C10 — the date-only spelling of a time tag (midnight) as the LAST token of a text (`TokEnd`).
  (It is not a `TokOK`: a following ` 12:34` would be read as its clock time.)
-/
import RtoscModel.Proofs.PrettyTokTime
import RtoscModel.Proofs.PrettyList
namespace Rtosc.Pretty
open Rtosc Rtosc.Libc
open Rtosc.ArgVal (Cell)
open Rtosc.Pretty.TokTime

theorem time_dateonly_end (opt : POpt) (days : Nat) (h : days * 86400 < 4294967296)
    (fuel : Nat) (more : List Cell) (prev : Option Cell) (st : PSt) :
    ∃ (t : Bytes) (cols' : Int),
      printArgVal (fuel + 1) opt (Cell.time (days * 86400 * 4294967296) :: more) prev st =
        .ok (⟨st.out ++ t, cols'⟩, t.length) ∧
      TokEnd t (Cell.time (days * 86400 * 4294967296)) := by
  obtain ⟨t, cols', hp, hscan, hskip⟩ := time_dateonly_roundtrip opt days h fuel more prev st
  refine ⟨t, cols', hp, ?_, ?_, ?_⟩
  · -- the text is the date of `localtime`, which starts with a digit
    have hp2 := printArgVal_time fuel opt (days * 86400 * 4294967296) (days * 86400) more prev st
      (by omega) (by omega) (by omega)
    rw [hp] at hp2
    have ht : t = timeText (localtime ((days * 86400 : Nat) : Int)) := by
      have := congrArg (fun r => match r with | Except.ok (s, _) => s.out | _ => []) hp2
      simp only at this
      exact List.append_cancel_left this
    obtain ⟨_, hr, _⟩ := localtime_facts ((days * 86400 : Nat) : Int) (by omega) (by omega)
    obtain ⟨ya, yb, yc, yd, ma, mb, da, db, ha, hb, na, nb, sa, sb, hdig, _, _, _, _, _, _, eD, _, _, _⟩ :=
      tm_digits _ hr
    rw [ht]
    unfold timeText
    split
    · rw [eD]; exact tokStart_digit _ _ hdig.hya
    · split
      · rw [eD]; exact tokStart_digit _ _ hdig.hya
      · rw [eD]; exact tokStart_digit _ _ hdig.hya
  · intro fuel' prevc ab; exact hscan fuel' prevc ab
  · intro fuel' ty llhs ib; exact hskip fuel' ty llhs ib

end Rtosc.Pretty
