/-
  C06 — arithmetic and list lemmas shared by the sequential and the concurrent proofs.
  Ring offsets are `A % N` for a monotone absolute position `A` (ghost); `omega` cannot
  reason about `% N` for a variable `N`, so the handful of facts needed is proved here
  once, by case distinction on "wraps / does not wrap".
-/
import RtoscModel.Ring.Conc
namespace Rtosc.Ring
open Rtosc

/-! ### `% N` -/

theorem add_mod_cases {a d N : Nat} (ha : a < N) (hd : d ≤ N) :
    (a + d) % N = if a + d < N then a + d else a + d - N := by
  split
  · exact Nat.mod_eq_of_lt ‹_›
  · rw [Nat.mod_eq_sub_mod (by omega)]
    exact Nat.mod_eq_of_lt (by omega)

theorem abs_add_mod (A d N : Nat) : (A + d) % N = (A % N + d) % N := by
  rw [Nat.mod_add_mod]

theorem mod_ne_of_lt_of_lt {i j N : Nat} (h1 : i < j) (h2 : j < i + N) : i % N ≠ j % N := by
  intro h
  have h3 : (j - i) % N = 0 := Nat.sub_mod_eq_zero_of_mod_eq h.symm
  rw [Nat.mod_eq_of_lt (by omega)] at h3
  omega

theorem writeSize_eq {A D N : Nat} (hN : 0 < N) (hD : D + 1 ≤ N) :
    writeSize ((A + D) % N) (A % N) N = N - 1 - D := by
  have hx : A % N < N := Nat.mod_lt _ hN
  rw [abs_add_mod A D N, add_mod_cases hx (by omega)]
  generalize A % N = x at *
  unfold writeSize
  split
  · -- no wrap
    by_cases hD0 : D = 0
    · subst hD0; simp
    · rw [if_neg (by omega)]
      have : x + N - (x + D) = N - D := by omega
      rw [this, Nat.mod_eq_of_lt (by omega)]
      omega
  · rw [if_neg (by omega)]
    have : x + N - (x + D - N) = N + (N - D) := by omega
    rw [this, Nat.add_mod_left, Nat.mod_eq_of_lt (by omega)]
    omega

theorem readSize_eq {A D N : Nat} (hN : 0 < N) (hD : D + 1 ≤ N) :
    readSize ((A + D) % N) (A % N) N = D := by
  have hx : A % N < N := Nat.mod_lt _ hN
  rw [abs_add_mod A D N, add_mod_cases hx (by omega)]
  generalize A % N = x at *
  unfold readSize
  split
  · have : x + D + N - x = D + N := by omega
    rw [this, Nat.add_mod_right, Nat.mod_eq_of_lt (by omega)]
  · have : x + D - N + N - x = D := by omega
    rw [this, Nat.mod_eq_of_lt (by omega)]

theorem chunkLen_le (chunk rem : Nat) : chunkLen chunk rem ≤ rem := by
  unfold chunkLen; split <;> omega

theorem chunkLen_pos {chunk rem : Nat} (h : 0 < rem) : 0 < chunkLen chunk rem := by
  unfold chunkLen; split <;> omega

/-- the memcpy step after `k` of `len` bytes of a transfer starting at absolute position `A`:
    stays inside the block, inside the transfer, and addresses the bytes `A+k, A+k+1, …` -/
theorem chunkAt_spec {A len N chunk k : Nat} (hN : 0 < N) (hlen : len + 1 ≤ N) (hk : k < len) :
    let oc := chunkAt N (A % N) len chunk k
    0 < oc.2 ∧ k + oc.2 ≤ len ∧ oc.1 + oc.2 ≤ N ∧ ∀ i, i < oc.2 → (A + (k + i)) % N = oc.1 + i := by
  have hx : A % N < N := Nat.mod_lt _ hN
  have key : ∀ i, (A + (k + i)) % N = (A % N + (k + i)) % N := fun i => abs_add_mod A (k + i) N
  simp only [key]
  generalize A % N = x at *
  unfold chunkAt
  rw [add_mod_cases hx (by omega)]
  by_cases h1 : x + len < N
  · rw [if_pos h1, if_neg (by omega)]
    have := chunkLen_le chunk (len - k)
    have := chunkLen_pos (chunk := chunk) (rem := len - k) (by omega)
    refine ⟨by assumption, by omega, by simp only; omega, ?_⟩
    intro i hi
    simp only at hi ⊢
    rw [Nat.mod_eq_of_lt (by omega)]; omega
  · rw [if_neg h1, if_pos (by omega)]
    simp only
    by_cases h2 : k < N - x
    · rw [if_pos h2]
      have := chunkLen_le chunk (N - x - k)
      have := chunkLen_pos (chunk := chunk) (rem := N - x - k) (by omega)
      refine ⟨by assumption, by omega, by simp only; omega, ?_⟩
      intro i hi
      simp only at hi ⊢
      rw [Nat.mod_eq_of_lt (by omega)]; omega
    · rw [if_neg h2]
      have := chunkLen_le chunk (len - k)
      have := chunkLen_pos (chunk := chunk) (rem := len - k) (by omega)
      refine ⟨by assumption, by omega, by simp only; omega, ?_⟩
      intro i hi
      simp only at hi ⊢
      rw [Nat.mod_eq_sub_mod (by omega), Nat.mod_eq_of_lt (by omega)]; omega

/-! ### byte lists -/

theorem getD_ext {l1 l2 : Bytes} (hl : l1.length = l2.length)
    (h : ∀ i, i < l1.length → l1.getD i 0 = l2.getD i 0) : l1 = l2 := by
  apply List.ext_getElem hl
  intro i h1 h2
  have := h i h1
  simpa [List.getD_eq_getElem?_getD, List.getElem?_eq_getElem h1, List.getElem?_eq_getElem h2] using this

theorem getD_append_left' {l1 l2 : Bytes} {i : Nat} (h : i < l1.length) :
    (l1 ++ l2).getD i 0 = l1.getD i 0 := by
  simp [List.getD_eq_getElem?_getD, List.getElem?_append_left h]

theorem getD_append_right' {l1 l2 : Bytes} {i : Nat} (h : l1.length ≤ i) :
    (l1 ++ l2).getD i 0 = l2.getD (i - l1.length) 0 := by
  simp [List.getD_eq_getElem?_getD, List.getElem?_append_right h]

theorem getD_drop' (l : Bytes) (n i : Nat) : (l.drop n).getD i 0 = l.getD (n + i) 0 := by
  simp [List.getD_eq_getElem?_getD, List.getElem?_drop]

theorem getD_take' {l : Bytes} {n i : Nat} (h : i < n) : (l.take n).getD i 0 = l.getD i 0 := by
  simp [List.getD_eq_getElem?_getD, h]

theorem blit_ok {dst src : Bytes} {off : Nat} (h : off + src.length ≤ dst.length) :
    blit dst off src = (dst.take off ++ src ++ dst.drop (off + src.length), true) := by
  unfold blit; rw [if_pos h]

theorem blit_length {dst src : Bytes} {off : Nat} (h : off + src.length ≤ dst.length) :
    (blit dst off src).1.length = dst.length := by
  rw [blit_ok h]; simp; omega

theorem blit_getD_in {dst src : Bytes} {off j : Nat} (h : off + src.length ≤ dst.length)
    (h1 : off ≤ j) (h2 : j < off + src.length) :
    (blit dst off src).1.getD j 0 = src.getD (j - off) 0 := by
  have hl : (dst.take off).length = off := by simp; omega
  rw [blit_ok h]
  simp only
  rw [getD_append_left' (by rw [List.length_append, hl]; omega),
      getD_append_right' (by rw [hl]; exact h1), hl]

theorem blit_getD_out {dst src : Bytes} {off j : Nat} (h : off + src.length ≤ dst.length)
    (h1 : j < off ∨ off + src.length ≤ j) :
    (blit dst off src).1.getD j 0 = dst.getD j 0 := by
  have hl : (dst.take off).length = off := by simp; omega
  rw [blit_ok h]
  simp only
  rcases h1 with h1 | h1
  · rw [List.append_assoc, getD_append_left' (by rw [hl]; exact h1), getD_take' h1]
  · have hl2 : (dst.take off ++ src).length = off + src.length := by rw [List.length_append, hl]
    rw [getD_append_right' (by rw [hl2]; exact h1), getD_drop', hl2]
    congr 1; omega

theorem blit_nil {dst : Bytes} {off : Nat} (h : off ≤ dst.length) : blit dst off [] = (dst, true) := by
  rw [blit_ok (by simpa using h)]; simp

theorem slice_ok {b : Bytes} {off n : Nat} (h : off + n ≤ b.length) :
    slice b off n = ((b.drop off).take n, true) := by
  unfold slice; rw [if_pos h]

theorem slice_length {b : Bytes} {off n : Nat} (h : off + n ≤ b.length) :
    (slice b off n).1.length = n := by
  rw [slice_ok h]; simp; omega

theorem slice_getD {b : Bytes} {off n i : Nat} (h : off + n ≤ b.length) (hi : i < n) :
    (slice b off n).1.getD i 0 = b.getD (off + i) 0 := by
  rw [slice_ok h]; simp only
  rw [getD_take' hi, getD_drop']

/-! ### messages laid end to end -/

/-- absolute position at which message number `n` of `P` starts -/
def offs (P : List Bytes) (n : Nat) : Nat := (P.take n).flatten.length

theorem offs_zero (P : List Bytes) : offs P 0 = 0 := by simp [offs]

theorem offs_length (P : List Bytes) : offs P P.length = P.flatten.length := by simp [offs]

theorem offs_succ {P : List Bytes} {n : Nat} (h : n < P.length) :
    offs P (n + 1) = offs P n + P[n].length := by
  unfold offs
  rw [List.take_succ_eq_append_getElem h, List.flatten_append, List.length_append]
  simp

theorem offs_mono {P : List Bytes} {a b : Nat} (h : a ≤ b) : offs P a ≤ offs P b := by
  induction b with
  | zero => have : a = 0 := by omega
            subst this; exact Nat.le_refl _
  | succ n ih =>
    by_cases hab : a = n + 1
    · subst hab; exact Nat.le_refl _
    · have ih := ih (by omega)
      by_cases hn : n < P.length
      · rw [offs_succ hn]; omega
      · have : offs P (n + 1) = offs P n := by
          unfold offs; rw [List.take_of_length_le (by omega), List.take_of_length_le (by omega)]
        omega

theorem offs_le_total (P : List Bytes) (n : Nat) : offs P n ≤ P.flatten.length := by
  by_cases h : n ≤ P.length
  · rw [← offs_length]; exact offs_mono h
  · unfold offs; rw [List.take_of_length_le (by omega)]; exact Nat.le_refl _

theorem offs_append {P : List Bytes} {n : Nat} (m : Bytes) (h : n ≤ P.length) :
    offs (P ++ [m]) n = offs P n := by
  unfold offs; rw [List.take_append_of_le_length h]

/-- from message `n` on, the byte stream is message `n` followed by the rest -/
theorem flatten_drop_offs {P : List Bytes} {n : Nat} (h : n < P.length) :
    P.flatten.drop (offs P n) = P[n] ++ (P.drop (n + 1)).flatten := by
  have h1 : P.flatten = (P.take n).flatten ++ (P[n] ++ (P.drop (n + 1)).flatten) := by
    conv => lhs; rw [← List.take_append_drop n P]
    rw [List.flatten_append, List.drop_eq_getElem_cons h, List.flatten_cons]
  rw [h1]
  exact List.drop_left' rfl

theorem getElem_length_le_total {P : List Bytes} {n : Nat} (h : n < P.length) :
    offs P n + P[n].length ≤ P.flatten.length := by
  rw [← offs_succ h]; exact offs_le_total P (n + 1)

/-- byte `i` of message `n` is byte `offs P n + i` of the stream -/
theorem flatten_getD_msg {P : List Bytes} {n i : Nat} (h : n < P.length) (hi : i < P[n].length) :
    P.flatten.getD (offs P n + i) 0 = P[n].getD i 0 := by
  rw [← getD_drop', flatten_drop_offs h, getD_append_left' hi]

theorem offs_lt_of_lt {P : List Bytes} {a b : Nat} (hne : ∀ m ∈ P, m ≠ []) (h : a < b)
    (hb : b ≤ P.length) : offs P a < offs P b := by
  have h1 : offs P (a + 1) ≤ offs P b := offs_mono (by omega)
  have ha : a < P.length := by omega
  rw [offs_succ ha] at h1
  have : P[a] ≠ [] := hne _ (List.getElem_mem ha)
  have : 0 < P[a].length := List.length_pos_iff.mpr this
  omega

/-! ### ring contents -/

/-- the ring holds the stream bytes of the absolute positions `[lo, hi)` -/
def Holds (b : Bytes) (N : Nat) (strm : Bytes) (lo hi : Nat) : Prop :=
  ∀ i, lo ≤ i → i < hi → b.getD (i % N) 0 = strm.getD i 0

theorem Holds.mono {b : Bytes} {N : Nat} {strm : Bytes} {lo hi lo' hi' : Nat}
    (h : Holds b N strm lo hi) (h1 : lo ≤ lo') (h2 : hi' ≤ hi) : Holds b N strm lo' hi' :=
  fun i hi1 hi2 => h i (by omega) (by omega)

/-- one memcpy step into the ring extends the held range and disturbs nothing in it -/
theorem Holds.blit {b : Bytes} {N : Nat} {strm src : Bytes} {lo hi off : Nat}
    (h : Holds b N strm lo hi) (hb : b.length = N) (hsp : hi + src.length ≤ lo + N)
    (hoff : off + src.length ≤ N) (hpos : ∀ i, i < src.length → (hi + i) % N = off + i)
    (hsrc : ∀ i, i < src.length → src.getD i 0 = strm.getD (hi + i) 0) :
    Holds (Ring.blit b off src).1 N strm lo (hi + src.length) := by
  intro i h1 h2
  have hok : off + src.length ≤ b.length := by omega
  by_cases hi' : i < hi
  · rw [blit_getD_out hok]
    · exact h i h1 hi'
    · by_cases hc : off ≤ i % N ∧ i % N < off + src.length
      · exfalso
        have ht := hpos (i % N - off) (by omega)
        have : off + (i % N - off) = i % N := by omega
        rw [this] at ht
        exact mod_ne_of_lt_of_lt (i := i) (j := hi + (i % N - off)) (by omega) (by omega) ht.symm
      · omega
  · have ht := hpos (i - hi) (by omega)
    have e : hi + (i - hi) = i := by omega
    rw [e] at ht
    rw [ht, blit_getD_in hok (by omega) (by omega)]
    have := hsrc (i - hi) (by omega)
    rw [e] at this
    rw [← this]; congr 1; omega

/-- `ring_read_vector`: the two segments, concatenated, are the held stream bytes -/
theorem readVector_holds {b : Bytes} {N A V : Nat} {strm : Bytes} (hN : 0 < N) (hb : b.length = N)
    (hV : V + 1 ≤ N) (h : Holds b N strm A (A + V)) (hs : A + V ≤ strm.length) :
    (readVector b N ((A + V) % N) (A % N)).2.2 = true ∧
    (readVector b N ((A + V) % N) (A % N)).1 ++ (readVector b N ((A + V) % N) (A % N)).2.1
      = (strm.drop A).take V := by
  have hx : A % N < N := Nat.mod_lt _ hN
  have hpos : ∀ i, (A + i) % N = (A % N + i) % N := fun i => abs_add_mod A i N
  have rhs : ∀ i, i < V → ((strm.drop A).take V).getD i 0 = b.getD ((A % N + i) % N) 0 := by
    intro i hi
    rw [getD_take' hi, getD_drop', ← h (A + i) (by omega) (by omega), hpos]
  have rlen : ((strm.drop A).take V).length = V := by simp; omega
  unfold readVector
  rw [readSize_eq hN hV]
  generalize A % N = x at *
  simp only
  by_cases hw : V + x > N
  · rw [if_pos hw]
    have e2 : (V + x) % N = V + x - N := by
      rw [Nat.mod_eq_sub_mod (by omega), Nat.mod_eq_of_lt (by omega)]
    rw [e2]
    have e1 : V - (V + x - N) = N - x := by omega
    rw [e1]
    have ok0 : x + (N - x) ≤ b.length := by omega
    have ok1 : 0 + (V + x - N) ≤ b.length := by omega
    rw [slice_ok ok0, slice_ok ok1]
    refine ⟨rfl, ?_⟩
    simp only
    have l0 : ((b.drop x).take (N - x)).length = N - x := by simp; omega
    have l1 : ((b.drop 0).take (V + x - N)).length = V + x - N := by simp; omega
    apply getD_ext
    · rw [List.length_append, l0, l1, rlen]; omega
    · intro i hi
      have hi : i < V := by rw [List.length_append, l0, l1] at hi; omega
      rw [rhs i hi]
      by_cases h0 : i < N - x
      · rw [getD_append_left' (by rw [l0]; exact h0), getD_take' h0, getD_drop',
            Nat.mod_eq_of_lt (by omega)]
      · rw [getD_append_right' (by rw [l0]; omega), l0, getD_take' (by omega), getD_drop',
            Nat.mod_eq_sub_mod (by omega), Nat.mod_eq_of_lt (by omega)]
        congr 1; omega
  · rw [if_neg hw]
    have ok0 : x + V ≤ b.length := by omega
    rw [slice_ok ok0]
    refine ⟨rfl, ?_⟩
    simp only [List.append_nil]
    have l0 : ((b.drop x).take V).length = V := by simp; omega
    apply getD_ext
    · rw [l0, rlen]
    · intro i hi
      have hi : i < V := by rw [l0] at hi; exact hi
      rw [rhs i hi, getD_take' hi, getD_drop', Nat.mod_eq_of_lt (by omega)]

/-- one memcpy step out of the ring delivers the held stream bytes -/
theorem slice_holds {b : Bytes} {N lo hi p off c : Nat} {strm : Bytes} (hb : b.length = N)
    (h : Holds b N strm lo hi) (hlo : lo ≤ p) (hhi : p + c ≤ hi) (hs : hi ≤ strm.length)
    (hoff : off + c ≤ N) (hpos : ∀ i, i < c → (p + i) % N = off + i) :
    slice b off c = ((strm.drop p).take c, true) := by
  rw [slice_ok (by omega)]
  congr 1
  apply getD_ext
  · simp; omega
  · intro i hi'
    have hi' : i < c := by simp at hi'; omega
    rw [getD_take' hi', getD_take' hi', getD_drop', getD_drop', ← hpos i hi',
        h (p + i) (by omega) (by omega)]

/-! ### the stream of published messages -/

theorem stream_msg {P : List Bytes} {X k c : Nat} (infl : Bytes) (h : X < P.length)
    (hk : k + c ≤ P[X].length) :
    ((P.flatten ++ infl).drop (offs P X + k)).take c = (P[X].drop k).take c := by
  rw [← List.drop_drop, List.drop_append_of_le_length (offs_le_total P X), flatten_drop_offs h,
      List.append_assoc, List.drop_append_of_le_length (by omega),
      List.take_append_of_le_length (by simp; omega)]

theorem stream_view {P : List Bytes} {X j : Nat} (infl : Bytes) (hX : X ≤ j) :
    ((P.flatten ++ infl).drop (offs P X)).take (offs P j - offs P X)
      = ((P.take j).drop X).flatten := by
  have e1 : (P.take j).flatten = (P.take X).flatten ++ ((P.take j).drop X).flatten := by
    conv => lhs; rw [← List.take_append_drop X (P.take j)]
    rw [List.flatten_append, List.take_take, Nat.min_eq_left hX]
  have e2 : P.flatten = (P.take j).flatten ++ (P.drop j).flatten := by
    conv => lhs; rw [← List.take_append_drop j P]
    rw [List.flatten_append]
  have e3 : offs P j - offs P X = ((P.take j).drop X).flatten.length := by
    unfold offs; rw [e1]; simp
  rw [e3, e2, e1, List.append_assoc, List.append_assoc]
  unfold offs
  rw [List.drop_left' rfl, List.take_left' rfl]

theorem view_head {P : List Bytes} {X j : Nat} (hX : X < j) (hj : j ≤ P.length) :
    ((P.take j).drop X).flatten = P[X]'(by omega) ++ ((P.take j).drop (X + 1)).flatten := by
  have h : X < (P.take j).length := by simp; omega
  rw [List.drop_eq_getElem_cons h, List.flatten_cons]
  simp

end Rtosc.Ring
