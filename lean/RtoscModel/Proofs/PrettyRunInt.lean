/-
  C10 — tier 3: integer arithmetic runs.  With range compression on, a list that is one
  arithmetic run of `n ≥ 5` int32 values is printed as `a ... z` (step ±1) or `a b ... z`
  (other steps); checker and scanner read the text back as the range block.
-/
import RtoscModel.Proofs.PrettyMsg
import RtoscModel.Proofs.PrettyTokNum
namespace Rtosc.Pretty
open Rtosc Rtosc.Libc
open Rtosc.ArgVal (Cell)

/-- the arithmetic run `a, a+d, …, a+(n-1)d` as 'i' cells -/
def arithRun (a d : Int) (n : Nat) : List Cell :=
  (List.range n).map (fun (k : Nat) => Cell.int .i (a + (k : Int) * d))

/-! ### arithmetic -/

theorem mul_bound (n : Nat) (d : Int) (hwidth : ((n : Int) - 1) * d.natAbs ≤ 2147483647) (k : Nat)
    (hk : (k : Int) ≤ (n : Int) - 1) :
    -2147483647 ≤ (k : Int) * d ∧ (k : Int) * d ≤ 2147483647 := by
  obtain ⟨m, rfl | rfl⟩ := Int.eq_nat_or_neg d
  · simp only [Int.natAbs_natCast] at hwidth
    have h1 : (k : Int) * (m : Int) ≤ ((n : Int) - 1) * (m : Int) :=
      Int.mul_le_mul_of_nonneg_right hk (Int.natCast_nonneg _)
    have h0 : 0 ≤ (k : Int) * (m : Int) := Int.mul_nonneg (Int.natCast_nonneg _) (Int.natCast_nonneg _)
    omega
  · simp only [Int.natAbs_neg, Int.natAbs_natCast] at hwidth
    have h1 : (k : Int) * (m : Int) ≤ ((n : Int) - 1) * (m : Int) :=
      Int.mul_le_mul_of_nonneg_right hk (Int.natCast_nonneg _)
    have h0 : 0 ≤ (k : Int) * (m : Int) := Int.mul_nonneg (Int.natCast_nonneg _) (Int.natCast_nonneg _)
    rw [Int.mul_neg]
    omega

theorem succ_mul' (k : Nat) (d : Int) : ((k + 1 : Nat) : Int) * d = (k : Int) * d + d := by
  rw [Int.natCast_succ, Int.add_mul, Int.one_mul]

/-! ### the run -/

theorem arithRun_length (a d : Int) (n : Nat) : (arithRun a d n).length = n := by
  simp [arithRun]

theorem arithRun_drop (a d : Int) (n k : Nat) (hk : k < n) :
    (arithRun a d n).drop k = Cell.int .i (a + (k : Int) * d) :: (arithRun a d n).drop (k + 1) := by
  rw [List.drop_eq_getElem_cons (by rw [arithRun_length]; exact hk)]
  simp [arithRun]

theorem arithRun_cons (a d : Int) (n : Nat) (hn : 0 < n) :
    arithRun a d n = Cell.int .i a :: (arithRun a d n).drop 1 := by
  have := arithRun_drop a d n 0 hn
  simpa using this

theorem eqSingle_int (x y : Int) (l r : List Cell) :
    eqSingle (Cell.int .i x :: l) (Cell.int .i y :: r) = .ok (decide (x = y)) := by
  simp [eqSingle, ArgVal.eqSingle, ArgVal.deref, ArgVal.Cell.asArr, ArgVal.eqScalar, ArgVal.Cell.type, liftAV, bind, Except.bind,
    pure, Except.pure]

theorem addAV_int (x y : Int) : addAV (Cell.int .i x) (Cell.int .i y) = .ok (some (Cell.int .i (toI32 (x + y)))) := by
  simp [addAV, ArgVal.Cell.type]

theorem subAV_int (x y : Int) : subAV (Cell.int .i x) (Cell.int .i y) = .ok (some (Cell.int .i (toI32 (x - y)))) := by
  simp [subAV, ArgVal.Cell.type]

theorem multAV_int (x y : Int) : multAV (Cell.int .i x) (Cell.int .i y) = .ok (some (Cell.int .i (toI32 (x * y)))) := by
  simp [multAV, ArgVal.Cell.type]

/-- the hypotheses on the run -/
structure RunHyp (a d : Int) (n : Nat) : Prop where
  hn : 5 ≤ n
  hd : d ≠ 0
  hrange : ∀ k : Nat, k ≤ n → -2147483648 ≤ a + (k : Int) * d ∧ a + (k : Int) * d ≤ 2147483647
  hwidth : ((n : Int) - 1) * d.natAbs ≤ 2147483647
  hn32 : (n : Int) ≤ 2147483647

theorem RunHyp.mul {a d : Int} {n : Nat} (h : RunHyp a d n) (k : Nat) (hk : k + 1 ≤ n) :
    -2147483647 ≤ (k : Int) * d ∧ (k : Int) * d ≤ 2147483647 :=
  mul_bound n d h.hwidth k (by omega)

theorem RunHyp.dbound {a d : Int} {n : Nat} (h : RunHyp a d n) : -2147483647 ≤ d ∧ d ≤ 2147483647 := by
  have := h.mul 1 (by have := h.hn; omega)
  simpa using this

/-! ### stage 1: `rtosc_convert_to_range` -/

theorem countCommon_run (a d : Int) (n : Nat) :
    ∀ (fuel i m : Nat), i ≤ n → n - i < fuel →
      countCommon fuel 105 (arithRun a d n) n i m = .ok (m + (n - i)) := by
  intro fuel
  induction fuel with
  | zero => intro i m _ h; omega
  | succ f ih =>
    intro i m hi hf
    unfold countCommon
    by_cases hlt : i < n
    · simp only [hlt, ↓reduceIte, arithRun_drop a d n i hlt, deref, bind, Except.bind,
        incsize_scalar _ _ (show (Cell.int .i (a + (i : Int) * d)).isScalar = true from rfl)]
      simp only [ArgVal.Cell.type, ArgVal.IntTy.char, ne_eq, not_true_eq_false, ↓reduceIte]
      rw [ih (i + 1) (m + 1) (by omega) (by omega)]
      congr 1; omega
    · simp only [hlt, ↓reduceIte, pure, Except.pure]
      congr 1; omega

theorem extendRun_run {a d : Int} {n : Nat} (h : RunHyp a d n) :
    ∀ (fuel s c : Nat), 1 ≤ s → s < n → n - s < fuel →
      extendRun fuel (arithRun a d n) n (some (Cell.int .i d)) s c = .ok (n, c + (n - s)) := by
  intro fuel
  induction fuel with
  | zero => intro s c _ _ hf; omega
  | succ f ih =>
    intro s c hs1 hsn hf
    unfold extendRun
    have hr := h.hrange (s + 1) (by omega)
    have hr0 := h.hrange s (by omega)
    rw [succ_mul'] at hr
    have hso : rangeStepOverflows (Cell.int .i (a + (s : Int) * d)) (Cell.int .i d) = false := by
      simp only [rangeStepOverflows, Bool.or_eq_false_iff, decide_eq_false_iff_not]
      omega
    have hadd : addAV (Cell.int .i (a + (s : Int) * d)) (Cell.int .i d) =
        .ok (some (Cell.int .i (a + ((s + 1 : Nat) : Int) * d))) := by
      rw [addAV_int, succ_mul', toI32_id _ (by omega) (by omega), Int.add_assoc]
    simp only [arithRun_drop a d n s hsn, deref, bind, Except.bind,
      incsize_scalar _ _ (show (Cell.int .i (a + (s : Int) * d)).isScalar = true from rfl), hso, hadd, must,
      pure, Except.pure, Bool.false_eq_true, ↓reduceIte]
    by_cases hge : s + 1 ≥ n
    · simp only [hge, ↓reduceIte]
      congr 2 <;> omega
    · have hlt : s + 1 < n := by omega
      have hw := h.mul (s + 1) (by omega)
      have hwo : rangeWidthOverflows (Cell.int .i a) (Cell.int .i (a + ((s + 1 : Nat) : Int) * d)) = false := by
        simp only [rangeWidthOverflows, Bool.or_eq_false_iff, decide_eq_false_iff_not]
        omega
      simp only [hge, ↓reduceIte, arithRun_drop a d n (s + 1) hlt, eqSingle_int, decide_true, Bool.not_true,
        Bool.false_eq_true]
      rw [arithRun_cons a d n (by omega)]
      simp only [hwo, Bool.false_eq_true, ↓reduceIte]
      rw [← arithRun_cons a d n (by omega), ih (s + 1) (c + 1) (by omega) hlt (by omega)]
      congr 2; omega

theorem convertToRange_run (opt : POpt) (hc : opt.compress = true) {a d : Int} {n : Nat} (h : RunHyp a d n) :
    convertToRange opt (arithRun a d n) n =
      .ok (some (n, [Cell.rep n 1, Cell.int .i d, Cell.int .i a])) := by
  have hn := h.hn
  have hdb := h.dbound
  have hr0 := h.hrange 0 (by omega)
  have hr1 := h.hrange 1 (by omega)
  simp only [Int.natCast_zero, Int.zero_mul, Int.add_zero, Int.natCast_one, Int.one_mul] at hr0 hr1
  have hnot : ¬ (n < rangeMin) := by unfold rangeMin; omega
  have hnot' : ¬ (n < 5) := by omega
  have hd1 : (arithRun a d n).drop 1 = Cell.int .i (a + d) :: (arithRun a d n).drop 2 := by
    have := arithRun_drop a d n 1 (by omega)
    simpa using this
  unfold convertToRange
  rw [arithRun_cons a d n (by omega)]
  simp only [hnot, ↓reduceIte, deref, bind, Except.bind, hc, Bool.not_true, Bool.false_eq_true, or_false,
    ArgVal.Cell.type, ArgVal.IntTy.char, ArgVal.tyRange, show ((105 : UInt8) = 45) = False from by decide]
  rw [← arithRun_cons a d n (by omega), countCommon_run a d n (n + 1) 0 0 (by omega) (by omega)]
  simp only [Nat.zero_add, Nat.sub_zero, hnot, ↓reduceIte]
  rw [arithRun_cons a d n (by omega)]
  simp only [incsize_scalar _ _ (show (Cell.int .i a).isScalar = true from rfl), List.drop_succ_cons, List.drop_zero]
  rw [← arithRun_cons a d n (by omega), hd1]
  have hne : ¬ (a = a + d) := by have := h.hd; omega
  have hident : rangeArgsIdentical (arithRun a d n) (Cell.int .i (a + d) :: (arithRun a d n).drop 2) = .ok false := by
    unfold rangeArgsIdentical
    rw [arithRun_cons a d n (by omega)]
    simp [eqSingle_int, hne, bind, Except.bind, pure, Except.pure]
  have hsub : subAV (Cell.int .i (a + d)) (Cell.int .i a) = .ok (some (Cell.int .i d)) := by
    rw [subAV_int, toI32_id _ (by omega) (by omega)]
    congr 3; omega
  have hso : rangeStepOverflows (Cell.int .i a) (Cell.int .i d) = false := by
    simp only [rangeStepOverflows, Bool.or_eq_false_iff, decide_eq_false_iff_not]
    omega
  simp only [hident, Bool.false_eq_true, ↓reduceIte, show (lit "cihTF").contains (105 : UInt8) = true from by decide,
    hsub, must, bind, Except.bind, pure, Except.pure, hso]
  rw [extendRun_run h (n + 1) 1 1 (by omega) (by omega) (by omega)]
  have : 1 + (n - 1) = n := by omega
  simp only [this, rangeMin, ge_iff_le, hn, ↓reduceIte, Option.isSome_some, List.cons_append, List.nil_append]
  rw [arithRun_cons a d n (by omega)]
  simp

/-! ### stage 2: the printer -/

theorem printArgVal_int_ri (f : Nat) (opt : POpt) (v : Int) (more : List Cell) (prev : Option Cell) (st : PSt) :
    printArgVal (f + 1) opt (Cell.int .i v :: more) prev st =
      .ok (⟨st.out ++ fmtDec v, st.cols + ((fmtDec v).length : Nat)⟩, (fmtDec v).length) := by
  simp [printArgVal, deref, bind, Except.bind, pure, Except.pure]

theorem rangeArg_int (hdr : Cell) (d a k : Int) (more : List Cell) :
    rangeArg (hdr :: Cell.int .i d :: Cell.int .i a :: more) k =
      .ok (some (Cell.int .i (toI32 (a + toI32 (k * d))))) := by
  simp [rangeArg, fromInt, multAV_int, addAV_int, bind, Except.bind]

theorem lit_ell : lit " ... " = [32, 46, 46, 46, 32] := by decide

/-- the text in front of the ellipsis -/
def runHead (a d : Int) : Bytes := if d = 1 ∨ d = -1 then fmtDec a else fmtDec a ++ 32 :: fmtDec (a + d)

/-- the text of the whole range; `sep` is a blank or a line break -/
def runText_ri (a d : Int) (n : Nat) (sep : Bytes) : Bytes :=
  runHead a d ++ ([32, 46, 46, 46] ++ (sep ++ fmtDec (a + ((n - 1 : Nat) : Int) * d)))

theorem initArgsWritten_ell (pre : Bytes) (cols : Int) (hcols : cols ≠ 0) :
    initArgsWritten ⟨pre ++ lit " ... ", cols⟩ = .ok 1 := by
  simp [initArgsWritten, hcols, lit_ell, show isspace 32 = true from by decide]

theorem printRangeElems_last (opt : POpt) {a d : Int} {n : Nat} (h : RunHyp a d n) (f : Nat) (pre : Bytes)
    (cols : Int) (wrt : Nat) :
    ∃ (sep : Bytes) (cols' : Int), IsSepTxt sep ∧
      printRangeElems (printArgVal (f + 1) opt) opt [Cell.rep n 1, Cell.int .i d, Cell.int .i a] 1
        ((n - 1 : Nat) : Int) ⟨pre ++ lit " ... ", cols⟩ wrt (((pre ++ lit " ... ").length : Int) - 1) 1 1 =
      .ok (⟨pre ++ [32, 46, 46, 46] ++ sep ++ fmtDec (a + ((n - 1 : Nat) : Int) * d) ++ [32], cols'⟩,
           wrt + (fmtDec (a + ((n - 1 : Nat) : Int) * d)).length + (sep.length - 1) + 1) := by
  have hn := h.hn
  have hrz := h.hrange (n - 1) (by omega)
  have hmz := h.mul (n - 1) (by omega)
  have hz : rangeArg [Cell.rep n 1, Cell.int .i d, Cell.int .i a] ((n - 1 : Nat) : Int) =
      .ok (some (Cell.int .i (a + ((n - 1 : Nat) : Int) * d))) := by
    rw [rangeArg_int, toI32_id (((n - 1 : Nat) : Int) * d) (by omega) (by omega), toI32_id _ hrz.1 hrz.2]
  generalize hZ : fmtDec (a + ((n - 1 : Nat) : Int) * d) = Z at *
  have hout : pre ++ lit " ... " = (pre ++ [32, 46, 46, 46]) ++ [32] := by simp [lit_ell]
  obtain ⟨pre1, cols1, awl1, hlb, _, hpre1⟩ := linebreakCheck_tok (pre ++ lit " ... ") Z
    (cols + (Z.length : Nat)) (wrt + Z.length) (((pre ++ lit " ... ").length : Int) - 1) 1 opt.linelength
    (Or.inr ⟨pre ++ [32, 46, 46, 46], hout, by rw [hout]; simp; omega⟩)
  unfold printRangeElems
  simp only [show ((1 : Int) ≠ 0) from by decide, ne_eq, not_false_eq_true, ↓reduceIte, hz, must, bind, Except.bind, pure, Except.pure,
    printArgVal_int_ri, hZ, hlb]
  unfold printRangeElems
  rcases hpre1 with hp | ⟨base, hb1, hb2⟩
  · refine ⟨[32], cols1 + 1, Or.inl rfl, ?_⟩
    subst hp
    simp [lit_ell]
  · have hbase : base = pre ++ [32, 46, 46, 46] := by
      rw [hout] at hb1
      exact (List.append_inj_left' hb1 rfl).symm
    refine ⟨nl4, cols1 + 1, Or.inr rfl, ?_⟩
    subst hb2; subst hbase
    simp [lit_ell, nl4]

theorem printRange_run (opt : POpt) (hc : opt.compress = true) {a d : Int} {n : Nat} (h : RunHyp a d n)
    (f : Nat) (st : PSt) (hcols : 0 ≤ st.cols) :
    ∃ (sep : Bytes) (cols' : Int), IsSepTxt sep ∧
      printRange (printArgVal (f + 1) opt) opt [Cell.rep n 1, Cell.int .i d, Cell.int .i a] none st =
        .ok (⟨st.out ++ runText_ri a d n sep, cols'⟩, (runText_ri a d n sep).length) := by
  have hn := h.hn
  have hdb := h.dbound
  have hr0 := h.hrange 0 (by omega)
  have hr1 := h.hrange 1 (by omega)
  have hrz := h.hrange (n - 1) (by omega)
  have hmz := h.mul (n - 1) (by omega)
  simp only [Int.natCast_zero, Int.zero_mul, Int.add_zero, Int.natCast_one, Int.one_mul] at hr0 hr1
  have hn0 : ¬ ((n : Int) = 0) := by omega
  have hstart : (n : Int) - 1 = ((n - 1 : Nat) : Int) := by omega
  have hz : rangeArg [Cell.rep n 1, Cell.int .i d, Cell.int .i a] ((n - 1 : Nat) : Int) =
      .ok (some (Cell.int .i (a + ((n - 1 : Nat) : Int) * d))) := by
    rw [rangeArg_int, toI32_id (((n - 1 : Nat) : Int) * d) (by omega) (by omega), toI32_id _ hrz.1 hrz.2]
  have hb : rangeArg [Cell.rep n 1, Cell.int .i d, Cell.int .i a] 1 = .ok (some (Cell.int .i (a + d))) := by
    rw [rangeArg_int, Int.one_mul, toI32_id d (by omega) (by omega), toI32_id _ hr1.1 hr1.2]
  unfold printRange
  simp only [deref, bind, Except.bind, hc, ↓reduceIte, show ((1 : Int) ≠ 0) from by decide, ne_eq,
    List.drop_succ_cons, List.drop_zero, printArgVal_int_ri, fromInt, must, pure, Except.pure, eqSingle_int,
    hn0, not_false_eq_true, or_false, hstart]
  have hone : ((n : Int) - ((n - 1 : Nat) : Int)).toNat = 1 := by omega
  have hlt : ((n - 1 : Nat) : Int) < (n : Int) := by omega
  simp only [hone, hlt, ↓reduceIte, hb, printArgVal_int_ri]
  by_cases hu : d = 1 ∨ d = -1
  · have hun : (if decide (d = 1) = true then Except.ok true else Except.ok (decide (d = -1)) : Res Bool) = .ok true := by
      rcases hu with rfl | rfl <;> simp
    simp only [hun, Bool.not_false, Bool.and_self, decide_false, Bool.or_false, ↓reduceIte]
    rw [initArgsWritten_ell _ _ (by omega)]
    obtain ⟨sep, cols', hsep, hpe⟩ := printRangeElems_last opt h f (st.out ++ fmtDec a)
      (st.cols + ((fmtDec a).length : Nat) + 5) ((fmtDec a).length + 5)
    simp only [hpe]
    refine ⟨sep, cols', hsep, ?_⟩
    have hsl : 1 ≤ sep.length := by rcases hsep with rfl | rfl <;> simp
    rw [List.dropLast_concat]
    simp only [runText_ri, runHead, hu, ↓reduceIte, List.append_assoc, List.length_append, List.length_cons,
      List.length_nil]
    congr 2
    omega
  · have hun : (if decide (d = 1) = true then Except.ok true else Except.ok (decide (d = -1)) : Res Bool) = .ok false := by
      have h1 : ¬ d = 1 := fun e => hu (Or.inl e)
      have h2 : ¬ d = -1 := fun e => hu (Or.inr e)
      simp [h1, h2]
    simp only [hun, Bool.not_false, decide_false, Bool.or_false, ↓reduceIte, Bool.false_eq_true, Bool.and_true]
    rw [initArgsWritten_ell _ _ (by omega)]
    obtain ⟨sep, cols', hsep, hpe⟩ := printRangeElems_last opt h f (st.out ++ fmtDec a ++ [32] ++ fmtDec (a + d))
      (st.cols + ((fmtDec a).length : Nat) + 1 + ((fmtDec (a + d)).length : Nat) + 5)
      ((fmtDec a).length + 1 + (fmtDec (a + d)).length + 5)
    simp only [hpe]
    refine ⟨sep, cols', hsep, ?_⟩
    have hsl : 1 ≤ sep.length := by rcases hsep with rfl | rfl <;> simp
    rw [List.dropLast_concat]
    simp only [runText_ri, runHead, hu, ↓reduceIte, List.append_assoc, List.length_append, List.length_cons,
      List.cons_append, List.nil_append]
    congr 2
    omega

theorem printArgVal_rep (f : Nat) (opt : POpt) (num hdl : Int) (more : List Cell) (prev : Option Cell) (st : PSt) :
    printArgVal (f + 1) opt (Cell.rep num hdl :: more) prev st =
      printRange (printArgVal f opt) opt (Cell.rep num hdl :: more) prev st := by
  simp [printArgVal, deref, bind, Except.bind]

theorem printArgValsLoop_done_ri (fuel : Nat) (hf : 0 < fuel) (opt : POpt) (args : List Cell) (n i : Nat) (hi : ¬ i < n)
    (st : PSt) (wrt : Nat) (ls : Int) (awl : Nat) :
    printArgValsLoop fuel opt args n i st wrt ls awl = .ok (st, wrt) := by
  cases fuel with
  | zero => omega
  | succ f => simp [printArgValsLoop, hi, pure, Except.pure]

theorem printArgVals_run (opt : POpt) (hc : opt.compress = true) {a d : Int} {n : Nat} (h : RunHyp a d n) :
    ∃ (sep : Bytes) (cols' : Int), IsSepTxt sep ∧
      printArgVals opt (arithRun a d n) ⟨[], 0⟩ = .ok (⟨runText_ri a d n sep, cols'⟩, (runText_ri a d n sep).length) := by
  have hn := h.hn
  obtain ⟨sep, cols', hsep, hpr⟩ := printRange_run opt hc h (n + 1) ⟨[], 0⟩ (Int.le_refl _)
  refine ⟨sep, cols', hsep, ?_⟩
  have hderef : deref (arithRun a d n) = .ok (Cell.int .i a) := by
    rw [arithRun_cons a d n (by omega)]; rfl
  have hlt : 0 < n := by omega
  unfold printArgVals
  simp only [arithRun_length]
  rw [printArgValsLoop]
  simp only [hlt, ↓reduceIte, List.drop_zero, Nat.sub_zero, convertToRange_run opt hc h, hderef, bind, Except.bind,
    arithRun_length, printArgVal_rep, hpr, List.nil_append]
  have hbi : breaksItself (Cell.int .i a) = false := by
    simp only [breaksItself, ArgVal.Cell.type, ArgVal.IntTy.char]; decide
  have hlb : ∀ (st : PSt) (w : Nat) (ls : Int) (inc : Nat), linebreakCheck st w ls inc 0 opt.linelength = .ok (st, w, 1) := by
    intro st w ls inc
    simp [linebreakCheck]
  simp only [hbi, Bool.not_false, ↓reduceIte, ne_eq, not_true_eq_false, hlb, pure, Except.pure, Nat.zero_add,
    Nat.lt_irrefl]
  exact printArgValsLoop_done_ri n hlt opt _ n n (Nat.lt_irrefl _) _ _ _ _

/-! ### integer tokens in front of an ellipsis

`Sep` forbids "..." behind the token; the lemmas of `PrettyTokNum` are repeated here for the
weaker `SepW`. -/

/-- like `Sep`, without the condition on "..." -/
def SepW (rest : Bytes) : Prop :=
  (rest = [] ∨ isspace (hd rest) = true ∨ hd rest = 93) ∧ hd (skipSpace rest) ≠ 40

theorem Sep.toW {rest : Bytes} (h : Sep rest) : SepW rest := ⟨h.1, h.2.1⟩

theorem sepW_nil : SepW [] := sep_nil.toW

theorem numWordLen_sepW (rest : Bytes) (h : SepW rest) : numWordLen rest = 0 := by
  cases rest with
  | nil => rfl
  | cons c r =>
    rcases h.1 with h | h | h
    · cases h
    · simp only [hd_cons] at h; simp [numWordLen, h]
    · simp only [hd_cons] at h; simp [numWordLen, h]

theorem numWordLen_wordW (t rest : Bytes) (ht : ∀ c ∈ t, wordChar c = true) (h : SepW rest) :
    numWordLen (t ++ rest) = t.length := by
  induction t with
  | nil => simpa using numWordLen_sepW rest h
  | cons c r ih =>
    have hc := ht c (by simp)
    simp only [wordChar, Bool.and_eq_true, ne_eq, decide_eq_true_eq, Bool.not_eq_eq_eq_not, Bool.not_true] at hc
    obtain ⟨⟨⟨⟨⟨h1, h2⟩, h3⟩, h4⟩, _⟩, h37⟩ := hc
    have := ih (fun x hx => ht x (by simp [hx]))
    simp [numWordLen, h1, h2, h3, h37, startsWith, List.isPrefixOf, this]
    intro h46; exact absurd h46.symm h4

theorem sepW_hd_facts (rest : Bytes) (h : SepW rest) :
    isdigit (hd rest) = false ∧ hd rest ≠ 120 ∧ hd rest ≠ 88 ∧ hd rest ≠ 45 ∧ hd rest ≠ 104 := by
  rcases h.1 with h | h | h
  · subst h; decide
  · revert h; generalize hd rest = c; revert c; apply UInt8.forall_of_fin; decide +kernel
  · rw [h]; decide

theorem sepW_numEnd (rest : Bytes) (h : SepW rest) : NumEnd rest := by
  obtain ⟨a, b, c, d, _⟩ := sepW_hd_facts rest h
  exact ⟨a, d, b, c⟩

theorem scanfFmtstr_intW (t rest : Bytes) (v : Int) (hn : DecNum t v) (hs : SepW rest) :
    scanfFmtstr (t ++ rest) = some .d := by
  have hne := sepW_numEnd rest hs
  obtain ⟨_, _, _, _, h104⟩ := sepW_hd_facts rest hs
  have hlen : numWordLen (t ++ rest) = t.length :=
    numWordLen_wordW t rest (fun c hc => (numStart_facts c (hn.chars c hc)).2.2.2.2.2.2.2.2.2.2.2.1) hs
  have hpos : 0 < t.length := List.length_pos_iff.mpr hn.ne
  unfold scanfFmtstr
  simp only [hlen, List.find?, scanRd, sscanf_h_try_fail t rest v (hn.scan_i rest hne) h104,
    sscanf_d_try t rest v (hn.scan_d rest hne)]
  have : (0 : Nat) ≠ t.length := by omega
  simp [this]

theorem scanNumeric_intW (t rest : Bytes) (v : Int) (hn : DecNum t v) (hs : SepW rest)
    (h1 : -2147483648 ≤ v) (h2 : v ≤ 2147483647) :
    scanNumeric (t ++ rest) = .ok ⟨rest, [Cell.int .i v], true⟩ := by
  have hne := sepW_numEnd rest hs
  have hfmt := scanfFmtstr_intW t rest v hn hs
  have hsc := sscanf_d_scan t rest v (hn.scan_d rest hne)
  have hpass : scanNumberPass (t ++ rest) 0 none = .ok (t.length, 105, (v % 4294967296).toNat) := by
    simp [scanNumberPass, hfmt, NumFmt.type, hsc, toI32_id v h1 h2, bind, Except.bind, pure, Except.pure]
  have h40 := hs.2
  have hcell : cellOfRaw 105 (v % 4294967296).toNat = .ok (Cell.int .i v) := by
    have hv : toI32 (((v % 4294967296).toNat : Int) % 4294967296) = v := by
      unfold toI32; omega
    unfold cellOfRaw
    simp only [show (105 : UInt8) ≠ 104 from by decide, ↓reduceIte, hv]
  simp [scanNumeric, hpass, h40, hcell, bind, Except.bind, pure, Except.pure]

theorem skipNumericArg_intW (t rest : Bytes) (v : Int) (ty : UInt8) (hn : DecNum t v) (hs : SepW rest) :
    skipNumericArg (t ++ rest) ty = ⟨some rest, 1, 105, 0⟩ := by
  have hne := sepW_numEnd rest hs
  have hfmt := scanfFmtstr_intW t rest v hn hs
  have hpos : 0 < t.length := List.length_pos_iff.mpr hn.ne
  have hskip : skipFmt (NumFmt.d.dirs true) (t ++ rest) = t.length := by
    unfold skipFmt scanRd sscanf NumFmt.dirs
    rw [sscanfGo_int_some _ _ _ _ _ _ _ _ _ (hn.scan_d rest hne)]
    simp [sscanfGo]
  have h40 := hs.2
  have hne0 : t.length ≠ 0 := by omega
  simp [skipNumericArg, skipNumeric, hfmt, hskip, NumFmt.type, hne0, h40]

/-- the scanner's `switch` on an int32 token -/
theorem scanValue_intW (se : ElemScanner) (v : Int) (h1 : -2147483648 ≤ v) (h2 : v ≤ 2147483647) (rest : Bytes)
    (hs : SepW rest) (prev : List Cell) :
    scanValue se (fmtDec v ++ rest) prev = .ok ⟨rest, [Cell.int .i v], true⟩ := by
  have hn := decNum_fmtDec v (by omega) (by omega)
  have hstart : hd (fmtDec v) = 45 ∨ isdigit (hd (fmtDec v)) = true := hn.chars _ (hd_mem _ hn.ne)
  have hne := sepW_numEnd rest hs
  rw [scanValue_num _ _ _ (by rw [hd_append_of_ne_nil _ _ hn.ne]; exact hstart) (hn.nomult rest hne) (hn.nodate rest hne)]
  exact scanNumeric_intW _ rest v hn hs h1 h2

/-- the checker's `switch` on an int32 token -/
theorem skipValue_intW (sk : ArgSkipper) (v : Int) (rest : Bytes) (hs : SepW rest) (ty : UInt8) (ib : Bool)
    (h1 : -2147483648 ≤ v) (h2 : v ≤ 2147483647) :
    skipValue sk (fmtDec v ++ rest) ty ib = .ok (some ⟨some rest, 1, 105, 0⟩) := by
  have hn := decNum_fmtDec v (by omega) (by omega)
  have hstart : hd (fmtDec v) = 45 ∨ isdigit (hd (fmtDec v)) = true := hn.chars _ (hd_mem _ hn.ne)
  have hne := sepW_numEnd rest hs
  rw [skipValue_num _ _ _ _ (by rw [hd_append_of_ne_nil _ _ hn.ne]; exact hstart) (hn.nomult rest hne) (hn.nodate rest hne)]
  rw [skipNumericArg_intW _ rest v ty hn hs]

/-- without `follow_ellipsis` the scanner reads just the token -/
theorem scanArgVal_int_noell (f : Nat) (v : Int) (h1 : -2147483648 ≤ v) (h2 : v ≤ 2147483647) (rest : Bytes)
    (hs : SepW rest) (prev : List Cell) (ab : Nat) :
    scanArgVal (f + 1) (fmtDec v ++ rest) prev ab false = .ok ((fmtDec v).length, [Cell.int .i v]) := by
  unfold scanArgVal
  simp only [scanValue_intW _ v h1 h2 rest hs, bind, Except.bind]
  unfold finishArg
  simp [pure, Except.pure]

/-- without `follow_ellipsis` the checker skips just the token -/
theorem skipNext_int_noell (f : Nat) (v : Int) (h1 : -2147483648 ≤ v) (h2 : v ≤ 2147483647) (rest : Bytes)
    (hs : SepW rest) (ty : UInt8) (llhs : Option Bytes) (ib : Bool) :
    skipNextPrintedArg (f + 1) (fmtDec v ++ rest) ty llhs false ib = .ok ⟨some rest, 1, 105⟩ := by
  unfold skipNextPrintedArg
  simp [skipValue_intW _ v rest hs ty ib h1 h2, bind, Except.bind, pure, Except.pure]

theorem scanOne_int (v : Int) (h1 : -2147483648 ≤ v) (h2 : v ≤ 2147483647) (rest : Bytes) (hs : SepW rest) :
    scanOne (fmtDec v ++ rest) = .ok (Cell.int .i v) := by
  unfold scanOne
  simp [scanArgVal_int_noell _ v h1 h2 rest hs, bind, Except.bind]

/-! ### `delta_from_arg_vals` on the run -/

theorem cmpCell_int (x y : Int) : cmpCell (Cell.int .i x) (Cell.int .i y) = .ok (ArgVal.cmp3 x y) := by
  simp [cmpCell, ArgVal.Cell.isScalar, ArgVal.cmpScalar, ArgVal.Cell.type]

theorem eqCell_int (x y : Int) : eqCell (Cell.int .i x) (Cell.int .i y) = .ok (decide (x = y)) := by
  simp [eqCell, ArgVal.eqScalar, ArgVal.Cell.type, liftAV, pure, Except.pure]

theorem divAV_int (x y : Int) (hy : y ≠ 0) (hx : x ≠ -2147483648) :
    divAV (Cell.int .i x) (Cell.int .i y) = .ok (some (Cell.int .i (Int.tdiv x y))) := by
  simp [divAV, ArgVal.Cell.type, cdiv, hy, hx, bind, Except.bind, pure, Except.pure]

/-! the arithmetic of `delta_from_arg_vals` (`Pretty/C11Float.lean`) on int32 cells is the integer one -/
theorem fromIntF_int (x k : Int) : C11.fromIntF (Cell.int .i x) k = fromInt (Cell.int .i x) k := rfl
theorem negateF_int (x : Int) : C11.negateF (Cell.int .i x) = negate (Cell.int .i x) := rfl
theorem roundF_int (x : Int) : C11.roundF (Cell.int .i x) = roundAV (Cell.int .i x) := rfl
theorem subF_int (x y : Int) : C11.subF (Cell.int .i x) (Cell.int .i y) = subAV (Cell.int .i x) (Cell.int .i y) := rfl
theorem multF_int (x y : Int) : C11.multF (Cell.int .i x) (Cell.int .i y) = multAV (Cell.int .i x) (Cell.int .i y) := rfl
theorem divF_int (x y : Int) : C11.divF (Cell.int .i x) (Cell.int .i y) = divAV (Cell.int .i x) (Cell.int .i y) := rfl
theorem toIntF_int (x : Int) : C11.toIntF (Cell.int .i x) = toIntAV (Cell.int .i x) := rfl
theorem eqTolCell_int (x y : Int) : C11.eqTolCell (Cell.int .i x) (Cell.int .i y) = eqCell (Cell.int .i x) (Cell.int .i y) := rfl

theorem cmp3_lt (x z : Int) (h : x < z) : ArgVal.cmp3 x z = -1 := by
  unfold ArgVal.cmp3; repeat' split
  all_goals omega

theorem cmp3_gt (x z : Int) (h : z < x) : ArgVal.cmp3 x z = 1 := by
  unfold ArgVal.cmp3; repeat' split
  all_goals omega

theorem cmp3_ne (x z : Int) (h : x ≠ z) : ¬ (ArgVal.cmp3 x z = 0) := by
  unfold ArgVal.cmp3; repeat' split
  all_goals omega

/-- `delta_from_arg_vals` with `must_be_unity`: the delta is ±1 -/
theorem delta_unity (x z q dl : Int) (hdl : (dl = 1 ∧ x < z) ∨ (dl = -1 ∧ z < x)) (hq : z - x = q * dl)
    (hw1 : -2147483647 ≤ z - x) (hw2 : z - x ≤ 2147483647) (hq1 : -2147483648 ≤ q + 1) (hq2 : q + 1 ≤ 2147483647) :
    deltaFromArgVals none (Cell.int .i x) (some (Cell.int .i z)) true = .ok (q + 1, Cell.int .i dl) := by
  have hdl0 : dl ≠ 0 := by omega
  have htd : Int.tdiv (z - x) dl = q := by rw [hq]; exact Int.mul_tdiv_cancel _ hdl0
  have hsub : subAV (Cell.int .i z) (Cell.int .i x) = .ok (some (Cell.int .i (z - x))) := by
    rw [subAV_int, toI32_id _ (by omega) (by omega)]
  have hmul : multAV (Cell.int .i q) (Cell.int .i dl) = .ok (some (Cell.int .i (z - x))) := by
    rw [multAV_int, ← hq, toI32_id _ (by omega) (by omega)]
  have hcmp0 : ¬ (ArgVal.cmp3 x z = 0) := cmp3_ne x z (by omega)
  unfold deltaFromArgVals
  simp only [↓reduceIte, cmpCell_int, fromIntF_int, fromInt, must, bind, Except.bind, pure, Except.pure]
  rcases hdl with ⟨rfl, hlt⟩ | ⟨rfl, hlt⟩
  · simp only [cmp3_lt x z hlt, show ¬ ((-1 : Int) > 0) from by decide, show ¬ ((-1 : Int) = 0) from by decide,
      ↓reduceIte, subF_int, hsub, divF_int, divAV_int (z - x) 1 hdl0 (by omega), htd, roundF_int, roundAV,
      multF_int, hmul, toIntF_int, toIntAV,
      eqTolCell_int, eqCell_int, decide_true, Bool.not_true, Bool.false_eq_true, toI32_id _ hq1 hq2]
  · simp only [cmp3_gt x z hlt, show ((1 : Int) > 0) from by decide, show ¬ ((1 : Int) = 0) from by decide,
      negateF_int, negate,
      show ¬ ((1 : Int) = -2147483648) from by decide,
      ↓reduceIte, subF_int, hsub, divF_int, divAV_int (z - x) (-1) hdl0 (by omega), htd, roundF_int, roundAV,
      multF_int, hmul, toIntF_int, toIntAV,
      eqTolCell_int, eqCell_int, decide_true, Bool.not_true, Bool.false_eq_true, toI32_id _ hq1 hq2]

/-- `delta_from_arg_vals` with a usable left-hand neighbour: the delta is `lhs - llhs` -/
theorem delta_step (p x z q dl : Int) (hdl0 : dl ≠ 0) (hp : x - p = dl) (hd1 : -2147483648 ≤ dl) (hd2 : dl ≤ 2147483647)
    (hq : z - x = q * dl)
    (hw1 : -2147483647 ≤ z - x) (hw2 : z - x ≤ 2147483647) (hq1 : -2147483648 ≤ q + 1) (hq2 : q + 1 ≤ 2147483647) :
    deltaFromArgVals (some (Cell.int .i p)) (Cell.int .i x) (some (Cell.int .i z)) false = .ok (q + 1, Cell.int .i dl) := by
  have htd : Int.tdiv (z - x) dl = q := by rw [hq]; exact Int.mul_tdiv_cancel _ hdl0
  have hsub : subAV (Cell.int .i z) (Cell.int .i x) = .ok (some (Cell.int .i (z - x))) := by
    rw [subAV_int, toI32_id _ (by omega) (by omega)]
  have hsub0 : subAV (Cell.int .i x) (Cell.int .i p) = .ok (some (Cell.int .i dl)) := by
    rw [subAV_int, hp, toI32_id _ hd1 hd2]
  have hmul : multAV (Cell.int .i q) (Cell.int .i dl) = .ok (some (Cell.int .i (z - x))) := by
    rw [multAV_int, ← hq, toI32_id _ (by omega) (by omega)]
  have hcmp0 : ¬ (ArgVal.cmp3 dl 0 = 0) := cmp3_ne dl 0 hdl0
  unfold deltaFromArgVals
  simp only [Bool.false_eq_true, ↓reduceIte, subF_int, hsub0, nullVal, cmpCell_int, must, bind, Except.bind, pure, Except.pure]
  simp only [hcmp0, ↓reduceIte, hsub, divF_int, divAV_int (z - x) dl hdl0 (by omega), htd, roundF_int, roundAV,
    multF_int, hmul, toIntF_int, toIntAV,
    eqTolCell_int, eqCell_int, decide_true, Bool.not_true, Bool.false_eq_true, toI32_id _ hq1 hq2]

theorem delta_run_unit {a d : Int} {n : Nat} (h : RunHyp a d n) (hu : d = 1 ∨ d = -1) :
    deltaFromArgVals none (Cell.int .i a) (some (Cell.int .i (a + ((n - 1 : Nat) : Int) * d))) true =
      .ok ((n : Int), Cell.int .i d) := by
  have hn := h.hn
  have hn32 := h.hn32
  have hq : (((n - 1 : Nat) : Int)) + 1 = (n : Int) := by omega
  rw [← hq]
  apply delta_unity a _ ((n - 1 : Nat) : Int) d
  · rcases hu with rfl | rfl
    · left; exact ⟨rfl, by omega⟩
    · right; exact ⟨rfl, by omega⟩
  · omega
  · rcases hu with rfl | rfl <;> omega
  · rcases hu with rfl | rfl <;> omega
  · omega
  · omega

theorem delta_run_step {a d : Int} {n : Nat} (h : RunHyp a d n) :
    deltaFromArgVals (some (Cell.int .i a)) (Cell.int .i (a + d)) (some (Cell.int .i (a + ((n - 1 : Nat) : Int) * d)))
      false = .ok ((n : Int) - 1, Cell.int .i d) := by
  have hn := h.hn
  have hn32 := h.hn32
  have hdb := h.dbound
  have hm := h.mul (n - 2) (by omega)
  have hs : ((n - 1 : Nat) : Int) * d = ((n - 2 : Nat) : Int) * d + d := by
    rw [show n - 1 = (n - 2) + 1 from by omega]; exact succ_mul' _ _
  have hq : (((n - 2 : Nat) : Int)) + 1 = (n : Int) - 1 := by omega
  rw [← hq]
  apply delta_step a (a + d) _ ((n - 2 : Nat) : Int) d h.hd <;> omega

/-! ### stage 3: the scanner -/

theorem tokStart_fmtDec (v : Int) (h1 : -2147483648 ≤ v) (h2 : v ≤ 2147483647) : TokStart (fmtDec v) :=
  (tokOK_int v h1 h2).start

/-- what follows the left-hand side of a printed range -/
def ellRest (sep Z : Bytes) : Bytes := [32, 46, 46, 46] ++ (sep ++ Z)

theorem ellRest_facts (sep Z : Bytes) (hsep : IsSepTxt sep) (hZ : TokStart Z) :
    SepW (ellRest sep Z) ∧ skipSpace (ellRest sep Z) = [46, 46, 46] ++ (sep ++ Z) ∧
    skipSpace (sep ++ Z) = Z := by
  have h1 : skipSpace (ellRest sep Z) = [46, 46, 46] ++ (sep ++ Z) := by
    simp [ellRest, skipSpace, show isspace 32 = true from by decide, show isspace 46 = false from by decide]
  refine ⟨⟨Or.inr (Or.inl (by simp [ellRest]; decide)), by rw [h1]; simp⟩, h1, skipSpace_sep sep Z hsep hZ⟩

theorem scanArgVal_ell (f : Nat) (x z : Int) (hx1 : -2147483648 ≤ x) (hx2 : x ≤ 2147483647)
    (hz1 : -2147483648 ≤ z) (hz2 : z ≤ 2147483647) (sep : Bytes) (hsep : IsSepTxt sep)
    (prev : List Cell) (ab : Nat)
    (hp : (ab = 0 ∧ prev = []) ∨ (ab = 1 ∧ ∃ p, prev = [Cell.int .i p] ∧ p ≠ x)) (num : Int) (dl : Cell)
    (hdelta : deltaFromArgVals prev.head? (Cell.int .i x) (some (Cell.int .i z)) (decide (ab = 0)) = .ok (num, dl)) :
    scanArgVal (f + 2) (fmtDec x ++ ellRest sep (fmtDec z)) prev ab true =
      .ok ((fmtDec x ++ ellRest sep (fmtDec z)).length, [Cell.rep num 1, dl, Cell.int .i x]) := by
  obtain ⟨hW, hsk1, hsk2⟩ := ellRest_facts sep (fmtDec z) hsep (tokStart_fmtDec z hz1 hz2)
  have hrhs := scanArgVal_int_noell f z hz1 hz2 [] sepW_nil [] 0
  simp only [List.append_nil] at hrhs
  have h93 : hd (fmtDec z) ≠ 93 := (tokStart_fmtDec z hz1 hz2).2.2.2.2.2.2.2
  unfold scanArgVal
  simp only [scanValue_intW _ x hx1 hx2 _ hW, bind, Except.bind]
  unfold finishArg
  rcases hp with ⟨rfl, rfl⟩ | ⟨rfl, p, rfl, hpx⟩
  · simp only [List.head?_nil, decide_true] at hdelta
    simp only [hsk1, startsWith, List.cons_append, List.nil_append, List.isPrefixOf, BEq.rfl, Bool.and_self, and_self,
      ↓reduceIte, Bool.not_true, Bool.false_eq_true, deref, bind, Except.bind, List.drop_succ_cons, List.drop_zero,
      hsk2, h93, decide_false, pure, Except.pure, hrhs, advance, Nat.le_refl, List.drop_length, List.drop_nil,
      List.head?_nil, Nat.zero_lt_one, gt_iff_lt, Nat.not_lt_zero, false_and, hdelta,
      ArgVal.Cell.type, ArgVal.IntTy.char, show numericRangeTypes.contains (105 : UInt8) = true from by decide]
    simp
  · simp only [List.head?_cons, show decide ((1 : Nat) = 0) = false from by decide] at hdelta
    have hcmp : cmpCell (Cell.int .i p) (Cell.int .i x) = .ok (ArgVal.cmp3 p x) := cmpCell_int p x
    have hc0 := cmp3_ne p x hpx
    simp only [hsk1, startsWith, List.cons_append, List.nil_append, List.isPrefixOf, BEq.rfl, Bool.and_self, and_self,
      ↓reduceIte, Bool.not_true, Bool.false_eq_true, deref, bind, Except.bind, List.drop_succ_cons, List.drop_zero,
      hsk2, h93, decide_false, pure, Except.pure, hrhs, advance, Nat.le_refl, List.drop_length, List.drop_nil,
      List.head?_nil, List.head?_cons, Nat.lt_irrefl, gt_iff_lt, false_and, Bool.and_false,
      ArgVal.Cell.type, ArgVal.IntTy.char, ArgVal.tyRange, show ((105 : UInt8) = 45) = False from by decide,
      show typesMatch 105 105 = true from by decide, hcmp, hc0, hdelta,
      show numericRangeTypes.contains (105 : UInt8) = true from by decide]
    simp

theorem tokStart_append_ri (t r : Bytes) (h : TokStart t) : TokStart (t ++ r) := by
  obtain ⟨h0, h1⟩ := h
  refine ⟨by simp [h0], ?_⟩
  rw [hd_append_of_ne_nil _ _ h0]; exact h1

theorem nextArgOffset_range (num : Int) (dl s : Cell) (hdl : dl.isScalar = true) :
    nextArgOffset 4 [Cell.rep num 1, dl, s] = .ok 3 := by
  unfold nextArgOffset
  simp only [deref, bind, Except.bind, List.drop_succ_cons, List.drop_zero, nextArgOffset_scalar 2 dl [s] hdl]
  rfl

theorem runText_unit (a d : Int) (n : Nat) (sep : Bytes) (hu : d = 1 ∨ d = -1) :
    runText_ri a d n sep = fmtDec a ++ ellRest sep (fmtDec (a + ((n - 1 : Nat) : Int) * d)) := by
  simp [runText_ri, runHead, hu, ellRest]

theorem runText_step (a d : Int) (n : Nat) (sep : Bytes) (hu : ¬ (d = 1 ∨ d = -1)) :
    runText_ri a d n sep =
      fmtDec a ++ ([32] ++ (fmtDec (a + d) ++ ellRest sep (fmtDec (a + ((n - 1 : Nat) : Int) * d)))) := by
  simp [runText_ri, runHead, hu, ellRest]

/-- `can_precede_range` of a range with a delta -/
theorem canPrecedeRange_delta (num : Int) (more : List Cell) :
    canPrecedeRange (Cell.rep num 1 :: more) = .ok true := by
  simp [canPrecedeRange, deref, bind, Except.bind, pure, Except.pure]

theorem scan_run_unit {a d : Int} {n : Nat} (h : RunHyp a d n) (hu : d = 1 ∨ d = -1) (sep : Bytes)
    (hsep : IsSepTxt sep) :
    scanArgVals (runText_ri a d n sep) 3 =
      .ok ((runText_ri a d n sep).length, [Cell.rep n 1, Cell.int .i d, Cell.int .i a]) := by
  have hn := h.hn
  have hr0 := h.hrange 0 (by omega)
  have hrz := h.hrange (n - 1) (by omega)
  simp only [Int.natCast_zero, Int.zero_mul, Int.add_zero] at hr0
  rw [runText_unit a d n sep hu]
  generalize hT : fmtDec a ++ ellRest sep (fmtDec (a + ((n - 1 : Nat) : Int) * d)) = T
  have hscan := scanArgVal_ell T.length a _ hr0.1 hr0.2 hrz.1 hrz.2 sep hsep [] 0 (Or.inl ⟨rfl, rfl⟩) n (Cell.int .i d)
    (by simpa using delta_run_unit h hu)
  rw [hT] at hscan
  have hstartT : TokStart T := by rw [← hT]; exact tokStart_append_ri _ _ (tokStart_fmtDec _ hr0.1 hr0.2)
  unfold scanArgVals
  simp only [skipSpaceComments_tokStart _ _ hstartT, bind, Except.bind, List.drop_zero]
  rw [scanArgValsLoop]
  simp only [show (0 : Nat) < 3 from by decide, ↓reduceIte, List.reverse_nil, hscan, bind, Except.bind, advance,
    Nat.le_refl, List.drop_length, List.length_cons, List.length_nil, Nat.zero_add, Nat.reduceAdd,
    nextArgOffset_range _ _ _ (show (Cell.int .i d).isScalar = true from rfl), ne_eq, not_true_eq_false,
    skipSpaceComments_nil, List.drop_nil, List.nil_append, canPrecedeRange_delta]
  rw [scanArgValsLoop]
  simp [pure, Except.pure]

theorem scan_run_step {a d : Int} {n : Nat} (h : RunHyp a d n) (hu : ¬ (d = 1 ∨ d = -1)) (sep : Bytes)
    (hsep : IsSepTxt sep) :
    scanArgVals (runText_ri a d n sep) 4 =
      .ok ((runText_ri a d n sep).length,
        [Cell.int .i a, Cell.rep ((n : Int) - 1) 1, Cell.int .i d, Cell.int .i (a + d)]) := by
  have hn := h.hn
  have hr0 := h.hrange 0 (by omega)
  have hr1 := h.hrange 1 (by omega)
  have hrz := h.hrange (n - 1) (by omega)
  simp only [Int.natCast_zero, Int.zero_mul, Int.add_zero, Int.natCast_one, Int.one_mul] at hr0 hr1
  rw [runText_step a d n sep hu]
  generalize hT2 : fmtDec (a + d) ++ ellRest sep (fmtDec (a + ((n - 1 : Nat) : Int) * d)) = T2
  have hstart2 : TokStart T2 := by rw [← hT2]; exact tokStart_append_ri _ _ (tokStart_fmtDec _ hr1.1 hr1.2)
  have hS : Sep ([32] ++ T2) := sep_of_next [32] T2 (Or.inl rfl) hstart2
  have hscan1 := (tokOK_int a hr0.1 hr0.2).scan ([32] ++ T2) ((fmtDec a ++ ([32] ++ T2)).length + 1) [] 0 hS
  have hne : a ≠ a + d := by have := h.hd; omega
  have hscan2 := scanArgVal_ell T2.length (a + d) _ hr1.1 hr1.2 hrz.1 hrz.2 sep hsep [Cell.int .i a] 1
    (Or.inr ⟨rfl, a, rfl, hne⟩) ((n : Int) - 1) (Cell.int .i d) (by simpa using delta_run_step h)
  rw [hT2] at hscan2
  have hadv : advance (fmtDec a ++ ([32] ++ T2)) (fmtDec a).length = .ok ([32] ++ T2) := by simp [advance]
  have hstartT : TokStart (fmtDec a ++ ([32] ++ T2)) := tokStart_append_ri _ _ (tokStart_fmtDec _ hr0.1 hr0.2)
  unfold scanArgVals
  simp only [skipSpaceComments_tokStart _ _ hstartT, bind, Except.bind, List.drop_zero]
  rw [scanArgValsLoop]
  simp only [show (0 : Nat) < 4 from by decide, ↓reduceIte, List.reverse_nil, hscan1, bind, Except.bind, hadv,
    nextArgOffset_scalar _ (Cell.int .i a) [] rfl, List.length_singleton, ne_eq, not_true_eq_false,
    skipSpaceComments_sep _ [32] T2 (Or.inl rfl) hstart2, List.nil_append, Nat.zero_add,
    canPrecedeRange_scalar (Cell.int .i a) [] rfl]
  simp only [List.singleton_append, List.drop_succ_cons, List.drop_zero]
  rw [show scanArgValsLoop 4 = scanArgValsLoop (3 + 1) from rfl, scanArgValsLoop]
  simp only [show (1 : Nat) < 4 from by decide, ↓reduceIte, List.reverse_cons, List.reverse_nil, List.nil_append, hscan2,
    bind, Except.bind, advance, Nat.le_refl, List.drop_length, List.length_cons, List.length_nil, Nat.zero_add,
    Nat.reduceAdd, nextArgOffset_range _ _ _ (show (Cell.int .i d).isScalar = true from rfl), ne_eq, not_true_eq_false,
    skipSpaceComments_nil, List.drop_nil, canPrecedeRange_delta]
  rw [scanArgValsLoop]
  simp [pure, Except.pure]
  omega

/-! ### stage 4: the checker -/

theorem nomult_int (v : Int) (h1 : -2147483648 ≤ v) (h2 : v ≤ 2147483647) (rest : Bytes) (hs : SepW rest) :
    isRangeMultiplier (fmtDec v ++ rest) = false :=
  (decNum_fmtDec v (by omega) (by omega)).nomult rest (sepW_numEnd rest hs)

theorem startsWith_ell_of_tokStart (t : Bytes) (h : TokStart t) : startsWith t [46, 46, 46] = false := by
  obtain ⟨hne, _, _, _, h46, _⟩ := h
  cases t with
  | nil => exact absurd rfl hne
  | cons c r =>
    simp only [hd_cons] at h46
    simp [startsWith, List.isPrefixOf]
    intro e; exact absurd e.symm h46

theorem skipNext_ell (f : Nat) (x z : Int) (hx1 : -2147483648 ≤ x) (hx2 : x ≤ 2147483647)
    (hz1 : -2147483648 ≤ z) (hz2 : z ≤ 2147483647) (sep : Bytes) (hsep : IsSepTxt sep) (ty : UInt8) (ib : Bool)
    (llhs : Option Bytes) (useless : Bool) (ll : Option Cell)
    (hll : (llhs = none ∧ useless = true ∧ ll = none) ∨
      (∃ p : Int, -2147483648 ≤ p ∧ p ≤ 2147483647 ∧ p ≠ x ∧
        llhs = some (fmtDec p ++ ([32] ++ (fmtDec x ++ ellRest sep (fmtDec z)))) ∧ useless = false ∧
        ll = some (Cell.int .i p)))
    (num : Int) (dl : Cell)
    (hdelta : deltaFromArgVals ll (Cell.int .i x) (some (Cell.int .i z)) useless = .ok (num, dl)) (hnum : num ≠ -1) :
    skipNextPrintedArg (f + 2) (fmtDec x ++ ellRest sep (fmtDec z)) ty llhs true ib = .ok ⟨some [], 3, 45⟩ := by
  have hZs := tokStart_fmtDec z hz1 hz2
  obtain ⟨hW, hsk1, hsk2⟩ := ellRest_facts sep (fmtDec z) hsep hZs
  have h93 : hd (fmtDec z) ≠ 93 := hZs.2.2.2.2.2.2.2
  have hrsk := skipNext_int_noell f z hz1 hz2 [] sepW_nil 120 none ib
  have hrsc := scanOne_int z hz1 hz2 [] sepW_nil
  simp only [List.append_nil] at hrsk hrsc
  have hlsc := scanOne_int x hx1 hx2 _ hW
  have hnm := nomult_int x hx1 hx2 _ hW
  unfold skipNextPrintedArg
  simp only [skipValue_intW _ x _ hW ty ib hx1 hx2, bind, Except.bind, hsk1, startsWith, List.cons_append,
    List.nil_append, List.isPrefixOf, BEq.rfl, Bool.and_self, and_self, ↓reduceIte]
  unfold ellipsisTail
  rcases hll with ⟨rfl, rfl, rfl⟩ | ⟨p, hp1, hp2, hpx, rfl, rfl, rfl⟩
  · simp only [List.drop_succ_cons, List.drop_zero, hsk2, hnm, Bool.false_eq_true, ↓reduceIte, ne_eq,
      not_true_eq_false, show numericRangeTypes.contains (105 : UInt8) = true from by decide, or_true, h93,
      Bool.not_true, hrsk, hrsc, hlsc, hdelta, hnum, bind, Except.bind, pure, Except.pure, true_or, and_true,
      decide_true]
    rfl
  · generalize hT2 : fmtDec x ++ ellRest sep (fmtDec z) = T2 at *
    have hstart2 : TokStart T2 := by rw [← hT2]; exact tokStart_append_ri _ _ (tokStart_fmtDec _ hx1 hx2)
    have hS : Sep ([32] ++ T2) := sep_of_next [32] T2 (Or.inl rfl) hstart2
    have hlsk := skipNext_int_noell f p hp1 hp2 _ hS.toW 0 none ib
    have hllsc := scanOne_int p hp1 hp2 _ hS.toW
    have hnm2 := nomult_int p hp1 hp2 _ hS.toW
    have hsk3 : skipSpace ([32] ++ T2) = T2 := skipSpace_sep [32] T2 (Or.inl rfl) hstart2
    have hsw := startsWith_ell_of_tokStart T2 hstart2
    simp only [startsWith] at hsw
    have hcmp : cmpCell (Cell.int .i p) (Cell.int .i x) = .ok (ArgVal.cmp3 p x) := cmpCell_int p x
    have hc0 := cmp3_ne p x hpx
    simp only [List.drop_succ_cons, List.drop_zero, hsk2, hnm, Bool.false_eq_true, ↓reduceIte, ne_eq,
      not_true_eq_false, show numericRangeTypes.contains (105 : UInt8) = true from by decide, or_true, h93,
      Bool.not_true, hrsk, hrsc, hlsc, hdelta, hnum, bind, Except.bind, pure, Except.pure,
      decide_true, hlsk, Option.map_some, hsk3, hsw, and_false, hnm2, hllsc, hcmp, hc0,
      show typesMatch 105 105 = true from by decide, startsWith]
    simp

theorem count_run_unit {a d : Int} {n : Nat} (h : RunHyp a d n) (hu : d = 1 ∨ d = -1) (sep : Bytes)
    (hsep : IsSepTxt sep) :
    countPrintedArgVals (runText_ri a d n sep) = .ok 3 := by
  have hn := h.hn
  have hr0 := h.hrange 0 (by omega)
  have hrz := h.hrange (n - 1) (by omega)
  simp only [Int.natCast_zero, Int.zero_mul, Int.add_zero] at hr0
  rw [runText_unit a d n sep hu]
  have hskip := fun f => skipNext_ell f a _ hr0.1 hr0.2 hrz.1 hrz.2 sep hsep 0 false none true none
    (Or.inl ⟨rfl, rfl, rfl⟩) n (Cell.int .i d) (delta_run_unit h hu) (by omega)
  generalize hT : fmtDec a ++ ellRest sep (fmtDec (a + ((n - 1 : Nat) : Int) * d)) = T at *
  have hstart : TokStart T := by rw [← hT]; exact tokStart_append_ri _ _ (tokStart_fmtDec _ hr0.1 hr0.2)
  obtain ⟨hne, _, h0, _, _, h37, h47, _⟩ := hstart
  have hpos : 0 < T.length := List.length_pos_iff.mpr hne
  unfold countPrintedArgVals
  simp only [skipSpace_tokStart T ⟨hne, ‹_›, h0, ‹_›, ‹_›, h37, h47, ‹_›⟩, skipCommentLines_none _ T h37, bind,
    Except.bind]
  rw [countLoop]
  simp only [h0, h47, ne_eq, not_false_eq_true, and_self, ↓reduceIte, skipNextPrintedArg_checkFuel (hskip T.length), bind, Except.bind, skipSpace,
    hd_nil, not_true_eq_false, pure, Except.pure, List.length_nil, ge_iff_le, Nat.le_zero_eq,
    show ¬ (T.length = 0) from by omega]
  obtain ⟨m, hm⟩ : ∃ m, T.length = m + 1 := ⟨T.length - 1, by omega⟩
  rw [hm, countLoop]
  simp

theorem countLoop_end (fuel : Nat) (hf : 0 < fuel) (recent : Option Bytes) (num : Int) :
    countLoop fuel (some []) recent num = .ok num := by
  cases fuel with
  | zero => omega
  | succ f => simp [countLoop]

theorem count_run_step {a d : Int} {n : Nat} (h : RunHyp a d n) (hu : ¬ (d = 1 ∨ d = -1)) (sep : Bytes)
    (hsep : IsSepTxt sep) :
    countPrintedArgVals (runText_ri a d n sep) = .ok 4 := by
  have hn := h.hn
  have hr0 := h.hrange 0 (by omega)
  have hr1 := h.hrange 1 (by omega)
  have hrz := h.hrange (n - 1) (by omega)
  simp only [Int.natCast_zero, Int.zero_mul, Int.add_zero, Int.natCast_one, Int.one_mul] at hr0 hr1
  rw [runText_step a d n sep hu]
  have hne : a ≠ a + d := by have := h.hd; omega
  have hskip2 := fun f => skipNext_ell f (a + d) _ hr1.1 hr1.2 hrz.1 hrz.2 sep hsep 0 false
    (some (fmtDec a ++ ([32] ++ (fmtDec (a + d) ++ ellRest sep (fmtDec (a + ((n - 1 : Nat) : Int) * d))))))
    false (some (Cell.int .i a))
    (Or.inr ⟨a, hr0.1, hr0.2, hne, rfl, rfl, rfl⟩) ((n : Int) - 1) (Cell.int .i d) (delta_run_step h) (by omega)
  generalize hT2 : fmtDec (a + d) ++ ellRest sep (fmtDec (a + ((n - 1 : Nat) : Int) * d)) = T2 at *
  have hstart2 : TokStart T2 := by rw [← hT2]; exact tokStart_append_ri _ _ (tokStart_fmtDec _ hr1.1 hr1.2)
  have hS : Sep ([32] ++ T2) := sep_of_next [32] T2 (Or.inl rfl) hstart2
  obtain ⟨r, hr, hsrc, hsk, _⟩ := (tokOK_int a hr0.1 hr0.2).skip ([32] ++ T2) ((fmtDec a ++ ([32] ++ T2)).length + 1) 0
    none false hS
  generalize hT : fmtDec a ++ ([32] ++ T2) = T at *
  have hstart : TokStart T := by rw [← hT]; exact tokStart_append_ri _ _ (tokStart_fmtDec _ hr0.1 hr0.2)
  have hlen : T.length = (fmtDec a).length + 1 + T2.length := by rw [← hT]; simp; omega
  have hpos2 : 0 < T2.length := List.length_pos_iff.mpr hstart2.1
  have h0 := hstart.2.2.1
  have h37 := hstart.2.2.2.2.2.1
  have h47 := hstart.2.2.2.2.2.2.1
  have h0' := hstart2.2.2.1
  have h37' := hstart2.2.2.2.2.2.1
  have h47' := hstart2.2.2.2.2.2.2.1
  unfold countPrintedArgVals
  simp only [skipSpace_tokStart T hstart, skipCommentLines_none _ T h37, bind, Except.bind]
  rw [countLoop]
  simp only [h0, h47, ne_eq, not_false_eq_true, and_self, ↓reduceIte, skipNextPrintedArg_checkFuel hr, bind, Except.bind, hsrc, hsk,
    skipSpace_sep [32] T2 (Or.inl rfl) hstart2, h0', skipCommentLines_none _ T2 h37', pure, Except.pure, ge_iff_le,
    show ¬ (T.length ≤ T2.length) from by omega]
  obtain ⟨m, hm⟩ : ∃ m, T.length = m + 2 := ⟨T.length - 2, by omega⟩
  rw [hm, countLoop]
  simp only [h0', h47', ne_eq, not_false_eq_true, and_self, ↓reduceIte, skipNextPrintedArg_checkFuel (hskip2 T2.length), bind, Except.bind, skipSpace,
    hd_nil, not_true_eq_false, pure, Except.pure, List.length_nil, ge_iff_le, Nat.le_zero_eq,
    show ¬ (T2.length = 0) from by omega]
  rw [countLoop_end _ (by omega)]
  rfl

/-! ### stage 5: the round trip -/

/-- for steps other than ±1 the width bound already limits the length of the run -/
theorem n32_of_width (n : Nat) (d : Int) (hwidth : ((n : Int) - 1) * d.natAbs ≤ 2147483647) (hn : 5 ≤ n)
    (hd : d ≠ 0) (hu : ¬ (d = 1 ∨ d = -1)) : (n : Int) ≤ 2147483647 := by
  have h2 : (2 : Int) ≤ (d.natAbs : Int) := by omega
  have := Int.mul_le_mul_of_nonneg_left h2 (show (0 : Int) ≤ (n : Int) - 1 by omega)
  omega

theorem runHyp_mk (a d : Int) (n : Nat) (hn : 5 ≤ n) (hd : d ≠ 0)
    (hrange : ∀ k : Nat, k ≤ n → -2147483648 ≤ a + (k : Int) * d ∧ a + (k : Int) * d ≤ 2147483647)
    (hwidth : ((n : Int) - 1) * d.natAbs ≤ 2147483647)
    (hn32 : (d = 1 ∨ d = -1) → (n : Int) ≤ 2147483647) : RunHyp a d n := by
  refine ⟨hn, hd, hrange, hwidth, ?_⟩
  by_cases hu : d = 1 ∨ d = -1
  · exact hn32 hu
  · exact n32_of_width n d hwidth hn hd hu

/-- **Tier 3, integer runs with step ±1**: printed as `a ... z`. -/
theorem int_run_roundtrip_unit (opt : POpt) (hc : opt.compress = true) (a d : Int) (n : Nat) (hn : 5 ≤ n)
    (hu : d = 1 ∨ d = -1)
    (hrange : ∀ k : Nat, k ≤ n → -2147483648 ≤ a + (k : Int) * d ∧ a + (k : Int) * d ≤ 2147483647)
    (hn32 : (n : Int) ≤ 2147483647) :
    ∃ (st : PSt) (ret : Nat) (sep : Bytes), IsSepTxt sep ∧
      st.out = fmtDec a ++ lit " ..." ++ sep ++ fmtDec (a + ((n : Int) - 1) * d) ∧
      printArgVals opt (arithRun a d n) ⟨[], 0⟩ = .ok (st, ret) ∧ ret = st.out.length ∧
      countPrintedArgVals st.out = .ok 3 ∧
      scanArgVals st.out 3 = .ok (st.out.length, [Cell.rep n 1, Cell.int .i d, Cell.int .i a]) := by
  have hd : d ≠ 0 := by omega
  have hw : ((n : Int) - 1) * d.natAbs ≤ 2147483647 := by
    rcases hu with rfl | rfl <;> simp <;> omega
  have h := runHyp_mk a d n hn hd hrange hw (fun _ => hn32)
  obtain ⟨sep, cols', hsep, hpr⟩ := printArgVals_run opt hc h
  refine ⟨⟨runText_ri a d n sep, cols'⟩, _, sep, hsep, ?_, hpr, rfl, count_run_unit h hu sep hsep,
    scan_run_unit h hu sep hsep⟩
  have : ((n - 1 : Nat) : Int) = (n : Int) - 1 := by omega
  simp [runText_ri, runHead, hu, this, show lit " ..." = [32, 46, 46, 46] from by decide]

/-- **Tier 3, integer arithmetic runs.**  With range compression on, one arithmetic run of
    `n ≥ 5` int32 values is printed as `a ... z` (step ±1) or `a b ... z`; the checker counts the
    cells of the range block, the scanner returns the block.
    `hrange` includes `k = n`: the step behind the last element must not overflow, else the
    printer cuts the run one element short.  `hwidth`: fix C10-15.  `hn32`: for steps ±1 the
    count itself must be an `int32_t` (for other steps this follows from `hwidth`). -/
theorem int_run_roundtrip (opt : POpt) (hc : opt.compress = true) (a d : Int) (n : Nat) (hn : 5 ≤ n) (hd : d ≠ 0)
    (hrange : ∀ k : Nat, k ≤ n → -2147483648 ≤ a + (k : Int) * d ∧ a + (k : Int) * d ≤ 2147483647)
    (hwidth : ((n : Int) - 1) * d.natAbs ≤ 2147483647)
    (hn32 : (d = 1 ∨ d = -1) → (n : Int) ≤ 2147483647) :
    ∃ (st : PSt) (ret : Nat) (cells : List Cell),
      printArgVals opt (arithRun a d n) ⟨[], 0⟩ = .ok (st, ret) ∧ ret = st.out.length ∧
      countPrintedArgVals st.out = .ok (cells.length : Int) ∧
      scanArgVals st.out cells.length = .ok (st.out.length, cells) ∧
      cells = (if d = 1 ∨ d = -1 then [Cell.rep n 1, Cell.int .i d, Cell.int .i a]
               else [Cell.int .i a, Cell.rep ((n : Int) - 1) 1, Cell.int .i d, Cell.int .i (a + d)]) := by
  have h := runHyp_mk a d n hn hd hrange hwidth hn32
  obtain ⟨sep, cols', hsep, hpr⟩ := printArgVals_run opt hc h
  by_cases hu : d = 1 ∨ d = -1
  · refine ⟨⟨runText_ri a d n sep, cols'⟩, _, [Cell.rep n 1, Cell.int .i d, Cell.int .i a], hpr, rfl,
      count_run_unit h hu sep hsep, scan_run_unit h hu sep hsep, by simp [hu]⟩
  · refine ⟨⟨runText_ri a d n sep, cols'⟩, _,
      [Cell.int .i a, Cell.rep ((n : Int) - 1) 1, Cell.int .i d, Cell.int .i (a + d)], hpr, rfl,
      count_run_step h hu sep hsep, scan_run_step h hu sep hsep, by simp [hu]⟩

/-- the printed text of the general case, for reference: `a b ... z` -/
theorem int_run_text (opt : POpt) (hc : opt.compress = true) (a d : Int) (n : Nat) (hn : 5 ≤ n) (hd : d ≠ 0)
    (hrange : ∀ k : Nat, k ≤ n → -2147483648 ≤ a + (k : Int) * d ∧ a + (k : Int) * d ≤ 2147483647)
    (hwidth : ((n : Int) - 1) * d.natAbs ≤ 2147483647)
    (hn32 : (d = 1 ∨ d = -1) → (n : Int) ≤ 2147483647) :
    ∃ (st : PSt) (ret : Nat) (sep : Bytes), IsSepTxt sep ∧
      printArgVals opt (arithRun a d n) ⟨[], 0⟩ = .ok (st, ret) ∧
      st.out = (if d = 1 ∨ d = -1 then fmtDec a else fmtDec a ++ lit " " ++ fmtDec (a + d)) ++ lit " ..." ++ sep ++
        fmtDec (a + ((n : Int) - 1) * d) := by
  have h := runHyp_mk a d n hn hd hrange hwidth hn32
  obtain ⟨sep, cols', hsep, hpr⟩ := printArgVals_run opt hc h
  refine ⟨⟨runText_ri a d n sep, cols'⟩, _, sep, hsep, hpr, ?_⟩
  have : ((n - 1 : Nat) : Int) = (n : Int) - 1 := by omega
  by_cases hu : d = 1 ∨ d = -1 <;>
    simp [runText_ri, runHead, hu, this, show lit " ..." = [32, 46, 46, 46] from by decide,
      show lit " " = [32] from by decide]

/-! ### the theorem applies to concrete runs -/

example := int_run_roundtrip defaultOpt rfl 1 1 7 (by decide) (by decide) (by intro k hk; omega) (by decide)
  (fun _ => by decide)
example := int_run_roundtrip defaultOpt rfl 10 (-2) 5 (by decide) (by decide) (by intro k hk; omega) (by decide)
  (fun _ => by decide)
example := int_run_roundtrip defaultOpt rfl (-1000000000) 500000000 5 (by decide) (by decide) (by intro k hk; omega)
  (by decide) (fun _ => by decide)

end Rtosc.Pretty
