/-
  C09 helper lemmas, part 10: `DigitsShort ts` (Walk/DigitsSpec.lean) implies C05's `IdxBounded`
  for the address of every reported pair.
-/
import RtoscModel.Proofs.WalkDispatch
import RtoscModel.Walk.DigitsSpec
namespace Rtosc.Walk
open Rtosc Rtosc.Path Rtosc.Match

theorem runsLe_skip (k : Nat) : ∀ (pre x : Bytes) (acc : Nat), runsLe k acc (pre ++ x) = true →
    ∃ acc', runsLe k acc' x = true := by
  intro pre
  induction pre with
  | nil => intro x acc h; exact ⟨acc, h⟩
  | cons c r ih =>
    intro x acc h
    simp only [List.cons_append, runsLe] at h
    split at h
    · simp only [Bool.and_eq_true] at h; exact ih x _ h.2
    · exact ih x _ h

theorem runsLe_run (k : Nat) : ∀ (run post : Bytes) (acc : Nat), (∀ c ∈ run, Match.isDigit c = true) → run ≠ [] →
    runsLe k acc (run ++ post) = true → acc + run.length ≤ k := by
  intro run
  induction run with
  | nil => intro _ _ _ h; exact absurd rfl h
  | cons c r ih =>
    intro post acc hd _ h
    have hc := hd c List.mem_cons_self
    simp only [List.cons_append, runsLe, hc, ↓reduceIte, Bool.and_eq_true, decide_eq_true_eq] at h
    cases r with
    | nil => simpa using h.1
    | cons c' r' =>
      have := ih post (acc + 1) (fun x hx => hd x (List.mem_cons_of_mem _ hx)) (by simp) h.2
      simp only [List.length_cons] at this ⊢
      omega

/-- no digit run longer than nine characters: every digit run is below 2^31 -/
theorem idxBounded_of_runsLe {a : Bytes} (h : runsLe 9 0 a = true) : IdxBounded a := by
  intro pre run post he hr
  cases run with
  | nil => simp [decVal]
  | cons c r =>
    rw [he, List.append_assoc] at h
    obtain ⟨acc', h'⟩ := runsLe_skip 9 pre _ 0 h
    have hl := runsLe_run 9 (c :: r) post acc' hr (by simp) h'
    have h1 := decVal_lt_pow hr
    have h2 : 10 ^ (c :: r).length ≤ 10 ^ 9 := Nat.pow_le_pow_right (by decide) (by omega)
    have h3 : (10:Nat) ^ 9 < 2 ^ 31 := by decide
    omega

theorem runsLe_append (k : Nat) : ∀ (x y : Bytes) (acc : Nat),
    runsLe k acc (x ++ y) = (runsLe k acc x && runsLe k (trail acc x) y) := by
  intro x
  induction x with
  | nil => intro y acc; simp [runsLe, trail]
  | cons c r ih =>
    intro y acc
    simp only [List.cons_append, runsLe, trail]
    split
    · rw [ih, Bool.and_assoc]
    · rw [ih]

theorem runsLe_digits (k : Nat) : ∀ (d y : Bytes) (acc : Nat), (∀ c ∈ d, Match.isDigit c = true) →
    acc + d.length ≤ k → runsLe k acc (d ++ y) = runsLe k (acc + d.length) y := by
  intro d
  induction d with
  | nil => intro y acc _ _; simp
  | cons c r ih =>
    intro y acc hd hl
    have hc := hd c List.mem_cons_self
    simp only [List.length_cons] at hl
    have h1 : acc + 1 ≤ k := by omega
    simp only [List.cons_append, runsLe, hc, ↓reduceIte, h1, decide_true, Bool.true_and, List.length_cons]
    rw [ih y (acc + 1) (fun x hx => hd x (List.mem_cons_of_mem _ hx)) (by omega)]
    congr 1
    omega

theorem runsLe_nodigit (k : Nat) (y : Bytes) (acc : Nat) (h : startsWithDigit y = false) :
    runsLe k acc y = runsLe k 0 y := by
  cases y with
  | nil => rfl
  | cons c r =>
    simp only [startsWithDigit] at h
    simp [runsLe, h]

theorem trail_nodigit (y : Bytes) (acc : Nat) (h : startsWithDigit y = false) (hne : y ≠ []) :
    trail acc y = trail 0 y := by
  cases y with
  | nil => exact absurd rfl hne
  | cons c r =>
    simp only [startsWithDigit] at h
    simp [trail, h]

theorem natDigits_le (ds : Bytes) (hnum : numOk ds = true) (i : Nat) (hi : i < decVal ds) :
    (natDigits i).length ≤ ds.length := by
  obtain ⟨hne, hd, _⟩ := numOk_spec hnum
  have h1 : 1 ≤ ds.length := by
    cases ds with
    | nil => exact absurd rfl hne
    | cons _ _ => simp
  exact natDigitsF_length i i ds.length h1 (Nat.lt_trans hi (decVal_lt_pow hd))

/-- an expansion of the enumerations of a name, followed by `y` -/
theorem runsLe_expand (k : Nat) : ∀ (ps : List (Bytes × Bytes)) (a y : Bytes) (acc : Nat), partsOk ps = true →
    partsRuns k acc ps = true → a ∈ expandParts ps → startsWithDigit y = false → runsLe k 0 y = true →
    runsLe k acc (a ++ y) = true := by
  intro ps
  induction ps with
  | nil =>
    intro a y acc _ _ ha hy hr
    simp [expandParts] at ha
    subst ha
    rw [List.nil_append, runsLe_nodigit k y acc hy]
    exact hr
  | cons p r ih =>
    obtain ⟨ds, t⟩ := p
    intro a y acc hok hpr ha hy hr
    obtain ⟨hnum, _, htd, htr, hrest⟩ := partsOk_cons hok
    simp only [partsRuns, Bool.and_eq_true, decide_eq_true_eq] at hpr
    simp only [expandParts, List.mem_flatMap, List.mem_range, List.mem_map] at ha
    obtain ⟨i, hi, a', ha', rfl⟩ := ha
    have hlen := natDigits_le ds hnum i hi
    have e : natDigits i ++ t ++ a' ++ y = natDigits i ++ (t ++ (a' ++ y)) := by simp
    rw [e, runsLe_digits k _ _ acc (natDigits_digits i) (by omega)]
    cases t with
    | nil =>
      have hr' : r = [] := by
        rcases htr with h | h
        · exact absurd rfl h
        · exact h
      subst hr'
      simp [expandParts] at ha'
      subst ha'
      rw [List.nil_append, List.nil_append, runsLe_nodigit k y _ hy]
      exact hr
    | cons c tr =>
      have hsd : startsWithDigit ((c :: tr) ++ (a' ++ y)) = false := by simpa [startsWithDigit] using htd
      rw [runsLe_nodigit k _ _ hsd, runsLe_append, hpr.1.2, Bool.true_and]
      exact ih a' y _ hrest hpr.2 ha' hy hr

/-- head, expansion, and what follows the name's part of the address -/
theorem runsLe_name {w : WName} (hok : w.ok = true) (hd : w.digitsShort = true) {a y : Bytes}
    (ha : a ∈ expandParts w.parts) (hy : startsWithDigit y = false) (hr : runsLe 9 0 y = true) :
    runsLe 9 0 (w.head ++ a ++ y) = true := by
  obtain ⟨_, hparts, _⟩ := WName.ok_spec hok
  simp only [WName.digitsShort, Bool.and_eq_true] at hd
  rw [List.append_assoc, runsLe_append, hd.1, Bool.true_and]
  exact runsLe_expand 9 w.parts a y _ hparts hd.2 ha hy hr

theorem digitsShortList_get {ts : List STree} (h : digitsShortList ts = true) {n : Nat} {t : STree}
    (ht : ts[n]? = some t) : t.digitsShort = true := by
  induction ts generalizing n with
  | nil => simp at ht
  | cons u r ih =>
    simp only [digitsShortList, Bool.and_eq_true] at h
    cases n with
    | zero => simp at ht; subst ht; exact h.1
    | succ n => simp at ht; exact ih h.2 ht

mutual
theorem digits_list : ∀ (ts front : List STree) (pre : Bytes) (path ix : List Nat) (addr : Bytes),
    wfList (front ++ ts) = true → digitsShortList (front ++ ts) = true →
    (ix, addr) ∈ enumList pre path ts front.length → ∃ rel, addr = pre ++ rel ∧ runsLe 9 0 rel = true
  | [], _, _, _, _, _, _, _, h => by simp [enumList] at h
  | t :: r, front, pre, path, ix, addr, hwf, hd, h => by
    simp only [enumList, List.mem_append] at h
    rcases h with h | h
    · have hget : (front ++ t :: r)[front.length]? = some t := by simp
      exact digits_tree t pre (path ++ [front.length]) ix addr (wfList_get hwf hget) (digitsShortList_get hd hget) h
    · have e : front ++ t :: r = (front ++ [t]) ++ r := by simp
      have el : front.length + 1 = (front ++ [t]).length := by simp
      rw [e] at hwf hd
      rw [el] at h
      exact digits_list r (front ++ [t]) pre path ix addr hwf hd h
theorem digits_tree : ∀ (t : STree) (pre : Bytes) (ixp ix : List Nat) (addr : Bytes),
    t.wf = true → t.digitsShort = true → (ix, addr) ∈ enumTree pre ixp t →
    ∃ rel, addr = pre ++ rel ∧ runsLe 9 0 rel = true
  | .leaf w md, pre, ixp, ix, addr, hwf, hd, h => by
    simp only [enumTree, List.mem_map, Prod.mk.injEq] at h
    obtain ⟨a, ha, _, h2⟩ := h
    have hok : w.ok = true := by simpa [STree.wf, WName.leafOk] using hwf
    refine ⟨w.head ++ a ++ slashIf w.slash, by simp [← h2], ?_⟩
    exact runsLe_name hok (by simpa [STree.digitsShort] using hd) ha (startsWithDigit_slashIf _)
      (by cases w.slash <;> decide)
  | .sub w md kids, pre, ixp, ix, addr, hwf, hd, h => by
    simp only [STree.wf, Bool.and_eq_true] at hwf
    simp only [STree.digitsShort, Bool.and_eq_true] at hd
    obtain ⟨hok, _, _, _⟩ := WName.subOk_spec hwf.1
    simp only [enumTree, List.mem_flatMap] at h
    obtain ⟨a, ha, h⟩ := h
    obtain ⟨rel', h2, h3⟩ := digits_list kids [] (pre ++ w.head ++ a ++ [47]) ixp ix addr
      (by simpa using hwf.2) (by simpa using hd.2) (by simpa using h)
    refine ⟨w.head ++ a ++ 47 :: rel', by simp [h2], ?_⟩
    exact runsLe_name hok hd.1 ha (startsWithDigit_slash rel') (by
      have h47 : Match.isDigit 47 = false := by decide
      simp [runsLe, h47, h3])
end

/-- **`DigitsShort` implies `IdxBounded` for every reported address** -/
theorem reported_idxBounded_aux (ts : List STree) (hwf : TreeWF ts) (hd : DigitsShort ts) (pre : Bytes)
    (ix : List Nat) (addr : Bytes) (h : (ix, addr) ∈ enumerate ts pre) :
    ∃ rel, addr = pre ++ rel ∧ IdxBounded rel := by
  obtain ⟨rel, h1, h2⟩ := digits_list ts [] pre [] ix addr (by simpa [TreeWF] using hwf)
    (by simpa [DigitsShort] using hd) (by simpa [enumerate] using h)
  exact ⟨rel, h1, idxBounded_of_runsLe h2⟩

end Rtosc.Walk
