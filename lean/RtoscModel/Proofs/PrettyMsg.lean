/-
  C10 — tier 2 continued: when the printer makes no range (`noConversion`), and whole messages
  (`rtosc_print_message` → `rtosc_count_printed_arg_vals_of_msg` → `rtosc_scan_message`).
-/
import RtoscModel.Proofs.PrettyList
namespace Rtosc.Pretty
open Rtosc Rtosc.Libc
open Rtosc.ArgVal (Cell)

theorem convertToRange_nocompress (opt : POpt) (h : opt.compress = false) (c : Cell) (more : List Cell) (size : Nat) :
    convertToRange opt (c :: more) size = .ok none := by
  unfold convertToRange
  by_cases hs : size < rangeMin
  · simp [hs, pure, Except.pure]
  · simp [hs, deref, h, bind, Except.bind, pure, Except.pure]

theorem incsize_scalar (c : Cell) (more : List Cell) (h : c.isScalar = true) : incsize (c :: more) = .ok 1 := by
  unfold incsize
  cases c <;> simp_all [deref, ArgVal.Cell.isScalar, bind, Except.bind, pure, Except.pure]

/-- the type-counting loop stops at a cell of another type -/
theorem countCommon_le (ty : UInt8) (arg : List Cell) (hsc : ∀ c ∈ arg, c.isScalar = true) (size : Nat) (j : Nat)
    (hj : j < arg.length) (hjs : j < size) (hty : (arg.getD j (.flag .N)).type ≠ ty) :
    ∀ (fuel i n : Nat), i ≤ j → ∀ m, countCommon fuel ty arg size i n = .ok m → m ≤ n + (j - i) := by
  intro fuel
  induction fuel with
  | zero => intro i n _ m h; simp [countCommon] at h
  | succ f ih =>
    intro i n hij m h
    unfold countCommon at h
    have hlt : i < size := by omega
    simp only [hlt, ↓reduceIte] at h
    have hil : i < arg.length := by omega
    obtain ⟨c, more, hd⟩ : ∃ c more, arg.drop i = c :: more := by
      cases hd : arg.drop i with
      | nil => have := List.drop_eq_nil_iff.mp hd; omega
      | cons c more => exact ⟨c, more, rfl⟩
    have hc : arg.getD i (.flag .N) = c := by
      have : (arg.drop i).head? = some c := by rw [hd]; rfl
      rw [List.head?_drop] at this
      simp [List.getD, this]
    have hcs : c.isScalar = true := hsc c (List.mem_of_mem_drop (by rw [hd]; simp))
    simp only [hd, deref, bind, Except.bind, incsize_scalar c more hcs] at h
    split at h
    · simp only [pure, Except.pure, Except.ok.injEq] at h
      omega
    · next hne =>
      have hij' : i ≠ j := by
        intro e; subst e; rw [hc] at hty; exact hne hty
      have := ih (i + 1) (n + 1) (by omega) m h
      omega

/-- on scalar cells the type-counting loop always returns -/
theorem countCommon_ok (ty : UInt8) (arg : List Cell) (hsc : ∀ c ∈ arg, c.isScalar = true) (size : Nat)
    (hsize : size ≤ arg.length) :
    ∀ (fuel i n : Nat), size - i < fuel → ∃ m, countCommon fuel ty arg size i n = .ok m := by
  intro fuel
  induction fuel with
  | zero => intro i n h; omega
  | succ f ih =>
    intro i n hf
    unfold countCommon
    by_cases hlt : i < size
    · simp only [hlt, ↓reduceIte]
      obtain ⟨c, more, hd⟩ : ∃ c more, arg.drop i = c :: more := by
        cases hd : arg.drop i with
        | nil => have := List.drop_eq_nil_iff.mp hd; omega
        | cons c more => exact ⟨c, more, rfl⟩
      have hcs : c.isScalar = true := hsc c (List.mem_of_mem_drop (by rw [hd]; simp))
      simp only [hd, deref, bind, Except.bind, incsize_scalar c more hcs]
      split
      · exact ⟨n, rfl⟩
      · exact ih (i + 1) (n + 1) (by omega)
    · simp only [hlt, ↓reduceIte]
      exact ⟨n, rfl⟩

/-- among the first five cells one has a type different from the first (or there are fewer than five) -/
def shortRun (cs : List Cell) : Bool :=
  match cs with
  | [] => true
  | c :: _ => decide (cs.length < 5) || (cs.take 5).any (fun x => x.type ≠ c.type)

/-- no position of the list starts five cells of one type: the printer never makes a range -/
def NoLongRun (args : List Cell) : Prop := ∀ i, i < args.length → shortRun (args.drop i) = true

theorem convertToRange_shortRun (opt : POpt) (c : Cell) (more : List Cell) (size : Nat)
    (hsize : size = (c :: more).length)
    (hsc : ∀ x ∈ c :: more, x.isScalar = true) (h : shortRun (c :: more) = true) :
    convertToRange opt (c :: more) size = .ok none := by
  unfold convertToRange
  by_cases hs : size < rangeMin
  · simp [hs, pure, Except.pure]
  · simp only [hs, ↓reduceIte, deref, bind, Except.bind]
    by_cases hcr : c.type = ArgVal.tyRange ∨ (!opt.compress) = true
    · rcases hcr with hcr | hcr <;> simp [hcr, pure, Except.pure]
    · simp only [hcr, ↓reduceIte]
      -- some cell among the first five has another type
      simp only [shortRun, Bool.or_eq_true, decide_eq_true_eq, List.any_eq_true] at h
      have hlen : ¬ ((c :: more).length < 5) := by rw [← hsize]; exact hs
      rcases h with h | ⟨x, hx, hxt⟩
      · exact absurd h hlen
      · obtain ⟨j, hj, hjx⟩ := List.getElem_of_mem hx
        have hj5 : j < 5 := by
          have := hj; simp only [List.length_take] at this; omega
        have hjl : j < (c :: more).length := by
          have := hj; simp only [List.length_take] at this; omega
        have hget : (c :: more).getD j (.flag .N) = x := by
          rw [List.getElem_take] at hjx
          simp [List.getD, List.getElem?_eq_getElem hjl, hjx]
        have hxt' : ((c :: more).getD j (.flag .N)).type ≠ c.type := by
          rw [hget]; simpa using hxt
        obtain ⟨m, hcc⟩ := countCommon_ok c.type (c :: more) hsc size (by omega) (size + 1) 0 0 (by omega)
        have := countCommon_le c.type (c :: more) hsc size j hjl (by omega) hxt' _ 0 0 (Nat.zero_le _) m hcc
        have hm : m < rangeMin := by unfold rangeMin; omega
        simp [hcc, hm, pure, Except.pure]



/-- compression switched off, or no five same-typed arguments in a row: no range is ever made -/
theorem noConversion (opt : POpt) (args : List Cell) (hsc : ∀ c ∈ args, c.isScalar = true)
    (h : opt.compress = false ∨ NoLongRun args) :
    ∀ i, i < args.length → convertToRange opt (args.drop i) (args.length - i) = .ok none := by
  intro i hi
  obtain ⟨c, more, hd⟩ : ∃ c more, args.drop i = c :: more := by
    cases hd : args.drop i with
    | nil => have := List.drop_eq_nil_iff.mp hd; omega
    | cons c more => exact ⟨c, more, rfl⟩
  rw [hd]
  rcases h with h | h
  · exact convertToRange_nocompress opt h c more _
  · apply convertToRange_shortRun opt c more _ _ _ (by rw [← hd]; exact h i hi)
    · rw [← hd, List.length_drop]
    · intro x hx; exact hsc x (List.mem_of_mem_drop (by rw [hd]; exact hx))

/-- an OSC address as the printer and scanner handle it: starts with '/', no white space -/
def AddrOK (a : Bytes) : Prop := hd a = 47 ∧ ∀ c ∈ a, isspace c = false

theorem takeWhile_notspace (a rest : Bytes) (ha : ∀ c ∈ a, isspace c = false) (hr : rest = [] ∨ isspace (hd rest) = true) :
    (a ++ rest).takeWhile (fun c => !isspace c) = a := by
  induction a with
  | nil =>
    rcases hr with rfl | hr
    · rfl
    · cases rest with
      | nil => rfl
      | cons c r => simp only [hd_cons] at hr; simp [hr]
  | cons c r ih =>
    simp [ha c (by simp), ih (fun x hx => ha x (by simp [hx]))]

theorem dropWhile_notspace (a rest : Bytes) (ha : ∀ c ∈ a, isspace c = false) (hr : rest = [] ∨ isspace (hd rest) = true) :
    (a ++ rest).dropWhile (fun c => !isspace c) = rest := by
  induction a with
  | nil =>
    rcases hr with rfl | hr
    · rfl
    · cases rest with
      | nil => rfl
      | cons c r => simp only [hd_cons] at hr; simp [hr]
  | cons c r ih =>
    simp [ha c (by simp), ih (fun x hx => ha x (by simp [hx]))]

/-- **Tier 2, whole messages.** -/
theorem message_roundtrip_of_tokens (opt : POpt) (addr : Bytes) (args : List Cell) (adrsize : Nat)
    (ha : AddrOK addr) (hal : addr.length < adrsize)
    (hP : ∀ c ∈ args, c.isScalar = true ∧ PrintsTok opt c)
    (hconv : ∀ i, i < args.length → convertToRange opt (args.drop i) (args.length - i) = .ok none) :
    ∃ (st : PSt) (ret : Nat),
      printMessage opt addr args 0 = .ok (st, ret) ∧ ret = st.out.length ∧
      countPrintedArgValsOfMsg st.out = .ok (args.length : Int) ∧
      scanMessage st.out adrsize args.length = .ok (st.out.length, addr, args) := by
  obtain ⟨ha47, hasp⟩ := ha
  have hane : addr ≠ [] := by intro h; rw [h] at ha47; simp at ha47
  obtain ⟨st', pre, body, hrun, hout, htt, hpre⟩ :=
    printLoop_spec opt args hP hconv args 0 (by simp) (args.length + 1) ⟨addr ++ [32], 0 + ((addr ++ [32]).length : Nat)⟩ 0
      (((addr ++ [32]).length : Int) - 1) (if (0 + ((addr ++ [32]).length : Nat) : Int) ≠ 0 then 1 else 0) (Nat.le_refl _)
      (Or.inr ⟨addr, rfl, by simp⟩)
  -- the separator behind the address
  obtain ⟨sep, hsep, hpre'⟩ : ∃ sep, IsSepTxt sep ∧ pre = addr ++ sep := by
    rcases hpre with h | ⟨base, h1, h2⟩
    · exact ⟨[32], Or.inl rfl, h⟩
    · have : base = addr := (List.append_inj_left' h1 rfl).symm
      exact ⟨nl4, Or.inr rfl, by rw [h2, this]⟩
  have hsepsp : isspace (hd sep) = true := by rcases hsep with rfl | rfl <;> rfl
  have hsepne : sep ≠ [] := by rcases hsep with rfl | rfl <;> simp
  have htext : st'.out = addr ++ (sep ++ body) := by rw [hout, hpre', List.append_assoc]
  have hrest : sep ++ body = [] ∨ isspace (hd (sep ++ body)) = true := by
    right; rw [hd_append_of_ne_nil _ _ hsepne]; exact hsepsp
  have hskip : skipSpace (sep ++ body) = body := by
    by_cases hne : args = []
    · subst hne; cases htt
      rcases hsep with rfl | rfl <;> rfl
    · exact skipSpace_sep sep body hsep (htt.start hne)
  have hlen : st'.out.length = addr.length + sep.length + body.length := by
    rw [htext]; simp only [List.length_append]; omega
  have haddr_sp : skipSpace (addr ++ (sep ++ body)) = addr ++ (sep ++ body) := by
    cases addr with
    | nil => exact absurd rfl hane
    | cons c r => simp [skipSpace, hasp c (by simp)]
  have hhd : hd (addr ++ (sep ++ body)) = 47 := by rw [hd_append_of_ne_nil _ _ hane]; exact ha47
  refine ⟨st', (addr ++ [32]).length + (0 + ((pre ++ body).length - (addr ++ [32]).length)), ?_, ?_, ?_, ?_⟩
  · unfold printMessage printArgVals
    simp only [bind, Except.bind, hrun, pure, Except.pure]
  · rw [hout]
    have : (addr ++ [32]).length ≤ (pre ++ body).length := by
      rw [hpre']; simp only [List.length_append, List.length_singleton]
      have := List.length_pos_iff.mpr hsepne
      omega
    omega
  · rw [htext]
    unfold countPrintedArgValsOfMsg
    simp only [haddr_sp, bind, Except.bind, skipCommentLines_none _ _ (by rw [hhd]; decide), hhd, ↓reduceIte,
      dropWhile_notspace addr (sep ++ body) hasp hrest]
    -- countPrintedArgVals (sep ++ body)
    unfold countPrintedArgVals
    rw [hskip]
    by_cases hne : args = []
    · subst hne; cases htt
      simp [skipCommentLines, countLoop, bind, Except.bind]
    · have hstart := htt.start hne
      have h37 : hd body ≠ 37 := hstart.2.2.2.2.2.1
      simp only [skipCommentLines_none _ body h37, bind, Except.bind]
      have hle : args.length ≤ body.length :=
        TokText.rec (motive := fun cs text _ => cs.length ≤ text.length) (by simp)
          (fun t c ht _ => by have := List.length_pos_iff.mpr ht.start.1; simp only [List.length_singleton]; omega)
          (fun t c sep cs text ht _ _ _ _ ih => by
            have := List.length_pos_iff.mpr ht.start.1
            simp only [List.length_cons, List.length_append]; omega) htt
      rw [countLoop_tokText htt _ none 0 (by omega)]
      simp
  · rw [htext]
    unfold scanMessage
    simp only [haddr_sp, Nat.sub_self, hhd, show (47 : UInt8) ≠ 37 from by decide, ↓reduceIte, pure, Except.pure,
      bind, Except.bind, List.drop_zero, Nat.add_zero, Nat.sub_zero,
      takeWhile_notspace addr (sep ++ body) hasp hrest]
    have htake : addr.take adrsize = addr := List.take_of_length_le (by omega)
    simp only [htake, List.drop_left, hskip]
    have := scanArgVals_tokText htt
    simp only [this, Nat.zero_add]
    congr 2
    simp only [List.length_append]
    omega


theorem convertToRange_small (opt : POpt) (arg : List Cell) (size : Nat) (h : size < 5) :
    convertToRange opt arg size = .ok none := by
  unfold convertToRange
  have : size < rangeMin := h
  simp [this, pure, Except.pure]

/-- the round trip of a single scalar argument whose token is only known to be good at the end of a text -/
theorem single_roundtrip_of_end (opt : POpt) (c : Cell) (hsc : c.isScalar = true)
    (hp : ∀ (fuel : Nat) (more : List Cell) (prev : Option Cell) (st : PSt), ∃ (t : Bytes) (cols' : Int),
      printArgVal (fuel + 1) opt (c :: more) prev st = .ok (⟨st.out ++ t, cols'⟩, t.length) ∧ TokEnd t c) :
    ∃ (st : PSt) (ret : Nat),
      printArgVals opt [c] ⟨[], 0⟩ = .ok (st, ret) ∧ ret = st.out.length ∧
      countPrintedArgVals st.out = .ok 1 ∧ scanArgVals st.out 1 = .ok (st.out.length, [c]) := by
  obtain ⟨t, cols', hprint, hend⟩ := hp (([c] : List Cell).length + 2) [] none ⟨[], 0⟩
  obtain ⟨pre1, cols1, awl1, hpre1, hstep⟩ :=
    printLoop_step opt [c] c [] 0 1 ⟨[], 0⟩ 0 (-1) 0 rfl (by simp) hsc t cols' (by simpa using hprint)
      (convertToRange_small opt _ _ (by simp)) (Or.inl rfl)
  have hpre0 : pre1 = [] := by
    rcases hpre1 with h | ⟨base, h1, _⟩
    · exact h
    · simp at h1
  subst hpre0
  have htt : TokText [c] t := TokText.one t c hend hsc
  refine ⟨⟨t, cols1⟩, t.length, ?_, rfl, ?_, ?_⟩
  · unfold printArgVals
    simp only [List.length_singleton, List.length_nil, Int.natCast_zero, Int.zero_sub, ne_eq,
      not_true_eq_false, ↓reduceIte] at hstep ⊢
    rw [show (1 : Nat) + 1 = 1 + 1 from rfl, hstep]
    simp [printArgValsLoop, pure, Except.pure]
  · simpa using countPrintedArgVals_tokText htt
  · simpa using scanArgVals_tokText htt

end Rtosc.Pretty
