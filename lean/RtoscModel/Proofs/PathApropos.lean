/-
  C18 — helper lemmas for `Ports::apropos` (model: RtoscModel/Path/Apropos.lean).
-/
import RtoscModel.Path.Apropos
namespace Rtosc.Path
open Rtosc

@[simp] theorem hd_nil : hd [] = 0 := rfl
@[simp] theorem hd_cons (c : UInt8) (r : Bytes) : hd (c :: r) = c := rfl

/-- the characters `rtosc_match_path` compares verbatim -/
def PlainChar (c : UInt8) : Prop := c ≠ 0 ∧ c ≠ 123 ∧ c ≠ 42 ∧ c ≠ 35 ∧ c ≠ COLON

/-- what follows the literal part of a name: nothing or `:…` -/
def TailOK (t : Bytes) : Prop := t = [] ∨ hd t = COLON

def CleanChar (c : UInt8) : Prop := c ≠ COLON ∧ c ≠ 0

theorem name_split (n : Bytes) : n = lit n ++ n.dropWhile (· ≠ COLON) := by
  unfold lit; exact (List.takeWhile_append_dropWhile).symm

theorem mem_takeWhile_sat {α} (p : α → Bool) (l : List α) : ∀ c ∈ l.takeWhile p, p c = true := by
  induction l with
  | nil => simp
  | cons a r ih =>
    intro c hc
    rw [List.takeWhile_cons] at hc
    split at hc
    · simp only [List.mem_cons] at hc
      rcases hc with rfl | hc
      · assumption
      · exact ih c hc
    · simp at hc

theorem lit_no_colon (n : Bytes) : ∀ c ∈ lit n, c ≠ COLON := by
  intro c hc
  have := mem_takeWhile_sat _ _ c hc
  simpa using this

theorem tail_ok (n : Bytes) : TailOK (n.dropWhile (· ≠ COLON)) := by
  unfold TailOK
  cases h : n.dropWhile (· ≠ COLON) with
  | nil => exact Or.inl rfl
  | cons c r =>
    right
    have := List.head_dropWhile_not (p := (· ≠ COLON)) (l := n) (by rw [h]; simp)
    simp only [h, List.head_cons] at this
    simpa using this

theorem plain_of_lit {n : Bytes} (h : LitName n) : ∀ c ∈ lit n, PlainChar c := by
  intro c hc
  obtain ⟨h0, h1, h2, h3⟩ := h c hc
  exact ⟨h0, h1, h2, h3, lit_no_colon n c hc⟩

theorem matchPath_nil (msg : Bytes) : matchPath [] msg = if hd msg = 0 then .ok [] msg else .null := by
  simp [matchPath, matchPathM]

theorem matchPath_colon (t msg : Bytes) :
    matchPath (COLON :: t) msg = if hd msg = 0 then .ok (COLON :: t) msg else .null := by
  by_cases h : hd msg = 0 <;> simp [matchPath, matchPathM, h]

/-- the step of `rtosc_match_path` on a plain pattern character -/
theorem matchPath_plain {c : UInt8} (hc : PlainChar c) (pr msg : Bytes) :
    matchPath (c :: pr) msg =
      if c = SLASH ∧ hd msg = SLASH then
        (if hd pr = 0 ∨ hd pr = COLON then .ok pr (msg.drop 1) else matchPath pr (msg.drop 1))
      else if c = hd msg then
        (if hd msg ≠ 0 then matchPath pr (msg.drop 1) else .ok (c :: pr) msg)
      else .null := by
  obtain ⟨_, c1, c2, c3, c4⟩ := hc
  simp only [matchPath]
  rw [matchPathM]
  simp only [Bool.false_eq_true, false_and, ↓reduceIte, c4, c1, c2, c3]

/-- Lemma A: a literal pattern never gives `unsupported`, and a match consumes the
    whole literal part -/
theorem matchPath_lit (l : Bytes) : ∀ (tail msg : Bytes), (∀ c ∈ l, PlainChar c) → TailOK tail →
    (∀ c ∈ msg, CleanChar c) →
    matchPath (l ++ tail) msg ≠ .unsupported ∧
    ∀ p e, matchPath (l ++ tail) msg = .ok p e → l <+: msg := by
  induction l with
  | nil =>
    intro tail msg _ ht hm
    rcases ht with rfl | ht
    · simp only [List.append_nil]
      rw [matchPath_nil]
      split <;> simp
    · cases tail with
      | nil => simp [COLON] at ht
      | cons c t =>
        simp only [hd_cons] at ht
        subst ht
        simp only [List.nil_append]
        rw [matchPath_colon]
        split <;> simp
  | cons c l' ih =>
    intro tail msg hl ht hm
    have hc0 := hl c List.mem_cons_self
    obtain ⟨c0, c1, c2, c3, c4⟩ := hc0
    have hl' : ∀ d ∈ l', PlainChar d := fun d hd => hl d (List.mem_cons_of_mem _ hd)
    simp only [List.cons_append]
    rw [matchPath_plain (hl c List.mem_cons_self)]
    by_cases hs : c = SLASH ∧ hd msg = SLASH
    · obtain ⟨rfl, hms⟩ := hs
      cases msg with
      | nil => simp [SLASH] at hms
      | cons m mr =>
        simp only [hd_cons] at hms
        subst hms
        have hmr : ∀ c ∈ mr, CleanChar c := fun c hc => hm c (List.mem_cons_of_mem _ hc)
        simp only [hd_cons, and_self, ↓reduceIte, List.drop_succ_cons, List.drop_zero]
        by_cases he : hd (l' ++ tail) = 0 ∨ hd (l' ++ tail) = COLON
        · rw [if_pos he]
          have : l' = [] := by
            cases l' with
            | nil => rfl
            | cons d _ =>
              obtain ⟨d0, _, _, _, d4⟩ := hl' d List.mem_cons_self
              simp only [List.cons_append, hd_cons] at he
              rcases he with he | he
              · exact absurd he d0
              · exact absurd he d4
          subst this
          refine ⟨by simp, ?_⟩
          intro p e _
          simp
        · rw [if_neg he]
          obtain ⟨h1, h2⟩ := ih tail mr hl' ht hmr
          refine ⟨h1, fun p e h => ?_⟩
          exact List.prefix_cons_inj _ |>.mpr (h2 p e h)
    · rw [if_neg hs]
      by_cases hc : c = hd msg
      · cases msg with
        | nil => simp at hc; exact absurd hc c0
        | cons m mr =>
          simp only [hd_cons] at hc
          subst hc
          have hmr : ∀ d ∈ mr, CleanChar d := fun d hd => hm d (List.mem_cons_of_mem _ hd)
          simp only [hd_cons, ↓reduceIte, ne_eq, c0, not_false_eq_true, List.drop_succ_cons, List.drop_zero]
          obtain ⟨h1, h2⟩ := ih tail mr hl' ht hmr
          refine ⟨h1, fun p e h => ?_⟩
          exact List.prefix_cons_inj _ |>.mpr (h2 p e h)
      · simp [hc]

/-- Lemma B1: a literal name matches its own literal part, to the end -/
theorem matchPath_self (l : Bytes) : ∀ (tail : Bytes), (∀ c ∈ l, PlainChar c) → TailOK tail →
    ∃ p, matchPath (l ++ tail) l = .ok p [] := by
  induction l with
  | nil =>
    intro tail _ ht
    rcases ht with rfl | ht
    · exact ⟨[], by simp [matchPath_nil]⟩
    · cases tail with
      | nil => exact ⟨[], by simp [matchPath_nil]⟩
      | cons c t =>
        simp only [hd_cons] at ht
        subst ht
        exact ⟨COLON :: t, by simp [matchPath_colon]⟩
  | cons c l' ih =>
    intro tail hl ht
    obtain ⟨c0, c1, c2, c3, c4⟩ := hl c List.mem_cons_self
    have hl' : ∀ d ∈ l', PlainChar d := fun d hd => hl d (List.mem_cons_of_mem _ hd)
    obtain ⟨p, hp⟩ := ih tail hl' ht
    simp only [List.cons_append]
    rw [matchPath_plain (hl c List.mem_cons_self)]
    simp only [hd_cons, and_self]
    by_cases hs : c = SLASH
    · subst hs
      simp only [↓reduceIte, List.drop_succ_cons, List.drop_zero]
      by_cases he : hd (l' ++ tail) = 0 ∨ hd (l' ++ tail) = COLON
      · rw [if_pos he]
        have : l' = [] := by
          cases l' with
          | nil => rfl
          | cons d _ =>
            obtain ⟨d0, _, _, _, d4⟩ := hl' d List.mem_cons_self
            simp only [List.cons_append, hd_cons] at he
            rcases he with he | he
            · exact absurd he d0
            · exact absurd he d4
        subst this
        exact ⟨_, rfl⟩
      · rw [if_neg he]; exact ⟨p, hp⟩
    · simp only [hs, ↓reduceIte, ne_eq, c0, not_false_eq_true, List.drop_succ_cons, List.drop_zero]
      exact ⟨p, hp⟩

/-- Lemma B2: a literal name ending in `/` matches every path that starts with it and
    leaves the rest -/
theorem plain_slash : PlainChar SLASH := by
  refine ⟨?_, ?_, ?_, ?_, ?_⟩ <;> simp [SLASH, COLON]

theorem matchPath_dir (l : Bytes) : ∀ (tail rest : Bytes), (∀ c ∈ l, PlainChar c) → TailOK tail →
    matchPath (l ++ SLASH :: tail) (l ++ SLASH :: rest) = .ok tail rest := by
  induction l with
  | nil =>
    intro tail rest _ ht
    have he : hd tail = 0 ∨ hd tail = COLON := by
      rcases ht with rfl | ht
      · exact Or.inl rfl
      · exact Or.inr ht
    simp only [List.nil_append]
    rw [matchPath_plain plain_slash, if_pos ⟨rfl, rfl⟩]
    simp only [List.drop_succ_cons, List.drop_zero]
    rw [if_pos he]
  | cons c l' ih =>
    intro tail rest hl ht
    obtain ⟨c0, c1, c2, c3, c4⟩ := hl c List.mem_cons_self
    have hl' : ∀ d ∈ l', PlainChar d := fun d hd => hl d (List.mem_cons_of_mem _ hd)
    have hnext : ¬ (hd (l' ++ SLASH :: tail) = 0 ∨ hd (l' ++ SLASH :: tail) = COLON) := by
      cases l' with
      | nil => simp [SLASH, COLON]
      | cons d _ =>
        obtain ⟨d0, _, _, _, d4⟩ := hl' d List.mem_cons_self
        simp [d0, d4]
    simp only [List.cons_append]
    rw [matchPath_plain (hl c List.mem_cons_self)]
    simp only [hd_cons, and_self]
    by_cases hs : c = SLASH
    · subst hs
      simp only [↓reduceIte, List.drop_succ_cons, List.drop_zero]
      rw [if_neg hnext]
      exact ih tail rest hl' ht
    · simp only [hs, ↓reduceIte, ne_eq, c0, not_false_eq_true, List.drop_succ_cons, List.drop_zero]
      exact ih tail rest hl' ht

/-- a clean string that is a prefix of a name is a prefix of its literal part -/
theorem prefix_lit (a : Bytes) : ∀ (l tail : Bytes), (∀ c ∈ a, c ≠ COLON) → TailOK tail →
    a <+: l ++ tail → a <+: l := by
  induction a with
  | nil => intro l _ _ _ _; exact List.nil_prefix
  | cons c a' ih =>
    intro l tail ha ht h
    cases l with
    | nil =>
      exfalso
      simp only [List.nil_append] at h
      rcases ht with rfl | ht
      · simp at h
      · cases tail with
        | nil => simp at h
        | cons d t =>
          simp only [hd_cons] at ht
          have := List.prefix_cons_inj (a := c) |>.mp (by
            have hh := h
            rw [List.cons_prefix_cons] at hh
            rw [hh.1]; exact (List.cons_prefix_cons.mpr ⟨rfl, hh.2⟩))
          have hcd : c = d := (List.cons_prefix_cons.mp h).1
          exact ha c List.mem_cons_self (hcd ▸ ht)
    | cons d l' =>
      simp only [List.cons_append] at h
      obtain ⟨rfl, h'⟩ := List.cons_prefix_cons.mp h
      exact List.cons_prefix_cons.mpr ⟨rfl, ih l' tail (fun x hx => ha x (List.mem_cons_of_mem _ hx)) ht h'⟩

/-! ### the two loops -/

theorem loop1_skip (path : Bytes) (pre : List PortT) : ∀ (rest : List PortT) (i : Nat),
    (∀ q ∈ pre, q.name.contains SLASH = true → matchPath q.name path = .null) →
    aproposLoop1 path (pre ++ rest) i = aproposLoop1 path rest (i + pre.length) := by
  induction pre with
  | nil => intro rest i _; simp
  | cons q pre' ih =>
    intro rest i h
    have hq := h q List.mem_cons_self
    have h' : ∀ q ∈ pre', q.name.contains SLASH = true → matchPath q.name path = .null :=
      fun x hx => h x (List.mem_cons_of_mem _ hx)
    simp only [List.cons_append]
    rw [aproposLoop1]
    by_cases hc : q.name.contains SLASH = true
    · rw [if_pos hc, hq hc]
      simp only
      rw [ih rest (i + 1) h']; congr 1; simp; omega
    · rw [if_neg hc, ih rest (i + 1) h']; congr 1; simp; omega

theorem loop2_skip (path : Bytes) (hp : hd path ≠ 0) (pre : List PortT) : ∀ (rest : List PortT) (i : Nat),
    (∀ q ∈ pre, path.isPrefixOf q.name = false ∧ matchPath q.name path = .null) →
    aproposLoop2 path (pre ++ rest) i = aproposLoop2 path rest (i + pre.length) := by
  induction pre with
  | nil => intro rest i _; simp
  | cons q pre' ih =>
    intro rest i h
    obtain ⟨h1, h2⟩ := h q List.mem_cons_self
    have h' : ∀ q ∈ pre', path.isPrefixOf q.name = false ∧ matchPath q.name path = .null :=
      fun x hx => h x (List.mem_cons_of_mem _ hx)
    simp only [List.cons_append]
    rw [aproposLoop2]
    simp only [hp, ↓reduceIte, h1, Bool.false_eq_true, h2]
    rw [ih rest (i + 1) h']; congr 1; simp; omega

theorem aproposSub_eq (p : PortT) (path : Bytes) : aproposSub p path = apropos p.children path := by
  cases p with
  | mk n m h cs => rw [aproposSub]; rfl

theorem dropWhile_slash (X : Bytes) : ∀ (Y : Bytes), Y ≠ [] →
    ∃ Z, Z ≠ [] ∧ (X ++ SLASH :: Y).dropWhile (· ≠ SLASH) = SLASH :: Z := by
  induction X with
  | nil => intro Y hY; exact ⟨Y, hY, by simp⟩
  | cons c X' ih =>
    intro Y hY
    by_cases hc : c = SLASH
    · subst hc
      exact ⟨X' ++ SLASH :: Y, by simp, by simp⟩
    · obtain ⟨Z, hZ, h⟩ := ih Y hY
      refine ⟨Z, hZ, ?_⟩
      rw [List.cons_append, List.dropWhile_cons]
      simp only [ne_eq, hc, not_false_eq_true, decide_true, ↓reduceIte]
      exact h

theorem split_at (ps : List PortT) : ∀ (i : Nat) (p : PortT), ps[i]? = some p →
    ∃ pre post, ps = pre ++ p :: post ∧ pre.length = i ∧
      ∀ q ∈ pre, ∃ j, j ≠ i ∧ ps[j]? = some q := by
  induction ps with
  | nil => intro i p h; simp at h
  | cons a r ih =>
    intro i p h
    cases i with
    | zero =>
      simp only [List.getElem?_cons_zero, Option.some.injEq] at h
      subst h
      exact ⟨[], r, rfl, rfl, by simp⟩
    | succ n =>
      simp only [List.getElem?_cons_succ] at h
      obtain ⟨pre, post, h1, h2, h3⟩ := ih n p h
      refine ⟨a :: pre, post, by rw [h1]; rfl, by simp [h2], ?_⟩
      intro q hq
      simp only [List.mem_cons] at hq
      rcases hq with rfl | hq
      · exact ⟨0, by omega, rfl⟩
      · obtain ⟨j, hj, hq'⟩ := h3 q hq
        exact ⟨j + 1, by omega, by simpa using hq'⟩

theorem lit_prefix_name (n : Bytes) : lit n <+: n := by
  unfold lit; exact List.takeWhile_prefix _

/-- a sibling of the row taken neither matches the path nor is prefixed by it -/
theorem sibling_null {ps : List PortT} {i : Nat} {p : PortT} (hlev : Level ps i p) {path : Bytes}
    (hclean : ∀ c ∈ path, CleanChar c) (hpre : lit p.name <+: path) :
    ∀ j q, ps[j]? = some q → j ≠ i →
      matchPath q.name path = .null ∧ path.isPrefixOf q.name = false := by
  intro j q hq hji
  obtain ⟨_, hlit, _, _, hsib⟩ := hlev
  obtain ⟨hs1, hs2⟩ := hsib j q hq hji
  have hqm : q ∈ ps := List.mem_of_getElem? hq
  have hplain := plain_of_lit (hlit q hqm)
  have hA := matchPath_lit (lit q.name) (q.name.dropWhile (· ≠ COLON)) path hplain (tail_ok _) hclean
  rw [← name_split] at hA
  constructor
  · cases hm : matchPath q.name path with
    | null => rfl
    | unsupported => exact absurd hm hA.1
    | ok pp e =>
      exfalso
      have h1 := hA.2 pp e hm
      rcases List.prefix_or_prefix_of_prefix h1 hpre with h | h
      · exact hs1 h
      · exact hs2 h
  · cases hb : path.isPrefixOf q.name with
    | false => rfl
    | true =>
      exfalso
      have h1 : path <+: q.name := List.isPrefixOf_iff_prefix.mp hb
      rw [name_split q.name] at h1
      have h2 := prefix_lit path _ _ (fun c hc => (hclean c hc).1) (tail_ok _) h1
      exact hs2 (List.IsPrefix.trans hpre h2)

theorem stripSlash_id (a : Bytes) (h : hd a ≠ SLASH) : stripSlash a = a := by
  simp [stripSlash, h]

/-- the lookup theorem in its inductive form: along an unambiguous index path the
    walked address resolves to that index path; the address is non-empty, does not start
    with `/` and contains neither `:` nor NUL -/
theorem apropos_addr : ∀ (ix : List Nat) (ps : List PortT) (a : Bytes),
    addrOf ps ix = some a → Unamb ps ix →
    apropos ps a = .port ix ∧ (a ≠ [] ∧ hd a ≠ SLASH ∧ ∀ c ∈ a, CleanChar c) := by
  intro ix
  induction ix with
  | nil => intro ps a h _; simp [addrOf] at h
  | cons i t ih =>
    intro ps a haddr hun
    cases t with
    | nil =>
      -- the reported port itself
      obtain ⟨p, hlev⟩ := hun
      have hlev' := hlev
      obtain ⟨hpi, hlit, hne, hhd, _⟩ := hlev
      simp only [addrOf, hpi] at haddr
      split at haddr
      · simp at haddr
      · rename_i hports
        simp only [Option.some.injEq] at haddr
        subst haddr
        have hpm : p ∈ ps := List.mem_of_getElem? hpi
        have hclean : ∀ c ∈ lit p.name, CleanChar c :=
          fun c hc => ⟨lit_no_colon _ c hc, (hlit p hpm c hc).1⟩
        refine ⟨?_, hne, hhd, hclean⟩
        obtain ⟨pre, post, hsplit, hlen, hpre⟩ := split_at ps i p hpi
        have hsib := sibling_null hlev' hclean (List.prefix_refl _)
        unfold apropos
        simp only [stripSlash_id _ hhd]
        have hpre1 : ∀ q ∈ pre, q.name.contains SLASH = true → matchPath q.name (lit p.name) = .null := by
          intro q hq _
          obtain ⟨j, hj, hqj⟩ := hpre q hq
          exact (hsib j q hqj hj).1
        have hplain := plain_of_lit (hlit p hpm)
        obtain ⟨pp, hself⟩ := matchPath_self (lit p.name) (p.name.dropWhile (· ≠ COLON)) hplain (tail_ok _)
        rw [← name_split] at hself
        by_cases hc : p.name.contains SLASH = true
        · rw [hsplit, loop1_skip _ pre _ 0 hpre1, aproposLoop1, if_pos hc, hself]
          simp [hports, hlen]
        · have hall : ∀ q ∈ ps, q.name.contains SLASH = true → matchPath q.name (lit p.name) = .null := by
            intro q hq hqc
            obtain ⟨j, hj⟩ := List.mem_iff_getElem?.mp hq
            by_cases hji : j = i
            · subst hji; rw [hpi] at hj; cases hj; exact absurd hqc hc
            · exact (hsib j q hj hji).1
          have h1 := loop1_skip (lit p.name) ps [] 0 hall
          simp only [List.append_nil] at h1
          rw [h1, aproposLoop1]
          simp only
          have hp0 : hd (lit p.name) ≠ 0 := by
            cases hl : lit p.name with
            | nil => exact absurd hl hne
            | cons c r => simpa using (hclean c (by rw [hl]; exact List.mem_cons_self)).2
          have hpre2 : ∀ q ∈ pre, (lit p.name).isPrefixOf q.name = false ∧ matchPath q.name (lit p.name) = .null := by
            intro q hq
            obtain ⟨j, hj, hqj⟩ := hpre q hq
            exact ⟨(hsib j q hqj hj).2, (hsib j q hqj hj).1⟩
          rw [hsplit, loop2_skip _ hp0 pre _ 0 hpre2, aproposLoop2]
          have : (lit p.name).isPrefixOf p.name = true := List.isPrefixOf_iff_prefix.mpr (lit_prefix_name _)
          simp [hp0, this, hlen]
    | cons j ix' =>
      -- descend into a sub-table
      obtain ⟨p, hlev, hlast, hun'⟩ := hun
      have hlev' := hlev
      obtain ⟨hpi, hlit, hne, hhd, _⟩ := hlev
      simp only [addrOf, hpi] at haddr
      split at haddr
      · rename_i hports
        obtain ⟨a', ha', rfl⟩ := Option.map_eq_some_iff.mp haddr
        obtain ⟨hrec, hne', hhd', hclean'⟩ := ih p.children a' ha' hun'
        have hsub : subPrefix p.name = lit p.name := by simp [subPrefix, hlast]
        rw [hsub]
        obtain ⟨l', hl'⟩ := List.getLast?_eq_some_iff.mp hlast
        have hpm : p ∈ ps := List.mem_of_getElem? hpi
        have hcl : ∀ c ∈ lit p.name, CleanChar c :=
          fun c hc => ⟨lit_no_colon _ c hc, (hlit p hpm c hc).1⟩
        have hclean : ∀ c ∈ lit p.name ++ a', CleanChar c := by
          intro c hc
          rcases List.mem_append.mp hc with h | h
          · exact hcl c h
          · exact hclean' c h
        have hhd2 : hd (lit p.name ++ a') ≠ SLASH := by
          cases hl : lit p.name with
          | nil => exact absurd hl hne
          | cons c r => rw [hl] at hhd; simpa using hhd
        refine ⟨?_, by simp [hne], hhd2, hclean⟩
        obtain ⟨pre, post, hsplit, hlen, hpre⟩ := split_at ps i p hpi
        have hsib := sibling_null hlev' hclean (List.prefix_append _ _)
        have hpre1 : ∀ q ∈ pre, q.name.contains SLASH = true → matchPath q.name (lit p.name ++ a') = .null := by
          intro q hq _
          obtain ⟨j, hj, hqj⟩ := hpre q hq
          exact (hsib j q hqj hj).1
        have hplain := plain_of_lit (hlit p hpm)
        have hplain' : ∀ c ∈ l', PlainChar c := fun c hc => hplain c (by rw [hl']; simp [hc])
        have hdir := matchPath_dir l' (p.name.dropWhile (· ≠ COLON)) a' hplain' (tail_ok _)
        have hname : p.name = l' ++ SLASH :: p.name.dropWhile (· ≠ COLON) := by
          conv => lhs; rw [name_split p.name, hl']
          simp
        have hc : p.name.contains SLASH = true := by
          rw [List.contains_iff_mem]
          rw [hname]; simp
        obtain ⟨Z, hZ, hdrop⟩ := dropWhile_slash l' a' hne'
        have hZ0 : hd Z ≠ 0 := by
          cases Z with
          | nil => exact absurd rfl hZ
          | cons z zr =>
            have hmem : z ∈ (l' ++ SLASH :: a').dropWhile (· ≠ SLASH) := by rw [hdrop]; simp
            have hsuf : z ∈ l' ++ SLASH :: a' := (List.dropWhile_sublist _).subset hmem
            have : z ∈ lit p.name ++ a' := by rw [hl']; simpa using hsuf
            simpa using (hclean z this).2
        unfold apropos
        simp only [stripSlash_id _ hhd2]
        rw [hsplit, loop1_skip _ pre _ 0 hpre1, aproposLoop1, if_pos hc]
        have hmatch : matchPath p.name (lit p.name ++ a') =
            .ok (p.name.dropWhile (· ≠ COLON)) a' := by
          rw [hl']
          conv => lhs; arg 1; rw [hname]
          simpa using hdir
        rw [hmatch]
        simp only [hports, ↓reduceIte]
        rw [show lit p.name ++ a' = l' ++ SLASH :: a' by rw [hl']; simp, hdrop]
        simp only [ne_eq, hZ0, not_false_eq_true, ↓reduceIte]
        rw [aproposSub_eq, hrec]
        simp [Look.under, hlen]
      · simp at haddr

/-! ### the enumerating walk reports exactly `addrOf` -/

/-- address of the port `t` below `p` (`t = []`: `p` itself) -/
def addrBelow (p : PortT) : List Nat → Option Bytes
  | [] => if p.hasPorts then none else some (lit p.name)
  | j :: ix => if p.hasPorts then (addrOf p.children (j :: ix)).map (subPrefix p.name ++ ·) else none

theorem addrOf_cons (ps : List PortT) (i : Nat) (t : List Nat) :
    addrOf ps (i :: t) = match ps[i]? with | none => none | some p => addrBelow p t := by
  cases t with
  | nil => cases h : ps[i]? <;> simp [addrOf, addrBelow, h]
  | cons j ix => cases h : ps[i]? <;> simp [addrOf, addrBelow, h]

mutual
theorem walkL_sound : ∀ (rest : List PortT) (i : Nat) (a : Bytes) (ix : List Nat),
    (a, ix) ∈ walkL rest i →
    ∃ k p t, ix = (i + k) :: t ∧ rest[k]? = some p ∧ addrBelow p t = some a
  | [], i, a, ix, h => by simp [walkL] at h
  | p :: rest, i, a, ix, h => by
    rw [walkL] at h
    rcases List.mem_append.mp h with h | h
    · obtain ⟨⟨a', t⟩, hm, heq⟩ := List.mem_map.mp h
      simp only [Prod.mk.injEq] at heq
      obtain ⟨rfl, rfl⟩ := heq
      exact ⟨0, p, t, rfl, rfl, walkP_sound p a' t hm⟩
    · obtain ⟨k, q, t, h1, h2, h3⟩ := walkL_sound rest (i + 1) a ix h
      exact ⟨k + 1, q, t, by rw [h1]; congr 1; omega, by simpa using h2, h3⟩
theorem walkP_sound : ∀ (p : PortT) (a : Bytes) (t : List Nat), (a, t) ∈ walkP p →
    addrBelow p t = some a
  | .mk n m hp cs, a, t, h => by
    rw [walkP] at h
    split at h
    · rename_i hh
      obtain ⟨⟨a', t'⟩, hm, heq⟩ := List.mem_map.mp h
      simp only [Prod.mk.injEq] at heq
      obtain ⟨rfl, rfl⟩ := heq
      obtain ⟨k, q, t2, h1, h2, h3⟩ := walkL_sound cs 0 a' t' hm
      subst h1
      simp only [Nat.zero_add, addrBelow, PortT.hasPorts, hh, ↓reduceIte, PortT.children, PortT.name]
      rw [addrOf_cons, h2]
      simp [h3]
    · rename_i hh
      simp only [List.mem_cons, Prod.mk.injEq, List.not_mem_nil, or_false] at h
      obtain ⟨rfl, rfl⟩ := h
      simp [addrBelow, PortT.hasPorts, hh, PortT.name]
end

theorem walk_sound (ps : List PortT) (a : Bytes) (ix : List Nat) (h : (a, ix) ∈ walk ps) :
    addrOf ps ix = some a := by
  obtain ⟨k, p, t, h1, h2, h3⟩ := walkL_sound ps 0 a ix h
  subst h1
  rw [addrOf_cons]
  simp [h2, h3]

/-! ### the global hypothesis implies the one along the path -/

theorem subTablesOK_get : ∀ (ps : List PortT) (i : Nat) (p : PortT), SubTablesOK ps → ps[i]? = some p →
    TreeOK p.children := by
  intro ps
  induction ps with
  | nil => intro i p _ h; simp at h
  | cons a r ih =>
    intro i p hok h
    rw [SubTablesOK] at hok
    cases i with
    | zero =>
      simp only [List.getElem?_cons_zero, Option.some.injEq] at h
      subst h
      cases a with
      | mk n m hp cs => rw [PortOK] at hok; exact hok.1
    | succ k =>
      simp only [List.getElem?_cons_succ] at h
      exact ih k p hok.2 h

theorem level_of_tableOK {ps : List PortT} (h : TableOK ps) {i : Nat} {p : PortT} (hp : ps[i]? = some p) :
    Level ps i p := by
  have hpm : p ∈ ps := List.mem_of_getElem? hp
  refine ⟨hp, fun q hq => (h.1 q hq).1, (h.1 p hpm).2.1, (h.1 p hpm).2.2.1, ?_⟩
  intro j q hq hji
  exact ⟨h.2 j i q p hq hp hji, h.2 i j p q hp hq (fun e => hji e.symm)⟩

theorem unamb_of_treeOK : ∀ (ix : List Nat) (ps : List PortT) (a : Bytes), TreeOK ps →
    addrOf ps ix = some a → Unamb ps ix := by
  intro ix
  induction ix with
  | nil => intro ps a _ h; simp [addrOf] at h
  | cons i t ih =>
    intro ps a hok haddr
    cases t with
    | nil =>
      cases hp : ps[i]? with
      | none => simp [addrOf, hp] at haddr
      | some p => exact ⟨p, level_of_tableOK hok.1 hp⟩
    | cons j ix' =>
      cases hp : ps[i]? with
      | none => simp [addrOf, hp] at haddr
      | some p =>
        simp only [addrOf, hp] at haddr
        split at haddr
        · rename_i hports
          obtain ⟨a', ha', _⟩ := Option.map_eq_some_iff.mp haddr
          have hpm : p ∈ ps := List.mem_of_getElem? hp
          exact ⟨p, level_of_tableOK hok.1 hp, (hok.1.1 p hpm).2.2.2 hports,
            ih p.children a' (subTablesOK_get ps i p hok.2 hp) ha'⟩
        · simp at haddr

end Rtosc.Path
