/-
  C11 — ranges INSIDE arrays: `[` blank, elements separated by white space, blank `]`, where an
  element is a good argument (`Arg11`: scalars in proved spellings, `nxA`, arrays again) or a range
  `b ... c` of decimal 'i' integers that stands first in the array or behind a provider (`Prov`: a
  scalar, `nx<scalar>`, another such range, an array, `nx[array]`).  Such an array is again a good
  argument (`arg11_arrayR`): what it is read as does not depend on what stands around it (the array
  scanner hands the elements a hole in front of the cells of the array, the checker starts the array
  without a previous argument), so it nests and takes part in `LayR` / `ArrBody` like any other value.
  `ArrR` generalises `ArrBody` the way `LayR` generalises `ArgsLay`.
-/
import RtoscModel.Proofs.ScanRangeList
namespace Rtosc.Pretty.C11
open Rtosc Rtosc.Libc Rtosc.Pretty
open Rtosc.ArgVal (Cell Item flatList)

/-! ### white space between the elements, as gaps -/

/-- a non-empty run of white-space characters -/
def WsGaps (g : List Gap) : Prop := g ≠ [] ∧ ∀ x ∈ g, ∃ w, x = Gap.ws w

theorem WsGaps.sepGaps {g : List Gap} (h : WsGaps g) : SepGaps g := by
  obtain ⟨hne, hall⟩ := h
  cases g with
  | nil => exact absurd rfl hne
  | cons x r =>
    obtain ⟨w, rfl⟩ := hall x (by simp)
    exact ⟨w, r, rfl⟩

theorem allWs_wsGaps : ∀ (g : List Gap), (∀ x ∈ g, ∃ w, x = Gap.ws w) → AllWs (gapsBytes g) := by
  intro g
  induction g with
  | nil => intro _ c hc; simp [gapsBytes] at hc
  | cons x r ih =>
    intro hall
    obtain ⟨w, rfl⟩ := hall x (by simp)
    intro c hc
    simp only [gapsBytes, List.map_cons, List.flatten_cons, Gap.bytes, List.mem_append, List.mem_singleton] at hc
    rcases hc with rfl | hc
    · exact isspace_ws w
    · exact ih (fun y hy => hall y (by simp [hy])) c hc

theorem WsGaps.allWs {g : List Gap} (h : WsGaps g) : AllWs (gapsBytes g) := allWs_wsGaps g h.2

theorem WsGaps.bytes_ne {g : List Gap} (h : WsGaps g) : gapsBytes g ≠ [] := by
  obtain ⟨w, r, rfl⟩ := h.sepGaps
  simp [gapsBytes, Gap.bytes]

/-! ### the elements of an array, ranges among them -/

/-- the elements of a non-empty array with the white space behind each of them; a range stands first
    or behind a provider -/
inductive ArrR : Ctx → List (Bytes × List Cell) → Bytes → Prop
  | lastA (ctx : Ctx) (t : Bytes) (cs : List Cell) (w : Bytes) : Arg11 t cs → AllWs w → ArrR ctx [(t, cs)] (t ++ w)
  | lastR (ctx : Ctx) (x z : Int) (w1 w2 w : Bytes) : ctx ≠ .any → RangeOK ctx.nb x z → AllWs w1 → w1 ≠ [] → AllWs w2 →
      AllWs w → ArrR ctx [(rangeTok x z w1 w2, rangeCellsNb ctx.nb x z)] (rangeTok x z w1 w2 ++ w)
  | consA (ctx : Ctx) (t : Bytes) (cs : List Cell) (g : List Gap) (more : List (Bytes × List Cell)) (body : Bytes) :
      Arg11 t cs → TailKeep cs → WsGaps g → ArrR .any more body → ArrR ctx ((t, cs) :: more) (t ++ (gapsBytes g ++ body))
  | consP (ctx : Ctx) (t : Bytes) (cs : List Cell) (nb : Option Int) (g : List Gap) (more : List (Bytes × List Cell))
      (body : Bytes) : Arg11 t cs → TailKeep cs → Prov t cs nb → WsGaps g → ArrR (.after t g cs nb) more body →
      ArrR ctx ((t, cs) :: more) (t ++ (gapsBytes g ++ body))
  | consR (ctx : Ctx) (x z : Int) (w1 w2 : Bytes) (g : List Gap) (more : List (Bytes × List Cell)) (body : Bytes) :
      ctx ≠ .any → RangeOK ctx.nb x z → AllWs w1 → w1 ≠ [] → AllWs w2 → WsGaps g →
      ArrR (.after (rangeTok x z w1 w2) g (rangeCellsNb ctx.nb x z) (some z)) more body →
      ArrR ctx ((rangeTok x z w1 w2, rangeCellsNb ctx.nb x z) :: more) (rangeTok x z w1 w2 ++ (gapsBytes g ++ body))

theorem ArrR.ne {ctx : Ctx} {tcs : List (Bytes × List Cell)} {body : Bytes} (h : ArrR ctx tcs body) : tcs ≠ [] := by
  cases h <;> simp

theorem ArrR.start {ctx : Ctx} {tcs : List (Bytes × List Cell)} {body : Bytes} (h : ArrR ctx tcs body) (rest : Bytes) :
    TokStart (body ++ rest) := by
  cases h with
  | lastA _ t cs w ht _ => rw [List.append_assoc]; exact tokStart_append_ri _ _ ht.start
  | lastR _ x z w1 w2 w _ hr _ _ _ _ =>
    rw [List.append_assoc]; exact tokStart_append_ri _ _ (rangeTok_tokStart x z hr.hx1 hr.hx2 w1 w2)
  | consA _ t cs g more body ht _ _ _ => rw [List.append_assoc]; exact tokStart_append_ri _ _ ht.start
  | consP _ t cs nb g more body ht _ _ _ _ => rw [List.append_assoc]; exact tokStart_append_ri _ _ ht.start
  | consR _ x z w1 w2 g more body _ hr _ _ _ _ _ =>
    rw [List.append_assoc]; exact tokStart_append_ri _ _ (rangeTok_tokStart x z hr.hx1 hr.hx2 w1 w2)

theorem rangeTok_length_ge (x z : Int) (hx1 : -2147483648 ≤ x) (hx2 : x ≤ 2147483647) (w1 w2 : Bytes) (hne : w1 ≠ []) :
    5 ≤ (rangeTok x z w1 w2).length := by
  have h1 := List.length_pos_iff.mpr (tokStart_fmtDec x hx1 hx2).1
  have h2 := List.length_pos_iff.mpr hne
  simp only [rangeTok, rangeRest, List.length_append, List.length_cons]
  omega

theorem ArrR.length_le {ctx : Ctx} {tcs : List (Bytes × List Cell)} {body : Bytes} (h : ArrR ctx tcs body) :
    tcs.length ≤ body.length := by
  induction h with
  | lastA _ t cs w ht _ =>
    have := List.length_pos_iff.mpr ht.start.1
    simp only [List.length_singleton, List.length_append]; omega
  | lastR _ x z w1 w2 w _ hr _ hne _ _ =>
    have := rangeTok_length_ge x z hr.hx1 hr.hx2 w1 w2 hne
    simp only [List.length_singleton, List.length_append]; omega
  | consA _ t cs g more body ht _ _ _ ih =>
    have := List.length_pos_iff.mpr ht.start.1
    simp only [List.length_cons, List.length_append]; omega
  | consP _ t cs nb g more body ht _ _ _ _ ih =>
    have := List.length_pos_iff.mpr ht.start.1
    simp only [List.length_cons, List.length_append]; omega
  | consR _ x z w1 w2 g more body _ hr _ hne _ _ _ ih =>
    have := rangeTok_length_ge x z hr.hx1 hr.hx2 w1 w2 hne
    simp only [List.length_cons, List.length_append]; omega

theorem ArrR.body_pos {ctx : Ctx} {tcs : List (Bytes × List Cell)} {body : Bytes} (h : ArrR ctx tcs body) :
    1 ≤ body.length := by
  have := h.length_le
  have := List.length_pos_iff.mpr h.ne
  omega

/-! ### the scanner's element loop -/

/-- one turn of the scanner's element loop, from what the element scanner returns in this context -/
theorem scanElems_stepB (se : ElemScanner) (t : Bytes) (cs : List Cell) (rest : Bytes) (lf : Nat) (prev : List Cell)
    (i : Nat) (pok : Bool) (acc : List Cell) (ty : UInt8) (b : Bool) (ty' : UInt8) (hstart : TokStart t) (hne : cs ≠ [])
    (hscan : se (t ++ rest) prev (if pok then acc.length else 0) true = .ok (t.length, cs))
    (hb : canPrecedeRange cs = .ok b) (hty : elemTy cs = .ok ty')
    (hoff : nextArgOffset (cs.length + 1) cs = .ok cs.length) :
    C11.scanArrayElems se (lf + 1) (t ++ rest) prev i pok acc ty =
      C11.scanArrayElems se lf (skipSpace rest) (cs.reverse ++ prev) (i + 1) b (acc ++ cs) ty' := by
  obtain ⟨h0, _, hn0, _, _, _, _, h93⟩ := hstart
  have hhd : hd (t ++ rest) = hd t := hd_append_of_ne_nil _ _ h0
  have hpos : t.length ≠ 0 := by
    have := List.length_pos_iff.mpr h0; omega
  have hadv : advance (t ++ rest) t.length = .ok rest := by simp [advance]
  obtain ⟨c0, r0, hc0⟩ := List.exists_cons_of_ne_nil hne
  have hty' : (do
      let c0 ← deref cs
      match c0 with
        | Cell.rep _ hdl => (do let c ← deref (cs.drop (if hdl ≠ 0 then 2 else 1)); pure c.type)
        | c => pure c.type : Res UInt8) = .ok ty' := hty
  conv => lhs; unfold C11.scanArrayElems
  simp only [hhd, ne_eq, hn0, not_false_eq_true, h93, and_self, ↓reduceIte, hscan, bind, Except.bind, hpos,
    hadv, hb, pure, Except.pure]
  simp only [bind, Except.bind, pure, Except.pure] at hty'
  rw [hc0] at hty' ⊢
  simp only [deref] at hty' ⊢
  rw [hc0] at hoff
  cases c0 <;> simp_all

/-- the loop stops at the closing bracket -/
theorem scanElems_close (se : ElemScanner) (lf : Nat) (rest : Bytes) (prev : List Cell) (i : Nat) (pok : Bool)
    (acc : List Cell) (ty : UInt8) :
    C11.scanArrayElems se (lf + 1) (93 :: rest) prev i pok acc ty = .ok (93 :: rest, acc, ty) := by
  unfold C11.scanArrayElems
  simp [pure, Except.pure]

/-- the scanner reads the range at the head of a text in its context, with more cells (`extra`: the
    hole of the array and what was scanned before the array) behind the cells of the context -/
theorem scan_rangeHeadX (ctx : Ctx) (hctx : ctx ≠ .any) (x z : Int) (hr : RangeOK ctx.nb x z) (w1 w2 rest : Bytes)
    (hw1 : AllWs w1) (hne : w1 ≠ []) (hw2 : AllWs w2) (hs : Sep rest) (done : List Cell) (pok : Bool)
    (hinv : SInv ctx done pok) (extra : List Cell) (f : Nat) :
    C11.scanArgVal (f + 2) (rangeTok x z w1 w2 ++ rest) (done.reverse ++ extra) (if pok then done.length else 0) true =
      .ok ((rangeTok x z w1 w2).length, rangeCellsNb ctx.nb x z) := by
  cases ctx with
  | any => exact absurd rfl hctx
  | first =>
    have hd : done = [] := hinv.2
    subst hd
    have := scanArgVal_range0 f x z hr.hx1 hr.hx2 hr.hz1 hr.hz2 w1 w2 rest hw1 hne hw2 hs ([].reverse ++ extra) _ _
      (fun ll => hr.delta_unit (Or.inl rfl) ll)
    rw [rangeTok_append, ← rangeTok_length x z w1 w2 rest]
    simp only [List.length_nil, ite_self]
    unfold rangeCellsNb
    rw [hr.count]
    exact this
  | after tp g csp nb =>
    obtain ⟨_, hp, done0, rfl, hT0, hcpr⟩ := hinv
    exact hp.scanRange done0 hT0 pok hcpr extra f x z hr w1 w2 rest hw1 hne hw2 hs

theorem ety_rangeCells (nb : Option Int) (x z : Int) : elemTy (rangeCellsNb nb x z) = .ok 105 := by
  simp [rangeCellsNb, elemTy, deref, bind, Except.bind, pure, Except.pure, ArgVal.Cell.type, ArgVal.IntTy.char]

theorem lastTy_single (ty : UInt8) (t : Bytes) (cs : List Cell) (ty' : UInt8) (h : elemTy cs = .ok ty') :
    lastTy ty [(t, cs)] = ty' := by
  simp [lastTy, h]

theorem skipSpace_close (w rest : Bytes) (hw : AllWs w) : skipSpace (w ++ 93 :: rest) = 93 :: rest := by
  rw [skipSpace_allWs w _ hw]; simp [skipSpace, isspace]

/-- **the scanner's element loop** over the elements of an array with ranges -/
theorem scanElemsR {ctx : Ctx} {tcs : List (Bytes × List Cell)} {body : Bytes} (h : ArrR ctx tcs body) :
    ∀ (rest : Bytes) (f lf : Nat) (outer : List Cell) (i : Nat) (pok : Bool) (acc : List Cell) (ty : UInt8),
      tcs.length + 1 ≤ lf → body.length ≤ f + 1 → SInv ctx acc pok →
      C11.scanArrayElems (C11.scanArgVal (f + 2)) lf (body ++ 93 :: rest) (acc.reverse ++ outer) i pok acc ty =
        .ok (93 :: rest, acc ++ allCells tcs, lastTy ty tcs) := by
  induction h with
  | lastA ctx t cs w ht hw =>
    intro rest f lf outer i pok acc ty hlf hf hinv
    obtain ⟨l, rfl⟩ : ∃ l, lf = l + 2 := ⟨lf - 2, by simp at hlf; omega⟩
    obtain ⟨b, hb⟩ := ht.cpr
    obtain ⟨ty', hty⟩ := ht.ety
    have hscan := ht.scan (w ++ 93 :: rest) (f + 1) (acc.reverse ++ outer) (if pok then acc.length else 0) true
      (sep_close w rest hw) (by simp only [List.length_append] at hf; omega)
    rw [List.append_assoc, scanElems_stepB _ t cs _ (l + 1) _ i pok acc ty b ty' ht.start ht.ne hscan hb hty ht.off,
      skipSpace_close w rest hw, scanElems_close]
    simp [allCells, lastTy_single ty t cs ty' hty]
  | lastR ctx x z w1 w2 w hctx hr hw1 hne hw2 hw =>
    intro rest f lf outer i pok acc ty hlf hf hinv
    obtain ⟨l, rfl⟩ : ∃ l, lf = l + 2 := ⟨lf - 2, by simp at hlf; omega⟩
    have hscan := scan_rangeHeadX ctx hctx x z hr w1 w2 (w ++ 93 :: rest) hw1 hne hw2 (sep_close w rest hw) acc pok hinv
      outer f
    rw [List.append_assoc, scanElems_stepB _ (rangeTok x z w1 w2) _ _ (l + 1) _ i pok acc ty true 105
        (rangeTok_tokStart x z hr.hx1 hr.hx2 w1 w2) (by simp [rangeCellsNb]) hscan (cpr_rangeCells _ _ _)
        (ety_rangeCells _ _ _) (off_rangeCells _ _ _),
      skipSpace_close w rest hw, scanElems_close]
    simp [allCells, lastTy_single ty _ _ 105 (ety_rangeCells _ _ _)]
  | consA ctx t cs g more body ht hnd hg hmore ih =>
    intro rest f lf outer i pok acc ty hlf hf hinv
    obtain ⟨l, rfl⟩ : ∃ l, lf = l + 1 := ⟨lf - 1, by simp at hlf; omega⟩
    obtain ⟨b, hb⟩ := ht.cpr
    obtain ⟨ty', hty⟩ := ht.ety
    have hstart := hmore.start (93 :: rest)
    have hsep : Sep (gapsBytes g ++ (body ++ 93 :: rest)) := sep_next _ _ hg.allWs hg.bytes_ne hstart
    have hsk : skipSpace (gapsBytes g ++ (body ++ 93 :: rest)) = body ++ 93 :: rest := by
      rw [skipSpace_allWs _ _ hg.allWs]; exact skipSpace_tokStart _ hstart
    have hscan := ht.scan (gapsBytes g ++ (body ++ 93 :: rest)) (f + 1) (acc.reverse ++ outer)
      (if pok then acc.length else 0) true hsep (by simp only [List.length_append] at hf; omega)
    have e : t ++ (gapsBytes g ++ body) ++ 93 :: rest = t ++ (gapsBytes g ++ (body ++ 93 :: rest)) := by simp
    have e2 : cs.reverse ++ (acc.reverse ++ outer) = (acc ++ cs).reverse ++ outer := by simp
    rw [e, scanElems_stepB _ t cs _ l _ i pok acc ty b ty' ht.start ht.ne hscan hb hty ht.off, hsk, e2,
      ih rest f l outer (i + 1) b (acc ++ cs) ty' (by simp at hlf; omega)
        (by simp only [List.length_append] at hf; omega) ⟨hnd _ hinv.1, trivial⟩,
      lastTy_cons _ _ _ hmore.ne, lastTy_ne ty' ty more hmore.ne]
    simp [allCells, List.append_assoc]
  | consP ctx t cs nb g more body ht hnd hp hg hmore ih =>
    intro rest f lf outer i pok acc ty hlf hf hinv
    obtain ⟨l, rfl⟩ : ∃ l, lf = l + 1 := ⟨lf - 1, by simp at hlf; omega⟩
    obtain ⟨b, hb⟩ := ht.cpr
    obtain ⟨ty', hty⟩ := ht.ety
    have hstart := hmore.start (93 :: rest)
    have hsep : Sep (gapsBytes g ++ (body ++ 93 :: rest)) := sep_next _ _ hg.allWs hg.bytes_ne hstart
    have hsk : skipSpace (gapsBytes g ++ (body ++ 93 :: rest)) = body ++ 93 :: rest := by
      rw [skipSpace_allWs _ _ hg.allWs]; exact skipSpace_tokStart _ hstart
    have hscan := ht.scan (gapsBytes g ++ (body ++ 93 :: rest)) (f + 1) (acc.reverse ++ outer)
      (if pok then acc.length else 0) true hsep (by simp only [List.length_append] at hf; omega)
    have e : t ++ (gapsBytes g ++ body) ++ 93 :: rest = t ++ (gapsBytes g ++ (body ++ 93 :: rest)) := by simp
    have e2 : cs.reverse ++ (acc.reverse ++ outer) = (acc ++ cs).reverse ++ outer := by simp
    rw [e, scanElems_stepB _ t cs _ l _ i pok acc ty b ty' ht.start ht.ne hscan hb hty ht.off, hsk, e2,
      ih rest f l outer (i + 1) b (acc ++ cs) ty' (by simp at hlf; omega)
        (by simp only [List.length_append] at hf; omega) ⟨hnd _ hinv.1, hp, acc, rfl, hinv.1, hb⟩,
      lastTy_cons _ _ _ hmore.ne, lastTy_ne ty' ty more hmore.ne]
    simp [allCells, List.append_assoc]
  | consR ctx x z w1 w2 g more body hctx hr hw1 hne hw2 hg hmore ih =>
    intro rest f lf outer i pok acc ty hlf hf hinv
    obtain ⟨l, rfl⟩ : ∃ l, lf = l + 1 := ⟨lf - 1, by simp at hlf; omega⟩
    have hstart := hmore.start (93 :: rest)
    have hsep : Sep (gapsBytes g ++ (body ++ 93 :: rest)) := sep_next _ _ hg.allWs hg.bytes_ne hstart
    have hsk : skipSpace (gapsBytes g ++ (body ++ 93 :: rest)) = body ++ 93 :: rest := by
      rw [skipSpace_allWs _ _ hg.allWs]; exact skipSpace_tokStart _ hstart
    have hscan := scan_rangeHeadX ctx hctx x z hr w1 w2 _ hw1 hne hw2 hsep acc pok hinv outer f
    have e : rangeTok x z w1 w2 ++ (gapsBytes g ++ body) ++ 93 :: rest =
        rangeTok x z w1 w2 ++ (gapsBytes g ++ (body ++ 93 :: rest)) := by simp
    have e2 : (rangeCellsNb ctx.nb x z).reverse ++ (acc.reverse ++ outer) = (acc ++ rangeCellsNb ctx.nb x z).reverse ++ outer := by
      simp
    rw [e, scanElems_stepB _ (rangeTok x z w1 w2) _ _ l _ i pok acc ty true 105
        (rangeTok_tokStart x z hr.hx1 hr.hx2 w1 w2) (by simp [rangeCellsNb]) hscan (cpr_rangeCells _ _ _)
        (ety_rangeCells _ _ _) (off_rangeCells _ _ _), hsk, e2,
      ih rest f l outer (i + 1) true (acc ++ rangeCellsNb ctx.nb x z) 105 (by simp at hlf; omega)
        (by simp only [List.length_append] at hf; omega)
        ⟨TailOK.append_range acc _ _ _, Prov.range ctx.nb x z w1 w2 hr hw1 hne hw2, acc, rfl, hinv.1, cpr_rangeCells _ _ _⟩,
      lastTy_cons _ _ _ hmore.ne, lastTy_ne 105 ty more hmore.ne]
    simp [allCells, List.append_assoc]

/-! ### the checker's element loop -/

/-- one turn of the checker's element loop, from what the skipper returns in this context -/
theorem skipElems_stepG (sk : ArgSkipper) (t rest : Bytes) (k : Nat) (rty : UInt8) (lf : Nat) (recent : Option Bytes)
    (aty : UInt8) (skipped : Int) (hstart : TokStart t)
    (hskip : ∃ r, sk (t ++ rest) 20 recent true true = .ok r ∧ r.src = some rest ∧ r.skipped = k ∧ r.type = rty)
    (hty : aty = 0 ∨ arraytypesMatch aty rty = true) :
    skipArrayElems sk (lf + 1) (some (t ++ rest)) recent aty skipped =
      skipArrayElems sk lf (some (skipSpace rest)) (some (t ++ rest)) (if aty = 0 then rty else aty) (skipped + k) := by
  obtain ⟨h0, _, hn0, _, _, _, _, h93⟩ := hstart
  have hhd : hd (t ++ rest) = hd t := hd_append_of_ne_nil _ _ h0
  obtain ⟨r, hr, hsrc, hsk, hrty⟩ := hskip
  have hlt : ¬ ((skipSpace rest).length ≥ (t ++ rest).length) := by
    have := skipSpace_length_le rest
    have := List.length_pos_iff.mpr h0
    simp only [List.length_append]; omega
  conv => lhs; unfold skipArrayElems
  simp only [hhd, ne_eq, hn0, not_false_eq_true, h93, and_self, ↓reduceIte, hr, bind, Except.bind, hsrc,
    Option.map_some]
  by_cases ha : aty = 0
  · simp only [ha, ↓reduceIte, hlt, pure, Except.pure, hrty, hsk]
  · have hm : arraytypesMatch aty rty = true := by
      rcases hty with h | h
      · exact absurd h ha
      · exact h
    simp only [ha, ↓reduceIte, hrty, hm, Bool.not_true, Bool.false_eq_true, hlt, pure, Except.pure, hsk]

theorem skipElems_close (sk : ArgSkipper) (lf : Nat) (rest : Bytes) (recent : Option Bytes) (aty : UInt8) (skipped : Int) :
    skipArrayElems sk (lf + 1) (some (93 :: rest)) recent aty skipped = .ok (some (93 :: rest), skipped) := by
  unfold skipArrayElems
  simp

/-- the state of the checker's element loop: `CInv`, and the recursion bound covers the previous element -/
def CInvF (ctx : Ctx) (recent : Option Bytes) (text : Bytes) (F : Nat) : Prop :=
  CInv ctx recent text ∧
  match ctx with
  | .after tp _ _ _ => tp.length + 2 ≤ F
  | _ => True

/-- the checker reads the range at the head of a text in its context, inside an array -/
theorem skip_rangeHeadX (ctx : Ctx) (hctx : ctx ≠ .any) (x z : Int) (hr : RangeOK ctx.nb x z) (w1 w2 rest : Bytes)
    (hw1 : AllWs w1) (hne : w1 ≠ []) (hw2 : AllWs w2) (hs : Sep rest) (recent : Option Bytes) (f : Nat) (ty : UInt8) (ib : Bool)
    (hinv : CInvF ctx recent (rangeTok x z w1 w2 ++ rest) (f + 2)) :
    C11.skipNextPrintedArg (f + 3) (rangeTok x z w1 w2 ++ rest) ty recent true ib = .ok ⟨some rest, 3, 45⟩ := by
  cases ctx with
  | any => exact absurd rfl hctx
  | first =>
    have hrec : recent = none := hinv.1
    subst hrec
    rw [rangeTok_append]
    exact skipNext_range0 (f + 1) x z hr.hx1 hr.hx2 hr.hz1 hr.hz2 w1 w2 rest hw1 hne hw2 hs ty ib _ _
      (fun ll => hr.delta_unit (Or.inl rfl) ll) (by have := hr.hq1; omega)
  | after tp g csp nb =>
    obtain ⟨⟨hp, hg, hrec⟩, hF⟩ := hinv
    subst hrec
    exact hp.skipRange g hg f x z hr w1 w2 rest hw1 hne hw2 hs ty ib (by simp only at hF; omega)

theorem skipTy_rangeCells (nb : Option Int) (x z : Int) : skipTy (rangeCellsNb nb x z) = 45 := by
  simp [skipTy, rangeCellsNb, ArgVal.Cell.type, ArgVal.tyRange]

theorem typesOK_tail {aty : UInt8} {p : Bytes × List Cell} {more : List (Bytes × List Cell)}
    (h : if aty = 0 then ElemTypesOK (p :: more) else TypesOK aty (p :: more)) :
    (aty = 0 ∨ arraytypesMatch aty (skipTy p.2) = true) ∧ TypesOK (if aty = 0 then skipTy p.2 else aty) more := by
  by_cases ha : aty = 0
  · simp only [ha, ↓reduceIte] at h ⊢
    exact ⟨Or.inl trivial, h⟩
  · simp only [ha, ↓reduceIte] at h ⊢
    exact ⟨Or.inr (h p (by simp)), fun q hq => h q (by simp [hq])⟩

theorem skipTy_ne_zero {cs : List Cell} (h : cs ≠ []) : skipTy cs ≠ 0 := by
  obtain ⟨c, r, hc⟩ := List.exists_cons_of_ne_nil h
  simp only [skipTy, hc, List.headD_cons]
  exact cell_type_ne_zero c

theorem aty_step_ne {aty : UInt8} {cs : List Cell} (h : cs ≠ []) : (if aty = 0 then skipTy cs else aty) ≠ 0 := by
  by_cases ha : aty = 0
  · simp only [ha, ↓reduceIte]; exact skipTy_ne_zero h
  · simp only [ha, ↓reduceIte]; exact ha

/-- **the checker's element loop** over the elements of an array with ranges -/
theorem skipElemsR {ctx : Ctx} {tcs : List (Bytes × List Cell)} {body : Bytes} (h : ArrR ctx tcs body) :
    ∀ (rest : Bytes) (F lf : Nat) (recent : Option Bytes) (aty : UInt8) (skipped : Int),
      tcs.length + 1 ≤ lf → body.length ≤ F + 1 → (if aty = 0 then ElemTypesOK tcs else TypesOK aty tcs) →
      CInvF ctx recent (body ++ 93 :: rest) (F + 1) →
      skipArrayElems (C11.skipNextPrintedArg (F + 2)) lf (some (body ++ 93 :: rest)) recent aty skipped =
        .ok (some (93 :: rest), skipped + (allCells tcs).length) := by
  induction h with
  | lastA ctx t cs w ht hw =>
    intro rest F lf recent aty skipped hlf hF htys hinv
    obtain ⟨l, rfl⟩ : ∃ l, lf = l + 2 := ⟨lf - 2, by simp at hlf; omega⟩
    obtain ⟨r, hr, hsrc, hskp, hrty⟩ := ht.skip (w ++ 93 :: rest) (F + 1) 20 recent true true (sep_close w rest hw)
      (by simp only [List.length_append] at hF; omega)
    rw [List.append_assoc, skipElems_stepG _ t _ cs.length (skipTy cs) (l + 1) recent aty skipped ht.start
      ⟨r, hr, hsrc, hskp, hrty⟩ (typesOK_tail htys).1, skipSpace_close w rest hw, skipElems_close]
    simp [allCells]
  | lastR ctx x z w1 w2 w hctx hr hw1 hne hw2 hw =>
    intro rest F lf recent aty skipped hlf hF htys hinv
    obtain ⟨l, rfl⟩ : ∃ l, lf = l + 2 := ⟨lf - 2, by simp at hlf; omega⟩
    have hlen := rangeTok_length_ge x z hr.hx1 hr.hx2 w1 w2 hne
    obtain ⟨f, rfl⟩ : ∃ f, F = f + 1 := ⟨F - 1, by simp only [List.length_append] at hF; omega⟩
    have hskip := skip_rangeHeadX ctx hctx x z hr w1 w2 (w ++ 93 :: rest) hw1 hne hw2 (sep_close w rest hw) recent f 20 true
      (by rw [← List.append_assoc]; exact hinv)
    have htt := (typesOK_tail htys).1
    rw [skipTy_rangeCells] at htt
    rw [List.append_assoc, skipElems_stepG _ (rangeTok x z w1 w2) _ 3 45 (l + 1) recent aty skipped
      (rangeTok_tokStart x z hr.hx1 hr.hx2 w1 w2) ⟨_, hskip, rfl, rfl, rfl⟩ htt, skipSpace_close w rest hw, skipElems_close]
    simp [allCells, rangeCellsNb]
  | consA ctx t cs g more body ht hnd hg hmore ih =>
    intro rest F lf recent aty skipped hlf hF htys hinv
    obtain ⟨l, rfl⟩ : ∃ l, lf = l + 1 := ⟨lf - 1, by simp at hlf; omega⟩
    have hstart := hmore.start (93 :: rest)
    have hsep : Sep (gapsBytes g ++ (body ++ 93 :: rest)) := sep_next _ _ hg.allWs hg.bytes_ne hstart
    have hsk : skipSpace (gapsBytes g ++ (body ++ 93 :: rest)) = body ++ 93 :: rest := by
      rw [skipSpace_allWs _ _ hg.allWs]; exact skipSpace_tokStart _ hstart
    obtain ⟨r, hr, hsrc, hskp, hrty⟩ := ht.skip (gapsBytes g ++ (body ++ 93 :: rest)) (F + 1) 20 recent true true hsep
      (by simp only [List.length_append] at hF; omega)
    have e : t ++ (gapsBytes g ++ body) ++ 93 :: rest = t ++ (gapsBytes g ++ (body ++ 93 :: rest)) := by simp
    obtain ⟨ht1, ht2⟩ := typesOK_tail htys
    rw [e, skipElems_stepG _ t _ cs.length (skipTy cs) l recent aty skipped ht.start ⟨r, hr, hsrc, hskp, hrty⟩ ht1, hsk,
      ih rest F l _ _ _ (by simp at hlf; omega) (by simp only [List.length_append] at hF; omega)
        (by rw [if_neg (aty_step_ne ht.ne)]; exact ht2) ⟨trivial, trivial⟩]
    simp only [allCells, List.map_cons, List.flatten_cons, List.length_append]
    congr 2
    push_cast
    omega
  | consP ctx t cs nb g more body ht hnd hp hg hmore ih =>
    intro rest F lf recent aty skipped hlf hF htys hinv
    obtain ⟨l, rfl⟩ : ∃ l, lf = l + 1 := ⟨lf - 1, by simp at hlf; omega⟩
    have hstart := hmore.start (93 :: rest)
    have hsep : Sep (gapsBytes g ++ (body ++ 93 :: rest)) := sep_next _ _ hg.allWs hg.bytes_ne hstart
    have hsk : skipSpace (gapsBytes g ++ (body ++ 93 :: rest)) = body ++ 93 :: rest := by
      rw [skipSpace_allWs _ _ hg.allWs]; exact skipSpace_tokStart _ hstart
    obtain ⟨r, hr, hsrc, hskp, hrty⟩ := ht.skip (gapsBytes g ++ (body ++ 93 :: rest)) (F + 1) 20 recent true true hsep
      (by simp only [List.length_append] at hF; omega)
    have e : t ++ (gapsBytes g ++ body) ++ 93 :: rest = t ++ (gapsBytes g ++ (body ++ 93 :: rest)) := by simp
    obtain ⟨ht1, ht2⟩ := typesOK_tail htys
    have hb1 := hmore.body_pos
    have hg1 := List.length_pos_iff.mpr hg.bytes_ne
    rw [e, skipElems_stepG _ t _ cs.length (skipTy cs) l recent aty skipped ht.start ⟨r, hr, hsrc, hskp, hrty⟩ ht1, hsk,
      ih rest F l _ _ _ (by simp at hlf; omega) (by simp only [List.length_append] at hF; omega)
        (by rw [if_neg (aty_step_ne ht.ne)]; exact ht2)
        ⟨⟨hp, hg.sepGaps, rfl⟩, by simp only [List.length_append] at hF ⊢; omega⟩]
    simp only [allCells, List.map_cons, List.flatten_cons, List.length_append]
    congr 2
    push_cast
    omega
  | consR ctx x z w1 w2 g more body hctx hr hw1 hne hw2 hg hmore ih =>
    intro rest F lf recent aty skipped hlf hF htys hinv
    obtain ⟨l, rfl⟩ : ∃ l, lf = l + 1 := ⟨lf - 1, by simp at hlf; omega⟩
    have hstart := hmore.start (93 :: rest)
    have hsep : Sep (gapsBytes g ++ (body ++ 93 :: rest)) := sep_next _ _ hg.allWs hg.bytes_ne hstart
    have hsk : skipSpace (gapsBytes g ++ (body ++ 93 :: rest)) = body ++ 93 :: rest := by
      rw [skipSpace_allWs _ _ hg.allWs]; exact skipSpace_tokStart _ hstart
    have hlen := rangeTok_length_ge x z hr.hx1 hr.hx2 w1 w2 hne
    obtain ⟨f, rfl⟩ : ∃ f, F = f + 1 := ⟨F - 1, by simp only [List.length_append] at hF; omega⟩
    have e : rangeTok x z w1 w2 ++ (gapsBytes g ++ body) ++ 93 :: rest =
        rangeTok x z w1 w2 ++ (gapsBytes g ++ (body ++ 93 :: rest)) := by simp
    have hskip := skip_rangeHeadX ctx hctx x z hr w1 w2 (gapsBytes g ++ (body ++ 93 :: rest)) hw1 hne hw2 hsep recent f 20 true
      (by rw [← e]; exact hinv)
    obtain ⟨ht1, ht2⟩ := typesOK_tail htys
    rw [skipTy_rangeCells] at ht1 ht2
    have hb1 := hmore.body_pos
    have hg1 := List.length_pos_iff.mpr hg.bytes_ne
    have hne0 : (if aty = 0 then (45 : UInt8) else aty) ≠ 0 := by
      by_cases ha : aty = 0
      · simp [ha]
      · simp [ha]
    rw [e, skipElems_stepG _ (rangeTok x z w1 w2) _ 3 45 l recent aty skipped
      (rangeTok_tokStart x z hr.hx1 hr.hx2 w1 w2) ⟨_, hskip, rfl, rfl, rfl⟩ ht1, hsk,
      ih rest (f + 1) l _ _ _ (by simp at hlf; omega) (by simp only [List.length_append] at hF; omega)
        (by rw [if_neg hne0]; exact ht2)
        ⟨⟨Prov.range ctx.nb x z w1 w2 hr hw1 hne hw2, hg.sepGaps, rfl⟩, by simp only [List.length_append] at hF ⊢; omega⟩]
    simp only [allCells, List.map_cons, List.flatten_cons, List.length_append, rangeCellsNb, List.length_cons,
      List.length_nil]
    congr 2
    push_cast
    omega

/-! ### the array -/

theorem ArrR.allCells_ne {ctx : Ctx} {tcs : List (Bytes × List Cell)} {body : Bytes} (h : ArrR ctx tcs body) :
    allCells tcs ≠ [] := by
  cases h with
  | lastA _ t cs w ht _ => simpa [allCells] using ht.ne
  | lastR _ x z w1 w2 w _ _ _ _ _ _ => simp [allCells, rangeCellsNb]
  | consA _ t cs g more body ht _ _ _ => simp [allCells, ht.ne]
  | consP _ t cs nb g more body ht _ _ _ _ => simp [allCells, ht.ne]
  | consR _ x z w1 w2 g more body _ _ _ _ _ _ _ => simp [allCells, rangeCellsNb]

/-- **arrays with ranges**: the text `[`, blank, elements (ranges among them), `]` is a good argument -/
theorem arg11_arrayR {tcs : List (Bytes × List Cell)} {body : Bytes} (h : ArrR .first tcs body) (b0 : Bytes)
    (hb0 : AllWs b0) (htys : ElemTypesOK tcs) :
    Arg11 (arrText b0 body) (Cell.arr (lastTy 32 tcs) (allCells tcs).length :: allCells tcs) := by
  have hstart : TokStart (arrText b0 body) := ⟨by simp [arrText], by simp only [arrText, hd_cons]; decide⟩
  have hlen1 := h.length_le
  have hbp := h.body_pos
  have htl : (arrText b0 body).length = b0.length + body.length + 2 := by simp [arrText]; omega
  have happ : ∀ rest, arrText b0 body ++ rest = 91 :: (b0 ++ (body ++ 93 :: rest)) := by
    intro rest; simp [arrText]
  have hsk0 : ∀ rest, skipSpace (b0 ++ (body ++ 93 :: rest)) = body ++ 93 :: rest := by
    intro rest
    rw [skipSpace_allWs b0 _ hb0]
    exact skipSpace_tokStart _ (h.start (93 :: rest))
  refine ⟨hstart, by simp, ?_, ⟨false, by simp [canPrecedeRange, deref, bind, Except.bind, pure, Except.pure]⟩,
    ⟨97, by simp [elemTy, deref, bind, Except.bind, pure, Except.pure, ArgVal.Cell.type, ArgVal.tyA]⟩, ?_, ?_⟩
  · -- next_arg_offset
    unfold nextArgOffset
    have : ¬ (((allCells tcs).length : Int) < 0) := by omega
    simp [deref, bind, Except.bind, pure, Except.pure, this]
  · intro rest fuel prev ab fe hs hf
    obtain ⟨f, rfl⟩ : ∃ f, fuel = f + 2 := ⟨fuel - 2, by omega⟩
    have hloop := scanElemsR h rest f ((arrText b0 body ++ rest).length + 1) (Cell.arr 32 0 :: prev) 0 true [] 32
      (by simp only [List.length_append]; omega) (by omega) ⟨tailOK_nil, rfl⟩
    unfold C11.scanArgVal
    have hscanV : C11.scanValue (C11.scanArgVal (f + 2)) (arrText b0 body ++ rest) prev =
        .ok ⟨rest, Cell.arr (lastTy 32 tcs) (allCells tcs).length :: allCells tcs, true⟩ := by
      unfold C11.scanValue
      rw [happ]
      simp only [hd_cons, ↓reduceIte]
      unfold C11.scanArray
      simp only [List.drop_succ_cons, List.drop_zero, hsk0 rest]
      have hl : (91 :: (b0 ++ (body ++ 93 :: rest))).length + 1 = (arrText b0 body ++ rest).length + 1 := by
        rw [happ]
      simp only [List.reverse_nil, List.nil_append] at hloop
      rw [hl, hloop]
      simp [bind, Except.bind, pure, Except.pure, advance]
    rw [hscanV]
    simp only [bind, Except.bind]
    exact finishArg_plain _ _ rest _ true prev ab fe hs
  · intro rest fuel ty llhs fe ib hs hf
    obtain ⟨F, rfl⟩ : ∃ F, fuel = F + 2 := ⟨fuel - 2, by omega⟩
    have h3 := (sep_skipSpace_facts rest hs).2
    refine ⟨⟨some rest, 1 + (allCells tcs).length, 97⟩, ?_, rfl, by simp; omega, by simp [ArgVal.Cell.type, ArgVal.tyA]⟩
    have hloop := skipElemsR h rest F ((arrText b0 body ++ rest).length + 1) none 0 1
      (by simp only [List.length_append]; omega) (by omega) (by simpa using htys) ⟨rfl, trivial⟩
    unfold C11.skipNextPrintedArg
    have hsv : skipValue (C11.skipNextPrintedArg (F + 2)) (arrText b0 body ++ rest) ty ib =
        .ok (some ⟨some rest, 1 + (allCells tcs).length, 97, 0⟩) := by
      rw [happ, skipValue_bracket _ _ _ _ (by simp)]
      unfold skipArray
      simp only [List.drop_succ_cons, List.drop_zero, hsk0 rest]
      have hl : (91 :: (b0 ++ (body ++ 93 :: rest))).length + 1 = (arrText b0 body ++ rest).length + 1 := by
        rw [happ]
      rw [hl, hloop]
      simp [bind, Except.bind, pure, Except.pure]
    rw [hsv]
    simp [bind, Except.bind, h3, pure, Except.pure]

end Rtosc.Pretty.C11
