/-
  C10 — tier 3, compressed runs AND arrays (1): the scanner.

  * the element loop of the array scanner (`scanArrayElems`) over a body text of segments — values,
    `nxT`, `a ... z`, `a b ... z` — with the look-back through the cells written so far in the array
    (`args_before = num_read`, fix C11-06): `scanArr_seg`, `scanArrayElems_segs`;
  * `[` body `]` as one argument: `scanArgVal_arrSegs`;
  * the loop of `rtosc_scan_arg_vals` over pieces (segments and arrays): behind an array the
    scanner has `args_before = 0` (fix C11-04) while the printer looked at the array's last
    element (`SCtx`): `scanLoop_aseg`, `scanLoop_asegs`, `scanArgVals_asegs`.
-/
import RtoscModel.Proofs.PrettyRunsArrDefs
set_option linter.unusedSimpArgs false
set_option linter.unusedVariables false
namespace Rtosc.Pretty
open Rtosc Rtosc.Libc
open Rtosc.ArgVal (Cell)

/-! ### the look-back with further cells behind the inspected ones -/

theorem lookL_append {p : List Cell} {ab : Nat} {L : Option Cell} (h : LookL p ab L) (hab : ab ≤ p.length)
    (X : List Cell) : LookL (p ++ X) ab L := by
  cases h with
  | zero => exact LookL.zero _
  | head _ _ c hpos hhead hcond =>
    refine LookL.head _ _ c hpos ?_ ?_
    · cases p with
      | nil => simp at hab; omega
      | cons x xs => simpa using hhead
    · by_cases h2 : ab > 2
      · have hd2 : (p ++ X).drop 2 = p.drop 2 ++ X := List.drop_append_of_le_length (by omega)
        rw [hd2]
        have hne : p.drop 2 ≠ [] := by
          intro e
          have := List.drop_eq_nil_iff.mp e
          omega
        obtain ⟨y, ys, hy⟩ := List.exists_cons_of_ne_nil hne
        rw [hy] at hcond ⊢
        simpa using hcond
      · simp [h2]
  | range s d num more _ v hab' hv => exact LookL.range s d num (more ++ X) _ v hab' hv

theorem ScanInv.lookA {L : Option Cell} {acc : List Cell} (h : ScanInv L acc true) (outer : List Cell) :
    LookL (acc.reverse ++ outer) acc.length L := by
  have := h.look
  simp only [↓reduceIte] at this
  exact lookL_append this (by simp) outer

/-! ### one element of the array loop -/

/-- the three shapes of cells an element of the proved class is scanned to, with the element type
    the array loop derives from them -/
def ElemShape (cells : List Cell) (ty : UInt8) : Prop :=
  (∃ c, cells = [c] ∧ c.isScalar = true ∧ ty = c.type) ∨
  (∃ n c, cells = [Cell.rep n 0, c] ∧ c.isScalar = true ∧ ty = c.type) ∨
  (∃ n d a, cells = [Cell.rep n 1, d, a] ∧ d.isScalar = true ∧ ty = a.type)

theorem scanArr_one (se : ElemScanner) (T sep next : Bytes) (hT : TokStart T) (htail : TailR sep next) (lf : Nat)
    (prev : List Cell) (i : Nat) (pok : Bool) (acc cells : List Cell) (ty ty' : UInt8)
    (hscan : se (T ++ (sep ++ next)) prev (if pok then acc.length else 0) true = .ok (T.length, cells))
    (hshape : ElemShape cells ty') :
    scanArrayElems se (lf + 1) (T ++ (sep ++ next)) prev i pok acc ty =
      scanArrayElems se lf next (cells.reverse ++ prev) (i + 1) true (acc ++ cells) ty' := by
  obtain ⟨hne, _, h0, _, _, _, _, h93⟩ := hT
  have hhd : hd (T ++ (sep ++ next)) = hd T := hd_append_of_ne_nil _ _ hne
  have hlen : T.length ≠ 0 := by have := List.length_pos_iff.mpr hne; omega
  have hadv : advance (T ++ (sep ++ next)) T.length = .ok (sep ++ next) := by simp [advance]
  rw [scanArrayElems]
  rcases hshape with ⟨c, rfl, hsc, rfl⟩ | ⟨n, c, rfl, hsc, rfl⟩ | ⟨n, d, a, rfl, hsc, rfl⟩
  · simp only [hhd, h0, h93, ne_eq, not_false_eq_true, and_self, ↓reduceIte, hscan, bind, Except.bind, hlen,
      hadv, deref, nextArgOffset_scalar _ c [] hsc, List.length_singleton, not_true_eq_false,
      pure, Except.pure, canPrecedeRange_scalar c [] hsc, htail.2]
    split
    · simp [ArgVal.Cell.isScalar] at hsc
    · rfl
  · simp only [hhd, h0, h93, ne_eq, not_false_eq_true, and_self, ↓reduceIte, hscan, bind, Except.bind, hlen,
      hadv, deref, nextArgOffset_rep0 _ c hsc, List.length_cons, List.length_nil, not_true_eq_false,
      pure, Except.pure, canPrecedeRange_rep_scalar _ c [] hsc, htail.2, List.drop_succ_cons, List.drop_zero]
  · simp only [hhd, h0, h93, ne_eq, not_false_eq_true, and_self, ↓reduceIte, hscan, bind, Except.bind, hlen,
      hadv, deref, nextArgOffset_range _ d a hsc, List.length_cons, List.length_nil, not_true_eq_false,
      pure, Except.pure, canPrecedeRange_delta, htail.2, List.drop_succ_cons, List.drop_zero, Int.one_ne_zero]

/-! ### one segment in the array loop -/

theorem scanArr_seg (fuel : Nat) {L : Option Cell} {s : RSeg} {T : Bytes} (hT : SegText L s T) {acc : List Cell}
    (hinv : ScanInv L acc true) (outer : List Cell) (sep next : Bytes) (htail : TailR sep next) (lf i : Nat) (ty : UInt8) :
    scanArrayElems (scanArgVal (fuel + 2)) (lf + s.nargs L) (T ++ (sep ++ next)) (acc.reverse ++ outer) i true acc ty =
      scanArrayElems (scanArgVal (fuel + 2)) lf next ((acc ++ s.scanned L).reverse ++ outer) (i + s.nargs L) true
        (acc ++ s.scanned L) s.last.type ∧
    ScanInv (some s.last) (acc ++ s.scanned L) true := by
  have hS := htail.1
  have hTs := hT.start
  cases hT with
  | tok t c ht hsc =>
    simp only [RSeg.scanned, RSeg.nargs, RSeg.last]
    refine ⟨?_, scanInv_tok hinv c hsc⟩
    have := scanArr_one (scanArgVal (fuel + 2)) T sep next hTs htail lf (acc.reverse ++ outer) i true acc [c] ty c.type
      (ht.scan (sep ++ next) _ _ _ hS) (Or.inl ⟨c, rfl, hsc, rfl⟩)
    simpa [List.append_assoc] using this
  | crun m t c ht hsc hm1 hm2 =>
    simp only [RSeg.scanned, RSeg.nargs, RSeg.last]
    refine ⟨?_, scanInv_crun hinv m c hsc⟩
    have := scanArr_one (scanArgVal (fuel + 2)) (runText m t) sep next hTs htail lf (acc.reverse ++ outer) i true acc
      [Cell.rep m 0, c] ty c.type (scanArgVal_runG m hm1 hm2 t c ht _ _ _ (sep ++ next) hS)
      (Or.inr (Or.inl ⟨_, c, rfl, hsc, rfl⟩))
    simpa [List.append_assoc] using this
  | short a d m sp h hsf hsp =>
    obtain ⟨hu, hnc⟩ := shortForm_unit hsf
    simp only [RSeg.scanned, RSeg.nargs, RSeg.last, hsf, ↓reduceIte]
    refine ⟨?_, scanInv_range hinv m a d _ (zOf_toI32 h).symm⟩
    have hscan := scanArgVal_ellG fuel a (zOf a d m) h.r0.1 h.r0.2 h.rz.1 h.rz.2 sp hsp (sep ++ next) hS.toW
      (acc.reverse ++ outer) acc.length L (hinv.lookA outer)
      true (uselessFor_of_not_confusing L a hnc) m (Cell.int .i d) (by simpa [zOf] using delta_run_unit h hu)
    rw [← ellRest_append, ← List.append_assoc] at hscan
    have := scanArr_one (scanArgVal (fuel + 2)) _ sep next hTs htail lf (acc.reverse ++ outer) i true acc
      [Cell.rep m 1, Cell.int .i d, Cell.int .i a] ty 105 (by simpa using hscan)
      (Or.inr (Or.inr ⟨_, _, _, rfl, rfl, rfl⟩))
    simpa [List.append_assoc, type_int_i] using this
  | long a d m sp h hsf hsp =>
    simp only [RSeg.scanned, RSeg.nargs, RSeg.last, hsf, Bool.false_eq_true, ↓reduceIte]
    have hinv1 := scanInv_tok hinv (Cell.int .i a) rfl
    have hne : a ≠ a + d := by have := h.hd; omega
    have hinv2 := scanInv_range hinv1 ((m : Int) - 1) (a + d) d _ (zOf_toI32_long h).symm
    refine ⟨?_, by simpa [List.append_assoc] using hinv2⟩
    generalize hT2 : fmtDec (a + d) ++ ellRest sp (fmtDec (zOf a d m)) = T2 at *
    have hT2s : TokStart T2 := by rw [← hT2]; exact tokStart_append_ri _ _ (tokStart_fmtDec _ h.r1.1 h.r1.2)
    have hstart2 : TokStart (T2 ++ (sep ++ next)) := tokStart_append_ri _ _ hT2s
    have htail1 : TailR [32] (T2 ++ (sep ++ next)) := tailR_sep _ _ (Or.inl rfl) hstart2
    have hta := tokOK_int a h.r0.1 h.r0.2
    have h1 := scanArr_one (scanArgVal (fuel + 2)) (fmtDec a) [32] (T2 ++ (sep ++ next)) hta.start htail1 (lf + 1)
      (acc.reverse ++ outer) i true acc [Cell.int .i a] ty 105 (hta.scan _ _ _ _ htail1.1)
      (Or.inl ⟨_, rfl, rfl, rfl⟩)
    have hscan := scanArgVal_ellG fuel (a + d) (zOf a d m) h.r1.1 h.r1.2 h.rz.1 h.rz.2 sp hsp (sep ++ next) hS.toW
      ((acc ++ [Cell.int .i a]).reverse ++ outer) (acc ++ [Cell.int .i a]).length _ (hinv1.lookA outer)
      false (Or.inr ⟨a, rfl, by simp [hne]⟩) ((m : Int) - 1) (Cell.int .i d)
      (by simpa [zOf] using delta_run_step h)
    rw [← ellRest_append, ← List.append_assoc, hT2] at hscan
    have h2 := scanArr_one (scanArgVal (fuel + 2)) T2 sep next hT2s htail lf
      ((acc ++ [Cell.int .i a]).reverse ++ outer) (i + 1) true (acc ++ [Cell.int .i a])
      [Cell.rep ((m : Int) - 1) 1, Cell.int .i d, Cell.int .i (a + d)] 105 105 (by simpa using hscan)
      (Or.inr (Or.inr ⟨_, _, _, rfl, rfl, rfl⟩))
    have e : fmtDec a ++ ([32] ++ T2) ++ (sep ++ next) = fmtDec a ++ ([32] ++ (T2 ++ (sep ++ next))) := by
      simp [List.append_assoc]
    rw [e, show lf + 2 = (lf + 1) + 1 from rfl, h1]
    have e2 : [Cell.int .i a].reverse ++ (acc.reverse ++ outer) = (acc ++ [Cell.int .i a]).reverse ++ outer := by simp
    rw [e2, h2]
    simp [List.append_assoc, type_int_i]

/-! ### the array loop over a body text -/

theorem scanArrayElems_segs (fuel : Nat) {L : Option Cell} {segs : List RSeg} {text : Bytes} (h : SegsText L segs text)
    (rest : Bytes) (outer : List Cell) :
    ∀ (lf : Nat) (acc : List Cell) (i : Nat) (ty : UInt8), ScanInv L acc true → nargsAll L segs + 1 ≤ lf →
      scanArrayElems (scanArgVal (fuel + 2)) lf (text ++ 93 :: rest) (acc.reverse ++ outer) i true acc ty =
        .ok (93 :: rest, acc ++ scannedAll L segs, lastTyS segs ty) ∧
      ∃ L', ScanInv L' (acc ++ scannedAll L segs) true := by
  induction h with
  | nil L =>
    intro lf acc i ty hinv hf
    obtain ⟨g, rfl⟩ : ∃ g, lf = g + 1 := ⟨lf - 1, by omega⟩
    refine ⟨?_, L, by simpa [scannedAll] using hinv⟩
    rw [scanArrayElems]
    simp [pure, Except.pure, scannedAll, lastTyS]
  | cons L s segs T sep text hT hrest h1 h2 ih =>
    intro lf acc i ty hinv hf
    have htail := hrest.tailR_end h1 h2 rest
    simp only [nargsAll] at hf
    obtain ⟨g, rfl⟩ : ∃ g, lf = g + s.nargs L := ⟨lf - s.nargs L, by omega⟩
    obtain ⟨hstep, hinv'⟩ := scanArr_seg fuel hT hinv outer sep (text ++ 93 :: rest) htail g i ty
    have e : T ++ (sep ++ text) ++ 93 :: rest = T ++ (sep ++ (text ++ 93 :: rest)) := by simp [List.append_assoc]
    obtain ⟨hrun, L', hfin⟩ := ih g (acc ++ s.scanned L) (i + s.nargs L) s.last.type hinv' (by omega)
    rw [e, hstep, hrun]
    refine ⟨by simp [scannedAll, lastTyS, List.append_assoc], L', by simpa [scannedAll, List.append_assoc] using hfin⟩

/-! ### the array as one argument -/

theorem scanArgVal_arrSegs (fuel : Nat) {body : List RSeg} {B : Bytes} (hB : SegsText none body B) (rest : Bytes)
    (hS : Sep rest) (prev : List Cell) (ab : Nat) (fe : Bool := true) :
    scanArgVal (fuel + 3) (91 :: (B ++ 93 :: rest)) prev ab fe =
      .ok ((91 :: (B ++ [93])).length, arrHdrS body :: scannedAll none body) ∧
    ∃ L', ScanInv L' (scannedAll none body) true := by
  have hnl := hB.nargs_le
  obtain ⟨hloop, L', hfin⟩ := scanArrayElems_segs fuel hB rest (Cell.arr 32 0 :: prev)
    ((91 :: (B ++ 93 :: rest)).length + 1) [] 0 32 scanInv_start
    (by simp only [List.length_cons, List.length_append]; omega)
  simp only [List.reverse_nil, List.nil_append] at hloop hfin
  refine ⟨?_, L', hfin⟩
  have hsp : skipSpace (B ++ 93 :: rest) = B ++ 93 :: rest := by
    by_cases hne : body = []
    · subst hne; cases hB; exact skipSpace_close rest
    · exact skipSpace_tokStart _ (tokStart_append_ri _ _ (hB.start hne))
  have htxt : (91 :: (B ++ [93])) ++ rest = 91 :: (B ++ 93 :: rest) := by simp
  have hval : scanValue (scanArgVal (fuel + 2)) (91 :: (B ++ 93 :: rest)) prev =
      .ok ⟨rest, arrHdrS body :: scannedAll none body, true⟩ := by
    rw [scanValue_bracket _ _ _ (by simp)]
    unfold scanArray
    simp only [List.drop_succ_cons, List.drop_zero, hsp, hloop, bind, Except.bind]
    simp only [advance, List.length_cons, Nat.le_add_left, ↓reduceIte, pure, Except.pure,
      List.drop_succ_cons, List.drop_zero, arrHdrS]
  rw [show fuel + 3 = (fuel + 2) + 1 from rfl]
  unfold scanArgVal
  rw [hval]
  simp only [bind, Except.bind]
  rw [← htxt]
  exact finishArg_plain _ _ rest _ true prev ab fe hS

/-- `nx[` body `]` as one argument -/
theorem scanMultiplier_runGm (se : ElemScanner) (n : Nat) (hn : 1 ≤ n) (hn2 : n ≤ 2147483647) (t rest : Bytes)
    (vcells : List Cell) (hse : se (t ++ rest) [] 0 false = .ok (t.length, vcells)) :
    scanMultiplier se (fmtDec (n : Int) ++ 120 :: (t ++ rest)) = .ok ⟨rest, Cell.rep n 0 :: vcells, false⟩ := by
  unfold scanMultiplier
  simp only [sscanf_fmtMult n hn hn2 (t ++ rest), bind, Except.bind, pure, Except.pure, drop_mult, hse, advance,
    List.length_append, Nat.le_add_right, ↓reduceIte, List.drop_left', toI32_id (n : Int) (by omega) (by omega)]

theorem scanArgVal_arunSegs (fuel : Nat) (n : Nat) (hn : 1 ≤ n) (hn2 : n ≤ 2147483647) {body : List RSeg} {B : Bytes}
    (hB : SegsText none body B) (rest : Bytes) (hS : Sep rest) (prev : List Cell) (ab : Nat) :
    scanArgVal (fuel + 4) (runText n (91 :: (B ++ [93])) ++ rest) prev ab true =
      .ok ((runText n (91 :: (B ++ [93]))).length, Cell.rep n 0 :: arrHdrS body :: scannedAll none body) ∧
    ∃ L', ScanInv L' (scannedAll none body) true := by
  obtain ⟨hse, L', hfin⟩ := scanArgVal_arrSegs fuel hB rest hS [] 0 false
  refine ⟨?_, L', hfin⟩
  have htxt : (91 :: (B ++ [93])) ++ rest = 91 :: (B ++ 93 :: rest) := by simp
  rw [← htxt] at hse
  have hfa := finishArg_plain (scanArgVal (fuel + 3)) (runText n (91 :: (B ++ [93]))) rest
    (Cell.rep n 0 :: arrHdrS body :: scannedAll none body) false prev ab true hS
  rw [show fuel + 4 = (fuel + 3) + 1 from rfl]
  unfold scanArgVal
  rw [runText_append] at hfa ⊢
  rw [scanValue_mult _ _ _ (hd_mult n hn _) (isRangeMultiplier_mult n hn _),
    scanMultiplier_runGm _ n hn hn2 _ rest _ hse]
  simp only [bind, Except.bind]
  exact hfa

/-! ### the loop of `rtosc_scan_arg_vals` over pieces -/

/-- the scanner's left neighbour `sL` against the printer's `pL`: the same value, or none at all
    (behind an array: `args_before = 0`) -/
def SCtx (pL sL : Option Cell) : Prop := sL = pL ∨ sL = none

/-- `scanLoop_one` for an argument behind which `can_precede_range` is `b` -/
theorem scanLoop_oneB (T sep text : Bytes) (cells : List Cell) (htail : Tail sep text) (f n : Nat) (done : List Cell)
    (pok : Bool) (rd : Nat) (hn : done.length < n) (b : Bool)
    (hscan : scanArgVal ((T ++ (sep ++ text)).length + 2) (T ++ (sep ++ text)) done.reverse
      (if pok then done.length else 0) true = .ok (T.length, cells))
    (hcpr : canPrecedeRange cells = .ok b)
    (hnao : nextArgOffset (cells.length + 1) cells = .ok cells.length) :
    scanArgValsLoop (f + 1) (T ++ (sep ++ text)) n done.length pok done rd =
      scanArgValsLoop f text n (done ++ cells).length b (done ++ cells) (rd + T.length + sep.length) := by
  have hadv : advance (T ++ (sep ++ text)) T.length = .ok (sep ++ text) := by simp [advance]
  rw [scanArgValsLoop]
  simp only [hn, ↓reduceIte, hscan, bind, Except.bind, hcpr, hadv, hnao, ne_eq, not_true_eq_false,
    htail.skip, List.drop_left']
  simp only [List.length_append]

/-- behind an array the scanner knows no left neighbour; the last two cells are no headers of
    ranges with a delta -/
theorem scanInv_arrG {done : List Cell} (o1 : isDeltaHdr done.reverse.head? = false) (hdr : Cell)
    (hh : isDeltaHdr (some hdr) = false) {L' : Option Cell} {elems : List Cell} (he : ScanInv L' elems true) :
    ScanInv none (done ++ hdr :: elems) false := by
  have e : (done ++ hdr :: elems).reverse = elems.reverse ++ hdr :: done.reverse := by simp
  have t1 := he.t1
  have t2 := he.t2
  refine ⟨?_, ?_, ?_⟩
  · simp only [Bool.false_eq_true, ↓reduceIte]
    exact LookL.zero _
  · rw [e]
    generalize elems.reverse = r at t1 t2
    rcases r with _ | ⟨e1, r'⟩
    · simpa using hh
    · simpa using t1
  · rw [e]
    generalize elems.reverse = r at t1 t2
    rcases r with _ | ⟨e1, _ | ⟨e2, r'⟩⟩
    · simpa using o1
    · simpa using hh
    · simpa using t2

theorem scanInv_arr {sL : Option Cell} {done : List Cell} {pok : Bool} (hinv : ScanInv sL done pok) (hdr : Cell)
    (hh : isDeltaHdr (some hdr) = false) {L' : Option Cell} {elems : List Cell} (he : ScanInv L' elems true) :
    ScanInv none (done ++ hdr :: elems) false := scanInv_arrG hinv.t1 hdr hh he

theorem nextArgOffset_arunBlock (n : Int) (ety : UInt8) (elems : List Cell) :
    nextArgOffset ((Cell.rep n 0 :: Cell.arr ety elems.length :: elems).length + 1)
        (Cell.rep n 0 :: Cell.arr ety elems.length :: elems) =
      .ok (Cell.rep n 0 :: Cell.arr ety elems.length :: elems).length := by
  have hne : ¬ ((elems.length : Int) < 0) := by omega
  simp only [List.length_cons]
  unfold nextArgOffset
  simp only [deref, bind, Except.bind, List.drop_succ_cons, List.drop_zero]
  unfold nextArgOffset
  simp only [deref, bind, Except.bind, hne, ↓reduceIte, pure, Except.pure, Int.toNat_natCast, Int.toNat_zero]
  congr 1
  omega

theorem nextArgOffset_arrBlock (ety : UInt8) (elems : List Cell) :
    nextArgOffset ((Cell.arr ety elems.length :: elems).length + 1) (Cell.arr ety elems.length :: elems) =
      .ok (Cell.arr ety elems.length :: elems).length := by
  unfold nextArgOffset
  have : ¬ ((elems.length : Int) < 0) := by omega
  simp [deref, bind, Except.bind, pure, Except.pure, this]

/-- **one piece in the loop of `rtosc_scan_arg_vals`** -/
theorem scanLoop_aseg {pL sL : Option Cell} {x : ASeg} {T : Bytes} (hT : ASegText pL x T) (hctx : SCtx pL sL)
    {done : List Cell} {pok : Bool} (hinv : ScanInv sL done pok) (sep text : Bytes) (htail : Tail sep text)
    (f n rd : Nat) (hn : done.length + (x.scanned pL).length ≤ n) :
    ∃ (sL' : Option Cell) (pok' : Bool),
      scanArgValsLoop (f + x.nargs pL) (T ++ (sep ++ text)) n done.length pok done rd =
        scanArgValsLoop f text n (done ++ x.scanned pL).length pok' (done ++ x.scanned pL) (rd + T.length + sep.length) ∧
      ScanInv sL' (done ++ x.scanned pL) pok' ∧ SCtx (some x.plast) sL' := by
  have hS := htail.sep
  cases hT with
  | arr body B hB hty =>
    have hlen : (91 :: (B ++ [93]) ++ (sep ++ text)).length + 2 = ((91 :: (B ++ [93]) ++ (sep ++ text)).length - 1) + 3 := by
      simp only [List.length_cons, List.length_append]; omega
    have htxt : (91 :: (B ++ [93])) ++ (sep ++ text) = 91 :: (B ++ 93 :: (sep ++ text)) := by simp
    obtain ⟨hscan, L', hfin⟩ := scanArgVal_arrSegs ((91 :: (B ++ [93]) ++ (sep ++ text)).length - 1) hB (sep ++ text) hS
      done.reverse (if pok then done.length else 0)
    rw [← htxt, ← hlen] at hscan
    simp only [ASeg.scanned, ASeg.nargs, ASeg.plast] at hn ⊢
    refine ⟨none, false, ?_, scanInv_arr hinv _ rfl hfin, Or.inr rfl⟩
    exact scanLoop_oneB _ sep text _ htail f n done pok rd (by simp only [List.length_cons] at hn; omega) false hscan
      (by simp [arrHdrS, canPrecedeRange, deref, bind, Except.bind, pure, Except.pure])
      (by simpa [arrHdrS] using nextArgOffset_arrBlock (lastTyS body 32) (scannedAll none body))
  | arun m body B hB hty hm1 hm2 =>
    have hpos := List.length_pos_iff.mpr (tokStart_run m hm1 (91 :: (B ++ [93]))).1
    have hl4 : 4 ≤ (runText m (91 :: (B ++ [93]))).length := by
      have : 1 ≤ (fmtDec (m : Int)).length := by
        obtain ⟨c, r, _, _, _, hc, _⟩ := fmtDec_pos_shape m hm1
        rw [hc]; simp
      simp only [runText, List.length_append, List.length_cons, List.length_nil]; omega
    have hlen : (runText m (91 :: (B ++ [93])) ++ (sep ++ text)).length + 2 =
        ((runText m (91 :: (B ++ [93])) ++ (sep ++ text)).length - 2) + 4 := by
      simp only [List.length_append] at hl4 ⊢; omega
    obtain ⟨hscan, L', hfin⟩ := scanArgVal_arunSegs ((runText m (91 :: (B ++ [93])) ++ (sep ++ text)).length - 2) m hm1 hm2
      hB (sep ++ text) hS done.reverse (if pok then done.length else 0)
    rw [← hlen] at hscan
    simp only [ASeg.scanned, ASeg.nargs, ASeg.plast] at hn ⊢
    have hinv' : ScanInv none (done ++ Cell.rep m 0 :: arrHdrS body :: scannedAll none body) false := by
      have := scanInv_arrG (done := done ++ [Cell.rep m 0]) (by simp [isDeltaHdr]) (arrHdrS body) rfl hfin
      simpa [List.append_assoc] using this
    refine ⟨none, false, ?_, hinv', Or.inr rfl⟩
    exact scanLoop_oneB _ sep text _ htail f n done pok rd (by simp only [List.length_cons] at hn; omega) false hscan
      (by simp [arrHdrS, canPrecedeRange, deref, bind, Except.bind, pure, Except.pure, ArgVal.Cell.type])
      (by simpa [arrHdrS] using nextArgOffset_arunBlock m (lastTyS body 32) (scannedAll none body))
  | seg s T hT =>
    simp only [ASeg.scanned, ASeg.nargs, ASeg.plast] at hn ⊢
    rcases hctx with rfl | rfl
    · obtain ⟨h1, h2⟩ := scanLoop_seg hT hinv sep text htail f n rd hn
      exact ⟨_, true, h1, h2, Or.inl rfl⟩
    · -- the scanner has no left neighbour, the printer had one
      cases hT with
      | tok t c ht hsc =>
        obtain ⟨h1, h2⟩ := scanLoop_seg (SegText.tok (L := none) T c ht hsc) hinv sep text htail f n rd
          (by simpa [RSeg.scanned] using hn)
        exact ⟨_, true, by simpa [RSeg.scanned, RSeg.nargs] using h1, by simpa [RSeg.scanned] using h2, Or.inl rfl⟩
      | crun m t c ht hsc hm1 hm2 =>
        obtain ⟨h1, h2⟩ := scanLoop_seg (SegText.crun (L := none) m t c ht hsc hm1 hm2) hinv sep text htail f n rd
          (by simpa [RSeg.scanned] using hn)
        exact ⟨_, true, by simpa [RSeg.scanned, RSeg.nargs] using h1, by simpa [RSeg.scanned] using h2, Or.inl rfl⟩
      | short a d m sp h hsf hsp =>
        have hsf' : shortForm none a d = true := by
          have := (shortForm_unit hsf).1
          rcases this with rfl | rfl <;> simp [shortForm, confusing]
        obtain ⟨h1, h2⟩ := scanLoop_seg (SegText.short (L := none) a d m sp h hsf' hsp) hinv sep text htail f n rd
          (by simpa [RSeg.scanned, hsf, hsf'] using hn)
        exact ⟨_, true, by simpa [RSeg.scanned, RSeg.nargs, hsf, hsf'] using h1,
          by simpa [RSeg.scanned, hsf, hsf'] using h2, Or.inl rfl⟩
      | long a d m sp h hsf hsp =>
        -- the text `a b ... z`: the value `a`, then the range behind it
        simp only [RSeg.scanned, RSeg.nargs, RSeg.last, hsf, Bool.false_eq_true, ↓reduceIte, List.length_cons,
          List.length_nil] at hn ⊢
        have hinv1 := scanInv_tok hinv (Cell.int .i a) rfl
        have hne : a ≠ a + d := by have := h.hd; omega
        have hinv2 := scanInv_range hinv1 ((m : Int) - 1) (a + d) d _ (zOf_toI32_long h).symm
        refine ⟨_, true, ?_, by simpa [List.append_assoc] using hinv2, Or.inl rfl⟩
        have hstart2 : TokStart (fmtDec (a + d) ++ ellRest sp (fmtDec (zOf a d m)) ++ (sep ++ text)) := by
          rw [List.append_assoc]; exact tokStart_append_ri _ _ (tokStart_fmtDec _ h.r1.1 h.r1.2)
        have htail1 : Tail [32] (fmtDec (a + d) ++ ellRest sp (fmtDec (zOf a d m)) ++ (sep ++ text)) :=
          Or.inr ⟨Or.inl rfl, hstart2⟩
        have h1 := scanLoop_one (fmtDec a) [32] (fmtDec (a + d) ++ ellRest sp (fmtDec (zOf a d m)) ++ (sep ++ text))
          [Cell.int .i a] htail1 (f + 1) n done pok rd (by omega)
          ((tokOK_int a h.r0.1 h.r0.2).scan _ _ _ _ htail1.sep) (canPrecedeRange_scalar _ [] rfl)
          (nextArgOffset_scalar _ _ [] rfl)
        simp only [List.length_singleton] at h1
        have hscan := scanArgVal_ellG
          ((fmtDec (a + d) ++ (ellRest sp (fmtDec (zOf a d m)) ++ (sep ++ text))).length) (a + d) (zOf a d m)
          h.r1.1 h.r1.2 h.rz.1 h.rz.2 sp hsp (sep ++ text) hS.toW (done ++ [Cell.int .i a]).reverse
          (if true then (done ++ [Cell.int .i a]).length else 0) _ hinv1.look
          false (Or.inr ⟨a, rfl, by simp [hne]⟩) ((m : Int) - 1) (Cell.int .i d)
          (by simpa [zOf] using delta_run_step h)
        rw [← ellRest_append, ← List.append_assoc] at hscan
        have h2 := scanLoop_one (fmtDec (a + d) ++ ellRest sp (fmtDec (zOf a d m))) sep text
          [Cell.rep ((m : Int) - 1) 1, Cell.int .i d, Cell.int .i (a + d)] htail f n (done ++ [Cell.int .i a]) true
          (rd + (fmtDec a).length + 1) (by simp only [List.length_append, List.length_singleton]; omega)
          (by simpa [List.append_assoc] using hscan) (canPrecedeRange_delta _ _) (nextArgOffset_range _ _ _ rfl)
        have e : fmtDec a ++ ([32] ++ (fmtDec (a + d) ++ ellRest sp (fmtDec (zOf a d m)))) ++ (sep ++ text) =
            fmtDec a ++ ([32] ++ (fmtDec (a + d) ++ ellRest sp (fmtDec (zOf a d m)) ++ (sep ++ text))) := by
          simp [List.append_assoc]
        rw [e, show f + 2 = (f + 1) + 1 from rfl, h1, h2]
        simp only [List.append_assoc, List.singleton_append, List.length_append, List.length_cons, List.length_nil]
        congr 1
        omega

/-- the loop of `rtosc_scan_arg_vals` reads a text of pieces back as their scanned cells -/
theorem scanLoop_asegs {pL : Option Cell} {xs : List ASeg} {text : Bytes} (h : ASegsText pL xs text) :
    ∀ (f n : Nat) (done : List Cell) (pok : Bool) (rd : Nat) (sL : Option Cell), SCtx pL sL → ScanInv sL done pok →
      n = done.length + (scannedAllA pL xs).length → nargsAllA pL xs + 1 ≤ f →
      scanArgValsLoop f text n done.length pok done rd = .ok (rd + text.length, done ++ scannedAllA pL xs) := by
  induction h with
  | nil L =>
    intro f n done pok rd sL _ _ hn hf
    obtain ⟨g, rfl⟩ : ∃ g, f = g + 1 := ⟨f - 1, by omega⟩
    simp only [scannedAllA, List.length_nil, Nat.add_zero] at hn
    rw [scanArgValsLoop]
    simp [hn, pure, Except.pure, scannedAllA]
  | cons L x xs T sep text hT hrest h1 h2 ih =>
    intro f n done pok rd sL hctx hinv hn hf
    have htail := hrest.tail h1 h2
    simp only [scannedAllA, nargsAllA, List.length_append] at hn hf
    obtain ⟨g, rfl⟩ : ∃ g, f = g + x.nargs L := ⟨f - x.nargs L, by omega⟩
    obtain ⟨sL', pok', hstep, hinv', hctx'⟩ := scanLoop_aseg hT hctx hinv sep text htail g n rd (by omega)
    rw [hstep, ih g n _ pok' _ sL' hctx' hinv' (by simp only [List.length_append]; omega) (by omega)]
    simp only [scannedAllA, List.length_append, List.append_assoc]
    congr 2
    omega

/-- **`rtosc_scan_arg_vals` on a text of pieces** -/
theorem scanArgVals_asegs {xs : List ASeg} {text : Bytes} (h : ASegsText none xs text) :
    scanArgVals text (scannedAllA none xs).length = .ok (text.length, scannedAllA none xs) := by
  unfold scanArgVals
  have hsk : skipSpaceComments (text.length + 1) text = .ok 0 := by
    by_cases hne : xs = []
    · subst hne; cases h; exact skipSpaceComments_nil _
    · exact skipSpaceComments_tokStart _ text (h.start hne)
  have := scanLoop_asegs h ((scannedAllA none xs).length + 1) (scannedAllA none xs).length [] true 0 none (Or.inl rfl)
    scanInv_start (by simp) (by have := scannedAllA_nargs_le none xs; omega)
  simpa [hsk, bind, Except.bind] using this

end Rtosc.Pretty
