/-
  C06 / C08 helper lemmas: `rtosc_message_length(msg, -1)` (`messageLengthU`, the length walk
  without a bound of its own: `ThreadLink::raw_write`, `rtosc_bundle`) *returns* — the result is
  never `Rd.hang`.

  * The bundle walk (`bundleLoopU`) terminates on every block whatsoever: after fix
    C06-bundle-length-wrap an element is only stepped over when `pos + 4 + advance` is an
    `unsigned` position, so `pos` strictly increases, and every round reads `msg[pos]`
    inside the block (else the result is `.oob`): at most `|block|` rounds.
  * The message walk (path scan, type-string scan, argument walk) moves forward byte by byte
    and reads what it steps over; it can only come back to a position when `unsigned pos`
    wraps, i.e. on a block of 2^32 bytes or more without a NUL: hypothesis `|block| < 2^32`.
-/
import RtoscModel.Osc.Bundle
namespace Rtosc.Osc
open Rtosc

theorem u32_of_lt {n : Nat} (h : n < 4294967296) : u32 n = n := by
  simp only [u32]; omega

/-- one round of the bundle walk moves `pos` strictly forward (and never wraps) -/
theorem bundleStep_forward {pos v : Nat} (hv : v ≠ 0) (hg : ¬ (v ≠ 0 ∧ pos + 4 + v > 4294967295)) :
    u32 (pos + u32 (4 + v)) = pos + 4 + v ∧ pos < u32 (pos + u32 (4 + v)) := by
  have h1 : pos + 4 + v ≤ 4294967295 := by omega
  rw [u32_of_lt (by omega : 4 + v < 4294967296), u32_of_lt (by omega)]
  omega

/-- `rd32U` reads `m[pos]` first -/
theorem rd32U_some_lt {m : Bytes} {pos : Nat} {v : UInt32} (h : rd32U m pos = some v) :
    pos < m.length := by
  unfold rd32U at h
  cases h0 : m[pos]? with
  | none => simp [h0] at h
  | some b =>
    have := List.getElem?_eq_some_iff.mp h0
    exact this.1

/-- **the bundle walk terminates** (fuel lemma): `fuel + pos > |m|` rounds are enough, for
    every block `m` and every start position. -/
theorem bundleLoopU_ne_hang (m : Bytes) : ∀ (f pos : Nat), 1 ≤ f → m.length + 1 ≤ f + pos →
    bundleLoopU m f pos ≠ .hang := by
  intro f
  induction f with
  | zero => intro pos h; omega
  | succ f ih =>
    intro pos _ hf
    unfold bundleLoopU
    cases hrd : rd32U m pos with
    | none => simp
    | some v =>
      have hlt := rd32U_some_lt hrd
      simp only
      by_cases hg : v.toNat ≠ 0 ∧ pos + 4 + v.toNat > 4294967295
      · rw [if_pos hg]; simp
      · rw [if_neg hg]
        by_cases hv : v.toNat ≠ 0
        · rw [if_pos hv]
          have hfw := bundleStep_forward hv hg
          exact ih _ (by omega) (by omega)
        · rw [if_neg hv]; simp

/-- the result of the bundle walk: a position it has read a zero word at, or 0 -/
theorem bundleLoopU_ok_le (m : Bytes) : ∀ (f pos n : Nat),
    bundleLoopU m f pos = .ok n → n = 0 ∨ n < m.length ∧ pos ≤ n := by
  intro f
  induction f with
  | zero => intro pos n h; simp [bundleLoopU] at h
  | succ f ih =>
    intro pos n h
    unfold bundleLoopU at h
    cases hrd : rd32U m pos with
    | none => rw [hrd] at h; cases h
    | some v =>
      have hlt := rd32U_some_lt hrd
      rw [hrd] at h
      simp only at h
      by_cases hg : v.toNat ≠ 0 ∧ pos + 4 + v.toNat > 4294967295
      · rw [if_pos hg] at h
        cases h; exact Or.inl rfl
      · rw [if_neg hg] at h
        by_cases hv : v.toNat ≠ 0
        · rw [if_pos hv] at h
          have hfw := bundleStep_forward hv hg
          rcases ih _ _ h with h0 | ⟨h1, h2⟩
          · exact Or.inl h0
          · exact Or.inr ⟨h1, by omega⟩
        · rw [if_neg hv] at h
          cases h; exact Or.inr ⟨by omega, Nat.le_refl _⟩

theorem getElem?_some_lt {m : Bytes} {p : Nat} {c : UInt8} (h : m[p]? = some c) : p < m.length :=
  (List.getElem?_eq_some_iff.mp h).1

/-- `while(deref(pos,ring)) ++pos;` ends at a NUL or at the end of the block -/
theorem scanNulU_ne_hang (m : Bytes) (h32 : m.length < 4294967296) : ∀ (f pos : Nat), 1 ≤ f →
    m.length + 1 ≤ f + pos → scanNulU m f pos ≠ .hang := by
  intro f
  induction f with
  | zero => intro pos h; omega
  | succ f ih =>
    intro pos _ hf
    unfold scanNulU
    cases hrd : m[pos]? with
    | none => simp
    | some c =>
      have hlt := getElem?_some_lt hrd
      simp only
      by_cases hc : c = 0
      · rw [if_pos hc]; simp
      · rw [if_neg hc, u32_of_lt (by omega)]
        exact ih _ (by omega) (by omega)

theorem scanNulU_fuelU_ne_hang (m : Bytes) (h32 : m.length < 4294967296) (pos : Nat) :
    scanNulU m (fuelU m) pos ≠ .hang :=
  scanNulU_ne_hang m h32 _ _ (by simp [fuelU]) (by simp only [fuelU]; omega)

theorem nullWordU_ne_hang (m : Bytes) : ∀ (k pos : Nat), nullWordU m k pos ≠ .hang := by
  intro k
  induction k with
  | zero => intro pos; simp [nullWordU]
  | succ k ih =>
    intro pos
    unfold nullWordU
    cases m[u32 (pos + 1)]? with
    | none => simp
    | some c =>
      simp only
      split
      · simp
      · exact ih _

theorem tagsFromU_ne_hang (m : Bytes) (h32 : m.length < 4294967296) : ∀ (f p : Nat), 1 ≤ f →
    m.length + 1 ≤ f + p → tagsFromU m f p ≠ .hang := by
  intro f
  induction f with
  | zero => intro p h; omega
  | succ f ih =>
    intro p _ hf
    unfold tagsFromU
    cases hrd : m[p]? with
    | none => simp
    | some c =>
      have hlt := getElem?_some_lt hrd
      simp only
      by_cases hc : c = 0
      · rw [if_pos hc]; simp
      · rw [if_neg hc, u32_of_lt (by omega)]
        have := ih (p + 1) (by omega) (by omega)
        cases hr : tagsFromU m f (p + 1) with
        | ok ts => simp
        | oob => simp
        | hang => exact absurd hr this

/-- the argument walk consumes one tag per round and never asks for more arguments than the
    type string announces (`toparse` counts the tags of this very string) -/
theorem lenLoopU_ne_hang (m : Bytes) (h32 : m.length < 4294967296) (al : Nat) :
    ∀ (ts : Bytes) (tp pos : Nat), tp ≤ nreserved ts → lenLoopU m al tp ts pos ≠ .hang := by
  intro ts
  induction ts with
  | nil =>
    intro tp pos htp
    simp only [nreserved, Nat.le_zero_eq] at htp
    subst htp
    simp [lenLoopU]
  | cons t ts ih =>
    intro tp pos htp
    cases tp with
    | zero => simp [lenLoopU]
    | succ tp =>
      simp only [nreserved] at htp
      unfold lenLoopU
      by_cases h8 : t = 104 ∨ t = 116 ∨ t = 100
      · rw [if_pos h8]
        refine ih _ _ ?_
        split at htp <;> omega
      · rw [if_neg h8]
        by_cases h4 : t = 109 ∨ t = 114 ∨ t = 99 ∨ t = 102 ∨ t = 105
        · rw [if_pos h4]
          refine ih _ _ ?_
          split at htp <;> omega
        · rw [if_neg h4]
          by_cases hs : t = 83 ∨ t = 115
          · rw [if_pos hs]
            have := scanNulU_fuelU_ne_hang m h32 pos
            cases hsc : scanNulU m (fuelU m) pos with
            | ok p =>
              simp only
              refine ih _ _ ?_
              split at htp <;> omega
            | oob => simp
            | hang => exact absurd hsc this
          · rw [if_neg hs]
            by_cases hb : t = 98
            · rw [if_pos hb]
              cases rd32U m pos with
              | none => simp
              | some v =>
                simp only
                refine ih _ _ ?_
                split at htp <;> omega
            · rw [if_neg hb]
              refine ih _ _ ?_
              have : hasReserved t = false := by
                simp only [not_or] at h8 h4 hs
                simp [hasReserved, h8.1, h8.2.1, h8.2.2, h4.1, h4.2.1, h4.2.2.1, h4.2.2.2.1,
                  h4.2.2.2.2, hs.1, hs.2, hb]
              rw [this] at htp
              simpa using htp

/-- **`rtosc_message_length(msg, -1)` returns** on every block shorter than 2^32 bytes: it yields
    a length or reads behind the block it was given (`.oob`), it does not loop. -/
theorem messageLengthU_ne_hang (m : Bytes) (h32 : m.length < 4294967296) :
    messageLengthU m ≠ .hang := by
  unfold messageLengthU
  cases magicU m bundleMagic 0 with
  | none => simp
  | some b =>
    cases b with
    | true =>
      simp only
      exact bundleLoopU_ne_hang m _ _ (by simp [fuelU]) (by simp only [fuelU]; omega)
    | false =>
      simp only
      have h1 := scanNulU_fuelU_ne_hang m h32 0
      cases hs1 : scanNulU m (fuelU m) 0 with
      | oob => simp
      | hang => exact absurd hs1 h1
      | ok pos =>
        simp only
        have h2 := nullWordU_ne_hang m 4 pos
        cases hn : nullWordU m 4 pos with
        | oob => simp
        | hang => exact absurd hn h2
        | ok pos =>
          simp only
          cases m[pos]? with
          | none => simp
          | some c =>
            simp only
            by_cases hc : c ≠ 44
            · rw [if_pos hc]; simp
            · rw [if_neg hc]
              have h3 := scanNulU_fuelU_ne_hang m h32 (u32 (pos + 1))
              cases hs2 : scanNulU m (fuelU m) (u32 (pos + 1)) with
              | oob => simp
              | hang => exact absurd hs2 h3
              | ok pos2 =>
                simp only
                have h4 := tagsFromU_ne_hang m h32 (fuelU m) (u32 (pos + 1)) (by simp [fuelU])
                  (by simp only [fuelU]; omega)
                cases ht : tagsFromU m (fuelU m) (u32 (pos + 1)) with
                | oob => simp
                | hang => exact absurd ht h4
                | ok tags =>
                  simp only
                  exact lenLoopU_ne_hang m h32 _ tags _ _ (Nat.le_refl _)

/-- a bundle (a block that starts with `#bundle\0`) needs no bound at all -/
theorem messageLengthU_bundle_ne_hang (m : Bytes) (hb : magicU m bundleMagic 0 = some true) :
    messageLengthU m ≠ .hang := by
  unfold messageLengthU
  rw [hb]
  exact bundleLoopU_ne_hang m _ _ (by simp [fuelU]) (by simp only [fuelU]; omega)

/-! ### `rtosc_bundle` measures every element with `rtosc_message_length(msg, -1)` -/

theorem bundleTotal_ne_hang : ∀ (elems : List Bytes) (acc : Nat),
    (∀ b ∈ elems, b.length < 4294967296) → bundleTotal acc elems ≠ .hang := by
  intro elems
  induction elems with
  | nil => intro acc _; simp [bundleTotal]
  | cons blk rest ih =>
    intro acc h
    have h1 := messageLengthU_ne_hang blk (h blk List.mem_cons_self)
    unfold bundleTotal
    cases hm : messageLengthU blk with
    | ok size => exact ih _ (fun b hb => h b (List.mem_cons_of_mem _ hb))
    | oob => simp
    | hang => exact absurd hm h1

theorem bundleWrite_ne_hang : ∀ (elems : List Bytes) (w : BW) (pos : Nat),
    (∀ b ∈ elems, b.length < 4294967296) → bundleWrite w pos elems ≠ .hang := by
  intro elems
  induction elems with
  | nil => intro w pos _; simp [bundleWrite]
  | cons blk rest ih =>
    intro w pos h
    have h1 := messageLengthU_ne_hang blk (h blk List.mem_cons_self)
    unfold bundleWrite
    cases hm : messageLengthU blk with
    | ok size =>
      simp only
      split
      · exact ih _ _ (fun b hb => h b (List.mem_cons_of_mem _ hb))
      · simp
    | oob => simp
    | hang => exact absurd hm h1

/-- `rtosc_bundle` returns, whatever the element blocks hold -/
theorem bundle_ne_hang (buffer : Bytes) (tt : UInt64) (elems : List Bytes)
    (h : ∀ b ∈ elems, b.length < 4294967296) : bundle buffer tt elems ≠ .hang := by
  unfold bundle
  have h1 := bundleTotal_ne_hang elems 16 h
  cases ht : bundleTotal 16 elems with
  | oob => simp
  | hang => exact absurd ht h1
  | ok total =>
    simp only
    split
    · simp
    · unfold bundleBody
      have h2 := bundleWrite_ne_hang elems
        ((BW.stores ⟨zeros buffer.length, false⟩ 0 bundleMagic).stores 8 (put64 tt)) 16 h
      simp only
      cases hw : bundleWrite ((BW.stores ⟨zeros buffer.length, false⟩ 0 bundleMagic).stores 8 (put64 tt)) 16 elems with
      | ok r => simp
      | oob => simp
      | hang => exact absurd hw h2

end Rtosc.Osc
