/-
  C09 helper lemmas, part 7: "exactly once" — the list `enumerate` has no repetition
  (`enumList_nodup`): two different index tuples of the enumerations on the way to a leaf
  spell different addresses (`expand_cancel`), two different rows have different index paths.
-/
import RtoscModel.Proofs.WalkDispatch
namespace Rtosc.Walk
open Rtosc Rtosc.Path Rtosc.Match

theorem natDigits_inj {i j : Nat} (h : natDigits i = natDigits j) : i = j := by
  have := congrArg decVal h
  simpa [decVal_natDigits] using this

theorem mem_expandParts_cons {ds t : Bytes} {r : List (Bytes × Bytes)} {a : Bytes} :
    a ∈ expandParts ((ds, t) :: r) ↔ ∃ i, i < decVal ds ∧ ∃ b ∈ expandParts r, a = natDigits i ++ t ++ b := by
  simp only [expandParts, List.mem_flatMap, List.mem_range, List.mem_map]
  constructor
  · rintro ⟨i, hi, b, hb, rfl⟩; exact ⟨i, hi, b, hb, rfl⟩
  · rintro ⟨i, hi, b, hb, rfl⟩; exact ⟨i, hi, b, hb, rfl⟩

theorem expandParts_nil_mem {a : Bytes} : a ∈ expandParts [] ↔ a = [] := by
  simp [expandParts]

/-- what follows the digits of an index never starts with a digit -/
theorem startsWithDigit_tail {ds t : Bytes} {r : List (Bytes × Bytes)} (h : partsOk ((ds, t) :: r) = true)
    {b s : Bytes} (hb : b ∈ expandParts r) (hs : startsWithDigit s = false) :
    startsWithDigit (t ++ b ++ s) = false := by
  obtain ⟨_, _, h3, h4, _⟩ := partsOk_cons h
  cases t with
  | cons c q => simpa [startsWithDigit] using h3
  | nil =>
    rcases h4 with h4 | h4
    · exact absurd rfl h4
    · subst h4
      rw [expandParts_nil_mem] at hb
      subst hb
      simpa using hs

/-- two index tuples of the same enumerations, each followed by something that does not start
    with a digit, spell the same string only if they are the same tuple -/
theorem expand_cancel : ∀ (ps : List (Bytes × Bytes)), partsOk ps = true →
    ∀ (a a' s s' : Bytes), a ∈ expandParts ps → a' ∈ expandParts ps →
      startsWithDigit s = false → startsWithDigit s' = false → a ++ s = a' ++ s' → a = a' ∧ s = s'
  | [], _, a, a', s, s', ha, ha', _, _, h => by
    rw [expandParts_nil_mem] at ha ha'
    subst ha ha'
    exact ⟨rfl, by simpa using h⟩
  | (ds, t) :: r, hok, a, a', s, s', ha, ha', hs, hs', h => by
    obtain ⟨i, _, b, hb, rfl⟩ := mem_expandParts_cons.mp ha
    obtain ⟨i', _, b', hb', rfl⟩ := mem_expandParts_cons.mp ha'
    have e1 : natDigits i ++ t ++ b ++ s = natDigits i ++ (t ++ b ++ s) := by simp
    have e2 : natDigits i' ++ t ++ b' ++ s' = natDigits i' ++ (t ++ b' ++ s') := by simp
    rw [e1, e2] at h
    have t1 := takeWhile_digits_append (natDigits i) (t ++ b ++ s) (natDigits_digits i) (startsWithDigit_tail hok hb hs)
    have t2 := takeWhile_digits_append (natDigits i') (t ++ b' ++ s') (natDigits_digits i') (startsWithDigit_tail hok hb' hs')
    have hd : natDigits i = natDigits i' := by rw [← t1, ← t2, h]
    have hi := natDigits_inj hd
    subst hi
    have h2 := List.append_cancel_left h
    have h3 : b ++ s = b' ++ s' := by
      have : t ++ (b ++ s) = t ++ (b' ++ s') := by simpa using h2
      exact List.append_cancel_left this
    obtain ⟨hbb, hss⟩ := expand_cancel r (partsOk_cons hok).2.2.2.2 b b' s s' hb hb' hs hs' h3
    subst hbb
    exact ⟨rfl, hss⟩

theorem startsWithDigit_nil : startsWithDigit ([] : Bytes) = false := rfl

theorem nodup_flatMap_of {α β : Type} {l : List α} {f : α → List β} (hl : l.Nodup)
    (hf : ∀ x ∈ l, (f x).Nodup) (hd : ∀ x ∈ l, ∀ y ∈ l, x ≠ y → ∀ c, c ∈ f x → c ∈ f y → False) :
    (l.flatMap f).Nodup := by
  induction l with
  | nil => simp
  | cons x r ih =>
    rw [List.nodup_cons] at hl
    simp only [List.flatMap_cons, List.nodup_append]
    refine ⟨hf x List.mem_cons_self, ih hl.2 (fun y hy => hf y (List.mem_cons_of_mem _ hy))
      (fun y hy z hz => hd y (List.mem_cons_of_mem _ hy) z (List.mem_cons_of_mem _ hz)), ?_⟩
    intro a ha b hb hab
    subst hab
    obtain ⟨y, hy, hay⟩ := List.mem_flatMap.mp hb
    exact hd x List.mem_cons_self y (List.mem_cons_of_mem _ hy) (by rintro rfl; exact hl.1 hy) a ha hay

theorem nodup_map_of {α β : Type} {l : List α} {f : α → β} (hl : l.Nodup)
    (hf : ∀ x ∈ l, ∀ y ∈ l, f x = f y → x = y) : (l.map f).Nodup := by
  induction l with
  | nil => simp
  | cons x r ih =>
    rw [List.nodup_cons] at hl
    simp only [List.map_cons, List.nodup_cons, List.mem_map, not_exists, not_and]
    refine ⟨?_, ih hl.2 (fun y hy z hz => hf y (List.mem_cons_of_mem _ hy) z (List.mem_cons_of_mem _ hz))⟩
    intro y hy he
    have := hf y (List.mem_cons_of_mem _ hy) x List.mem_cons_self he
    subst this
    exact hl.1 hy

/-- the index tuples of a name are pairwise different strings -/
theorem expandParts_nodup : ∀ (ps : List (Bytes × Bytes)), partsOk ps = true → (expandParts ps).Nodup
  | [], _ => by simp [expandParts]
  | (ds, t) :: r, hok => by
    have ih := expandParts_nodup r (partsOk_cons hok).2.2.2.2
    simp only [expandParts]
    refine nodup_flatMap_of List.nodup_range ?_ ?_
    · intro i _
      refine nodup_map_of ih ?_
      intro b _ b' _ h
      exact List.append_cancel_left h
    · intro i hi j hj hij c hc hc'
      obtain ⟨b, hb, rfl⟩ := List.mem_map.mp hc
      obtain ⟨b', hb', e⟩ := List.mem_map.mp hc'
      have hi' : i < decVal ds := List.mem_range.mp hi
      have hj' : j < decVal ds := List.mem_range.mp hj
      have m1 : natDigits i ++ t ++ b ∈ expandParts ((ds, t) :: r) := mem_expandParts_cons.mpr ⟨i, hi', b, hb, rfl⟩
      have m2 : natDigits j ++ t ++ b' ∈ expandParts ((ds, t) :: r) := mem_expandParts_cons.mpr ⟨j, hj', b', hb', rfl⟩
      have := expand_cancel ((ds, t) :: r) hok _ _ [] [] m2 m1 rfl rfl (by simpa using e)
      have h2 : natDigits j ++ (t ++ b') = natDigits i ++ (t ++ b) := by simpa using this.1
      have t1 := takeWhile_digits_append (natDigits i) (t ++ b ++ []) (natDigits_digits i) (startsWithDigit_tail hok hb rfl)
      have t2 := takeWhile_digits_append (natDigits j) (t ++ b' ++ []) (natDigits_digits j) (startsWithDigit_tail hok hb' rfl)
      simp only [List.append_nil] at t1 t2
      have : natDigits j = natDigits i := by rw [← t1, ← t2, h2]
      exact hij (natDigits_inj this).symm

mutual
/-- every pair of a table's rows `i, i+1, …` carries an index path through one of these rows
    and an address that begins with the table's address -/
theorem enumList_shape : ∀ (ts : List STree) (pre : Bytes) (path : List Nat) (i : Nat) (c : Call),
    c ∈ enumList pre path ts i → (∃ n, i ≤ n ∧ (path ++ [n]) <+: c.1) ∧ pre <+: c.2
  | [], _, _, _, c, h => by simp [enumList] at h
  | t :: r, pre, path, i, c, h => by
    simp only [enumList, List.mem_append] at h
    rcases h with h | h
    · obtain ⟨h1, h2⟩ := enumTree_shape t pre (path ++ [i]) c h
      exact ⟨⟨i, Nat.le_refl _, h1⟩, h2⟩
    · obtain ⟨⟨n, hn, h1⟩, h2⟩ := enumList_shape r pre path (i + 1) c h
      exact ⟨⟨n, by omega, h1⟩, h2⟩
theorem enumTree_shape : ∀ (t : STree) (pre : Bytes) (ix : List Nat) (c : Call),
    c ∈ enumTree pre ix t → ix <+: c.1 ∧ pre <+: c.2
  | .leaf w _, pre, ix, c, h => by
    simp only [enumTree, List.mem_map] at h
    obtain ⟨a, _, rfl⟩ := h
    exact ⟨List.prefix_refl _, by simp [List.append_assoc]⟩
  | .sub w _ kids, pre, ix, c, h => by
    simp only [enumTree, List.mem_flatMap] at h
    obtain ⟨a, _, h⟩ := h
    obtain ⟨⟨n, _, h1⟩, h2⟩ := enumList_shape kids (pre ++ w.head ++ a ++ [47]) ix 0 c h
    refine ⟨(List.prefix_append ix [n]).trans h1, ?_⟩
    have : pre <+: pre ++ w.head ++ a ++ [47] := by simp [List.append_assoc]
    exact this.trans h2
end

theorem prefix_snoc_ne {path c : List Nat} {i n : Nat} (h1 : (path ++ [i]) <+: c) (h2 : (path ++ [n]) <+: c) : i = n := by
  obtain ⟨x, rfl⟩ := h1
  obtain ⟨y, hy⟩ := h2
  have h3 : path ++ ([n] ++ y) = path ++ ([i] ++ x) := by simpa [List.append_assoc] using hy
  have := List.append_cancel_left h3
  simp at this
  exact this.1.symm

mutual
/-- **exactly once**: no `(leaf, address)` pair occurs twice in the enumeration of a well-formed table -/
theorem enumList_nodup : ∀ (ts : List STree) (pre : Bytes) (path : List Nat) (i : Nat),
    wfList ts = true → (enumList pre path ts i).Nodup
  | [], _, _, _, _ => by simp [enumList]
  | t :: r, pre, path, i, hwf => by
    simp only [wfList, Bool.and_eq_true] at hwf
    simp only [enumList, List.nodup_append]
    refine ⟨enumTree_nodup t pre (path ++ [i]) hwf.1, enumList_nodup r pre path (i + 1) hwf.2, ?_⟩
    intro a ha b hb hab
    subst hab
    have h1 := (enumTree_shape t pre (path ++ [i]) a ha).1
    obtain ⟨⟨n, hn, h2⟩, _⟩ := enumList_shape r pre path (i + 1) a hb
    have := prefix_snoc_ne h1 h2
    omega
theorem enumTree_nodup : ∀ (t : STree) (pre : Bytes) (ix : List Nat), t.wf = true → (enumTree pre ix t).Nodup
  | .leaf w _, pre, ix, hwf => by
    have hok : w.ok = true := by simpa [STree.wf, WName.leafOk] using hwf
    obtain ⟨_, hparts, _⟩ := WName.ok_spec hok
    simp only [enumTree]
    refine nodup_map_of (expandParts_nodup w.parts hparts) ?_
    intro a ha a' ha' h
    have h2 : pre ++ w.head ++ a ++ slashIf w.slash = pre ++ w.head ++ a' ++ slashIf w.slash := by
      simpa using congrArg Prod.snd h
    have h3 : a ++ slashIf w.slash = a' ++ slashIf w.slash := by
      have : (pre ++ w.head) ++ (a ++ slashIf w.slash) = (pre ++ w.head) ++ (a' ++ slashIf w.slash) := by
        simpa [List.append_assoc] using h2
      exact List.append_cancel_left this
    exact (expand_cancel w.parts hparts a a' _ _ ha ha' (startsWithDigit_slashIf _) (startsWithDigit_slashIf _) h3).1
  | .sub w _ kids, pre, ix, hwf => by
    simp only [STree.wf, Bool.and_eq_true] at hwf
    obtain ⟨hok, _, _, _⟩ := WName.subOk_spec hwf.1
    obtain ⟨_, hparts, _⟩ := WName.ok_spec hok
    simp only [enumTree]
    refine nodup_flatMap_of (expandParts_nodup w.parts hparts) ?_ ?_
    · intro a _
      exact enumList_nodup kids _ ix 0 hwf.2
    · intro a ha a' ha' hne c hc hc'
      obtain ⟨s, hs⟩ := (enumList_shape kids _ ix 0 c hc).2
      obtain ⟨s', hs'⟩ := (enumList_shape kids _ ix 0 c hc').2
      have h : (pre ++ w.head) ++ (a ++ (47 :: s)) = (pre ++ w.head) ++ (a' ++ (47 :: s')) := by
        have := hs.trans hs'.symm
        simpa [List.append_assoc] using this
      have h2 := List.append_cancel_left h
      exact hne (expand_cancel w.parts hparts a a' _ _ ha ha' (startsWithDigit_slash s) (startsWithDigit_slash s') h2).1
end

end Rtosc.Walk
