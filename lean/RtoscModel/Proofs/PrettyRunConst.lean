/-
  C10 — tier 3: constant runs.  With range compression on, `n ≥ 5` copies of one scalar value are
  printed as `nxT` (multiplier, 'x', the token of the value) and read back by the checker and the
  scanner as the range block `[rep n 0, c]` (`const_run_roundtrip`).

  Contents: (1) the scanner/checker without `follow_ellipsis` agree with the calls with it on a
  good token (`scanArgVal_noEllipsis`, `skipNext_noEllipsis`); (2) the printer's run detection on
  `List.replicate n c` (`convertToRange_replicate`) and `rtosc_print_range` in the "nx" branch;
  (3) the multiplier case of scanner and checker; (4) the round trip.
-/
import RtoscModel.Proofs.PrettyMsg
import RtoscModel.Proofs.PrettyTokNum
namespace Rtosc.Pretty
open Rtosc Rtosc.Libc
open Rtosc.ArgVal (Cell)

/-- every successful result of `x` satisfies `P` -/
def AllOk {α} (P : α → Prop) (x : Res α) : Prop := ∀ y, x = .ok y → P y

theorem AllOk.bind {α β} {P : β → Prop} (x : Res α) (f : α → Res β) (h : ∀ a, AllOk P (f a)) :
    AllOk P (x >>= f) := by
  intro y hy
  cases x with
  | error e => cases hy
  | ok a => exact h a y hy

theorem AllOk.pure' {α} {P : α → Prop} (a : α) (h : P a) : AllOk P (pure a : Res α) := by
  intro y hy; cases hy; exact h

theorem AllOk.ok {α} {P : α → Prop} (a : α) (h : P a) : AllOk P (.ok a : Res α) := by
  intro y hy; cases hy; exact h

theorem AllOk.error {α} {P : α → Prop} (e : Err) : AllOk P (.error e : Res α) := by
  intro y hy; cases hy

theorem AllOk.throw' {α} {P : α → Prop} (e : Err) : AllOk P (throw e : Res α) := by
  intro y hy; cases hy

theorem AllOk.throw_bind {α β} {P : β → Prop} (e : Err) (f : α → Res β) : AllOk P ((throw e : Res α) >>= f) := by
  intro y hy; cases hy

macro "allok_step" : tactic => `(tactic| first
  | ((with_reducible refine AllOk.pure' _ ?_); first | exact Or.inl rfl | exact Or.inr rfl)
  | with_reducible exact AllOk.throw' _
  | with_reducible exact AllOk.error _
  | with_reducible exact AllOk.throw_bind _ _
  | (with_reducible refine AllOk.bind _ _ ?_; intro _)
  | split)

macro "jp_unfold " h:ident : tactic =>
  `(tactic| simp (config := {zeta := false, zetaHave := false}) only [$h:ident])

def P45 (r : SkipRes) : Prop := r.src = none ∨ r.type = 45

theorem ellipsisTail_type (sk : ArgSkipper) (oldSrc : Bytes) (sw : SwRes) (src2 : Bytes) (llhs : Option Bytes)
    (ib : Bool) : AllOk P45 (ellipsisTail sk oldSrc sw src2 llhs ib) := by
  unfold ellipsisTail
  extract_lets skipped ellipsis rhssrc lhssrc lhstype numericRange fail jp1
  have H1 : ∀ a, AllOk P45 (jp1 a) := by
    intro a
    jp_unfold jp1
    split
    · allok_step
    · split
      · allok_step
      · extract_lets jp2 jp3
        have H2 : ∀ a, AllOk P45 (jp2 a) := by
          intro a; jp_unfold jp2; repeat' allok_step
        clear_value jp2
        have H3 : ∀ a, AllOk P45 (jp3 a) := by
          intro lhsarg
          jp_unfold jp3
          extract_lets jp4
          have H4 : ∀ a, AllOk P45 (jp4 a) := by
            intro x
            jp_unfold jp4
            split
            · repeat' (first | exact H2 _ | allok_step)
            · extract_lets jp5
              have H5 : ∀ a, AllOk P45 (jp5 a) := by
                intro l; jp_unfold jp5
                repeat' (first | exact H2 _ | allok_step)
              clear_value jp5
              repeat' (first | exact H5 _ | allok_step)
          clear_value jp4
          split
          · repeat' (first | exact H4 _ | allok_step)
          · with_reducible refine AllOk.bind _ _ ?_; intro ra
            extract_lets after ll1
            with_reducible refine AllOk.bind _ _ ?_; intro rl
            split
            · with_reducible refine AllOk.bind _ _ ?_; intro llc
              extract_lets jp7
              have H7 : ∀ a, AllOk P45 (jp7 a) := by
                intro l
                jp_unfold jp7
                repeat' (first | exact H4 _ | allok_step)
              clear_value jp7
              repeat' (first | exact H7 _ | allok_step)
            · repeat' (first | exact H4 _ | allok_step)
        clear_value jp3
        repeat' (first | exact H3 _ | allok_step)
  clear_value jp1
  repeat' (first | exact H1 _ | allok_step)


theorem skipNext_noEllipsis (f : Nat) (s : Bytes) (ty : UInt8) (llhs llhs' : Option Bytes) (ib : Bool) (r : SkipRes)
    (h : skipNextPrintedArg (f + 1) s ty llhs true ib = .ok r) (hsrc : r.src ≠ none) (hty : r.type ≠ 45) :
    skipNextPrintedArg (f + 1) s ty llhs' false ib = .ok r := by
  unfold skipNextPrintedArg at h ⊢
  cases hv : skipValue (skipNextPrintedArg f) s ty ib with
  | error e => rw [hv] at h; cases h
  | ok o =>
    rw [hv] at h
    cases o with
    | none => exact h
    | some sw =>
      simp only [bind, Except.bind] at h ⊢
      cases hsw : sw.src with
      | none => rw [hsw] at h; exact h
      | some src =>
        rw [hsw] at h
        simp only [] at h ⊢
        by_cases hst : startsWith (skipSpace src) [46, 46, 46] = true
        · simp only [hst, and_self, ↓reduceIte] at h
          rcases ellipsisTail_type _ _ _ _ _ _ r h with h1 | h1
          · exact absurd h1 hsrc
          · exact absurd h1 hty
        · simp only [hst] at h
          simpa using h

theorem AllOk.bind' {α β} {P : β → Prop} (x : Res α) (f : α → Res β) (h : ∀ a, x = .ok a → AllOk P (f a)) :
    AllOk P (x >>= f) := by
  intro y hy
  cases x with
  | error e => cases hy
  | ok a => exact h a rfl y hy

abbrev P2 (p : Nat × List Cell) : Prop := 2 ≤ p.2.length

macro "allok2_step" : tactic => `(tactic| first
  | with_reducible exact AllOk.throw' _
  | with_reducible exact AllOk.error _
  | with_reducible exact AllOk.throw_bind _ _
  | (with_reducible refine AllOk.bind _ _ ?_; intro _)
  | split)

theorem finishArg_ellipsis (se : ElemScanner) (src : Bytes) (v : ValRes) (prev : List Cell) (ab : Nat)
    (hst : startsWith (skipSpace v.rest) [46, 46, 46] = true) :
    AllOk P2 (finishArg se src v prev ab true) := by
  unfold finishArg
  extract_lets rest cells src2 s1 infinite p3 block jp1
  clear_value block p3
  have H1 : ∀ a, AllOk P2 (jp1 a) := by
    intro u
    jp_unfold jp1
    with_reducible refine AllOk.bind' _ _ ?_; intro lhsarg hl
    have hne : 1 ≤ cells.length := by
      cases hc : cells with
      | nil => rw [hc] at hl; cases hl
      | cons c cs => simp
    extract_lets numericRange jp2
    have H2 : ∀ a, AllOk P2 (jp2 a) := by
      intro x
      jp_unfold jp2
      extract_lets jpA jpB
      have HA : ∀ a, AllOk P2 (jpA a) := by
        intro y; jp_unfold jpA
        extract_lets hdr jpA1
        have HA1 : ∀ a, AllOk P2 (jpA1 a) := by
          intro dcell; jp_unfold jpA1
          extract_lets jpA2
          have HA2 : ∀ a, AllOk P2 (jpA2 a) := by
            intro _; jp_unfold jpA2
            with_reducible refine AllOk.pure' _ ?_
            show 2 ≤ (hdr :: dcell ++ cells).length
            simp only [List.length_cons, List.length_append]; omega
          clear_value jpA2
          repeat' (first | exact HA2 _ | allok2_step)
        clear_value jpA1
        repeat' (first | exact HA1 _ | allok2_step)
      clear_value jpA
      have HB : ∀ a, AllOk P2 (jpB a) := by
        intro llhs; jp_unfold jpB
        extract_lets jpB1
        have HB1 : ∀ a, AllOk P2 (jpB1 a) := by
          intro us; jp_unfold jpB1
          repeat' (first | exact HA _ | allok2_step)
        clear_value jpB1
        repeat' (first | exact HB1 _ | allok2_step)
      clear_value jpB
      repeat' (first | exact HB _ | allok2_step)
    clear_value jp2
    repeat' (first | exact H2 _ | allok2_step)
  clear_value jp1
  simp only [show src2 = skipSpace v.rest from rfl, hst, and_self, ↓reduceIte]
  repeat' (first | exact H1 _ | allok2_step)


theorem scanArgVal_noEllipsis (f : Nat) (s : Bytes) (prev : List Cell) (ab k : Nat) (c : Cell)
    (h : scanArgVal (f + 1) s prev ab true = .ok (k, [c])) :
    scanArgVal (f + 1) s prev ab false = .ok (k, [c]) := by
  unfold scanArgVal at h ⊢
  cases hv : scanValue (scanArgVal f) s prev with
  | error e => rw [hv] at h; cases h
  | ok v =>
    rw [hv] at h
    simp only [bind, Except.bind] at h ⊢
    by_cases hst : startsWith (skipSpace v.rest) [46, 46, 46] = true
    · have := finishArg_ellipsis _ _ _ _ _ hst _ h
      simp [P2] at this
    · unfold finishArg at h ⊢
      simp only [hst] at h
      simpa using h

/-! ### the printer on a constant run -/

/-- what the printer's run detection needs from the value: it is identical to itself -/
def SelfIdentical (c : Cell) : Prop :=
  ∀ more more', rangeArgsIdentical (c :: more) (c :: more') = .ok true

theorem drop_replicate_cons {α} (n i : Nat) (c : α) (h : i < n) :
    (List.replicate n c).drop i = c :: List.replicate (n - i - 1) c := by
  rw [List.drop_replicate]
  obtain ⟨m, hm⟩ : ∃ m, n - i = m + 1 := ⟨n - i - 1, by omega⟩
  rw [hm, List.replicate_succ]; simp

theorem countCommon_replicate (c : Cell) (hsc : c.isScalar = true) (n : Nat) :
    ∀ (fuel i k : Nat), i ≤ n → n - i < fuel →
      countCommon fuel c.type (List.replicate n c) n i k = .ok (k + (n - i)) := by
  intro fuel
  induction fuel with
  | zero => intro i k _ h; omega
  | succ f ih =>
    intro i k hi hf
    unfold countCommon
    by_cases hlt : i < n
    · simp only [hlt, ↓reduceIte, drop_replicate_cons n i c hlt, deref, bind, Except.bind, ne_eq, not_true_eq_false,
        incsize_scalar c _ hsc]
      rw [ih (i + 1) (k + 1) (by omega) (by omega)]
      congr 1; omega
    · simp only [hlt, ↓reduceIte, pure, Except.pure]
      congr 1; omega

theorem extendRun_replicate (c : Cell) (hsc : c.isScalar = true) (hid : SelfIdentical c) (n : Nat) :
    ∀ (fuel s k : Nat), 1 ≤ s → s < n → n - s ≤ fuel →
      extendRun fuel (List.replicate n c) n none s k = .ok (n, k + (n - s)) := by
  intro fuel
  induction fuel with
  | zero => intro s k _ h1 h2; omega
  | succ f ih =>
    intro s k hs1 hs hf
    unfold extendRun
    simp only [drop_replicate_cons n s c hs, incsize_scalar c _ hsc, bind, Except.bind]
    by_cases hge : s + 1 ≥ n
    · simp only [hge, ↓reduceIte, pure, Except.pure]
      congr 2 <;> omega
    · have hlt : s + 1 < n := by omega
      simp only [hge, ↓reduceIte]
      rw [drop_replicate_cons n (s + 1) c hlt]
      have h0 : List.replicate n c = c :: List.replicate (n - 1) c := by
        rw [show n = (n - 1) + 1 from by omega, List.replicate_succ]; simp
      rw [h0, hid]
      simp only [Bool.not_true, Bool.false_eq_true, ↓reduceIte]
      rw [← h0, ih (s + 1) (k + 1) (by omega) hlt (by omega)]
      congr 2; omega


theorem scalar_type_ne_range (c : Cell) (hsc : c.isScalar = true) : c.type ≠ ArgVal.tyRange := by
  cases c <;> simp_all [ArgVal.Cell.isScalar, ArgVal.Cell.type, ArgVal.tyRange]
  all_goals first | (rename_i ty _; cases ty <;> decide) | (rename_i ty; cases ty <;> decide)

theorem convertToRange_replicate (opt : POpt) (hc : opt.compress = true) (c : Cell) (hsc : c.isScalar = true)
    (hid : SelfIdentical c) (n : Nat) (hn5 : 5 ≤ n) :
    convertToRange opt (List.replicate n c) n = .ok (some (n, [Cell.rep n 0, c])) := by
  have h0 : List.replicate n c = c :: List.replicate (n - 1) c := by
    simpa using drop_replicate_cons n 0 c (by omega)
  have h1 : (List.replicate n c).drop 1 = c :: List.replicate (n - 1 - 1) c := drop_replicate_cons n 1 c (by omega)
  unfold convertToRange
  have hs : ¬ (n < rangeMin) := by unfold rangeMin; omega
  have hcc := countCommon_replicate c hsc n (n + 1) 0 0 (by omega) (by omega)
  have her := extendRun_replicate c hsc hid n (n + 1) 1 1 (by omega) (by omega) (by omega)
  simp only [hs, ↓reduceIte, bind, Except.bind]
  rw [h0] at hcc her ⊢
  simp only [deref, scalar_type_ne_range c hsc, hc, Bool.not_true, Bool.false_eq_true, or_self, ↓reduceIte, hcc,
    incsize_scalar c _ hsc]
  have hident : rangeArgsIdentical (c :: List.replicate (n - 1) c) (List.drop 1 (c :: List.replicate (n - 1) c)) =
      .ok true := by
    simp only [List.drop_succ_cons, List.drop_zero]
    obtain ⟨m, hm⟩ : ∃ m, n - 1 = m + 1 := ⟨n - 2, by omega⟩
    rw [hm, List.replicate_succ]; exact hid _ _
  have hs' : ¬ (0 + (n - 0) < rangeMin) := by unfold rangeMin; omega
  simp only [hs', ↓reduceIte, hident, pure, Except.pure, her]
  have e1 : 1 + (n - 1) = n := by omega
  have hge : n ≥ rangeMin := by unfold rangeMin; omega
  simp [e1, hge]


theorem initArgsWritten_ok (st : PSt) (h : st.out ≠ []) : ∃ a, initArgsWritten st = .ok a := by
  unfold initArgsWritten
  by_cases hc : st.cols ≠ 0
  · rw [if_pos hc]
    cases hl : st.out.getLast? with
    | none => exact absurd (List.getLast?_eq_none_iff.mp hl) h
    | some x => exact ⟨_, rfl⟩
  · rw [if_neg hc]; exact ⟨_, rfl⟩

/-- the text of a constant run -/
def runText (n : Nat) (t : Bytes) : Bytes := fmtDec n ++ [120] ++ t

theorem printArgValsLoop_done (fuel : Nat) (hf : 0 < fuel) (opt : POpt) (args : List Cell) (n i : Nat) (st : PSt)
    (wrt : Nat) (ls : Int) (awl : Nat) (h : ¬ i < n) :
    printArgValsLoop fuel opt args n i st wrt ls awl = .ok (st, wrt) := by
  cases fuel with
  | zero => omega
  | succ f => unfold printArgValsLoop; simp only [h, ↓reduceIte]; rfl

theorem printArgVal_constRun (opt : POpt) (hc : opt.compress = true) (c : Cell) (hp : PrintsTok opt c)
    (n : Nat) (hn : 1 ≤ n) (fuel : Nat) (prev : Option Cell) (st : PSt) :
    ∃ (t : Bytes) (cols' : Int),
      printArgVal (fuel + 2) opt [Cell.rep n 0, c] prev st =
        .ok (⟨st.out ++ runText n t, cols'⟩, (runText n t).length) ∧ TokOK t c := by
  obtain ⟨t, cols', hprint, htok⟩ := hp fuel [] none
    ⟨st.out ++ (fmtDec n ++ [120]), st.cols + ((fmtDec n ++ [120]).length : Nat)⟩
  refine ⟨t, cols', ?_, htok⟩
  have hn0 : ¬ ((n : Int) = 0) := by omega
  unfold printArgVal
  simp only [deref, bind, Except.bind]
  unfold printRange
  simp only [deref, bind, Except.bind, hc, true_or, ↓reduceIte, ne_eq, not_true_eq_false, hn0, or_self,
    List.drop_succ_cons, List.drop_zero, hprint, pure, Except.pure]
  obtain ⟨a, ha⟩ := initArgsWritten_ok ⟨st.out ++ (fmtDec n ++ [120]) ++ t, cols'⟩ (by simp)
  simp only [ha, Int.sub_self, Int.toNat_zero, printRangeElems, Int.lt_irrefl, ↓reduceIte]
  simp only [runText, List.length_append, List.append_assoc, Nat.add_assoc]


theorem printLoop_constRun (opt : POpt) (hc : opt.compress = true) (c : Cell) (hsc : c.isScalar = true)
    (hp : PrintsTok opt c) (hid : SelfIdentical c) (n : Nat) (hn5 : 5 ≤ n)
    (st : PSt) (lastSep : Int) (awl : Nat)
    (hinv : awl = 0 ∨ ∃ base, st.out = base ++ [32] ∧ lastSep = (base.length : Int)) :
    ∃ (t pre : Bytes) (cols1 : Int), TokOK t c ∧
      (pre = st.out ∨ ∃ base, st.out = base ++ [32] ∧ pre = base ++ nl4) ∧
      printArgValsLoop (n + 1) opt (List.replicate n c) n 0 st 0 lastSep awl =
        .ok (⟨pre ++ runText n t, cols1⟩, (runText n t).length + (pre.length - st.out.length)) := by
  have h0 : List.replicate n c = c :: List.replicate (n - 1) c := by
    simpa using drop_replicate_cons n 0 c (by omega)
  obtain ⟨t, cols', hprint, htok⟩ := printArgVal_constRun opt hc c hp n (by omega) (n + 1) none st
  have hconv := convertToRange_replicate opt hc c hsc hid n hn5
  have hlb : ∃ pre1 cols1 awl1, (if !breaksItself c
        then linebreakCheck ⟨st.out ++ runText n t, cols'⟩ (runText n t).length lastSep (runText n t).length awl
          opt.linelength
        else (pure (⟨st.out ++ runText n t, cols'⟩, (runText n t).length, awl) : Res (PSt × Nat × Nat))) =
        .ok (⟨pre1 ++ runText n t, cols1⟩, (runText n t).length + (pre1.length - st.out.length), awl1) ∧
      (pre1 = st.out ∨ ∃ base, st.out = base ++ [32] ∧ pre1 = base ++ nl4) := by
    by_cases hb : breaksItself c = true
    · exact ⟨st.out, cols', awl, by simp [hb, pure, Except.pure], Or.inl rfl⟩
    · obtain ⟨pre, cols1, awl1, h1, _, h3⟩ :=
        linebreakCheck_tok st.out (runText n t) cols' (runText n t).length lastSep awl opt.linelength hinv
      exact ⟨pre, cols1, awl1, by simp [hb, h1], h3⟩
  obtain ⟨pre1, cols1, awl1, hlb, hpre1⟩ := hlb
  refine ⟨t, pre1, cols1, htok, hpre1, ?_⟩
  rw [printArgValsLoop]
  have hlt : 0 < n := by omega
  simp only [hlt, ↓reduceIte, List.drop_zero, Nat.sub_zero, hconv, bind, Except.bind, List.length_replicate]
  rw [h0]
  simp only [deref]
  rw [show n + 3 = (n + 1) + 2 from rfl, hprint]
  have hnn : ¬ (0 + n < n) := by omega
  simp only [Nat.zero_add]
  cases hb : (!breaksItself c)
  · rw [hb] at hlb
    simp only [Bool.false_eq_true, ↓reduceIte] at hlb ⊢
    rw [hlb]
    simp only [pure, Except.pure, Nat.lt_irrefl, ↓reduceIte]
    exact printArgValsLoop_done n hlt _ _ _ _ _ _ _ _ (Nat.lt_irrefl n)
  · rw [hb] at hlb
    simp only [↓reduceIte] at hlb ⊢
    rw [hlb]
    simp only [pure, Except.pure, Nat.lt_irrefl, ↓reduceIte]
    exact printArgValsLoop_done n hlt _ _ _ _ _ _ _ _ (Nat.lt_irrefl n)

/-! ### scanner and checker on `nxT` -/

theorem fmtDec_pos_shape (n : Nat) (hn : 1 ≤ n) :
    ∃ d ds, isdigit d = true ∧ d ≠ 48 ∧ (∀ c ∈ ds, isdigit c = true) ∧ fmtDec (n : Int) = d :: ds ∧
      digitsVal 10 (d :: ds) = n := by
  rcases fmtDec_shape (n : Int) with ⟨hv, _⟩ | ⟨d, ds, hd0, hnz, hds, ht, hval⟩
  · omega
  · have : ¬ ((n : Int) < 0) := by omega
    simp only [this, ↓reduceIte, List.nil_append] at ht
    exact ⟨d, ds, hd0, hnz, hds, ht, by simpa using hval⟩

theorem isdigit_hd_x (r : Bytes) : isdigit (hd (120 :: r)) = false := by
  rw [hd_cons]; decide

theorem isdigit_ne_x (c : UInt8) (h : isdigit c = true) : c ≠ 120 := by
  revert h; revert c; apply UInt8.forall_of_fin; decide +kernel

/-- `%d` on the multiplier: the 'x' behind it stays -/
theorem scanInt_mult (n : Nat) (hn : 1 ≤ n) (hn2 : n ≤ 2147483647) (r : Bytes) :
    scanInt .d none (fmtDec (n : Int) ++ 120 :: r) = some ((n : Int), 120 :: r) := by
  obtain ⟨d, ds, hd0, hnz, hds, ht, hval⟩ := fmtDec_pos_shape n hn
  rw [ht, scanInt_digits_pos .d (by decide) d ds (120 :: r) hd0 hnz hds (isdigit_hd_x r), hval,
    clampI64_id _ (by omega) (by omega)]

theorem sscanf_fmtMult (n : Nat) (hn : 1 ≤ n) (hn2 : n ≤ 2147483647) (r : Bytes) :
    sscanf fmtMult (fmtDec (n : Int) ++ 120 :: r) = [.int n, .pos ((fmtDec (n : Int)).length + 1)] := by
  unfold sscanf fmtMult
  rw [sscanfGo_int_some _ _ _ _ _ _ _ _ _ (scanInt_mult n hn hn2 r)]
  simp [sscanfGo]

theorem isRangeMultiplier_mult (n : Nat) (hn : 1 ≤ n) (r : Bytes) :
    isRangeMultiplier (fmtDec (n : Int) ++ 120 :: r) = true := by
  obtain ⟨d, ds, hd0, hnz, hds, ht, _⟩ := fmtDec_pos_shape n hn
  rw [ht]
  simp only [isRangeMultiplier, List.cons_append, hd_cons, List.drop_succ_cons, List.drop_zero,
    skipDigits_digits ds (120 :: r) hds (isdigit_hd_x r)]
  simp [hd0, hnz]

theorem afterX_mult (n : Nat) (hn : 1 ≤ n) (r : Bytes) : afterX (fmtDec (n : Int) ++ 120 :: r) = r := by
  obtain ⟨d, ds, hd0, hnz, hds, ht, _⟩ := fmtDec_pos_shape n hn
  have hall : ∀ c ∈ d :: ds, isdigit c = true := by
    intro c hc; simp at hc; rcases hc with rfl | hc; exact hd0; exact hds c hc
  rw [ht]
  generalize d :: ds = l at hall
  induction l with
  | nil => simp [afterX]
  | cons c l ih =>
    simp only [List.cons_append, afterX, isdigit_ne_x c (hall c (by simp)), ↓reduceIte]
    exact ih (fun x hx => hall x (by simp [hx]))

theorem hd_mult (n : Nat) (hn : 1 ≤ n) (r : Bytes) :
    isdigit (hd (fmtDec (n : Int) ++ 120 :: r)) = true := by
  obtain ⟨d, ds, hd0, _, _, ht, _⟩ := fmtDec_pos_shape n hn
  rw [ht]; exact hd0


theorem scanValue_mult (se : ElemScanner) (s : Bytes) (prev : List Cell) (hd0 : isdigit (hd s) = true)
    (hm : isRangeMultiplier s = true) : scanValue se s prev = scanMultiplier se s := by
  obtain ⟨a1, a2, a3, a4, a5, a6, a7, a8, a9, a10, _⟩ := numStart_facts (hd s) (Or.inr hd0)
  unfold scanValue
  simp [a1, a2, a3, a4, a5, a6, a7, a8, a9, a10, hm]

theorem skipValue_mult (sk : ArgSkipper) (s : Bytes) (ty : UInt8) (ib : Bool) (hd0 : isdigit (hd s) = true)
    (hm : isRangeMultiplier s = true) :
    skipValue sk s ty ib = (do let r ← skipMultiplier sk s ty ib; pure (some r)) := by
  obtain ⟨a1, a2, a3, a4, a5, a6, a7, a8, a9, a10, _⟩ := numStart_facts (hd s) (Or.inr hd0)
  unfold skipValue
  simp [a1, a2, a3, a4, a5, a6, a7, a8, a9, a10, hm]

theorem drop_mult (n : Nat) (t : Bytes) :
    (fmtDec (n : Int) ++ 120 :: t).drop ((fmtDec (n : Int)).length + 1) = t := by
  rw [show fmtDec (n : Int) ++ 120 :: t = (fmtDec (n : Int) ++ [120]) ++ t from by simp,
    show (fmtDec (n : Int)).length + 1 = (fmtDec (n : Int) ++ [120]).length from by simp]
  exact List.drop_left

theorem scanMultiplier_run (se : ElemScanner) (n : Nat) (hn : 1 ≤ n) (hn2 : n ≤ 2147483647) (t : Bytes) (c : Cell)
    (hse : se t [] 0 false = .ok (t.length, [c])) :
    scanMultiplier se (fmtDec (n : Int) ++ 120 :: t) = .ok ⟨[], [Cell.rep n 0, c], false⟩ := by
  unfold scanMultiplier
  simp only [sscanf_fmtMult n hn hn2 t, bind, Except.bind, pure, Except.pure, drop_mult, hse, advance,
    Nat.le_refl, ↓reduceIte, List.drop_length, toI32_id (n : Int) (by omega) (by omega)]


theorem runText_eq (n : Nat) (t : Bytes) : runText n t = fmtDec (n : Int) ++ 120 :: t := by
  simp [runText]

theorem scanArgVal_run (n : Nat) (hn : 1 ≤ n) (hn2 : n ≤ 2147483647) (t : Bytes) (c : Cell) (htok : TokOK t c)
    (fuel : Nat) (prev : List Cell) (ab : Nat) (fe : Bool) :
    scanArgVal (fuel + 2) (runText n t) prev ab fe = .ok ((runText n t).length, [Cell.rep n 0, c]) := by
  have hse : scanArgVal (fuel + 1) t [] 0 false = .ok (t.length, [c]) := by
    apply scanArgVal_noEllipsis
    simpa using htok.scan [] fuel [] 0 sep_nil
  rw [runText_eq]
  unfold scanArgVal
  rw [scanValue_mult _ _ _ (hd_mult n hn t) (isRangeMultiplier_mult n hn t),
    scanMultiplier_run _ n hn hn2 t c hse]
  simp only [bind, Except.bind]
  unfold finishArg
  simp [skipSpace, startsWith, pure, Except.pure]

theorem tokStart_run (n : Nat) (hn : 1 ≤ n) (t : Bytes) : TokStart (runText n t) := by
  rw [runText_eq]
  have h := hd_mult n hn t
  obtain ⟨_, _, _, _, _, _, _, _, _, _, _, _, b1, b2, b3, b4, b5, b6, b7⟩ := numStart_facts _ (Or.inr h)
  exact ⟨by simp, b1, b2, b3, b4, b5, b6, b7⟩

/-- `can_precede_range` of a repeated scalar `nxA` -/
theorem canPrecedeRange_rep_scalar (n : Int) (c : Cell) (more : List Cell) (hsc : c.isScalar = true) :
    canPrecedeRange (Cell.rep n 0 :: c :: more) = .ok true := by
  unfold canPrecedeRange
  cases c with
  | int ty v => cases ty <;> simp [deref, ArgVal.Cell.type, ArgVal.tyA, ArgVal.IntTy.char, bind, Except.bind, pure, Except.pure]
  | str ty v => cases ty <;> simp [deref, ArgVal.Cell.type, ArgVal.tyA, ArgVal.StrTy.char, bind, Except.bind, pure, Except.pure]
  | flag ty => cases ty <;> simp [deref, ArgVal.Cell.type, ArgVal.tyA, ArgVal.FlagTy.char, bind, Except.bind, pure, Except.pure]
  | _ => simp_all [deref, ArgVal.Cell.isScalar, ArgVal.Cell.type, ArgVal.tyA, bind, Except.bind, pure, Except.pure]

theorem scanArgVals_run (n : Nat) (hn : 1 ≤ n) (hn2 : n ≤ 2147483647) (t : Bytes) (c : Cell) (htok : TokOK t c)
    (hsc : c.isScalar = true) :
    scanArgVals (runText n t) 2 = .ok ((runText n t).length, [Cell.rep n 0, c]) := by
  unfold scanArgVals
  simp only [skipSpaceComments_tokStart _ _ (tokStart_run n hn t), bind, Except.bind, List.drop_zero]
  unfold scanArgValsLoop
  simp only [show (0 : Nat) < 2 from by decide, ↓reduceIte, bind, Except.bind,
    scanArgVal_run n hn hn2 t c htok _ _ _ _, advance, Nat.le_refl, List.drop_length,
    canPrecedeRange_rep_scalar _ c [] hsc]
  have hoff : nextArgOffset 3 [Cell.rep (n : Int) 0, c] = .ok 2 := by
    unfold nextArgOffset
    simp only [deref, bind, Except.bind, List.drop_succ_cons, List.drop_zero]
    rw [nextArgOffset_scalar 1 c [] hsc]
    rfl
  simp only [hoff, List.length_cons, List.length_nil, ne_eq, not_true_eq_false, ↓reduceIte,
    skipSpaceComments_nil, List.drop_zero]
  unfold scanArgValsLoop
  simp [pure, Except.pure]


theorem skipNext_run (n : Nat) (hn : 1 ≤ n) (t : Bytes) (c : Cell) (htok : TokOK t c) (hsc : c.isScalar = true)
    (fuel : Nat) (ty : UInt8) (llhs : Option Bytes) (fe ib : Bool) :
    skipNextPrintedArg (fuel + 2) (runText n t) ty llhs fe ib = .ok ⟨some [], 2, 45⟩ := by
  obtain ⟨r, hr, hsrc, hsk, hty⟩ := htok.skip [] fuel 0 none ib sep_nil
  simp only [List.append_nil] at hr
  have hr' := skipNext_noEllipsis fuel t 0 none none ib r hr (by rw [hsrc]; simp)
    (by rw [hty]; exact scalar_type_ne_range c hsc)
  rw [runText_eq]
  unfold skipNextPrintedArg
  rw [skipValue_mult _ _ _ _ (hd_mult n hn t) (isRangeMultiplier_mult n hn t)]
  unfold skipMultiplier
  simp only [afterX_mult n hn t, hr', bind, Except.bind, hsrc, hsk, pure, Except.pure, skipSpace, startsWith]
  simp


theorem countLoop_run (n : Nat) (hn : 1 ≤ n) (t : Bytes) (c : Cell) (htok : TokOK t c) (hsc : c.isScalar = true)
    (fuel : Nat) (recent : Option Bytes) (num : Int) :
    countLoop (fuel + 2) (some (runText n t)) recent num = .ok (num + 2) := by
  obtain ⟨hne, _, h0, _, _, _, h47, _⟩ := tokStart_run n hn t
  have hpos : 0 < (runText n t).length := List.length_pos_iff.mpr hne
  have hlen : ¬ (0 ≥ (runText n t).length) := by omega
  unfold countLoop
  simp only [h0, h47, ne_eq, not_false_eq_true, and_self, ↓reduceIte,
    skipNextPrintedArg_checkFuel (skipNext_run n hn t c htok hsc (runText n t).length 0 recent true false), bind,
    Except.bind, skipSpace, hd_nil, not_true_eq_false, pure, Except.pure, List.length_nil, hlen]
  simp [countLoop]

theorem countPrintedArgVals_run (n : Nat) (hn : 1 ≤ n) (t : Bytes) (c : Cell) (htok : TokOK t c)
    (hsc : c.isScalar = true) : countPrintedArgVals (runText n t) = .ok 2 := by
  have hstart := tokStart_run n hn t
  have h37 : hd (runText n t) ≠ 37 := hstart.2.2.2.2.2.1
  have hpos : 0 < (runText n t).length := List.length_pos_iff.mpr hstart.1
  unfold countPrintedArgVals
  simp only [skipSpace_tokStart _ hstart, skipCommentLines_none _ _ h37, bind, Except.bind]
  obtain ⟨m, hm⟩ : ∃ m, (runText n t).length + 1 = m + 2 := ⟨(runText n t).length - 1, by omega⟩
  rw [hm, countLoop_run n hn t c htok hsc]
  rfl


/-- **Tier 3, constant runs.**  With range compression on, `n ≥ 5` copies of a scalar value whose
    token is good are printed as `nxT`; the checker counts 2 cells and the scanner returns the
    range block `[rep n 0, c]`. -/
theorem const_run_roundtrip (opt : POpt) (hc : opt.compress = true) (c : Cell) (hsc : c.isScalar = true)
    (hp : PrintsTok opt c) (hid : SelfIdentical c) (n : Nat) (hn5 : 5 ≤ n) (hn : n ≤ 2147483647) :
    ∃ (st : PSt) (ret : Nat),
      printArgVals opt (List.replicate n c) ⟨[], 0⟩ = .ok (st, ret) ∧ ret = st.out.length ∧
      countPrintedArgVals st.out = .ok 2 ∧
      scanArgVals st.out 2 = .ok (st.out.length, [Cell.rep n 0, c]) := by
  obtain ⟨t, pre, cols1, htok, hpre, hrun⟩ :=
    printLoop_constRun opt hc c hsc hp hid n hn5 ⟨[], 0⟩ (-1) 0 (Or.inl rfl)
  have hpre0 : pre = [] := by
    rcases hpre with h | ⟨base, h1, _⟩
    · exact h
    · simp at h1
  subst hpre0
  simp only [List.nil_append, List.length_nil, Nat.sub_zero, Nat.add_zero] at hrun
  refine ⟨⟨runText n t, cols1⟩, (runText n t).length, ?_, rfl, ?_, ?_⟩
  · unfold printArgVals
    simpa using hrun
  · exact countPrintedArgVals_run n (by omega) t c htok hsc
  · exact scanArgVals_run n (by omega) hn t c htok hsc

/-! ### which values are identical to themselves; whole messages -/

theorem asArr_scalar (c : Cell) (hsc : c.isScalar = true) : c.asArr = none := by
  cases c <;> simp_all [ArgVal.Cell.isScalar, ArgVal.Cell.asArr]

/-- a scalar cell that `rtosc_arg_vals_eq_single` finds equal to itself is identical to itself -/
theorem selfIdentical_of_eqScalar (c : Cell) (hsc : c.isScalar = true)
    (h : ArgVal.eqScalar c c = .ok true) : SelfIdentical c := by
  intro more more'
  unfold rangeArgsIdentical
  have heq : eqSingle (c :: more) (c :: more') = .ok true := by
    unfold eqSingle
    rw [show (c :: more).length + (c :: more').length + 2 = ((c :: more).length + (c :: more').length + 1) + 1 from rfl]
    unfold ArgVal.eqSingle
    simp only [ArgVal.deref, bind, Except.bind, asArr_scalar c hsc, h]
    rfl
  simp only [heq, bind, Except.bind, Bool.not_true, Bool.false_eq_true, ↓reduceIte, incsize_scalar c _ hsc,
    ne_eq, not_true_eq_false, List.take_succ_cons, List.take_zero, List.length_singleton, or_self, pure, Except.pure,
    List.zip_cons_cons, List.zip_nil_right, List.all_cons, List.all_nil, Bool.and_true, decide_true, Bool.true_and]
  cases c <;> simp


theorem lexCmp_self (a : Bytes) : ArgVal.lexCmp a a = 0 := by
  induction a with
  | nil => rfl
  | cons x r ih => simp [ArgVal.lexCmp, ih]

theorem selfIdentical_int (ty : ArgVal.IntTy) (v : Int) : SelfIdentical (Cell.int ty v) :=
  selfIdentical_of_eqScalar _ rfl (by simp [ArgVal.eqScalar, pure, Except.pure])

theorem selfIdentical_huge (v : Int) : SelfIdentical (Cell.huge v) :=
  selfIdentical_of_eqScalar _ rfl (by simp [ArgVal.eqScalar, pure, Except.pure])

theorem selfIdentical_time (v : Nat) : SelfIdentical (Cell.time v) :=
  selfIdentical_of_eqScalar _ rfl (by simp [ArgVal.eqScalar, pure, Except.pure])

theorem selfIdentical_flag (ty : ArgVal.FlagTy) : SelfIdentical (Cell.flag ty) :=
  selfIdentical_of_eqScalar _ rfl (by simp [ArgVal.eqScalar, pure, Except.pure])

theorem selfIdentical_midi (a b c d : UInt8) : SelfIdentical (Cell.midi a b c d) :=
  selfIdentical_of_eqScalar _ rfl (by simp [ArgVal.eqScalar, ArgVal.memcmpS, lexCmp_self, pure, Except.pure])

theorem selfIdentical_blob (data : Bytes) : SelfIdentical (Cell.blob data) :=
  selfIdentical_of_eqScalar _ rfl (by simp [ArgVal.eqScalar, ArgVal.memcmpS, lexCmp_self, pure, Except.pure])

theorem selfIdentical_str (ty : ArgVal.StrTy) (s : Bytes) : SelfIdentical (Cell.str ty (some s)) :=
  selfIdentical_of_eqScalar _ rfl (by simp [ArgVal.eqScalar, ArgVal.strcmpS, lexCmp_self, pure, Except.pure])

/-- a float that compares equal to itself (not a NaN) -/
theorem selfIdentical_flt (b : UInt32) (h : ArgVal.f32.feq b.toNat b.toNat = true) : SelfIdentical (Cell.flt b) :=
  selfIdentical_of_eqScalar _ rfl (by simp [ArgVal.eqScalar, h, pure, Except.pure])

theorem selfIdentical_dbl (b : UInt64) (h : ArgVal.f64.feq b.toNat b.toNat = true) : SelfIdentical (Cell.dbl b) :=
  selfIdentical_of_eqScalar _ rfl (by simp [ArgVal.eqScalar, h, pure, Except.pure])


theorem countPrintedArgVals_sep_run (n : Nat) (hn : 1 ≤ n) (t : Bytes) (c : Cell) (htok : TokOK t c)
    (hsc : c.isScalar = true) (sep : Bytes) (hsep : IsSepTxt sep) :
    countPrintedArgVals (sep ++ runText n t) = .ok 2 := by
  have hstart := tokStart_run n hn t
  have h37 : hd (runText n t) ≠ 37 := hstart.2.2.2.2.2.1
  have hpos : 0 < (runText n t).length := List.length_pos_iff.mpr hstart.1
  unfold countPrintedArgVals
  simp only [skipSpace_sep sep _ hsep hstart, skipCommentLines_none _ _ h37, bind, Except.bind]
  obtain ⟨m, hm⟩ : ∃ m, (runText n t).length + 1 = m + 2 := ⟨(runText n t).length - 1, by omega⟩
  rw [hm, countLoop_run n hn t c htok hsc]
  rfl

/-- **Tier 3, constant runs, whole messages.** -/
theorem const_run_message_roundtrip (opt : POpt) (hc : opt.compress = true) (addr : Bytes) (adrsize : Nat)
    (ha : AddrOK addr) (hal : addr.length < adrsize) (c : Cell) (hsc : c.isScalar = true)
    (hp : PrintsTok opt c) (hid : SelfIdentical c) (n : Nat) (hn5 : 5 ≤ n) (hn : n ≤ 2147483647) :
    ∃ (st : PSt) (ret : Nat),
      printMessage opt addr (List.replicate n c) 0 = .ok (st, ret) ∧ ret = st.out.length ∧
      countPrintedArgValsOfMsg st.out = .ok 2 ∧
      scanMessage st.out adrsize 2 = .ok (st.out.length, addr, [Cell.rep n 0, c]) := by
  obtain ⟨ha47, hasp⟩ := ha
  have hane : addr ≠ [] := by intro h; rw [h] at ha47; simp at ha47
  obtain ⟨t, pre, cols1, htok, hpre, hrun⟩ :=
    printLoop_constRun opt hc c hsc hp hid n hn5 ⟨addr ++ [32], 0 + ((addr ++ [32]).length : Nat)⟩
      (((addr ++ [32]).length : Int) - 1) (if (0 + ((addr ++ [32]).length : Nat) : Int) ≠ 0 then 1 else 0)
      (Or.inr ⟨addr, rfl, by simp⟩)
  have hn1 : 1 ≤ n := by omega
  have hstart := tokStart_run n hn1 t
  -- the separator behind the address
  obtain ⟨sep, hsep, hpre'⟩ : ∃ sep, IsSepTxt sep ∧ pre = addr ++ sep := by
    rcases hpre with h | ⟨base, h1, h2⟩
    · exact ⟨[32], Or.inl rfl, h⟩
    · have : base = addr := (List.append_inj_left' h1 rfl).symm
      exact ⟨nl4, Or.inr rfl, by rw [h2, this]⟩
  have hsepsp : isspace (hd sep) = true := by rcases hsep with rfl | rfl <;> rfl
  have hsepne : sep ≠ [] := by rcases hsep with rfl | rfl <;> simp
  have htext : pre ++ runText n t = addr ++ (sep ++ runText n t) := by rw [hpre', List.append_assoc]
  have hrest : sep ++ runText n t = [] ∨ isspace (hd (sep ++ runText n t)) = true := by
    right; rw [hd_append_of_ne_nil _ _ hsepne]; exact hsepsp
  have hskip : skipSpace (sep ++ runText n t) = runText n t := skipSpace_sep sep _ hsep hstart
  have haddr_sp : skipSpace (addr ++ (sep ++ runText n t)) = addr ++ (sep ++ runText n t) := by
    cases addr with
    | nil => exact absurd rfl hane
    | cons c r => simp [skipSpace, hasp c (by simp)]
  have hhd : hd (addr ++ (sep ++ runText n t)) = 47 := by rw [hd_append_of_ne_nil _ _ hane]; exact ha47
  have hseppos : 0 < sep.length := List.length_pos_iff.mpr hsepne
  refine ⟨⟨pre ++ runText n t, cols1⟩,
    (addr ++ [32]).length + ((runText n t).length + (pre.length - (addr ++ [32]).length)), ?_, ?_, ?_, ?_⟩
  · unfold printMessage printArgVals
    simp only [List.length_replicate, bind, Except.bind, hrun, pure, Except.pure]
  · show _ = (pre ++ runText n t).length
    rw [hpre']
    simp only [List.length_append, List.length_singleton]
    omega
  · show countPrintedArgValsOfMsg (pre ++ runText n t) = _
    rw [htext]
    unfold countPrintedArgValsOfMsg
    simp only [haddr_sp, bind, Except.bind, skipCommentLines_none _ _ (by rw [hhd]; decide), hhd, ↓reduceIte,
      dropWhile_notspace addr (sep ++ runText n t) hasp hrest]
    exact countPrintedArgVals_sep_run n hn1 t c htok hsc sep hsep
  · show scanMessage (pre ++ runText n t) adrsize 2 = .ok ((pre ++ runText n t).length, addr, _)
    rw [htext]
    unfold scanMessage
    simp only [haddr_sp, Nat.sub_self, hhd, show (47 : UInt8) ≠ 37 from by decide, ↓reduceIte, pure, Except.pure,
      bind, Except.bind, List.drop_zero, Nat.add_zero, Nat.sub_zero,
      takeWhile_notspace addr (sep ++ runText n t) hasp hrest]
    have htake : addr.take adrsize = addr := List.take_of_length_le (by omega)
    simp only [htake, List.drop_left, hskip, scanArgVals_run n hn1 hn t c htok hsc, Nat.zero_add]
    congr 2
    simp only [List.length_append]
    omega

end Rtosc.Pretty
