/-
  C11 — from the specification to `LayR`: sentences whose values are values with proved agreement
  (`SVal.proved`) and ranges `b ... c` of decimal 'i' integers anywhere at top level, each range
  standing first or behind a scalar value, a repetition of a scalar value or another such range
  (`rangedFrom`).  The text of such a sentence is a `LayR`, and its denotation is the cells of its
  arguments.
-/
import RtoscModel.Proofs.ScanRangeList
namespace Rtosc.Pretty.C11
open Rtosc Rtosc.Libc Rtosc.Pretty
open Rtosc.ArgVal (Cell Item flatList)

/-- the range `b ... c` of two 'i' integers in plain decimal spelling -/
def SVal.iRange : SVal → Option (Int × Int)
  | .range (.int x .dec false) (.int z .dec false) => some (x, z)
  | _ => none

theorem iRange_some {v : SVal} {x z : Int} (h : v.iRange = some (x, z)) :
    v = .range (.int x .dec false) (.int z .dec false) := by
  unfold SVal.iRange at h
  split at h
  · injection h with h; injection h with h1 h2; subst h1; subst h2; rfl
  · cases h

/-- what a value (not a range) offers to a range to its right: a scalar or a repeated scalar offers
    its 'i' integer, if it is one; an array or a repeated array offers nothing (the range behind it
    counts in steps of ±1); `none`: no range may follow in the proved class -/
def SVal.offer : SVal → Option (Option Int)
  | .val t => some (nbInt t.cell)
  | .rep _ (.val t) => some (nbInt t.cell)
  | .arr _ _ => some none
  | .rep _ (.arr _ _) => some none
  | _ => none

/-- the value to the left in the sense of the specification (`SVal.denote1`) -/
def SVal.leftCell : SVal → Option Cell
  | .val t => some t.cell
  | .rep _ (.val t) => some t.cell
  | _ => none

/-- all values of the sentence (numbered from `i`) have proved agreement or are decimal 'i' ranges
    with `RangeOK`, at least one white-space character in front of the dots, and a provider (or
    nothing) to their left; `o`: what the value to the left offers (`none`: not a provider) -/
def rangedFrom (L : Layout) : Nat → Option (Option Int) → Sentence → Prop
  | _, _, [] => True
  | i, o, v :: r =>
    match v.iRange with
    | some (x, z) => (∃ nb, o = some nb ∧ RangeOK nb x z) ∧ L.blank [i, 1] ≠ [] ∧ rangedFrom L (i + 1) (some (some z)) r
    | none => v.proved (sub L.blank i) ∧ rangedFrom L (i + 1) v.offer r

/-- the cells of such a sentence -/
def rcells : Option (Option Int) → Sentence → List Cell
  | _, [] => []
  | o, v :: r =>
    match v.iRange with
    | some (x, z) => rangeCellsNb (o.getD none) x z ++ rcells (some (some z)) r
    | none => v.pcells ++ rcells v.offer r

/-- texts and cells of the arguments -/
def rArgs (L : Layout) : Nat → Option (Option Int) → Sentence → List (Bytes × List Cell)
  | _, _, [] => []
  | i, o, v :: r =>
    match v.iRange with
    | some (x, z) => (v.text (sub L.blank i), rangeCellsNb (o.getD none) x z) :: rArgs L (i + 1) (some (some z)) r
    | none => (v.text (sub L.blank i), v.pcells) :: rArgs L (i + 1) v.offer r

theorem allCells_rArgs (L : Layout) : ∀ (s : Sentence) (i : Nat) (o : Option (Option Int)),
    allCells (rArgs L i o s) = rcells o s := by
  intro s
  induction s with
  | nil => intro i o; rfl
  | cons v r ih =>
    intro i o
    unfold rArgs rcells
    cases hv : v.iRange with
    | none =>
      have := ih (i + 1) v.offer
      simp only [allCells] at this
      simp [allCells, this]
    | some p =>
      obtain ⟨x, z⟩ := p
      have := ih (i + 1) (some (some z))
      simp only [allCells] at this
      simp [allCells, this]

/-! ### no range header with a delta in the cells of a value with proved agreement -/

mutual
theorem noDelta_pcells : ∀ (x : SVal), NoDelta x.pcells
  | .val t => by
    intro n h hm
    simp only [SVal.pcells, List.mem_singleton] at hm
    have := tok_cell_scalar t
    rw [← hm] at this
    simp [ArgVal.Cell.isScalar] at this
  | .rep k x => by
    intro n h hm
    simp only [SVal.pcells, List.mem_cons] at hm
    rcases hm with hm | hm
    · cases hm; rfl
    · exact noDelta_pcells x n h hm
  | .range _ _ => by
    intro n h hm
    simp [SVal.pcells] at hm
  | .arr es _ => by
    intro n h hm
    simp only [SVal.pcells, List.mem_cons] at hm
    rcases hm with hm | hm
    · cases hm
    · exact noDelta_pcellsList es n h hm
theorem noDelta_pcellsList : ∀ (es : List SVal), NoDelta (pcellsList es)
  | [] => by intro n h hm; simp [pcellsList] at hm
  | x :: r => by
    intro n h hm
    simp only [pcellsList, List.mem_append] at hm
    rcases hm with hm | hm
    · exact noDelta_pcells x n h hm
    · exact noDelta_pcellsList r n h hm
end

/-! ### the text is a `LayR` -/

/-- a value that offers something is a provider -/
theorem prov_of_offer (bl : List Nat → Blank) (v : SVal) (hv : v.proved bl) (nb : Option Int) (ho : v.offer = some nb) :
    Prov (v.text bl) v.pcells nb := by
  cases v with
  | val t =>
    simp only [SVal.proved] at hv
    simp only [SVal.offer, Option.some.injEq] at ho
    subst ho
    simpa [SVal.text, SVal.pcells] using Prov.scalar _ _ (valOK_tok bl t hv.1 hv.2)
  | rep n x =>
    rw [proved_unfold_rep] at hv
    obtain ⟨h1, h2, _, hx⟩ := hv
    cases x with
    | val t =>
      simp only [SVal.proved] at hx
      simp only [SVal.offer, Option.some.injEq] at ho
      subst ho
      have := Prov.rep n _ _ h1 h2 (valOK_tok (sub bl 0) t hx.1 hx.2)
      simpa [SVal.text, SVal.pcells, repText, fmtDec_nat] using this
    | arr es o =>
      simp only [SVal.offer, Option.some.injEq] at ho
      subst ho
      have := Prov.repArr n _ _ _ _ h1 h2 (by simpa [SVal.pcells] using SVal.proved.arg11 (sub bl 0) (.arr es o) hx)
        (by simp [SVal.text])
      simpa [SVal.text, SVal.pcells, repText, fmtDec_nat] using this
    | _ => simp [SVal.offer] at ho
  | range _ _ => simp [SVal.offer] at ho
  | arr es o =>
    simp only [SVal.offer, Option.some.injEq] at ho
    subst ho
    have := Prov.arr _ _ _ _ (by simpa [SVal.pcells] using SVal.proved.arg11 bl (.arr es o) hv) (by simp [SVal.text])
    simpa [SVal.pcells] using this

/-- the relation between the context of `LayR` and what the value to the left offers -/
def CtxRel (c : Ctx) (o : Option (Option Int)) : Prop :=
  match o with
  | none => True
  | some nb => c ≠ .any ∧ c.nb = nb

theorem text_iRange (bl : List Nat → Blank) (x z : Int) :
    (SVal.range (.int x .dec false) (.int z .dec false)).text bl =
      rangeTok x z (blankBytes (bl [1])) (blankBytes (bl [2])) := by
  simp [SVal.text, Tok.text, intText_dec, rangeTok, rangeRest]

/-- **the values of a non-empty sentence of the class, followed by a tail, are a `LayR`** -/
theorem layR_ranged (L : Layout) (hsp : ∀ i, L.sep i = [] ∨ startsWs (L.sep i) = true)
    (tail : Bytes) (htail : Tail tail) :
    ∀ (s : Sentence) (i : Nat) (c : Ctx) (o : Option (Option Int)), s ≠ [] → CtxRel c o → rangedFrom L i o s →
      LayR c (rArgs L i o s) (valuesText L i s ++ tail) := by
  intro s
  induction s with
  | nil => intro i c o h; exact absurd rfl h
  | cons v r ih =>
    intro i c o _ hrel hpl
    unfold rangedFrom at hpl
    unfold rArgs
    cases hv : v.iRange with
    | some p =>
      obtain ⟨x, z⟩ := p
      rw [hv] at hpl
      obtain ⟨⟨nb, ho, hr⟩, hb, hrest⟩ := hpl
      subst ho
      obtain ⟨hc1, hc2⟩ := hrel
      have hvx := iRange_some hv
      subst hvx
      have hw1 : blankBytes (sub L.blank i [1]) ≠ [] := by
        simp only [sub]
        cases h : L.blank [i, 1] with
        | nil => exact absurd h hb
        | cons a b => simp [blankBytes]
      simp only [Option.getD_some, text_iRange]
      rw [← hc2] at hr ⊢
      cases r with
      | nil =>
        have := LayR.oneR c x z _ _ tail hc1 hr (allWs_blank (sub L.blank i [1])) hw1
          (allWs_blank (sub L.blank i [2])) htail
        simpa [rArgs, valuesText, text_iRange] using this
      | cons y r' =>
        obtain ⟨e, hs⟩ := sepBytes_fix (L.sep i) (hsp i)
        have hrec := ih (i + 1) (.after (rangeTok x z (blankBytes (sub L.blank i [1])) (blankBytes (sub L.blank i [2])))
          (fixSep (L.sep i)) (rangeCellsNb c.nb x z) (some z)) (some (some z)) (by simp) ⟨by simp, rfl⟩ hrest
        have := LayR.consR c x z _ _ (fixSep (L.sep i)) _ _ hc1 hr (allWs_blank (sub L.blank i [1])) hw1
          (allWs_blank (sub L.blank i [2])) hs hrec
        simpa [valuesText, text_iRange, e, List.append_assoc] using this
    | none =>
      rw [hv] at hpl
      obtain ⟨hx, hrest⟩ := hpl
      have harg := SVal.proved.arg11 _ v hx
      simp only []
      cases r with
      | nil => simpa [rArgs, valuesText] using LayR.oneA c _ _ tail harg htail
      | cons y r' =>
        obtain ⟨e, hs⟩ := sepBytes_fix (L.sep i) (hsp i)
        cases ho : v.offer with
        | none =>
          have hrec := ih (i + 1) .any none (by simp) trivial (by rw [ho] at hrest; exact hrest)
          have := LayR.consA c _ _ (fixSep (L.sep i)) _ _ harg (noDelta_pcells v).tailKeep hs hrec
          simpa [valuesText, e, List.append_assoc] using this
        | some nb =>
          have hp := prov_of_offer _ v hx nb ho
          have hrec := ih (i + 1) (.after (v.text (sub L.blank i)) (fixSep (L.sep i)) v.pcells nb) (some nb) (by simp)
            ⟨by simp, rfl⟩ (by rw [ho] at hrest; exact hrest)
          have := LayR.consP c _ _ nb (fixSep (L.sep i)) _ _ harg (noDelta_pcells v).tailKeep hp hs hrec
          simpa [valuesText, e, List.append_assoc] using this


/-! ### the denotation -/

theorem denote1_left (bl : List Nat → Blank) (v : SVal) (hv : v.proved bl) :
    v.denote1 = some (v.pitem, v.leftCell) := by
  obtain ⟨p, hp⟩ := SVal.proved.denote1 bl v hv
  cases v with
  | val t => simp [SVal.denote1, SVal.pitem, SVal.leftCell]
  | rep n x =>
    cases x with
    | val t =>
      rw [proved_unfold_rep] at hv
      simp [SVal.denote1, SVal.pitem, SVal.leftCell, hv.1, hv.2.1]
    | arr es opn =>
      rw [hp]
      simp only [SVal.denote1] at hp
      split at hp
      · split at hp
        · injection hp with hp; injection hp with _ h2; rw [← h2]; rfl
        · cases hp
      · cases hp
    | rep _ _ => rw [proved_unfold_rep] at hv; exact absurd hv.2.2.1 (by simp [SVal.repeatable])
    | range _ _ => rw [proved_unfold_rep] at hv; exact absurd hv.2.2.1 (by simp [SVal.repeatable])
  | range _ _ => simp [SVal.proved] at hv
  | arr es opn =>
    rw [hp]
    simp only [SVal.denote1] at hp
    split at hp
    · injection hp with hp; injection hp with _ h2; rw [← h2]; rfl
    · cases hp

theorem type_105 (a : Cell) (h : a.type = 105) : ∃ p, a = Cell.int .i p := by
  cases a with
  | int ty v => cases ty <;> first | exact ⟨v, rfl⟩ | (simp [ArgVal.Cell.type, ArgVal.IntTy.char] at h)
  | str ty s => cases ty <;> simp [ArgVal.Cell.type, ArgVal.StrTy.char] at h
  | flag ty => cases ty <;> simp [ArgVal.Cell.type, ArgVal.FlagTy.char] at h
  | _ => simp [ArgVal.Cell.type, ArgVal.tyA, ArgVal.tyRange] at h

/-- the step the specification assigns to the range is `rangeStepI` -/
theorem rangeStep_int (prev : Option Cell) (x z : Int) (hr : RangeOK (prev.bind nbInt) x z) :
    rangeStep prev (Cell.int .i x) (some (Cell.int .i z)) =
      some (some (Cell.int .i (rangeStepI (prev.bind nbInt) x z))) := by
  have hne := hr.ne
  have hunit : unitStep (Cell.int .i x) (Cell.int .i z) = some (Cell.int .i (if x < z then 1 else -1)) := by
    simp only [unitStep, cmpScalar_int]
    by_cases hlt : x < z
    · simp [cmp3_gt z x hlt, hlt]
    · have : z < x := by omega
      simp [cmp3_lt z x this, hlt]
  cases prev with
  | none => simp [rangeStep, hunit, rangeStepI]
  | some a =>
    by_cases hi : ∃ p, a = Cell.int .i p
    · obtain ⟨p, rfl⟩ := hi
      by_cases hpx : p = x
      · subst hpx
        simp [rangeStep, numEq, cmpScalar_int, ArgVal.cmp3, hunit, rangeStepI, nbInt]
      · have hd1 := hr.hd1
        have hd2 := hr.hd2
        simp only [Option.bind_some, nbInt, rangeStepI, hpx, ↓reduceIte] at hd1 hd2
        have hty : (Cell.int ArgVal.IntTy.i p).type = (Cell.int ArgVal.IntTy.i x).type := rfl
        simp [rangeStep, numEq, cmpScalar_int, cmp3_ne p x hpx, isNumTy, stepOf, hd1, hd2, rangeStepI, nbInt, hpx, hty]
    · have hty : a.type ≠ 105 := fun h => hi (type_105 a h)
      have hn : nbInt a = none := by
        cases a with
        | int ty v => cases ty <;> first | exact absurd ⟨v, rfl⟩ hi | rfl
        | _ => rfl
      have ht : (Cell.int ArgVal.IntTy.i x).type = 105 := rfl
      simp [rangeStep, ht, hty, hunit, rangeStepI, hn]

theorem stepsOf_int {nb : Option Int} {x z : Int} (hr : RangeOK nb x z) :
    stepsOf (Cell.int .i x) (Cell.int .i z) (Cell.int .i (rangeStepI nb x z)) =
      some ((z - x) / rangeStepI nb x z).toNat := by
  unfold stepsOf
  simp only []
  rw [if_pos ⟨rangeStepI_ne, hr.hmod, hr.hq1, hr.hq2⟩]

theorem rangeLast_int {nb : Option Int} {x z : Int} (hr : RangeOK nb x z) :
    rangeLast (((z - x) / rangeStepI nb x z).toNat + 1) (Cell.int .i (rangeStepI nb x z)) (Cell.int .i x) =
      some (Cell.int .i z) := by
  have h1 := hr.hq1
  have hm := hr.mul
  simp only [rangeLast, Nat.add_sub_cancel]
  have e : (((z - x) / rangeStepI nb x z).toNat : Int) = (z - x) / rangeStepI nb x z := by omega
  rw [e, ← hm]
  congr 2; omega

/-- **the denotation of a sentence of the class**: the cells of its arguments -/
theorem denoteElems_ranged (L : Layout) : ∀ (s : Sentence) (i : Nat) (o : Option (Option Int)) (prev : Option Cell),
    rangedFrom L i o s → (∀ nb, o = some nb → prev.bind nbInt = nb) →
    (denoteElems false prev s).map flatList = some (rcells o s) := by
  intro s
  induction s with
  | nil => intro i o prev _ _; simp [denoteElems, rcells, flatList]
  | cons v r ih =>
    intro i o prev hpl hrel
    unfold rangedFrom at hpl
    unfold rcells
    cases hv : v.iRange with
    | some p =>
      obtain ⟨x, z⟩ := p
      rw [hv] at hpl
      obtain ⟨⟨nb, ho, hr⟩, _, hrest⟩ := hpl
      subst ho
      have hnb := hrel nb rfl
      subst hnb
      have hvx := iRange_some hv
      subst hvx
      have hne := hr.ne
      have hneq : numEq (Cell.int .i x) (Cell.int .i z) = false := by
        simp [numEq, cmpScalar_int, cmp3_ne x z hne]
      have hrec := ih (i + 1) (some (some z)) (some (Cell.int .i z)) hrest (by intro nb h; cases h; rfl)
      cases hd : denoteElems false (some (Cell.int .i z)) r with
      | none => rw [hd] at hrec; simp at hrec
      | some its =>
        rw [hd] at hrec
        simp only [Option.map_some, Option.some.injEq] at hrec
        simp [denoteElems, floatRangeBlocks, Tok.cell, isNumTy, hneq, rangeStep_int prev x z hr, stepsOf_int hr,
          rangeLast_int hr, hd, flatList, Rtosc.ArgVal.Item.flat, hrec, rangeCellsNb, ArgVal.Cell.type]
    | none =>
      rw [hv] at hpl
      obtain ⟨hx, hrest⟩ := hpl
      have hd1 := denote1_left _ v hx
      have hrel' : ∀ nb, v.offer = some nb → v.leftCell.bind nbInt = nb := by
        intro nb h
        cases v with
        | val t => simp only [SVal.offer, Option.some.injEq] at h; simp [SVal.leftCell, h]
        | rep n y =>
          cases y with
          | val t => simp only [SVal.offer, Option.some.injEq] at h; simp [SVal.leftCell, h]
          | arr _ _ => simp only [SVal.offer, Option.some.injEq] at h; simp [SVal.leftCell, h]
          | _ => simp [SVal.offer] at h
        | arr _ _ => simp only [SVal.offer, Option.some.injEq] at h; simp [SVal.leftCell, h]
        | _ => simp [SVal.offer] at h
      have hrec := ih (i + 1) v.offer v.leftCell hrest hrel'
      cases hd : denoteElems false v.leftCell r with
      | none => rw [hd] at hrec; simp at hrec
      | some its =>
        rw [hd] at hrec
        simp only [Option.map_some, Option.some.injEq] at hrec
        cases v with
        | val t => simp [denoteElems, hd1, hd, flatList, flat_pitem, hrec]
        | rep n y => simp [denoteElems, hd1, hd, flatList, flat_pitem, hrec]
        | range _ _ => simp [SVal.proved] at hx
        | arr es op => simp [denoteElems, hd1, hd, flatList, flat_pitem, hrec]

/-- the cells a sentence of the class denotes -/
theorem cells_ranged (L : Layout) (s : Sentence) (h : rangedFrom L 0 (some none) s) :
    cells s = some (rcells (some none) s) := by
  have := denoteElems_ranged L s 0 (some none) none h (by intro nb h; cases h; rfl)
  simpa [cells, denote] using this

end Rtosc.Pretty.C11
