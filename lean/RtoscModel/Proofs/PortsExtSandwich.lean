/-
  C04 helper lemmas, part 9 (review item A3): the specification of "which callbacks belong to a
  message" in MUST / MAY / MUSTNOT form, built from C05's two-sided statement about type strings
  only (`SpecMatch`: the type string is one of the listed alternatives — such a message MUST match;
  `SpecMayMatch`: it equals or extends a listed alternative — it MAY match; anything else MUST
  NOT), and without the rule `TypesAdmit` ("extends the LAST alternative"), which is what the
  code's `rtosc_match_args` happens to do inside the MAY region.

  `AnswersBy pos neg` is `Answers` (Ports/Spec.lean) with the verdict on one name as a parameter:
  `pos` where a positive verdict invokes something (the port's callback, the descent into its
  sub-table), `neg` where a positive verdict suppresses something (the default handler of the
  table).  It is monotone in `pos` and antitone in `neg`, so
      MUST  set = `AnswersBy SpecMatch SpecMayMatch`   (every level certainly matches; for a
                   default handler: certainly no port of its table matches)
      MAY   set = `AnswersBy SpecMayMatch SpecMatch`   (every level possibly matches; …: possibly
                   no port of its table matches);   MUSTNOT = outside the MAY set.
-/
import RtoscModel.Proofs.PortsProps
namespace Rtosc.Ports
open Rtosc Rtosc.Match

/-- the verdict of a matcher on one name: (name, remaining address, type string) -/
abbrev Verdict := Pat → Bytes → Bytes → Prop

/-- some port of the table gets a positive verdict -/
def PTable.anyBy (v : Verdict) : PTable → Bytes → Bytes → Prop
  | .nil, _, _ => False
  | .leaf p r, a, t => v p a t ∨ r.anyBy v a t
  | .node p _ _ r, a, t => v p a t ∨ r.anyBy v a t

/-- `Answers` with the verdicts as parameters (see the header) -/
def AnswersBy (pos neg : Verdict) : PTable → Nat → List Nat → Bytes → Bytes → Who → Prop
  | .nil, _, _, _, _, _ => False
  | .leaf p r, i, tp, a, t, w =>
    (pos p a t ∧ w = .port (tp ++ [i])) ∨ AnswersBy pos neg r (i + 1) tp a t w
  | .node p c cd r, i, tp, a, t, w =>
    (pos p a t ∧
      (w = .port (tp ++ [i]) ∨ AnswersBy pos neg c 0 (tp ++ [i]) (levelTail a) t w ∨
       (cd = true ∧ ¬ c.anyBy neg (levelTail a) t ∧ w = .dflt (tp ++ [i]))))
    ∨ AnswersBy pos neg r (i + 1) tp a t w

def AnswersRootBy (pos neg : Verdict) (P : PPorts) (addr tags : Bytes) (w : Who) : Prop :=
  AnswersBy pos neg P.tab 0 [] addr tags w ∨ (P.dflt = true ∧ ¬ P.tab.anyBy neg addr tags ∧ w = .dflt [])

/-- the callbacks a message MUST invoke -/
def MustAnswer (P : PPorts) (addr tags : Bytes) (w : Who) : Prop :=
  AnswersRootBy SpecMatch SpecMayMatch P addr tags w

/-- the callbacks a message MAY invoke; every other callback it MUST NOT invoke -/
def MayAnswer (P : PPorts) (addr tags : Bytes) (w : Who) : Prop :=
  AnswersRootBy SpecMayMatch SpecMatch P addr tags w

/-- a verdict function inside the sandwich of C05: every MUST message gets a positive verdict, and
    only MAY messages do -/
def Sandwiched (v : Verdict) : Prop :=
  ∀ p a t, (SpecMatch p a t → v p a t) ∧ (v p a t → SpecMayMatch p a t)

theorem anyBy_mono {v v' : Verdict} (h : ∀ p a t, v p a t → v' p a t) :
    ∀ (T : PTable) (a t : Bytes), T.anyBy v a t → T.anyBy v' a t := by
  intro T
  induction T with
  | nil => intro a t h'; exact h'
  | leaf p r ih =>
    intro a t h'
    rcases h' with h' | h'
    · exact Or.inl (h _ _ _ h')
    · exact Or.inr (ih a t h')
  | node p c cd r _ ih =>
    intro a t h'
    rcases h' with h' | h'
    · exact Or.inl (h _ _ _ h')
    · exact Or.inr (ih a t h')

/-- monotone in the positive verdict, antitone in the negative one -/
theorem answersBy_mono {pos pos' neg neg' : Verdict} (hp : ∀ p a t, pos p a t → pos' p a t)
    (hn : ∀ p a t, neg' p a t → neg p a t) :
    ∀ (T : PTable) (i : Nat) (tp : List Nat) (a t : Bytes) (w : Who),
      AnswersBy pos neg T i tp a t w → AnswersBy pos' neg' T i tp a t w := by
  intro T
  induction T with
  | nil => intro i tp a t w h; exact h
  | leaf p r ih =>
    intro i tp a t w h
    rcases h with ⟨h1, h2⟩ | h
    · exact Or.inl ⟨hp _ _ _ h1, h2⟩
    · exact Or.inr (ih _ _ _ _ _ h)
  | node p c cd r ihc ihr =>
    intro i tp a t w h
    rcases h with ⟨h1, h2⟩ | h
    · refine Or.inl ⟨hp _ _ _ h1, ?_⟩
      rcases h2 with h2 | h2 | ⟨h2, h3, h4⟩
      · exact Or.inl h2
      · exact Or.inr (Or.inl (ihc _ _ _ _ _ h2))
      · exact Or.inr (Or.inr ⟨h2, fun hh => h3 (anyBy_mono hn c _ _ hh), h4⟩)
    · exact Or.inr (ihr _ _ _ _ _ h)

theorem answersRootBy_mono {pos pos' neg neg' : Verdict} (hp : ∀ p a t, pos p a t → pos' p a t)
    (hn : ∀ p a t, neg' p a t → neg p a t) (P : PPorts) (a t : Bytes) (w : Who)
    (h : AnswersRootBy pos neg P a t w) : AnswersRootBy pos' neg' P a t w := by
  rcases h with h | ⟨h1, h2, h3⟩
  · exact Or.inl (answersBy_mono hp hn _ _ _ _ _ _ h)
  · exact Or.inr ⟨h1, fun hh => h2 (anyBy_mono hn P.tab _ _ hh), h3⟩

theorem anyAdmits_eq : ∀ (T : PTable) (a t : Bytes), T.anyAdmits a t ↔ T.anyBy Admits a t := by
  intro T
  induction T with
  | nil => intro a t; exact Iff.rfl
  | leaf p r ih => intro a t; simp only [PTable.anyAdmits, PTable.anyBy, ih]
  | node p c cd r _ ih => intro a t; simp only [PTable.anyAdmits, PTable.anyBy, ih]

theorem answers_eq : ∀ (T : PTable) (i : Nat) (tp : List Nat) (a t : Bytes) (w : Who),
    Answers T i tp a t w ↔ AnswersBy Admits Admits T i tp a t w := by
  intro T
  induction T with
  | nil => intro i tp a t w; exact Iff.rfl
  | leaf p r ih => intro i tp a t w; simp only [Answers, AnswersBy, ih]
  | node p c cd r ihc ihr =>
    intro i tp a t w
    simp only [Answers, AnswersBy, ihc, ihr, anyAdmits_eq]

theorem answersRoot_eq (P : PPorts) (a t : Bytes) (w : Who) :
    AnswersRoot P a t w ↔ AnswersRootBy Admits Admits P a t w := by
  simp only [AnswersRoot, AnswersRootBy, answers_eq, anyAdmits_eq]

/-- a type string that is one of the listed alternatives is admitted by the rule the code follows -/
theorem typesExact_admits {p : Pat} {tags : Bytes} (h : TypesExact p tags) : TypesAdmit p tags :=
  fun ts hts => Or.inl (h ts hts)

/-- what the rule the code follows admits equals or extends a listed alternative -/
theorem typesAdmit_loose {p : Pat} {tags : Bytes} (h : TypesAdmit p tags) : TypesLoose p tags := by
  intro ts hts
  rcases h ts hts with h | ⟨l, hl, _, hpre⟩
  · exact ⟨tags, h, List.prefix_refl _⟩
  · exact ⟨l, List.mem_of_getLast? hl, hpre⟩

/-- **the rule the code follows lies inside the sandwich** -/
theorem admits_sandwiched : Sandwiched Admits :=
  fun _ _ _ => ⟨fun h => ⟨h.1, typesExact_admits h.2⟩, fun h => ⟨h.1, typesAdmit_loose h.2⟩⟩

theorem sandwiched_must_le {v : Verdict} (hv : Sandwiched v) (P : PPorts) (a t : Bytes) (w : Who)
    (h : MustAnswer P a t w) : AnswersRootBy v v P a t w :=
  answersRootBy_mono (fun p a t => (hv p a t).1) (fun p a t => (hv p a t).2) P a t w h

theorem sandwiched_le_may {v : Verdict} (hv : Sandwiched v) (P : PPorts) (a t : Bytes) (w : Who)
    (h : AnswersRootBy v v P a t w) : MayAnswer P a t w :=
  answersRootBy_mono (fun p a t => (hv p a t).2) (fun p a t => (hv p a t).1) P a t w h

/-- an `RtData` the dispatch theorems speak about: no location buffer, or one of non-zero size -/
def RtData.Usable (d : RtData) : Prop := d.loc = none ∨ ∃ L0, d.loc = some L0 ∧ d.locSize ≠ 0

end Rtosc.Ports
