/-
  C10 — tier 3, compressed runs AND arrays (1): `rtosc_convert_to_range` is local.

  `rtosc_convert_to_range(arg, size, …)` on scalar cells does not look behind the first `size`
  cells (`convertToRange_append`): the comparisons `rtosc_arg_vals_eq_single` / `range_args_identical`
  on scalar heads read the two head cells only, and both loops stay below `size`.
  Used for the array loop of the printer: inside an array `size` is the number of cells left IN
  the array, while the memory goes on behind it.
-/
import RtoscModel.Proofs.PrettyRunsArrDefs
set_option linter.unusedSimpArgs false
set_option linter.unusedVariables false
namespace Rtosc.Pretty
open Rtosc Rtosc.Libc
open Rtosc.ArgVal (Cell)

/-- `rtosc_arg_vals_eq_single` with a scalar on the right compares the two head cells only -/
theorem eqSingle_scalar_right (x c : Cell) (m m' : List Cell) (hsc : c.isScalar = true) :
    eqSingle (x :: m) (c :: m') = liftAV (ArgVal.eqScalar x c) := by
  unfold eqSingle
  rw [show (x :: m).length + (c :: m').length + 2 = ((x :: m).length + (c :: m').length + 1) + 1 from rfl]
  unfold ArgVal.eqSingle
  simp only [ArgVal.deref, bind, Except.bind, asArr_scalar c hsc]
  cases x.asArr <;> rfl

theorem eqSingle_append_right (x c : Cell) (m r more : List Cell) (hsc : c.isScalar = true) :
    eqSingle (x :: m) (c :: (r ++ more)) = eqSingle (x :: m) (c :: r) := by
  rw [eqSingle_scalar_right x c m _ hsc, eqSingle_scalar_right x c m _ hsc]

theorem rangeArgsIdentical_scalars (c1 c2 : Cell) (m m' n n' : List Cell) (h1 : c1.isScalar = true)
    (h2 : c2.isScalar = true) :
    rangeArgsIdentical (c1 :: m) (c2 :: m') = rangeArgsIdentical (c1 :: n) (c2 :: n') := by
  unfold rangeArgsIdentical
  simp only [eqSingle_scalar_right c1 c2 _ _ h2, incsize_scalar c1 _ h1, incsize_scalar c2 _ h2, bind, Except.bind,
    List.take_succ_cons, List.take_zero]
  rfl

private theorem deref_cons' (c : Cell) (r : List Cell) : deref (c :: r) = .ok c := rfl

private theorem deref_append_ne (l more : List Cell) (h : l ≠ []) : deref (l ++ more) = deref l := by
  cases l with
  | nil => exact absurd rfl h
  | cons c r => rfl

private theorem drop_append_cons (l more : List Cell) (i : Nat) (c : Cell) (r : List Cell) (h : l.drop i = c :: r) :
    (l ++ more).drop i = c :: (r ++ more) := by
  have hlt := (drop_eq_cons_lt l i c r h).1
  rw [List.drop_append_of_le_length (Nat.le_of_lt hlt), h]; rfl

private theorem drop_cons_of_lt {α} (l : List α) (i : Nat) (h : i < l.length) : ∃ c r, l.drop i = c :: r := by
  cases hd : l.drop i with
  | nil => have := List.drop_eq_nil_iff.mp hd; omega
  | cons c r => exact ⟨c, r, rfl⟩

/-- the run-extending loop does not look behind the first `size` cells -/
theorem extendRun_append (l more : List Cell) (hsc : ∀ c ∈ l, c.isScalar = true) (delta : Option Cell) :
    ∀ (fuel skipped k : Nat), skipped < l.length →
      extendRun fuel (l ++ more) l.length delta skipped k = extendRun fuel l l.length delta skipped k := by
  intro fuel
  induction fuel with
  | zero => intro s k _; simp [extendRun]
  | succ f ih =>
    intro s k hs
    obtain ⟨c, r, hd⟩ := drop_cons_of_lt l s hs
    have hc : c.isScalar = true := hsc c (List.mem_of_mem_drop (by rw [hd]; simp))
    have hne : l ≠ [] := by intro h; rw [h] at hs; simp at hs
    have hd' := drop_append_cons l more s c r hd
    rw [extendRun, extendRun]
    simp only [hd, hd', incsize_scalar c _ hc, bind, Except.bind, deref_cons']
    by_cases hn : s + 1 ≥ l.length
    · simp only [hn, ↓reduceIte]
    · have hlt : s + 1 < l.length := by omega
      obtain ⟨c2, r2, hd2⟩ := drop_cons_of_lt l (s + 1) hlt
      have hc2 : c2.isScalar = true := hsc c2 (List.mem_of_mem_drop (by rw [hd2]; simp))
      have hd2' := drop_append_cons l more (s + 1) c2 r2 hd2
      have hrai : rangeArgsIdentical (l ++ more) (c2 :: (r2 ++ more)) = rangeArgsIdentical l (c2 :: r2) := by
        cases l with
        | nil => exact absurd rfl hne
        | cons c0 l0 => exact rangeArgsIdentical_scalars c0 c2 _ _ _ _ (hsc c0 (by simp)) hc2
      simp only [hn, ↓reduceIte, hd2, hd2', eqSingle_append_right _ c2 _ r2 more hc2, deref_append_ne l more hne, hrai, deref_cons',
        ih (s + 1) (k + 1) hlt]

/-- `rtosc_convert_to_range` does not look behind the first `size` cells -/
theorem convertToRange_append (opt : POpt) (l more : List Cell) (hsc : ∀ c ∈ l, c.isScalar = true) :
    convertToRange opt (l ++ more) l.length = convertToRange opt l l.length := by
  by_cases h5 : l.length < rangeMin
  · unfold convertToRange
    simp only [h5, ↓reduceIte]
  · have h5' : 5 ≤ l.length := by unfold rangeMin at h5; omega
    have hne : l ≠ [] := by intro h; rw [h] at h5'; simp at h5'
    obtain ⟨c0, r0, hd0⟩ := drop_cons_of_lt l 0 (by omega)
    obtain ⟨c1, r1, hd1⟩ := drop_cons_of_lt l 1 (by omega)
    have hc0 : c0.isScalar = true := hsc c0 (List.mem_of_mem_drop (by rw [hd0]; simp))
    have hc1 : c1.isScalar = true := hsc c1 (List.mem_of_mem_drop (by rw [hd1]; simp))
    have hd1' := drop_append_cons l more 1 c1 r1 hd1
    simp only [List.drop_zero] at hd0
    have hder : deref l = .ok c0 := by rw [hd0]; rfl
    have hinc : incsize l = .ok 1 := by rw [hd0]; exact incsize_scalar c0 r0 hc0
    have hinc' : incsize (l ++ more) = .ok 1 := by rw [hd0]; exact incsize_scalar c0 _ hc0
    have hrai : rangeArgsIdentical (l ++ more) (c1 :: (r1 ++ more)) = rangeArgsIdentical l (c1 :: r1) := by
      rw [hd0]; exact rangeArgsIdentical_scalars c0 c1 _ _ _ _ hc0 hc1
    have htake : (l ++ more).take 1 = l.take 1 := by rw [hd0]; rfl
    unfold convertToRange
    simp only [h5, ↓reduceIte, deref_append_ne l more hne, hder, bind, Except.bind,
      countCommon_append c0.type l more l.length (Nat.le_refl _), hinc, hinc', hd1, hd1', hrai, deref_cons',
      extendRun_append l more hsc _ (l.length + 1) 1 1 (by omega), htake]

end Rtosc.Pretty
