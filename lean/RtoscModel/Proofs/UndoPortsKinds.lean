/-
  C15 — the scalar parameter macros of C14 satisfy `PortSem` (Proofs/UndoPorts.lean): per
  kind, what a message does to the field and which `/undo_change` replies it sends is taken
  from C14's theorems (`undo_event_iff_changed_*`, `stored_toggle`, `intCb_set_result`,
  `fltCb_set_result`, `optCb_int_result`, `dispatch_scalar_at_address`).
-/
import RtoscModel.Proofs.UndoPorts
import RtoscModel.Props.C14
namespace Rtosc.Undo
open Rtosc Rtosc.Param

/-! ### numbers -/

theorem s32_w32 (v : Int) (h : IntTy.i32.InRange v) : s32 (w32 v) = v := by
  unfold IntTy.InRange at h
  simp only [IntTy.min, IntTy.max] at h
  unfold s32 w32
  rw [UInt32.toNat_ofNat']
  have h0 : 0 ≤ v % 4294967296 := by omega
  have hn : ((v % 4294967296).toNat : Int) = v % 4294967296 := Int.toNat_of_nonneg h0
  have hp : (2 : Nat) ^ 32 = 4294967296 := by decide
  rw [hp]
  generalize (v % 4294967296).toNat = n at hn
  have : n % 4294967296 = n := by omega
  rw [this]
  split <;> omega

theorem w32_inj (a b : Int) (ha : IntTy.i32.InRange a) (hb : IntTy.i32.InRange b) (h : w32 a = w32 b) : a = b := by
  rw [← s32_w32 a ha, ← s32_w32 b hb, h]

theorem limit_idem_int (lo hi : Option Int) (v : Int) :
    limit intOps lo hi (limit intOps lo hi v) = limit intOps lo hi v := by
  cases lo <;> cases hi <;> simp only [limit, intOps, decide_eq_true_eq] <;> (repeat' split) <;> omega

def FltOK (b : UInt32) : Prop := isNaN b = false ∧ b ≠ 0x80000000
instance (b : UInt32) : Decidable (FltOK b) := by unfold FltOK; infer_instance

theorem fKey_inj (a b : UInt32) (ha : FltOK a) (hb : FltOK b) (h : fKey a = fKey b) : a = b := by
  have ha' : a.toNat ≠ 2147483648 := fun h' => ha.2 (UInt32.toNat_inj.mp h')
  have hb' : b.toNat ≠ 2147483648 := fun h' => hb.2 (UInt32.toNat_inj.mp h')
  apply UInt32.toNat_inj.mp
  unfold fKey at h
  have := a.toNat_lt
  have := b.toNat_lt
  simp only at h
  split at h <;> split at h <;> omega

theorem limit_idem_flt (lo hi : Option UInt32) (v : UInt32) (hv : isNaN v = false)
    (hlo : ∀ l, lo = some l → isNaN l = false) (hhi : ∀ h, hi = some h → isNaN h = false) :
    limit fltOps lo hi (limit fltOps lo hi v) = limit fltOps lo hi v := by
  cases lo with
  | none =>
    cases hi with
    | none => simp [limit]
    | some h =>
      have h2 := hhi h rfl
      simp only [limit, fltOps]
      by_cases c1 : fLt h v = true
      · simp only [c1, if_true]
        have : fLt h h = false := fltOps_ordered.lt_irrefl h
        simp [this]
      · simp [c1]
  | some l =>
    have h1 := hlo l rfl
    cases hi with
    | none =>
      simp only [limit, fltOps]
      by_cases c1 : fLt v l = true
      · simp only [c1, if_true]
        have : fLt l l = false := fltOps_ordered.lt_irrefl l
        simp [this]
      · simp [c1]
    | some h =>
      have h2 := hhi h rfl
      simp only [limit, fltOps]
      have e1 : ∀ a b, isNaN a = false → isNaN b = false → (fLt a b = true ↔ fKey a < fKey b) := by
        intro a b ha hb; rw [fLt_iff]; simp [ha, hb]
      have c4 : fLt l l = false := fltOps_ordered.lt_irrefl l
      have c5 : fLt h h = false := fltOps_ordered.lt_irrefl h
      by_cases c1 : fLt v l = true <;> by_cases c2 : fLt h l = true <;> by_cases c3 : fLt h v = true <;>
        simp only [c1, c2, c3, c4, c5, if_true, if_false, Bool.false_eq_true] <;>
        rw [e1 _ _ hv h1] at c1 <;> rw [e1 _ _ h2 h1] at c2 <;> rw [e1 _ _ h2 hv] at c3 <;> omega

/-! ### the table entries the theorems are about -/

/-- `data.port->meta()` of the entry's port -/
def pmOf (c : PStat) : Meta.Ptr := (Meta.container c.port.block).getD none

/-- the declared bounds as the integer callbacks read them (`atoi`) -/
def iLo (c : PStat) : Option Int :=
  match bound atoi (pmOf c) kMin with | .ok v => v | .error _ => none
def iHi (c : PStat) : Option Int :=
  match bound atoi (pmOf c) kMax with | .ok v => v | .error _ => none
/-- the declared bounds as the float callback reads them (`(float) atof`) -/
def fLo (c : PStat) : Option UInt32 :=
  match bound atofF32 (pmOf c) kMin with | .ok v => v | .error _ => none
def fHi (c : PStat) : Option UInt32 :=
  match bound atofF32 (pmOf c) kMax with | .ok v => v | .error _ => none

/-- the type specification the macro writes behind the port's name
    (`::c`, `::i`, `::f`, `::i:c:S`, `::T:F`; the first `:` is written by `PortOK.pat`) -/
def specOf : Kind → Bytes
  | .param => [58, 99]
  | .paramI => [58, 105]
  | .paramF => [58, 102]
  | .option => [58, 105, 58, 99, 58, 83]
  | .toggle => [58, 84, 58, 70]
  | _ => []

/-- per kind: the metadata can be read by the callback and the declared range is one C14's
    clamping theorems cover (integer kinds: it meets the type of the callback's variable;
    options: it lies inside the storage type; floats: no NaN and no negative zero bound) -/
def KindOK (c : PStat) : Prop :=
  match c.port.kind with
  | .param | .paramI =>
    bound atoi (pmOf c) kMin = .ok (iLo c) ∧ bound atoi (pmOf c) kMax = .ok (iHi c) ∧
    (∀ l, iLo c = some l → l ≤ c.port.ty.max) ∧ (∀ h, iHi c = some h → c.port.ty.min ≤ h) ∧
    (∀ l h, iLo c = some l → iHi c = some h → l ≤ h)
  | .option =>
    bound atoi (pmOf c) kMin = .ok (iLo c) ∧ bound atoi (pmOf c) kMax = .ok (iHi c) ∧
    (∀ l, iLo c = some l → c.port.ty.InRange l) ∧ (∀ h, iHi c = some h → c.port.ty.InRange h)
  | .paramF =>
    bound atofF32 (pmOf c) kMin = .ok (fLo c) ∧ bound atofF32 (pmOf c) kMax = .ok (fHi c) ∧
    (∀ l, fLo c = some l → FltOK l) ∧ (∀ h, fHi c = some h → FltOK h)
  | .toggle => True
  | _ => False

/-- a macro-generated scalar port (`rParam`, `rParamI`, `rParamF`, `rOption`, `rToggle`) at an
    address that is not "/undo_change" and fits the history's message buffer -/
structure PortOK (c : PStat) : Prop where
  pat : c.port.pattern = c.path ++ 58 :: specOf c.port.kind
  name : PlainName c.path
  blk : Meta.container c.port.block = some (pmOf c)
  notUndo : c.loc ≠ undoAddr
  fit : fits c.loc = true
  kind : KindOK c

def StableI (ty : IntTy) (lo hi : Option Int) : Field → Prop
  | .ints [x] => ty.InRange x ∧ limit intOps lo hi x = x
  | _ => False

def StableF (lo hi : Option UInt32) : Field → Prop
  | .flts [b] => FltOK b ∧ limit fltOps lo hi b = b
  | _ => False

def StableT : Field → Prop
  | .bools [_] => True
  | _ => False

/-- **stable field value**: a value of the storage type that the declared range does not
    move (what every set message leaves behind; for a float also: neither NaN nor -0) -/
def Stable (c : PStat) (f : Field) : Prop :=
  match c.port.kind with
  | .param | .paramI | .option => StableI c.port.ty (iLo c) (iHi c) f
  | .paramF => StableF (fLo c) (fHi c) f
  | .toggle => StableT f
  | _ => False

/-- **messages in the domain**: a query, or a first argument of the port's type (further
    arguments are arbitrary); options: an integer of the storage type; floats: neither NaN nor -0 -/
def ArgsOK (c : PStat) (args : List Arg) : Prop :=
  match c.port.kind with
  | .param | .paramI => args = [] ∨ ∃ a rest raw, args = a :: rest ∧ argI a = .ok raw
  | .option => args = [] ∨ ∃ a rest raw, args = a :: rest ∧ (a = .i raw ∨ a = .c raw) ∧ c.port.ty.InRange raw
  | .paramF => args = [] ∨ ∃ rest b, args = .f b :: rest ∧ FltOK b
  | .toggle => args = [] ∨ ∃ a rest v, args = a :: rest ∧ argT a = .ok v
  | _ => False

theorem stableI_iff (ty : IntTy) (lo hi : Option Int) (f : Field) :
    StableI ty lo hi f ↔ ∃ x, f = .ints [x] ∧ ty.InRange x ∧ limit intOps lo hi x = x := by
  cases f with
  | ints xs =>
    cases xs with
    | nil => simp [StableI]
    | cons x r => cases r <;> simp [StableI]
  | _ => simp [StableI]

theorem stableF_iff (lo hi : Option UInt32) (f : Field) :
    StableF lo hi f ↔ ∃ b, f = .flts [b] ∧ FltOK b ∧ limit fltOps lo hi b = b := by
  cases f with
  | flts xs =>
    cases xs with
    | nil => simp [StableF]
    | cons x r => cases r <;> simp [StableF]
  | _ => simp [StableF]

theorem stableT_iff (f : Field) : StableT f ↔ ∃ b, f = .bools [b] := by
  cases f with
  | bools xs =>
    cases xs with
    | nil => simp [StableT]
    | cons x r => cases r <;> simp [StableT]
  | _ => simp [StableT]

/-! ### dispatch to the port's own address -/

theorem dispatch_cases (c : PStat) (h : PortOK c) (f : Field) (args : List Arg) :
    Param.dispatch c.port c.pfx c.path f args = .ok none ∨
    Param.dispatch c.port c.pfx c.path f args =
      match callback c.port c.loc c.path f args with
      | .error e => .error e
      | .ok r => .ok (some r) := by
  cases hm : matchArgs ((58 :: specOf c.port.kind).length + 2) (58 :: specOf c.port.kind) (args.map Arg.tag) with
  | true => exact Or.inr ((dispatch_scalar_at_address c.port c.path _ c.pfx c.path f args h.pat h.name).2 rfl hm)
  | false =>
    left
    simp only [Param.dispatch, h.pat, portMatches_scalar c.path _ c.path _ h.name, decide_true, Bool.true_and, hm]

theorem dispatch_accept (c : PStat) (h : PortOK c) (f : Field) (args : List Arg)
    (hm : matchArgs ((58 :: specOf c.port.kind).length + 2) (58 :: specOf c.port.kind) (args.map Arg.tag) = true) :
    Param.dispatch c.port c.pfx c.path f args =
      match callback c.port c.loc c.path f args with
      | .error e => .error e
      | .ok r => .ok (some r) :=
  (dispatch_scalar_at_address c.port c.path _ c.pfx c.path f args h.pat h.name).2 rfl hm

/-! ### `/undo_change` replies -/

theorem undoReplies_of_undoEvents (ev L : List Param.Event) (h : undoEvents ev = L)
    (hL : ∀ e ∈ L, e.bcast = false) : undoReplies ev = L := by
  have : undoReplies ev = (undoEvents ev).filter (fun e => !e.bcast) := by
    simp only [undoReplies, undoEvents, List.filter_filter]
    try (congr 1; funext e; exact Bool.and_comm _ _)
  rw [this, h, List.filter_eq_self]
  intro e he; simp [hL e he]

theorem undoReplies_query (loc : Bytes) (args : List Arg) (hloc : loc ≠ undoAddr) :
    undoReplies [reply loc args] = [] := by
  have : (loc == undoAddr) = false := by simpa using hloc
  simp [undoReplies, reply, this]

theorem undoReplies_bcast (loc : Bytes) (args : List Arg) :
    undoReplies [broadcast loc args] = [] := by
  simp [undoReplies, broadcast]


/-! ### integer ports (rParam, rParamI): C14's `intCb` -/

/-- what a set message does on an integer port, from C14's `intCb_set_result`,
    `stored_int_in_var_type` and `undo_event_iff_changed_int` -/
theorem intCb_sem (ty : IntTy) (tagf : Int → Arg) (tg : UInt8)
    (htp : ∀ v, payload (tagf v) = some (w32 v)) (htt : ∀ v, (tagf v).tag = tg)
    (pm : Meta.Ptr) (loc : Bytes) (old raw : Int) (a : Arg) (rest : List Arg) (lo hi : Option Int)
    (harg : argI a = .ok raw) (hold : ty.InRange old) (hloc : loc ≠ undoAddr)
    (hmn : bound atoi pm kMin = .ok lo) (hmx : bound atoi pm kMax = .ok hi)
    (hlo : ∀ l, lo = some l → l ≤ ty.max) (hhi : ∀ h, hi = some h → ty.min ≤ h)
    (hord : ∀ l h, lo = some l → hi = some h → l ≤ h) :
    ∃ new ev, intCb ty ty tagf pm loc old (a :: rest) = .ok (new, ev) ∧
      new = limit intOps lo hi (ty.wrap raw) ∧ ty.InRange new ∧
      decodeAll (undoReplies ev) =
        some (if w32 new ≠ w32 old then [⟨loc, tg, w32 old, w32 new⟩] else []) := by
  have htot : ∃ new ev, intCb ty ty tagf pm loc old (a :: rest) = .ok (new, ev) := by
    simp only [intCb, harg, hmn, hmx, bind, Except.bind, pure, Except.pure]
    exact ⟨_, _, rfl⟩
  obtain ⟨new, ev, hres⟩ := htot
  have hsr := intCb_set_result ty ty tagf pm loc old raw new a rest lo hi ev harg (IntTy.sub_refl _) hmn hmx hres
  have hin : ty.InRange new :=
    stored_int_in_var_type ty ty tagf pm loc old raw new a rest ev harg (IntTy.sub_refl _) hres
  have hnew : new = limit intOps lo hi (ty.wrap raw) := by
    rw [hsr.1, limitInt_eq_limit ty lo hi _ (IntTy.wrap_inRange ty raw) hlo hhi hord]
  have hue := undo_event_iff_changed_int ty ty tagf pm loc old raw new a rest lo hi ev harg
    (IntTy.sub_refl _) hold hloc hmn hmx hres
  refine ⟨new, ev, hres, hnew, hin, ?_⟩
  have h32o := (IntTy.sub_i32 ty).inRange hold
  have h32n := (IntTy.sub_i32 ty).inRange hin
  by_cases hc : new = old
  · rw [if_neg (by simpa using hc)] at hue
    rw [undoReplies_of_undoEvents ev [] hue (by simp), hc]
    simp [decodeAll]
  · rw [if_pos hc] at hue
    rw [undoReplies_of_undoEvents ev _ hue (by simp [reply])]
    have hw : w32 new ≠ w32 old := fun h => hc (w32_inj new old h32n h32o h)
    simp [decodeAll, decodeUndo, reply, htp, htt, hw]

theorem int_portSem (c : PStat) (h : PortOK c) (tagf : Int → Arg) (tg : UInt8)
    (htp : ∀ v, payload (tagf v) = some (w32 v)) (htt : ∀ v, (tagf v).tag = tg)
    (hai : ∀ v, argI (tagf v) = .ok v)
    (hcb : ∀ x args new ev, intCb c.port.ty c.port.ty tagf (pmOf c) c.loc x args = .ok (new, ev) →
      callback c.port c.loc c.path (.ints [x]) args = .ok (.ints [new], ev))
    (hq : ∀ x, ∃ ra, intCb c.port.ty c.port.ty tagf (pmOf c) c.loc x [] = .ok (x, [reply c.loc ra]))
    (hmatch : matchArgs ((58 :: specOf c.port.kind).length + 2) (58 :: specOf c.port.kind) [tg] = true)
    (hmsg : ∀ w, msgArg ⟨c.loc, tg, w⟩ = some (tagf (s32 w)))
    (htag : c.tag = tg) (hun : c.undoable = true)
    (hst : ∀ f, Stable c f ↔ StableI c.port.ty (iLo c) (iHi c) f)
    (hao : ∀ args, ArgsOK c args ↔ (args = [] ∨ ∃ a rest raw, args = a :: rest ∧ argI a = .ok raw))
    (hk : bound atoi (pmOf c) kMin = .ok (iLo c) ∧ bound atoi (pmOf c) kMax = .ok (iHi c) ∧
      (∀ l, iLo c = some l → l ≤ c.port.ty.max) ∧ (∀ h, iHi c = some h → c.port.ty.min ≤ h) ∧
      (∀ l h, iLo c = some l → iHi c = some h → l ≤ h)) :
    PortSem Stable ArgsOK c := by
  obtain ⟨hmn, hmx, hlo, hhi, hord⟩ := hk
  refine ⟨?_, ?_, fun _ => h.fit⟩
  · intro f args hf hargs
    obtain ⟨x, rfl, hx1, hx2⟩ := (stableI_iff _ _ _ _).mp ((hst f).mp hf)
    rcases dispatch_cases c h (.ints [x]) args with hd | hd
    · exact Or.inl hd
    · right
      rcases (hao args).mp hargs with rfl | ⟨a, rest, raw, rfl, harg⟩
      · obtain ⟨ra, hqx⟩ := hq x
        refine ⟨.ints [x], _, by rw [hd, hcb x [] x _ hqx], hf, ?_⟩
        rw [undoReplies_query _ _ h.notUndo]
        simp [decodeAll]
      · obtain ⟨new, ev, hres, hnew, hin, hdec⟩ :=
          intCb_sem c.port.ty tagf tg htp htt (pmOf c) c.loc x raw a rest (iLo c) (iHi c) harg hx1
            h.notUndo hmn hmx hlo hhi hord
        refine ⟨.ints [new], ev, by rw [hd, hcb x _ new ev hres], ?_, ?_⟩
        · refine (hst _).mpr ((stableI_iff _ _ _ _).mpr ⟨new, rfl, hin, ?_⟩)
          rw [hnew, limit_idem_int]
        · rw [hdec, htag]
          simp [encFld, hun]
  · intro _ f v hf hv
    obtain ⟨x, rfl, hx1, hx2⟩ := (stableI_iff _ _ _ _).mp ((hst f).mp hf)
    obtain ⟨w, rfl, hw1, hw2⟩ := (stableI_iff _ _ _ _).mp ((hst v).mp hv)
    have h32 := (IntTy.sub_i32 c.port.ty).inRange hw1
    obtain ⟨new, ev, hres, hnew, hin, _⟩ :=
      intCb_sem c.port.ty tagf tg htp htt (pmOf c) c.loc x w (tagf w) [] (iLo c) (iHi c) (hai w) hx1
        h.notUndo hmn hmx hlo hhi hord
    have hnw : new = w := by rw [hnew, IntTy.wrap_of_inRange _ _ hw1, hw2]
    subst hnw
    refine ⟨tagf new, ev, by rw [htag]; simp only [encFld]; rw [hmsg, s32_w32 _ h32], ?_⟩
    rw [dispatch_accept c h _ _ (by simpa [htt] using hmatch), hcb x _ new ev hres]

def tagFn : Kind → Int → Arg
  | .param => Arg.c
  | _ => Arg.i

theorem param_portSem (c : PStat) (h : PortOK c) (hk : c.port.kind = .param) : PortSem Stable ArgsOK c := by
  have hko := h.kind
  simp only [KindOK, hk] at hko
  refine int_portSem c h Arg.c 99 (fun _ => rfl) (fun _ => rfl) (fun _ => rfl) ?_ ?_ ?_ ?_ ?_ ?_ ?_ ?_ hko
  · intro x args new ev hr
    simp only [callback, h.blk, hk, rParamCb, hr]; rfl
  · intro x; exact ⟨_, rfl⟩
  · rw [hk]; decide
  · intro w; rfl
  · simp [PStat.tag, hk]
  · simp [PStat.undoable, hk]
  · intro f; simp only [Stable, hk]
  · intro args; simp only [ArgsOK, hk]

theorem paramI_portSem (c : PStat) (h : PortOK c) (hk : c.port.kind = .paramI) : PortSem Stable ArgsOK c := by
  have hko := h.kind
  simp only [KindOK, hk] at hko
  refine int_portSem c h Arg.i 105 (fun _ => rfl) (fun _ => rfl) (fun _ => rfl) ?_ ?_ ?_ ?_ ?_ ?_ ?_ ?_ hko
  · intro x args new ev hr
    simp only [callback, h.blk, hk, rParamICb, hr]; rfl
  · intro x; exact ⟨_, rfl⟩
  · rw [hk]; decide
  · intro w; rfl
  · simp [PStat.tag, hk]
  · simp [PStat.undoable, hk]
  · intro f; simp only [Stable, hk]
  · intro args; simp only [ArgsOK, hk]


/-! ### float ports (rParamF): C14's `fltCb` -/

theorem fltCb_sem (pm : Meta.Ptr) (loc : Bytes) (old raw : UInt32) (rest : List Arg) (lo hi : Option UInt32)
    (hold : FltOK old) (hraw : FltOK raw) (hloc : loc ≠ undoAddr)
    (hmn : bound atofF32 pm kMin = .ok lo) (hmx : bound atofF32 pm kMax = .ok hi)
    (hlo : ∀ l, lo = some l → FltOK l) (hhi : ∀ h, hi = some h → FltOK h) :
    ∃ new ev, fltCb pm loc old (.f raw :: rest) = .ok (new, ev) ∧
      new = limit fltOps lo hi raw ∧ FltOK new ∧
      decodeAll (undoReplies ev) = some (if new ≠ old then [⟨loc, 102, old, new⟩] else []) := by
  have htot : ∃ new ev, fltCb pm loc old (.f raw :: rest) = .ok (new, ev) := by
    simp only [fltCb, argF, hmn, hmx, bind, Except.bind, pure, Except.pure]
    exact ⟨_, _, rfl⟩
  obtain ⟨new, ev, hres⟩ := htot
  have hsr := fltCb_set_result pm loc old raw new (.f raw) rest lo hi ev rfl hmn hmx hres
  have hok : FltOK new := by
    rcases limit_cases fltOps lo hi raw with h | h | h
    · rw [hsr.1, h]; exact hraw
    · rw [hsr.1]; exact hlo _ h
    · rw [hsr.1]; exact hhi _ h
  have hue := undo_event_iff_changed_float pm loc old raw new (.f raw) rest lo hi ev rfl hloc hold.1 hraw.1
    hmn hmx (fun l hl => (hlo l hl).1) (fun h hh => (hhi h hh).1) hres
  refine ⟨new, ev, hres, hsr.1, hok, ?_⟩
  by_cases hc : new = old
  · rw [if_neg (by rw [hc]; simp)] at hue
    rw [undoReplies_of_undoEvents ev [] hue (by simp), hc]
    simp [decodeAll]
  · have hk : fKey new ≠ fKey old := fun h => hc (fKey_inj new old hok hold h)
    rw [if_pos hk] at hue
    rw [undoReplies_of_undoEvents ev _ hue (by simp [reply])]
    simp [decodeAll, decodeUndo, reply, payload, Arg.tag, hc]

theorem paramF_portSem (c : PStat) (h : PortOK c) (hk : c.port.kind = .paramF) : PortSem Stable ArgsOK c := by
  have hko := h.kind
  simp only [KindOK, hk] at hko
  obtain ⟨hmn, hmx, hlo, hhi⟩ := hko
  have hun : c.undoable = true := by simp [PStat.undoable, hk]
  have htag : c.tag = 102 := by simp [PStat.tag, hk]
  have hcb : ∀ x args new ev, fltCb (pmOf c) c.loc x args = .ok (new, ev) →
      callback c.port c.loc c.path (.flts [x]) args = .ok (.flts [new], ev) := by
    intro x args new ev hr
    simp only [callback, h.blk, hk, rParamFCb, hr]; rfl
  refine ⟨?_, ?_, fun _ => h.fit⟩
  · intro f args hf hargs
    simp only [Stable, hk] at hf
    obtain ⟨x, rfl, hx1, hx2⟩ := (stableF_iff _ _ _).mp hf
    rcases dispatch_cases c h (.flts [x]) args with hd | hd
    · exact Or.inl hd
    · right
      simp only [ArgsOK, hk] at hargs
      rcases hargs with rfl | ⟨rest, b, rfl, hb⟩
      · refine ⟨.flts [x], _, by rw [hd, hcb x [] x _ rfl], by simp only [Stable, hk]; exact hf, ?_⟩
        rw [undoReplies_query _ _ h.notUndo]
        simp [decodeAll]
      · obtain ⟨new, ev, hres, hnew, hok, hdec⟩ :=
          fltCb_sem (pmOf c) c.loc x b rest (fLo c) (fHi c) hx1 hb h.notUndo hmn hmx hlo hhi
        refine ⟨.flts [new], ev, by rw [hd, hcb x _ new ev hres], ?_, ?_⟩
        · simp only [Stable, hk]
          refine (stableF_iff _ _ _).mpr ⟨new, rfl, hok, ?_⟩
          rw [hnew, limit_idem_flt _ _ _ hb.1 (fun l hl => (hlo l hl).1) (fun h hh => (hhi h hh).1)]
        · rw [hdec, htag]
          simp [encFld, hun]
  · intro _ f v hf hv
    simp only [Stable, hk] at hf hv
    obtain ⟨x, rfl, hx1, hx2⟩ := (stableF_iff _ _ _).mp hf
    obtain ⟨w, rfl, hw1, hw2⟩ := (stableF_iff _ _ _).mp hv
    obtain ⟨new, ev, hres, hnew, _, _⟩ :=
      fltCb_sem (pmOf c) c.loc x w [] (fLo c) (fHi c) hx1 hw1 h.notUndo hmn hmx hlo hhi
    have hnw : new = w := by rw [hnew, hw2]
    subst hnw
    refine ⟨.f new, ev, by rw [htag]; rfl, ?_⟩
    rw [dispatch_accept c h _ _ (by rw [hk]; simp only [List.map, Arg.tag]; decide), hcb x _ new ev hres]

/-! ### option ports (rOption, integer argument): C14's `optCb` -/

theorem optCb_sem (ty : IntTy) (pm : Meta.Ptr) (loc : Bytes) (old raw : Int) (a : Arg) (rest : List Arg)
    (lo hi : Option Int) (harg : a = .i raw ∨ a = .c raw) (hraw : ty.InRange raw) (hold : ty.InRange old)
    (hloc : loc ≠ undoAddr)
    (hmn : bound atoi pm kMin = .ok lo) (hmx : bound atoi pm kMax = .ok hi)
    (hlo : ∀ l, lo = some l → ty.InRange l) (hhi : ∀ h, hi = some h → ty.InRange h) :
    ∃ new ev, optCb ty pm loc old (a :: rest) = .ok (new, ev) ∧
      new = limit intOps lo hi raw ∧ ty.InRange new ∧
      decodeAll (undoReplies ev) =
        some (if w32 new ≠ w32 old then [⟨loc, 105, w32 old, w32 new⟩] else []) := by
  have htot : ∃ new ev, optCb ty pm loc old (a :: rest) = .ok (new, ev) := by
    rcases harg with rfl | rfl <;>
      simp only [optCb, argI, hmn, hmx, bind, Except.bind, pure, Except.pure] <;> exact ⟨_, _, rfl⟩
  obtain ⟨new, ev, hres⟩ := htot
  have hsr := optCb_int_result ty pm loc old raw new a rest lo hi ev harg hraw hmn hmx hlo hhi hres
  have hin : ty.InRange new := by rw [hsr.1]; exact limit_inRange ty lo hi raw hraw hlo hhi
  have h32o := (IntTy.sub_i32 ty).inRange hold
  have h32n := (IntTy.sub_i32 ty).inRange hin
  have hue := undo_event_iff_changed_option ty pm loc old raw new a rest lo hi ev harg hraw h32o hloc
    hmn hmx hlo hhi hres
  refine ⟨new, ev, hres, hsr.1, hin, ?_⟩
  by_cases hc : new = old
  · rw [if_neg (by simpa using hc)] at hue
    rw [undoReplies_of_undoEvents ev [] hue (by simp), hc]
    simp [decodeAll]
  · rw [if_pos hc] at hue
    rw [undoReplies_of_undoEvents ev _ hue (by simp [reply])]
    have hw : w32 new ≠ w32 old := fun h => hc (w32_inj new old h32n h32o h)
    simp [decodeAll, decodeUndo, reply, payload, Arg.tag, hw]

theorem option_portSem (c : PStat) (h : PortOK c) (hk : c.port.kind = .option) : PortSem Stable ArgsOK c := by
  have hko := h.kind
  simp only [KindOK, hk] at hko
  obtain ⟨hmn, hmx, hlo, hhi⟩ := hko
  have hun : c.undoable = true := by simp [PStat.undoable, hk]
  have htag : c.tag = 105 := by simp [PStat.tag, hk]
  have hcb : ∀ x args new ev, optCb c.port.ty (pmOf c) c.loc x args = .ok (new, ev) →
      callback c.port c.loc c.path (.ints [x]) args = .ok (.ints [new], ev) := by
    intro x args new ev hr
    simp only [callback, h.blk, hk, rOptionCb, hr]; rfl
  refine ⟨?_, ?_, fun _ => h.fit⟩
  · intro f args hf hargs
    simp only [Stable, hk] at hf
    obtain ⟨x, rfl, hx1, hx2⟩ := (stableI_iff _ _ _ _).mp hf
    rcases dispatch_cases c h (.ints [x]) args with hd | hd
    · exact Or.inl hd
    · right
      simp only [ArgsOK, hk] at hargs
      rcases hargs with rfl | ⟨a, rest, raw, rfl, harg, hraw⟩
      · refine ⟨.ints [x], _, by rw [hd, hcb x [] x _ rfl], by simp only [Stable, hk]; exact hf, ?_⟩
        rw [undoReplies_query _ _ h.notUndo]
        simp [decodeAll]
      · obtain ⟨new, ev, hres, hnew, hin, hdec⟩ :=
          optCb_sem c.port.ty (pmOf c) c.loc x raw a rest (iLo c) (iHi c) harg hraw hx1 h.notUndo hmn hmx hlo hhi
        refine ⟨.ints [new], ev, by rw [hd, hcb x _ new ev hres], ?_, ?_⟩
        · simp only [Stable, hk]
          refine (stableI_iff _ _ _ _).mpr ⟨new, rfl, hin, ?_⟩
          rw [hnew, limit_idem_int]
        · rw [hdec, htag]
          simp [encFld, hun]
  · intro _ f v hf hv
    simp only [Stable, hk] at hf hv
    obtain ⟨x, rfl, hx1, hx2⟩ := (stableI_iff _ _ _ _).mp hf
    obtain ⟨w, rfl, hw1, hw2⟩ := (stableI_iff _ _ _ _).mp hv
    have h32 := (IntTy.sub_i32 c.port.ty).inRange hw1
    obtain ⟨new, ev, hres, hnew, _, _⟩ :=
      optCb_sem c.port.ty (pmOf c) c.loc x w (.i w) [] (iLo c) (iHi c) (Or.inl rfl) hw1 hx1 h.notUndo hmn hmx hlo hhi
    have hnw : new = w := by rw [hnew, hw2]
    subst hnw
    refine ⟨.i new, ev, ?_, ?_⟩
    · rw [htag]; simp only [encFld]
      show some (Arg.i (s32 (w32 new))) = _
      rw [s32_w32 _ h32]
    · rw [dispatch_accept c h _ _ (by rw [hk]; simp only [List.map, Arg.tag]; decide), hcb x _ new ev hres]

/-! ### toggle ports (rToggle): no `rCAPPLY`, no `/undo_change` event -/

theorem toggle_portSem (c : PStat) (h : PortOK c) (hk : c.port.kind = .toggle) : PortSem Stable ArgsOK c := by
  have hun : c.undoable = false := by simp [PStat.undoable, hk]
  have hcb : ∀ x args new ev, rToggleCb c.loc x args = .ok (new, ev) →
      callback c.port c.loc c.path (.bools [x]) args = .ok (.bools [new], ev) := by
    intro x args new ev hr
    simp only [callback, h.blk, hk, hr]; rfl
  refine ⟨?_, (fun hu => by rw [hun] at hu; cases hu), (fun hu => by rw [hun] at hu; cases hu)⟩
  intro f args hf hargs
  simp only [Stable, hk] at hf
  obtain ⟨x, rfl⟩ := (stableT_iff _).mp hf
  rcases dispatch_cases c h (.bools [x]) args with hd | hd
  · exact Or.inl hd
  · right
    simp only [ArgsOK, hk] at hargs
    rcases hargs with rfl | ⟨a, rest, v, rfl, harg⟩
    · refine ⟨.bools [x], _, by rw [hd, hcb x [] x _ rfl], by simp only [Stable, hk]; exact hf, ?_⟩
      rw [undoReplies_query _ _ h.notUndo]
      simp [decodeAll, hun]
    · have hr := (stored_toggle c.loc x v a rest harg).1
      refine ⟨.bools [v], _, by rw [hd, hcb x _ v _ hr], by simp only [Stable, hk]; exact (stableT_iff _).mpr ⟨v, rfl⟩, ?_⟩
      by_cases hxv : x = v
      · simp [hxv, undoReplies, decodeAll, hun]
      · simp [hxv, undoReplies_bcast, decodeAll, hun]

/-- every macro-generated scalar port in the domain satisfies `PortSem` -/
theorem portSem_of_portOK (c : PStat) (h : PortOK c) : PortSem Stable ArgsOK c := by
  have hko := h.kind
  cases hk : c.port.kind with
  | param => exact param_portSem c h hk
  | paramI => exact paramI_portSem c h hk
  | paramF => exact paramF_portSem c h hk
  | option => exact option_portSem c h hk
  | toggle => exact toggle_portSem c h hk
  | _ => simp [KindOK, hk] at hko


/-- on the stable values of an undoable port the 4-byte encoding determines the field -/
theorem encFld_inj (c : PStat) (hu : c.undoable = true) (f g : Field) (hf : Stable c f) (hg : Stable c g)
    (h : encFld f = encFld g) : f = g := by
  have hint : ∀ f g, StableI c.port.ty (iLo c) (iHi c) f → StableI c.port.ty (iLo c) (iHi c) g →
      encFld f = encFld g → f = g := by
    intro f g hf hg h
    obtain ⟨x, rfl, hx, _⟩ := (stableI_iff _ _ _ _).mp hf
    obtain ⟨y, rfl, hy, _⟩ := (stableI_iff _ _ _ _).mp hg
    have := w32_inj x y ((IntTy.sub_i32 _).inRange hx) ((IntTy.sub_i32 _).inRange hy) h
    rw [this]
  cases hk : c.port.kind <;> simp only [Stable, hk] at hf hg <;> simp [PStat.undoable, hk] at hu
  · exact hint f g hf hg h
  · obtain ⟨x, rfl, _, _⟩ := (stableF_iff _ _ _).mp hf
    obtain ⟨y, rfl, _, _⟩ := (stableF_iff _ _ _).mp hg
    have : x = y := h
    rw [this]
  · exact hint f g hf hg h
  · exact hint f g hf hg h

/-! ### helpers for checking `PortOK` on a concrete port by evaluation -/

theorem blk_of_isSome (c : PStat) (h : (Meta.container c.port.block).isSome = true) :
    Meta.container c.port.block = some (pmOf c) := by
  unfold pmOf
  cases hc : Meta.container c.port.block with
  | none => rw [hc] at h; cases h
  | some pm => rfl

theorem iLo_ok (c : PStat) (v : Option Int) (h : (bound atoi (pmOf c) kMin).toOption = some v) :
    bound atoi (pmOf c) kMin = .ok (iLo c) ∧ iLo c = v := by
  unfold iLo
  cases hb : bound atoi (pmOf c) kMin with
  | error e => rw [hb] at h; cases h
  | ok w => rw [hb] at h; simp [Except.toOption] at h; subst h; exact ⟨rfl, rfl⟩

theorem iHi_ok (c : PStat) (v : Option Int) (h : (bound atoi (pmOf c) kMax).toOption = some v) :
    bound atoi (pmOf c) kMax = .ok (iHi c) ∧ iHi c = v := by
  unfold iHi
  cases hb : bound atoi (pmOf c) kMax with
  | error e => rw [hb] at h; cases h
  | ok w => rw [hb] at h; simp [Except.toOption] at h; subst h; exact ⟨rfl, rfl⟩

theorem fLo_ok (c : PStat) (v : Option UInt32) (h : (bound atofF32 (pmOf c) kMin).toOption = some v) :
    bound atofF32 (pmOf c) kMin = .ok (fLo c) ∧ fLo c = v := by
  unfold fLo
  cases hb : bound atofF32 (pmOf c) kMin with
  | error e => rw [hb] at h; cases h
  | ok w => rw [hb] at h; simp [Except.toOption] at h; subst h; exact ⟨rfl, rfl⟩

theorem fHi_ok (c : PStat) (v : Option UInt32) (h : (bound atofF32 (pmOf c) kMax).toOption = some v) :
    bound atofF32 (pmOf c) kMax = .ok (fHi c) ∧ fHi c = v := by
  unfold fHi
  cases hb : bound atofF32 (pmOf c) kMax with
  | error e => rw [hb] at h; cases h
  | ok w => rw [hb] at h; simp [Except.toOption] at h; subst h; exact ⟨rfl, rfl⟩

end Rtosc.Undo
