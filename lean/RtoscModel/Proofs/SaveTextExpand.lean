/-
  C12, text level — what the dispatch loop of `dispatch_printed_messages` takes out of the scanned
  cells of an array with compressed runs: `rtosc_arg_val_itr` (C16's model `ArgVal.iterate`)
  expands the repetition blocks `5x7` and the range blocks `1 ... 6` back to the values the
  printer was given.  C16's bridge (`iterate_cur`: the iterator on a flat layout yields the values
  of the specification `expandList`) and C10's `expandList_itemsAll` / `flatList_itemsAll` (the
  scanned cells of a list of segments are the flat layout of items that expand to the original
  values) are composed.
-/
import RtoscModel.Save.Text
import RtoscModel.Proofs.ArgValBridge
import RtoscModel.Proofs.PrettyRunsExtItems
set_option linter.unusedSimpArgs false
set_option linter.unusedVariables false
namespace Rtosc.Save.Text
open Rtosc Rtosc.Libc Rtosc.Pretty
open Rtosc.ArgVal (Cell)

theorem mapM_headCell_allDenote : ∀ (cs : List Cell) (ps : List (List Cell)),
    ArgVal.AllDenote ps (cs.map ArgVal.Val.sc) → ps.mapM headCell = .ok cs
  | [], ps, h => by
    cases h
    rfl
  | c :: r, ps, h => by
    simp only [List.map_cons] at h
    cases h with
    | cons hd hr =>
      have ih := mapM_headCell_allDenote r _ hr
      cases hd with
      | sc _ rest _ =>
        simp only [List.mapM_cons, headCell, ih, bind, Except.bind, pure, Except.pure]

/-- the iteration bound of Save/Text.lean covers the expansion of the scanned cells -/
theorem iterFuel_scannedAll : ∀ (segs : List RSeg) (L : Option Cell),
    (cellsAll segs).length + 1 ≤ iterFuel (scannedAll L segs)
  | [], L => by simp [cellsAll, scannedAll, iterFuel]
  | s :: r, L => by
    have ih := iterFuel_scannedAll r (some s.last)
    have happ : ∀ (a b : List Cell), iterFuel (a ++ b) + 1 = iterFuel a + iterFuel b := by
      intro a b
      induction a with
      | nil => simp [iterFuel]; omega
      | cons c a iha => cases c <;> simp only [List.cons_append, iterFuel] <;> omega
    have hs : (s.cells).length + 1 ≤ iterFuel (s.scanned L) := by
      cases s with
      | tok c => cases c <;> simp [RSeg.cells, RSeg.scanned, iterFuel]
      | crun n c => cases c <;> simp [RSeg.cells, RSeg.scanned, iterFuel] <;> omega
      | irun a d n =>
        simp only [RSeg.cells, RSeg.scanned, arithRun_length]
        split <;> simp [iterFuel] <;> omega
    have := happ (s.scanned L) (scannedAll (some s.last) r)
    simp only [cellsAll, scannedAll, List.length_append]
    omega

/-- **the dispatch loop's iterator expands the scanned cells of a list of segments to the original
    values** -/
theorem expandCells_scannedAll {opt : POpt} {segs : List RSeg} (h : Segmented opt segs) :
    expandCells (scannedAll none segs) = .ok (cellsAll segs) := by
  have hflat := flatList_itemsAll h none
  have hexp := expandList_itemsAll h none
  have hcur := ArgVal.cur_init (itemsAll none segs) [] _ hexp
  simp only [List.append_nil, hflat] at hcur
  obtain ⟨ps, hps, hden⟩ := ArgVal.iterate_cur _ (iterFuel (scannedAll none segs)) _ _ hcur
    (by simpa using iterFuel_scannedAll segs none)
  unfold expandCells
  simp only [hps, liftAV, bind, Except.bind]
  exact mapM_headCell_allDenote _ _ hden

end Rtosc.Save.Text
