/-
  C09 helper lemmas, part 4: `bundle_foreach`, `walk_ports_recurse0` and the induction over
  the port tree.  Main result: `walkList_spec` / `walkPort_spec` — on a well-formed tree, in a
  buffer that holds the table's address `pre`, a terminator and enough room behind it, the
  walk makes exactly the calls of `codeList` and leaves `pre`, a terminator and junk of the
  same size.
-/
import RtoscModel.Proofs.WalkLeaf
namespace Rtosc.Walk
open Rtosc Rtosc.Path Rtosc.Match

theorem report_spec (ix : List Nat) (s J : Buf) (hs : NulFree s) : report ix (s ++ 0 :: J) = .ok (ix, s) := by
  simp [report, cstrAt_zero s J hs]

/-- the loop of `bundle_foreach` (expand_bundles, no ranges): one call per index, the buffer
    keeps its front part `P` and its length -/
theorem bfLoop_spec (ix : List Nat) (R tl P : Bytes) (max : Nat) (hP : NulFree P)
    (hR : ∀ c ∈ R, c ≠ 0 ∧ c ≠ 58) (htl : tl = [] ∨ ∃ r, tl = 58 :: r) :
    ∀ (n i p2 : Nat) (Y : Buf), i + n ≤ 2 ^ 31 →
      (∀ j, i ≤ j → j < i + n → (natDigits j).length + R.length + 1 ≤ Y.length) →
      ∃ Y' p2', bfLoop {} ix (R ++ tl) max P.length n i p2 (P ++ Y) =
          .ok ((List.range' i n).map (fun j => (ix, P ++ natDigits j ++ R)), P ++ Y', p2') ∧
        Y'.length = Y.length := by
  intro n
  induction n with
  | zero => intro i p2 Y _ _; exact ⟨Y, p2, by simp [bfLoop], rfl⟩
  | succ n ih =>
    intro i p2 Y hi hcap
    have hilt : i < 2 ^ 31 := by omega
    have hc := hcap i (Nat.le_refl _) (by omega)
    have hdl := natDigits_length i hilt
    obtain ⟨J1, h1, l1⟩ := snprintfAt_junk (natDigits i) P Y 16 (by omega) (by omega)
    have e1 : P ++ natDigits i ++ 0 :: J1 = (P ++ natDigits i) ++ 0 :: J1 := by simp
    obtain ⟨J2, h2, l2⟩ := copyName_junk R tl (P ++ natDigits i) (0 :: J1) (fun c hc => (hR c hc).2) htl
      (by simp only [List.length_cons]; omega)
    obtain ⟨J3, h3, l3⟩ := wr_junk (P ++ natDigits i ++ R) J2 0 (by simp only [List.length_cons] at l2; omega)
    have hfull : NulFree (P ++ natDigits i ++ R) :=
      NulFree.append (NulFree.append hP (natDigits_nulfree i)) (fun c hc => (hR c hc).1)
    have e3 : P ++ natDigits i ++ R ++ 0 :: J3 = P ++ (natDigits i ++ R ++ 0 :: J3) := by simp
    obtain ⟨Y', p2', h4, l4⟩ := ih (i + 1) (P.length + (natDigits i).length + R.length) (natDigits i ++ R ++ 0 :: J3)
      (by omega) (by
        intro j hj1 hj2
        have := hcap j (by omega) (by omega)
        simp only [List.length_append, List.length_cons] at l2 l3 ⊢
        omega)
    refine ⟨Y', p2', ?_, ?_⟩
    · simp only [bfLoop, Bool.false_eq_true, ↓reduceIte, fmtD_small i hilt, bind, Except.bind, h1, pure,
        Except.pure]
      have el : P.length + (natDigits i).length = (P ++ natDigits i).length := by simp
      rw [el, e1, h2]
      simp only
      have el2 : (P ++ natDigits i).length + R.length = (P ++ natDigits i ++ R).length := by simp only [List.length_append]
      rw [el2, h3]
      simp only [report_spec _ _ _ hfull]
      have el3 : (P ++ natDigits i ++ R).length = P.length + (natDigits i).length + R.length := by simp only [List.length_append]
      rw [el3, e3, h4]
      simp [List.range'_succ]
    · simp only [List.length_append, List.length_cons] at l2 l3 l4 ⊢
      omega


theorem WName.ok_spec {w : WName} (h : w.ok = true) :
    textOk w.head = true ∧ partsOk w.parts = true ∧ typesOk w.types = true := by
  simp only [WName.ok, Bool.and_eq_true] at h
  exact ⟨h.1.1.1, h.1.1.2, h.1.2⟩

theorem contains_hash_false (s : Bytes) (h : ∀ c ∈ s, c ≠ 35) : s.contains 35 = false := by
  cases hc : s.contains 35
  · rfl
  · exact absurd rfl (h 35 (List.contains_iff_mem.mp hc))

/-- a leaf port: one walker call per element of `expandFirst`, the buffer afterwards is the
    prefix followed by some NUL-free text and a terminator -/
theorem walkPort_leaf (base : List PortT) (path : List Nat) (rt : Option Obj) (i : Nat) (w : WName)
    (md : Option Bytes) (pre J : Buf) (hw : w.ok = true) (hpre : NulFree pre)
    (hcap : (STree.leaf w md).need ≤ J.length) :
    ∃ s J', NulFree s ∧
      walkPort {} base path rt pre.length i (STree.leaf w md).toPort (pre ++ 0 :: J) =
        .ok (codeTree pre (path ++ [i]) (.leaf w md), pre ++ s ++ 0 :: J') ∧
      s.length + J'.length = J.length := by
  obtain ⟨hhead, hparts, htypes⟩ := WName.ok_spec hw
  have htl := renderTypes_shape htypes
  simp only [STree.need] at hcap
  cases hp : w.parts with
  | nil =>
    -- plain name: scat
    have hlit : ∀ c ∈ w.head ++ slashIf w.slash, c ≠ 58 := by
      intro c hc
      rcases List.mem_append.mp hc with h | h
      · exact (textOk_ne hhead c h).2.2
      · cases hs : w.slash <;> simp [hs, slashIf] at h; subst h; decide
    have hnul : NulFree (w.head ++ slashIf w.slash) := NulFree.append (textOk_nulfree hhead) (nulFree_slashIf _)
    have hno : (w.head ++ slashIf w.slash ++ renderTypes w.types).contains 35 = false := by
      apply contains_hash_false
      intro c hc
      rcases List.mem_append.mp hc with h | h
      · rcases List.mem_append.mp h with h | h
        · exact (textOk_ne hhead c h).2.1
        · cases hs : w.slash <;> simp [hs, slashIf] at h; subst h; decide
      · exact renderTypes_no_hash htypes c h
    obtain ⟨J', h1, l1⟩ := scat_spec pre J (w.head ++ slashIf w.slash) (renderTypes w.types) hpre hlit htl
      (by simp only [hp, expandFirst, maxLen, List.length_nil] at hcap; simp only [List.length_append]; omega)
    refine ⟨w.head ++ slashIf w.slash, J', hnul, ?_, by omega⟩
    simp only [STree.toPort, walkPort, Bool.false_eq_true, ↓reduceIte, WName.render, WName.body, hp,
      renderParts, List.append_nil, hno, h1]
    have e : pre ++ (w.head ++ slashIf w.slash) ++ 0 :: J' = (pre ++ (w.head ++ slashIf w.slash)) ++ 0 :: J' := by simp
    rw [e, report_spec _ _ _ (NulFree.append hpre hnul)]
    simp [codeTree, hp, expandFirst]
  | cons p r =>
    obtain ⟨ds, t⟩ := p
    rw [hp] at hparts
    obtain ⟨hnum, htext, htd, _, hrest⟩ := partsOk_cons hparts
    obtain ⟨hdsne, hdsd, hdslt⟩ := numOk_spec hnum
    -- pieces
    let R := t ++ renderParts r ++ slashIf w.slash
    have hR : ∀ c ∈ R, c ≠ 0 ∧ c ≠ 58 := by
      intro c hc
      rcases List.mem_append.mp hc with h | h
      · rcases List.mem_append.mp h with h | h
        · have := textOk_ne htext c h; exact ⟨this.1, this.2.2⟩
        · exact renderParts_ne r hrest c h
      · cases hs : w.slash <;> simp [hs, slashIf] at h; subst h; decide
    have hsd : startsWithDigit (R ++ renderTypes w.types) = false := by
      apply startsWithDigit_append _ _ _ (startsWithDigit_types htypes)
      exact startsWithDigit_append _ _ (startsWithDigit_append _ _ htd (startsWithDigit_renderParts r))
        (startsWithDigit_slashIf _)
    have hname : w.render = w.head ++ 35 :: (ds ++ (R ++ renderTypes w.types)) := by
      simp [WName.render, WName.body, hp, renderParts, R]
    have hhash : w.render.contains 35 = true := by
      rw [hname]; simp
    have hheadlen : w.head.length ≤ (0 :: J).length := by simp only [List.length_cons]; omega
    obtain ⟨J1, h1, l1⟩ := bfCopyToHash_spec w.head (ds ++ (R ++ renderTypes w.types)) pre (0 :: J)
      (fun c hc => (textOk_ne hhead c hc).2.1) hheadlen
    have hP : NulFree (pre ++ w.head) := NulFree.append hpre (textOk_nulfree hhead)
    have hcapl : ∀ j, 0 ≤ j → j < 0 + decVal ds → (natDigits j).length + R.length + 1 ≤ J1.length := by
      intro j _ hj
      have hm : natDigits j ++ t ++ renderParts r ∈ expandFirst ((ds, t) :: r) := by
        simp only [expandFirst, List.mem_map, List.mem_range]
        exact ⟨j, by omega, rfl⟩
      have := mem_maxLen hm
      rw [hp] at hcap
      simp only [List.length_append, List.length_cons, R] at this l1 hcap ⊢
      omega
    obtain ⟨Y', p2', h2, l2⟩ := bfLoop_spec (path ++ [i]) R (renderTypes w.types) (pre ++ w.head) (decVal ds) hP hR htl
      (decVal ds) 0 (pre ++ w.head).length J1 (by omega) hcapl
    -- the final cut at old_end
    have hne : 1 ≤ (w.head ++ Y').length := by
      simp only [List.length_append, List.length_cons] at l1 ⊢; omega
    have e2 : pre ++ w.head ++ Y' = pre ++ (w.head ++ Y') := by simp
    obtain ⟨J3, h3, l3⟩ := wr_junk pre (w.head ++ Y') 0 hne
    refine ⟨[], J3, nulFree_nil, ?_, by
      simp only [List.length_append, List.length_cons, List.length_nil] at l1 l3 ⊢; omega⟩
    simp only [STree.toPort, walkPort, Bool.false_eq_true, ↓reduceIte, hhash]
    simp only [bundleForeach, bind, Except.bind, hname, h1]
    have hmax : atoiC (List.drop 1 (35 :: (ds ++ (R ++ renderTypes w.types)))) = decVal ds := by
      simp only [List.drop_succ_cons, List.drop_zero]
      exact atoiC_num ds _ hdsne hdsd hdslt hsd
    have hrest' : List.dropWhile isDigit (List.drop 1 (35 :: (ds ++ (R ++ renderTypes w.types)))) = R ++ renderTypes w.types := by
      simp only [List.drop_succ_cons, List.drop_zero]
      exact dropWhile_digits_append ds _ hdsd hsd
    have el : pre.length + w.head.length = (pre ++ w.head).length := by simp
    simp only [hmax, hrest', Bool.not_false, Bool.and_self, ↓reduceIte, el, h2, e2, h3, pure, Except.pure]
    simp only [codeTree, hp, expandFirst, List.map_map, List.append_nil, List.range_eq_range']
    congr 2
    apply List.map_congr_left
    intro j _
    simp [R]

theorem nextHash_none (rh : Bytes) (h : ∀ c ∈ rh, c ≠ 35) : nextHash rh = none := by
  cases rh with
  | nil => rfl
  | cons c r => simp [nextHash, findHash_none r (fun x hx => h x (List.mem_cons_of_mem _ hx))]

theorem nextHash_text (text x : Bytes) (hne : text ≠ []) (h : ∀ c ∈ text, c ≠ 35) :
    nextHash (text ++ 35 :: x) = some text.length := by
  cases text with
  | nil => exact absurd rfl hne
  | cons c r =>
    simp [nextHash, findHash_append r x (fun y hy => h y (List.mem_cons_of_mem _ hy))]

theorem expandParts_ne_nil (ps : List (Bytes × Bytes)) (h : (ps.all fun p => decide (1 ≤ decVal p.1)) = true) :
    expandParts ps ≠ [] := by
  induction ps with
  | nil => simp [expandParts]
  | cons p r ih =>
    obtain ⟨ds, t⟩ := p
    simp only [List.all_cons, Bool.and_eq_true, decide_eq_true_eq] at h
    have hr := ih h.2
    obtain ⟨a, ha⟩ := List.exists_mem_of_ne_nil _ hr
    intro he
    have : natDigits 0 ++ t ++ a ∈ expandParts ((ds, t) :: r) := by
      simp only [expandParts, List.mem_flatMap, List.mem_range, List.mem_map]
      exact ⟨0, by omega, a, ha, rfl⟩
    rw [he] at this
    simp at this

theorem loopN_spec (body : Nat → Buf → M (List Call × Buf)) (P1 : Bytes) (L : Nat)
    (out : Nat → List Call) (N : Nat)
    (hbody : ∀ i Y1, i < N → (P1 ++ Y1).length = L →
      ∃ s Y2, NulFree s ∧ body i (P1 ++ Y1) = .ok (out i, P1 ++ s ++ 0 :: Y2) ∧ (P1 ++ s ++ 0 :: Y2).length = L) :
    ∀ (n i : Nat) (Y1 : Buf), i + n ≤ N → (P1 ++ Y1).length = L →
      ∃ Y1', loopN body n i (P1 ++ Y1) = .ok ((List.range' i n).flatMap out, P1 ++ Y1') ∧
        (P1 ++ Y1').length = L ∧ (1 ≤ n → ∃ s Y2, Y1' = s ++ 0 :: Y2 ∧ NulFree s) := by
  intro n
  induction n with
  | zero => intro i Y1 _ hl; exact ⟨Y1, by simp [loopN], hl, by omega⟩
  | succ n ih =>
    intro i Y1 hi hl
    obtain ⟨s, Y2, hs, h1, l1⟩ := hbody i Y1 (by omega) hl
    have e : P1 ++ s ++ 0 :: Y2 = P1 ++ (s ++ 0 :: Y2) := by simp
    rw [e] at h1 l1
    obtain ⟨Y3, h2, l2, sh⟩ := ih (i + 1) (s ++ 0 :: Y2) (by omega) l1
    refine ⟨Y3, ?_, l2, ?_⟩
    · simp only [loopN, bind, Except.bind, h1, h2, pure, Except.pure, List.range'_succ, List.flatMap_cons]
    · intro _
      rcases Nat.eq_zero_or_pos n with hn | hn
      · subst hn
        simp only [loopN, pure, Except.pure, Except.ok.injEq, Prod.mk.injEq, List.append_cancel_left_eq] at h2
        exact ⟨s, Y2, h2.2.symm, hs⟩
      · exact sh hn

theorem startsWithDigit_slash (x : Bytes) : startsWithDigit (47 :: x) = false := by
  simp [startsWithDigit]; decide

theorem recurse0_spec (k : Buf → M (List Call × Buf)) (calls : Bytes → List Call) (T : Bytes)
    (hT : T = [] ∨ ∃ r, T = 58 :: r) (hT35 : ∀ c ∈ T, c ≠ 35) (L : Nat) :
    ∀ (parts : List (Bytes × Bytes)) (text P : Bytes) (Y : Buf) (f : Nat),
      partsOk parts = true → (parts.all fun p => decide (1 ≤ decVal p.1)) = true →
      textOk text = true → (text ≠ [] ∨ parts = []) → P ≠ [] → NulFree P →
      parts.length < f → (P ++ Y).length = L →
      (∀ a ∈ expandParts parts, text.length + a.length + 2 ≤ Y.length) →
      (∀ a ∈ expandParts parts, ∀ Y', ((P ++ text ++ a ++ [47]) ++ 0 :: Y').length = L →
        ∃ Y'', k ((P ++ text ++ a ++ [47]) ++ 0 :: Y') =
            .ok (calls (P ++ text ++ a ++ [47]), (P ++ text ++ a ++ [47]) ++ 0 :: Y'') ∧
          Y''.length = Y'.length) →
      ∃ s Y'', NulFree s ∧
        recurse0 k {} f (text ++ renderParts parts ++ 47 :: T) P.length (P ++ Y) =
          .ok ((expandParts parts).flatMap (fun a => calls (P ++ text ++ a ++ [47])), P ++ s ++ 0 :: Y'') ∧
        (P ++ s ++ 0 :: Y'').length = L := by
  intro parts
  induction parts with
  | nil =>
    intro text P Y f _ _ htext _ hPne hP hf hL hcap hk
    cases f with
    | zero => simp at hf
    | succ f =>
      have hno : ∀ c ∈ text ++ 47 :: T, c ≠ 35 := by
        intro c hc
        rcases List.mem_append.mp hc with h | h
        · exact (textOk_ne htext c h).2.1
        · rcases List.mem_cons.mp h with rfl | h
          · decide
          · exact hT35 c h
      have hcap0 := hcap [] (by simp [expandParts])
      simp only [List.length_nil, Nat.add_zero] at hcap0
      have hs58 : ∀ c ∈ text ++ [47], c ≠ 58 := by
        intro c hc
        rcases List.mem_append.mp hc with h | h
        · exact (textOk_ne htext c h).2.2
        · simp at h; subst h; decide
      have hkk : T.length = 0 ∨ ∃ r, T = 58 :: r := by
        rcases hT with rfl | h
        · exact Or.inl rfl
        · exact Or.inr h
      obtain ⟨J1, h1, l1⟩ := copyN_spec (text ++ [47]) T P Y T.length hs58 hkk
        (by simp only [List.length_append, List.length_cons, List.length_nil]; omega)
      have erh : text ++ renderParts [] ++ 47 :: T = (text ++ [47]) ++ T := by simp [renderParts]
      have elen : ((text ++ [47]) ++ T).length = (text ++ [47]).length + T.length := by simp only [List.length_append]
      obtain ⟨J2, h2, l2⟩ := wr_junk (P ++ (text ++ [47])) J1 0
        (by simp only [List.length_append, List.length_cons, List.length_nil] at l1; omega)
      have eQ : P ++ (text ++ [47]) = P ++ text ++ [] ++ [47] := by simp
      have hlenQ : ((P ++ text ++ [] ++ [47]) ++ 0 :: J2).length = L := by
        simp only [List.length_append, List.length_cons, List.length_nil] at l1 l2 hL ⊢; omega
      obtain ⟨Y'', h3, l3⟩ := hk [] (by simp [expandParts]) J2 hlenQ
      refine ⟨text ++ [47], Y'', NulFree.append (textOk_nulfree htext) nulFree_slash, ?_, ?_⟩
      · rw [erh]
        have hh : nextHash ((text ++ [47]) ++ T) = none := by
          apply nextHash_none
          intro c hc
          apply hno c
          simpa using hc
        simp only [recurse0, hh, Option.getD_none, elen, h1]
        have hwh : P.length + (text ++ [47]).length ≠ 0 := by
          simp only [List.length_append, List.length_cons, List.length_nil]; omega
        simp only [hwh, ↓reduceIte]
        have hrd : rd (P ++ (text ++ [47]) ++ J1) (P.length + (text ++ [47]).length - 1) = .ok 47 := by
          have e1 : P ++ (text ++ [47]) ++ J1 = (P ++ text) ++ 47 :: J1 := by simp
          have e2 : P.length + (text ++ [47]).length - 1 = (P ++ text).length := by
            simp only [List.length_append, List.length_cons, List.length_nil]; omega
          rw [e1, e2, rd_at]
        simp only [hrd, ne_eq, not_true_eq_false, ↓reduceIte]
        have el : P.length + (text ++ [47]).length = (P ++ (text ++ [47])).length := by simp
        rw [el, h2, eQ]
        simp only [h3]
        simp [expandParts]
      · simp only [List.length_append, List.length_cons, List.length_nil] at l1 l2 l3 hL ⊢; omega
  | cons p r ih =>
    obtain ⟨ds, t⟩ := p
    intro text P Y f hparts hpos htext htne hPne hP hf hL hcap hk
    cases f with
    | zero => simp at hf
    | succ f =>
      obtain ⟨hnum, httext, htd, htr, hrest⟩ := partsOk_cons hparts
      obtain ⟨hdsne, hdsd, hdslt⟩ := numOk_spec hnum
      simp only [List.all_cons, Bool.and_eq_true, decide_eq_true_eq] at hpos
      have htextne : text ≠ [] := by
        rcases htne with h | h
        · exact h
        · simp at h
      -- the read head
      let X := ds ++ (t ++ renderParts r ++ 47 :: T)
      have erh : text ++ renderParts ((ds, t) :: r) ++ 47 :: T = text ++ 35 :: X := by
        simp [renderParts, X]
      have hh : nextHash (text ++ 35 :: X) = some text.length :=
        nextHash_text text X htextne (fun c hc => (textOk_ne htext c hc).2.1)
      -- some expansion exists: room for the text
      obtain ⟨a0, ha0⟩ := List.exists_mem_of_ne_nil _ (expandParts_ne_nil ((ds, t) :: r) (by
        simp only [List.all_cons, Bool.and_eq_true, decide_eq_true_eq]; exact hpos))
      have hcap0 := hcap a0 ha0
      obtain ⟨J1, h1, l1⟩ := copyN_spec text (35 :: X) P Y 0 (fun c hc => (textOk_ne htext c hc).2.2)
        (Or.inl rfl) (by omega)
      have hsd : startsWithDigit (t ++ renderParts r ++ 47 :: T) = false :=
        startsWithDigit_append _ _ (startsWithDigit_append _ _ htd (startsWithDigit_renderParts r))
          (startsWithDigit_slash T)
      have hmax : atoiC X = decVal ds := atoiC_num ds _ hdsne hdsd hdslt hsd
      have hrh2 : X.dropWhile isDigit = t ++ renderParts r ++ 47 :: T := dropWhile_digits_append ds _ hdsd hsd
      -- the loop
      let P1 := P ++ text
      have hP1 : NulFree P1 := NulFree.append hP (textOk_nulfree htext)
      let out : Nat → List Call := fun j =>
        (expandParts r).flatMap (fun a' => calls (P ++ text ++ (natDigits j ++ t ++ a') ++ [47]))
      let body : Nat → Buf → M (List Call × Buf) := fun i bb =>
        match snprintfAt bb (P.length + text.length) 32 (fmtD i) with
        | .error e => .error e
        | .ok (b2, n) => recurse0 k {} f (t ++ renderParts r ++ 47 :: T) (P.length + text.length + n) b2
      have hbody : ∀ i Y1, i < decVal ds → (P1 ++ Y1).length = L →
          ∃ s Y2, NulFree s ∧ body i (P1 ++ Y1) = .ok (out i, P1 ++ s ++ 0 :: Y2) ∧
            (P1 ++ s ++ 0 :: Y2).length = L := by
        intro i Y1 hi hl1
        have hilt : i < 2 ^ 31 := by omega
        have hdl := natDigits_length i hilt
        have hYlen : Y1.length + text.length = Y.length := by
          simp only [List.length_append, P1] at hl1 hL; omega
        -- capacity for this index
        have hmem : ∀ a' ∈ expandParts r, natDigits i ++ t ++ a' ∈ expandParts ((ds, t) :: r) := by
          intro a' ha'
          simp only [expandParts, List.mem_flatMap, List.mem_range, List.mem_map]
          exact ⟨i, hi, a', ha', rfl⟩
        obtain ⟨a1, ha1⟩ := List.exists_mem_of_ne_nil _ (expandParts_ne_nil r hpos.2)
        have hc1 := hcap _ (hmem a1 ha1)
        obtain ⟨J2, h2, l2⟩ := snprintfAt_junk (natDigits i) P1 Y1 32 (by omega)
          (by simp only [List.length_append] at hc1; omega)
        have eP2 : P1 ++ natDigits i ++ 0 :: J2 = (P1 ++ natDigits i) ++ 0 :: J2 := by simp
        obtain ⟨s, Y3, hs, h3, l3⟩ := ih t (P1 ++ natDigits i) (0 :: J2) f hrest hpos.2 httext htr
          (by simp [P1, hPne]) (NulFree.append hP1 (natDigits_nulfree i))
          (by simp only [List.length_cons] at hf; omega)
          (by simp only [List.length_append, List.length_cons, P1] at hl1 l2 ⊢; omega)
          (by
            intro a' ha'
            have := hcap _ (hmem a' ha')
            simp only [List.length_append, List.length_cons] at this l2 ⊢
            omega)
          (by
            intro a' ha' Y' hlen
            have eq : P1 ++ natDigits i ++ t ++ a' ++ [47] = P ++ text ++ (natDigits i ++ t ++ a') ++ [47] := by
              simp [P1]
            rw [eq] at hlen ⊢
            exact hk _ (hmem a' ha') Y' hlen)
        refine ⟨natDigits i ++ s, Y3, NulFree.append (natDigits_nulfree i) hs, ?_, ?_⟩
        · have el : P.length + text.length = P1.length := by simp [P1]
          simp only [body]
          rw [fmtD_small i hilt, el, h2]
          simp only
          have el2 : P1.length + (natDigits i).length = (P1 ++ natDigits i).length := by simp
          rw [el2, eP2, h3]
          congr 2
          · simp only [out, P1, List.append_assoc]
          · simp
        · have : P1 ++ (natDigits i ++ s) ++ 0 :: Y3 = P1 ++ natDigits i ++ s ++ 0 :: Y3 := by simp
          rw [this]; exact l3
      have hl1 : (P1 ++ J1).length = L := by
        simp only [List.length_append, P1] at l1 hL ⊢; omega
      obtain ⟨Y1', h4, l4, sh⟩ := loopN_spec body P1 L out (decVal ds) hbody (decVal ds) 0 J1 (by omega) hl1
      obtain ⟨s, Y2, hY, hs⟩ := sh hpos.1
      subst hY
      refine ⟨text ++ s, Y2, NulFree.append (textOk_nulfree htext) hs, ?_, ?_⟩
      · rw [erh]
        simp only [recurse0, hh, Option.getD_some]
        have e0 : text.length = text.length + 0 := rfl
        rw [e0, h1]
        simp only [Bool.false_eq_true, ↓reduceIte, hmax, hrh2]
        have eb : P ++ text ++ J1 = P1 ++ J1 := rfl
        rw [eb]
        refine Eq.trans h4 ?_
        congr 2
        · simp only [expandParts, List.flatMap_assoc, List.flatMap_map, out, ← List.range_eq_range']
        · simp [P1]
      · have : P ++ (text ++ s) ++ 0 :: Y2 = P1 ++ (s ++ 0 :: Y2) := by simp [P1]
        rw [this]; exact l4

theorem portIsEnabled_static (port : Option (Nat × PortT)) (b : Buf) (base : List PortT) (path : List Nat)
    (rel : Bool) (portRt : Option Obj) : portIsEnabled port b base path none rel portRt = .ok (true, []) := by
  cases port <;> rfl

/-- `walk_ports` on a buffer that already holds a non-empty address: straight into the loop -/
theorem walkTable_static (loop : Nat → Buf → M (List Call × Buf)) (base : List PortT) (path : List Nat)
    (Q Y : Buf) (hQ : NulFree Q) (hne : Q ≠ []) :
    walkTable loop base path none (Q ++ 0 :: Y) =
      (match loop Q.length (Q ++ 0 :: Y) with
       | .error e => .error e
       | .ok (cs, b) => .ok (cs, b)) := by
  cases Q with
  | nil => exact absurd rfl hne
  | cons c r =>
    have hc : c ≠ 0 := hQ c List.mem_cons_self
    have h0 : rd (c :: r ++ 0 :: Y) 0 = .ok c := by simp [rd]
    have hl := strlenAt_zero (c :: r) Y hQ
    simp only [walkTable, bind, Except.bind, h0, hc, ↓reduceIte, pure, Except.pure, hl,
      portIsEnabled_static]
    cases loop (c :: r).length (c :: r ++ 0 :: Y) with
    | error e => rfl
    | ok v => obtain ⟨cs, b⟩ := v; simp

theorem renderParts_length (ps : List (Bytes × Bytes)) : ps.length ≤ (renderParts ps).length := by
  induction ps with
  | nil => simp
  | cons p r ih =>
    obtain ⟨ds, t⟩ := p
    simp only [renderParts, List.length_cons, List.length_append]
    omega

theorem expandParts_nulfree (ps : List (Bytes × Bytes)) (h : partsOk ps = true) :
    ∀ a ∈ expandParts ps, NulFree a := by
  induction ps with
  | nil => intro a ha; simp [expandParts] at ha; subst ha; exact nulFree_nil
  | cons p r ih =>
    obtain ⟨ds, t⟩ := p
    obtain ⟨_, ht, _, _, hr⟩ := partsOk_cons h
    intro a ha
    simp only [expandParts, List.mem_flatMap, List.mem_range, List.mem_map] at ha
    obtain ⟨i, _, a', ha', rfl⟩ := ha
    exact NulFree.append (NulFree.append (natDigits_nulfree i) (textOk_nulfree ht)) (ih hr a' ha')

theorem WName.subOk_spec {w : WName} (h : w.subOk = true) :
    w.ok = true ∧ w.head ≠ [] ∧ w.slash = true ∧ (w.parts.all fun p => decide (1 ≤ decVal p.1)) = true := by
  simp only [WName.subOk, Bool.and_eq_true, Bool.not_eq_eq_eq_not, Bool.not_true,
    List.isEmpty_eq_false_iff] at h
  exact ⟨h.1.1.1, h.1.1.2, h.1.2, h.2⟩

mutual
theorem walkList_spec : ∀ (ts : List STree) (base : List PortT) (path : List Nat) (i : Nat) (pre J : Buf),
    wfList ts = true → NulFree pre → pre ≠ [] → needList ts ≤ J.length →
    ∃ J', walkList {} base path none pre.length (toPorts ts) i (pre ++ 0 :: J) =
        .ok (codeList pre path ts i, pre ++ 0 :: J') ∧ J'.length = J.length
  | [], base, path, i, pre, J, _, _, _, _ => ⟨J, by simp [toPorts, walkList, codeList], rfl⟩
  | t :: r, base, path, i, pre, J, hwf, hpre, hne, hcap => by
    simp only [wfList, Bool.and_eq_true] at hwf
    simp only [needList] at hcap
    obtain ⟨s, J1, hs, h1, l1⟩ := walkPort_spec t base path i pre J hwf.1 hpre hne (by omega)
    obtain ⟨J2, h2, l2⟩ := erase_spec pre s J1 hs
    obtain ⟨J3, h3, l3⟩ := walkList_spec r base path (i + 1) pre J2 hwf.2 hpre hne (by omega)
    refine ⟨J3, ?_, by omega⟩
    simp only [toPorts, walkList, h1, h2, h3, codeList]
theorem walkPort_spec : ∀ (t : STree) (base : List PortT) (path : List Nat) (i : Nat) (pre J : Buf),
    t.wf = true → NulFree pre → pre ≠ [] → t.need ≤ J.length →
    ∃ s J', NulFree s ∧
      walkPort {} base path none pre.length i t.toPort (pre ++ 0 :: J) =
        .ok (codeTree pre (path ++ [i]) t, pre ++ s ++ 0 :: J') ∧
      s.length + J'.length = J.length
  | .leaf w md, base, path, i, pre, J, hwf, hpre, _, hcap =>
    walkPort_leaf base path none i w md pre J (by simpa [STree.wf, WName.leafOk] using hwf) hpre hcap
  | .sub w md kids, base, path, i, pre, J, hwf, hpre, hne, hcap => by
    simp only [STree.wf, Bool.and_eq_true] at hwf
    obtain ⟨hok, hheadne, hslash, hpos⟩ := WName.subOk_spec hwf.1
    obtain ⟨hhead, hparts, htypes⟩ := WName.ok_spec hok
    simp only [STree.need] at hcap
    have hname : w.render = w.head ++ renderParts w.parts ++ 47 :: renderTypes w.types := by
      simp [WName.render, WName.body, hslash, slashIf]
    let L := (pre ++ 0 :: J).length
    let k : Buf → M (List Call × Buf) := fun b' =>
      match recurseGate (.mk w.render md true (toPorts kids)) i b' base path none pre.length with
      | .error e => .error e
      | .ok (none, calls) => .ok (calls, b')
      | .ok (some rt', calls) =>
        match walkTable (fun oe bb => walkList {} (toPorts kids) (path ++ [i]) rt' oe (toPorts kids) 0 bb)
            (toPorts kids) (path ++ [i]) rt' b' with
        | .error e => .error e
        | .ok (c2, b2) => .ok (calls ++ c2, b2)
    have hk : ∀ a ∈ expandParts w.parts, ∀ Y', ((pre ++ w.head ++ a ++ [47]) ++ 0 :: Y').length = L →
        ∃ Y'', k ((pre ++ w.head ++ a ++ [47]) ++ 0 :: Y') =
            .ok (codeList (pre ++ w.head ++ a ++ [47]) (path ++ [i]) kids 0, (pre ++ w.head ++ a ++ [47]) ++ 0 :: Y'') ∧
          Y''.length = Y'.length := by
      intro a ha Y' hlen
      have hQ : NulFree (pre ++ w.head ++ a ++ [47]) :=
        NulFree.append (NulFree.append (NulFree.append hpre (textOk_nulfree hhead))
          (expandParts_nulfree w.parts hparts a ha)) nulFree_slash
      have hQne : pre ++ w.head ++ a ++ [47] ≠ [] := by simp
      have hma := mem_maxLen ha
      obtain ⟨Y'', h1, l1⟩ := walkList_spec kids (toPorts kids) (path ++ [i]) 0 (pre ++ w.head ++ a ++ [47]) Y'
        hwf.2 hQ hQne (by
          simp only [List.length_append, List.length_cons, List.length_nil, L] at hlen ⊢
          omega)
      refine ⟨Y'', ?_, l1⟩
      simp only [k, recurseGate]
      rw [walkTable_static _ _ _ _ _ hQ hQne, h1]
      simp
    obtain ⟨s, Y'', hs, h2, l2⟩ := recurse0_spec k (fun Q => codeList Q (path ++ [i]) kids 0) (renderTypes w.types)
      (renderTypes_shape htypes) (renderTypes_no_hash htypes) L w.parts w.head pre (0 :: J) (w.render.length + 1)
      hparts hpos hhead (Or.inl hheadne) hne hpre
      (by
        have := renderParts_length w.parts
        rw [hname]
        simp only [List.length_append, List.length_cons]
        omega)
      rfl
      (by
        intro a ha
        have := mem_maxLen ha
        simp only [List.length_cons]
        omega)
      hk
    refine ⟨s, Y'', hs, ?_, by
      simp only [List.length_append, List.length_cons, L] at l2 ⊢; omega⟩
    simp only [STree.toPort, walkPort, ↓reduceIte]
    rw [hname] at h2 ⊢
    refine Eq.trans h2 ?_
    simp [codeTree]
end

end Rtosc.Walk
