/-
  C11 — a range `b ... c` of decimal 'i' integers without a left neighbour (the first value of a
  sentence): what the repaired scanner and checker (`Pretty/C11Model.lean`) do on
      <b> <white space, at least one> ... <white space> <c> <rest>
  Built on C10's lemmas for decimal integers behind which "..." may follow
  (`Proofs/PrettyRunInt.lean`: `scanValue_intW`, `skipValue_intW`, `SepW`).
-/
import RtoscModel.Proofs.ScanSpec
import RtoscModel.Proofs.PrettyRunInt
namespace Rtosc.Pretty.C11
open Rtosc Rtosc.Libc Rtosc.Pretty
open Rtosc.ArgVal (Cell Item flatList)

/-- `delta_from_arg_vals` with `must_be_unity` (no usable left neighbour): the step is ±1, the
    count `q + 1`; whatever `llhsarg` points to -/
theorem deltaUnity11 (ll : Option Cell) (x z q dl : Int) (hdl : (dl = 1 ∧ x < z) ∨ (dl = -1 ∧ z < x))
    (hq : z - x = q * dl) (hw1 : -2147483647 ≤ z - x) (hw2 : z - x ≤ 2147483647)
    (hq1 : -2147483648 ≤ q + 1) (hq2 : q + 1 ≤ 2147483647) :
    C11.deltaFromArgVals ll (Cell.int .i x) (some (Cell.int .i z)) true = .ok (q + 1, Cell.int .i dl) := by
  have hdl0 : dl ≠ 0 := by omega
  have htd : Int.tdiv (z - x) dl = q := by rw [hq]; exact Int.mul_tdiv_cancel _ hdl0
  have hsub : subAV (Cell.int .i z) (Cell.int .i x) = .ok (some (Cell.int .i (z - x))) := by
    rw [subAV_int, toI32_id _ (by omega) (by omega)]
  have hmul : multAV (Cell.int .i q) (Cell.int .i dl) = .ok (some (Cell.int .i (z - x))) := by
    rw [multAV_int, ← hq, toI32_id _ (by omega) (by omega)]
  have hcmp0 : ¬ (ArgVal.cmp3 x z = 0) := cmp3_ne x z (by omega)
  have hov : ¬ (q + 1 > 2147483647 ∨ q + 1 < -2147483648) := by omega
  unfold C11.deltaFromArgVals
  simp only [↓reduceIte, orUndef, cmpCell_int, fromIntF_int, fromInt, must, bind, Except.bind, pure, Except.pure]
  rcases hdl with ⟨rfl, hlt⟩ | ⟨rfl, hlt⟩
  · simp only [cmp3_lt x z hlt, show ¬ ((-1 : Int) > 0) from by decide, show ¬ ((-1 : Int) = 0) from by decide,
      ↓reduceIte, subF_int, hsub, divF_int, divAV_int (z - x) 1 hdl0 (by omega), htd, roundF_int, roundAV,
      multF_int, hmul, toIntF_int, toIntAV,
      eqTolCell_int, eqCell_int, decide_true, Bool.not_true, Bool.false_eq_true, hov]
  · simp only [cmp3_gt x z hlt, show ((1 : Int) > 0) from by decide, show ¬ ((1 : Int) = 0) from by decide,
      negateF_int, negate,
      show ¬ ((1 : Int) = -2147483648) from by decide,
      ↓reduceIte, subF_int, hsub, divF_int, divAV_int (z - x) (-1) hdl0 (by omega), htd, roundF_int, roundAV,
      multF_int, hmul, toIntF_int, toIntAV,
      eqTolCell_int, eqCell_int, decide_true, Bool.not_true, Bool.false_eq_true, hov]

theorem hd_fmtDec_ne91 (v : Int) (h1 : -2147483648 ≤ v) (h2 : v ≤ 2147483647) (rest : Bytes) :
    hd (fmtDec v ++ rest) ≠ 91 := by
  have hn := decNum_fmtDec v (by omega) (by omega)
  have hstart : hd (fmtDec v) = 45 ∨ isdigit (hd (fmtDec v)) = true := hn.chars _ (hd_mem _ hn.ne)
  rw [hd_append_of_ne_nil _ _ hn.ne]
  rcases hstart with h | h
  · rw [h]; decide
  · revert h; generalize hd (fmtDec v) = c; revert c; apply UInt8.forall_of_fin; decide +kernel

/-- without `follow_ellipsis` the repaired scanner reads just the integer -/
theorem scanArgVal11_int_noell (f : Nat) (v : Int) (h1 : -2147483648 ≤ v) (h2 : v ≤ 2147483647) (rest : Bytes)
    (hs : SepW rest) (prev : List Cell) (ab : Nat) :
    C11.scanArgVal (f + 1) (fmtDec v ++ rest) prev ab false = .ok ((fmtDec v).length, [Cell.int .i v]) := by
  unfold C11.scanArgVal
  rw [scanValue_noBracket _ _ _ (hd_fmtDec_ne91 v h1 h2 rest)]
  simp only [scanValue_intW _ v h1 h2 rest hs, bind, Except.bind]
  unfold C11.finishArg
  simp [pure, Except.pure]

/-- the text behind the left-hand side of a range: white space `w1`, the dots, white space `w2`,
    the right-hand side `Z` and what follows -/
def rangeRest (w1 w2 Z rest : Bytes) : Bytes := w1 ++ (46 :: 46 :: 46 :: (w2 ++ (Z ++ rest)))

theorem rangeRest_facts (w1 w2 Z rest : Bytes) (hw1 : AllWs w1) (hne : w1 ≠ []) (hw2 : AllWs w2) (hZ : TokStart Z) :
    SepW (rangeRest w1 w2 Z rest) ∧ skipSpace (rangeRest w1 w2 Z rest) = 46 :: 46 :: 46 :: (w2 ++ (Z ++ rest)) ∧
    skipSpace (w2 ++ (Z ++ rest)) = Z ++ rest := by
  have h46 : skipSpace (46 :: 46 :: 46 :: (w2 ++ (Z ++ rest))) = 46 :: 46 :: 46 :: (w2 ++ (Z ++ rest)) := by
    simp [skipSpace, show isspace 46 = false from by decide]
  have h1 : skipSpace (rangeRest w1 w2 Z rest) = 46 :: 46 :: 46 :: (w2 ++ (Z ++ rest)) := by
    unfold rangeRest; rw [skipSpace_allWs _ _ hw1, h46]
  have hZr : TokStart (Z ++ rest) := tokStart_append_ri Z rest hZ
  have h2 : skipSpace (w2 ++ (Z ++ rest)) = Z ++ rest := by
    rw [skipSpace_allWs _ _ hw2]
    obtain ⟨hne', hsp, _⟩ := hZr
    cases hzr : Z ++ rest with
    | nil => exact absurd hzr hne'
    | cons c r => rw [hzr] at hsp; simp only [hd_cons] at hsp; simp [skipSpace, hsp]
  refine ⟨⟨Or.inr (Or.inl ?_), by rw [h1]; simp⟩, h1, h2⟩
  cases w1 with
  | nil => exact absurd rfl hne
  | cons c r => simpa [rangeRest] using hw1 c (by simp)

/-- **the repaired scanner on `b ... c` without arguments before it** (`args_before = 0`: the
    first value of a sentence): range header, step and start; the text up to `rest` is consumed -/
theorem scanArgVal_range0 (f : Nat) (x z : Int) (hx1 : -2147483648 ≤ x) (hx2 : x ≤ 2147483647)
    (hz1 : -2147483648 ≤ z) (hz2 : z ≤ 2147483647) (w1 w2 rest : Bytes) (hw1 : AllWs w1) (hne : w1 ≠ [])
    (hw2 : AllWs w2) (hs : Sep rest) (prev : List Cell) (num : Int) (dl : Cell)
    (hdelta : ∀ ll, C11.deltaFromArgVals ll (Cell.int .i x) (some (Cell.int .i z)) true = .ok (num, dl)) :
    C11.scanArgVal (f + 2) (fmtDec x ++ rangeRest w1 w2 (fmtDec z) rest) prev 0 true =
      .ok ((fmtDec x ++ rangeRest w1 w2 (fmtDec z) rest).length - rest.length, [Cell.rep num 1, dl, Cell.int .i x]) := by
  obtain ⟨hW, hsk1, hsk2⟩ := rangeRest_facts w1 w2 (fmtDec z) rest hw1 hne hw2 (tokStart_fmtDec z hz1 hz2)
  have hrhs := scanArgVal11_int_noell f z hz1 hz2 rest hs.toW [] 0
  have h93 : hd (fmtDec z ++ rest) ≠ 93 := (tokStart_append_ri _ rest (tokStart_fmtDec z hz1 hz2)).2.2.2.2.2.2.2
  unfold C11.scanArgVal
  rw [scanValue_noBracket _ _ _ (hd_fmtDec_ne91 x hx1 hx2 _)]
  simp only [scanValue_intW _ x hx1 hx2 _ hW, bind, Except.bind]
  unfold C11.finishArg
  simp only [hsk1, startsWith, List.isPrefixOf, BEq.rfl, Bool.and_self, and_self,
    ↓reduceIte, Bool.not_true, Bool.false_eq_true, deref, bind, Except.bind, List.drop_succ_cons, List.drop_zero,
    hsk2, h93, decide_false, pure, Except.pure, hrhs, advance, List.length_append, Nat.le_add_right,
    List.drop_left, Nat.not_lt_zero, gt_iff_lt, Nat.zero_lt_one, false_and, Bool.false_and, hdelta,
    ArgVal.Cell.type, ArgVal.IntTy.char, show numericRangeTypes.contains (105 : UInt8) = true from by decide]
  simp

/-! ### the checker -/

theorem skipNext11_int_noell (f : Nat) (v : Int) (h1 : -2147483648 ≤ v) (h2 : v ≤ 2147483647) (rest : Bytes)
    (hs : SepW rest) (ty : UInt8) (llhs : Option Bytes) (ib : Bool) :
    C11.skipNextPrintedArg (f + 1) (fmtDec v ++ rest) ty llhs false ib = .ok ⟨some rest, 1, 105⟩ := by
  unfold C11.skipNextPrintedArg
  simp [skipValue_intW _ v rest hs ty ib h1 h2, bind, Except.bind, pure, Except.pure]

theorem scanOne11_int (v : Int) (h1 : -2147483648 ≤ v) (h2 : v ≤ 2147483647) (rest : Bytes) (hs : SepW rest) :
    C11.scanOne (fmtDec v ++ rest) = .ok (Cell.int .i v) := by
  unfold C11.scanOne
  simp [scanArgVal11_int_noell _ v h1 h2 rest hs, bind, Except.bind]

/-- **the repaired checker on `b ... c` without a value to its left**: three argument values -/
theorem skipNext_range0 (f : Nat) (x z : Int) (hx1 : -2147483648 ≤ x) (hx2 : x ≤ 2147483647)
    (hz1 : -2147483648 ≤ z) (hz2 : z ≤ 2147483647) (w1 w2 rest : Bytes) (hw1 : AllWs w1) (hne : w1 ≠ [])
    (hw2 : AllWs w2) (hs : Sep rest) (ty : UInt8) (ib : Bool) (num : Int) (dl : Cell)
    (hdelta : ∀ ll, C11.deltaFromArgVals ll (Cell.int .i x) (some (Cell.int .i z)) true = .ok (num, dl))
    (hnum : num ≠ -1) :
    C11.skipNextPrintedArg (f + 2) (fmtDec x ++ rangeRest w1 w2 (fmtDec z) rest) ty none true ib =
      .ok ⟨some rest, 3, 45⟩ := by
  have hZs := tokStart_fmtDec z hz1 hz2
  obtain ⟨hW, hsk1, hsk2⟩ := rangeRest_facts w1 w2 (fmtDec z) rest hw1 hne hw2 hZs
  have h93 : hd (fmtDec z ++ rest) ≠ 93 := (tokStart_append_ri _ rest hZs).2.2.2.2.2.2.2
  have hrsk := skipNext11_int_noell f z hz1 hz2 rest hs.toW 120 none ib
  have hrsc := scanOne11_int z hz1 hz2 rest hs.toW
  have hlsc := scanOne11_int x hx1 hx2 _ hW
  have hnm := nomult_int x hx1 hx2 _ hW
  unfold C11.skipNextPrintedArg
  simp only [skipValue_intW _ x _ hW ty ib hx1 hx2, bind, Except.bind, hsk1, startsWith,
    List.isPrefixOf, BEq.rfl, Bool.and_self, and_self, ↓reduceIte]
  unfold C11.ellipsisTail
  simp only [List.drop_succ_cons, List.drop_zero, hsk2, hnm, Bool.false_eq_true, ↓reduceIte, ne_eq,
    not_true_eq_false, show numericRangeTypes.contains (105 : UInt8) = true from by decide, or_true, h93,
    Bool.not_true, hrsk, hrsc, hlsc, hdelta, hnum, bind, Except.bind, pure, Except.pure, true_or, and_true,
    decide_true]
  simp [orUndef, hdelta none, hnum]

/-! ### the list loops with a context-dependent first argument -/

/-- one turn of the scanner's loop, from what `rtosc_scan_arg_val` returns in this context -/
theorem scanLoop_step' (t : Bytes) (cs : List Cell) (rest : Bytes) (f n i : Nat) (prevOk : Bool)
    (done : List Cell) (rd sk : Nat)
    (hscan : C11.scanArgVal ((t ++ rest).length + 2) (t ++ rest) done.reverse (if prevOk then i else 0) true =
      .ok (t.length, cs))
    (hcpr : ∃ b, canPrecedeRange cs = .ok b) (hoff : nextArgOffset (cs.length + 1) cs = .ok cs.length)
    (hi : i < n) (hsk : skipSpaceComments (rest.length + 1) rest = .ok sk) :
    ∃ b, C11.scanArgValsLoop (f + 1) (t ++ rest) n i prevOk done rd =
      C11.scanArgValsLoop f (rest.drop sk) n (i + cs.length) b (done ++ cs) (rd + t.length + sk) := by
  obtain ⟨b, hb⟩ := hcpr
  refine ⟨b, ?_⟩
  conv => lhs; unfold C11.scanArgValsLoop
  simp only [hi, ↓reduceIte, hscan, hb, advance_append, hoff, hsk, bind, Except.bind, pure, Except.pure,
    ne_eq, not_true_eq_false]

/-- one turn of the checker's loop, from what `rtosc_skip_next_printed_arg` returns in this context -/
theorem countLoop_step' (t : Bytes) (k : Nat) (rest body : Bytes) (f : Nat) (recent : Option Bytes) (num : Int)
    (hstart : TokStart t)
    (hskip : ∃ r, C11.skipNextPrintedArg (lookBackFuel (t ++ rest) recent) (t ++ rest) 0 recent true false = .ok r ∧
      r.src = some rest ∧ r.skipped = k)
    (hsk : (if hd (skipSpace rest) ≠ 0 then skipCommentLines ((skipSpace rest).length + 1) (skipSpace rest)
      else (pure (skipSpace rest) : Res Bytes)) = .ok body)
    (hlt : body.length < (t ++ rest).length) :
    C11.countLoop (f + 1) (some (t ++ rest)) recent num = C11.countLoop f (some body) (some (t ++ rest)) (num + k) := by
  obtain ⟨h0, _, hn0, _, _, _, h47, _⟩ := hstart
  have hhd : hd (t ++ rest) = hd t := hd_append_of_ne_nil _ _ h0
  obtain ⟨r, hr, hsrc, hskipped⟩ := hskip
  conv => lhs; unfold C11.countLoop
  simp only [hhd, ne_eq, hn0, not_false_eq_true, h47, and_self, ↓reduceIte, hr, bind, Except.bind, hsrc]
  have hnot : ¬ (body.length ≥ (t ++ rest).length) := by omega
  by_cases h0' : hd (skipSpace rest) = 0
  · simp only [h0', ne_eq, not_true_eq_false, ↓reduceIte, pure, Except.pure] at hsk ⊢
    have hb : skipSpace rest = body := by injection hsk
    simp only [hb, hnot, ↓reduceIte, hskipped]
  · simp only [h0', ne_eq, not_false_eq_true, ↓reduceIte] at hsk ⊢
    simp only [hsk, hnot, ↓reduceIte, hskipped, pure, Except.pure]

/-- the text of `b ... c` -/
def rangeTok (x z : Int) (w1 w2 : Bytes) : Bytes := fmtDec x ++ rangeRest w1 w2 (fmtDec z) []

theorem rangeTok_append (x z : Int) (w1 w2 rest : Bytes) :
    rangeTok x z w1 w2 ++ rest = fmtDec x ++ rangeRest w1 w2 (fmtDec z) rest := by
  simp [rangeTok, rangeRest]

theorem rangeTok_length (x z : Int) (w1 w2 rest : Bytes) :
    (fmtDec x ++ rangeRest w1 w2 (fmtDec z) rest).length - rest.length = (rangeTok x z w1 w2).length := by
  simp [rangeTok, rangeRest]; omega

/-- what follows the first argument: a tail, or separating gaps and a text of good arguments -/
inductive Follow : List (Bytes × List Cell) → Bytes → Prop
  | tail (tail : Bytes) : Tail tail → Follow [] tail
  | more (g : List Gap) (tcs : List (Bytes × List Cell)) (text : Bytes) : SepGaps g → ArgsLay tcs text →
      Follow tcs (gapsBytes g ++ text)

theorem Follow.sep {tcs : List (Bytes × List Cell)} {rest : Bytes} (h : Follow tcs rest) : Sep rest := by
  cases h with
  | tail tail ht => exact ht.sep
  | more g tcs text hg hl => exact sep_gaps g hg text (by simpa using Body.of_tokStart hl.start [])

/-- **`rtosc_scan_arg_vals`** on gaps, a first argument that is read as `cs` when nothing stands
    before it, and what follows -/
theorem scanArgVals_first (lead : List Gap) (t : Bytes) (cs : List Cell) (hstart : TokStart t) (hne : cs ≠ [])
    {tcs : List (Bytes × List Cell)} {rest : Bytes} (hf : Follow tcs rest)
    (hscan : C11.scanArgVal ((t ++ rest).length + 2) (t ++ rest) [] 0 true = .ok (t.length, cs))
    (hcpr : ∃ b, canPrecedeRange cs = .ok b) (hoff : nextArgOffset (cs.length + 1) cs = .ok cs.length) :
    C11.scanArgVals (gapsBytes lead ++ (t ++ rest)) (cs ++ allCells tcs).length =
      .ok ((gapsBytes lead ++ (t ++ rest)).length, cs ++ allCells tcs) := by
  have hstop : Stop (t ++ rest) := Stop.of_tokStart hstart rest
  have hpos : 0 < cs.length := List.length_pos_iff.mpr hne
  unfold C11.scanArgVals
  rw [scanSkip_gaps lead (t ++ rest) hstop]
  simp only [bind, Except.bind, List.drop_left]
  cases hf with
  | tail _ ht =>
    obtain ⟨b, hstep⟩ := scanLoop_step' t cs rest ((cs ++ allCells []).length) (cs ++ allCells []).length 0 true []
      (gapsBytes lead).length rest.length (by simpa using hscan) hcpr hoff (by simp [allCells]; omega)
      (scanSkip_tail ht)
    rw [hstep]
    have hlen : (cs ++ allCells []).length = cs.length := by simp [allCells]
    rw [hlen]
    obtain ⟨f', hf'⟩ : ∃ f', cs.length = f' + 1 := ⟨cs.length - 1, by omega⟩
    rw [hf']
    unfold C11.scanArgValsLoop
    simp [allCells, pure, Except.pure, ← hf']
    omega
  | more g tcs text hg hl =>
    have hstop2 : Stop text := by simpa using Stop.of_tokStart hl.start []
    obtain ⟨b, hstep⟩ := scanLoop_step' t cs (gapsBytes g ++ text) ((cs ++ allCells tcs).length)
      (cs ++ allCells tcs).length 0 true [] (gapsBytes lead).length (gapsBytes g).length (by simpa using hscan) hcpr hoff
      (by simp only [List.length_append]; omega) (scanSkip_gaps g text hstop2)
    rw [hstep, List.drop_left]
    have := scanLoop_argsLay hl ((cs ++ allCells tcs).length) (cs ++ allCells tcs).length (0 + cs.length) b
      ([] ++ cs) ((gapsBytes lead).length + t.length + (gapsBytes g).length)
      (by simp only [List.length_append]; omega)
      (by have := hl.length_le_cells; simp only [List.length_append]; omega)
    rw [this]
    simp only [List.length_append, List.nil_append]
    congr 2; omega

/-- **`rtosc_count_printed_arg_vals`** on the same text -/
theorem countPrintedArgVals_first (lead : List Gap) (t : Bytes) (cs : List Cell) (hstart : TokStart t)
    {tcs : List (Bytes × List Cell)} {rest : Bytes} (hf : Follow tcs rest)
    (hskip : ∃ r, C11.skipNextPrintedArg ((t ++ rest).length + 2) (t ++ rest) 0 none true false = .ok r ∧
      r.src = some rest ∧ r.skipped = cs.length) :
    C11.countPrintedArgVals (gapsBytes lead ++ (t ++ rest)) = .ok ((cs ++ allCells tcs).length : Int) := by
  have hstop : Stop (t ++ rest) := Stop.of_tokStart hstart rest
  have hle := numComments_le_skipSpace lead (t ++ rest)
  have hpos := List.length_pos_iff.mpr hstart.1
  have hskip : ∃ r, C11.skipNextPrintedArg (lookBackFuel (t ++ rest) none) (t ++ rest) 0 none true false = .ok r ∧
      r.src = some rest ∧ r.skipped = cs.length := by
    have e : lookBackFuel (t ++ rest) none = (t ++ rest).length + 2 := by simp [lookBackFuel]
    rw [e]; exact hskip
  unfold C11.countPrintedArgVals
  show (do let s1 ← skipCommentLines ((skipSpace (gapsBytes lead ++ (t ++ rest))).length + 1)
                (skipSpace (gapsBytes lead ++ (t ++ rest)))
           C11.countLoop (s1.length + 1) (some s1) none 0) = _
  rw [skipCommentLines_gaps lead (t ++ rest) _ (by omega)]
  obtain ⟨f, hf'⟩ : ∃ f, (skipSpace (gapsBytes lead ++ (t ++ rest))).length + 1 - numComments lead = f + 1 :=
    ⟨(skipSpace (gapsBytes lead ++ (t ++ rest))).length - numComments lead, by omega⟩
  rw [hf', skipCommentLines_stop f (t ++ rest) hstop]
  simp only [bind, Except.bind]
  cases hf with
  | tail _ ht =>
    rw [countLoop_step' t cs.length rest [] (t ++ rest).length none 0 hstart hskip (checkSkip_tail ht)
      (by simp only [List.length_nil, List.length_append]; omega)]
    obtain ⟨f', hf''⟩ : ∃ f', (t ++ rest).length = f' + 1 := ⟨(t ++ rest).length - 1, by simp only [List.length_append]; omega⟩
    rw [hf'']
    unfold C11.countLoop
    simp [allCells]
  | more g tcs text hg hl =>
    have hstop2 : Stop text := by simpa using Stop.of_tokStart hl.start []
    rw [countLoop_step' t cs.length (gapsBytes g ++ text) text (t ++ (gapsBytes g ++ text)).length none 0 hstart hskip
      (checkSkip_gaps g text hstop2) (by simp only [List.length_append]; omega)]
    rw [countLoop_argsLay hl _ _ _ (by have := hl.length_le; simp only [List.length_append]; omega)]
    simp only [List.length_append]
    congr 1
    push_cast
    omega

/-! ### `b ... c` as the first value -/

/-- the cells of `b ... c` without a left neighbour: `|c - b| + 1` values from `b` in steps of ±1 -/
def rangeCells (x z : Int) : List Cell :=
  [Cell.rep (((z - x).natAbs : Int) + 1) 1, Cell.int .i (if x < z then 1 else -1), Cell.int .i x]

/-- checker and scanner on gaps, `b ... c` (decimal 'i' integers, at least one white-space
    character in front of the dots), and what follows -/
theorem range_first_lay (x z : Int) (hx1 : -2147483648 ≤ x) (hx2 : x ≤ 2147483647)
    (hz1 : -2147483648 ≤ z) (hz2 : z ≤ 2147483647) (hxz : x ≠ z) (hwid : (z - x).natAbs ≤ 2147483646)
    (lead : List Gap) (w1 w2 : Bytes) (hw1 : AllWs w1) (hne : w1 ≠ []) (hw2 : AllWs w2)
    {tcs : List (Bytes × List Cell)} {rest : Bytes} (hf : Follow tcs rest) :
    C11.countPrintedArgVals (gapsBytes lead ++ (rangeTok x z w1 w2 ++ rest)) =
      .ok ((rangeCells x z ++ allCells tcs).length : Int) ∧
    C11.scanArgVals (gapsBytes lead ++ (rangeTok x z w1 w2 ++ rest)) (rangeCells x z ++ allCells tcs).length =
      .ok ((gapsBytes lead ++ (rangeTok x z w1 w2 ++ rest)).length, rangeCells x z ++ allCells tcs) := by
  have hdelta : ∀ ll, C11.deltaFromArgVals ll (Cell.int .i x) (some (Cell.int .i z)) true =
      .ok (((z - x).natAbs : Int) + 1, Cell.int .i (if x < z then 1 else -1)) := by
    intro ll
    apply deltaUnity11 ll x z ((z - x).natAbs : Int) (if x < z then 1 else -1)
    · by_cases h : x < z
      · left; simp [h]
      · right; simp [h]; omega
    · by_cases h : x < z <;> simp [h] <;> omega
    · omega
    · omega
    · omega
    · omega
  have hstart : TokStart (rangeTok x z w1 w2) := tokStart_append_ri _ _ (tokStart_fmtDec x hx1 hx2)
  have hs := hf.sep
  refine ⟨?_, ?_⟩
  · apply countPrintedArgVals_first lead (rangeTok x z w1 w2) (rangeCells x z) hstart hf
    rw [rangeTok_append]
    exact ⟨_, skipNext_range0 _ x z hx1 hx2 hz1 hz2 w1 w2 rest hw1 hne hw2 hs 0 false _ _ hdelta (by omega), rfl, rfl⟩
  · apply scanArgVals_first lead (rangeTok x z w1 w2) (rangeCells x z) hstart (by simp [rangeCells]) hf
    · rw [rangeTok_append, ← rangeTok_length x z w1 w2 rest]
      exact scanArgVal_range0 _ x z hx1 hx2 hz1 hz2 w1 w2 rest hw1 hne hw2 hs [] _ _ hdelta
    · exact ⟨true, by simp [rangeCells, canPrecedeRange, deref, bind, Except.bind, pure, Except.pure]⟩
    · exact nextArgOffset_range _ _ _ rfl

/-! ### the specification's side -/

/-- a sentence that starts with the range `b ... c` of two different decimal 'i' integers -/
def rangeFirst (x z : Int) (s' : Sentence) : Sentence :=
  .range (.int x .dec false) (.int z .dec false) :: s'

theorem render_rangeFirst (x z : Int) (s' : Sentence) (L : Layout) :
    render (rangeFirst x z s') L = gapsBytes L.lead ++
      (rangeTok x z (blankBytes (L.blank [0, 1])) (blankBytes (L.blank [0, 2])) ++
        (match s' with
         | [] => trailBytes L.trail L.last
         | y :: r => sepBytes (L.sep 0) ++ (valuesText L 1 (y :: r) ++ trailBytes L.trail L.last))) := by
  cases s' with
  | nil => simp [rangeFirst, render, valuesText, SVal.text, Tok.text, intText_dec, rangeTok, rangeRest, sub]
  | cons y r => simp [rangeFirst, render, valuesText, SVal.text, Tok.text, intText_dec, rangeTok, rangeRest, sub]

theorem cmpScalar_int (x z : Int) : ArgVal.cmpScalar (Cell.int .i x) (Cell.int .i z) = ArgVal.cmp3 x z := by
  simp [ArgVal.cmpScalar, ArgVal.Cell.type]

theorem stepsOf_up (x z : Int) (h : x < z) (hw : z - x ≤ 2147483646) :
    stepsOf (Cell.int .i x) (Cell.int .i z) (Cell.int .i 1) = some (z - x).toNat := by
  unfold stepsOf
  simp only []
  rw [if_pos ⟨by decide, by omega, by omega, by omega⟩]
  congr 2; omega

theorem stepsOf_down (x z : Int) (h : z < x) (hw : x - z ≤ 2147483646) :
    stepsOf (Cell.int .i x) (Cell.int .i z) (Cell.int .i (-1)) = some (x - z).toNat := by
  have e1 : (z - x) % (-1) = 0 := by rw [Int.emod_neg]; omega
  have e2 : (z - x) / (-1) = x - z := by rw [Int.ediv_neg]; omega
  unfold stepsOf
  simp only []
  rw [if_pos ⟨by decide, e1, by rw [e2]; omega, by rw [e2]; omega⟩, e2]

theorem cells_range_first (x z : Int) (hxz : x ≠ z) (hwid : (z - x).natAbs ≤ 2147483646)
    (s' : Sentence) (L : Layout) (hp : provedFrom L 1 s') :
    cells (rangeFirst x z s') = some (rangeCells x z ++ pCells s') := by
  have hneq : numEq (Cell.int .i x) (Cell.int .i z) = false := by
    simp [numEq, cmpScalar_int, cmp3_ne x z hxz]
  by_cases hlt : x < z
  · have hup : ArgVal.cmpScalar (Cell.int .i z) (Cell.int .i x) = 1 := by rw [cmpScalar_int, cmp3_gt z x hlt]
    have hst := stepsOf_up x z hlt (by omega)
    have hrec := denoteElems_proved L s' 1 (rangeLast ((z - x).toNat + 1) (Cell.int .i 1) (Cell.int .i x)) hp
    simp [rangeFirst, cells, denote, denoteElems, floatRangeBlocks, Tok.cell, isNumTy, hneq, rangeStep,
      unitStep, hup, hst, hrec, flatList, Rtosc.ArgVal.Item.flat, flatList_pitems, rangeCells, hlt, pCells, ArgVal.Cell.type]
    omega
  · have hlt' : z < x := by omega
    have hup : ArgVal.cmpScalar (Cell.int .i z) (Cell.int .i x) = -1 := by rw [cmpScalar_int, cmp3_lt z x hlt']
    have hst := stepsOf_down x z hlt' (by omega)
    have hrec := denoteElems_proved L s' 1 (rangeLast ((x - z).toNat + 1) (Cell.int .i (-1)) (Cell.int .i x)) hp
    simp [rangeFirst, cells, denote, denoteElems, floatRangeBlocks, Tok.cell, isNumTy, hneq, rangeStep,
      unitStep, hup, hst, hrec, flatList, Rtosc.ArgVal.Item.flat, flatList_pitems, rangeCells, hlt, pCells, ArgVal.Cell.type]
    omega
