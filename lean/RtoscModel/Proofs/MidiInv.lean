/-
  C20 — the system invariant `Inv` (both halves and both channels) and its preservation
  by every hazard-free step: no crash, consistent snapshots in flight, `pending` = the
  requests under way, no controller learned twice, enough watches for the learn queue.
-/
import RtoscModel.Proofs.MidiNrt
set_option linter.unusedSimpArgs false
namespace Rtosc.Midi

/-! ### cloneValues / handleCC never index outside well-formed snapshots -/

theorem cloneInner_ok (d : MapEnt) (src : Storage) (hs : StOk src) :
    ∀ (l : List MapEnt) (vals : List Nat), (∀ e ∈ l, e ∈ src.mapping) → d.slot < vals.length →
      ∃ v, cloneInner d src l vals = some v ∧ v.length = vals.length := by
  intro l
  induction l with
  | nil => intro vals _ _; exact ⟨vals, rfl, rfl⟩
  | cons s rest ih =>
    intro vals hl hd
    have hsm : s ∈ src.mapping := hl s List.mem_cons_self
    have hsl : s.slot < src.values.length := by rw [hs.vals]; exact hs.slots s hsm
    have hrest : ∀ e ∈ rest, e ∈ src.mapping := fun e he => hl e (List.mem_cons_of_mem _ he)
    unfold cloneInner
    by_cases hid : d.id = s.id
    · simp only [hid, ↓reduceIte]
      rw [List.getElem?_eq_getElem hsl, List.getElem?_eq_getElem hd]
      simp only
      obtain ⟨v, hv, hlen⟩ := ih (vals.set d.slot (blit d.coarse (if s.coarse then src.values[s.slot] >>> 7 else src.values[s.slot] &&& 0x7f) vals[d.slot])) hrest (by simpa using hd)
      exact ⟨v, hv, by simpa using hlen⟩
    · simp only [hid, ↓reduceIte]
      exact ih vals hrest hd

theorem cloneOuter_ok (src : Storage) (hs : StOk src) :
    ∀ (l : List MapEnt) (vals : List Nat), (∀ e ∈ l, e.slot < vals.length) →
      ∃ v, cloneOuter src l vals = some v ∧ v.length = vals.length := by
  intro l
  induction l with
  | nil => intro vals _; exact ⟨vals, rfl, rfl⟩
  | cons d rest ih =>
    intro vals hl
    obtain ⟨v1, h1, hlen1⟩ := cloneInner_ok d src hs src.mapping vals (fun _ h => h) (hl d List.mem_cons_self)
    obtain ⟨v2, h2, hlen2⟩ := ih v1 (fun e he => by rw [hlen1]; exact hl e (List.mem_cons_of_mem _ he))
    exact ⟨v2, by simp [cloneOuter, h1, h2], by rw [hlen2, hlen1]⟩

theorem cloneValues_ok {n old : Storage} (hn : StOk n) (ho : StOk old) :
    ∃ v, n.cloneValues old = some { n with values := v } ∧ v.length = n.values.length := by
  obtain ⟨v, hv, hlen⟩ := cloneOuter_ok old ho n.mapping (List.replicate n.values.length 0)
    (fun e he => by simp only [List.length_replicate]; rw [hn.vals]; exact hn.slots e he)
  exact ⟨v, by simp [Storage.cloneValues, hv], by simpa using hlen⟩

theorem stOk_values {st : Storage} (h : StOk st) (v : List Nat) (hv : v.length = st.values.length) :
    StOk { st with values := v } :=
  ⟨h.slots, by simp [hv, h.vals], h.nodup⟩

theorem not_mem_ids_of_find?_none {m : List MapEnt} {id : Nat}
    (h : m.find? (fun e => e.id == id) = none) : id ∉ ids m := by
  intro hm
  obtain ⟨e, he, hid⟩ := mem_ids.mp hm
  have := List.find?_eq_none.mp h e he
  simp [hid] at this

theorem handleCC_ok {st : Storage} (h : StOk st) (id val : Nat) :
    (st.mapping.find? (fun e => e.id == id) = none ∧ st.handleCC id val = some (st, none)) ∨
    (∃ e old cb, st.mapping.find? (fun e => e.id == id) = some e ∧ e ∈ st.mapping ∧ e.id = id ∧
      st.values[e.slot]? = some old ∧ st.callbacks[e.slot]? = some cb ∧
      st.handleCC id val = some ({ st with values := st.values.set e.slot (blit e.coarse val old) },
                                  some (cb.fire (blit e.coarse val old)))) := by
  cases hf : st.mapping.find? (fun e => e.id == id) with
  | none => left; simp [Storage.handleCC, hf]
  | some e =>
    right
    have hem : e ∈ st.mapping := List.mem_of_find?_eq_some hf
    have hid : e.id = id := by have := List.find?_some hf; simpa using this
    have h1 : e.slot < st.callbacks.length := h.slots e hem
    have h2 : e.slot < st.values.length := by rw [h.vals]; exact h1
    refine ⟨e, st.values[e.slot], st.callbacks[e.slot], rfl, hem, hid, List.getElem?_eq_getElem h2,
      List.getElem?_eq_getElem h1, ?_⟩
    simp [Storage.handleCC, hf, List.getElem?_eq_getElem h1, List.getElem?_eq_getElem h2]

/-! ### channels -/

/-- the `midi-bind` messages of the nRT → RT channel, in order -/
def flightOf : List RtMsg → List (Storage × Option Nat)
  | [] => []
  | .addWatch :: r => flightOf r
  | .bind st a :: r => (st, a) :: flightOf r

/-- number of `midi-add-watch` messages in the channel -/
def watchesOf : List RtMsg → Nat
  | [] => 0
  | .addWatch :: r => watchesOf r + 1
  | .bind _ _ :: r => watchesOf r

theorem flightOf_append (a b : List RtMsg) : flightOf (a ++ b) = flightOf a ++ flightOf b := by
  induction a with
  | nil => rfl
  | cons m r ih => cases m <;> simp [flightOf, ih]

theorem watchesOf_append (a b : List RtMsg) : watchesOf (a ++ b) = watchesOf a + watchesOf b := by
  induction a with
  | nil => simp [watchesOf]
  | cons m r ih => cases m <;> simp [watchesOf, ih] <;> omega

/-- the answered controllers of the binds in flight -/
def answers (fl : List (Storage × Option Nat)) : List Nat := fl.filterMap (·.2)

@[simp] theorem answers_nil : answers [] = [] := rfl
theorem answers_cons (st : Storage) (a : Option Nat) (r) :
    answers ((st, a) :: r) = a.toList ++ answers r := by cases a <;> simp [answers]
theorem answers_append (a b) : answers (a ++ b) = answers a ++ answers b := by simp [answers]

def Storage.shape (st : Storage) : List MapEnt × List Cb × Nat := (st.mapping, st.callbacks, st.values.length)

def omap (o : Option Storage) : List MapEnt := match o with | none => [] | some st => st.mapping

/-- every ID that a snapshot in flight adds to its predecessor is the controller whose
    request it answers -/
def ChainOk : List MapEnt → List (Storage × Option Nat) → Prop
  | _, [] => True
  | prev, (st, ans) :: rest =>
    (∀ id ∈ ids st.mapping, id ∈ ids prev ∨ ans = some id) ∧ ChainOk st.mapping rest

/-- mapping of the newest snapshot: the last one in flight, else the one the RT half holds -/
def chainEnd : List MapEnt → List (Storage × Option Nat) → List MapEnt
  | prev, [] => prev
  | _, (st, _) :: rest => chainEnd st.mapping rest

def lastShape : Option Storage → List (Storage × Option Nat) → Option (List MapEnt × List Cb × Nat)
  | o, [] => o.map Storage.shape
  | _, (st, _) :: rest => lastShape (some st) rest

theorem chainEnd_of_lastShape (o n : Option Storage) (fl) (h : lastShape o fl = n.map Storage.shape) :
    chainEnd (omap o) fl = omap n := by
  induction fl generalizing o with
  | nil =>
    simp only [lastShape] at h
    cases o <;> cases n <;> simp_all [omap, chainEnd, Storage.shape]
  | cons x rest ih =>
    obtain ⟨st, a⟩ := x
    simp only [lastShape] at h
    simpa [chainEnd, omap] using ih (some st) h

theorem lastShape_append (o : Option Storage) (fl) (st : Storage) (a : Option Nat) :
    lastShape o (fl ++ [(st, a)]) = some st.shape := by
  induction fl generalizing o with
  | nil => simp [lastShape]
  | cons x rest ih => obtain ⟨st', a'⟩ := x; simpa [lastShape] using ih (some st')

theorem chainOk_append (prev fl) (st : Storage) (a : Option Nat) (h : ChainOk prev fl)
    (hn : ∀ id ∈ ids st.mapping, id ∈ ids (chainEnd prev fl) ∨ a = some id) :
    ChainOk prev (fl ++ [(st, a)]) := by
  induction fl generalizing prev with
  | nil => exact ⟨hn, trivial⟩
  | cons x rest ih =>
    obtain ⟨st', a'⟩ := x
    exact ⟨h.1, ih st'.mapping h.2 hn⟩

/-- IDs of the newest snapshot are IDs the RT half already has or answers in flight -/
theorem chainEnd_ids (prev fl) (h : ChainOk prev fl) :
    ∀ id ∈ ids (chainEnd prev fl), id ∈ ids prev ∨ id ∈ answers fl := by
  induction fl generalizing prev with
  | nil => intro id hid; exact Or.inl hid
  | cons x rest ih =>
    obtain ⟨st, a⟩ := x
    intro id hid
    rcases ih st.mapping h.2 id hid with h1 | h1
    · rcases h.1 id h1 with h2 | h2
      · exact Or.inl h2
      · right; rw [answers_cons, h2]; simp
    · right; rw [answers_cons]; exact List.mem_append_right _ h1

/-- the inputs the property quantifies over: existing addresses, 7-bit values -/
def Op.wf (P : List PortSpec) : Op → Prop
  | .map a _ => a < P.length
  | .unmap a _ => a < P.length
  | .cc _ val => val ≤ 127
  | _ => True

instance (P : List PortSpec) (op : Op) : Decidable (op.wf P) := by
  cases op <;> simp only [Op.wf] <;> infer_instance

/-- The system invariant of hazard-free histories. -/
structure Inv (P : List PortSpec) (s : Sys) : Prop where
  nrt : NrtOk P s.nrt
  fl : ∀ x ∈ flightOf s.toRT, StOk x.1
  rts : ∀ st, s.rt.storage = some st → StOk st
  chain : ChainOk (omap s.rt.storage) (flightOf s.toRT)
  last : lastShape s.rt.storage (flightOf s.toRT) = s.nrt.storage.map Storage.shape
  pend : s.rt.pending = answers (flightOf s.toRT) ++ s.toNRT
  pnd : s.rt.pending.Nodup
  c1 : ∀ id ∈ s.toNRT, id ∉ ids s.nrt.mapping
  watch : s.nrt.learnQ.length ≤ s.rt.watch + watchesOf s.toRT + s.toNRT.length

theorem omap_nrt (n : NRT) : omap n.storage = n.mapping := by
  cases h : n.storage <;> simp [omap, NRT.mapping, h]

theorem inv_init (P) : Inv P Sys.init := by
  constructor
  · exact nrtOk_init P
  all_goals simp [Sys.init, flightOf, RT.init, NRT.init, ChainOk, lastShape, watchesOf, omap, NRT.mapping]

theorem Inv.nrt_mapping {P s} (h : Inv P s) :
    chainEnd (omap s.rt.storage) (flightOf s.toRT) = s.nrt.mapping := by
  rw [← omap_nrt]; exact chainEnd_of_lastShape _ _ _ h.last

/-- appending a `midi-bind` that answers `ans` and whose IDs are those of the current
    snapshot plus possibly `ans` -/
theorem inv_send_bind {P s} (h : Inv P s) (n' : NRT) (ns : Storage) (ans : Option Nat)
    (extra : List RtMsg) (hextra : flightOf extra = [])
    (hn : NrtOk P n') (hst : n'.storage = some ns)
    (hids : ∀ id ∈ ids ns.mapping, id ∈ ids s.nrt.mapping ∨ ans = some id)
    (toNRT' : List Nat) (hpend : s.rt.pending = answers (flightOf s.toRT) ++ ans.toList ++ toNRT')
    (hc1 : ∀ id ∈ toNRT', id ∉ ids ns.mapping)
    (hw : n'.learnQ.length ≤ s.rt.watch + (watchesOf s.toRT + watchesOf extra) + toNRT'.length) :
    Inv P { s with nrt := n', toRT := s.toRT ++ [.bind ns ans] ++ extra, toNRT := toNRT' } := by
  have hfl : flightOf (s.toRT ++ [.bind ns ans] ++ extra) = flightOf s.toRT ++ [(ns, ans)] := by
    simp [flightOf_append, hextra, flightOf]
  constructor
  · exact hn
  · intro x hx
    simp only [hfl, List.mem_append, List.mem_singleton] at hx
    rcases hx with hx | rfl
    · exact h.fl x hx
    · exact hn.stok ns hst
  · exact h.rts
  · simp only [hfl]
    apply chainOk_append _ _ _ _ h.chain
    rw [h.nrt_mapping]; exact hids
  · simp only [hfl, lastShape_append, hst, Option.map_some]
  · simp only [hfl, answers_append]
    rw [hpend]; cases ans <;> simp [answers]
  · exact h.pnd
  · simpa [NRT.mapping, hst] using hc1
  · simp only [watchesOf_append, watchesOf]; omega

/-- the nRT half changes only `inv_map`/the learn queue and sends no `midi-bind` -/
theorem inv_nrt_quiet {P s} (h : Inv P s) (n' : NRT) (extra : List RtMsg) (hextra : flightOf extra = [])
    (hn : NrtOk P n') (hst : n'.storage = s.nrt.storage)
    (hw : n'.learnQ.length ≤ s.rt.watch + (watchesOf s.toRT + watchesOf extra) + s.toNRT.length) :
    Inv P { s with nrt := n', toRT := s.toRT ++ extra } := by
  have hfl : flightOf (s.toRT ++ extra) = flightOf s.toRT := by simp [flightOf_append, hextra]
  have hmp : n'.mapping = s.nrt.mapping := by simp [NRT.mapping, hst]
  constructor
  · exact hn
  · simpa [hfl] using h.fl
  · exact h.rts
  · simpa [hfl] using h.chain
  · simpa [hfl, hst] using h.last
  · simpa [hfl] using h.pend
  · exact h.pnd
  · simpa [hmp] using h.c1
  · simp only [watchesOf_append]; omega

theorem step_unmap_ok {P s} (h : Inv P s) (a : Nat) (k : Bool) :
    ∃ s', step P s (.unmap a k) = some (s', []) ∧ Inv P s' ∧ s'.rt = s.rt ∧ s'.toNRT = s.toNRT := by
  obtain ⟨n', ms, heq, hok, hq, _, _, _, hcase⟩ := unMap_ok h.nrt a k
  refine ⟨{ s with nrt := n', toRT := s.toRT ++ ms }, by simp [step, heq], ?_, rfl, rfl⟩
  rcases hcase with ⟨rfl, hst⟩ | ⟨c, st, ns, im, hst, hc, _, _, hns, hst', rfl⟩
  · exact inv_nrt_quiet h n' [] rfl hok hst (by simp [watchesOf, hq]; exact h.watch)
  · have := inv_send_bind h n' ns none [] rfl hok hst' (by
        intro id hid; left
        rw [hns] at hid
        have := (mem_ids_filter.mp hid).1
        simpa [NRT.mapping, hst] using this)
      s.toNRT (by simpa using h.pend) (by
        intro id hid hin
        rw [hns] at hin
        have := (mem_ids_filter.mp hin).1
        exact h.c1 id hid (by simpa [NRT.mapping, hst] using this))
      (by simp [watchesOf, hq]; exact h.watch)
    simpa using this

theorem step_map_ok {P : List PortSpec} {s} (h : Inv P s) (a : Nat) (k : Bool) (ha : a < P.length) :
    ∃ s', step P s (.map a k) = some (s', []) ∧ Inv P s' ∧ s'.rt = s.rt ∧ s'.toNRT = s.toNRT := by
  rcases map_ok h.nrt a k ha with ⟨_, heq⟩ | ⟨_, n1, ms, hun, heq, hok⟩
  · refine ⟨{ s with nrt := s.nrt, toRT := s.toRT ++ [] }, by simp [step, heq], ?_, rfl, rfl⟩
    simpa using h
  · obtain ⟨n', ms', heq', _, hq, _, _, _, hcase⟩ := unMap_ok h.nrt a k
    rw [hun] at heq'; cases heq'
    refine ⟨{ s with nrt := { n1 with learnQ := s.nrt.learnQ ++ [(a, k)] }, toRT := s.toRT ++ (ms ++ [.addWatch]) },
      by simp [step, heq], ?_, rfl, rfl⟩
    have hw := h.watch
    rcases hcase with ⟨rfl, hst⟩ | ⟨c, st, ns, im, hst, hc, _, _, hns, hst', rfl⟩
    · exact inv_nrt_quiet h _ [.addWatch] rfl hok hst (by simp [watchesOf]; omega)
    · have := inv_send_bind h { n1 with learnQ := s.nrt.learnQ ++ [(a, k)] } ns none [.addWatch] rfl hok hst' (by
          intro id hid; left
          rw [hns] at hid
          have := (mem_ids_filter.mp hid).1
          simpa [NRT.mapping, hst] using this)
        s.toNRT (by simpa using h.pend) (by
          intro id hid hin
          rw [hns] at hin
          have := (mem_ids_filter.mp hin).1
          exact h.c1 id hid (by simpa [NRT.mapping, hst] using this))
        (by simp [watchesOf]; omega)
      simpa using this

theorem step_clear_ok {P s} (h : Inv P s) :
    ∃ s', step P s .clear = some (s', []) ∧ Inv P s' ∧ s'.rt = s.rt ∧ s'.toNRT = s.toNRT := by
  refine ⟨{ s with nrt := ⟨[], [], some Storage.empty⟩, toRT := s.toRT ++ [.bind Storage.empty none] },
    by simp [step, NRT.clear], ?_, rfl, rfl⟩
  have hok : NrtOk P ⟨[], [], some Storage.empty⟩ := by
    constructor <;> simp [imLookup, NRT.mapping, Storage.empty]
    exact ⟨by simp, rfl, by simp⟩
  have := inv_send_bind h ⟨[], [], some Storage.empty⟩ Storage.empty none [] rfl hok rfl
    (by simp [Storage.empty]) s.toNRT (by simpa using h.pend) (by simp [Storage.empty]) (by simp)
  simpa using this

theorem lastShape_congr (o o' : Option Storage) (fl) (h : o.map Storage.shape = o'.map Storage.shape) :
    lastShape o fl = lastShape o' fl := by
  cases fl with
  | nil => simpa [lastShape] using h
  | cons x rest => obtain ⟨st, a⟩ := x; simp [lastShape]

/-- the RT half replaces its snapshot by one of the same shape (values written) -/
theorem inv_rt_values {P s} (h : Inv P s) (st : Storage) (hst : s.rt.storage = some st) (v : List Nat)
    (hv : v.length = st.values.length) :
    Inv P { s with rt := { s.rt with storage := some { st with values := v } } } := by
  constructor
  · exact h.nrt
  · exact h.fl
  · intro st' hst'; simp at hst'; subst hst'; exact stOk_values (h.rts st hst) v hv
  · simpa [omap, hst] using h.chain
  · rw [← h.last]; apply lastShape_congr; simp [hst, Storage.shape, hv]
  · exact h.pend
  · exact h.pnd
  · exact h.c1
  · exact h.watch

/-- the RT half asks for an unknown controller to be learned -/
theorem inv_request {P s} (h : Inv P s) (id : Nat) (hid : id ∉ ids (omap s.rt.storage))
    (hp : id ∉ s.rt.pending) :
    Inv P { s with rt := { s.rt with pending := s.rt.pending ++ [id], watch := s.rt.watch - 1 },
                   toNRT := s.toNRT ++ [id] } := by
  constructor
  · exact h.nrt
  · exact h.fl
  · exact h.rts
  · exact h.chain
  · exact h.last
  · simp only [h.pend, List.append_assoc]
  · simp only; rw [List.nodup_append]
    refine ⟨h.pnd, by simp, ?_⟩
    intro x hx y hy; simp at hy; subst hy; intro hxy; subst hxy; exact hp hx
  · intro x hx
    simp only [List.mem_append, List.mem_singleton] at hx
    rcases hx with hx | rfl
    · exact h.c1 x hx
    · intro hin
      rw [← h.nrt_mapping] at hin
      rcases chainEnd_ids _ _ h.chain _ hin with h1 | h1
      · exact hid h1
      · apply hp; rw [h.pend]; exact List.mem_append_left _ h1
  · have := h.watch; simp only [List.length_append, List.length_singleton]; omega

theorem any_false_of_find?_none {m : List MapEnt} {id : Nat}
    (h : m.find? (fun e => e.id == id) = none) : m.any (fun e => e.id == id) = false := by
  simp only [List.any_eq_false]
  intro e he; exact List.find?_eq_none.mp h e he

theorem step_cc_ok {P s} (h : Inv P s) (id val : Nat) (hz : hazardK2 s (.cc id val) = false) :
    ∃ s' out, step P s (.cc id val) = some (s', out) ∧ Inv P s' ∧ s'.nrt = s.nrt ∧ s'.toRT = s.toRT := by
  -- the "not handled" continuation, common to `storage = NULL` and "no entry for this ID"
  have unhandled : (hid : id ∉ ids (omap s.rt.storage)) →
      (hany : s.rt.knows id = false) →
      ∃ s' req, Inv P s' ∧ s'.nrt = s.nrt ∧ s'.toRT = s.toRT ∧
        (if !s.rt.pending.contains id ∧ s.rt.watch ≠ 0 then
          some (({ storage := s.rt.storage, pending := pendInsert s.rt.pending id, watch := s.rt.watch - 1 } : RT),
                (none : Option Msg), some id)
         else some ({ s.rt with storage := s.rt.storage }, none, none)) = some (s'.rt, none, req) ∧
        s'.toNRT = s.toNRT ++ req.toList := by
    intro hid hany
    by_cases hc : !s.rt.pending.contains id ∧ s.rt.watch ≠ 0
    · have hp : id ∉ s.rt.pending := by simpa using hc.1
      have hlen : ¬ s.rt.pending.length > 31 := by
        intro hl
        simp only [hazardK2, hany] at hz
        simp [hp, hc.2, hl] at hz
      have hins : pendInsert s.rt.pending id = s.rt.pending ++ [id] := by
        simp [pendInsert, hp, hlen]
      exact ⟨_, some id, inv_request h id hid hp, rfl, rfl, by rw [if_pos hc, hins], rfl⟩
    · exact ⟨s, none, h, rfl, rfl, by rw [if_neg hc], by simp⟩
  cases hs : s.rt.storage with
  | none =>
    obtain ⟨s', req, hinv, h1, h2, heq, h3⟩ := unhandled (by simp [omap, hs]) (by simp [RT.knows, hs])
    refine ⟨s', [], ?_, hinv, h1, h2⟩
    simp only [step, RT.handleCC, hs, Option.map_some] at heq ⊢
    simp only [heq, Option.map_some, Option.toList_none]
    congr 1; cases s'; simp_all
  | some st =>
    rcases handleCC_ok (h.rts st hs) id val with ⟨hf, heq0⟩ | ⟨e, old, cb, hf, hem, hid, hold, hcb, heq0⟩
    · obtain ⟨s', req, hinv, h1, h2, heq, h3⟩ := unhandled
        (by simpa [omap, hs] using not_mem_ids_of_find?_none hf)
        (by simp only [RT.knows, hs]; exact any_false_of_find?_none hf)
      refine ⟨s', [], ?_, hinv, h1, h2⟩
      simp only [step, RT.handleCC, hs, heq0, Option.map_some] at heq ⊢
      simp only [heq, Option.map_some, Option.toList_none]
      congr 1; cases s'; simp_all
    · refine ⟨{ s with rt := { s.rt with storage := some { st with values := st.values.set e.slot (blit e.coarse val old) } } },
        [cb.fire (blit e.coarse val old)], ?_, inv_rt_values h st hs _ (by simp), rfl, rfl⟩
      simp [step, RT.handleCC, hs, heq0]

theorem step_deliverRT_ok {P s} (h : Inv P s) (hz : hazardK2 s .deliverRT = false) :
    ∃ s', step P s .deliverRT = some (s', []) ∧ Inv P s' ∧ s'.nrt = s.nrt ∧ s'.toNRT = s.toNRT := by
  cases hq : s.toRT with
  | nil => exact ⟨s, by simp [step, hq], h, rfl, rfl⟩
  | cons m rest =>
    cases m with
    | addWatch =>
      refine ⟨{ s with rt := { s.rt with watch := s.rt.watch + 1 }, toRT := rest }, by simp [step, hq, RT.recv], ?_, rfl, rfl⟩
      have hfl : flightOf s.toRT = flightOf rest := by simp [hq, flightOf]
      have hw : watchesOf s.toRT = watchesOf rest + 1 := by simp [hq, watchesOf]
      constructor
      · exact h.nrt
      · simpa [hfl] using h.fl
      · exact h.rts
      · simpa [hfl] using h.chain
      · simpa [hfl] using h.last
      · simpa [hfl] using h.pend
      · exact h.pnd
      · exact h.c1
      · have := h.watch; simp only; omega
    | bind ns ans =>
      have hfl : flightOf s.toRT = (ns, ans) :: flightOf rest := by simp [hq, flightOf]
      have hw : watchesOf s.toRT = watchesOf rest := by simp [hq, watchesOf]
      have hns : StOk ns := h.fl (ns, ans) (by simp [hfl])
      have hchain := h.chain; rw [hfl] at hchain
      have hlast := h.last; rw [hfl] at hlast; simp only [lastShape] at hlast
      have hpend := h.pend; rw [hfl, answers_cons] at hpend
      -- what `pending.pop()` leaves
      have hdrop : s.rt.pending.drop 1 = answers (flightOf rest) ++ s.toNRT := by
        cases ans with
        | some id => simp [hpend]
        | none =>
          have he : s.rt.pending = [] := by
            simp only [hazardK2, hq] at hz; simpa using hz
          rw [he] at hpend ⊢
          simpa using hpend
      have hnd : (s.rt.pending.drop 1).Nodup := List.Nodup.sublist (List.drop_sublist _ _) h.pnd
      -- the snapshot the RT half ends up with
      have key : ∀ ns' : Storage, ns'.mapping = ns.mapping → ns'.shape = ns.shape → StOk ns' →
          Inv P { s with rt := { s.rt with pending := s.rt.pending.drop 1, storage := some ns' }, toRT := rest } := by
        intro ns' hm hsh hok
        constructor
        · exact h.nrt
        · intro x hx; exact h.fl x (by rw [hfl]; exact List.mem_cons_of_mem _ hx)
        · intro st hst; simp at hst; subst hst; exact hok
        · simpa [omap, hm] using hchain.2
        · rw [← hlast]; apply lastShape_congr; simp [hsh]
        · exact hdrop
        · exact hnd
        · exact h.c1
        · have := h.watch; simp only; omega
      cases hs : s.rt.storage with
      | none =>
        exact ⟨_, by simp [step, hq, RT.recv, hs], key ns rfl rfl hns, rfl, rfl⟩
      | some old =>
        obtain ⟨v, hv, hlen⟩ := cloneValues_ok hns (h.rts old hs)
        exact ⟨_, by simp [step, hq, RT.recv, hs, hv], key { ns with values := v } rfl
          (by simp [Storage.shape, hlen]) (stOk_values hns v hlen), rfl, rfl⟩

theorem step_deliverNRT_ok {P s} (h : Inv P s) (hz : hazardK1 s .deliverNRT = false) :
    ∃ s', step P s .deliverNRT = some (s', []) ∧ Inv P s' ∧ s'.rt = s.rt := by
  cases hq : s.toNRT with
  | nil => exact ⟨s, by simp [step, hq], h, rfl⟩
  | cons id rest =>
    cases hl : s.nrt.learnQ with
    | nil => simp [hazardK1, hq, hl] at hz
    | cons x q =>
      obtain ⟨a, k⟩ := x
      have hid : id ∉ ids s.nrt.mapping := h.c1 id (by simp [hq])
      obtain ⟨n', ns, slot, cb, p, extra, heq, hok, hst, hq', hmp, _, _, _, _, _, _, _, _⟩ :=
        useFreeID_ok id h.nrt hl hid
      refine ⟨{ s with nrt := n', toNRT := rest, toRT := s.toRT ++ [.bind ns (some id)] },
        by simp [step, hq, heq], ?_, rfl⟩
      have hpnd := h.pnd
      rw [h.pend, hq] at hpnd
      have hnotin : id ∉ rest := by
        have := (List.nodup_append.mp hpnd).2.1
        exact (List.nodup_cons.mp this).1
      have := inv_send_bind h n' ns (some id) [] rfl hok hst (by
          intro x hx; rw [hmp] at hx; simp at hx
          rcases hx with hx | hx
          · exact Or.inl hx
          · exact Or.inr (by rw [hx]))
        rest (by rw [h.pend, hq]; simp) (by
          intro x hx hin; rw [hmp] at hin; simp at hin
          rcases hin with hin | hin
          · exact h.c1 x (by rw [hq]; exact List.mem_cons_of_mem _ hx) hin
          · subst hin; exact hnotin hx)
        (by have := h.watch; rw [hl, hq] at this; simp [watchesOf, hq'] at this ⊢; omega)
      simpa using this

theorem hazard_false {s op} (h : hazard s op = false) : hazardK1 s op = false ∧ hazardK2 s op = false := by
  simpa [hazard] using h

/-- **Preservation**: a hazard-free step on well-formed input never crashes and keeps the
    invariant. -/
theorem inv_step {P s op} (h : Inv P s) (hwf : op.wf P) (hz : hazard s op = false) :
    ∃ s' out, step P s op = some (s', out) ∧ Inv P s' := by
  obtain ⟨h1, h2⟩ := hazard_false hz
  cases op with
  | map a k => obtain ⟨s', he, hi, _⟩ := step_map_ok h a k hwf; exact ⟨s', [], he, hi⟩
  | unmap a k => obtain ⟨s', he, hi, _⟩ := step_unmap_ok h a k; exact ⟨s', [], he, hi⟩
  | clear => obtain ⟨s', he, hi, _⟩ := step_clear_ok h; exact ⟨s', [], he, hi⟩
  | cc id val => obtain ⟨s', out, he, hi, _⟩ := step_cc_ok h id val h2; exact ⟨s', out, he, hi⟩
  | deliverRT => obtain ⟨s', he, hi, _⟩ := step_deliverRT_ok h h2; exact ⟨s', [], he, hi⟩
  | deliverNRT => obtain ⟨s', he, hi, _⟩ := step_deliverNRT_ok h h1; exact ⟨s', [], he, hi⟩

/-- A history: the (state before, op) pairs, most recent first, leading from the initial
    state to the current one. -/
inductive Trace (P : List PortSpec) : List (Sys × Op) → Sys → Prop
  | init : Trace P [] Sys.init
  | step {h s s' op out} : Trace P h s → op.wf P → step P s op = some (s', out) →
      Trace P ((s, op) :: h) s'

def HazardFree (h : List (Sys × Op)) : Prop := ∀ x ∈ h, hazard x.1 x.2 = false

theorem inv_of_trace {P h s} (t : Trace P h s) (hf : HazardFree h) : Inv P s := by
  induction t with
  | init => exact inv_init P
  | step t hwf hs ih =>
    rename_i h0 s0 s1 op out
    have hi := ih (fun x hx => hf x (List.mem_cons_of_mem _ hx))
    have hz : hazard s0 op = false := hf (s0, op) List.mem_cons_self
    obtain ⟨s', out', he, hinv⟩ := inv_step hi hwf hz
    rw [hs] at he; cases he; exact hinv

/-- the executable `run`/`anyStep` of the model versus traces -/
theorem trace_of_run {P : List PortSpec} :
    ∀ (ops : List Op) (h0 : List (Sys × Op)) (s0 s : Sys) (outs : List (List Msg)),
      Trace P h0 s0 → (∀ op ∈ ops, op.wf P) → run P s0 ops = some (s, outs) →
      ∃ h, Trace P (h ++ h0) s ∧ h.map (·.2) = ops.reverse ∧
        (anyStep hazard P s0 ops = false → ∀ x ∈ h, hazard x.1 x.2 = false) := by
  intro ops
  induction ops with
  | nil =>
    intro h0 s0 s outs t _ hr
    simp only [run, Option.some.injEq, Prod.mk.injEq] at hr
    obtain ⟨rfl, _⟩ := hr
    exact ⟨[], by simpa using t, rfl, by simp⟩
  | cons op ops ih =>
    intro h0 s0 s outs t hwf hr
    simp only [run] at hr
    cases hs : step P s0 op with
    | none => simp [hs] at hr
    | some r =>
      obtain ⟨s1, out⟩ := r
      simp only [hs] at hr
      cases hr2 : run P s1 ops with
      | none => simp [hr2] at hr
      | some r2 =>
        obtain ⟨s2, outs2⟩ := r2
        simp only [hr2, Option.some.injEq, Prod.mk.injEq] at hr
        obtain ⟨rfl, _⟩ := hr
        have t1 : Trace P ((s0, op) :: h0) s1 := Trace.step t (hwf op List.mem_cons_self) hs
        obtain ⟨h, ht, hm, hz⟩ := ih ((s0, op) :: h0) s1 s2 outs2 t1
          (fun o ho => hwf o (List.mem_cons_of_mem _ ho)) hr2
        refine ⟨h ++ [(s0, op)], by simpa using ht, by simp [hm], ?_⟩
        intro ha x hx
        simp only [anyStep, hs, Bool.or_eq_false_iff] at ha
        simp only [List.mem_append, List.mem_singleton] at hx
        rcases hx with hx | rfl
        · exact hz ha.2 x hx
        · exact ha.1

theorem anyStep_hazard (P : List PortSpec) : ∀ (ops : List Op) (s : Sys),
    anyStep hazard P s ops = (anyStep hazardK1 P s ops || anyStep hazardK2 P s ops) := by
  intro ops
  induction ops with
  | nil => intro s; rfl
  | cons op ops ih =>
    intro s
    simp only [anyStep, hazard]
    cases hs : step P s op with
    | none => simp
    | some r => simp only [ih r.1]; cases hazardK1 s op <;> cases hazardK2 s op <;> simp

/-- A run from the initial state whose two trigger predicates are false is a hazard-free
    trace; so the invariant holds at its end. -/
theorem inv_of_run {P : List PortSpec} {ops s outs} (hwf : ∀ op ∈ ops, op.wf P)
    (k1 : triggerK1 P ops = false) (k2 : triggerK2 P ops = false)
    (hr : run P Sys.init ops = some (s, outs)) :
    ∃ h, Trace P h s ∧ HazardFree h ∧ Inv P s := by
  obtain ⟨h, ht, _, hz⟩ := trace_of_run ops [] Sys.init s outs Trace.init hwf hr
  have hfree : anyStep hazard P Sys.init ops = false := by
    rw [anyStep_hazard]; simp only [triggerK1, triggerK2] at k1 k2; simp [k1, k2]
  have ht' : Trace P h s := by simpa using ht
  exact ⟨h, ht', hz hfree, inv_of_trace ht' (hz hfree)⟩

end Rtosc.Midi
