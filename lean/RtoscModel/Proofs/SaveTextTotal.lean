/-
  C12, text level — a closed-form cut for arrays of values whose type `rtosc_convert_to_range` never
  turns into an arithmetic run (`numeric_range_convertible_types` = "cihTF": floats, option symbols
  and strings are outside): the printer's segments are the maximal constant runs of five or more
  elements and plain values (`cutC`).  `cutC_ok`: for cells that are pairwise either equal or not
  identical in the sense of `range_args_identical`, `cutC` is a `CutOK` cut — for arrays of ANY
  length and content.  Instance: every array of finite floats (`arrCutOK_floats`).
-/
import RtoscModel.Proofs.SaveTextCrit
set_option linter.unusedSimpArgs false
set_option linter.unusedVariables false
namespace Rtosc.Save.Text
open Rtosc Rtosc.Libc Rtosc.Pretty Rtosc.Save
open Rtosc.ArgVal (Cell)

/-! ### `rtosc_convert_to_range` on short constant runs -/

/-- two to four equal values followed by a different one: nothing is converted -/
theorem convertToRange_shortConst (c : Cell) (hsc : c.isScalar = true) (hid : SelfIdentical c) (k : Nat)
    (h2 : 2 ≤ k) (h5 : k < 5) (R : List Cell) (hR : ∀ x ∈ R, x.isScalar = true)
    (hnext : R = [] ∨ ∀ more, rangeArgsIdentical (c :: more) R = .ok false) :
    convertToRange defaultOpt (List.replicate k c ++ R) (k + R.length) = .ok none := by
  have h0 : List.replicate k c ++ R = c :: (List.replicate (k - 0 - 1) c ++ R) := by
    simpa using drop_replicate_append k 0 c R (by omega)
  have hall : ∀ x ∈ List.replicate k c ++ R, x.isScalar = true := by
    intro x hx
    rcases List.mem_append.mp hx with h | h
    · rw [(List.mem_replicate.mp h).2]; exact hsc
    · exact hR x h
  unfold convertToRange
  by_cases hs : k + R.length < rangeMin
  · simp [hs, pure, Except.pure]
  · obtain ⟨m, hcc⟩ := countCommon_ok c.type (List.replicate k c ++ R) hall (k + R.length) (by simp)
      (k + R.length + 1) 0 0 (by omega)
    have her := extendRun_replicate_next c hsc hid k R hnext (k + R.length + 1) 1 1 (by omega) (by omega) (by omega)
    simp only [hs, ↓reduceIte, bind, Except.bind]
    rw [h0] at hcc her ⊢
    simp only [Pretty.deref, scalar_type_ne_range c hsc, show defaultOpt.compress = true from rfl, Bool.not_true,
      Bool.false_eq_true, or_self, ↓reduceIte, hcc, incsize_scalar c _ hsc]
    by_cases hm : m < rangeMin
    · simp [hm, pure, Except.pure]
    · have hident : rangeArgsIdentical (c :: (List.replicate (k - 0 - 1) c ++ R))
          (List.drop 1 (c :: (List.replicate (k - 0 - 1) c ++ R))) = .ok true := by
        simp only [List.drop_succ_cons, List.drop_zero]
        obtain ⟨j, hj⟩ : ∃ j, k - 0 - 1 = j + 1 := ⟨k - 2, by omega⟩
        rw [hj, List.replicate_succ]; exact hid _ _
      simp only [hm, ↓reduceIte, hident, pure, Except.pure, her]
      have hlt : ¬ (1 + (k - 1) ≥ rangeMin) := by unfold rangeMin; omega
      simp [hlt]

/-- a value of a type outside "cihTF" followed by a different one: nothing is converted -/
theorem convertToRange_single_other (c : Cell) (hsc : c.isScalar = true)
    (hty : (lit "cihTF").contains c.type = false) (R : List Cell) (hR : ∀ x ∈ R, x.isScalar = true)
    (hnext : R = [] ∨ ∀ more, rangeArgsIdentical (c :: more) R = .ok false) :
    convertToRange defaultOpt (c :: R) (1 + R.length) = .ok none := by
  have hall : ∀ x ∈ c :: R, x.isScalar = true := by
    intro x hx
    rcases List.mem_cons.mp hx with rfl | h
    · exact hsc
    · exact hR x h
  unfold convertToRange
  by_cases hs : 1 + R.length < rangeMin
  · simp [hs, pure, Except.pure]
  · obtain ⟨m, hcc⟩ := countCommon_ok c.type (c :: R) hall (1 + R.length) (by simp; omega)
      (1 + R.length + 1) 0 0 (by omega)
    have hRne : R ≠ [] := by
      intro h; rw [h] at hs; unfold rangeMin at hs; simp at hs
    have hni : rangeArgsIdentical (c :: R) R = .ok false := by
      rcases hnext with h | h
      · exact absurd h hRne
      · exact h R
    simp only [hs, ↓reduceIte, bind, Except.bind, Pretty.deref, scalar_type_ne_range c hsc,
      show defaultOpt.compress = true from rfl, Bool.not_true, Bool.false_eq_true, or_self, hcc,
      incsize_scalar c _ hsc]
    by_cases hm : m < rangeMin
    · simp [hm, pure, Except.pure]
    · simp only [hm, ↓reduceIte, List.drop_succ_cons, List.drop_zero, hni, hty, Bool.false_eq_true, pure, Except.pure]

/-! ### the closed-form cut -/

/-- the number of leading cells equal to `c` -/
def lead (c : Cell) : List Cell → Nat
  | [] => 0
  | x :: r => if x = c then lead c r + 1 else 0

theorem lead_le (c : Cell) (l : List Cell) : lead c l ≤ l.length := by
  induction l with
  | nil => simp [lead]
  | cons x r ih => simp only [lead]; split <;> simp; omega

theorem lead_split (c : Cell) (l : List Cell) :
    l = List.replicate (lead c l) c ++ l.drop (lead c l) ∧
    (l.drop (lead c l) = [] ∨ ∃ x r, l.drop (lead c l) = x :: r ∧ x ≠ c) := by
  induction l with
  | nil => simp [lead]
  | cons x r ih =>
    simp only [lead]
    split
    · rename_i hx
      subst hx
      obtain ⟨h1, h2⟩ := ih
      refine ⟨?_, by simpa using h2⟩
      simp only [List.replicate_succ, List.cons_append, List.drop_succ_cons]
      rw [← h1]
    · rename_i hx
      exact ⟨by simp, Or.inr ⟨x, r, by simp, hx⟩⟩

/-- maximal constant runs of five or more cells become `crun`s, every other cell a `tok` -/
def cutC : Nat → List Cell → List RSeg
  | 0, _ => []
  | _ + 1, [] => []
  | fuel + 1, c :: r =>
    if 5 ≤ lead c r + 1 then .crun (lead c r + 1) c :: cutC fuel (r.drop (lead c r))
    else .tok c :: cutC fuel r

/-- the cells `cutC` is a cut for: scalars identical to themselves, two different ones never identical,
    of a type that is never made an arithmetic run — or two different ones have different type tags
    (toggles: 'T' and 'F'), so that `rtosc_convert_to_range` counts one cell of the type -/
structure ConstOnly (cells : List Cell) : Prop where
  scalar : ∀ c ∈ cells, c.isScalar = true
  selfId : ∀ c ∈ cells, SelfIdentical c
  other : ∀ c ∈ cells, (lit "cihTF").contains c.type = false ∨ ∀ x ∈ cells, x ≠ c → x.type ≠ c.type
  apart : ∀ c ∈ cells, ∀ x ∈ cells, x ≠ c → ∀ more more', rangeArgsIdentical (c :: more) (x :: more') = .ok false

theorem ConstOnly.sub {cells sub : List Cell} (h : ConstOnly cells) (hs : ∀ c ∈ sub, c ∈ cells) : ConstOnly sub :=
  ⟨fun c hc => h.scalar c (hs c hc), fun c hc => h.selfId c (hs c hc),
    fun c hc => (h.other c (hs c hc)).imp id (fun h' x hx => h' x (hs x hx)),
    fun c hc x hx => h.apart c (hs c hc) x (hs x hx)⟩

theorem cutC_ok : ∀ (fuel : Nat) (cells : List Cell), cells.length ≤ fuel → cells.length ≤ 2147483647 →
    ConstOnly cells → cellsAll (cutC fuel cells) = cells ∧ CutOK (cutC fuel cells)
  | 0, cells, hf, _, _ => by
    have : cells = [] := List.eq_nil_of_length_eq_zero (by omega)
    subst this
    exact ⟨rfl, .nil⟩
  | fuel + 1, [], _, _, _ => ⟨rfl, .nil⟩
  | fuel + 1, c :: r, hf, h31, hco => by
    obtain ⟨hsplit, hnext⟩ := lead_split c r
    have hle := lead_le c r
    have hcsc := hco.scalar c (by simp)
    have hcid := hco.selfId c (by simp)
    -- what follows the leading run is not identical to `c`
    have hR : ∀ x ∈ r.drop (lead c r), x.isScalar = true := fun x hx =>
      hco.scalar x (List.mem_cons_of_mem _ (List.mem_of_mem_drop hx))
    have hni : r.drop (lead c r) = [] ∨ ∀ more, rangeArgsIdentical (c :: more) (r.drop (lead c r)) = .ok false := by
      rcases hnext with h | ⟨x, r', h, hx⟩
      · exact Or.inl h
      · right
        intro more
        rw [h]
        exact hco.apart c (by simp) x (List.mem_cons_of_mem _ (List.mem_of_mem_drop (by rw [h]; simp))) hx _ _
    simp only [List.length_cons] at hf h31
    unfold cutC
    by_cases h5 : 5 ≤ lead c r + 1
    · simp only [h5, ↓reduceIte]
      obtain ⟨hc, hcut⟩ := cutC_ok fuel (r.drop (lead c r)) (by simp only [List.length_drop]; omega)
        (by simp only [List.length_drop]; omega)
        (hco.sub (fun x hx => List.mem_cons_of_mem _ (List.mem_of_mem_drop hx)))
      refine ⟨?_, .cons _ _ ?_ hcut⟩
      · simp only [cellsAll, RSeg.cells, hc, List.replicate_succ, List.cons_append]
        rw [← hsplit]
      · rw [hc]
        exact SegStep.crun_of_next _ c _ hcsc hcid h5 (by omega) hR hni
    · simp only [h5, ↓reduceIte]
      obtain ⟨hc, hcut⟩ := cutC_ok fuel r (by omega) (by omega) (hco.sub (fun x hx => List.mem_cons_of_mem _ hx))
      refine ⟨by simp [cellsAll, RSeg.cells, hc], .cons _ _ ?_ hcut⟩
      rw [hc]
      show convertToRange defaultOpt (c :: r) (r.length + 1) = .ok none
      have hlen : r.length + 1 = (lead c r + 1) + (r.drop (lead c r)).length := by
        simp only [List.length_drop]; omega
      have hcells : c :: r = List.replicate (lead c r + 1) c ++ r.drop (lead c r) := by
        simp only [List.replicate_succ, List.cons_append]
        rw [← hsplit]
      by_cases h1 : lead c r = 0
      · have hr0 : r.drop (lead c r) = r := by rw [h1]; rfl
        rw [hr0] at hR hni hnext
        rcases hco.other c (by simp) with hty | hty
        · have := convertToRange_single_other c hcsc hty r hR hni
          rw [Nat.add_comm] at this
          exact this
        · -- the next cell has another type tag: fewer than five cells of the type of `c`
          refine SegStep.tok_of_short c r hco.scalar ?_
          rcases hnext with h | ⟨x, r', h, hx⟩
          · rw [h]; rfl
          · have hxt : x.type ≠ c.type := hty x (by rw [h]; simp) hx
            rw [h]
            simp [shortRun, hxt]
      · rw [hcells, hlen]
        exact convertToRange_shortConst c hcsc hcid _ (by omega) (by omega) _ hR hni

/-! ### floats -/

/-- two finite floats with different bit patterns are not identical for `range_args_identical`
    (numerically equal ones, +0 and -0, differ in their bits: fix C10-12) -/
theorem not_identical_flt (x y : UInt32) (hne : y ≠ x) (more more' : List Cell) :
    rangeArgsIdentical (Cell.flt x :: more) (Cell.flt y :: more') = .ok false := by
  rw [rangeArgsIdentical_scalars (Cell.flt x) (Cell.flt y) more more' [] [] rfl rfl]
  unfold rangeArgsIdentical
  rw [eqSingle_scalar_right (Cell.flt x) (Cell.flt y) [] [] rfl]
  have hxy : ¬ x = y := fun h => hne h.symm
  cases hf : ArgVal.f32.feq x.toNat y.toNat <;>
    simp [ArgVal.eqScalar, ArgVal.Cell.type, hf, liftAV, bind, Except.bind, pure, Except.pure, incsize, Pretty.deref, hxy]

theorem constOnly_floats (bs : List UInt32) (hfin : ∀ b ∈ bs, f32.expField b.toNat ≠ 255) :
    ConstOnly (bs.map Cell.flt) := by
  refine ⟨?_, ?_, ?_, ?_⟩
  · intro c hc
    obtain ⟨b, _, rfl⟩ := List.mem_map.mp hc
    rfl
  · intro c hc
    obtain ⟨b, hb, rfl⟩ := List.mem_map.mp hc
    exact selfIdentical_flt b (feq_self_finite b (hfin b hb))
  · intro c hc
    obtain ⟨b, _, rfl⟩ := List.mem_map.mp hc
    left
    show (lit "cihTF").contains (102 : UInt8) = false
    decide
  · intro c hc x hx hne more more'
    obtain ⟨b, _, rfl⟩ := List.mem_map.mp hc
    obtain ⟨b', _, rfl⟩ := List.mem_map.mp hx
    exact not_identical_flt b b' (fun h => hne (by rw [h])) more more'

/-- **every array of finite floats is cut into constant runs and plain values** -/
theorem arrCutOK_floats (bs : List UInt32) (hfin : ∀ b ∈ bs, f32.expField b.toNat ≠ 255)
    (hlen : bs.length ≤ 2147483647) :
    ArrCutOK (bs.map Val.flt) (cutC bs.length (bs.map Cell.flt)) := by
  have hmap : (bs.map Val.flt).map cellOfVal = bs.map Cell.flt := by
    simp [List.map_map, Function.comp_def, cellOfVal]
  have := cutC_ok bs.length (bs.map Cell.flt) (by simp) (by simpa using hlen) (constOnly_floats bs hfin)
  exact ⟨by rw [hmap]; exact this.1, this.2⟩

/-! ### strings and option symbols -/

theorem strByteOK_ne_zero (b : UInt8) (h : StrByteOK b) : b ≠ 0 := by
  intro h0
  subst h0
  revert h
  simp only [StrByteOK]
  decide

theorem cstrOf_ok (s : Bytes) (h : ∀ b ∈ s, StrByteOK b) : ArgVal.cstrOf s = s := by
  unfold ArgVal.cstrOf
  induction s with
  | nil => rfl
  | cons c r ih =>
    have hc : c ≠ 0 := strByteOK_ne_zero c (h c (by simp))
    simp only [List.takeWhile_cons, ne_eq, hc, not_false_eq_true, decide_true, ↓reduceIte, List.cons.injEq, true_and]
    exact ih (fun x hx => h x (by simp [hx]))

/-- two different strings (symbols) of covered bytes are not identical for `range_args_identical` -/
theorem not_identical_str (ty : ArgVal.StrTy) (a b : Bytes) (ha : ∀ x ∈ a, StrByteOK x) (hb : ∀ x ∈ b, StrByteOK x)
    (hne : b ≠ a) (more more' : List Cell) :
    rangeArgsIdentical (Cell.str ty (some a) :: more) (Cell.str ty (some b) :: more') = .ok false := by
  rw [rangeArgsIdentical_scalars (Cell.str ty (some a)) (Cell.str ty (some b)) more more' [] [] rfl rfl]
  unfold rangeArgsIdentical
  rw [eqSingle_scalar_right (Cell.str ty (some a)) (Cell.str ty (some b)) [] [] rfl]
  have hcmp : ¬ ArgVal.strcmpS a b = 0 := by
    unfold ArgVal.strcmpS
    rw [cstrOf_ok a ha, cstrOf_ok b hb, ArgVal.lexCmp_eq_zero_iff]
    exact fun h => hne h.symm
  simp [ArgVal.eqScalar, ArgVal.Cell.type, hcmp, liftAV, bind, Except.bind, pure, Except.pure]

theorem constOnly_strs (ty : ArgVal.StrTy) (ss : List Bytes) (hok : ∀ s ∈ ss, ∀ b ∈ s, StrByteOK b) :
    ConstOnly (ss.map fun s => Cell.str ty (some s)) := by
  refine ⟨?_, ?_, ?_, ?_⟩
  · intro c hc
    obtain ⟨b, _, rfl⟩ := List.mem_map.mp hc
    rfl
  · intro c hc
    obtain ⟨b, hb, rfl⟩ := List.mem_map.mp hc
    exact selfIdentical_str _ _
  · intro c hc
    obtain ⟨b, _, rfl⟩ := List.mem_map.mp hc
    left
    cases ty
    · show (lit "cihTF").contains (115 : UInt8) = false
      decide
    · show (lit "cihTF").contains (83 : UInt8) = false
      decide
  · intro c hc x hx hne more more'
    obtain ⟨b, hb, rfl⟩ := List.mem_map.mp hc
    obtain ⟨b', hb', rfl⟩ := List.mem_map.mp hx
    exact not_identical_str ty b b' (hok b hb) (hok b' hb') (fun h => hne (by rw [h])) more more'

/-- **every array of strings of covered bytes is cut into constant runs and plain values** -/
theorem arrCutOK_strs (ss : List Bytes) (hok : ∀ s ∈ ss, ∀ b ∈ s, StrByteOK b) (hlen : ss.length ≤ 2147483647) :
    ArrCutOK (ss.map Val.str) (cutC ss.length (ss.map fun s => Cell.str .s (some s))) := by
  have hmap : (ss.map Val.str).map cellOfVal = ss.map fun s => Cell.str .s (some s) := by
    simp [List.map_map, Function.comp_def, cellOfVal]
  have := cutC_ok ss.length (ss.map fun s => Cell.str .s (some s)) (by simp) (by simpa using hlen)
    (constOnly_strs .s ss hok)
  exact ⟨by rw [hmap]; exact this.1, this.2⟩

/-- **every array of option symbols of covered characters is cut into constant runs and plain values** -/
theorem arrCutOK_syms (ps : List Path) (hok : ∀ p ∈ ps, ∀ c ∈ p, CharByte c ∧ StrByteOK (byteOfChar c))
    (hlen : ps.length ≤ 2147483647) :
    ArrCutOK (ps.map Val.sym) (cutC ps.length ((ps.map pathBytes).map fun s => Cell.str .S (some s))) := by
  have hmap : (ps.map Val.sym).map cellOfVal = (ps.map pathBytes).map fun s => Cell.str .S (some s) := by
    simp [List.map_map, Function.comp_def, cellOfVal]
  have hb : ∀ s ∈ ps.map pathBytes, ∀ b ∈ s, StrByteOK b := by
    intro s hs b hb
    obtain ⟨p, hp, rfl⟩ := List.mem_map.mp hs
    simp only [pathBytes, List.mem_map] at hb
    obtain ⟨c, hc, rfl⟩ := hb
    exact (hok p hp c hc).2
  have := cutC_ok ps.length ((ps.map pathBytes).map fun s => Cell.str .S (some s)) (by simp) (by simpa using hlen)
    (constOnly_strs .S _ hb)
  exact ⟨by rw [hmap]; exact this.1, this.2⟩

/-! ### toggles -/

def togCell (b : Bool) : Cell := if b then Cell.flag .T else Cell.flag .F

theorem togCell_eq (b : Bool) : togCell b = cellOfVal (.bool b) := by cases b <;> rfl

theorem constOnly_toggles (bs : List Bool) : ConstOnly (bs.map togCell) := by
  refine ⟨?_, ?_, ?_, ?_⟩
  · intro c hc
    obtain ⟨b, _, rfl⟩ := List.mem_map.mp hc
    cases b <;> rfl
  · intro c hc
    obtain ⟨b, _, rfl⟩ := List.mem_map.mp hc
    cases b <;> exact selfIdentical_flag _
  · intro c hc
    obtain ⟨b, _, rfl⟩ := List.mem_map.mp hc
    right
    intro x hx hne
    obtain ⟨b', _, rfl⟩ := List.mem_map.mp hx
    cases b <;> cases b' <;> first | exact absurd rfl hne | decide
  · intro c hc x hx hne more more'
    obtain ⟨b, _, rfl⟩ := List.mem_map.mp hc
    obtain ⟨b', _, rfl⟩ := List.mem_map.mp hx
    rw [rangeArgsIdentical_scalars (togCell b) (togCell b') more more' [] [] (by cases b <;> rfl) (by cases b' <;> rfl)]
    cases b <;> cases b' <;> first | exact absurd rfl hne | decide

/-- **every toggle array is cut into constant runs and plain values** -/
theorem arrCutOK_toggles (bs : List Bool) (hlen : bs.length ≤ 2147483647) :
    ArrCutOK (bs.map Val.bool) (cutC bs.length (bs.map togCell)) := by
  have hmap : (bs.map Val.bool).map cellOfVal = bs.map togCell := by
    simp [List.map_map, Function.comp_def, togCell_eq]
  have := cutC_ok bs.length (bs.map togCell) (by simp) (by simpa using hlen) (constOnly_toggles bs)
  exact ⟨by rw [hmap]; exact this.1, this.2⟩

end Rtosc.Save.Text
