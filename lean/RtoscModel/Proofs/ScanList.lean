/-
  C11 — the two list loops over a text that consists of good arguments (`Arg11`) separated by
  arbitrary runs of white space and comment lines:
  `rtosc_count_printed_arg_vals` (`countPrintedArgVals_lay`) counts exactly the cells,
  `rtosc_scan_arg_vals` (`scanArgVals_lay`) writes exactly the cells and consumes the whole text.
  No bound on the number of arguments, gaps or characters.
-/
import RtoscModel.Proofs.ScanLayout
import RtoscModel.Proofs.ScanTransfer
namespace Rtosc.Pretty.C11
open Rtosc Rtosc.Libc Rtosc.Pretty
open Rtosc.ArgVal (Cell)

/-- what can stand behind a run of gaps that follows a value: nothing, or a character that is
    neither white space nor `(` nor `.` -/
def Body (body : Bytes) : Prop := body = [] ∨ (isspace (hd body) = false ∧ hd body ≠ 40 ∧ hd body ≠ 46)

theorem Body.of_tokStart {t : Bytes} (h : TokStart t) (rest : Bytes) : Body (t ++ rest) := by
  obtain ⟨hne, hsp, _, h40, h46, _⟩ := h
  right
  rw [hd_append_of_ne_nil _ _ hne]
  exact ⟨hsp, h40, h46⟩

theorem body_comment (x : Bytes) : Body (37 :: x) := by
  right; simp only [hd_cons]; decide

/-- a run of gaps that separates: it starts with a white-space character -/
def SepGaps (g : List Gap) : Prop := ∃ w r, g = Gap.ws w :: r

theorem hd_skipSpace_gaps (g : List Gap) (body : Bytes) :
    hd (skipSpace (gapsBytes g ++ body)) = 37 ∨ skipSpace (gapsBytes g ++ body) = skipSpace body := by
  induction g with
  | nil => right; simp [gapsBytes]
  | cons x g ih =>
    cases x with
    | ws w =>
      have e : gapsBytes (Gap.ws w :: g) ++ body = w.byte :: (gapsBytes g ++ body) := by
        simp [gapsBytes, Gap.bytes]
      have : skipSpace (w.byte :: (gapsBytes g ++ body)) = skipSpace (gapsBytes g ++ body) := by
        simp [skipSpace, isspace_ws]
      rw [e, this]; exact ih
    | comment b =>
      left
      have e : gapsBytes (Gap.comment b :: g) ++ body = 37 :: (commentBody b ++ 10 :: (gapsBytes g ++ body)) := by
        simp [gapsBytes, Gap.bytes]
      rw [e]
      simp [skipSpace, isspace]

theorem skipSpace_body (body : Bytes) (h : Body body) : skipSpace body = body := by
  rcases h with rfl | ⟨h, _⟩
  · rfl
  · cases body with
    | nil => rfl
    | cons c r => simp only [hd_cons] at h; simp [skipSpace, h]

theorem startsWith_dots_hd (s : Bytes) (h : hd s ≠ 46) : startsWith s [46, 46, 46] = false := by
  cases s with
  | nil => rfl
  | cons c r =>
    simp only [hd_cons] at h
    simp [startsWith, List.isPrefixOf]
    intro h'; exact absurd h'.symm h

/-- a separating run of gaps, followed by a value or by nothing, may follow a value -/
theorem sep_gaps (g : List Gap) (hg : SepGaps g) (body : Bytes) (hb : Body body) :
    Sep (gapsBytes g ++ body) := by
  obtain ⟨w, r, rfl⟩ := hg
  have hhd : hd (skipSpace (gapsBytes (Gap.ws w :: r) ++ body)) ≠ 40 ∧
      hd (skipSpace (gapsBytes (Gap.ws w :: r) ++ body)) ≠ 46 := by
    rcases hd_skipSpace_gaps (Gap.ws w :: r) body with h | h
    · rw [h]; decide
    · rw [h, skipSpace_body body hb]
      rcases hb with rfl | ⟨_, h40, h46⟩
      · decide
      · exact ⟨h40, h46⟩
  refine ⟨?_, hhd.1, startsWith_dots_hd _ hhd.2⟩
  right; left
  simp [gapsBytes, Gap.bytes, isspace_ws]

/-- what may stand behind the last value -/
inductive Tail : Bytes → Prop
  | none : Tail []
  | gaps (g : List Gap) : SepGaps g → Tail (gapsBytes g)
  | last (g : List Gap) (b : Bytes) : SepGaps g → Tail (gapsBytes g ++ 37 :: commentBody b)

theorem Tail.sep {tail : Bytes} (h : Tail tail) : Sep tail := by
  cases h with
  | none => exact sep_nil
  | gaps g hg => simpa using sep_gaps g hg [] (Or.inl rfl)
  | last g b hg => exact sep_gaps g hg _ (body_comment _)

/-- `numComments g` comment lines are still there after leading white space is skipped -/
theorem numComments_le_skipSpace (g : List Gap) (body : Bytes) :
    numComments g + (skipSpace body).length ≤ (skipSpace (gapsBytes g ++ body)).length := by
  induction g with
  | nil => simp [gapsBytes, numComments]
  | cons x g ih =>
    cases x with
    | ws w =>
      have e : gapsBytes (Gap.ws w :: g) ++ body = w.byte :: (gapsBytes g ++ body) := by
        simp [gapsBytes, Gap.bytes]
      have : skipSpace (w.byte :: (gapsBytes g ++ body)) = skipSpace (gapsBytes g ++ body) := by
        simp [skipSpace, isspace_ws]
      rw [e, this]; simpa [numComments] using ih
    | comment b =>
      have e : gapsBytes (Gap.comment b :: g) ++ body = 37 :: (commentBody b ++ 10 :: (gapsBytes g ++ body)) := by
        simp [gapsBytes, Gap.bytes]
      have hsp : skipSpace (37 :: (commentBody b ++ 10 :: (gapsBytes g ++ body))) =
          37 :: (commentBody b ++ 10 :: (gapsBytes g ++ body)) := by
        simp [skipSpace, isspace]
      have h1 := skipSpace_length_le (gapsBytes g ++ body)
      rw [e, hsp]
      simp only [numComments, List.length_cons, List.length_append] at ih h1 ⊢
      omega

/-- the checker's skipping behind a value: white space, then comment lines -/
theorem checkSkip_gaps (g : List Gap) (body : Bytes) (hb : Stop body) :
    (if hd (skipSpace (gapsBytes g ++ body)) ≠ 0 then
        skipCommentLines ((skipSpace (gapsBytes g ++ body)).length + 1) (skipSpace (gapsBytes g ++ body))
      else (pure (skipSpace (gapsBytes g ++ body)) : Res Bytes)) = .ok body := by
  have hle := numComments_le_skipSpace g body
  split
  · rw [skipCommentLines_gaps g body _ (by omega)]
    obtain ⟨f, hf⟩ : ∃ f, (skipSpace (gapsBytes g ++ body)).length + 1 - numComments g = f + 1 :=
      ⟨(skipSpace (gapsBytes g ++ body)).length - numComments g, by omega⟩
    rw [hf]
    exact skipCommentLines_stop f body hb
  · rename_i h0
    have h0' : hd (skipSpace (gapsBytes g ++ body)) = 0 := by simpa using h0
    rcases hd_skipSpace_gaps g body with h | h
    · rw [h] at h0'; exact absurd h0' (by decide)
    · rw [h, skipSpace_stop body hb]; rfl

theorem checkSkip_last (g : List Gap) (b : Bytes) :
    (if hd (skipSpace (gapsBytes g ++ 37 :: commentBody b)) ≠ 0 then
        skipCommentLines ((skipSpace (gapsBytes g ++ 37 :: commentBody b)).length + 1)
          (skipSpace (gapsBytes g ++ 37 :: commentBody b))
      else (pure (skipSpace (gapsBytes g ++ 37 :: commentBody b)) : Res Bytes)) = .ok [] := by
  have hsp : skipSpace (37 :: commentBody b) = 37 :: commentBody b := by simp [skipSpace, isspace]
  have hle := numComments_le_skipSpace g (37 :: commentBody b)
  rw [hsp] at hle
  have hne : hd (skipSpace (gapsBytes g ++ 37 :: commentBody b)) ≠ 0 := by
    rcases hd_skipSpace_gaps g (37 :: commentBody b) with h | h
    · rw [h]; decide
    · rw [h, hsp]; simp
  simp only [hne, ne_eq, not_false_eq_true, ↓reduceIte]
  rw [skipCommentLines_gaps g _ _ (by simp only [List.length_cons] at hle; omega), hsp]
  obtain ⟨f, hf⟩ : ∃ f, (skipSpace (gapsBytes g ++ 37 :: commentBody b)).length + 1 - numComments g = f + 2 :=
    ⟨(skipSpace (gapsBytes g ++ 37 :: commentBody b)).length - numComments g - 1, by
      simp only [List.length_cons] at hle; omega⟩
  rw [hf]
  exact skipCommentLines_last b f

/-- the scanner's skipping behind a value -/
theorem scanSkip_gaps (g : List Gap) (body : Bytes) (hb : Stop body) :
    skipSpaceComments ((gapsBytes g ++ body).length + 1) (gapsBytes g ++ body) = .ok (gapsBytes g).length := by
  have hle := numComments_le g
  rw [skipSpaceComments_gaps g body _ (by simp only [List.length_append]; omega)]
  obtain ⟨f, hf⟩ : ∃ f, (gapsBytes g ++ body).length + 1 - numComments g = f + 1 :=
    ⟨(gapsBytes g ++ body).length - numComments g, by simp only [List.length_append]; omega⟩
  rw [hf, skipSpaceComments_stop f body hb]
  simp [Except.map]

theorem scanSkip_last (g : List Gap) (b : Bytes) :
    skipSpaceComments ((gapsBytes g ++ 37 :: commentBody b).length + 1) (gapsBytes g ++ 37 :: commentBody b) =
      .ok (gapsBytes g ++ 37 :: commentBody b).length := by
  have hle := numComments_le g
  rw [skipSpaceComments_gaps g _ _ (by simp only [List.length_append]; omega)]
  obtain ⟨f, hf⟩ : ∃ f, (gapsBytes g ++ 37 :: commentBody b).length + 1 - numComments g = f + 1 :=
    ⟨(gapsBytes g ++ 37 :: commentBody b).length - numComments g, by simp only [List.length_append]; omega⟩
  rw [hf, skipSpaceComments_last f b]
  simp [Except.map]; omega

theorem scanSkip_tail {tail : Bytes} (h : Tail tail) :
    skipSpaceComments (tail.length + 1) tail = .ok tail.length := by
  cases h with
  | none => exact skipSpaceComments_stop 0 [] stop_nil
  | gaps g _ => simpa using scanSkip_gaps g [] stop_nil
  | last g b _ => exact scanSkip_last g b

theorem checkSkip_tail {tail : Bytes} (h : Tail tail) :
    (if hd (skipSpace tail) ≠ 0 then skipCommentLines ((skipSpace tail).length + 1) (skipSpace tail)
      else (pure (skipSpace tail) : Res Bytes)) = .ok [] := by
  cases h with
  | none => simp [skipSpace, pure, Except.pure]
  | gaps g _ => simpa using checkSkip_gaps g [] stop_nil
  | last g b _ => exact checkSkip_last g b

/-! ### texts of several arguments -/

/-- `text` consists of good arguments, separated by separating runs of gaps, with a tail -/
inductive ArgsLay : List (Bytes × List Cell) → Bytes → Prop
  | one (t : Bytes) (cs : List Cell) (tail : Bytes) : Arg11 t cs → Tail tail → ArgsLay [(t, cs)] (t ++ tail)
  | cons (t : Bytes) (cs : List Cell) (g : List Gap) (more : List (Bytes × List Cell)) (text : Bytes) :
      Arg11 t cs → SepGaps g → ArgsLay more text → ArgsLay ((t, cs) :: more) (t ++ (gapsBytes g ++ text))

/-- all cells of the arguments -/
def allCells (tcs : List (Bytes × List Cell)) : List Cell := (tcs.map (·.2)).flatten

theorem ArgsLay.start {tcs : List (Bytes × List Cell)} {text : Bytes} (h : ArgsLay tcs text) : TokStart text := by
  cases h with
  | one t cs tail ht _ =>
    obtain ⟨h0, h1⟩ := ht.start
    refine ⟨by simp [h0], ?_⟩
    rw [hd_append_of_ne_nil _ _ h0]; exact h1
  | cons t cs g more text ht _ _ =>
    obtain ⟨h0, h1⟩ := ht.start
    refine ⟨by simp [h0], ?_⟩
    rw [hd_append_of_ne_nil _ _ h0]; exact h1

theorem ArgsLay.length_le {tcs : List (Bytes × List Cell)} {text : Bytes} (h : ArgsLay tcs text) :
    tcs.length ≤ text.length := by
  induction h with
  | one t cs tail ht _ =>
    have := List.length_pos_iff.mpr ht.start.1
    simp only [List.length_singleton, List.length_append]; omega
  | cons t cs g more text ht _ _ ih =>
    have := List.length_pos_iff.mpr ht.start.1
    simp only [List.length_cons, List.length_append]; omega

theorem ArgsLay.length_le_cells {tcs : List (Bytes × List Cell)} {text : Bytes} (h : ArgsLay tcs text) :
    tcs.length ≤ (allCells tcs).length := by
  induction h with
  | one t cs tail ht _ => have := ht.length_pos; simp [allCells]; omega
  | cons t cs g more text ht _ _ ih =>
    have := ht.length_pos
    simp only [allCells, List.map_cons, List.flatten_cons, List.length_cons, List.length_append] at ih ⊢
    omega

theorem advance_append (t rest : Bytes) : advance (t ++ rest) t.length = .ok rest := by
  simp [advance]

/-- one turn of the scanner's loop -/
theorem scanLoop_step (t : Bytes) (cs : List Cell) (rest : Bytes) (f n i : Nat) (prevOk : Bool)
    (done : List Cell) (rd sk : Nat) (ht : Arg11 t cs) (hs : Sep rest) (hi : i < n)
    (hsk : skipSpaceComments (rest.length + 1) rest = .ok sk) :
    ∃ b, C11.scanArgValsLoop (f + 1) (t ++ rest) n i prevOk done rd =
      C11.scanArgValsLoop f (rest.drop sk) n (i + cs.length) b (done ++ cs) (rd + t.length + sk) := by
  obtain ⟨b, hb⟩ := ht.cpr
  refine ⟨b, ?_⟩
  have hscan := ht.scan rest ((t ++ rest).length + 1) done.reverse (if prevOk then i else 0) true hs
    (by simp only [List.length_append]; omega)
  have hoff := ht.off
  conv => lhs; unfold C11.scanArgValsLoop
  simp only [hi, ↓reduceIte, hscan, hb, advance_append, hoff, hsk, bind, Except.bind, pure, Except.pure,
    ne_eq, not_true_eq_false]

/-- the scanner's loop reads a text of arguments back as their cells -/
theorem scanLoop_argsLay {tcs : List (Bytes × List Cell)} {text : Bytes} (h : ArgsLay tcs text) :
    ∀ (fuel n i : Nat) (prevOk : Bool) (done : List Cell) (rd : Nat),
      n = i + (allCells tcs).length → tcs.length + 1 ≤ fuel →
      C11.scanArgValsLoop fuel text n i prevOk done rd = .ok (rd + text.length, done ++ allCells tcs) := by
  induction h with
  | one t cs tail ht htail =>
    intro fuel n i prevOk done rd hn hf
    obtain ⟨f, rfl⟩ : ∃ f, fuel = f + 1 := ⟨fuel - 1, by omega⟩
    have hpos := ht.length_pos
    simp only [allCells, List.map_cons, List.map_nil, List.flatten_cons, List.flatten_nil, List.append_nil] at hn ⊢
    obtain ⟨b, hstep⟩ := scanLoop_step t cs tail f n i prevOk done rd tail.length ht htail.sep (by omega)
      (scanSkip_tail htail)
    rw [hstep]
    obtain ⟨f', rfl⟩ : ∃ f', f = f' + 1 := ⟨f - 1, by simp at hf; omega⟩
    unfold C11.scanArgValsLoop
    have : ¬ (i + cs.length < n) := by omega
    simp only [this, ↓reduceIte, pure, Except.pure, List.length_append]
    congr 2; omega
  | cons t cs g more text ht hg hmore ih =>
    intro fuel n i prevOk done rd hn hf
    obtain ⟨f, rfl⟩ : ∃ f, fuel = f + 1 := ⟨fuel - 1, by omega⟩
    have hpos := ht.length_pos
    have hstart := hmore.start
    simp only [allCells, List.map_cons, List.flatten_cons, List.length_append] at hn ⊢
    have hsep : Sep (gapsBytes g ++ text) := by
      have := sep_gaps g hg text (by simpa using Body.of_tokStart hstart [])
      exact this
    have hstop : Stop text := by simpa using Stop.of_tokStart hstart []
    obtain ⟨b, hstep⟩ := scanLoop_step t cs (gapsBytes g ++ text) f n i prevOk done rd (gapsBytes g).length ht hsep
      (by omega) (scanSkip_gaps g text hstop)
    rw [hstep, List.drop_left]
    have := ih f n (i + cs.length) b (done ++ cs) (rd + t.length + (gapsBytes g).length)
      (by simp only [allCells]; omega) (by simp at hf; omega)
    rw [this]
    simp only [List.length_append, List.append_assoc, allCells]
    congr 2; omega

/-- the checker's recursion bound covers the text from `src` on -/
theorem lookBackFuel_ge (src : Bytes) (recent : Option Bytes) :
    ∃ lf, lookBackFuel src recent = lf + 2 ∧ src.length ≤ lf ∧ (∀ r, recent = some r → r.length ≤ lf) := by
  refine ⟨lookBackFuel src recent - 2, ?_, ?_, ?_⟩
  · unfold lookBackFuel; omega
  · unfold lookBackFuel; omega
  · intro r hr; subst hr; unfold lookBackFuel; simp only; omega

/-- one turn of the checker's loop -/
theorem countLoop_step (t : Bytes) (cs : List Cell) (rest body : Bytes) (f : Nat) (recent : Option Bytes)
    (num : Int) (ht : Arg11 t cs) (hs : Sep rest)
    (hsk : (if hd (skipSpace rest) ≠ 0 then skipCommentLines ((skipSpace rest).length + 1) (skipSpace rest)
      else (pure (skipSpace rest) : Res Bytes)) = .ok body)
    (hlt : body.length < (t ++ rest).length) :
    C11.countLoop (f + 1) (some (t ++ rest)) recent num =
      C11.countLoop f (some body) (some (t ++ rest)) (num + cs.length) := by
  obtain ⟨h0, _, hn0, _, _, _, h47, _⟩ := ht.start
  have hhd : hd (t ++ rest) = hd t := hd_append_of_ne_nil _ _ h0
  obtain ⟨lf, hlf, hlf1, _⟩ := lookBackFuel_ge (t ++ rest) recent
  obtain ⟨r, hr, hsrc, hskipped, _⟩ := ht.skip rest (lf + 1) 0 recent true false hs
    (by simp only [List.length_append] at hlf1; omega)
  have hr : C11.skipNextPrintedArg (lf + 2) (t ++ rest) 0 recent true false = .ok r := hr
  conv => lhs; unfold C11.countLoop
  simp only [hlf, hhd, ne_eq, hn0, not_false_eq_true, h47, and_self, ↓reduceIte, hr, bind, Except.bind, hsrc]
  have hnot : ¬ (body.length ≥ (t ++ rest).length) := by omega
  by_cases h0' : hd (skipSpace rest) = 0
  · simp only [h0', ne_eq, not_true_eq_false, ↓reduceIte, pure, Except.pure] at hsk ⊢
    have hb : skipSpace rest = body := by injection hsk
    simp only [hb, hnot, ↓reduceIte, hskipped]
  · simp only [h0', ne_eq, not_false_eq_true, ↓reduceIte] at hsk ⊢
    simp only [hsk, hnot, ↓reduceIte, hskipped, pure, Except.pure]

/-- the checker's loop counts the cells of a text of arguments -/
theorem countLoop_argsLay {tcs : List (Bytes × List Cell)} {text : Bytes} (h : ArgsLay tcs text) :
    ∀ (fuel : Nat) (recent : Option Bytes) (num : Int), tcs.length + 1 ≤ fuel →
      C11.countLoop fuel (some text) recent num = .ok (num + (allCells tcs).length) := by
  induction h with
  | one t cs tail ht htail =>
    intro fuel recent num hf
    obtain ⟨f, rfl⟩ : ∃ f, fuel = f + 1 := ⟨fuel - 1, by omega⟩
    have hpos := List.length_pos_iff.mpr ht.start.1
    rw [countLoop_step t cs tail [] f recent num ht htail.sep (checkSkip_tail htail)
      (by simp only [List.length_nil, List.length_append]; omega)]
    obtain ⟨f', rfl⟩ : ∃ f', f = f' + 1 := ⟨f - 1, by simp at hf; omega⟩
    unfold C11.countLoop
    simp [allCells]
  | cons t cs g more text ht hg hmore ih =>
    intro fuel recent num hf
    obtain ⟨f, rfl⟩ : ∃ f, fuel = f + 1 := ⟨fuel - 1, by omega⟩
    have hpos := List.length_pos_iff.mpr ht.start.1
    have hstart := hmore.start
    have hsep : Sep (gapsBytes g ++ text) :=
      sep_gaps g hg text (by simpa using Body.of_tokStart hstart [])
    have hstop : Stop text := by simpa using Stop.of_tokStart hstart []
    rw [countLoop_step t cs (gapsBytes g ++ text) text f recent num ht hsep (checkSkip_gaps g text hstop)
      (by simp only [List.length_append]; omega)]
    rw [ih f _ _ (by simp at hf; omega)]
    simp only [allCells, List.map_cons, List.flatten_cons, List.length_append]
    congr 1
    push_cast
    omega

/-! ### the two entry points -/

/-- **`rtosc_count_printed_arg_vals`** on gaps, arguments, tail: the number of cells -/
theorem countPrintedArgVals_lay (lead : List Gap) {tcs : List (Bytes × List Cell)} {text : Bytes}
    (h : ArgsLay tcs text) :
    C11.countPrintedArgVals (gapsBytes lead ++ text) = .ok ((allCells tcs).length : Int) := by
  have hstop : Stop text := by simpa using Stop.of_tokStart h.start []
  have hle := numComments_le_skipSpace lead text
  unfold C11.countPrintedArgVals
  show (do let s1 ← skipCommentLines ((skipSpace (gapsBytes lead ++ text)).length + 1) (skipSpace (gapsBytes lead ++ text))
           C11.countLoop (s1.length + 1) (some s1) none 0) = _
  rw [skipCommentLines_gaps lead text _ (by omega)]
  obtain ⟨f, hf⟩ : ∃ f, (skipSpace (gapsBytes lead ++ text)).length + 1 - numComments lead = f + 1 :=
    ⟨(skipSpace (gapsBytes lead ++ text)).length - numComments lead, by omega⟩
  rw [hf, skipCommentLines_stop f text hstop]
  simp only [bind, Except.bind]
  have := countLoop_argsLay h (text.length + 1) none 0 (by have := h.length_le; omega)
  simpa using this

/-- **`rtosc_scan_arg_vals`** on gaps, arguments, tail: the cells, and the whole text is consumed -/
theorem scanArgVals_lay (lead : List Gap) {tcs : List (Bytes × List Cell)} {text : Bytes}
    (h : ArgsLay tcs text) :
    C11.scanArgVals (gapsBytes lead ++ text) (allCells tcs).length =
      .ok ((gapsBytes lead ++ text).length, allCells tcs) := by
  have hstop : Stop text := by simpa using Stop.of_tokStart h.start []
  unfold C11.scanArgVals
  rw [scanSkip_gaps lead text hstop]
  simp only [bind, Except.bind, List.drop_left]
  have := scanLoop_argsLay h ((allCells tcs).length + 1) (allCells tcs).length 0 true [] (gapsBytes lead).length
    (by simp) (by have := h.length_le_cells; omega)
  simpa using this

/-- the empty sentence: only gaps (and possibly an unterminated comment) -/
theorem countPrintedArgVals_empty (lead : List Gap) (tail : Bytes) (h : tail = [] ∨ ∃ b, tail = 37 :: commentBody b) :
    C11.countPrintedArgVals (gapsBytes lead ++ tail) = .ok 0 := by
  unfold C11.countPrintedArgVals
  show (do let s1 ← skipCommentLines ((skipSpace (gapsBytes lead ++ tail)).length + 1) (skipSpace (gapsBytes lead ++ tail))
           C11.countLoop (s1.length + 1) (some s1) none 0) = _
  rcases h with rfl | ⟨b, rfl⟩
  · have hle := numComments_le_skipSpace lead []
    rw [skipCommentLines_gaps lead [] _ (by omega)]
    obtain ⟨f, hf⟩ : ∃ f, (skipSpace (gapsBytes lead ++ [])).length + 1 - numComments lead = f + 1 :=
      ⟨(skipSpace (gapsBytes lead ++ [])).length - numComments lead, by omega⟩
    rw [hf, skipCommentLines_stop f [] stop_nil]
    simp [bind, Except.bind, C11.countLoop]
  · have hsp : skipSpace (37 :: commentBody b) = 37 :: commentBody b := by simp [skipSpace, isspace]
    have hle := numComments_le_skipSpace lead (37 :: commentBody b)
    rw [hsp] at hle
    rw [skipCommentLines_gaps lead _ _ (by simp only [List.length_cons] at hle; omega), hsp]
    obtain ⟨f, hf⟩ : ∃ f, (skipSpace (gapsBytes lead ++ 37 :: commentBody b)).length + 1 - numComments lead = f + 2 :=
      ⟨(skipSpace (gapsBytes lead ++ 37 :: commentBody b)).length - numComments lead - 1, by
        simp only [List.length_cons] at hle; omega⟩
    rw [hf, skipCommentLines_last b f]
    simp [bind, Except.bind, C11.countLoop]

theorem scanArgVals_empty (lead : List Gap) (tail : Bytes) (h : tail = [] ∨ ∃ b, tail = 37 :: commentBody b) :
    C11.scanArgVals (gapsBytes lead ++ tail) 0 = .ok ((gapsBytes lead ++ tail).length, []) := by
  unfold C11.scanArgVals
  rcases h with rfl | ⟨b, rfl⟩
  · rw [scanSkip_gaps lead [] stop_nil]
    simp [bind, Except.bind, C11.scanArgValsLoop, pure, Except.pure]
  · rw [scanSkip_last lead b]
    simp [bind, Except.bind, C11.scanArgValsLoop, pure, Except.pure]

end Rtosc.Pretty.C11
