/-
  C01: what the regenerated per-tag switch tables of src/rtosc.c (Generated/OscTables.lean)
  are compared against.  The theorem `tables_agree` is in Props/C01Tables.lean.
-/
import RtoscModel.Generated.OscTables
import RtoscModel.Osc.Encode
namespace Rtosc.Osc
open Rtosc

/-- class of a tag according to the *specification* (`kind`): 8 / 4 = fixed payload of that many
    bytes, 1 = padded string, 2 = blob, 0 = no payload -/
def classOf (t : UInt8) : Nat :=
  match kind t with
  | some .w32 => 4
  | some .w64 => 8
  | some .midi => 4
  | some .str => 1
  | some .blob => 2
  | none => 0

/-- class a switch table assigns to a tag (0: no `case` label, i.e. `default`) -/
def tabClass (tab : List (Nat × Nat)) (t : Nat) : Nat :=
  match tab.find? (fun r => r.1 == t) with
  | some r => r.2
  | none => 0

/-- a switch table agrees with the specification on all 256 bytes -/
def TabAgrees (tab : List (Nat × Nat)) : Prop :=
  ∀ n, n < 256 → tabClass tab n = classOf (UInt8.ofNat n)

instance (tab : List (Nat × Nat)) : Decidable (TabAgrees tab) := by
  unfold TabAgrees; exact inferInstance

end Rtosc.Osc
