/-
  C04 helper lemmas, part 12 (review item A7, the tie between the log and the recursion callbacks): every
  callback in the log of a dispatch is the callback of a port of the tree whose own name admits the
  message *at the message pointer the callback is handed* — so what `rBOILS_BEGIN` computes inside
  `rRecursCb` / `rRecurspCb` from its two inputs (`msg`, `data.port->name`) is covered by
  `recursIdx_of_match`, for every invocation.
-/
import RtoscModel.Proofs.PortsExtLoc
import RtoscModel.Proofs.PortsExtSugar
namespace Rtosc.Ports
open Rtosc Rtosc.Match

/-- a log entry of a port: it is a port of the table (relative path `j :: s`), its message pointer is at
    an address its own name admits -/
def EntryAt (t : PTable) (i : Nat) (tp : List Nat) (tags ex : Bytes) (c : Call) : Prop :=
  ∀ q, c.who = .port q → ∃ j s p a', q = tp ++ j :: s ∧ i ≤ j ∧ t.patFrom i (j :: s) = some p ∧
    c.m = a' ++ 0 :: ex ∧ Admits p a' tags

theorem entryAt_leaf_rest {p0 : Pat} {r : PTable} {i : Nat} {tp : List Nat} {tags ex : Bytes} {c : Call}
    (h : EntryAt r (i + 1) tp tags ex c) : EntryAt (.leaf p0 r) i tp tags ex c := by
  intro q hq
  obtain ⟨j, s, p, a', h1, h2, h3, h4⟩ := h q hq
  refine ⟨j, s, p, a', h1, by omega, ?_, h4⟩
  have : ¬ j = i := by omega
  simp only [PTable.patFrom, this, ↓reduceIte]
  exact h3

theorem entryAt_node_rest {p0 : Pat} {ch r : PTable} {cd : Bool} {i : Nat} {tp : List Nat} {tags ex : Bytes}
    {c : Call} (h : EntryAt r (i + 1) tp tags ex c) : EntryAt (.node p0 ch cd r) i tp tags ex c := by
  intro q hq
  obtain ⟨j, s, p, a', h1, h2, h3, h4⟩ := h q hq
  refine ⟨j, s, p, a', h1, by omega, ?_, h4⟩
  have : ¬ j = i := by omega
  simp only [PTable.patFrom, this, ↓reduceIte]
  exact h3

theorem entryAt_node_child {p0 : Pat} {ch r : PTable} {cd : Bool} {i : Nat} {tp : List Nat} {tags ex : Bytes}
    {c : Call} (h : EntryAt ch 0 (tp ++ [i]) tags ex c) : EntryAt (.node p0 ch cd r) i tp tags ex c := by
  intro q hq
  obtain ⟨j, s, p, a', h1, _, h3, h4⟩ := h q hq
  refine ⟨i, j :: s, p, a', by rw [h1]; simp, Nat.le_refl _, ?_, h4⟩
  simp only [PTable.patFrom, ↓reduceIte, reduceCtorEq]
  exact h3

theorem semNo_entry : ∀ (t : PTable), t.WF →
    ∀ (tp : List Nat) (i : Nat) (obj : List Nat) (a tags ex : Bytes) (d : RtData) (mt : Bool),
    ∀ c ∈ (semNo t tp i obj a tags ex d mt).1, EntryAt t i tp tags ex c := by
  intro t
  induction t with
  | nil => intro _ tp i obj a tags ex d mt c hc; simp [semNo] at hc
  | leaf p rest ih =>
    intro hwf tp i obj a tags ex d mt c hc
    simp only [PTable.WF, PTable.wf, Bool.and_eq_true] at hwf
    simp only [semNo] at hc
    split at hc
    · exact entryAt_leaf_rest (ih hwf.2 _ _ _ _ _ _ _ _ c hc)
    · next t hm =>
      rcases List.mem_cons.mp hc with rfl | hc
      · intro q hq
        simp only [callOf, Who.port.injEq] at hq
        subst hq
        exact ⟨i, [], p, a, rfl, Nat.le_refl _, by simp [PTable.patFrom], rfl,
          (matchB_iff_admits hwf.1 a tags).mp (by simp [hm])⟩
      · exact entryAt_leaf_rest (ih hwf.2 _ _ _ _ _ _ _ _ c hc)
  | node p child cd rest ihc ihr =>
    intro hwf tp i obj a tags ex d mt c hc
    simp only [PTable.WF, PTable.wf, Bool.and_eq_true, nodeNameWf] at hwf
    simp only [semNo] at hc
    split at hc
    · exact entryAt_node_rest (ihr hwf.2 _ _ _ _ _ _ _ _ c hc)
    · next t hm =>
      rcases List.mem_cons.mp hc with rfl | hc
      · intro q hq
        simp only [callOf, Who.port.injEq] at hq
        subst hq
        exact ⟨i, [], p, a, rfl, Nat.le_refl _, by simp [PTable.patFrom], rfl,
          (matchB_iff_admits hwf.1.1.1.1 a tags).mp (by simp [hm])⟩
      · rcases List.mem_append.mp hc with hc | hc
        · simp only [finNo] at hc
          split at hc
          · rcases List.mem_append.mp hc with hc | hc
            · exact entryAt_node_child (ihc hwf.1.2 _ _ _ _ _ _ _ _ c hc)
            · simp only [List.mem_singleton] at hc
              subst hc
              intro q hq
              simp [dfltCallOf] at hq
          · exact entryAt_node_child (ihc hwf.1.2 _ _ _ _ _ _ _ _ c hc)
        · exact entryAt_node_rest (ihr hwf.2 _ _ _ _ _ _ _ _ c hc)

/-- `recursIdx_of_match` from the specification side: the hypothesis is `PathSpec` -/
theorem recursIdx_of_pathSpec {p : Pat} (hnw : nameWf p = true) (hty : p.types = none) {a : Bytes}
    (hps : PathSpec p a) (ex : Bytes) :
    (if hasChar 35 p.render then (Sugar.recursIdx p.render (a ++ 0 :: ex)).map some else some none) =
      some ((spelledElem p.segs a).map (·.1)) ∧
    ∀ v n, spelledElem p.segs a = some (v, n) → v < n := by
  obtain ⟨_, _, hpna, _⟩ := nameWf_unpack hnw
  have hg := (greedy_iff_pathSpec hpna a).mpr hps
  obtain ⟨t, ht⟩ := Option.isSome_iff_exists.mp hg
  have hm : matchB p a [] = some t := by simp [matchB, ht, hty]
  exact recursIdx_of_match hnw hty hm ex

end Rtosc.Ports
