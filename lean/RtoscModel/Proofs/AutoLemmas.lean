/-
  C19 — helper lemmas for Props/C19.lean: the abstract-queue arithmetic (`qpos`), the
  bookkeeping view (`keys`) of every operation, invariants over operation histories, and the
  order/exact-arithmetic lemmas about `mapping` and `emit`.
-/
import RtoscModel.AutoSpec
namespace Rtosc.Auto
open Rtosc
variable {F : Type}

/-! ### qpos -/

theorem qpos_range (Q : List Nat) (i : Nat) : qpos Q i = -1 ∨ (1 ≤ qpos Q i ∧ qpos Q i ≤ Q.length) := by
  induction Q with
  | nil => simp [qpos]
  | cons q Q ih =>
    simp only [qpos, List.length_cons]
    split
    · right; omega
    · split
      · left; rfl
      · right; omega

theorem qpos_not_mem {Q : List Nat} {i : Nat} (h : i ∉ Q) : qpos Q i = -1 := by
  induction Q with
  | nil => simp [qpos]
  | cons q Q ih =>
    simp only [List.mem_cons, not_or] at h
    simp [qpos, ih h.2, Ne.symm h.1]

theorem qpos_mem {Q : List Nat} {i : Nat} (h : i ∈ Q) : 1 ≤ qpos Q i := by
  induction Q with
  | nil => simp at h
  | cons q Q ih =>
    simp only [qpos]
    split
    · omega
    · rename_i hne
      have : i ∈ Q := by
        simp only [List.mem_cons] at h
        rcases h with h | h
        · exact absurd h.symm hne
        · exact h
      have := ih this
      split <;> omega

theorem qpos_eq_neg_one_iff {Q : List Nat} {i : Nat} : qpos Q i = -1 ↔ i ∉ Q := by
  constructor
  · intro h hm
    have := qpos_mem hm
    omega
  · exact qpos_not_mem

theorem qpos_append_new (Q : List Nat) (s i : Nat) (hs : s ∉ Q) :
    qpos (Q ++ [s]) i = if i = s then (Q.length : Int) + 1 else qpos Q i := by
  induction Q with
  | nil => simp [qpos, eq_comm]
  | cons q Q ih =>
    simp only [List.mem_cons, not_or] at hs
    simp only [List.cons_append, qpos, List.length_cons, ih hs.2]
    by_cases hq : q = i
    · have : i ≠ s := by omega
      simp [hq, this]
    · simp only [hq, ↓reduceIte]
      by_cases his : i = s
      · simp only [his, ↓reduceIte]
        split <;> omega
      · simp [his]

theorem qpos_erase (Q : List Nat) (s i : Nat) (hn : Q.Nodup) :
    qpos (Q.erase s) i =
      if i = s then -1
      else if qpos Q s > 0 ∧ qpos Q i > qpos Q s then qpos Q i - 1 else qpos Q i := by
  induction Q with
  | nil => simp [qpos]
  | cons q Q ih =>
    have hn' := (List.nodup_cons.mp hn)
    by_cases hqs : q = s
    · subst hqs
      simp only [List.erase_cons_head]
      by_cases his : i = q
      · subst his
        simp [qpos_not_mem hn'.1]
      · have hqi : ¬ q = i := fun h => his h.symm
        simp only [his, ↓reduceIte, qpos, hqi]
        have := qpos_range Q i
        split <;> split <;> omega
    · have hne : (q == s) = false := by simp [hqs]
      simp only [List.erase_cons_tail (by simp [hqs] : ¬ (q == s) = true), qpos, ih hn'.2, hqs, ↓reduceIte]
      by_cases his : i = s
      · subst his
        have hqi : ¬ q = i := hqs
        simp [hqi]
      · simp only [his, ↓reduceIte]
        by_cases hqi : q = i
        · subst hqi
          simp only [↓reduceIte]
          have := qpos_range Q s
          split <;> split <;> omega
        · simp only [hqi, ↓reduceIte]
          have h1 := qpos_range Q s
          have h2 := qpos_range Q i
          split <;> split <;> split <;> split <;> omega

theorem qpos_tail (q : Nat) (Q : List Nat) (i : Nat) (hn : (q :: Q).Nodup) :
    qpos Q i = if qpos (q :: Q) i > 1 then qpos (q :: Q) i - 1 else -1 := by
  have hn' := (List.nodup_cons.mp hn)
  simp only [qpos]
  by_cases hqi : q = i
  · subst hqi; simp [qpos_not_mem hn'.1]
  · simp only [hqi, ↓reduceIte]
    have := qpos_range Q i
    split <;> split <;> omega

theorem qpos_head_iff (q : Nat) (Q : List Nat) (i : Nat) : qpos (q :: Q) i = 1 ↔ i = q := by
  simp only [qpos]
  have := qpos_range Q i
  constructor
  · intro h
    split at h
    · omega
    · split at h <;> omega
  · intro h; simp [h]

/-! ### operations that do not touch the bookkeeping -/

theorem map_modify_inv {α β} (g : α → β) (f : α → α) (h : ∀ x, g (f x) = g x) (l : List α) (i : Nat) :
    (l.modify i f).map g = l.map g := by
  apply List.ext_getElem?
  intro j
  simp only [List.getElem?_map, List.getElem?_modify]
  by_cases hij : i = j
  · subst hij; cases l[i]? <;> simp [h]
  · simp [hij]

theorem map_set_inv {α β} (g : α → β) (l : List α) (i : Nat) (x y : α) (hx : l[i]? = some x) (h : g y = g x) :
    (l.set i y).map g = l.map g := by
  apply List.ext_getElem?
  intro j
  simp only [List.getElem?_map, List.getElem?_set]
  by_cases hij : i = j
  · subst hij
    have hlt : i < l.length := by
      rcases Nat.lt_or_ge i l.length with h | h
      · exact h
      · simp [List.getElem?_eq_none h] at hx
    have hx' : l[i] = x := by
      have := List.getElem?_eq_getElem hlt
      rw [this] at hx; exact Option.some.inj hx
    simp [hlt, hx', h]
  · simp [hij]

theorem keys_modifyAuto (m : Mgr F) (s j : Nat) (f : Automation F → Automation F) :
    keys (modifyAuto m s j f) = keys m := by
  simp only [keys, modifyAuto]
  exact map_modify_inv key (fun sl => { sl with autos := sl.autos.modify j f }) (fun x => rfl) _ _

theorem keys_updateMapping (A : Arith F) (m : Mgr F) (s j : Int) : keys (updateMapping A m s j) = keys m := by
  unfold updateMapping; split
  · rfl
  · exact keys_modifyAuto ..
theorem len_updateMapping (A : Arith F) (m : Mgr F) (s j : Int) : (updateMapping A m s j).learnLen = m.learnLen := by
  unfold updateMapping; split <;> rfl
theorem keys_clearSlotSub (A : Arith F) (m : Mgr F) (s j : Int) : keys (clearSlotSub A m s j) = keys m := by
  unfold clearSlotSub; split
  · rfl
  · exact keys_modifyAuto ..
theorem len_clearSlotSub (A : Arith F) (m : Mgr F) (s j : Int) : (clearSlotSub A m s j).learnLen = m.learnLen := by
  unfold clearSlotSub; split <;> rfl
theorem keys_setGain (m : Mgr F) (s j : Int) (x : F) : keys (setSlotSubGain m s j x) = keys m := by
  unfold setSlotSubGain; split
  · rfl
  · exact keys_modifyAuto ..
theorem len_setGain (m : Mgr F) (s j : Int) (x : F) : (setSlotSubGain m s j x).learnLen = m.learnLen := by
  unfold setSlotSubGain; split <;> rfl
theorem keys_setOffset (m : Mgr F) (s j : Int) (x : F) : keys (setSlotSubOffset m s j x) = keys m := by
  unfold setSlotSubOffset; split
  · rfl
  · exact keys_modifyAuto ..
theorem len_setOffset (m : Mgr F) (s j : Int) (x : F) : (setSlotSubOffset m s j x).learnLen = m.learnLen := by
  unfold setSlotSubOffset; split <;> rfl

theorem keys_setSlot (A : Arith F) (m : Mgr F) (s : Int) (x : F) : keys (setSlot A m s x).1 = keys m := by
  unfold setSlot; split
  · rfl
  · split
    · rfl
    · rename_i sl hsl
      simp only [keys]
      exact map_set_inv key _ _ sl _ hsl rfl
theorem len_setSlot (A : Arith F) (m : Mgr F) (s : Int) (x : F) : (setSlot A m s x).1.learnLen = m.learnLen := by
  unfold setSlot; split
  · rfl
  · split <;> rfl

theorem keys_setSlotSubPath (A : Arith F) (m m' : Mgr F) (s j : Int) (path : Bytes) (port : Option (PortInfo F))
    (h : setSlotSubPath A m s j path port = some m') : keys m' = keys m ∧ m'.learnLen = m.learnLen := by
  unfold setSlotSubPath at h
  split at h
  · cases h; exact ⟨rfl, rfl⟩
  · split at h
    · cases h; exact ⟨rfl, rfl⟩
    · split at h
      · cases h
      · split at h
        · cases h
        · rename_i sl hsl
          split at h
          · cases h
          · split at h
            · cases h
            · cases h
              refine ⟨?_, rfl⟩
              simp only [keys]
              exact map_set_inv key _ _ sl _ hsl rfl

/-! ### createBinding -/

/-- the learn condition of createBinding -/
def startLearn (learn : Bool) (sl : Slot F) : Bool :=
  learn && decide (sl.learning = -1) && decide (sl.midiCC = -1)

theorem createBinding_cases (A : Arith F) (m m' : Mgr F) (s : Int) (path : Bytes)
    (port : Option (PortInfo F)) (learn : Bool) (h : createBinding A m s path port learn = some m') :
    (m' = m ∧ (bindSucceeds m s port = false)) ∨
    ∃ p sl ind au au1, portUsable port = some p ∧ m.slotOob s = false ∧ m.slots[s.toNat]? = some sl ∧
      firstFree sl.autos 0 = some ind ∧ sl.autos[ind]? = some au ∧ bindInfo A au path p = some au1 ∧
      m' = { m with
        slots := m.slots.set s.toNat
          { sl with used := true,
                    autos := sl.autos.set ind (Automation.remap A { au1 with gain := A.hundred, offset := A.zero }),
                    learning := if startLearn learn sl then m.learnLen + 1 else sl.learning },
        learnLen := if startLearn learn sl then m.learnLen + 1 else m.learnLen } := by
  unfold createBinding at h
  split at h
  · rename_i hp
    cases h; left; simp [bindSucceeds, hp]
  · rename_i p hp
    split at h
    · cases h
    · rename_i hoob
      split at h
      · cases h
      · rename_i sl hsl
        split at h
        · rename_i hff
          cases h; left; simp [bindSucceeds, hsl, hff]
        · rename_i ind hff
          split at h
          · cases h
          · rename_i au hau
            split at h
            · cases h
            · rename_i au1 hb
              cases h
              right
              refine ⟨p, sl, ind, au, au1, hp, by simpa using hoob, hsl, hff, hau, hb, ?_⟩
              simp [startLearn]

theorem getElem?_some_lt {α} {l : List α} {i : Nat} {x : α} (h : l[i]? = some x) : i < l.length := by
  rcases Nat.lt_or_ge i l.length with h' | h'
  · exact h'
  · simp [List.getElem?_eq_none h'] at h

theorem queueRel_append (ks : List Key) (len : Int) (Q : List Nat) (h : QueueRel ks len Q)
    (s : Nat) (k : Key) (hk : ks[s]? = some k) (hl : k.1 = -1) :
    QueueRel (ks.set s (len + 1, k.2)) (len + 1) (Q ++ [s]) := by
  have hs : s ∉ Q := by
    have := h.num s k hk
    rw [hl] at this
    exact qpos_eq_neg_one_iff.mp this.symm
  have hlt := getElem?_some_lt hk
  refine ⟨?_, ?_, ?_, ?_⟩
  · exact List.nodup_append.mpr ⟨h.nodup, by simp, by
      intro a ha b hb; simp at hb; subst hb; intro hab; exact hs (hab ▸ ha)⟩
  · intro q hq
    simp only [List.mem_append, List.mem_singleton] at hq
    simp only [List.length_set]
    rcases hq with hq | hq
    · exact h.bound q hq
    · omega
  · simp [h.len]
  · intro i k' hi
    rw [qpos_append_new Q s i hs]
    simp only [List.getElem?_set] at hi
    by_cases his : s = i
    · subst his
      simp only [hlt, ↓reduceIte, Option.some.injEq] at hi
      subst hi
      simp [h.len]
    · simp only [his, ↓reduceIte] at hi
      have : ¬ i = s := fun e => his e.symm
      simp only [this, ↓reduceIte]
      exact h.num i k' hi

theorem refines_bind (A : Arith F) (m m' : Mgr F) (Q : List Nat) (s : Int) (path : Bytes)
    (port : Option (PortInfo F)) (learn : Bool) (h : Refines m Q)
    (hc : createBinding A m s path port learn = some m') :
    Refines m' (absStep m (.bind s path port learn) Q) := by
  rcases createBinding_cases A m m' s path port learn hc with ⟨rfl, hb⟩ | ⟨p, sl, ind, au, au1, hp, hoob, hsl, hff, hau, hbi, rfl⟩
  · simp [absStep, hb]; exact h
  · have hkey : (keys m)[s.toNat]? = some (key sl) := by simp [keys, hsl]
    have hnum := h.num s.toNat (key sl) hkey
    have hbs : bindSucceeds m s port = true := by simp [bindSucceeds, hp, hoob, hsl, hff]
    have hcc : slotCC m s = sl.midiCC := by simp [slotCC, hsl]
    have hmem : decide (s.toNat ∉ Q) = decide (sl.learning = -1) := by
      have : (s.toNat ∉ Q) ↔ sl.learning = -1 := by
        rw [← qpos_eq_neg_one_iff]; simp only [key] at hnum; rw [hnum]
      simp [this]
    have hcond : (bindSucceeds m s port && learn && decide (s.toNat ∉ Q) && decide (slotCC m s = -1)) =
        startLearn learn sl := by
      simp [hbs, hcc, hmem, startLearn]
    simp only [absStep, hcond]
    by_cases hst : startLearn learn sl = true
    · simp only [hst, ↓reduceIte]
      have hl : sl.learning = -1 := by simp [startLearn] at hst; exact hst.1.2
      have := queueRel_append (keys m) m.learnLen Q h s.toNat (key sl) hkey hl
      unfold Refines
      simp only [keys, List.map_set] at this ⊢
      exact this
    · have hst' : startLearn learn sl = false := by simpa using hst
      simp only [hst', Bool.false_eq_true, ↓reduceIte]
      unfold Refines
      simp only [keys]
      rw [map_set_inv key m.slots s.toNat sl _ hsl (by rfl)]
      exact h

/-! ### clearSlot -/

def decK (L : Int) (k : Key) : Key := if k.1 > L then (k.1 - 1, k.2) else k

theorem key_decAbove (L : Int) (sl : Slot F) : key (decAbove L sl) = decK L (key sl) := by
  unfold decAbove decK key
  split <;> rfl

theorem map_modify_const {α β} (g : α → β) (f : α → α) (c : β) (h : ∀ x, g (f x) = c) (l : List α) (i : Nat) :
    (l.modify i f).map g = (l.map g).set i c := by
  apply List.ext_getElem?
  intro j
  simp only [List.getElem?_map, List.getElem?_modify, List.getElem?_set, List.length_map]
  by_cases hij : i = j
  · subst hij
    rcases Nat.lt_or_ge i l.length with hlt | hge
    · simp [hlt, h]
    · simp [Nat.not_lt.mpr hge]
  · simp [hij]

theorem clearSlot_keys (A : Arith F) (m : Mgr F) (s : Int) (sl : Slot F) (hoob : m.slotOob s = false)
    (hsl : m.slots[s.toNat]? = some sl) :
    keys (clearSlot A m s) =
        ((if sl.learning > 0 then (keys m).map (decK sl.learning) else keys m).set s.toNat (-1, -1, -1)) ∧
    (clearSlot A m s).learnLen = if sl.learning > 0 then m.learnLen - 1 else m.learnLen := by
  unfold clearSlot
  simp only [hoob, Bool.false_eq_true, ↓reduceIte, hsl]
  constructor
  · simp only [keys]
    rw [map_modify_const key _ (-1, -1, -1) (fun x => rfl)]
    by_cases hw : sl.learning > 0
    · simp only [hw, decide_true, ↓reduceIte, List.map_map]
      congr 1
      apply List.map_congr_left
      intro x _
      exact key_decAbove _ _
    · simp [hw]
  · by_cases hw : sl.learning > 0 <;> simp [hw]

theorem queueRel_erase (ks : List Key) (len : Int) (Q : List Nat) (h : QueueRel ks len Q)
    (s : Nat) (k : Key) (hk : ks[s]? = some k) :
    QueueRel ((if k.1 > 0 then ks.map (decK k.1) else ks).set s (-1, -1, -1))
      (if k.1 > 0 then len - 1 else len) (Q.erase s) := by
  have hks := h.num s k hk
  have hlen : ((if k.1 > 0 then ks.map (decK k.1) else ks).set s (-1, -1, -1)).length = ks.length := by
    split <;> simp
  refine ⟨h.nodup.erase s, ?_, ?_, ?_⟩
  · intro q hq
    rw [hlen]
    exact h.bound q (List.mem_of_mem_erase hq)
  · by_cases hw : k.1 > 0
    · have hmem : s ∈ Q := by
        apply Classical.byContradiction
        intro hn
        have := qpos_not_mem hn
        omega
      have h1 := List.length_erase_of_mem hmem
      have h2 : 0 < Q.length := List.length_pos_of_mem hmem
      simp only [hw, ↓reduceIte, h.len, h1]
      omega
    · have hn : s ∉ Q := by
        intro hm
        have := qpos_mem hm
        omega
      simp [hw, List.erase_of_not_mem hn, h.len]
  · intro i k' hi
    rw [qpos_erase Q s i h.nodup]
    simp only [List.getElem?_set] at hi
    by_cases his : s = i
    · subst his
      have hlt : s < (if k.1 > 0 then ks.map (decK k.1) else ks).length := by
        have := getElem?_some_lt hk
        split <;> simp [this]
      simp only [hlt, ↓reduceIte, Option.some.injEq] at hi
      subst hi
      simp
    · have his' : ¬ i = s := fun e => his e.symm
      simp only [his, ↓reduceIte] at hi
      simp only [his', ↓reduceIte]
      by_cases hw : k.1 > 0
      · simp only [hw, ↓reduceIte, List.getElem?_map] at hi
        cases hki : ks[i]? with
        | none => simp [hki] at hi
        | some k0 =>
          simp only [hki, Option.map_some, Option.some.injEq] at hi
          have h0 := h.num i k0 hki
          subst hi
          unfold decK
          rw [← hks, ← h0]
          by_cases hgt : k0.1 > k.1
          · simp [hgt, hw]
          · simp [hgt]
      · simp only [hw, ↓reduceIte] at hi
        have h0 := h.num i k' hi
        rw [← hks]
        simp [hw, h0]

theorem refines_clearSlot (A : Arith F) (m : Mgr F) (Q : List Nat) (s : Int) (h : Refines m Q) :
    Refines (clearSlot A m s) (absStep m (.clearSlot s) Q) := by
  simp only [absStep]
  by_cases hoob : m.slotOob s = true
  · simp only [hoob, ↓reduceIte]
    unfold clearSlot; simp [hoob]; exact h
  · have hoob' : m.slotOob s = false := by simpa using hoob
    simp only [hoob', Bool.false_eq_true, ↓reduceIte]
    cases hsl : m.slots[s.toNat]? with
    | none =>
      exfalso
      simp only [Mgr.slotOob, Bool.or_eq_false_iff, decide_eq_false_iff_not] at hoob'
      have : s.toNat < m.slots.length := by omega
      simp at hsl
      omega
    | some sl =>
      have hk : (keys m)[s.toNat]? = some (key sl) := by simp [keys, hsl]
      have := queueRel_erase (keys m) m.learnLen Q h s.toNat (key sl) hk
      obtain ⟨h1, h2⟩ := clearSlot_keys A m s sl hoob' hsl
      unfold Refines
      rw [h1, h2]
      exact this

/-! ### handleMidi -/

theorem setParameterNumber_slots (m : Mgr F) (t v : Int) :
    (setParameterNumber m t v).slots = m.slots ∧ (setParameterNumber m t v).learnLen = m.learnLen ∧
    (setParameterNumber m t v).perSlot = m.perSlot := by
  unfold setParameterNumber
  repeat' split
  all_goals exact ⟨rfl, rfl, rfl⟩

theorem regs_slots (m : Mgr F) (t v : Int) :
    (regs m t v).slots = m.slots ∧ (regs m t v).learnLen = m.learnLen ∧ (regs m t v).perSlot = m.perSlot := by
  unfold regs; split
  · exact setParameterNumber_slots m t v
  · exact ⟨rfl, rfl, rfl⟩

theorem sel_nrpn : (fun (sl : Slot F) => sl.midiNrpn) = bindingOf true := by
  funext sl; simp [bindingOf]
theorem sel_cc : (fun (sl : Slot F) => sl.midiCC) = bindingOf false := by
  funext sl; simp [bindingOf]

theorem bindingOf_true (sl : Slot F) : bindingOf true sl = sl.midiNrpn := by simp [bindingOf]
theorem bindingOf_false (sl : Slot F) : bindingOf false sl = sl.midiCC := by simp [bindingOf]

theorem handleMidi_eq (A : Arith F) (m : Mgr F) (c t v : Int) :
    handleMidi A m c t v =
      match controllerOf m c t v with
      | none => (regs m t v, [])
      | some (n, id) =>
        if isBoundTo m n id then
          ({ regs m t v with
              slots := (driveBound A (bindingOf n) id (midiValue A (regs m t v) n v) m.slots).1 },
           (driveBound A (bindingOf n) id (midiValue A (regs m t v) n v) m.slots).2)
        else serveLearn A (regs m t v) n id v := by
  unfold handleMidi controllerOf regs
  by_cases ht : t = C_dataentryhi ∨ t = C_dataentrylo ∨ t = C_nrpnhi ∨ t = C_nrpnlo
  · simp only [ht, ↓reduceIte]
    have hs := (setParameterNumber_slots m t v).1
    by_cases hc : nrpnComplete (setParameterNumber m t v) = true
    · simp only [hc, ↓reduceIte, anyBound, isBoundTo, hs, sel_nrpn, midiValue, bindingOf_true]
    · simp [hc]
  · simp only [ht, ↓reduceIte, anyBound, isBoundTo, sel_cc, midiValue, bindingOf_false]
    split <;> simp

theorem driveBound_keys (A : Arith F) (sel : Slot F → Int) (id : Int) (x : F) (l : List (Slot F)) :
    (driveBound A sel id x l).1.map key = l.map key := by
  induction l with
  | nil => rfl
  | cons sl r ih =>
    simp only [driveBound]
    split <;> simp [ih, key]

theorem driveBound_autos (A : Arith F) (sel : Slot F → Int) (id : Int) (x : F) (l : List (Slot F)) :
    (driveBound A sel id x l).1.map (·.autos) = l.map (·.autos) := by
  induction l with
  | nil => rfl
  | cons sl r ih =>
    simp only [driveBound]
    split <;> simp [ih]

/-- effect of being served on the bookkeeping of the head slot -/
def bindK (n : Bool) (id : Int) (k : Key) : Key := (-1, if n then k.2.1 else id, if n then id else k.2.2)
/-- renumbering of the slots still waiting -/
def decK1 (k : Key) : Key := if k.1 > 1 then (k.1 - 1, k.2) else k

theorem map_modify_comm {α β} (g : α → β) (f : α → α) (f' : β → β) (h : ∀ x, g (f x) = f' (g x))
    (l : List α) (i : Nat) : (l.modify i f).map g = (l.map g).modify i f' := by
  apply List.ext_getElem?
  intro j
  simp only [List.getElem?_map, List.getElem?_modify]
  by_cases hij : i = j
  · subst hij; cases l[i]? <;> simp [h]
  · simp [hij]

theorem serveLearn_keys (A : Arith F) (m : Mgr F) (n : Bool) (id v : Int) :
    keys (serveLearn A m n id v).1 =
      (match findHead m.slots 0 with
       | none => keys m
       | some i => ((keys m).modify i (bindK n id)).map decK1) ∧
    (serveLearn A m n id v).1.learnLen =
      (match findHead m.slots 0 with
       | none => m.learnLen
       | some _ => m.learnLen - 1) := by
  unfold serveLearn
  cases hf : findHead m.slots 0 with
  | none => exact ⟨rfl, rfl⟩
  | some i =>
    simp only []
    rw [keys_setSlot, len_setSlot]
    refine ⟨?_, rfl⟩
    simp only [keys]
    have h1 : ∀ sl : Slot F, key (if sl.learning > 1 then { sl with learning := sl.learning - 1 } else sl) = decK1 (key sl) := by
      intro sl; unfold decK1 key; split <;> rfl
    have h2 : ∀ sl : Slot F, key (if n = true then { sl with learning := -1, midiNrpn := id } else { sl with learning := -1, midiCC := id }) = bindK n id (key sl) := by
      intro sl; unfold bindK key; cases n <;> simp
    rw [← map_modify_comm key _ (bindK n id) h2, List.map_map, List.map_map]
    apply List.map_congr_left
    intro x _
    exact h1 x

theorem findHead_none (l : List (Slot F)) (off : Nat) (h : ∀ sl ∈ l, sl.learning ≠ 1) :
    findHead l off = none := by
  induction l generalizing off with
  | nil => rfl
  | cons sl r ih =>
    simp only [findHead]
    have := h sl (List.mem_cons_self)
    simp only [this, ↓reduceIte]
    exact ih _ (fun x hx => h x (List.mem_cons_of_mem _ hx))

theorem findHead_some (l : List (Slot F)) (off hd : Nat) (hlt : hd < l.length)
    (h : ∀ j sl, l[j]? = some sl → (sl.learning = 1 ↔ j = hd)) : findHead l off = some (off + hd) := by
  induction l generalizing off hd with
  | nil => simp at hlt
  | cons sl r ih =>
    simp only [findHead]
    cases hd with
    | zero =>
      have := (h 0 sl (by simp)).mpr rfl
      simp [this]
    | succ hd' =>
      have hne : sl.learning ≠ 1 := by
        intro h1
        have := (h 0 sl (by simp)).mp h1
        omega
      simp only [hne, ↓reduceIte]
      have := ih (off + 1) hd' (by simpa using hlt) (by
        intro j sl' hj
        have := h (j + 1) sl' (by simpa using hj)
        omega)
      rw [this]; congr 1; omega

theorem queueRel_serve (ks : List Key) (len : Int) (hd : Nat) (Q' : List Nat) (n : Bool) (id : Int)
    (h : QueueRel ks len (hd :: Q')) :
    QueueRel ((ks.modify hd (bindK n id)).map decK1) (len - 1) Q' := by
  have hn := List.nodup_cons.mp h.nodup
  refine ⟨hn.2, ?_, ?_, ?_⟩
  · intro q hq
    simp only [List.length_map, List.length_modify]
    exact h.bound q (List.mem_cons_of_mem _ hq)
  · simp [h.len]
  · intro i k' hi
    simp only [List.getElem?_map, List.getElem?_modify] at hi
    cases hki : ks[i]? with
    | none => simp [hki] at hi
    | some k =>
      have h0 := h.num i k hki
      rw [qpos_tail hd Q' i h.nodup, ← h0]
      simp only [hki, Option.map_eq_map, Option.map_some, Option.some.injEq] at hi
      subst hi
      by_cases hhi : hd = i
      · subst hhi
        have : k.1 = 1 := by rw [h0]; exact (qpos_head_iff hd Q' hd).mpr rfl
        simp [decK1, bindK, this]
      · simp only [hhi, ↓reduceIte]
        have hr := qpos_range (hd :: Q') i
        have hne : qpos (hd :: Q') i ≠ 1 := fun e => hhi ((qpos_head_iff hd Q' i).mp e).symm
        unfold decK1
        by_cases hk1 : k.1 > 1
        · simp [hk1]
        · simp only [hk1, ↓reduceIte]
          omega

theorem refines_head (m : Mgr F) (hd : Nat) (Q' : List Nat) (h : Refines m (hd :: Q')) :
    findHead m.slots 0 = some hd := by
  have hb : hd < m.slots.length := by
    have := h.bound hd (List.mem_cons_self); simpa [keys] using this
  have := findHead_some m.slots 0 hd hb (by
    intro j sl hj
    have hk : (keys m)[j]? = some (key sl) := by simp [keys, hj]
    have := h.num j (key sl) hk
    simp only [key] at this
    rw [this]
    exact qpos_head_iff hd Q' j)
  simpa using this

theorem refines_nil_head (m : Mgr F) (h : Refines m []) : findHead m.slots 0 = none := by
  apply findHead_none
  intro sl hsl
  obtain ⟨j, hj, rfl⟩ := List.getElem_of_mem hsl
  have hk : (keys m)[j]? = some (key m.slots[j]) := by simp [keys, hj]
  have := h.num j _ hk
  simp only [key, qpos] at this
  omega

theorem refines_serveLearn (A : Arith F) (m : Mgr F) (Q : List Nat) (n : Bool) (id v : Int) (h : Refines m Q) :
    Refines (serveLearn A m n id v).1 Q.tail := by
  obtain ⟨h1, h2⟩ := serveLearn_keys A m n id v
  unfold Refines
  rw [h1, h2]
  cases Q with
  | nil => simp only [refines_nil_head m h, List.tail_nil]; exact h
  | cons hd Q' =>
    simp only [refines_head m hd Q' h, List.tail_cons]
    exact queueRel_serve _ _ hd Q' n id h

theorem refines_midi (A : Arith F) (m : Mgr F) (Q : List Nat) (c t v : Int) (h : Refines m Q) :
    Refines (handleMidi A m c t v).1 (absStep m (.midi c t v) Q) := by
  have hr := regs_slots m t v
  have hrr : Refines (regs m t v) Q := by
    unfold Refines keys; rw [hr.1, hr.2.1]; exact h
  rw [handleMidi_eq]
  simp only [absStep]
  cases controllerOf m c t v with
  | none => exact hrr
  | some p =>
    obtain ⟨n, id⟩ := p
    simp only []
    by_cases hb : isBoundTo m n id = true
    · simp only [hb, ↓reduceIte]
      unfold Refines keys
      simp only [driveBound_keys, hr.2.1]
      exact h
    · simp only [hb, Bool.false_eq_true, ↓reduceIte]
      exact refines_serveLearn A _ Q n id v hrr

/-! ### one step of any operation keeps the refinement -/

theorem refines_of_keys_eq {m m' : Mgr F} {Q : List Nat} (hk : keys m' = keys m) (hl : m'.learnLen = m.learnLen)
    (h : Refines m Q) : Refines m' Q := by
  unfold Refines; rw [hk, hl]; exact h

theorem refines_step (A : Arith F) (m m' : Mgr F) (Q : List Nat) (op : Op F) (ms : List (Msg F))
    (h : Refines m Q) (hs : step A m op = some (m', ms)) : Refines m' (absStep m op Q) := by
  cases op with
  | bind s path port learn =>
    simp only [step, Option.map_eq_some_iff, Prod.mk.injEq] at hs
    obtain ⟨m1, hc, rfl, _⟩ := hs
    exact refines_bind A m m1 Q s path port learn h hc
  | setPath s j path port =>
    simp only [step, Option.map_eq_some_iff, Prod.mk.injEq] at hs
    obtain ⟨m1, hc, rfl, _⟩ := hs
    obtain ⟨h1, h2⟩ := keys_setSlotSubPath A m m1 s j path port hc
    exact refines_of_keys_eq h1 h2 h
  | clearSlot s =>
    simp only [step, Option.some.injEq, Prod.mk.injEq] at hs
    obtain ⟨rfl, _⟩ := hs
    exact refines_clearSlot A m Q s h
  | clearSub s j =>
    simp only [step, Option.some.injEq, Prod.mk.injEq] at hs
    obtain ⟨rfl, _⟩ := hs
    exact refines_of_keys_eq (keys_clearSlotSub ..) (len_clearSlotSub ..) h
  | gain s j x =>
    simp only [step, Option.some.injEq, Prod.mk.injEq] at hs
    obtain ⟨rfl, _⟩ := hs
    exact refines_of_keys_eq ((keys_updateMapping ..).trans (keys_setGain ..))
      ((len_updateMapping ..).trans (len_setGain ..)) h
  | offset s j x =>
    simp only [step, Option.some.injEq, Prod.mk.injEq] at hs
    obtain ⟨rfl, _⟩ := hs
    exact refines_of_keys_eq ((keys_updateMapping ..).trans (keys_setOffset ..))
      ((len_updateMapping ..).trans (len_setOffset ..)) h
  | setSlot s x =>
    simp only [step, Option.some.injEq] at hs
    have : m' = (setSlot A m s x).1 := by rw [hs]
    subst this
    exact refines_of_keys_eq (keys_setSlot ..) (len_setSlot ..) h
  | setSub s j x =>
    simp only [step, Option.some.injEq, Prod.mk.injEq] at hs
    obtain ⟨rfl, _⟩ := hs
    exact h
  | midi c t v =>
    simp only [step, Option.some.injEq] at hs
    have : m' = (handleMidi A m c t v).1 := by rw [hs]
    subst this
    exact refines_midi A m Q c t v h

theorem refines_init (A : Arith F) (n p : Nat) : Refines (Mgr.init A n p) [] := by
  refine ⟨List.nodup_nil, by simp, by simp [Mgr.init], ?_⟩
  intro i k hk
  simp only [keys, Mgr.init, List.map_replicate, List.getElem?_replicate] at hk
  split at hk
  · cases hk; rfl
  · cases hk

/-! ### a controller is bound to at most one slot -/

def selCC (k : Key) : Int := k.2.1
def selNrpn (k : Key) : Int := k.2.2
def selOf (n : Bool) : Key → Int := if n then selNrpn else selCC

theorem uniq_pointwise (sel : Key → Int) (ks ks' : List Key) (hu : Uniq sel ks)
    (h : ∀ (i : Nat) (k' : Key), ks'[i]? = some k' → sel k' = -1 ∨ ∃ k, ks[i]? = some k ∧ sel k' = sel k) :
    Uniq sel ks' := by
  intro i j a b hi hj hab hne
  rcases h i a hi with ha | ⟨ka, hka, hsa⟩
  · exact absurd ha hne
  · rcases h j b hj with hb | ⟨kb, hkb, hsb⟩
    · rw [hab] at hne; exact absurd hb hne
    · exact hu i j ka kb hka hkb (by rw [← hsa, ← hsb, hab]) (by rw [← hsa]; exact hne)

theorem uniq_bind (sel : Key → Int) (hsel : ∀ (l : Int) (k : Key), sel (l, k.2) = sel k) (A : Arith F) (m m' : Mgr F)
    (s : Int) (path : Bytes) (port : Option (PortInfo F)) (learn : Bool)
    (hc : createBinding A m s path port learn = some m') (hu : Uniq sel (keys m)) : Uniq sel (keys m') := by
  rcases createBinding_cases A m m' s path port learn hc with ⟨rfl, _⟩ | ⟨p, sl, ind, au, au1, _, _, hsl, _, _, _, rfl⟩
  · exact hu
  · apply uniq_pointwise sel (keys m) _ hu
    intro i k' hi
    right
    simp only [keys, List.map_set, List.getElem?_set, List.length_map] at hi
    by_cases his : s.toNat = i
    · subst his
      have hlt := getElem?_some_lt hsl
      simp only [hlt, ↓reduceIte, Option.some.injEq] at hi
      refine ⟨key sl, by simp [keys, hsl], ?_⟩
      subst hi
      exact hsel _ (key sl)
    · simp only [his, ↓reduceIte] at hi
      exact ⟨k', by simpa [keys] using hi, rfl⟩

theorem uniq_clearSlot (sel : Key → Int) (hsel : ∀ (l : Int) (k : Key), sel (l, k.2) = sel k)
    (h1 : sel (-1, -1, -1) = -1) (A : Arith F) (m : Mgr F) (s : Int) (hu : Uniq sel (keys m)) :
    Uniq sel (keys (clearSlot A m s)) := by
  by_cases hoob : m.slotOob s = true
  · unfold clearSlot; simp only [hoob, ↓reduceIte]; exact hu
  · have hoob' : m.slotOob s = false := by simpa using hoob
    cases hsl : m.slots[s.toNat]? with
    | none => unfold clearSlot; simp only [hoob', Bool.false_eq_true, ↓reduceIte, hsl]; exact hu
    | some sl =>
      rw [(clearSlot_keys A m s sl hoob' hsl).1]
      apply uniq_pointwise sel (keys m) _ hu
      intro i k' hi
      simp only [List.getElem?_set] at hi
      by_cases his : s.toNat = i
      · subst his
        simp at hi
        left; rw [← hi.2]; exact h1
      · simp only [his, ↓reduceIte] at hi
        right
        by_cases hw : sl.learning > 0
        · simp only [hw, ↓reduceIte, List.getElem?_map] at hi
          cases hk : (keys m)[i]? with
          | none => simp [hk] at hi
          | some k =>
            simp only [hk, Option.map_some, Option.some.injEq] at hi
            refine ⟨k, rfl, ?_⟩
            subst hi
            unfold decK
            split
            · exact hsel _ k
            · rfl
        · simp only [hw, ↓reduceIte] at hi
          exact ⟨k', hi, rfl⟩

theorem uniq_serve (sel : Key → Int) (n : Bool) (id : Int) (hd : Nat) (ks : List Key)
    (hdec : ∀ k, sel (decK1 k) = sel k)
    (hcase : (∀ k, sel (bindK n id k) = sel k) ∨
             ((∀ k, sel (bindK n id k) = id) ∧ ∀ (i : Nat) (k : Key), ks[i]? = some k → sel k ≠ id))
    (hu : Uniq sel ks) : Uniq sel ((ks.modify hd (bindK n id)).map decK1) := by
  rcases hcase with hsame | ⟨hnew, hfree⟩
  · apply uniq_pointwise sel ks _ hu
    intro i k' hi
    right
    simp only [List.getElem?_map, List.getElem?_modify] at hi
    cases hk : ks[i]? with
    | none => simp [hk] at hi
    | some k =>
      simp only [hk, Option.map_eq_map, Option.map_some, Option.some.injEq] at hi
      refine ⟨k, rfl, ?_⟩
      subst hi
      rw [hdec]
      split
      · exact hsame k
      · rfl
  · have hpt : ∀ (i : Nat) (k' : Key), ((ks.modify hd (bindK n id)).map decK1)[i]? = some k' →
        ∃ k, ks[i]? = some k ∧ sel k' = if hd = i then id else sel k := by
      intro i k' hi
      simp only [List.getElem?_map, List.getElem?_modify] at hi
      cases hk : ks[i]? with
      | none => simp [hk] at hi
      | some k =>
        simp only [hk, Option.map_eq_map, Option.map_some, Option.some.injEq] at hi
        refine ⟨k, rfl, ?_⟩
        subst hi
        rw [hdec]
        split
        · exact hnew k
        · rfl
    intro i j a b hi hj hab hne
    obtain ⟨ka, hka, hsa⟩ := hpt i a hi
    obtain ⟨kb, hkb, hsb⟩ := hpt j b hj
    by_cases h1 : hd = i <;> by_cases h2 : hd = j
    · omega
    · simp only [h1, ↓reduceIte] at hsa
      simp only [h2, ↓reduceIte] at hsb
      exact absurd (by rw [← hsb, ← hab, hsa]) (hfree j kb hkb)
    · simp only [h1, ↓reduceIte] at hsa
      simp only [h2, ↓reduceIte] at hsb
      exact absurd (by rw [← hsa, hab, hsb]) (hfree i ka hka)
    · simp only [h1, ↓reduceIte] at hsa
      simp only [h2, ↓reduceIte] at hsb
      exact hu i j ka kb hka hkb (by rw [← hsa, ← hsb, hab]) (by rw [← hsa]; exact hne)

theorem selOf_key (n : Bool) (sl : Slot F) : selOf n (key sl) = bindingOf n sl := by
  cases n <;> simp [selOf, selCC, selNrpn, key, bindingOf]

theorem selOf_pair (n : Bool) (l : Int) (k : Key) : selOf n (l, k.2) = selOf n k := by
  cases n <;> simp [selOf, selCC, selNrpn]

theorem selOf_decK1 (n : Bool) (k : Key) : selOf n (decK1 k) = selOf n k := by
  unfold decK1; split
  · exact selOf_pair n _ k
  · rfl

theorem uniq_midi (A : Arith F) (m : Mgr F) (c t v : Int) (n' : Bool) (hu : Uniq (selOf n') (keys m)) :
    Uniq (selOf n') (keys (handleMidi A m c t v).1) := by
  have hr := regs_slots m t v
  have hkr : keys (regs m t v) = keys m := by simp [keys, hr.1]
  rw [handleMidi_eq]
  cases hco : controllerOf m c t v with
  | none => simp only []; rw [hkr]; exact hu
  | some p =>
    obtain ⟨n, id⟩ := p
    simp only []
    by_cases hb : isBoundTo m n id = true
    · simp only [hb, ↓reduceIte, keys, driveBound_keys]
      exact hu
    · simp only [hb, Bool.false_eq_true, ↓reduceIte]
      rw [(serveLearn_keys A (regs m t v) n id v).1]
      cases findHead (regs m t v).slots 0 with
      | none => simp only []; rw [hkr]; exact hu
      | some hd =>
        simp only []
        rw [hkr]
        apply uniq_serve (selOf n') n id hd (keys m) (selOf_decK1 n') _ hu
        by_cases hnn : n' = n
        · subst hnn
          right
          constructor
          · intro k; cases n' <;> simp [selOf, selCC, selNrpn, bindK]
          · intro i k hk
            simp only [keys, List.getElem?_map] at hk
            cases hsl : m.slots[i]? with
            | none => simp [hsl] at hk
            | some sl =>
              simp only [hsl, Option.map_some, Option.some.injEq] at hk
              subst hk
              rw [selOf_key]
              have hmem : sl ∈ m.slots := List.mem_of_getElem? hsl
              simp only [isBoundTo, List.any_eq_true, decide_eq_true_eq, not_exists, not_and] at hb
              exact hb sl hmem
        · left
          intro k
          cases n' <;> cases n <;> simp_all [selOf, selCC, selNrpn, bindK]

theorem selOf_clear (n : Bool) : selOf n (-1, -1, -1) = -1 := by
  cases n <;> simp [selOf, selCC, selNrpn]

theorem uniq_step (A : Arith F) (m m' : Mgr F) (op : Op F) (ms : List (Msg F)) (n : Bool)
    (hu : Uniq (selOf n) (keys m)) (hs : step A m op = some (m', ms)) : Uniq (selOf n) (keys m') := by
  cases op with
  | bind s path port learn =>
    simp only [step, Option.map_eq_some_iff, Prod.mk.injEq] at hs
    obtain ⟨m1, hc, rfl, _⟩ := hs
    exact uniq_bind (selOf n) (selOf_pair n) A m m1 s path port learn hc hu
  | setPath s j path port =>
    simp only [step, Option.map_eq_some_iff, Prod.mk.injEq] at hs
    obtain ⟨m1, hc, rfl, _⟩ := hs
    rw [(keys_setSlotSubPath A m m1 s j path port hc).1]; exact hu
  | clearSlot s =>
    simp only [step, Option.some.injEq, Prod.mk.injEq] at hs
    obtain ⟨rfl, _⟩ := hs
    exact uniq_clearSlot (selOf n) (selOf_pair n) (selOf_clear n) A m s hu
  | clearSub s j =>
    simp only [step, Option.some.injEq, Prod.mk.injEq] at hs
    obtain ⟨rfl, _⟩ := hs
    rw [keys_clearSlotSub]; exact hu
  | gain s j x =>
    simp only [step, Option.some.injEq, Prod.mk.injEq] at hs
    obtain ⟨rfl, _⟩ := hs
    rw [keys_updateMapping, keys_setGain]; exact hu
  | offset s j x =>
    simp only [step, Option.some.injEq, Prod.mk.injEq] at hs
    obtain ⟨rfl, _⟩ := hs
    rw [keys_updateMapping, keys_setOffset]; exact hu
  | setSlot s x =>
    simp only [step, Option.some.injEq] at hs
    have : m' = (setSlot A m s x).1 := by rw [hs]
    subst this
    rw [keys_setSlot]; exact hu
  | setSub s j x =>
    simp only [step, Option.some.injEq, Prod.mk.injEq] at hs
    obtain ⟨rfl, _⟩ := hs
    exact hu
  | midi c t v =>
    simp only [step, Option.some.injEq] at hs
    have : m' = (handleMidi A m c t v).1 := by rw [hs]
    subst this
    exact uniq_midi A m c t v n hu

theorem uniq_init (A : Arith F) (ns p : Nat) (n : Bool) : Uniq (selOf n) (keys (Mgr.init A ns p)) := by
  intro i j a b hi _ _ hne
  simp only [keys, Mgr.init, List.map_replicate, List.getElem?_replicate] at hi
  split at hi
  · simp only [Option.some.injEq] at hi
    subst hi
    exfalso; apply hne
    cases n <;> simp [selOf, selCC, selNrpn, key, Slot.init]
  · cases hi

/-! ### a bound controller drives exactly its slot -/

theorem driveBound_none (A : Arith F) (sel : Slot F → Int) (id : Int) (x : F) (l : List (Slot F))
    (h : ∀ sl ∈ l, sel sl ≠ id) : driveBound A sel id x l = (l, []) := by
  induction l with
  | nil => rfl
  | cons sl r ih =>
    simp only [driveBound]
    rw [ih (fun s hs => h s (List.mem_cons_of_mem _ hs))]
    simp [h sl (List.mem_cons_self)]

theorem driveBound_unique (A : Arith F) (sel : Slot F → Int) (id : Int) (x : F) (l : List (Slot F))
    (i : Nat) (sl : Slot F) (hi : l[i]? = some sl) (hm : sel sl = id)
    (hu : ∀ (j : Nat) (sl' : Slot F), l[j]? = some sl' → sel sl' = id → j = i) :
    driveBound A sel id x l = (l.set i { sl with current := x }, slotMsgs A sl x) := by
  induction l generalizing i with
  | nil => simp at hi
  | cons s0 r ih =>
    simp only [driveBound]
    cases i with
    | zero =>
      simp only [List.getElem?_cons_zero, Option.some.injEq] at hi
      subst hi
      rw [driveBound_none A sel id x r (by
        intro s hs hsel
        obtain ⟨j, hj, rfl⟩ := List.getElem_of_mem hs
        have := hu (j + 1) r[j] (by simp [hj]) hsel
        omega)]
      simp [hm]
    | succ i' =>
      have hne : sel s0 ≠ id := by
        intro h0
        have := hu 0 s0 (by simp) h0
        omega
      rw [ih i' (by simpa using hi) (by
        intro j sl' hj hs
        have := hu (j + 1) sl' (by simpa using hj) hs
        omega)]
      simp [hne]

/-! ### every used automation stays bound to a port with its control points in sync -/

def autosOf (m : Mgr F) : List (List (Automation F)) := m.slots.map (·.autos)

theorem allAutos_iff (m : Mgr F) (P : Automation F → Prop) :
    AllAutos m P ↔ ∀ l ∈ autosOf m, ∀ au ∈ l, P au := by
  simp only [AllAutos, autosOf, List.mem_map]
  constructor
  · rintro h l ⟨sl, hsl, rfl⟩ au hau; exact h sl hsl au hau
  · intro h sl hsl au hau; exact h sl.autos ⟨sl, hsl, rfl⟩ au hau

theorem allAutos_of_autosOf_eq {m m' : Mgr F} {P : Automation F → Prop} (h : autosOf m' = autosOf m)
    (ha : AllAutos m P) : AllAutos m' P := by
  rw [allAutos_iff] at ha ⊢; rw [h]; exact ha

theorem mem_modify_cases {α} (l : List α) (i : Nat) (f : α → α) (y : α) (hy : y ∈ l.modify i f) :
    y ∈ l ∨ ∃ x, l[i]? = some x ∧ y = f x := by
  obtain ⟨j, hj, rfl⟩ := List.getElem_of_mem hy
  have hj' : j < l.length := by simpa using hj
  by_cases hij : i = j
  · subst hij
    right
    exact ⟨l[i], by simp, by simp⟩
  · left
    simp only [List.getElem_modify, hij, ↓reduceIte]
    exact List.getElem_mem hj'

theorem allAutos_modifyAuto (m : Mgr F) (s j : Nat) (f : Automation F → Automation F) (P : Automation F → Prop)
    (hf : ∀ au, P au → P (f au)) (ha : AllAutos m P) : AllAutos (modifyAuto m s j f) P := by
  intro sl hsl au hau
  simp only [modifyAuto] at hsl
  rcases mem_modify_cases _ _ _ _ hsl with h | ⟨sl0, hs0, rfl⟩
  · exact ha sl h au hau
  · have hm0 : sl0 ∈ m.slots := List.mem_of_getElem? hs0
    simp only at hau
    rcases mem_modify_cases _ _ _ _ hau with h | ⟨au0, ha0, rfl⟩
    · exact ha sl0 hm0 au h
    · exact hf au0 (ha sl0 hm0 au0 (List.mem_of_getElem? ha0))

theorem modify_modify {α} (l : List α) (i : Nat) (f g : α → α) :
    (l.modify i f).modify i g = l.modify i (fun x => g (f x)) := by
  apply List.ext_getElem?
  intro j
  simp only [List.getElem?_modify]
  by_cases hij : i = j
  · subst hij; cases l[i]? <;> simp
  · simp [hij]

theorem modifyAuto_modifyAuto (m : Mgr F) (s j : Nat) (f g : Automation F → Automation F) :
    modifyAuto (modifyAuto m s j f) s j g = modifyAuto m s j (fun au => g (f au)) := by
  simp only [modifyAuto, modify_modify]

theorem slotOob_modifyAuto (m : Mgr F) (s j : Nat) (f : Automation F → Automation F) (x : Int) :
    (modifyAuto m s j f).slotOob x = m.slotOob x := by
  simp [Mgr.slotOob, modifyAuto]

theorem subOob_modifyAuto (m : Mgr F) (s j : Nat) (f : Automation F → Automation F) (x : Int) :
    (modifyAuto m s j f).subOob x = m.subOob x := by
  simp [Mgr.subOob, modifyAuto]

theorem gain_eq (A : Arith F) (m : Mgr F) (s j : Int) (x : F) :
    updateMapping A (setSlotSubGain m s j x) s j =
      if m.slotOob s || m.subOob j then m
      else modifyAuto m s.toNat j.toNat (fun au => Automation.remap A { au with gain := x }) := by
  by_cases h : (m.slotOob s || m.subOob j) = true
  · simp [setSlotSubGain, updateMapping, h]
  · have h' : (m.slotOob s || m.subOob j) = false := by simpa using h
    have e1 : setSlotSubGain m s j x = modifyAuto m s.toNat j.toNat (fun au => { au with gain := x }) := by
      simp [setSlotSubGain, h']
    rw [e1]
    have e2 : updateMapping A (modifyAuto m s.toNat j.toNat (fun au => { au with gain := x })) s j =
        modifyAuto (modifyAuto m s.toNat j.toNat (fun au => { au with gain := x })) s.toNat j.toNat (Automation.remap A) := by
      simp [updateMapping, slotOob_modifyAuto, subOob_modifyAuto, h']
    rw [e2, modifyAuto_modifyAuto]
    simp [h']

theorem offset_eq (A : Arith F) (m : Mgr F) (s j : Int) (x : F) :
    updateMapping A (setSlotSubOffset m s j x) s j =
      if m.slotOob s || m.subOob j then m
      else modifyAuto m s.toNat j.toNat (fun au => Automation.remap A { au with offset := x }) := by
  by_cases h : (m.slotOob s || m.subOob j) = true
  · simp [setSlotSubOffset, updateMapping, h]
  · have h' : (m.slotOob s || m.subOob j) = false := by simpa using h
    have e1 : setSlotSubOffset m s j x = modifyAuto m s.toNat j.toNat (fun au => { au with offset := x }) := by
      simp [setSlotSubOffset, h']
    rw [e1]
    have e2 : updateMapping A (modifyAuto m s.toNat j.toNat (fun au => { au with offset := x })) s j =
        modifyAuto (modifyAuto m s.toNat j.toNat (fun au => { au with offset := x })) s.toNat j.toNat (Automation.remap A) := by
      simp [updateMapping, slotOob_modifyAuto, subOob_modifyAuto, h']
    rw [e2, modifyAuto_modifyAuto]
    simp [h']

theorem fromPort_congr (A : Arith F) (au au' : Automation F) (h : FromPort A au)
    (h0 : au'.bound = au.bound)
    (h1 : au'.path = au.path) (h2 : au'.ty = au.ty) (h3 : au'.pmin = au.pmin) (h4 : au'.pmax = au.pmax)
    (h5 : au'.logScale = au.logScale) : FromPort A au' := by
  obtain ⟨au0, b, path, p, hw, hp, hl, hb, e0, e1, e2, e3, e4, e5⟩ := h
  exact ⟨au0, b, path, p, hw, hp, hl, hb, h0.trans e0, h1.trans e1, h2.trans e2, h3.trans e3, h4.trans e4,
    h5.trans e5⟩

theorem good_remap (A : Arith F) (au : Automation F) (h : au.used = true → FromPort A au)
    (h' : au.used = false → au.bound = none) :
    Good A (Automation.remap A au) := by
  refine ⟨?_, h'⟩
  intro hu
  exact ⟨fromPort_congr A au _ (h hu) rfl rfl rfl rfl rfl rfl, rfl⟩

theorem good_gain (A : Arith F) (au : Automation F) (x : F) (h : Good A au) :
    Good A (Automation.remap A { au with gain := x }) :=
  good_remap A _ (fun hu => fromPort_congr A au _ (h.1 hu).1 rfl rfl rfl rfl rfl rfl) h.2

theorem good_offset (A : Arith F) (au : Automation F) (x : F) (h : Good A au) :
    Good A (Automation.remap A { au with offset := x }) :=
  good_remap A _ (fun hu => fromPort_congr A au _ (h.1 hu).1 rfl rfl rfl rfl rfl rfl) h.2

theorem good_clear (A : Arith F) (au : Automation F) : Good A (Automation.clear A au) := by
  refine ⟨?_, fun _ => rfl⟩
  intro hu; simp [Automation.clear] at hu

/-- what `bindInfo` leaves in the fields the property does not look at -/
theorem bindInfo_bound (A : Arith F) (au au1 : Automation F) (path : Bytes) (p : PortInfo F)
    (hb : bindInfo A au path p = some au1) : au1.bound = some (path, p) ∧ au1.used = true := by
  unfold bindInfo at hb
  cases hF : p.hasF <;> cases hT : p.hasT <;> cases hmn : p.min <;> cases hmx : p.max <;>
    cases hs : p.scaleLog <;>
    simp only [hF, hT, hmn, hmx, hs, Bool.false_eq_true, ↓reduceIte, Char.reduceEq,
      Option.some.injEq, reduceCtorEq] at hb <;>
    first
      | (subst hb; exact ⟨rfl, rfl⟩)
      | skip

theorem portUsable_some (port : Option (PortInfo F)) (p : PortInfo F) (h : portUsable port = some p) :
    port = some p ∧ portUsable (some p) = some p := by
  unfold portUsable at h
  split at h
  · cases h
  · rename_i p0
    split at h
    · cases h
    · split at h
      · cases h
      · cases h
        refine ⟨rfl, ?_⟩
        simp only [portUsable]
        simp_all

theorem good_bound (A : Arith F) (au au1 : Automation F) (path : Bytes) (p : PortInfo F)
    (hw : PortWF A p) (hp : portUsable (some p) = some p) (hl : path.length ≤ 127)
    (hb : bindInfo A au path p = some au1) :
    (au1.used = true → FromPort A au1) :=
  fun _ => ⟨au, au1, path, p, hw, hp, hl, hb, (bindInfo_bound A au au1 path p hb).1, rfl, rfl, rfl, rfl, rfl⟩

theorem allAutos_set_slot (m : Mgr F) (P : Automation F → Prop) (s : Nat) (sl sl1 : Slot F)
    (_hsl : m.slots[s]? = some sl) (ha : AllAutos m P) (h1 : ∀ au ∈ sl1.autos, P au) (l : Int) :
    AllAutos ({ m with slots := m.slots.set s sl1, learnLen := l } : Mgr F) P := by
  intro x hx au hau
  rcases List.mem_or_eq_of_mem_set hx with h | rfl
  · exact ha x h au hau
  · exact h1 au hau

theorem good_createBinding (A : Arith F) (m m' : Mgr F) (s : Int) (path : Bytes) (port : Option (PortInfo F))
    (learn : Bool) (hlen : path.length ≤ 127) (hwf : ∀ p, port = some p → PortWF A p)
    (hc : createBinding A m s path port learn = some m') (ha : AllAutos m (Good A)) : AllAutos m' (Good A) := by
  rcases createBinding_cases A m m' s path port learn hc with ⟨rfl, _⟩ | ⟨p, sl, ind, au, au1, hp, _, hsl, _, hau, hbi, rfl⟩
  · exact ha
  · obtain ⟨hport, hp'⟩ := portUsable_some port p hp
    apply allAutos_set_slot m (Good A) s.toNat sl _ hsl ha
    intro x hx
    simp only at hx
    rcases List.mem_or_eq_of_mem_set hx with h | rfl
    · exact ha sl (List.mem_of_getElem? hsl) x h
    · have hb1 := bindInfo_bound A au au1 path p hbi
      apply good_remap
      · intro hu
        exact fromPort_congr A au1 _ (good_bound A au au1 path p (hwf p hport) hp' hlen hbi (by simpa using hu))
          rfl rfl rfl rfl rfl rfl
      · intro hu
        have : au1.used = false := by simpa using hu
        rw [hb1.2] at this; cases this

theorem good_setSlotSubPath (A : Arith F) (m m' : Mgr F) (s j : Int) (path : Bytes) (port : Option (PortInfo F))
    (hlen : path.length ≤ 127) (hwf : ∀ p, port = some p → PortWF A p)
    (hc : setSlotSubPath A m s j path port = some m') (ha : AllAutos m (Good A)) : AllAutos m' (Good A) := by
  unfold setSlotSubPath at hc
  split at hc
  · cases hc; exact ha
  · split at hc
    · cases hc; exact ha
    · rename_i p hp
      split at hc
      · cases hc
      · split at hc
        · cases hc
        · rename_i sl hsl
          split at hc
          · cases hc
          · rename_i au hau
            split at hc
            · cases hc
            · rename_i au1 hbi
              cases hc
              obtain ⟨hport, hp'⟩ := portUsable_some port p hp
              have := allAutos_set_slot m (Good A) s.toNat sl
                { sl with used := true, autos := sl.autos.set j.toNat (Automation.remap A au1) } hsl ha (by
                  intro x hx
                  simp only at hx
                  rcases List.mem_or_eq_of_mem_set hx with h | rfl
                  · exact ha sl (List.mem_of_getElem? hsl) x h
                  · exact good_remap A au1 (good_bound A au au1 path p (hwf p hport) hp' hlen hbi)
                      (fun hu => by rw [(bindInfo_bound A au au1 path p hbi).2] at hu; cases hu)) m.learnLen
              exact this

theorem good_clearSlot (A : Arith F) (m : Mgr F) (s : Int) (ha : AllAutos m (Good A)) :
    AllAutos (clearSlot A m s) (Good A) := by
  unfold clearSlot
  split
  · exact ha
  · split
    · exact ha
    · rename_i sl hsl
      intro x hx au hau
      simp only at hx
      rcases mem_modify_cases _ _ _ _ hx with h | ⟨x0, _, rfl⟩
      · split at h
        · simp only [List.mem_map] at h
          obtain ⟨y, hy, rfl⟩ := h
          have : (decAbove sl.learning y).autos = y.autos := by unfold decAbove; split <;> rfl
          rw [this] at hau
          exact ha y hy au hau
        · exact ha x h au hau
      · simp only [List.mem_map] at hau
        obtain ⟨a0, _, rfl⟩ := hau
        exact good_clear A a0

theorem autosOf_setSlot (A : Arith F) (m : Mgr F) (s : Int) (x : F) : autosOf (setSlot A m s x).1 = autosOf m := by
  unfold setSlot; split
  · rfl
  · split
    · rfl
    · rename_i sl hsl
      simp only [autosOf]
      exact map_set_inv (·.autos) m.slots s.toNat sl { sl with current := x } hsl rfl

theorem autosOf_serveLearn (A : Arith F) (m : Mgr F) (n : Bool) (id v : Int) :
    autosOf (serveLearn A m n id v).1 = autosOf m := by
  unfold serveLearn
  split
  · rfl
  · rw [autosOf_setSlot]
    simp only [autosOf, List.map_map]
    rw [← map_modify_inv (·.autos) (fun sl : Slot F =>
        if n = true then { sl with learning := -1, midiNrpn := id } else { sl with learning := -1, midiCC := id })
        (by intro x; split <;> rfl) m.slots _]
    apply List.map_congr_left
    intro x _
    simp only [Function.comp]
    split <;> rfl

theorem autosOf_handleMidi (A : Arith F) (m : Mgr F) (c t v : Int) :
    autosOf (handleMidi A m c t v).1 = autosOf m := by
  have hr : autosOf (regs m t v) = autosOf m := by simp [autosOf, (regs_slots m t v).1]
  rw [handleMidi_eq]
  cases controllerOf m c t v with
  | none => exact hr
  | some p =>
    obtain ⟨n, id⟩ := p
    simp only []
    split
    · simp only [autosOf, driveBound_autos]
    · rw [autosOf_serveLearn]; exact hr

theorem good_step (A : Arith F) (m m' : Mgr F) (op : Op F) (ms : List (Msg F)) (hwf : OpWF A op)
    (ha : AllAutos m (Good A)) (hs : step A m op = some (m', ms)) : AllAutos m' (Good A) := by
  cases op with
  | bind s path port learn =>
    simp only [step, Option.map_eq_some_iff, Prod.mk.injEq] at hs
    obtain ⟨m1, hc, rfl, _⟩ := hs
    exact good_createBinding A m m1 s path port learn hwf.1 hwf.2 hc ha
  | setPath s j path port =>
    simp only [step, Option.map_eq_some_iff, Prod.mk.injEq] at hs
    obtain ⟨m1, hc, rfl, _⟩ := hs
    exact good_setSlotSubPath A m m1 s j path port hwf.1 hwf.2 hc ha
  | clearSlot s =>
    simp only [step, Option.some.injEq, Prod.mk.injEq] at hs
    obtain ⟨rfl, _⟩ := hs
    exact good_clearSlot A m s ha
  | clearSub s j =>
    simp only [step, Option.some.injEq, Prod.mk.injEq] at hs
    obtain ⟨rfl, _⟩ := hs
    unfold clearSlotSub; split
    · exact ha
    · exact allAutos_modifyAuto m _ _ _ (Good A) (fun au _ => good_clear A au) ha
  | gain s j x =>
    simp only [step, Option.some.injEq, Prod.mk.injEq] at hs
    obtain ⟨rfl, _⟩ := hs
    rw [gain_eq]; split
    · exact ha
    · exact allAutos_modifyAuto m _ _ _ (Good A) (fun au h => good_gain A au x h) ha
  | offset s j x =>
    simp only [step, Option.some.injEq, Prod.mk.injEq] at hs
    obtain ⟨rfl, _⟩ := hs
    rw [offset_eq]; split
    · exact ha
    · exact allAutos_modifyAuto m _ _ _ (Good A) (fun au h => good_offset A au x h) ha
  | setSlot s x =>
    simp only [step, Option.some.injEq] at hs
    have : m' = (setSlot A m s x).1 := by rw [hs]
    subst this
    exact allAutos_of_autosOf_eq (autosOf_setSlot ..) ha
  | setSub s j x =>
    simp only [step, Option.some.injEq, Prod.mk.injEq] at hs
    obtain ⟨rfl, _⟩ := hs
    exact ha
  | midi c t v =>
    simp only [step, Option.some.injEq] at hs
    have : m' = (handleMidi A m c t v).1 := by rw [hs]
    subst this
    exact allAutos_of_autosOf_eq (autosOf_handleMidi ..) ha

theorem good_init (A : Arith F) (n p : Nat) : AllAutos (Mgr.init A n p) (Good A) := by
  intro sl hsl au hau
  simp only [Mgr.init, List.mem_replicate] at hsl
  rw [hsl.2] at hau
  simp only [Slot.init, List.mem_replicate] at hau
  rw [hau.2]
  refine ⟨?_, fun _ => rfl⟩
  intro hu
  simp [Automation.init] at hu

/-! ### invariant of reachable states -/

structure Inv (A : Arith F) (m : Mgr F) : Prop where
  queue : ∃ Q, Refines m Q
  uniqCC : Uniq (selOf false) (keys m)
  uniqNrpn : Uniq (selOf true) (keys m)
  good : AllAutos m (Good A)

theorem inv_reachable (A : Arith F) (n p : Nat) (m : Mgr F) (h : Reachable A n p m) : Inv A m := by
  induction h with
  | init => exact ⟨⟨[], refines_init A n p⟩, uniq_init A n p false, uniq_init A n p true, good_init A n p⟩
  | step hr hwf hs ih =>
    obtain ⟨Q, hq⟩ := ih.queue
    exact ⟨⟨_, refines_step A _ _ Q _ _ hq hs⟩, uniq_step A _ _ _ _ false ih.uniqCC hs,
      uniq_step A _ _ _ _ true ih.uniqNrpn hs, good_step A _ _ _ _ hwf ih.good hs⟩

/-! ### every emitted message is the `emit` of an automation of the manager -/

def MsgsFrom (A : Arith F) (m : Mgr F) (ms : List (Msg F)) : Prop :=
  ∀ msg ∈ ms, ∃ l ∈ autosOf m, ∃ au ∈ l, ∃ x, msg ∈ emit A au x

theorem msgsFrom_autosOf {A : Arith F} {m m' : Mgr F} {ms : List (Msg F)} (h : autosOf m' = autosOf m)
    (hm : MsgsFrom A m' ms) : MsgsFrom A m ms := by
  intro msg hmsg
  obtain ⟨l, hl, r⟩ := hm msg hmsg
  exact ⟨l, h ▸ hl, r⟩

theorem slotMsgs_from (A : Arith F) (m : Mgr F) (sl : Slot F) (hsl : sl ∈ m.slots) (x : F) :
    MsgsFrom A m (slotMsgs A sl x) := by
  intro msg hmsg
  simp only [slotMsgs, List.mem_flatMap] at hmsg
  obtain ⟨au, hau, hm⟩ := hmsg
  exact ⟨sl.autos, List.mem_map.mpr ⟨sl, hsl, rfl⟩, au, hau, x, hm⟩

theorem setSlot_msgs (A : Arith F) (m : Mgr F) (s : Int) (x : F) : MsgsFrom A m (setSlot A m s x).2 := by
  unfold setSlot; split
  · intro msg h; simp at h
  · split
    · intro msg h; simp at h
    · rename_i sl hsl
      exact slotMsgs_from A m sl (List.mem_of_getElem? hsl) x

theorem driveBound_msgs (A : Arith F) (m : Mgr F) (sel : Slot F → Int) (id : Int) (x : F) (l : List (Slot F))
    (hl : ∀ sl ∈ l, sl ∈ m.slots) : MsgsFrom A m (driveBound A sel id x l).2 := by
  induction l with
  | nil => intro msg h; simp [driveBound] at h
  | cons sl r ih =>
    have ihr := ih (fun s hs => hl s (List.mem_cons_of_mem _ hs))
    simp only [driveBound]
    split
    · intro msg hmsg
      simp only [List.mem_append] at hmsg
      rcases hmsg with h | h
      · exact slotMsgs_from A m sl (hl sl (List.mem_cons_self)) x msg h
      · exact ihr msg h
    · exact ihr

theorem serveLearn_msgs (A : Arith F) (m : Mgr F) (n : Bool) (id v : Int) :
    MsgsFrom A m (serveLearn A m n id v).2 := by
  unfold serveLearn
  split
  · intro msg h; simp at h
  · refine msgsFrom_autosOf ?_ (setSlot_msgs A _ _ _)
    simp only [autosOf, List.map_map]
    rw [← map_modify_inv (·.autos) (fun sl : Slot F =>
        if n = true then { sl with learning := -1, midiNrpn := id } else { sl with learning := -1, midiCC := id })
        (by intro x; split <;> rfl) m.slots _]
    apply List.map_congr_left
    intro x _
    simp only [Function.comp]
    split <;> rfl

theorem handleMidi_msgs (A : Arith F) (m : Mgr F) (c t v : Int) : MsgsFrom A m (handleMidi A m c t v).2 := by
  have hr : autosOf (regs m t v) = autosOf m := by simp [autosOf, (regs_slots m t v).1]
  rw [handleMidi_eq]
  cases controllerOf m c t v with
  | none => intro msg h; simp at h
  | some p =>
    obtain ⟨n, id⟩ := p
    simp only []
    split
    · exact driveBound_msgs A m _ _ _ m.slots (fun _ h => h)
    · exact msgsFrom_autosOf hr (serveLearn_msgs A _ n id v)

theorem step_msgs (A : Arith F) (m m' : Mgr F) (op : Op F) (ms : List (Msg F))
    (hs : step A m op = some (m', ms)) : MsgsFrom A m ms := by
  cases op with
  | bind s path port learn =>
    simp only [step, Option.map_eq_some_iff, Prod.mk.injEq] at hs
    obtain ⟨_, _, _, rfl⟩ := hs
    intro msg h; simp at h
  | setPath s j path port =>
    simp only [step, Option.map_eq_some_iff, Prod.mk.injEq] at hs
    obtain ⟨_, _, _, rfl⟩ := hs
    intro msg h; simp at h
  | clearSlot s =>
    simp only [step, Option.some.injEq, Prod.mk.injEq] at hs
    obtain ⟨_, rfl⟩ := hs
    intro msg h; simp at h
  | clearSub s j =>
    simp only [step, Option.some.injEq, Prod.mk.injEq] at hs
    obtain ⟨_, rfl⟩ := hs
    intro msg h; simp at h
  | gain s j x =>
    simp only [step, Option.some.injEq, Prod.mk.injEq] at hs
    obtain ⟨_, rfl⟩ := hs
    intro msg h; simp at h
  | offset s j x =>
    simp only [step, Option.some.injEq, Prod.mk.injEq] at hs
    obtain ⟨_, rfl⟩ := hs
    intro msg h; simp at h
  | setSlot s x =>
    simp only [step, Option.some.injEq] at hs
    have : ms = (setSlot A m s x).2 := by rw [hs]
    subst this
    exact setSlot_msgs A m s x
  | setSub s j x =>
    simp only [step, Option.some.injEq, Prod.mk.injEq] at hs
    obtain ⟨_, rfl⟩ := hs
    intro msg hmsg
    unfold setSlotSub at hmsg
    split at hmsg
    · simp at hmsg
    · split at hmsg
      · simp at hmsg
      · rename_i sl hsl
        split at hmsg
        · simp at hmsg
        · rename_i au hau
          exact ⟨sl.autos, List.mem_map.mpr ⟨sl, List.mem_of_getElem? hsl, rfl⟩, au,
            List.mem_of_getElem? hau, x, hmsg⟩
  | midi c t v =>
    simp only [step, Option.some.injEq] at hs
    have : ms = (handleMidi A m c t v).2 := by rw [hs]
    subst this
    exact handleMidi_msgs A m c t v

/-! ### order lemmas about clamp, mapping and emit -/

theorem le_refl' {A : Arith F} (L : Laws A) (x : F) : A.le x x = true := by
  rcases L.le_total x x with h | h <;> exact h

theorem le_of_not_le {A : Arith F} (L : Laws A) {x y : F} (h : ¬ A.le x y = true) : A.le y x = true := by
  rcases L.le_total x y with h' | h'
  · exact absurd h' h
  · exact h'

theorem clamp_range {A : Arith F} (L : Laws A) (mn mx v : F) (h : A.le mn mx = true) :
    A.le mn (clamp A mn mx v) = true ∧ A.le (clamp A mn mx v) mx = true := by
  unfold clamp Arith.gt
  by_cases h1 : A.le v mx = true
  · by_cases h2 : A.le mn v = true
    · simp [h1, h2]
    · simp [h1, h2, h, le_refl' L]
  · simp [h1, h, le_refl' L]

theorem clamp_mono {A : Arith F} (L : Laws A) (mn mx x y : F) (h : A.le mn mx = true) (hxy : A.le x y = true) :
    A.le (clamp A mn mx x) (clamp A mn mx y) = true := by
  have hy := clamp_range L mn mx y h
  by_cases h1 : A.le x mx = true
  · by_cases h2 : A.le mn x = true
    · have hx : clamp A mn mx x = x := by simp [clamp, Arith.gt, h1, h2]
      rw [hx]
      by_cases h3 : A.le y mx = true
      · have h4 : A.le mn y = true := L.le_trans _ _ _ h2 hxy
        have : clamp A mn mx y = y := by simp [clamp, Arith.gt, h3, h4]
        rw [this]; exact hxy
      · have : clamp A mn mx y = mx := by simp [clamp, Arith.gt, h3]
        rw [this]; exact h1
    · have hx : clamp A mn mx x = mn := by simp [clamp, Arith.gt, h1, h2]
      rw [hx]; exact hy.1
  · have hx : clamp A mn mx x = mx := by simp [clamp, Arith.gt, h1]
    have h3 : ¬ A.le y mx = true := fun h3 => h1 (L.le_trans _ _ _ hxy h3)
    have : clamp A mn mx y = mx := by simp [clamp, Arith.gt, h3]
    rw [hx, this]; exact le_refl' L mx

theorem mapping_ordered {A : Arith F} (L : Laws A) (mn mx gain offset : F) (hm : A.le mn mx = true)
    (hg : A.le A.zero gain = true) :
    A.le (mapping A mn mx gain offset).1 (mapping A mn mx gain offset).2 = true := by
  simp only [mapping]
  have h1 : A.le A.zero (A.mul32 (A.sub32 mx mn) gain) = true := L.mul32_nonneg _ _ (L.sub32_nonneg _ _ hm) hg
  have h2 : A.le A.zero (A.div64 (A.mul32 (A.sub32 mx mn) gain) A.hundred) = true :=
    L.div64_nonneg _ _ h1 L.zero_le_hundred
  have h3 : A.le A.zero (A.to32 (A.div64 (A.mul32 (A.sub32 mx mn) gain) A.hundred)) = true := by
    have := L.to32_mono _ _ h2
    rwa [L.to32_zero] at this
  have h4 := L.div64_nonneg _ _ h3 L.zero_le_two
  exact L.to32_mono _ _ (L.sub64_le_add64 _ _ h4)

theorem fromPort_facts {A : Arith F} (L : Laws A) (au : Automation F) (h : FromPort A au) :
    (au.ty = 'i' ∨ au.ty = 'f' ∨ au.ty = 'T') ∧ A.le au.pmin au.pmax = true := by
  obtain ⟨au0, b, path, p, ⟨hw, hwT, hpos⟩, _, _, hb, _, _, e2, e3, e4, _⟩ := h
  rw [e2, e3, e4]
  unfold bindInfo at hb
  by_cases hF : p.hasF = true
  · simp only [hF, ↓reduceIte, show ¬ ('f' = 'T') by decide] at hb
    cases hmn : p.min with
    | none => simp [hmn] at hb
    | some mn =>
      cases hmx : p.max with
      | none => simp [hmn, hmx] at hb
      | some mx =>
        obtain ⟨hle, hlog⟩ := hw mn mx hmn hmx
        simp only [hmn, hmx] at hb
        by_cases hs : p.scaleLog = true
        · simp only [hs, ↓reduceIte, Option.some.injEq] at hb
          subst hb
          refine ⟨Or.inr (Or.inl rfl), ?_⟩
          simp only
          have hp := hpos hs _ _ (by simp [portRange, portType, hF, hmn, hmx, hs]; exact ⟨rfl, rfl⟩)
          cases hl : p.logmin with
          | none =>
            rw [hl] at hp
            exact L.logf_mono _ _ hp (L.to32_mono _ _ hle)
          | some l =>
            rw [hl] at hp
            exact L.logf_mono _ _ hp (L.to32_mono _ _ (hlog l hl))
        · simp only [hs, Bool.false_eq_true, ↓reduceIte, Option.some.injEq] at hb
          subst hb
          exact ⟨Or.inr (Or.inl rfl), L.to32_mono _ _ hle⟩
  · by_cases hT : p.hasT = true
    · have hs := hwT (by simpa using hF) hT
      simp only [hF, Bool.false_eq_true, ↓reduceIte, hT, hs, Option.some.injEq] at hb
      subst hb
      exact ⟨Or.inr (Or.inr rfl), L.zero_le_one⟩
    · simp only [hF, Bool.false_eq_true, ↓reduceIte, hT, show ¬ ('i' = 'T') by decide] at hb
      cases hmn : p.min with
      | none => simp [hmn] at hb
      | some mn =>
        cases hmx : p.max with
        | none => simp [hmn, hmx] at hb
        | some mx =>
          obtain ⟨hle, hlog⟩ := hw mn mx hmn hmx
          simp only [hmn, hmx] at hb
          by_cases hs : p.scaleLog = true
          · simp only [hs, ↓reduceIte, Option.some.injEq] at hb
            subst hb
            refine ⟨Or.inl rfl, ?_⟩
            simp only
            have hp := hpos hs _ _ (by simp [portRange, portType, hF, hT, hmn, hmx, hs]; exact ⟨rfl, rfl⟩)
            cases hl : p.logmin with
            | none =>
              rw [hl] at hp
              exact L.logf_mono _ _ hp (L.to32_mono _ _ hle)
            | some l =>
              rw [hl] at hp
              exact L.logf_mono _ _ hp (L.to32_mono _ _ (hlog l hl))
          · simp only [hs, Bool.false_eq_true, ↓reduceIte, Option.some.injEq] at hb
            subst hb
            exact ⟨Or.inl rfl, L.to32_mono _ _ hle⟩

theorem emit_ok {A : Arith F} (L : Laws A) (au : Automation F) (x : F) (msg : Msg F) (hg : Good A au)
    (hmsg : msg ∈ emit A au x) : au.used = true ∧ MsgOK A au msg := by
  unfold emit at hmsg
  by_cases hu : au.used = true
  · refine ⟨hu, ?_⟩
    obtain ⟨hty, hle⟩ := fromPort_facts L au (hg.1 hu).1
    simp only [hu, Bool.not_true, Bool.false_eq_true, ↓reduceIte] at hmsg
    rcases hty with hi | hf | hT
    · have hr := clamp_range L au.pmin au.pmax
        (A.add32 (A.mul32 x (A.sub32 au.cp3 au.cp1)) au.cp1) hle
      simp only [hi, ↓reduceIte] at hmsg
      by_cases hl : au.logScale = true
      · simp only [hl, ↓reduceIte, List.mem_singleton] at hmsg
        subst hmsg
        exact ⟨rfl, Or.inr (Or.inl ⟨hi, hl, rfl, _, rfl,
          L.toInt_mono _ _ (L.roundf_mono _ _ (L.expf_mono _ _ hr.1)),
          L.toInt_mono _ _ (L.roundf_mono _ _ (L.expf_mono _ _ hr.2))⟩)⟩
      · have hl' : au.logScale = false := by simpa using hl
        simp only [hl', Bool.false_eq_true, ↓reduceIte, List.mem_singleton] at hmsg
        subst hmsg
        exact ⟨rfl, Or.inl ⟨hi, hl', rfl, _, rfl, L.toInt_mono _ _ (L.roundf_mono _ _ hr.1),
          L.toInt_mono _ _ (L.roundf_mono _ _ hr.2)⟩⟩
    · have hr := clamp_range L au.pmin au.pmax
        (A.add32 (A.mul32 x (A.sub32 au.cp3 au.cp1)) au.cp1) hle
      simp only [hf, show ¬ ('f' = 'i') by decide, ↓reduceIte] at hmsg
      by_cases hl : au.logScale = true
      · simp only [hl, ↓reduceIte, List.mem_singleton] at hmsg
        subst hmsg
        exact ⟨rfl, Or.inr (Or.inr (Or.inr (Or.inl ⟨hf, hl, rfl, _, rfl, L.expf_mono _ _ hr.1, L.expf_mono _ _ hr.2⟩)))⟩
      · have hl' : au.logScale = false := by simpa using hl
        simp only [hl', Bool.false_eq_true, ↓reduceIte, List.mem_singleton] at hmsg
        subst hmsg
        exact ⟨rfl, Or.inr (Or.inr (Or.inl ⟨hf, hl', rfl, _, rfl, hr.1, hr.2⟩))⟩
    · simp only [hT, show ¬ ('T' = 'i') by decide, show ¬ ('T' = 'f') by decide, ↓reduceIte,
        decide_true, Bool.true_or, List.mem_singleton] at hmsg
      subst hmsg
      refine ⟨rfl, Or.inr (Or.inr (Or.inr (Or.inr ⟨hT, ?_, rfl⟩)))⟩
      simp only
      split
      · left; rfl
      · right; rfl
  · simp [hu] at hmsg

/-- what `bindInfo` stores, in terms of the port's declared type and range -/
theorem bindInfo_spec (A : Arith F) (au0 b : Automation F) (path : Bytes) (p : PortInfo F)
    (hw : PortWF A p) (hl : path.length ≤ 127) (hb : bindInfo A au0 path p = some b) :
    b.path = path ∧ b.ty = portType p ∧ b.logScale = p.scaleLog ∧
    ∃ lo hi, portRange A p = some (lo, hi) ∧
      (p.scaleLog = false → b.pmin = lo ∧ b.pmax = hi) ∧
      (p.scaleLog = true → b.pmin = A.logf lo ∧ b.pmax = A.logf hi) := by
  obtain ⟨_, hwT, _⟩ := hw
  unfold bindInfo at hb
  have htake : List.take 127 path = path := List.take_of_length_le hl
  cases hF : p.hasF <;> cases hT : p.hasT <;> cases hmn : p.min <;> cases hmx : p.max <;>
    cases hs : p.scaleLog <;> cases hlm : p.logmin <;>
    simp only [hF, hT, hmn, hmx, hs, hlm, Bool.false_eq_true, ↓reduceIte, Char.reduceEq,
      Option.some.injEq, reduceCtorEq] at hb <;>
    first
      | exact absurd ((hwT hF hT).symm.trans hs) (by decide)
      | (subst hb
         simp [portType, portRange, hF, hT, hmn, hmx, hs, hlm, htake]
         done)
      | (subst hb
         simp [portType, portRange, hF, hT, hmn, hmx, hs, hlm, htake]
         exact ⟨_, _, ⟨rfl, rfl⟩, rfl, rfl⟩)
      | skip

/-- `MsgOK` for an automation that still holds what was bound is the specification `MsgOKPort`
    for the port its ghost field remembers -/
theorem msgOK_port (A : Arith F) (au : Automation F) (msg : Msg F) (h : FromPort A au)
    (hm : MsgOK A au msg) :
    ∃ path p, au.bound = some (path, p) ∧ PortWF A p ∧ portUsable (some p) = some p ∧
      MsgOKPort A path p msg := by
  obtain ⟨au0, b, path, p, hw, hp, hl, hb, e0, e1, e2, e3, e4, e5⟩ := h
  obtain ⟨s1, s2, s3, lo, hi, hr, hlin, hlog⟩ := bindInfo_spec A au0 b path p hw hl hb
  obtain ⟨ha, hm⟩ := hm
  refine ⟨path, p, e0, hw, hp, ?_, lo, hi, hr, ?_⟩
  · rw [ha, e1, s1]
  · rw [e2, s2, e5, s3, e3, e4] at hm
    rcases hm with ⟨h1, h2, h3, n, h4, h5, h6⟩ | ⟨h1, h2, h3, n, h4, h5, h6⟩ |
      ⟨h1, h2, h3, x, h4, h5, h6⟩ | ⟨h1, h2, h3, x, h4, h5, h6⟩ | ⟨h1, h2, h3⟩
    · obtain ⟨p1, p2⟩ := hlin h2
      rw [p1] at h5; rw [p2] at h6
      exact Or.inl ⟨h1, h2, h3, n, h4, h5, h6⟩
    · obtain ⟨p1, p2⟩ := hlog h2
      rw [p1] at h5; rw [p2] at h6
      exact Or.inr (Or.inl ⟨h1, h2, h3, n, h4, h5, h6⟩)
    · obtain ⟨p1, p2⟩ := hlin h2
      rw [p1] at h5; rw [p2] at h6
      exact Or.inr (Or.inr (Or.inl ⟨h1, h2, h3, x, h4, h5, h6⟩))
    · obtain ⟨p1, p2⟩ := hlog h2
      rw [p1] at h5; rw [p2] at h6
      exact Or.inr (Or.inr (Or.inr (Or.inl ⟨h1, h2, h3, x, h4, h5, h6⟩)))
    · exact Or.inr (Or.inr (Or.inr (Or.inr ⟨h1, h2, h3⟩)))

theorem emit_mono {A : Arith F} (L : Laws A) (au : Automation F) (x y : F) (hg : Good A au)
    (hu : au.used = true) (hgain : A.le A.zero au.gain = true) (hxy : A.le x y = true) :
    MsgsLe A (emit A au x) (emit A au y) := by
  obtain ⟨hfp, hcp⟩ := hg.1 hu
  obtain ⟨hty, hm⟩ := fromPort_facts L au hfp
  have hv : A.le (A.add32 (A.mul32 x (A.sub32 au.cp3 au.cp1)) au.cp1)
           (A.add32 (A.mul32 y (A.sub32 au.cp3 au.cp1)) au.cp1) = true := by
    have hab := mapping_ordered L au.pmin au.pmax au.gain au.offset hm hgain
    rw [← hcp] at hab
    exact L.add32_mono _ _ _ (L.mul32_mono _ _ _ hxy (L.sub32_nonneg _ _ hab))
  unfold emit
  simp only [hu, Bool.not_true, Bool.false_eq_true, ↓reduceIte]
  rcases hty with hi | hf | hT
  · simp only [hi, ↓reduceIte]
    by_cases hl : au.logScale = true
    · simp only [hl, ↓reduceIte, MsgsLe, and_true]
      exact ⟨rfl, rfl, L.toInt_mono _ _ (L.roundf_mono _ _ (L.expf_mono _ _ (clamp_mono L _ _ _ _ hm hv)))⟩
    · have hl' : au.logScale = false := by simpa using hl
      simp only [hl', Bool.false_eq_true, ↓reduceIte, MsgsLe, and_true]
      exact ⟨rfl, rfl, L.toInt_mono _ _ (L.roundf_mono _ _ (clamp_mono L _ _ _ _ hm hv))⟩
  · simp only [hf, show ¬ ('f' = 'i') by decide, ↓reduceIte]
    by_cases hl : au.logScale = true
    · simp only [hl, ↓reduceIte, MsgsLe, and_true]
      exact ⟨rfl, rfl, L.expf_mono _ _ (clamp_mono L _ _ _ _ hm hv)⟩
    · have hl' : au.logScale = false := by simpa using hl
      simp only [hl', Bool.false_eq_true, ↓reduceIte, MsgsLe, and_true]
      exact ⟨rfl, rfl, clamp_mono L _ _ _ _ hm hv⟩
  · simp only [hT, show ¬ ('T' = 'i') by decide, show ¬ ('T' = 'f') by decide, ↓reduceIte,
      decide_true, Bool.true_or, MsgsLe, and_true]
    refine ⟨rfl, ?_⟩
    simp only [Arith.gt]
    by_cases h1 : A.le (A.add32 (A.mul32 x (A.sub32 au.cp3 au.cp1)) au.cp1) A.half = true
    · by_cases h2 : A.le (A.add32 (A.mul32 y (A.sub32 au.cp3 au.cp1)) au.cp1) A.half = true
      · simp [h1, h2]
      · simp [h1, h2]
    · have h2 : ¬ A.le (A.add32 (A.mul32 y (A.sub32 au.cp3 au.cp1)) au.cp1) A.half = true :=
        fun h2 => h1 (L.le_trans _ _ _ hv h2)
      simp [h1, h2]

/-! ### exact rational arithmetic satisfies the laws; the default mapping is linear -/

theorem floor_nonneg {x : Rat} (h : 0 ≤ x) : 0 ≤ x.floor := by
  have := Rat.le_floor_iff (x := 0) (a := x)
  simp at this
  exact this.mpr h

theorem truncInt_mono {x y : Rat} (h : x ≤ y) : truncInt x ≤ truncInt y := by
  unfold truncInt
  by_cases hx : x < 0 <;> by_cases hy : y < 0 <;> simp only [hx, hy, ↓reduceIte]
  · have : (-y).floor ≤ (-x).floor := Rat.floor_monotone (by grind)
    omega
  · have h1 : 0 ≤ (-x).floor := floor_nonneg (by grind)
    have h2 : 0 ≤ y.floor := floor_nonneg (by grind)
    omega
  · exfalso; grind
  · exact Rat.floor_monotone h

theorem roundAway_mono {x y : Rat} (h : x ≤ y) : roundAway x ≤ roundAway y := by
  unfold roundAway
  by_cases hx : x < 0 <;> by_cases hy : y < 0 <;> simp only [hx, hy, ↓reduceIte]
  · have : (-y + 1/2).floor ≤ (-x + 1/2).floor := Rat.floor_monotone (by grind)
    have : ((-y + 1/2).floor : Rat) ≤ ((-x + 1/2).floor : Rat) := by exact_mod_cast this
    grind
  · have h1 : 0 ≤ (-x + 1/2).floor := floor_nonneg (by grind)
    have h2 : 0 ≤ (y + 1/2).floor := floor_nonneg (by grind)
    have h1' : (0:Rat) ≤ ((-x + 1/2).floor : Rat) := by exact_mod_cast h1
    have h2' : (0:Rat) ≤ ((y + 1/2).floor : Rat) := by exact_mod_cast h2
    grind
  · exfalso; grind
  · have : (x + 1/2).floor ≤ (y + 1/2).floor := Rat.floor_monotone (by grind)
    exact_mod_cast this

theorem exact_laws : Laws exact := by
  constructor <;> simp only [exact, decide_eq_true_eq, id]
  · intro x y; exact Rat.le_total
  · intro x y z; exact Rat.le_trans
  · decide
  · decide
  · decide
  · intro x y h; grind
  · intro x y hx hy; exact Rat.mul_nonneg hx hy
  · intro x y c h hc; exact Rat.mul_le_mul_of_nonneg_right h hc
  · intro x y c h; grind
  · intro x y hx hy
    rw [Rat.div_def]
    by_cases hy0 : y = 0
    · subst hy0; simp
    · have : 0 < y := by grind
      exact Rat.mul_nonneg hx (Rat.le_of_lt (Rat.inv_pos.mpr this))
  · intro c h hh; grind
  · intro x y h; exact h
  · intro x y h; exact roundAway_mono h
  · intro x y h; exact truncInt_mono h
  · intro x y _ h; exact h
  · intro x y h; exact h

theorem mapping_default (mn mx : Rat) : mapping exact mn mx 100 0 = (mn, mx) := by
  simp only [mapping, exact, id]
  refine Prod.ext ?_ ?_ <;> simp only <;> grind

theorem emit_default_linear (au : Automation Rat) (x : Rat) (hu : au.used = true)
    (hty : au.ty = 'i' ∨ au.ty = 'f' ∨ au.ty = 'T') (hl : au.logScale = false)
    (hcp : (au.cp1, au.cp3) = mapping exact au.pmin au.pmax 100 0) (hm : au.pmin ≤ au.pmax)
    (hx0 : 0 ≤ x) (hx1 : x ≤ 1) : emit exact au x = [linearMsg au x] := by
  rw [mapping_default] at hcp
  have h1 : au.cp1 = au.pmin := congrArg Prod.fst hcp
  have h3 : au.cp3 = au.pmax := congrArg Prod.snd hcp
  have hd : 0 ≤ au.pmax - au.pmin := by grind
  have ha : 0 ≤ x * (au.pmax - au.pmin) := Rat.mul_nonneg hx0 hd
  have hb : 0 ≤ (1 - x) * (au.pmax - au.pmin) := Rat.mul_nonneg (by grind) hd
  have hv : exact.add32 (exact.mul32 x (exact.sub32 au.cp3 au.cp1)) au.cp1 = au.pmin + x * (au.pmax - au.pmin) := by
    simp only [exact, h1, h3]; grind
  have hc : clamp exact au.pmin au.pmax (au.pmin + x * (au.pmax - au.pmin)) = au.pmin + x * (au.pmax - au.pmin) := by
    have e1 : au.pmin + x * (au.pmax - au.pmin) ≤ au.pmax := by grind
    have e2 : au.pmin ≤ au.pmin + x * (au.pmax - au.pmin) := by grind
    simp [clamp, Arith.gt, exact, e1, e2]
  unfold emit linearMsg
  simp only [hu, Bool.not_true, Bool.false_eq_true, ↓reduceIte, hv, hc, hl]
  rcases hty with hi | hf | hT
  · simp [hi, exact]
  · simp [hf]
  · simp only [hT, show ¬ ('T' = 'i') by decide, show ¬ ('T' = 'f') by decide, ↓reduceIte, decide_true,
      Bool.true_or, Arith.gt, exact]
    by_cases h : au.pmin + x * (au.pmax - au.pmin) ≤ 1/2
    · have : ¬ (1/2 < au.pmin + x * (au.pmax - au.pmin)) := by grind
      simp [h, this]
    · have : (1/2 < au.pmin + x * (au.pmax - au.pmin)) := by grind
      simp [h, this]

/-! ### the request order of waiting slots never changes -/

theorem absStep_forms (m : Mgr F) (op : Op F) (Q : List Nat) :
    absStep m op Q = Q ∨ (∃ s, s ∉ Q ∧ absStep m op Q = Q ++ [s]) ∨ (∃ s, absStep m op Q = Q.erase s) ∨
      absStep m op Q = Q.tail := by
  cases op with
  | bind s path port learn =>
    simp only [absStep]
    split
    · rename_i h
      simp only [Bool.and_eq_true, decide_eq_true_eq] at h
      exact Or.inr (Or.inl ⟨s.toNat, h.1.2, rfl⟩)
    · exact Or.inl rfl
  | clearSlot s =>
    simp only [absStep]
    split
    · exact Or.inl rfl
    · exact Or.inr (Or.inr (Or.inl ⟨_, rfl⟩))
  | midi c t v =>
    simp only [absStep]
    split
    · split
      · exact Or.inl rfl
      · exact Or.inr (Or.inr (Or.inr rfl))
    · exact Or.inl rfl
  | setPath _ _ _ _ => exact Or.inl rfl
  | clearSub _ _ => exact Or.inl rfl
  | gain _ _ _ => exact Or.inl rfl
  | offset _ _ _ => exact Or.inl rfl
  | setSlot _ _ => exact Or.inl rfl
  | setSub _ _ _ => exact Or.inl rfl

theorem qpos_inj (Q : List Nat) (i j : Nat) (h0 : 0 < qpos Q i) (h : qpos Q i = qpos Q j) : i = j := by
  induction Q with
  | nil => simp [qpos] at h0
  | cons q Q ih =>
    simp only [qpos] at h0 h
    have ri := qpos_range Q i
    have rj := qpos_range Q j
    by_cases hqi : q = i <;> by_cases hqj : q = j
    · omega
    · simp only [hqi, ↓reduceIte] at h
      split at h <;> omega
    · simp only [hqj, ↓reduceIte] at h
      split at h <;> omega
    · simp only [hqi, hqj, ↓reduceIte] at h h0
      by_cases c1 : qpos Q i = -1
      · simp [c1] at h0
      · by_cases c2 : qpos Q j = -1
        · simp only [c1, c2, ↓reduceIte] at h; omega
        · simp only [c1, c2, ↓reduceIte] at h
          exact ih (by omega) (by omega)

theorem qpos_order (Q Q' : List Nat) (hn : Q.Nodup)
    (hf : Q' = Q ∨ (∃ s, s ∉ Q ∧ Q' = Q ++ [s]) ∨ (∃ s, Q' = Q.erase s) ∨ Q' = Q.tail)
    (i j : Nat) (h0 : 0 < qpos Q i) (hij : qpos Q i < qpos Q j) (hi : 0 < qpos Q' i) (hj : 0 < qpos Q' j) :
    qpos Q' i < qpos Q' j := by
  rcases hf with rfl | ⟨s, hs, rfl⟩ | ⟨s, rfl⟩ | rfl
  · exact hij
  · rw [qpos_append_new Q s i hs, qpos_append_new Q s j hs]
    have hiQ : i ≠ s := by
      intro e; subst e
      have := qpos_not_mem hs; omega
    have hjQ : j ≠ s := by
      intro e; subst e
      have := qpos_not_mem hs; omega
    simp [hiQ, hjQ, hij]
  · rw [qpos_erase Q s i hn] at hi ⊢
    rw [qpos_erase Q s j hn] at hj ⊢
    by_cases his : i = s
    · simp [his] at hi
    · by_cases hjs : j = s
      · simp [hjs] at hj
      · have hne : qpos Q i ≠ qpos Q s := fun e => his (qpos_inj Q i s h0 e)
        simp only [his, hjs, ↓reduceIte] at hi hj ⊢
        by_cases c1 : qpos Q s > 0 ∧ qpos Q i > qpos Q s <;> by_cases c2 : qpos Q s > 0 ∧ qpos Q j > qpos Q s
        · rw [if_pos c1] at hi ⊢; rw [if_pos c2] at hj ⊢; omega
        · rw [if_pos c1] at hi ⊢; rw [if_neg c2] at hj ⊢; omega
        · rw [if_neg c1] at hi ⊢; rw [if_pos c2] at hj ⊢; omega
        · rw [if_neg c1] at hi ⊢; rw [if_neg c2] at hj ⊢; omega
  · cases Q with
    | nil => simp [qpos] at h0
    | cons q Q0 =>
      simp only [List.tail_cons] at hi hj ⊢
      rw [qpos_tail q Q0 i hn] at hi ⊢
      rw [qpos_tail q Q0 j hn] at hj ⊢
      split at hi
      · split at hj
        · rename_i h1 h2; simp only [h1, h2, ↓reduceIte]; omega
        · omega
      · omega

/-! ### an unbound controller serves the head of the queue -/

theorem serve_head_keys (A : Arith F) (m : Mgr F) (hd : Nat) (Q' : List Nat) (c t v : Int) (n : Bool) (id : Int)
    (h : Refines m (hd :: Q')) (hc : controllerOf m c t v = some (n, id)) (hb : isBoundTo m n id = false) :
    keys (handleMidi A m c t v).1 = ((keys m).modify hd (bindK n id)).map decK1 := by
  have hr := regs_slots m t v
  have hkr : keys (regs m t v) = keys m := by simp [keys, hr.1]
  have hrr : Refines (regs m t v) (hd :: Q') := by
    unfold Refines; rw [hkr, hr.2.1]; exact h
  rw [handleMidi_eq, hc]
  simp only [hb, Bool.false_eq_true, ↓reduceIte]
  rw [(serveLearn_keys A (regs m t v) n id v).1, refines_head _ hd Q' hrr]
  simp only [hkr]

theorem controllerOf_nonneg (m : Mgr F) (c t v : Int) (n : Bool) (id : Int) (hc0 : 0 ≤ c) (ht0 : 0 ≤ t)
    (hc : controllerOf m c t v = some (n, id)) : 0 ≤ id := by
  unfold controllerOf at hc
  split at hc
  · simp only at hc
    split at hc
    · rename_i hcomp
      simp only [Option.some.injEq, Prod.mk.injEq] at hc
      simp only [nrpnComplete, Bool.not_eq_true', Bool.or_eq_false_iff, decide_eq_false_iff_not, Int.not_lt] at hcomp
      omega
    · cases hc
  · simp only [Option.some.injEq, Prod.mk.injEq] at hc
    omega

theorem bound_drives (A : Arith F) (m : Mgr F) (c t v : Int) (n : Bool) (id : Int) (i : Nat) (sl : Slot F)
    (hu : Uniq (selOf n) (keys m)) (hid : id ≠ -1)
    (hc : controllerOf m c t v = some (n, id)) (hsl : m.slots[i]? = some sl) (hb : bindingOf n sl = id) :
    handleMidi A m c t v =
      ({ regs m t v with slots := m.slots.set i { sl with current := midiValue A (regs m t v) n v } },
       slotMsgs A sl (midiValue A (regs m t v) n v)) := by
  have hbound : isBoundTo m n id = true := by
    simp only [isBoundTo, List.any_eq_true, decide_eq_true_eq]
    exact ⟨sl, List.mem_of_getElem? hsl, hb⟩
  rw [handleMidi_eq, hc]
  simp only [hbound, ↓reduceIte]
  rw [driveBound_unique A (bindingOf n) id _ m.slots i sl hsl hb (by
    intro j sl' hj hs
    have h1 : (keys m)[j]? = some (key sl') := by simp [keys, hj]
    have h2 : (keys m)[i]? = some (key sl) := by simp [keys, hsl]
    exact hu j i _ _ h1 h2 (by rw [selOf_key, selOf_key, hs, hb]) (by rw [selOf_key, hs]; exact hid))]


/-! ### histories -/

theorem reachable_of_run (A : Arith F) (n p : Nat) (ops : List (Op F)) (m0 m : Mgr F)
    (mss : List (List (Msg F))) (hr : Reachable A n p m0) (hwf : ∀ op ∈ ops, OpWF A op)
    (h : run A m0 ops = some (m, mss)) : Reachable A n p m := by
  induction ops generalizing m0 mss with
  | nil => simp only [run, Option.some.injEq, Prod.mk.injEq] at h; rw [← h.1]; exact hr
  | cons op ops ih =>
    simp only [run] at h
    split at h
    · cases h
    · rename_i m1 ms hs
      split at h
      · cases h
      · rename_i m2 mss2 hr2
        simp only [Option.some.injEq, Prod.mk.injEq] at h
        rw [h.1] at hr2
        exact ih m1 mss2 (Reachable.step hr (hwf op List.mem_cons_self) hs)
          (fun o ho => hwf o (List.mem_cons_of_mem _ ho)) hr2

end Rtosc.Auto
