/-
  C15 — the application built from C14's ports (`PApp`, RtoscModel/UndoPorts.lean) refines the
  hand-written application `App` (RtoscModel/Undo.lean): generic part.

  The proof is parametric in two predicates per table entry `c`:
    `Stable c f`   — the field value `f` is one the port reproduces when it is sent to it
    `ArgsOK c as`  — the argument list of a message lies in the domain of C14's theorems
  and needs, per entry, the three facts of `PortSem` (what a message does; what an undo
  message does; the address fits the history's buffer).  Proofs/UndoPortsKinds.lean defines the
  two predicates for the scalar macros and derives `PortSem` from C14's theorems.
-/
import RtoscModel.UndoPorts
import RtoscModel.Proofs.UndoLemmas
namespace Rtosc.Undo
open Rtosc

/-- the ports whose callback contains `rCAPPLY` (reports changes to the undo history) -/
def PStat.undoable (c : PStat) : Bool :=
  match c.port.kind with
  | .param | .paramI | .paramF | .option => true
  | _ => false

/-- the OSC type of the two values in the port's `/undo_change` event -/
def PStat.tag (c : PStat) : UInt8 :=
  match c.port.kind with
  | .param => 99
  | .paramF => 102
  | _ => 105

/-- the 4 payload bytes that carry a scalar field value -/
def encFld : Param.Field → UInt32
  | .ints [x] => w32 x
  | .flts [b] => b
  | _ => 0

/-- the parameter store of `App` that a port table with its fields stands for: the address
    of every undoable port holds the encoding of its field; `σ0` everywhere else. -/
def absStore (σ0 : Store) : List PStat → List Param.Field → Store
  | c :: cs, f :: fs =>
    if c.undoable then (absStore σ0 cs fs).set c.loc (encFld f) else absStore σ0 cs fs
  | _, _ => σ0

/-- the abstraction function of the refinement -/
def PApp.abs (σ0 : Store) (tbl : List PStat) (P : PApp) : App :=
  ⟨P.u, absStore σ0 tbl P.flds, P.clock⟩

/-! ### store abstraction -/

theorem loc_inj : ∀ (tbl : List PStat), (tbl.map PStat.loc).Nodup →
    ∀ c ∈ tbl, ∀ c' ∈ tbl, c.loc = c'.loc → c = c' := by
  intro tbl
  induction tbl with
  | nil => intro _ c hc; cases hc
  | cons c0 cs ih =>
    intro hn c hc c' hc' hl
    simp only [List.map_cons, List.nodup_cons, List.mem_map, not_exists, not_and] at hn
    rcases List.mem_cons.mp hc with h1 | h1 <;> rcases List.mem_cons.mp hc' with h2 | h2
    · rw [h1, h2]
    · subst h1; exact absurd hl.symm (hn.1 c' h2)
    · subst h2; exact absurd hl (hn.1 c h1)
    · exact ih hn.2 c h1 c' h2 hl

theorem absStore_at (σ0 : Store) : ∀ (tbl : List PStat) (fs : List Param.Field) (i : Nat)
    (c : PStat) (f : Param.Field), (tbl.map PStat.loc).Nodup → tbl[i]? = some c → fs[i]? = some f →
    c.undoable = true → absStore σ0 tbl fs c.loc = encFld f := by
  intro tbl
  induction tbl with
  | nil => intro fs i c f _ h; simp at h
  | cons c0 cs ih =>
    intro fs i c f hn hc hf hu
    cases fs with
    | nil => simp at hf
    | cons f0 fs =>
      simp only [List.map_cons, List.nodup_cons, List.mem_map, not_exists, not_and] at hn
      cases i with
      | zero =>
        simp only [List.getElem?_cons_zero, Option.some.injEq] at hc hf
        subst hc; subst hf
        simp [absStore, hu, set_same]
      | succ i =>
        simp only [List.getElem?_cons_succ] at hc hf
        have hmem : c ∈ cs := List.mem_iff_getElem?.mpr ⟨i, hc⟩
        have hne : c.loc ≠ c0.loc := fun h => hn.1 c hmem h
        simp only [absStore]
        split
        · rw [set_other _ _ _ _ hne]; exact ih fs i c f hn.2 hc hf hu
        · exact ih fs i c f hn.2 hc hf hu

theorem absStore_set (σ0 : Store) : ∀ (tbl : List PStat) (fs : List Param.Field) (i : Nat)
    (c : PStat) (f' : Param.Field), (tbl.map PStat.loc).Nodup → tbl[i]? = some c → i < fs.length →
    absStore σ0 tbl (fs.set i f') =
      if c.undoable then (absStore σ0 tbl fs).set c.loc (encFld f') else absStore σ0 tbl fs := by
  intro tbl
  induction tbl with
  | nil => intro fs i c f' _ h; simp at h
  | cons c0 cs ih =>
    intro fs i c f' hn hc hi
    cases fs with
    | nil => simp at hi
    | cons f0 fs =>
      simp only [List.map_cons, List.nodup_cons, List.mem_map, not_exists, not_and] at hn
      cases i with
      | zero =>
        simp only [List.getElem?_cons_zero, Option.some.injEq] at hc
        subst hc
        simp only [List.set_cons_zero, absStore]
        split
        · rw [set_set]
        · rfl
      | succ i =>
        simp only [List.getElem?_cons_succ] at hc
        have hi' : i < fs.length := by simpa using hi
        have hmem : c ∈ cs := List.mem_iff_getElem?.mpr ⟨i, hc⟩
        have hne : c.loc ≠ c0.loc := fun h => hn.1 c hmem h
        simp only [List.set_cons_succ, absStore]
        rw [ih fs i c f' hn.2 hc hi']
        cases hu : c.undoable <;> cases hu0 : c0.undoable <;> simp
        rw [set_comm _ _ _ _ _ hne]

/-! ### delivery of one undo/redo message -/

theorem deliverTo_none (m : Msg) : ∀ (tbl : List PStat) (fs : List Param.Field),
    (∀ c ∈ tbl, c.loc ≠ m.addr) → deliverTo m tbl fs = some fs := by
  intro tbl
  induction tbl with
  | nil => intro fs _; cases fs <;> rfl
  | cons c0 cs ih =>
    intro fs h
    cases fs with
    | nil => rfl
    | cons f0 fs =>
      have h0 : c0.loc ≠ m.addr := h c0 (by simp)
      simp only [deliverTo, h0, if_false, ih fs (fun c hc => h c (by simp [hc])), Option.map_some]

theorem deliverTo_at (m : Msg) (a : Param.Arg) (hm : msgArg m = some a) :
    ∀ (tbl : List PStat) (fs : List Param.Field) (i : Nat) (c : PStat) (f v : Param.Field)
      (ev : List Param.Event), (tbl.map PStat.loc).Nodup → tbl[i]? = some c → fs[i]? = some f →
      c.loc = m.addr → Param.dispatch c.port c.pfx c.path f [a] = .ok (some (v, ev)) →
      deliverTo m tbl fs = some (fs.set i v) := by
  intro tbl
  induction tbl with
  | nil => intro fs i c f v ev _ h; simp at h
  | cons c0 cs ih =>
    intro fs i c f v ev hn hc hf hl hd
    cases fs with
    | nil => simp at hf
    | cons f0 fs =>
      simp only [List.map_cons, List.nodup_cons, List.mem_map, not_exists, not_and] at hn
      cases i with
      | zero =>
        simp only [List.getElem?_cons_zero, Option.some.injEq] at hc hf
        subst hc; subst hf
        have hrest : deliverTo m cs fs = some fs :=
          deliverTo_none m cs fs (fun c' hc' h' => hn.1 c' hc' (h'.trans hl.symm))
        simp only [deliverTo, hl, if_true, hm, hd, hrest, Option.map_some, List.set_cons_zero]
      | succ i =>
        simp only [List.getElem?_cons_succ] at hc hf
        have hmem : c ∈ cs := List.mem_iff_getElem?.mpr ⟨i, hc⟩
        have hne : c0.loc ≠ m.addr := fun h => hn.1 c hmem (hl.trans h.symm)
        simp only [deliverTo, hne, if_false, ih fs i c f v ev hn.2 hc hf hl hd, Option.map_some,
          List.set_cons_succ]

/-! ### what a seek emits comes from the history -/

theorem seek_emits_hist (s s' : State) (d : Int) (ms : List Emit) (hw : WF s)
    (h : seekHistory s d = some (s', ms)) :
    ∀ m ∈ ms, m = none ∨ ∃ x ∈ s.hist, m = some ⟨x.2.addr, x.2.tag, x.2.old⟩ ∨
      m = some ⟨x.2.addr, x.2.tag, x.2.new⟩ := by
  intro m hm
  rcases Int.eq_nat_or_neg d with ⟨k, rfl | rfl⟩
  · rw [seek_pos s hw k] at h
    simp only [Option.some.injEq, Prod.mk.injEq] at h
    obtain ⟨_, rfl⟩ := h
    obtain ⟨x, hx, hmx⟩ := List.mem_flatMap.mp hm
    have hx' : x ∈ s.hist := List.mem_of_mem_drop (List.mem_of_mem_take hx)
    right
    refine ⟨x, hx', Or.inr ?_⟩
    unfold replayMsg at hmx
    split at hmx
    · simpa using hmx
    · simp at hmx
  · rw [seek_neg s hw k] at h
    simp only [Option.some.injEq, Prod.mk.injEq] at h
    obtain ⟨_, rfl⟩ := h
    obtain ⟨x, hx, hmx⟩ := List.mem_map.mp hm
    have hx' : x ∈ s.hist := List.mem_of_mem_take (List.mem_reverse.mp (List.mem_of_mem_take hx))
    unfold rewindMsg at hmx
    split at hmx
    · right; exact ⟨x, hx', Or.inl hmx.symm⟩
    · left; exact hmx.symm

/-! ### a predicate on events is kept by `recordEvent` -/

theorem mergeRev_all (now : Int) (ev : Event) (Q : Event → Prop)
    (hs : ∀ e, Q e → e.addr = ev.addr → Q (splice e ev)) :
    ∀ (l l' : List Entry), mergeRev now ev l = some l' → (∀ x ∈ l, Q x.2) → ∀ x ∈ l', Q x.2 := by
  intro l
  induction l with
  | nil => intro l' h; simp [mergeRev] at h
  | cons y l ih =>
    obtain ⟨t, e⟩ := y
    intro l' h hq x hx
    simp only [mergeRev] at h
    split at h
    · cases hm : mergeRev now ev l with
      | none => simp [hm] at h
      | some r =>
        simp [hm] at h; subst h
        rcases List.mem_cons.mp hx with rfl | hx
        · exact hq _ (by simp)
        · exact ih r hm (fun z hz => hq z (by simp [hz])) x hx
    · rename_i hne
      split at h
      · simp at h
      · simp at h; subst h
        rcases List.mem_cons.mp hx with rfl | hx
        · exact hs e (hq (t, e) (by simp)) (by simpa using hne)
        · exact hq x (by simp [hx])

theorem record_all (now : Int) (ev : Event) (s : State) (hwf : WF s) (Q : Event → Prop)
    (hq : ∀ x ∈ s.hist, Q x.2) (he : Q ev)
    (hs : ∀ e, Q e → e.addr = ev.addr → Q (splice e ev)) :
    ∀ x ∈ (recordEvent now ev s).hist, Q x.2 := by
  rw [recordEvent_eq now ev s hwf]
  have htake : ∀ x ∈ s.hist.take s.pos, Q x.2 := fun x hx => hq x (List.mem_of_mem_take hx)
  cases hm : mergeRev now ev (s.hist.take s.pos).reverse with
  | some r =>
    intro x hx
    simp only [Option.map_some, List.mem_reverse] at hx
    exact mergeRev_all now ev Q hs _ r hm (fun z hz => htake z (by simpa using hz)) x hx
  | none =>
    have happ : ∀ x ∈ s.hist.take s.pos ++ [(now, ev)], Q x.2 := by
      intro x hx
      rcases List.mem_append.mp hx with h | h
      · exact htake x h
      · simp at h; subst h; exact he
    simp only [Option.map_none]
    split
    · intro x hx; exact happ x (List.mem_of_mem_drop hx)
    · exact happ

/-! ### the refinement, generic in the two predicates -/

section generic
variable (Stable : PStat → Param.Field → Prop) (ArgsOK : PStat → List Param.Arg → Prop)

/-- a payload that encodes a stable field value of the port -/
def ValOK (c : PStat) (w : UInt32) : Prop := ∃ f, Stable c f ∧ encFld f = w

/-- what the refinement needs to know about one table entry -/
structure PortSem (c : PStat) : Prop where
  /-- a message in the domain either does not match the port's type pattern, or runs the
      callback: the new field is stable again and the `/undo_change` replies are exactly the
      event `App.step` records — none when the (encoded) value did not change or the port has
      no `rCAPPLY` -/
  set_ok : ∀ f args, Stable c f → ArgsOK c args →
    Param.dispatch c.port c.pfx c.path f args = .ok none ∨
    ∃ f' ev, Param.dispatch c.port c.pfx c.path f args = .ok (some (f', ev)) ∧ Stable c f' ∧
      decodeAll (undoReplies ev) =
        some (if c.undoable = true ∧ encFld f' ≠ encFld f
              then [⟨c.loc, c.tag, encFld f, encFld f'⟩] else [])
  /-- the set-message of an undo/redo step that carries a stable value is accepted by the
      port and stores exactly that value -/
  undo_ok : c.undoable = true → ∀ f v, Stable c f → Stable c v →
    ∃ a ev, msgArg ⟨c.loc, c.tag, encFld v⟩ = some a ∧
      Param.dispatch c.port c.pfx c.path f [a] = .ok (some (v, ev))
  /-- the port's address is in the domain of the history theorems (shorter than 248 bytes) -/
  fit : c.undoable = true → fits c.loc = true

/-- hypotheses on the port table -/
structure TblOK (tbl : List PStat) : Prop where
  nodup : (tbl.map PStat.loc).Nodup
  sem : ∀ c ∈ tbl, PortSem Stable ArgsOK c

/-- the operations the theorems quantify over -/
def POpOK (tbl : List PStat) : POp → Prop
  | .msg i args => ∃ c, tbl[i]? = some c ∧ ArgsOK c args
  | _ => True

def POpsOK (tbl : List PStat) (ops : List POp) : Prop := ∀ o ∈ ops, POpOK ArgsOK tbl o

/-- an event of the history belongs to an undoable port of the table and carries two stable values -/
def EvOK (tbl : List PStat) (e : Event) : Prop :=
  ∃ c ∈ tbl, c.undoable = true ∧ e.addr = c.loc ∧ e.tag = c.tag ∧
    ValOK Stable c e.old ∧ ValOK Stable c e.new

/-- the invariant of the concrete application -/
structure PInv (tbl : List PStat) (P : PApp) : Prop where
  len : P.flds.length = tbl.length
  stable : ∀ (i : Nat) c f, tbl[i]? = some c → P.flds[i]? = some f → Stable c f
  hist : ∀ x ∈ P.u.hist, EvOK Stable tbl x.2

variable {Stable ArgsOK}

theorem evOK_splice {tbl : List PStat} (hn : (tbl.map PStat.loc).Nodup) (e ev : Event)
    (h1 : EvOK Stable tbl e) (h2 : EvOK Stable tbl ev) (ha : e.addr = ev.addr) :
    EvOK Stable tbl (splice e ev) := by
  obtain ⟨c, hc, hu, hl, ht, ho, _⟩ := h1
  obtain ⟨c', hc', hu', hl', ht', _, hn'⟩ := h2
  have : c = c' := loc_inj tbl hn c hc c' hc' (by rw [← hl, ← hl', ha])
  subst this
  exact ⟨c, hc, hu, hl', ht', ho, hn'⟩

/-- delivering the messages of a seek: every port ends with the value the message carries;
    on the abstract side this is `applyEmits` -/
theorem deliverAll_sim (σ0 : Store) {tbl : List PStat} (ht : TblOK Stable ArgsOK tbl) :
    ∀ (ms : List Emit) (fs : List Param.Field), fs.length = tbl.length →
    (∀ (i : Nat) c f, tbl[i]? = some c → fs[i]? = some f → Stable c f) →
    (∀ m ∈ ms, m = none ∨ ∃ c ∈ tbl, c.undoable = true ∧ ∃ v, Stable c v ∧
        m = some ⟨c.loc, c.tag, encFld v⟩) →
    ∃ fs', deliverAll tbl fs ms = some fs' ∧ fs'.length = tbl.length ∧
      (∀ (i : Nat) c f, tbl[i]? = some c → fs'[i]? = some f → Stable c f) ∧
      absStore σ0 tbl fs' = applyEmits (absStore σ0 tbl fs) ms := by
  intro ms
  induction ms with
  | nil => intro fs hl hs _; exact ⟨fs, rfl, hl, hs, rfl⟩
  | cons m ms ih =>
    intro fs hl hs hm
    have hrest : ∀ m' ∈ ms, m' = none ∨ ∃ c ∈ tbl, c.undoable = true ∧ ∃ v, Stable c v ∧
        m' = some ⟨c.loc, c.tag, encFld v⟩ := fun m' h' => hm m' (by simp [h'])
    rcases hm m (by simp) with rfl | ⟨c, hc, hu, v, hv, rfl⟩
    · obtain ⟨fs', h1, h2, h3, h4⟩ := ih fs hl hs hrest
      exact ⟨fs', by simp only [deliverAll, deliver, h1], h2, h3, by rw [h4]; rfl⟩
    · obtain ⟨i, hi⟩ := List.mem_iff_getElem?.mp hc
      have hilt : i < tbl.length := by
        cases Nat.lt_or_ge i tbl.length with
        | inl h => exact h
        | inr h => rw [List.getElem?_eq_none h] at hi; cases hi
      have hif : i < fs.length := by omega
      have hfi : fs[i]? = some fs[i] := List.getElem?_eq_getElem hif
      obtain ⟨a, ev, ha, hd⟩ := (ht.sem c hc).undo_ok hu fs[i] v (hs i c _ hi hfi) hv
      have hdel : deliverTo ⟨c.loc, c.tag, encFld v⟩ tbl fs = some (fs.set i v) :=
        deliverTo_at _ a ha tbl fs i c fs[i] v ev ht.nodup hi hfi rfl hd
      have hs' : ∀ (j : Nat) c' f, tbl[j]? = some c' → (fs.set i v)[j]? = some f → Stable c' f := by
        intro j c' f hj hf
        rw [List.getElem?_set] at hf
        by_cases hij : i = j
        · subst hij
          simp only [if_true, hif, Option.some.injEq] at hf
          rw [hi] at hj; cases hj; subst hf; exact hv
        · simp only [hij, if_false] at hf; exact hs j c' f hj hf
      obtain ⟨fs', h1, h2, h3, h4⟩ := ih (fs.set i v) (by simpa using hl) hs' hrest
      refine ⟨fs', by simp only [deliverAll, deliver, hdel, h1], h2, h3, ?_⟩
      rw [h4, absStore_set σ0 tbl fs i c v ht.nodup hi hif, hu]
      rfl

/-- a seek of the port application: the history does what `seekHistory` does, and every message
    it emits is accepted by the port it addresses; on the abstract store this is `applyEmits` -/
theorem seek_sim (σ0 : Store) {tbl : List PStat} (ht : TblOK Stable ArgsOK tbl) (P : PApp)
    (hi : PInv Stable tbl P) (hw : WF P.u) (k : Int) (u' : State) (ms : List Emit)
    (hsk : seekHistory P.u k = some (u', ms)) :
    ∃ fs', P.step tbl (.seek k) = some ({ P with u := u', flds := fs' }, ms) ∧
      fs'.length = tbl.length ∧
      (∀ (i : Nat) c f, tbl[i]? = some c → fs'[i]? = some f → Stable c f) ∧
      absStore σ0 tbl fs' = applyEmits (absStore σ0 tbl P.flds) ms := by
  have hems : ∀ m ∈ ms, m = none ∨ ∃ c ∈ tbl, c.undoable = true ∧ ∃ v, Stable c v ∧
      m = some ⟨c.loc, c.tag, encFld v⟩ := by
    intro m hm
    rcases seek_emits_hist P.u u' k ms hw hsk m hm with h | ⟨x, hx, h⟩
    · exact Or.inl h
    · obtain ⟨c, hc, hu, hl, htg, ⟨fo, hfo, heo⟩, ⟨fn, hfn, hen⟩⟩ := hi.hist x hx
      right
      rcases h with h | h
      · exact ⟨c, hc, hu, fo, hfo, by rw [h, hl, htg, heo]⟩
      · exact ⟨c, hc, hu, fn, hfn, by rw [h, hl, htg, hen]⟩
  obtain ⟨fs', h1, h2, h3, h4⟩ := deliverAll_sim σ0 ht ms P.flds hi.len hi.stable hems
  exact ⟨fs', by simp only [PApp.step, hsk, h1], h2, h3, h4⟩

/-- **one step of the port application is one step of `App`** (or changes nothing that
    `App` sees): the refinement step.  For a message that reaches the callback of an undoable
    port the abstract operation is `set <address> <tag> <encoding of the value now stored>`. -/
theorem step_sim (σ0 : Store) {tbl : List PStat} (ht : TblOK Stable ArgsOK tbl) (P : PApp)
    (hi : PInv Stable tbl P) (hg : Good (P.abs σ0 tbl)) (o : POp) (ho : POpOK ArgsOK tbl o) :
    ∃ P' ms, P.step tbl o = some (P', ms) ∧ PInv Stable tbl P' ∧
      ((P'.abs σ0 tbl = P.abs σ0 tbl ∧ ms = []) ∨
       ∃ o', OpFit o' ∧ (P.abs σ0 tbl).step o' = some (P'.abs σ0 tbl, ms)) := by
  have hw : WF P.u := hg.wf
  cases o with
  | tick d =>
    refine ⟨{ P with clock := P.clock + d }, [], rfl, ⟨hi.len, hi.stable, hi.hist⟩, Or.inr ⟨.tick d, trivial, rfl⟩⟩
  | seek k =>
    obtain ⟨⟨u', ms⟩, hsk⟩ := seek_total P.u hw k
    have hh := seek_hist P.u u' k ms hw hsk
    obtain ⟨fs', h1, h2, h3, h4⟩ := seek_sim σ0 ht P hi hw k u' ms hsk
    refine ⟨{ P with u := u', flds := fs' }, ms, h1,
      ⟨h2, h3, by intro x hx; exact hi.hist x (by rw [← hh.1]; exact hx)⟩,
      Or.inr ⟨.seek k, trivial, ?_⟩⟩
    simp only [App.step, PApp.abs, hsk, Option.map_some, h4]
  | msg i args =>
    obtain ⟨c, hc, hargs⟩ := ho
    have hcm : c ∈ tbl := List.mem_iff_getElem?.mpr ⟨i, hc⟩
    have hilt : i < tbl.length := by
      cases Nat.lt_or_ge i tbl.length with
      | inl h => exact h
      | inr h => rw [List.getElem?_eq_none h] at hc; cases hc
    have hif : i < P.flds.length := by have := hi.len; omega
    have hfi : P.flds[i]? = some P.flds[i] := List.getElem?_eq_getElem hif
    have hst := hi.stable i c _ hc hfi
    rcases (ht.sem c hcm).set_ok _ args hst hargs with hd | ⟨f', ev, hd, hst', hdec⟩
    · exact ⟨P, [], by simp only [PApp.step, hc, hfi, hd], hi, Or.inl ⟨rfl, rfl⟩⟩
    · have hs' : ∀ (j : Nat) c' f, tbl[j]? = some c' → (P.flds.set i f')[j]? = some f → Stable c' f := by
        intro j c' f hj hf
        rw [List.getElem?_set] at hf
        by_cases hij : i = j
        · subst hij
          simp only [if_true, hif, Option.some.injEq] at hf
          rw [hc] at hj; cases hj; subst hf; exact hst'
        · simp only [hij, if_false] at hf; exact hi.stable j c' f hj hf
      have hset := absStore_set σ0 tbl P.flds i c f' ht.nodup hc hif
      by_cases hcond : c.undoable = true ∧ encFld f' ≠ encFld P.flds[i]
      · -- an event is recorded
        rw [if_pos hcond] at hdec
        obtain ⟨hu, hne⟩ := hcond
        have hat := absStore_at σ0 tbl P.flds i c _ ht.nodup hc hfi hu
        have hev : EvOK Stable tbl ⟨c.loc, c.tag, encFld P.flds[i], encFld f'⟩ :=
          ⟨c, hcm, hu, rfl, rfl, ⟨_, hst, rfl⟩, ⟨_, hst', rfl⟩⟩
        refine ⟨{ P with u := recordEvent P.clock ⟨c.loc, c.tag, encFld P.flds[i], encFld f'⟩ P.u,
                         flds := P.flds.set i f' }, [],
          by simp only [PApp.step, hc, hfi, hd, hdec, recordAll],
          ⟨by simpa using hi.len, hs', ?_⟩,
          Or.inr ⟨.set c.loc c.tag (encFld f'), (ht.sem c hcm).fit hu, ?_⟩⟩
        · exact record_all _ _ _ hw _ hi.hist hev
            (fun e he ha => evOK_splice ht.nodup e _ he hev ha)
        · have hne' : ¬ encFld P.flds[i] = encFld f' := fun h => hne h.symm
          simp only [App.step, PApp.abs, hat, hset, hu, if_true, if_neg hne']
      · -- nothing is recorded and the abstract store does not change
        rw [if_neg hcond] at hdec
        refine ⟨{ P with u := recordAll P.clock [] P.u, flds := P.flds.set i f' }, [],
          by simp only [PApp.step, hc, hfi, hd, hdec],
          ⟨by simpa using hi.len, hs', hi.hist⟩, Or.inl ⟨?_, rfl⟩⟩
        simp only [PApp.abs, recordAll, hset]
        by_cases hu : c.undoable = true
        · have heq : encFld f' = encFld P.flds[i] := by
            by_cases h : encFld f' = encFld P.flds[i]
            · exact h
            · exact absurd ⟨hu, h⟩ hcond
          have hat := absStore_at σ0 tbl P.flds i c _ ht.nodup hc hfi hu
          simp only [hu, if_true]
          rw [set_self _ _ _ (by rw [hat, heq])]
        · simp only [hu]
          rfl

/-- `Good` is carried along a simulated step -/
theorem step_sim_good (σ0 : Store) {tbl : List PStat} (ht : TblOK Stable ArgsOK tbl) (P : PApp)
    (hi : PInv Stable tbl P) (hg : Good (P.abs σ0 tbl)) (o : POp) (ho : POpOK ArgsOK tbl o) :
    ∃ P' ms, P.step tbl o = some (P', ms) ∧ PInv Stable tbl P' ∧ Good (P'.abs σ0 tbl) ∧
      ((P'.abs σ0 tbl = P.abs σ0 tbl ∧ ms = []) ∨
       ∃ o', OpFit o' ∧ (P.abs σ0 tbl).step o' = some (P'.abs σ0 tbl, ms)) := by
  obtain ⟨P', ms, h1, h2, h3⟩ := step_sim σ0 ht P hi hg o ho
  refine ⟨P', ms, h1, h2, ?_, h3⟩
  rcases h3 with ⟨h, _⟩ | ⟨o', hf, h⟩
  · rw [h]; exact hg
  · exact good_step _ _ o' ms hg hf h

/-- **the run of the port application is a run of `App`**: for every list of operations in
    the domain the port application does not fail, and its final state abstracts to the
    final state of `App` run on a list of fitting operations (one `set` per message that
    reached the callback of an undoable port and changed nothing or something, the seeks and
    the clock steps, in order). -/
theorem run_sim (σ0 : Store) {tbl : List PStat} (ht : TblOK Stable ArgsOK tbl) :
    ∀ (ops : List POp) (P : PApp), PInv Stable tbl P → Good (P.abs σ0 tbl) → POpsOK ArgsOK tbl ops →
    ∃ P' ops', P.run tbl ops = some P' ∧ PInv Stable tbl P' ∧ Good (P'.abs σ0 tbl) ∧
      OpsFit ops' ∧ (P.abs σ0 tbl).run ops' = some (P'.abs σ0 tbl) := by
  intro ops
  induction ops with
  | nil =>
    intro P hi hg _
    exact ⟨P, [], rfl, hi, hg, (fun o ho => by cases ho), rfl⟩
  | cons o ops ih =>
    intro P hi hg ho
    obtain ⟨P1, ms, h1, hi1, hg1, h3⟩ := step_sim_good σ0 ht P hi hg o (ho o (by simp))
    obtain ⟨P', ops', hr, hi', hg', hf', hr'⟩ := ih P1 hi1 hg1 (fun x hx => ho x (by simp [hx]))
    rcases h3 with ⟨h, _⟩ | ⟨o', hf, h⟩
    · exact ⟨P', ops', by simp only [PApp.run, h1, hr], hi', hg', hf', by rw [← h]; exact hr'⟩
    · refine ⟨P', o' :: ops', by simp only [PApp.run, h1, hr], hi', hg', ?_, ?_⟩
      · intro x hx
        rcases List.mem_cons.mp hx with rfl | hx
        · exact hf
        · exact hf' x hx
      · simp only [App.run, h, Option.bind_some, hr']

end generic

end Rtosc.Undo
