/-
  C06 — the sequential ThreadLink model refines the bounded FIFO with lookahead cursor.
  The invariant is phrased like the concurrent one: `P` = every message accepted so far,
  `C` = how many were consumed, `L` = position of the lookahead cursor.
-/
import RtoscModel.Proofs.RingLemmas
import RtoscModel.Ring.Spec
namespace Rtosc.Ring
open Rtosc

/-! ### the two copy routines -/

theorem copyIn_spec {buf strm data : Bytes} {N lo hi : Nat} (hN : 0 < N) (hb : buf.length = N)
    (h : Holds buf N strm lo hi) (hsp : hi + data.length + 1 ≤ lo + N) (hlo : lo ≤ hi)
    (hsrc : ∀ i, i < data.length → data.getD i 0 = strm.getD (hi + i) 0) :
    (copyIn buf N (hi % N) data).2 = true ∧ (copyIn buf N (hi % N) data).1.length = N ∧
    Holds (copyIn buf N (hi % N) data).1 N strm lo (hi + data.length) := by
  have hx : hi % N < N := Nat.mod_lt _ hN
  have hpos : ∀ i, (hi + i) % N = (hi % N + i) % N := fun i => abs_add_mod hi i N
  generalize hi % N = x at *
  unfold copyIn
  simp only
  rw [add_mod_cases hx (by omega)]
  by_cases hc : x + data.length < N
  · rw [if_pos hc, if_neg (by omega)]
    have hok : x + data.length ≤ buf.length := by omega
    have := Holds.blit (src := data) (off := x) h hb (by omega) (by omega)
      (by intro i hi'; rw [hpos, Nat.mod_eq_of_lt (by omega)]) hsrc
    exact ⟨by rw [blit_ok hok], by rw [blit_length hok, hb], this⟩
  · rw [if_neg hc, if_pos (by omega)]
    have hl1 : (data.take (N - x)).length = N - x := by simp; omega
    have hl2 : (data.drop (N - x)).length = data.length - (N - x) := by simp
    have hok1 : x + (data.take (N - x)).length ≤ buf.length := by rw [hl1]; omega
    have h1 := Holds.blit (src := data.take (N - x)) (off := x) h hb (by rw [hl1]; omega)
      (by rw [hl1]; omega)
      (by intro i hi'; rw [hl1] at hi'; rw [hpos, Nat.mod_eq_of_lt (by omega)])
      (by intro i hi'; rw [hl1] at hi'; rw [getD_take' hi']; exact hsrc i (by omega))
    have hb1 := blit_length hok1
    rw [hl1] at h1
    have hok2 : 0 + (data.drop (N - x)).length ≤ (blit buf x (data.take (N - x))).1.length := by
      rw [hb1, hl2]; omega
    have h2 := Holds.blit (src := data.drop (N - x)) (off := 0) h1 (by rw [hb1, hb])
      (by rw [hl2]; omega) (by rw [hl2]; omega)
      (by
        intro i hi'; rw [hl2] at hi'
        rw [Nat.add_assoc, hpos, Nat.mod_eq_sub_mod (by omega), Nat.mod_eq_of_lt (by omega)]
        omega)
      (by
        intro i hi'; rw [hl2] at hi'
        rw [getD_drop', Nat.add_assoc]; exact hsrc _ (by omega))
    have hb2 := blit_length hok2
    rw [hl2] at h2
    have e : hi + (N - x) + (data.length - (N - x)) = hi + data.length := by omega
    rw [e] at h2
    rw [blit_ok hok1] at hok2 hb2 h2 hb1 ⊢
    simp only at hok2 hb2 h2 hb1 ⊢
    rw [blit_ok hok2] at hb2 h2 ⊢
    simp only at hb2 h2 ⊢
    exact ⟨rfl, by rw [hb2, hb1, hb], h2⟩

theorem copyOut_spec {buf rbuf strm : Bytes} {N lo hi A len : Nat} (hN : 0 < N) (hb : buf.length = N)
    (h : Holds buf N strm lo hi) (hlo : lo ≤ A) (hhi : A + len ≤ hi) (hs : hi ≤ strm.length)
    (hlen : len + 1 ≤ N) (hr : len ≤ rbuf.length) :
    (copyOut buf rbuf N (A % N) len).2 = true ∧
    (copyOut buf rbuf N (A % N) len).1.length = rbuf.length ∧
    (copyOut buf rbuf N (A % N) len).1.take len = (strm.drop A).take len := by
  have hx : A % N < N := Nat.mod_lt _ hN
  have hpos : ∀ i, (A + i) % N = (A % N + i) % N := fun i => abs_add_mod A i N
  generalize A % N = x at *
  unfold copyOut
  simp only
  rw [add_mod_cases hx (by omega)]
  by_cases hc : x + len < N
  · rw [if_pos hc, if_neg (by omega)]
    have hsl := slice_holds (p := A) (c := len) (off := x) hb h hlo hhi hs (by omega)
      (by intro i hi'; rw [hpos, Nat.mod_eq_of_lt (by omega)])
    rw [hsl]
    simp only
    have hcl : ((strm.drop A).take len).length = len := by simp; omega
    have hok : 0 + ((strm.drop A).take len).length ≤ rbuf.length := by rw [hcl]; omega
    rw [blit_ok hok]
    simp only [List.take_zero, List.nil_append, Nat.zero_add, Bool.and_self]
    refine ⟨trivial, by simp; omega, ?_⟩
    exact List.take_left' hcl
  · rw [if_neg hc, if_pos (by omega)]
    have hs1 := slice_holds (p := A) (c := N - x) (off := x) hb h hlo (by omega) hs (by omega)
      (by intro i hi'; rw [hpos, Nat.mod_eq_of_lt (by omega)])
    have hs2 := slice_holds (p := A + (N - x)) (c := len - (N - x)) (off := 0) hb h (by omega)
      (by omega) hs (by omega)
      (by
        intro i hi'
        rw [Nat.add_assoc, hpos, Nat.mod_eq_sub_mod (by omega), Nat.mod_eq_of_lt (by omega)]
        omega)
    rw [hs1, hs2]
    simp only
    have hc1 : ((strm.drop A).take (N - x)).length = N - x := by simp; omega
    have hc2 : ((strm.drop (A + (N - x))).take (len - (N - x))).length = len - (N - x) := by
      simp; omega
    have hok1 : 0 + ((strm.drop A).take (N - x)).length ≤ rbuf.length := by rw [hc1]; omega
    have hb1 := blit_length hok1
    rw [blit_ok hok1] at hb1 ⊢
    simp only [List.take_zero, List.nil_append, Nat.zero_add] at hb1 ⊢
    have hok2 : (N - x) + ((strm.drop (A + (N - x))).take (len - (N - x))).length ≤
        ((strm.drop A).take (N - x) ++ rbuf.drop ((strm.drop A).take (N - x)).length).length := by
      rw [hb1, hc2]; omega
    have hb2 := blit_length hok2
    rw [blit_ok hok2] at hb2 ⊢
    simp only [Bool.and_self] at hb2 ⊢
    refine ⟨trivial, by rw [hb2, hb1], ?_⟩
    rw [List.take_left' hc1]
    have e : len = (N - x) + (len - (N - x)) := by omega
    have hl : ((strm.drop A).take (N - x) ++ (strm.drop (A + (N - x))).take (len - (N - x))).length = len := by
      rw [List.length_append, hc1, hc2]; omega
    rw [List.take_left' hl]
    conv => rhs; rw [e, List.take_add, List.drop_drop]

theorem copyOut_zero {buf rbuf : Bytes} {N x : Nat} (hx : x < N) (hb : buf.length = N) :
    copyOut buf rbuf N x 0 = (rbuf, true) := by
  unfold copyOut
  simp only [Nat.add_zero, Nat.mod_eq_of_lt hx, Nat.lt_irrefl, if_false]
  rw [slice_ok (by omega)]
  simp only [List.take_zero]
  rw [blit_nil (by omega)]
  rfl

/-! ### the invariant -/

structure SInv (frame : Bytes → Nat) (IsMsg : Bytes → Prop) (s : Seq) (P : List Bytes) (C L : Nat) :
    Prop where
  hN : 0 < s.size
  hbuf : s.buf.length = s.size
  hrbuf : s.rbuf.length = s.maxMsg
  hfault : s.fault = false
  hP : ∀ m, m ∈ P → IsMsg m ∧ m.length ≤ s.maxMsg
  hCL : C ≤ L
  hL : L ≤ P.length
  hw : s.w = P.flatten.length % s.size
  hr : s.r = offs P C % s.size
  hla : s.la = offs P L % s.size
  hspace : P.flatten.length + 1 ≤ offs P C + s.size
  hcontent : Holds s.buf s.size P.flatten (offs P C) P.flatten.length

/-- the abstract queue a ring state stands for -/
def absQ (s : Seq) (P : List Bytes) (C L : Nat) : Q :=
  { cap := s.size - 1, maxMsg := s.maxMsg, items := P.drop C, la := L - C }

theorem flatten_drop_length (P : List Bytes) (C : Nat) :
    (P.drop C).flatten.length = P.flatten.length - offs P C := by
  have : P.flatten = (P.take C).flatten ++ (P.drop C).flatten := by
    conv => lhs; rw [← List.take_append_drop C P]
    rw [List.flatten_append]
  rw [this, List.length_append]; unfold offs; omega

theorem SInv.writeSize {frame IsMsg s P C L} (inv : SInv frame IsMsg s P C L) :
    Ring.writeSize s.w s.r s.size + P.flatten.length = s.size - 1 + offs P C := by
  have h1 := offs_le_total P C
  have hsp := inv.hspace
  have e : P.flatten.length = offs P C + (P.flatten.length - offs P C) := by omega
  have := writeSize_eq (A := offs P C) (D := P.flatten.length - offs P C) inv.hN (by omega)
  rw [← e, ← inv.hw, ← inv.hr] at this
  omega

theorem ringWrite_nil {s : Seq} (hw : s.w < s.size) (hb : s.buf.length = s.size) :
    s.ringWrite [] = s := by
  unfold Seq.ringWrite copyIn
  simp only [List.length_nil, Nat.add_zero, Nat.mod_eq_of_lt hw, Nat.lt_irrefl, if_false]
  rw [blit_nil (by omega)]
  cases s; simp

theorem ringWrite_inv {frame IsMsg s P C L} {data : Bytes} (inv : SInv frame IsMsg s P C L)
    (hd : IsMsg data ∧ data.length ≤ s.maxMsg) (hfit : Ring.writeSize s.w s.r s.size ≥ data.length) :
    SInv frame IsMsg (s.ringWrite data) (P ++ [data]) C L := by
  have hN := inv.hN
  have hws := inv.writeSize
  have hoffC := offs_le_total P C
  have hCP : C ≤ P.length := Nat.le_trans inv.hCL inv.hL
  have hfl : (P ++ [data]).flatten = P.flatten ++ data := by simp
  have hspec := copyIn_spec (strm := P.flatten ++ data) (lo := offs P C) (hi := P.flatten.length)
    (data := data) hN inv.hbuf
    (by intro i h1 h2; rw [getD_append_left' h2]; exact inv.hcontent i h1 h2)
    (by omega) hoffC
    (by intro i hi; rw [getD_append_right' (by omega)]; congr 1; omega)
  rw [← inv.hw] at hspec
  unfold Seq.ringWrite
  generalize copyIn s.buf s.size s.w data = bo at hspec
  obtain ⟨b, ok⟩ := bo
  simp only at hspec ⊢
  obtain ⟨hok, hbl, hh⟩ := hspec
  exact {
    hN := hN, hbuf := hbl, hrbuf := inv.hrbuf
    hfault := by show (s.fault || !ok) = false; rw [inv.hfault, hok]; rfl
    hP := by
      intro m hm
      rcases List.mem_append.mp hm with h' | h'
      · exact inv.hP m h'
      · rw [List.mem_singleton.mp h']; exact hd
    hCL := inv.hCL
    hL := by rw [List.length_append]; simp; exact Nat.le_succ_of_le inv.hL
    hw := by show (s.w + data.length) % s.size = _; rw [hfl, List.length_append, inv.hw, Nat.mod_add_mod]
    hr := by rw [offs_append data hCP]; exact inv.hr
    hla := by rw [offs_append data inv.hL]; exact inv.hla
    hspace := by rw [offs_append data hCP, hfl, List.length_append]; show _ ≤ _ + s.size; omega
    hcontent := by rw [offs_append data hCP, hfl, List.length_append]; exact hh }

/-- what a read finds at message index `X` (`X = C` for `read`, `X = L` for `read_lookahead`) -/
theorem read_core {frame : Bytes → Nat} {IsMsg : Bytes → Prop} (fr : Framing frame IsMsg)
    {s : Seq} {P : List Bytes} {C L : Nat} (inv : SInv frame IsMsg s P C L) (la : Bool) :
    (∃ hx : (if la = true then L else C) < P.length,
        (s.read frame la).2 = P[if la = true then L else C].length ∧
        (s.read frame la).1.rbuf.take (s.read frame la).2 = P[if la = true then L else C] ∧
        SInv frame IsMsg (s.read frame la).1 P (if la = true then C else C + 1)
          ((if la = true then L else C) + 1)) ∨
    ((if la = true then L else C) = P.length ∧ (s.read frame la).2 = 0 ∧
        SInv frame IsMsg (s.read frame la).1 P C (if la = true then L else C)) := by
  have hN := inv.hN
  have hCP : C ≤ P.length := Nat.le_trans inv.hCL inv.hL
  have hXC : C ≤ (if la = true then L else C) := by split; exact inv.hCL; exact Nat.le_refl _
  have hXP : (if la = true then L else C) ≤ P.length := by split; exact inv.hL; exact hCP
  have hxX : (if la = true then s.la else s.r) = offs P (if la = true then L else C) % s.size := by
    cases la
    · simpa using inv.hr
    · simpa using inv.hla
  unfold Seq.read
  generalize hXdef : (if la = true then L else C) = X at *
  generalize hxdef : (if la = true then s.la else s.r) = x at *
  have ho1 : offs P C ≤ offs P X := offs_mono hXC
  have ho2 : offs P X ≤ P.flatten.length := offs_le_total _ _
  have hsp := inv.hspace
  have hxlt : x < s.size := by rw [hxX]; exact Nat.mod_lt _ hN
  have hwv : s.w = (offs P X + (P.flatten.length - offs P X)) % s.size := by
    rw [inv.hw]; congr 1; omega
  have hview := readVector_holds (A := offs P X) (V := P.flatten.length - offs P X) hN inv.hbuf
    (by omega) (inv.hcontent.mono ho1 (by omega)) (by omega)
  have hsv := stream_view (P := P) (X := X) (j := P.length) [] hXP
  rw [offs_length, List.append_nil, List.take_length] at hsv
  rw [← hwv, ← hxX, hsv] at hview
  rcases hrv : readVector s.buf s.size s.w x with ⟨d0, d1, ok⟩
  rw [hrv] at hview
  simp only [hrv] at hview ⊢
  obtain ⟨hok, hv⟩ := hview
  subst hok
  by_cases hXlt : X < P.length
  · left
    refine ⟨hXlt, ?_⟩
    have hlen : frame (d0 ++ d1) = P[X].length := by
      rw [hv, List.drop_eq_getElem_cons hXlt, List.flatten_cons]
      exact fr.msg _ _ (inv.hP _ (List.getElem_mem _)).1
    rw [hlen]
    have htot := getElem_length_le_total hXlt
    have hmx := (inv.hP _ (List.getElem_mem hXlt)).2
    have hco := copyOut_spec (rbuf := s.rbuf) (A := offs P X) (len := P[X].length) hN inv.hbuf inv.hcontent
      ho1 htot (Nat.le_refl _) (by omega) (by rw [inv.hrbuf]; exact hmx)
    rw [← hxX, flatten_drop_offs hXlt, List.take_left' rfl] at hco
    unfold Seq.ringRead
    rw [hxdef]
    rcases hro : copyOut s.buf s.rbuf s.size x P[X].length with ⟨rb, rok⟩
    rw [hro] at hco
    simp only [hro] at hco ⊢
    obtain ⟨hrok, hrl, hrt⟩ := hco
    subst hrok
    have hnext : (x + P[X].length) % s.size = offs P (X + 1) % s.size := by
      rw [hxX, Nat.mod_add_mod, offs_succ hXlt]
    cases la with
    | false =>
      simp only [Bool.false_eq_true, if_false] at hXdef hxdef ⊢
      subst hXdef
      refine ⟨trivial, hrt, ?_⟩
      exact {
        hN := hN, hbuf := inv.hbuf, hrbuf := by show rb.length = _; rw [hrl]; exact inv.hrbuf
        hfault := by show (s.fault || !true || !true) = false; rw [inv.hfault]; rfl
        hP := inv.hP, hCL := Nat.le_refl _, hL := hXlt, hw := inv.hw
        hr := hnext, hla := hnext
        hspace := by rw [offs_succ hXlt]; show _ ≤ _ + s.size; omega
        hcontent := inv.hcontent.mono (by rw [offs_succ hXlt]; omega) (Nat.le_refl _) }
    | true =>
      simp only [if_true] at hXdef hxdef ⊢
      subst hXdef
      refine ⟨trivial, hrt, ?_⟩
      exact {
        hN := hN, hbuf := inv.hbuf, hrbuf := by show rb.length = _; rw [hrl]; exact inv.hrbuf
        hfault := by show (s.fault || !true || !true) = false; rw [inv.hfault]; rfl
        hP := inv.hP, hCL := Nat.le_succ_of_le inv.hCL, hL := hXlt, hw := inv.hw
        hr := inv.hr, hla := hnext
        hspace := inv.hspace
        hcontent := inv.hcontent }
  · right
    have hXeq : X = P.length := by omega
    refine ⟨hXeq, ?_⟩
    have hlen : frame (d0 ++ d1) = 0 := by
      have hnil : d0 ++ d1 = [] := by rw [hv, hXeq, List.drop_length]; rfl
      have := fr.le (d0 ++ d1)
      rw [hnil] at this ⊢
      simpa using this
    rw [hlen]
    unfold Seq.ringRead
    simp only [hxdef, copyOut_zero hxlt inv.hbuf, Nat.add_zero, Nat.mod_eq_of_lt hxlt]
    refine ⟨trivial, ?_⟩
    cases la with
    | false =>
      simp only [Bool.false_eq_true, if_false] at hXdef hxdef ⊢
      subst hXdef; subst hxdef
      exact { inv with
        hfault := by show (s.fault || !true || !true) = false; rw [inv.hfault]; rfl
        hCL := Nat.le_refl _, hL := hCP, hla := inv.hr }
    | true =>
      simp only [if_true] at hXdef hxdef ⊢
      subst hXdef; subst hxdef
      exact { inv with
        hfault := by show (s.fault || !true || !true) = false; rw [inv.hfault]; rfl }

/-! ### every operation refines the queue -/

/-- operations whose payload is a message (the property's precondition) -/
def Op.Ok (IsMsg : Bytes → Prop) : Op → Prop
  | .write m => IsMsg m
  | .rawWrite b => IsMsg b
  | _ => True

theorem ringWrite_size (s : Seq) (d : Bytes) :
    (s.ringWrite d).size = s.size ∧ (s.ringWrite d).maxMsg = s.maxMsg := by
  unfold Seq.ringWrite
  rcases copyIn s.buf s.size s.w d with ⟨b, ok⟩
  exact ⟨rfl, rfl⟩

theorem read_size (frame : Bytes → Nat) (s : Seq) (la : Bool) :
    (s.read frame la).1.size = s.size ∧ (s.read frame la).1.maxMsg = s.maxMsg := by
  unfold Seq.read Seq.ringRead
  rcases readVector s.buf s.size s.w (if la = true then s.la else s.r) with ⟨d0, d1, ok⟩
  simp only
  rcases copyOut s.buf s.rbuf s.size (if la = true then s.la else s.r) (frame (d0 ++ d1)) with ⟨rb, ok2⟩
  cases la <;> exact ⟨rfl, rfl⟩

theorem SInv.fits_iff {frame IsMsg s P C L} (inv : SInv frame IsMsg s P C L) (m : Bytes) :
    (absQ s P C L).fits m = true ↔
      m.length ≤ s.maxMsg ∧ Ring.writeSize s.w s.r s.size ≥ m.length := by
  have hws := inv.writeSize
  have hN := inv.hN
  have hoff := offs_le_total P C
  have hsp := inv.hspace
  unfold Q.fits Q.used absQ
  simp only [flatten_drop_length, Bool.and_eq_true, decide_eq_true_eq]
  constructor
  · rintro ⟨h1, h2⟩; exact ⟨h1, by omega⟩
  · rintro ⟨h1, h2⟩; exact ⟨h1, by omega⟩

theorem SInv.readSize_ne_zero {frame : Bytes → Nat} {IsMsg : Bytes → Prop} (fr : Framing frame IsMsg)
    {s P C L} (inv : SInv frame IsMsg s P C L) {X x : Nat} (hCX : C ≤ X) (hXP : X ≤ P.length)
    (hx : x = offs P X % s.size) : Ring.readSize s.w x s.size ≠ 0 ↔ X < P.length := by
  have hN := inv.hN
  have ho1 : offs P C ≤ offs P X := offs_mono hCX
  have ho2 : offs P X ≤ P.flatten.length := offs_le_total _ _
  have hsp := inv.hspace
  have hrs : Ring.readSize s.w x s.size = P.flatten.length - offs P X := by
    rw [inv.hw, hx]
    have := readSize_eq (A := offs P X) (D := P.flatten.length - offs P X) hN (by omega)
    rw [← this]; congr 2; omega
  rw [hrs]
  constructor
  · intro h
    by_cases hlt : X < P.length
    · exact hlt
    · have : X = P.length := by omega
      rw [this, offs_length] at h
      omega
  · intro h
    have := offs_lt_of_lt (fun m hm => fr.ne m (inv.hP m hm).1) h (Nat.le_refl _)
    rw [offs_length] at this
    omega

/-- writing the bytes `data` (a message that respects `MaxMsg`, or nothing) -/
theorem put_refines {frame : Bytes → Nat} {IsMsg : Bytes → Prop} {s P C L}
    (inv : SInv frame IsMsg s P C L) (m : Bytes) (hm : IsMsg m) :
    ∃ P', SInv frame IsMsg
        (if m.length ≤ s.maxMsg ∧ Ring.writeSize s.w s.r s.size ≥ m.length then s.ringWrite m else s) P' C L ∧
      (absQ s P C L).write m =
        absQ (if m.length ≤ s.maxMsg ∧ Ring.writeSize s.w s.r s.size ≥ m.length then s.ringWrite m else s) P' C L := by
  have hCP : C ≤ P.length := Nat.le_trans inv.hCL inv.hL
  unfold Q.write
  by_cases hf : m.length ≤ s.maxMsg ∧ Ring.writeSize s.w s.r s.size ≥ m.length
  · rw [if_pos hf, if_pos ((inv.fits_iff m).mpr hf)]
    refine ⟨P ++ [m], ringWrite_inv inv ⟨hm, hf.1⟩ hf.2, ?_⟩
    unfold absQ
    rw [(ringWrite_size s m).1, (ringWrite_size s m).2, List.drop_append_of_le_length hCP]
  · rw [if_neg hf, if_neg (by rw [inv.fits_iff m]; exact hf)]
    exact ⟨P, inv, rfl⟩

theorem step_refines {frame : Bytes → Nat} {IsMsg : Bytes → Prop} (fr : Framing frame IsMsg)
    {s : Seq} {P : List Bytes} {C L : Nat} (inv : SInv frame IsMsg s P C L) (op : Op)
    (hop : op.Ok IsMsg) :
    ∃ P' C' L', SInv frame IsMsg (s.step frame op).1 P' C' L' ∧
      (absQ s P C L).step op = (absQ (s.step frame op).1 P' C' L', (s.step frame op).2) := by
  have hN := inv.hN
  have hCP : C ≤ P.length := Nat.le_trans inv.hCL inv.hL
  have hwlt : s.w < s.size := by rw [inv.hw]; exact Nat.mod_lt _ hN
  cases op with
  | write m =>
    have hm : IsMsg m := hop
    obtain ⟨P', h1, h2⟩ := put_refines inv m hm
    simp only [Seq.step, Q.step, Seq.write]
    by_cases hmx : m.length ≤ s.maxMsg
    · simp only [hmx, if_true, true_and] at h1 h2 ⊢
      exact ⟨P', C, L, h1, by rw [h2]⟩
    · simp only [hmx, if_false, false_and] at h1 h2 ⊢
      simp only [List.length_nil, ge_iff_le, Nat.zero_le, if_true]
      rw [ringWrite_nil hwlt inv.hbuf]
      exact ⟨P', C, L, h1, by rw [h2]⟩
  | rawWrite b =>
    have hm : IsMsg b := hop
    have e : frame b = b.length := by
      have := fr.msg b [] hm
      rwa [List.append_nil] at this
    obtain ⟨P', h1, h2⟩ := put_refines inv b hm
    simp only [Seq.step, Q.step, Seq.rawWrite, e, List.take_length]
    exact ⟨P', C, L, h1, by rw [h2]⟩
  | hasNext =>
    refine ⟨P, C, L, inv, ?_⟩
    simp only [Seq.step, Q.step, Seq.hasNext, Bool.false_eq_true, if_false]
    congr 2
    have := inv.readSize_ne_zero fr (X := C) (x := s.r) (Nat.le_refl _) hCP inv.hr
    unfold absQ
    simp only
    by_cases hlt : C < P.length
    · have hne : P.drop C ≠ [] := by
        intro h'; have := congrArg List.length h'; simp at this; omega
      simp [this.mpr hlt, hne]
    · have : ¬ Ring.readSize s.w s.r s.size ≠ 0 := fun h' => hlt (this.mp h')
      have he : P.drop C = [] := List.drop_eq_nil_of_le (by omega)
      simp only [ne_eq, Decidable.not_not] at this
      simp [this, he]
  | hasNextLookahead =>
    refine ⟨P, C, L, inv, ?_⟩
    simp only [Seq.step, Q.step, Seq.hasNext, if_true]
    congr 2
    have := inv.readSize_ne_zero fr (X := L) (x := s.la) inv.hCL inv.hL inv.hla
    unfold absQ
    simp only [List.length_drop]
    have hCL := inv.hCL
    by_cases hlt : L < P.length
    · simp [this.mpr hlt]; omega
    · have : ¬ Ring.readSize s.w s.la s.size ≠ 0 := fun h' => hlt (this.mp h')
      simp only [ne_eq, Decidable.not_not] at this
      simp [this]; omega
  | read =>
    have hsz := read_size frame s false
    simp only [Seq.step, Q.step]
    rcases read_core fr inv false with ⟨hx, hlen, hrb, hinv⟩ | ⟨hx, hlen, hinv⟩
    · simp only [Bool.false_eq_true, if_false] at hx hlen hrb hinv
      refine ⟨P, C + 1, C + 1, hinv, ?_⟩
      have hne : P[C] ≠ [] := fr.ne _ (inv.hP _ (List.getElem_mem hx)).1
      have hl0 : (s.read frame false).2 ≠ 0 := by
        rw [hlen]; exact Nat.ne_of_gt (List.length_pos_iff.mpr hne)
      unfold absQ msgOut
      simp only [hsz.1, hsz.2, hl0, if_false, hrb, Nat.sub_self]
      rw [List.drop_eq_getElem_cons hx]
    · simp only [Bool.false_eq_true, if_false] at hx hlen hinv
      refine ⟨P, C, C, hinv, ?_⟩
      unfold absQ msgOut
      simp only [hsz.1, hsz.2, hlen, if_true, Nat.sub_self]
      rw [hx, List.drop_length]
  | readLookahead =>
    have hsz := read_size frame s true
    have hCL := inv.hCL
    simp only [Seq.step, Q.step]
    rcases read_core fr inv true with ⟨hx, hlen, hrb, hinv⟩ | ⟨hx, hlen, hinv⟩
    · simp only [if_true] at hx hlen hrb hinv
      refine ⟨P, C, L + 1, hinv, ?_⟩
      have hne : P[L] ≠ [] := fr.ne _ (inv.hP _ (List.getElem_mem hx)).1
      have hl0 : (s.read frame true).2 ≠ 0 := by
        rw [hlen]; exact Nat.ne_of_gt (List.length_pos_iff.mpr hne)
      have hget : (P.drop C)[L - C]? = some P[L] := by
        rw [List.getElem?_drop, List.getElem?_eq_getElem (by omega)]
        congr 1; congr 1; omega
      unfold absQ msgOut
      simp only [hsz.1, hsz.2, hl0, if_false, hrb, hget]
      congr 2; omega
    · simp only [if_true] at hx hlen hinv
      refine ⟨P, C, L, hinv, ?_⟩
      have hget : (P.drop C)[L - C]? = none := by
        rw [List.getElem?_drop]; exact List.getElem?_eq_none (by omega)
      unfold absQ msgOut
      simp only [hsz.1, hsz.2, hlen, if_true, hget]

theorem run_refines {frame : Bytes → Nat} {IsMsg : Bytes → Prop} (fr : Framing frame IsMsg)
    (ops : List Op) : ∀ (s : Seq) (P : List Bytes) (C L : Nat), SInv frame IsMsg s P C L →
    (∀ op, op ∈ ops → op.Ok IsMsg) →
    ∃ P' C' L', SInv frame IsMsg (Seq.run frame s ops).1 P' C' L' ∧
      Q.run (absQ s P C L) ops = (absQ (Seq.run frame s ops).1 P' C' L', (Seq.run frame s ops).2) := by
  induction ops with
  | nil => intro s P C L inv _; exact ⟨P, C, L, inv, rfl⟩
  | cons op ops ih =>
    intro s P C L inv hops
    obtain ⟨P1, C1, L1, inv1, h1⟩ := step_refines fr inv op (hops op List.mem_cons_self)
    obtain ⟨P2, C2, L2, inv2, h2⟩ := ih (s.step frame op).1 P1 C1 L1 inv1
      (fun o ho => hops o (List.mem_cons_of_mem _ ho))
    refine ⟨P2, C2, L2, ?_, ?_⟩
    · simpa [Seq.run] using inv2
    · simp only [Q.run, Seq.run, h1, h2]

theorem init_sinv {frame : Bytes → Nat} {IsMsg : Bytes → Prop} (maxMsg nmsgs : Nat)
    (hN : 0 < maxMsg * nmsgs) : SInv frame IsMsg (Seq.init maxMsg nmsgs) [] 0 0 := by
  exact {
    hN := hN, hbuf := by simp [Seq.init], hrbuf := by simp [Seq.init], hfault := rfl
    hP := by intro m hm; cases hm
    hCL := Nat.le_refl _, hL := Nat.le_refl _
    hw := by simp [Seq.init], hr := by simp [Seq.init, offs], hla := by simp [Seq.init, offs]
    hspace := by simp [Seq.init, offs]; omega
    hcontent := by intro i _ h2; simp at h2 }

theorem absQ_init (maxMsg nmsgs : Nat) : absQ (Seq.init maxMsg nmsgs) [] 0 0 = Q.init maxMsg nmsgs := rfl

/-! ### the lookahead cursor, at the level of the queue -/

theorem Q.la_run_items (k : Nat) : ∀ q : Q,
    (Q.run q (List.replicate k .readLookahead)).1.items = q.items ∧
    (Q.run q (List.replicate k .readLookahead)).1.cap = q.cap ∧
    (Q.run q (List.replicate k .readLookahead)).1.maxMsg = q.maxMsg := by
  induction k with
  | zero => intro q; exact ⟨rfl, rfl, rfl⟩
  | succ k ih =>
    intro q
    simp only [List.replicate_succ, Q.run, Q.step]
    cases h : q.items[q.la]? with
    | none => simpa using ih q
    | some m => simpa using ih { q with la := q.la + 1 }

/-- `k` lookahead reads deliver what `k` reads would deliver from the cursor position -/
theorem Q.la_outs (k : Nat) : ∀ q : Q,
    (Q.run q (List.replicate k .readLookahead)).2 =
      (Q.run { q with items := q.items.drop q.la, la := 0 } (List.replicate k .read)).2 := by
  induction k with
  | zero => intro q; rfl
  | succ k ih =>
    intro q
    simp only [List.replicate_succ, Q.run, Q.step]
    cases h : q.items[q.la]? with
    | none =>
      have hle : q.items.length ≤ q.la := by
        rcases Nat.lt_or_ge q.la q.items.length with h' | h'
        · rw [List.getElem?_eq_getElem h'] at h; cases h
        · exact h'
      have hd : q.items.drop q.la = [] := List.drop_eq_nil_of_le hle
      simp only [hd]
      rw [ih q, hd]
    | some m =>
      have hlt : q.la < q.items.length := by
        rcases Nat.lt_or_ge q.la q.items.length with h' | h'
        · exact h'
        · rw [List.getElem?_eq_none h'] at h; cases h
      have hm : q.items[q.la] = m := by
        rw [List.getElem?_eq_getElem hlt] at h; exact Option.some.inj h
      have hd : q.items.drop q.la = m :: q.items.drop (q.la + 1) := by
        rw [List.drop_eq_getElem_cons hlt, hm]
      simp only [hd]
      rw [ih { q with la := q.la + 1 }]

/-- what reads deliver does not depend on the lookahead cursor -/
theorem Q.read_outs_la (k : Nat) (q : Q) (a : Nat) :
    (Q.run { q with la := a } (List.replicate k .read)).2 = (Q.run q (List.replicate k .read)).2 := by
  cases k with
  | zero => rfl
  | succ k =>
    simp only [List.replicate_succ, Q.run, Q.step]

/-- `k` reads deliver the queued messages in order, then nothing -/
theorem Q.read_outs (k : Nat) : ∀ q : Q,
    (Q.run q (List.replicate k .read)).2 = (List.range k).map fun i => Out.msg q.items[i]? := by
  induction k with
  | zero => intro q; rfl
  | succ k ih =>
    intro q
    rw [List.range_succ_eq_map]
    simp only [List.replicate_succ, Q.run, Q.step, List.map_cons, List.map_map]
    cases h : q.items with
    | nil =>
      simp only [List.getElem?_nil, List.cons.injEq, true_and]
      rw [ih]; simp
    | cons m t =>
      simp only [List.getElem?_cons_zero, List.cons.injEq, true_and]
      rw [ih]
      apply List.map_congr_left
      intro i _
      simp

end Rtosc.Ring
