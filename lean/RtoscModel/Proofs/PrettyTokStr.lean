/-
  C10 — tokens of the string types: 's' (always quoted) and 'S' when it needs quotes.
  The printed text depends on the printer state: `printStrChars` inserts `breakText`
  (`"\` newline, four spaces, `"`) before a character when the line is full and after every `\n`
  escape.  `StrBody text content` describes every text that can arise that way (parts without a
  break, `Seg`, joined by `breakText`); scanner and checker read every such text back
  (`tokOK_string`, `tokOK_symbol_quoted`), and the printer only produces such texts
  (`printStrChars_body`).
-/
import RtoscModel.Proofs.PrettyTok
namespace Rtosc.Pretty
open Rtosc Rtosc.Libc
open Rtosc.ArgVal (Cell)

/-- bytes of a string the property quantifies over: the C escapes \a..\r and printable ASCII -/
def StrByteOK (b : UInt8) : Prop := (7 ≤ b ∧ b ≤ 13) ∨ (32 ≤ b ∧ b ≤ 126)

/-- one part of a printed string (no line break inside): text and the content it stands for -/
inductive Seg : Bytes → Bytes → Prop
  | nil : Seg [] []
  | plain (c : UInt8) (t k : Bytes) : c ≠ 34 → c ≠ 92 → Seg t k → Seg (c :: t) (c :: k)
  | esc (e : UInt8) (t k : Bytes) : getEscapedChar e false ≠ 0 → Seg t k →
      Seg (92 :: e :: t) (getEscapedChar e false :: k)

/-- the text between the first opening and the last closing quote: parts joined by `breakText` -/
inductive StrBody : Bytes → Bytes → Prop
  | last (t k : Bytes) : Seg t k → StrBody t k
  | brk (t k t' k' : Bytes) : Seg t k → StrBody t' k' → StrBody (t ++ breakText ++ t') (k ++ k')

theorem StrBody.consPlain (c : UInt8) (t k : Bytes) (h34 : c ≠ 34) (h92 : c ≠ 92) (h : StrBody t k) :
    StrBody (c :: t) (c :: k) := by
  cases h with
  | last _ _ hs => exact .last _ _ (.plain c _ _ h34 h92 hs)
  | brk t1 k1 t2 k2 hs hb => exact .brk (c :: t1) (c :: k1) t2 k2 (.plain c _ _ h34 h92 hs) hb

theorem StrBody.consEsc (e : UInt8) (t k : Bytes) (hne : getEscapedChar e false ≠ 0) (h : StrBody t k) :
    StrBody (92 :: e :: t) (getEscapedChar e false :: k) := by
  cases h with
  | last _ _ hs => exact .last _ _ (.esc e _ _ hne hs)
  | brk t1 k1 t2 k2 hs hb => exact .brk (92 :: e :: t1) (_ :: k1) t2 k2 (.esc e _ _ hne hs) hb

theorem StrBody.consBrk (t k : Bytes) (h : StrBody t k) : StrBody (breakText ++ t) k :=
  .brk [] [] t k .nil h

/-! ### bytes -/

theorem strByte_facts (c : UInt8) (h : StrByteOK c) :
    c ≠ 0 ∧
    ((asEscapedChar c false = none ∧ c ≠ 34 ∧ c ≠ 92) ∨
     (asEscapedChar c false = some ((asEscapedChar c false).getD 0) ∧
      getEscapedChar ((asEscapedChar c false).getD 0) false = c)) := by
  unfold StrByteOK at h
  revert h; revert c; apply UInt8.forall_of_fin; decide +kernel

theorem sep_hd_str (rest : Bytes) (h : Sep rest) : hd rest ≠ 92 ∧ hd rest ≠ 83 := by
  rcases h.1 with h | h | h
  · subst h; decide
  · revert h; generalize hd rest = c; revert c; apply UInt8.forall_of_fin; decide +kernel
  · rw [h]; decide

theorem at?_one (c : UInt8) (r : Bytes) : at? (c :: r) 1 = some (hd r) := by
  cases r <;> simp [at?]

theorem skipFmt_cont (x : Bytes) :
    skipFmt fmtStrCont (34 :: 92 :: 10 :: 32 :: 32 :: 32 :: 32 :: 34 :: x) = 8 := by
  simp [skipFmt, scanRd, sscanf, fmtStrCont, sscanfGo, skipSpace, isspace]

/-! ### scanner -/

theorem scanStrPart_seg (t k : Bytes) (h : Seg t k) (r : Bytes) :
    ∀ fuel, t.length + 1 ≤ fuel → scanStrPart fuel (t ++ 34 :: r) = .ok (k, 34 :: r) := by
  induction h with
  | nil =>
    intro fuel hf
    obtain ⟨f, rfl⟩ : ∃ f, fuel = f + 1 := ⟨fuel - 1, by omega⟩
    simp [scanStrPart]
  | plain c t k h34 h92 _ ih =>
    intro fuel hf
    obtain ⟨f, rfl⟩ : ∃ f, fuel = f + 1 := ⟨fuel - 1, by omega⟩
    have := ih f (by simp at hf; omega)
    simp [scanStrPart, h34, h92, this, bind, Except.bind, pure, Except.pure]
  | esc e t k hne _ ih =>
    intro fuel hf
    obtain ⟨f, rfl⟩ : ∃ f, fuel = f + 1 := ⟨fuel - 1, by omega⟩
    have := ih f (by simp at hf; omega)
    simp [scanStrPart, this, bind, Except.bind, pure, Except.pure]

theorem scanStrParts_body (t k : Bytes) (h : StrBody t k) (r : Bytes) (hr : hd r ≠ 92) :
    ∀ fuel, t.length + 1 ≤ fuel → scanStrParts fuel (t ++ 34 :: r) = .ok (k, 34 :: r) := by
  induction h with
  | last t k hs =>
    intro fuel hf
    obtain ⟨f, rfl⟩ : ∃ f, fuel = f + 1 := ⟨fuel - 1, by omega⟩
    unfold scanStrParts
    rw [scanStrPart_seg t k hs r _ (by simp)]
    simp [bind, Except.bind, at?_one, hr, pure, Except.pure]
  | brk t k t' k' hs _ ih =>
    intro fuel hf
    obtain ⟨f, rfl⟩ : ∃ f, fuel = f + 1 := ⟨fuel - 1, by omega⟩
    have e1 : t ++ breakText ++ t' ++ 34 :: r =
        t ++ 34 :: (92 :: 10 :: 32 :: 32 :: 32 :: 32 :: 34 :: (t' ++ 34 :: r)) := by simp [breakText]
    have := ih f (by simp [breakText] at hf; omega)
    rw [e1]
    unfold scanStrParts
    rw [scanStrPart_seg t k hs _ _ (by simp)]
    simp [bind, Except.bind, at?_one, skipFmt_cont, this, pure, Except.pure]

theorem scanValue_quote (se : ElemScanner) (s : Bytes) (prev : List Cell) (h : hd s = 34) :
    scanValue se s prev = scanString s := by
  unfold scanValue
  simp [h]

theorem scanString_s (t k rest : Bytes) (h : StrBody t k) (hs : Sep rest) :
    scanString (34 :: t ++ 34 :: rest) = .ok ⟨rest, [Cell.str .s (some k)], true⟩ := by
  obtain ⟨h92, h83⟩ := sep_hd_str rest hs
  unfold scanString
  have := scanStrParts_body t k h rest h92 ((34 :: t ++ 34 :: rest).length + 1) (by simp; omega)
  simp only [List.cons_append, List.drop_succ_cons, List.drop_zero] at this ⊢
  rw [this]
  simp [bind, Except.bind, h83, pure, Except.pure]

theorem scanString_S (t k rest : Bytes) (h : StrBody t k) :
    scanString (34 :: t ++ 34 :: 83 :: rest) = .ok ⟨rest, [Cell.str .S (some k)], true⟩ := by
  unfold scanString
  have := scanStrParts_body t k h (83 :: rest) (by simp) ((34 :: t ++ 34 :: 83 :: rest).length + 1) (by simp; omega)
  simp only [List.cons_append, List.drop_succ_cons, List.drop_zero] at this ⊢
  rw [this]
  simp [bind, Except.bind, pure, Except.pure]

/-! ### checker -/

theorem strBody_seg (t k : Bytes) (h : Seg t k) (r : Bytes) :
    strBody (t ++ 34 :: r) false = some (34 :: r) := by
  induction h with
  | nil => simp [strBody]
  | plain c t k h34 h92 _ ih => simp [strBody, h34, h92, ih]
  | esc e t k hne _ ih => simp [strBody, hne, ih]

theorem eosLoop_body (t k : Bytes) (h : StrBody t k) (r : Bytes) (hr : hd r ≠ 92) :
    ∀ fuel, t.length + 1 ≤ fuel → eosLoop fuel (t ++ 34 :: r) = .ok (some r) := by
  induction h with
  | last t k hs =>
    intro fuel hf
    obtain ⟨f, rfl⟩ : ∃ f, fuel = f + 1 := ⟨fuel - 1, by omega⟩
    unfold eosLoop
    rw [strBody_seg t k hs r]
    simp [hr]
  | brk t k t' k' hs _ ih =>
    intro fuel hf
    obtain ⟨f, rfl⟩ : ∃ f, fuel = f + 1 := ⟨fuel - 1, by omega⟩
    have e1 : t ++ breakText ++ t' ++ 34 :: r =
        t ++ 34 :: (92 :: 10 :: 32 :: 32 :: 32 :: 32 :: 34 :: (t' ++ 34 :: r)) := by simp [breakText]
    have := ih f (by simp [breakText] at hf; omega)
    rw [e1]
    unfold eosLoop
    rw [strBody_seg t k hs _]
    simp [skipFmt_cont, this]

theorem skipValue_quote (sk : ArgSkipper) (s : Bytes) (ty : UInt8) (ib : Bool) (h : hd s = 34) :
    skipValue sk s ty ib = (do let r ← skipString s; pure (some r)) := by
  unfold skipValue
  simp [h]

theorem skipString_s (t k rest : Bytes) (h : StrBody t k) (hs : Sep rest) :
    skipString (34 :: t ++ 34 :: rest) = .ok ⟨some rest, 1, 115, 0⟩ := by
  obtain ⟨h92, h83⟩ := sep_hd_str rest hs
  unfold skipString endOfPrintedString
  have := eosLoop_body t k h rest h92 (34 :: t ++ 34 :: rest).length (by simp <;> omega)
  simp only [List.cons_append, List.drop_succ_cons, List.drop_zero] at this ⊢
  rw [this]
  simp [bind, Except.bind, h83, pure, Except.pure]

theorem skipString_S (t k rest : Bytes) (h : StrBody t k) :
    skipString (34 :: t ++ 34 :: 83 :: rest) = .ok ⟨some rest, 1, 83, 0⟩ := by
  unfold skipString endOfPrintedString
  have := eosLoop_body t k h (83 :: rest) (by simp) (34 :: t ++ 34 :: 83 :: rest).length (by simp <;> omega)
  simp only [List.cons_append, List.drop_succ_cons, List.drop_zero] at this ⊢
  rw [this]
  simp [bind, Except.bind, pure, Except.pure]

/-! ### the tokens -/

theorem tokStart_quote (t : Bytes) : TokStart (34 :: t) := by
  refine ⟨by simp, ?_, ?_, ?_, ?_, ?_, ?_, ?_⟩ <;> simp only [hd_cons] <;> decide

/-- **string token** (arbitrary line breaks): `"` body `"` reads back as the 's' value -/
theorem tokOK_string (t k : Bytes) (h : StrBody t k) :
    TokOK (34 :: t ++ [34]) (Cell.str .s (some k)) := by
  refine ⟨tokStart_quote _, ?_, ?_⟩
  · intro rest fuel prev ab hs
    apply scanArgVal_of_value _ _ _ _ _ _ hs
    have e : (34 :: t ++ [34]) ++ rest = 34 :: t ++ 34 :: rest := by simp
    rw [e, scanValue_quote _ _ _ (by simp)]
    exact scanString_s t k rest h hs
  · intro rest fuel ty llhs ib hs
    apply skipNext_of_value _ _ 115 0 _ _ _ _ hs
    have e : (34 :: t ++ [34]) ++ rest = 34 :: t ++ 34 :: rest := by simp
    rw [e, skipValue_quote _ _ _ _ (by simp), skipString_s t k rest h hs]
    rfl

/-- **quoted symbol token**: `"` body `"S` reads back as the 'S' value -/
theorem tokOK_symbol_quoted (t k : Bytes) (h : StrBody t k) :
    TokOK (34 :: t ++ [34, 83]) (Cell.str .S (some k)) := by
  refine ⟨tokStart_quote _, ?_, ?_⟩
  · intro rest fuel prev ab hs
    apply scanArgVal_of_value _ _ _ _ _ _ hs
    have e : (34 :: t ++ [34, 83]) ++ rest = 34 :: t ++ 34 :: 83 :: rest := by simp
    rw [e, scanValue_quote _ _ _ (by simp)]
    exact scanString_S t k rest h
  · intro rest fuel ty llhs ib hs
    apply skipNext_of_value _ _ 83 0 _ _ _ _ hs
    have e : (34 :: t ++ [34, 83]) ++ rest = 34 :: t ++ 34 :: 83 :: rest := by simp
    rw [e, skipValue_quote _ _ _ _ (by simp), skipString_S t k rest h]
    rfl

/-! ### printer -/

/-- the character loop (with quotes) appends a body that stands for `s` -/
theorem printStrChars_body (ll : Int) (s : Bytes) (h : ∀ b ∈ s, StrByteOK b) :
    ∀ st : PSt, ∃ body, (printStrChars false ll s st).out = st.out ++ body ∧ StrBody body s := by
  induction s with
  | nil => intro st; exact ⟨[], by simp [printStrChars], .last _ _ .nil⟩
  | cons c r ih =>
    intro st
    have ihr := ih (fun b hb => h b (by simp [hb]))
    obtain ⟨hc0, hc⟩ := strByte_facts c (h c (by simp))
    -- the optional break in front of the character
    have front : ∀ (st1 : PSt) (pre : Bytes), st1.out = st.out ++ pre → (pre = [] ∨ pre = breakText) →
        (∃ body, (match asEscapedChar c false with
          | some e =>
            let st2 : PSt := { out := st1.out ++ [92, e], cols := st1.cols + 2 }
            let st3 : PSt := if !false && e = 110 then { out := st2.out ++ breakText, cols := 5 } else st2
            printStrChars false ll r st3
          | none => printStrChars false ll r { out := st1.out ++ [c], cols := st1.cols + 1 }).out = st.out ++ body ∧
          StrBody body (c :: r)) := by
      intro st1 pre hout hpre
      have wrap : ∀ body, StrBody body (c :: r) → StrBody (pre ++ body) (c :: r) := by
        intro body hb
        rcases hpre with rfl | rfl
        · simpa using hb
        · exact hb.consBrk
      rcases hc with ⟨hnone, h34, h92⟩ | ⟨hsome, hget⟩
      · rw [hnone]
        obtain ⟨body, hb, hB⟩ := ihr { out := st1.out ++ [c], cols := st1.cols + 1 }
        refine ⟨pre ++ c :: body, ?_, wrap _ (hB.consPlain c _ _ h34 h92)⟩
        rw [hb]; simp [hout]
      · rw [hsome]
        generalize (asEscapedChar c false).getD 0 = e at hget
        have hne : getEscapedChar e false ≠ 0 := by rw [hget]; exact hc0
        by_cases h110 : e = 110
        · obtain ⟨body, hb, hB⟩ := ihr { out := st1.out ++ [92, e] ++ breakText, cols := 5 }
          refine ⟨pre ++ 92 :: e :: (breakText ++ body), ?_, wrap _ ?_⟩
          · simp only [h110, Bool.not_false, Bool.true_and, decide_true, ↓reduceIte] at hb ⊢
            rw [hb]; simp [hout]
          · have := hB.consBrk.consEsc e _ _ hne
            rwa [hget] at this
        · obtain ⟨body, hb, hB⟩ := ihr { out := st1.out ++ [92, e], cols := st1.cols + 2 }
          refine ⟨pre ++ 92 :: e :: body, ?_, wrap _ ?_⟩
          · simp only [h110, Bool.not_false, Bool.true_and, decide_false, Bool.false_eq_true, ↓reduceIte] at hb ⊢
            rw [hb]; simp [hout]
          · have := hB.consEsc e _ _ hne
            rwa [hget] at this
    unfold printStrChars
    by_cases hbrk : st.cols > ll - 3
    · simp only [Bool.not_false, Bool.true_and, hbrk, decide_true, ↓reduceIte]
      exact front { out := st.out ++ breakText, cols := 5 } breakText rfl (Or.inr rfl)
    · simp only [Bool.not_false, Bool.true_and, hbrk, decide_false, Bool.false_eq_true, ↓reduceIte]
      exact front st [] (by simp) (Or.inl rfl)

theorem takeWhile_ok (s : Bytes) (h : ∀ b ∈ s, StrByteOK b) : s.takeWhile (· ≠ 0) = s := by
  induction s with
  | nil => rfl
  | cons c r ih =>
    have := (strByte_facts c (h c (by simp))).1
    have hc : (decide (c ≠ 0)) = true := by simp [this]
    rw [List.takeWhile_cons, if_pos hc, ih (fun b hb => h b (by simp [hb]))]

/-- what `printArgVal` does for a string / symbol that is written in quotes -/
theorem printArgVal_str_quoted (fuel : Nat) (opt : POpt) (ty : Rtosc.ArgVal.StrTy) (s : Bytes)
    (h : ∀ b ∈ s, StrByteOK b) (hq : (ty == .S && symbolPlain s) = false)
    (more : List Cell) (prev : Option Cell) (st : PSt) :
    ∃ (body : Bytes) (cols' : Int), StrBody body s ∧
      printArgVal (fuel + 1) opt (Cell.str ty (some s) :: more) prev st =
        .ok (⟨st.out ++ (34 :: body ++ 34 :: (if ty == Rtosc.ArgVal.StrTy.S then [83] else [])), cols'⟩,
             (34 :: body ++ 34 :: (if ty == Rtosc.ArgVal.StrTy.S then [83] else [])).length) := by
  obtain ⟨body, hb, hB⟩ := printStrChars_body opt.linelength s h { out := st.out ++ [34], cols := st.cols + 1 }
  refine ⟨body, (printStrChars false opt.linelength s { out := st.out ++ [34], cols := st.cols + 1 }).cols + 1, hB, ?_⟩
  simp only [printArgVal, deref, bind, Except.bind, pure, Except.pure, takeWhile_ok s h, hq,
    Bool.false_eq_true, ↓reduceIte]
  rw [hb]
  simp

/-- a concrete instance: a break because the line is full and a break behind `\n` -/
example : (printStrChars false 10 [97, 10, 98] ⟨[], 9⟩).out = breakText ++ [97, 92, 110] ++ breakText ++ [98] := by
  decide +kernel

/-- 's': a quoted string with escapes, broken into `"…"\` newline `    "…"` pieces at any line length -/
theorem printsTok_string (opt : POpt) (s : Bytes) (h : ∀ b ∈ s, StrByteOK b) :
    PrintsTok opt (Cell.str .s (some s)) := by
  intro fuel more prev st
  obtain ⟨body, cols', hB, hp⟩ := printArgVal_str_quoted fuel opt .s s h (by simp) more prev st
  exact ⟨34 :: body ++ [34], cols', by simpa using hp, tokOK_string body s hB⟩

/-- 'S' that needs quotes: the same text followed by `S` -/
theorem printsTok_symbol_quoted (opt : POpt) (s : Bytes) (h : ∀ b ∈ s, StrByteOK b)
    (hq : symbolPlain s = false) : PrintsTok opt (Cell.str .S (some s)) := by
  intro fuel more prev st
  obtain ⟨body, cols', hB, hp⟩ := printArgVal_str_quoted fuel opt .S s h (by simp [hq]) more prev st
  exact ⟨34 :: body ++ [34, 83], cols', by simpa using hp, tokOK_symbol_quoted body s hB⟩

end Rtosc.Pretty
