/-
  C20 (extension) — the message a callback writes, read back from what is EMITTED (the `int`, or the
  32 bits of the `float`): type, range and monotonicity for every well-formed port, the special case
  0..127 included.  `Val.scaled` is the exact value of the argument times 2^149.
-/
import RtoscModel.Proofs.MidiExtSys
import RtoscModel.Proofs.MidiExtBits
set_option linter.unusedSimpArgs false
namespace Rtosc.Midi

/-- the exact value of a message argument, times `2^149` (`float`: decoded from its bit pattern) -/
def Val.scaled : Val → Int
  | .int v => v * 2 ^ 149
  | .flt bits => f32Scaled bits

def Val.isInt : Val → Bool
  | .int _ => true
  | .flt _ => false

/-- an `int` always is a number; a `float` is one when its pattern is neither infinity nor NaN -/
def Val.finite : Val → Prop
  | .int _ => True
  | .flt bits => f32Finite bits

/-- the ports the property quantifies over: `min ≤ max`, both multiples of 1/8 with `|·| ≤ 2^20`; an
    `i` port has integral bounds -/
def PortOk (p : PortSpec) : Prop :=
  p.min8 ≤ p.max8 ∧ -8388608 ≤ p.min8 ∧ p.max8 ≤ 8388608 ∧ (p.isInt = true → 8 ∣ p.min8 ∧ 8 ∣ p.max8)

instance (p : PortSpec) : Decidable (PortOk p) := by unfold PortOk; infer_instance

theorem pow146 : (2 : Int) ^ 146 = 16384 * 2 ^ 132 := by decide
theorem pow149 : (2 : Int) ^ 149 = 131072 * 2 ^ 132 := by decide
theorem pow132_nonneg : (0 : Int) ≤ 2 ^ 132 := by decide

theorem scale132 {a b : Int} (h : a ≤ b) : a * 2 ^ 132 ≤ b * 2 ^ 132 :=
  Int.mul_le_mul_of_nonneg_right h pow132_nonneg

theorem bijNum_bitLen' {mn mx : Int} {x : Nat} (h : mn ≤ mx) (hx : x ≤ 16384) (h1 : -8388608 ≤ mn)
    (h2 : mx ≤ 8388608) : bitLen (bijNum mn mx x).natAbs ≤ 38 := by
  obtain ⟨a, b⟩ := bijNum_range h hx
  rw [bitLen_le_iff]
  have : (2 : Nat) ^ 38 = 274877906944 := by decide
  omega

theorem fire_special (c : Cb) (x : Nat) (h : c.min8 = 0 ∧ c.max8 = 127 * 8 ∧ c.isInt = true) (hx : x < 16384) :
    c.fire x = ⟨c.addr, .int ((x / 128 : Nat) : Int)⟩ := by
  unfold Cb.fire; rw [if_pos h, special_eq x hx]

theorem fire_int (c : Cb) (x : Nat) (h : ¬(c.min8 = 0 ∧ c.max8 = 127 * 8 ∧ c.isInt = true)) (hi : c.isInt = true) :
    c.fire x = ⟨c.addr, .int (truncF32OfDyadic (bijNum c.min8 c.max8 x) 17)⟩ := by
  unfold Cb.fire; rw [if_neg h, if_pos hi]

theorem fire_flt (c : Cb) (x : Nat) (h : ¬(c.min8 = 0 ∧ c.max8 = 127 * 8 ∧ c.isInt = true)) (hi : ¬ c.isInt = true) :
    c.fire x = ⟨c.addr, .flt (f32OfDyadic (bijNum c.min8 c.max8 x) 17)⟩ := by
  unfold Cb.fire; rw [if_neg h, if_neg hi]

/-- **The emitted argument**: for a well-formed port and 14-bit values `x ≤ y` the message written for
    `x` goes to the port's address, has the port's type, is a finite number within `[min, max]`
    (`min = min8/8`, so `min * 2^149 = min8 * 2^146`) and is not larger than the one written for `y`. -/
theorem fire_in_range_monotone (a : Nat) {p : PortSpec} (hp : PortOk p) {x y : Nat} (hx : x < 16384)
    (hy : y < 16384) (hxy : x ≤ y) :
    ((portCb a p).fire x).addr = a ∧ ((portCb a p).fire x).val.isInt = p.isInt ∧
    ((portCb a p).fire x).val.finite ∧
    p.min8 * 2 ^ 146 ≤ ((portCb a p).fire x).val.scaled ∧
    ((portCb a p).fire x).val.scaled ≤ p.max8 * 2 ^ 146 ∧
    ((portCb a p).fire x).val.scaled ≤ ((portCb a p).fire y).val.scaled := by
  obtain ⟨hmm, hlo, hhi, hint⟩ := hp
  refine ⟨Cb.fire_addr _ _, ?_⟩
  rw [pow146]
  by_cases hsp : p.min8 = 0 ∧ p.max8 = 127 * 8 ∧ p.isInt = true
  · -- the special case: the upper seven bits
    obtain ⟨h1, h2, h3⟩ := hsp
    have ex : (portCb a p).fire x = ⟨a, .int ((x / 128 : Nat) : Int)⟩ :=
      fire_special (portCb a p) x ⟨h1, h2, h3⟩ hx
    have ey : (portCb a p).fire y = ⟨a, .int ((y / 128 : Nat) : Int)⟩ :=
      fire_special (portCb a p) y ⟨h1, h2, h3⟩ hy
    have hd : x / 128 ≤ y / 128 := Nat.div_le_div_right hxy
    rw [ex, ey]
    simp only [Val.isInt, Val.finite, Val.scaled, h3, h1, h2, pow149]
    refine ⟨trivial, trivial, ?_, ?_, ?_⟩
    · rw [← Int.mul_assoc, ← Int.mul_assoc, Int.mul_comm _ 131072]; exact scale132 (by omega)
    · rw [← Int.mul_assoc, ← Int.mul_assoc, Int.mul_comm _ 131072]; exact scale132 (by omega)
    · rw [← Int.mul_assoc, ← Int.mul_assoc, Int.mul_comm _ 131072, Int.mul_comm _ 131072]
      exact scale132 (by omega)
  · by_cases hi : p.isInt = true
    · -- an `i` port: truncation of the rounded value, integral bounds
      obtain ⟨⟨lo, hlo'⟩, ⟨hi', hhi'⟩⟩ := hint hi
      have ex : (portCb a p).fire x = ⟨a, .int (truncF32OfDyadic (bijNum p.min8 p.max8 x) 17)⟩ :=
        fire_int (portCb a p) x hsp hi
      have ey : (portCb a p).fire y = ⟨a, .int (truncF32OfDyadic (bijNum p.min8 p.max8 y) 17)⟩ :=
        fire_int (portCb a p) y hsp hi
      obtain ⟨r1, r2⟩ := bijNum_range hmm (x := x) (by omega)
      have hb := bijNum_bitLen' hmm (x := x) (by omega) hlo hhi
      have p17 : (2 : Int) ^ 17 = 131072 := by decide
      obtain ⟨q1, q2⟩ := truncF32OfDyadic_range (num := bijNum p.min8 p.max8 x) (lo := lo) (hi := hi')
        (e := 17) (by omega) (by omega) (by omega)
      have qm := truncF32OfDyadic_mono 17 (bijNum_mono hmm hxy)
      rw [ex, ey]
      simp only [Val.isInt, Val.finite, Val.scaled, hi, pow149]
      refine ⟨trivial, trivial, ?_, ?_, ?_⟩
      · rw [← Int.mul_assoc, ← Int.mul_assoc, Int.mul_comm _ 131072]; exact scale132 (by omega)
      · rw [← Int.mul_assoc, ← Int.mul_assoc, Int.mul_comm _ 131072]; exact scale132 (by omega)
      · rw [← Int.mul_assoc, ← Int.mul_assoc, Int.mul_comm _ 131072, Int.mul_comm _ 131072]
        exact scale132 (by omega)
    · -- an `f` port: the bit pattern denotes the rounded value
      have hif : p.isInt = false := by simpa using hi
      have ex : (portCb a p).fire x = ⟨a, .flt (f32OfDyadic (bijNum p.min8 p.max8 x) 17)⟩ :=
        fire_flt (portCb a p) x hsp hi
      have ey : (portCb a p).fire y = ⟨a, .flt (f32OfDyadic (bijNum p.min8 p.max8 y) 17)⟩ :=
        fire_flt (portCb a p) y hsp hi
      obtain ⟨r1, r2⟩ := bijNum_range hmm (x := x) (by omega)
      have hbx := bijNum_bitLen' hmm (x := x) (by omega) hlo hhi
      have hby := bijNum_bitLen' hmm (x := y) (by omega) hlo hhi
      obtain ⟨sx, fx⟩ := f32OfDyadic_scaled (num := bijNum p.min8 p.max8 x) (e := 17) (by decide) (by omega)
      obtain ⟨sy, _⟩ := f32OfDyadic_scaled (num := bijNum p.min8 p.max8 y) (e := 17) (by decide) (by omega)
      have p14 : (2 : Int) ^ 14 = 16384 := by decide
      obtain ⟨q1, q2⟩ := rndZ_range (num := bijNum p.min8 p.max8 x) (lo := p.min8) (hi := p.max8) (t := 14)
        (by omega) (by omega) (by omega)
      have qm := rndZ_mono (bijNum_mono hmm hxy)
      rw [ex, ey]
      simp only [Val.isInt, Val.finite, Val.scaled, hif, sx, sy]
      refine ⟨trivial, fx, ?_, ?_, scale132 qm⟩
      · rw [← Int.mul_assoc]; exact scale132 (by omega)
      · rw [← Int.mul_assoc]; exact scale132 (by omega)

/-- **What the statement says about one incoming controller value**, as a predicate of the history `h`
    (most recent step first) that led to the state `s` in which controller `id` says `val`, and of the
    messages `out` that reach the backend:
    * a controller bound to nothing produces no message;
    * a controller bound to `(a, k)` (address, coarse/fine) produces EXACTLY ONE message, the one the port
      at `a` writes for the 14-bit value with `val` in the controller's half and `o` in the other half,
      where `o` is the LAST value (`lastVals`) of the controller bound to the other half of `a`, 0 when
      there is none;
    * for this `o` the message written for ANY 7-bit value `v` goes to `a`, has the port's type, is a
      finite number within `[min, max]`, and does not decrease when `v` grows. -/
def EmitsComposed (P : List PortSpec) (h : List (Sys × Op)) (s : Sys) (id val : Nat) (out : List Msg) : Prop :=
  (s.rt.binding id = none → out = []) ∧
  ∀ a k, s.rt.binding id = some (a, k) →
    ∃ p o, P[a]? = some p ∧ o < 128 ∧
      (∀ id', s.rt.binding id' = some (a, !k) → o = lastVals h id') ∧
      ((∀ id', s.rt.binding id' ≠ some (a, !k)) → o = 0) ∧
      out = [(portCb a p).fire (compose14 k val o)] ∧
      ∀ v v', v ≤ v' → v' ≤ 127 →
        ((portCb a p).fire (compose14 k v o)).addr = a ∧
        ((portCb a p).fire (compose14 k v o)).val.isInt = p.isInt ∧
        ((portCb a p).fire (compose14 k v o)).val.finite ∧
        p.min8 * 2 ^ 146 ≤ ((portCb a p).fire (compose14 k v o)).val.scaled ∧
        ((portCb a p).fire (compose14 k v o)).val.scaled ≤ p.max8 * 2 ^ 146 ∧
        ((portCb a p).fire (compose14 k v o)).val.scaled ≤ ((portCb a p).fire (compose14 k v' o)).val.scaled

theorem emitsComposed_of_trace {P : List PortSpec} {h s} (hP : ∀ p ∈ P, PortOk p) (t : Trace P h s)
    (hf : HazardFree h) {id val s' out} (hv : val ≤ 127) (hs : step P s (.cc id val) = some (s', out)) :
    EmitsComposed P h s id val out := by
  obtain ⟨h1, h2⟩ := cc_emits_composed t hf hv hs
  refine ⟨h1, ?_⟩
  intro a k hb
  obtain ⟨p, o, hp, ho, c1, c2, hout⟩ := h2 a k hb
  refine ⟨p, o, hp, ho, c1, c2, hout, ?_⟩
  intro v v' hvv hv'
  exact fire_in_range_monotone a (hP p (List.mem_of_getElem? hp))
    (compose14_lt (by omega) ho) (compose14_lt hv' ho) (compose14_mono hvv (Nat.le_refl o))

end Rtosc.Midi
