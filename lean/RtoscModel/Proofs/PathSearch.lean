/-
  C18 — helper lemmas for `path_search` (model: RtoscModel/Path/Search.lean).
-/
import RtoscModel.Path.Search
import RtoscModel.Proofs.PathCollapse
namespace Rtosc.Path
open Rtosc

/-! ### `strcmp` order -/

theorem u8_lt_irrefl (a : UInt8) : ¬ a < a := by
  rw [UInt8.lt_iff_toNat_lt]; omega

theorem u8_eq_of_not_lt {a b : UInt8} (h1 : ¬ a < b) (h2 : ¬ b < a) : a = b := by
  rw [UInt8.lt_iff_toNat_lt] at h1 h2
  exact UInt8.toNat_inj.mp (by omega)

theorem strLt_irrefl : ∀ a : Bytes, strLt a a = false
  | [] => rfl
  | a :: r => by simp [strLt, u8_lt_irrefl, strLt_irrefl r]

theorem strLt_trans : ∀ a b c : Bytes, strLt a b = true → strLt b c = true → strLt a c = true
  | [], [], _, h, _ => by simp [strLt] at h
  | [], _ :: _, [], _, h => by simp [strLt] at h
  | [], _ :: _, _ :: _, _, _ => by simp [strLt]
  | _ :: _, [], _, h, _ => by simp [strLt] at h
  | _ :: _, _ :: _, [], _, h => by simp [strLt] at h
  | a :: as, b :: bs, c :: cs, h1, h2 => by
    simp only [strLt] at h1 h2 ⊢
    simp only [UInt8.lt_iff_toNat_lt] at *
    by_cases hab : a.toNat < b.toNat
    · by_cases hbc : b.toNat < c.toNat
      · simp [show a.toNat < c.toNat by omega]
      · by_cases hcb : c.toNat < b.toNat
        · simp [hbc, hcb] at h2
        · have : b.toNat = c.toNat := by omega
          simp [show a.toNat < c.toNat by omega]
    · by_cases hba : b.toNat < a.toNat
      · simp [hab, hba] at h1
      · simp only [hab, hba, ↓reduceIte] at h1
        have hab' : a.toNat = b.toNat := by omega
        by_cases hbc : b.toNat < c.toNat
        · simp [show a.toNat < c.toNat by omega]
        · by_cases hcb : c.toNat < b.toNat
          · simp [hbc, hcb] at h2
          · simp only [hbc, hcb, ↓reduceIte] at h2
            simp only [show ¬ a.toNat < c.toNat by omega, show ¬ c.toNat < a.toNat by omega, ↓reduceIte]
            exact strLt_trans as bs cs h1 h2

theorem strLt_negTrans : ∀ a b c : Bytes, strLt a b = false → strLt b c = false → strLt a c = false
  | [], [], _, _, h => h
  | [], _ :: _, _, h, _ => by simp [strLt] at h
  | _ :: _, [], [], _, _ => by simp [strLt]
  | _ :: _, [], _ :: _, _, h => by simp [strLt] at h
  | _ :: _, _ :: _, [], _, _ => by simp [strLt]
  | a :: as, b :: bs, c :: cs, h1, h2 => by
    simp only [strLt] at h1 h2 ⊢
    simp only [UInt8.lt_iff_toNat_lt] at *
    by_cases hab : a.toNat < b.toNat
    · simp [hab] at h1
    · simp only [hab, ↓reduceIte] at h1
      by_cases hbc : b.toNat < c.toNat
      · simp [hbc] at h2
      · simp only [hbc, ↓reduceIte] at h2
        by_cases hba : b.toNat < a.toNat
        · simp [show ¬ a.toNat < c.toNat by omega, show c.toNat < a.toNat by omega]
        · simp only [hba, ↓reduceIte] at h1
          by_cases hcb : c.toNat < b.toNat
          · simp [show ¬ a.toNat < c.toNat by omega, show c.toNat < a.toNat by omega]
          · simp only [hcb, ↓reduceIte] at h2
            simp only [show ¬ a.toNat < c.toNat by omega, show ¬ c.toNat < a.toNat by omega, ↓reduceIte]
            exact strLt_negTrans as bs cs h1 h2

/-- `strcmp` is a total order on strings: neither smaller means equal -/
theorem strLt_antisymm : ∀ a b : Bytes, strLt a b = false → strLt b a = false → a = b
  | [], [], _, _ => rfl
  | [], _ :: _, h, _ => by simp [strLt] at h
  | _ :: _, [], _, h => by simp [strLt] at h
  | a :: as, b :: bs, h1, h2 => by
    simp only [strLt] at h1 h2
    by_cases hab : a < b
    · simp [hab] at h1
    · by_cases hba : b < a
      · simp [hba] at h2
      · have : a = b := u8_eq_of_not_lt hab hba
        subst this
        simp only [u8_lt_irrefl, ↓reduceIte] at h1 h2
        rw [strLt_antisymm as bs h1 h2]

theorem pairLt_strictWeak : StrictWeak pairLt :=
  ⟨fun a => strLt_irrefl a.1, fun a b c => strLt_trans a.1 b.1 c.1, fun a b c => strLt_negTrans a.1 b.1 c.1⟩

theorem markedLt_strictWeak : StrictWeak markedLt := by
  refine ⟨?_, ?_, ?_⟩
  · intro a; cases h : a.1 <;> simp [markedLt, h, strLt_irrefl]
  · intro a b c
    unfold markedLt
    cases a.1 <;> cases b.1 <;> cases c.1 <;> simp
    exact strLt_trans _ _ _
  · intro a b c
    unfold markedLt
    cases a.1 <;> cases b.1 <;> cases c.1 <;> simp
    exact strLt_negTrans _ _ _

/-- a proper prefix sorts first -/
theorem strLt_of_proper_prefix : ∀ d e : Bytes, d <+: e → d.length < e.length → strLt d e = true
  | [], [], _, h => by simp at h
  | [], _ :: _, _, _ => rfl
  | _ :: _, [], h, _ => by simp at h
  | a :: d, b :: e, h, hl => by
    obtain ⟨rfl, h'⟩ := List.cons_prefix_cons.mp h
    simp only [strLt, u8_lt_irrefl, ↓reduceIte]
    exact strLt_of_proper_prefix d e h' (by simpa using hl)

/-- strings with a common prefix are contiguous in the order -/
theorem prefix_between : ∀ p c e : Bytes, strLt c p = false → strLt e c = false → p <+: e → p <+: c
  | [], _, _, _, _, _ => List.nil_prefix
  | _ :: _, _, [], _, _, h => by simp at h
  | _ :: _, [], _ :: _, h, _, _ => by simp [strLt] at h
  | a :: p, b :: c, x :: e, h1, h2, h3 => by
    obtain ⟨rfl, h3'⟩ := List.cons_prefix_cons.mp h3
    simp only [strLt] at h1 h2
    by_cases hba : b < a
    · simp [hba] at h1
    · by_cases hab : a < b
      · simp [hab] at h2
      · have : a = b := u8_eq_of_not_lt hab hba
        subst this
        simp only [u8_lt_irrefl, ↓reduceIte] at h1 h2
        exact List.cons_prefix_cons.mpr ⟨rfl, prefix_between p c e h1 h2 h3'⟩

/-! ### the marking pass -/

theorem below_iff (all : List Bytes) (e : Bytes) :
    below all e = true ↔ ∃ d ∈ all, d.getLast? = some SLASH ∧ d.length < e.length ∧ d <+: e := by
  simp [below, List.any_eq_true]

/-- every earlier `name/` entry that could cover a later name is represented by `prev` -/
def Cov (E : List Bytes) (prev : Bytes) : Prop :=
  ∀ d ∈ E, d.getLast? = some SLASH → ∀ e : Bytes, strLt e prev = false → d.length < e.length → d <+: e →
    prev.getLast? = some SLASH ∧ prev.length < e.length ∧ prev <+: e

/-- what the pass turns an entry into -/
def markOf (all : List Bytes) (e : Pair) : Marked :=
  (if below all e.1 then none else some e.1, e.2)

theorem markLoop_spec : ∀ (rest : List Pair) (E : List Bytes) (prev : Bytes),
    prev ≠ [] → (∀ e ∈ rest, e.1 ≠ []) → prev ∈ E → Cov E prev →
    (∀ e ∈ rest, strLt e.1 prev = false) → rest.Pairwise (fun a b => strLt b.1 a.1 = false) →
    markLoop prev rest = some (rest.map (markOf (E ++ rest.map (·.1)))) := by
  intro rest
  induction rest with
  | nil => intro E prev _ _ _ _ _ _; simp [markLoop]
  | cons cur rest' ih =>
    intro E prev hprev hne hmem hcov hge hsorted
    obtain ⟨cname, cblob⟩ := cur
    have hcur_ne : cname ≠ [] := hne (cname, cblob) List.mem_cons_self
    have hne' : ∀ e ∈ rest', e.1 ≠ [] := fun e he => hne e (List.mem_cons_of_mem _ he)
    have hcge : strLt cname prev = false := hge (cname, cblob) List.mem_cons_self
    have hge' : ∀ e ∈ rest', strLt e.1 prev = false := fun e he => hge e (List.mem_cons_of_mem _ he)
    obtain ⟨hcur_le, hsorted'⟩ := List.pairwise_cons.mp hsorted
    have hcur_le' : ∀ e ∈ rest', strLt e.1 cname = false := fun e he => hcur_le e he
    -- the list `below` looks at does not change along the way
    have hall : E ++ List.map (·.1) ((cname, cblob) :: rest') = (E ++ [cname]) ++ rest'.map (·.1) := by simp
    -- the decision taken by the code is the specification's
    have hK : below (E ++ List.map (·.1) ((cname, cblob) :: rest')) cname = true ↔
        ((prev.length < cname.length ∧ cname.take prev.length = prev) ∧ prev.getLast? = some SLASH) := by
      rw [below_iff]
      constructor
      · rintro ⟨d, hd, hs, hl, hp⟩
        simp only [List.map_cons, List.mem_append, List.mem_cons, List.mem_map] at hd
        rcases hd with hd | rfl | ⟨x, hx, rfl⟩
        · obtain ⟨h1, h2, h3⟩ := hcov d hd hs cname hcge hl hp
          exact ⟨⟨h2, (List.prefix_iff_eq_take.mp h3).symm⟩, h1⟩
        · omega
        · have := strLt_of_proper_prefix x.1 cname hp hl
          rw [hcur_le' x hx] at this; cases this
      · rintro ⟨⟨h2, h3⟩, h1⟩
        exact ⟨prev, by simp [hmem], h1, h2, List.prefix_iff_eq_take.mpr h3.symm⟩
    have hkeep : ¬ ((prev.length < cname.length ∧ cname.take prev.length = prev) ∧ prev.getLast? = some SLASH) →
        (markLoop cname rest').map ((some cname, cblob) :: ·) =
          some (List.map (markOf (E ++ List.map (·.1) ((cname, cblob) :: rest'))) ((cname, cblob) :: rest')) := by
      intro hnot
      have hb : below (E ++ List.map (·.1) ((cname, cblob) :: rest')) cname = false := by
        cases hbb : below (E ++ List.map (·.1) ((cname, cblob) :: rest')) cname with
        | false => rfl
        | true => exact absurd (hK.mp hbb) hnot
      have hcov' : Cov (E ++ [cname]) cname := by
        intro d hd hs e he hl hp
        simp only [List.mem_append, List.mem_cons, List.not_mem_nil, or_false] at hd
        rcases hd with hd | rfl
        · have he' : strLt e prev = false := strLt_negTrans e cname prev he hcge
          obtain ⟨h1, h2, h3⟩ := hcov d hd hs e he' hl hp
          have hpc : prev <+: cname := prefix_between prev cname e hcge he h3
          have hlen : ¬ prev.length < cname.length := by
            intro hlt
            exact hnot ⟨⟨hlt, (List.prefix_iff_eq_take.mp hpc).symm⟩, h1⟩
          have heq : prev = cname := hpc.eq_of_length_le (by omega)
          subst heq
          exact ⟨h1, h2, h3⟩
        · exact ⟨hs, hl, hp⟩
      rw [ih (E ++ [cname]) cname hcur_ne hne' (by simp) hcov' hcur_le' hsorted', ← hall]
      simp only [List.map_cons] at hb
      simp [markOf, hb]
    rw [markLoop]
    by_cases hcond : prev.length < cname.length ∧ cname.take prev.length = prev
    · rw [if_pos hcond]
      cases hl : prev.getLast? with
      | none => exact absurd (List.getLast?_eq_none_iff.mp hl) hprev
      | some c =>
        simp only
        by_cases hc : c = SLASH
        · subst hc
          simp only [↓reduceIte]
          have hb := hK.mpr ⟨hcond, hl⟩
          have hcov' : Cov (E ++ [cname]) prev := by
            intro d hd hs e he hl2 hp
            simp only [List.mem_append, List.mem_cons, List.not_mem_nil, or_false] at hd
            rcases hd with hd | rfl
            · exact hcov d hd hs e he hl2 hp
            · have hpc : prev <+: d := List.prefix_iff_eq_take.mpr hcond.2.symm
              exact ⟨hl, by omega, hpc.trans hp⟩
          rw [ih (E ++ [cname]) prev hprev hne' (by simp [hmem]) hcov' hge' hsorted', ← hall]
          simp only [List.map_cons] at hb
          simp [markOf, hb]
        · simp only [hc, ↓reduceIte]
          exact hkeep (fun h => hc (by have := h.2; rw [hl] at this; exact Option.some.inj this))
    · rw [if_neg hcond]
      exact hkeep (fun h => hcond h.1)

theorem markAll_spec (l : List Pair) (hne : ∀ e ∈ l, e.1 ≠ [])
    (hsorted : l.Pairwise (fun a b => strLt b.1 a.1 = false)) :
    markAll l = some (l.map (markOf (l.map (·.1)))) := by
  cases l with
  | nil => simp [markAll]
  | cons first rest =>
    obtain ⟨fname, fblob⟩ := first
    obtain ⟨hle, hs'⟩ := List.pairwise_cons.mp hsorted
    have hcov : Cov [fname] fname := by
      intro d hd hs e _ hl hp
      simp only [List.mem_cons, List.not_mem_nil, or_false] at hd
      subst hd
      exact ⟨hs, hl, hp⟩
    have hb : below (List.map (·.1) ((fname, fblob) :: rest)) fname = false := by
      cases hbb : below (List.map (·.1) ((fname, fblob) :: rest)) fname with
      | false => rfl
      | true =>
        obtain ⟨d, hd, _, hl, hp⟩ := (below_iff _ _).mp hbb
        simp only [List.map_cons, List.mem_cons, List.mem_map] at hd
        rcases hd with rfl | ⟨x, hx, rfl⟩
        · omega
        · have := strLt_of_proper_prefix x.1 fname hp hl
          rw [hle x hx] at this; cases this
    rw [markAll, markLoop_spec rest [fname] fname (hne _ List.mem_cons_self)
      (fun e he => hne e (List.mem_cons_of_mem _ he)) (by simp) hcov (fun e he => hle e he) hs']
    simp only [List.map_cons] at hb
    simp [markOf, hb]

/-! ### collection -/

theorem lenScan_block : ∀ (l : Bytes) (prev : UInt8), EndsAtDoubleNul prev l →
    Meta.lenScan prev l = some (l.length - 1)
  | [], _, h => by simp [EndsAtDoubleNul] at h
  | c :: r, prev, h => by
    rw [EndsAtDoubleNul] at h
    rw [Meta.lenScan]
    by_cases hz : prev = 0 ∧ c = 0
    · rw [if_pos hz] at h
      subst h
      simp [hz.1, hz.2]
    · rw [if_neg hz] at h
      have hr : r ≠ [] := by rintro rfl; simp [EndsAtDoubleNul] at h
      have : prev ≠ 0 ∨ c ≠ 0 := by
        by_cases hp : prev = 0
        · exact Or.inr (fun hc => hz ⟨hp, hc⟩)
        · exact Or.inl hp
      rw [if_pos this, lenScan_block r c h]
      have : 0 < r.length := List.length_pos_iff.mpr hr
      simp; omega

/-- a blob whose length field is exactly the size of the block behind its pointer -/
def BlobOK (b : Blob) : Prop :=
  match b.data with
  | none => b.len = 0
  | some d => b.len = d.length

theorem collectOne_spec (needle : Bytes) (p : PortT) (hm : MetaOK p) :
    ∃ found, collectOne needle p = some found ∧
      found.map Pair.view = childrenSpec [p] needle ∧
      (∀ e ∈ found, e.1 = p.name ∧ BlobOK e.2 ∧ e.2.len ≤ (p.metadata.getD []).length) := by
  unfold collectOne childrenSpec
  by_cases hn : needle.isPrefixOf p.name = true
  · simp only [hn, ↓reduceIte, List.filter_cons_of_pos, List.filter_nil, List.map_cons, List.map_nil]
    unfold MetaOK at hm
    unfold metaBytes
    cases hmd : p.metadata with
    | none => exact ⟨_, rfl, by simp [Pair.view, Blob.bytes], by simp [BlobOK]⟩
    | some b =>
      rw [hmd] at hm
      cases b with
      | nil => exact absurd hm (by simp)
      | cons c r =>
        simp only at hm ⊢
        by_cases hc : c = 0
        · simp only [hc, ↓reduceIte]
          exact ⟨_, rfl, by simp [Pair.view, Blob.bytes], by simp [BlobOK]⟩
        · have hb : EndsAtDoubleNul 0 (c :: r) := hm.resolve_left hc
          have hlen : Meta.length (some (c :: r)) = some ((c :: r).length + 1) := by
            simp only [Meta.length, hc, ↓reduceIte, lenScan_block _ _ hb, Option.map_some]
            simp
          simp only [hc, ↓reduceIte, hlen]
          refine ⟨_, rfl, ?_, ?_⟩
          · simp [Pair.view, Blob.bytes]
          · simp [BlobOK]
  · simp only [hn, Bool.false_eq_true, ↓reduceIte]
    exact ⟨[], rfl, by simp [hn], by simp⟩

theorem childrenSpec_cons (p : PortT) (rows : List PortT) (needle : Bytes) :
    childrenSpec (p :: rows) needle = childrenSpec [p] needle ++ childrenSpec rows needle := by
  unfold childrenSpec
  rw [show p :: rows = [p] ++ rows from rfl, List.filter_append, List.map_append]

theorem collect_spec (needle : Bytes) : ∀ (rows : List PortT), (∀ p ∈ rows, MetaOK p) →
    ∃ found, collect needle rows = some found ∧
      found.map Pair.view = childrenSpec rows needle ∧
      (∀ e ∈ found, (∃ p ∈ rows, e.1 = p.name ∧ e.2.len ≤ (p.metadata.getD []).length) ∧ BlobOK e.2)
  | [], _ => ⟨[], rfl, rfl, by simp⟩
  | p :: rows, hm => by
    obtain ⟨f1, h1, h2, h3⟩ := collectOne_spec needle p (hm p List.mem_cons_self)
    obtain ⟨f2, g1, g2, g3⟩ := collect_spec needle rows (fun q hq => hm q (List.mem_cons_of_mem _ hq))
    refine ⟨f1 ++ f2, by simp [collect, h1, g1], ?_, ?_⟩
    · rw [List.map_append, h2, g2, ← childrenSpec_cons]
    · intro e he
      rcases List.mem_append.mp he with he | he
      · exact ⟨⟨p, List.mem_cons_self, (h3 e he).1, (h3 e he).2.2⟩, (h3 e he).2.1⟩
      · obtain ⟨⟨q, hq, hqe⟩, hb⟩ := g3 e he
        exact ⟨⟨q, List.mem_cons_of_mem _ hq, hqe⟩, hb⟩

/-! ### the second sort and the cut -/

def toPair (m : Marked) : Option Pair := m.1.map (·, m.2)

theorem filter_len_compl {α} (p : α → Bool) : ∀ l : List α,
    (l.filter p).length + (l.filter (fun x => !p x)).length = l.length
  | [] => rfl
  | a :: r => by
    have := filter_len_compl p r
    by_cases h : p a <;> simp [List.filter_cons, h] <;> omega

theorem cut_spec : ∀ (L : List Marked), L.Pairwise (fun a b => markedLt b a = false) →
    unmark (L.take (L.filter (·.1.isSome)).length) = some (L.filterMap toPair)
  | [], _ => rfl
  | (none, b) :: r, h => by
    obtain ⟨h1, _⟩ := List.pairwise_cons.mp h
    have hall : ∀ x ∈ (none, b) :: r, x.1 = none := by
      intro x hx
      rcases List.mem_cons.mp hx with rfl | hx
      · rfl
      · have := h1 x hx
        cases hx1 : x.1 with
        | none => rfl
        | some y => simp [markedLt, hx1] at this
    have hf : ((none, b) :: r).filter (·.1.isSome) = [] := by
      rw [List.filter_eq_nil_iff]; intro x hx; simp [hall x hx]
    have hm : ((none, b) :: r).filterMap toPair = [] := by
      rw [List.filterMap_eq_nil_iff]; intro x hx; simp [toPair, hall x hx]
    rw [hf, hm]; rfl
  | (some n, b) :: r, h => by
    obtain ⟨_, h2⟩ := List.pairwise_cons.mp h
    have ih := cut_spec r h2
    have e1 : ((some n, b) :: r).filter (·.1.isSome) = (some n, b) :: r.filter (·.1.isSome) := by
      rw [List.filter_cons]; simp
    have e2 : ((some n, b) :: r).filterMap toPair = (n, b) :: r.filterMap toPair := by
      rw [List.filterMap_cons]; simp [toPair]
    rw [e1, e2, List.length_cons, List.take_succ_cons, unmark, ih]; rfl

theorem filterMap_markOf (all : List Bytes) (l : List Pair) :
    (l.map (markOf all)).filterMap toPair = l.filter (fun e => !below all e.1) := by
  induction l with
  | nil => rfl
  | cons e r ih =>
    rw [List.map_cons, List.filterMap_cons, List.filter_cons]
    by_cases hb : below all e.1 = true
    · have : toPair (markOf all e) = none := by simp [markOf, toPair, hb]
      rw [this]; simp only [hb, Bool.not_true, Bool.false_eq_true, ↓reduceIte]; exact ih
    · simp only [Bool.not_eq_true] at hb
      have : toPair (markOf all e) = some e := by simp [markOf, toPair, hb]
      rw [this]; simp only [hb, Bool.not_false, ↓reduceIte]; rw [ih]

theorem isNone_markOf (all : List Bytes) (l : List Pair) :
    ((l.map (markOf all)).filter (·.1.isNone)).length + ((l.map (markOf all)).filter (·.1.isSome)).length = l.length := by
  have := filter_len_compl (fun m : Marked => m.1.isSome) (l.map (markOf all))
  simp only [List.length_map] at this
  have hfun : (fun m : Marked => !m.1.isSome) = (fun m => m.1.isNone) := by
    funext m; cases m.1 <;> rfl
  rw [hfun] at this
  omega

/-! ### the three options -/

/-- the documented capacity requirement: room for every found pair (and the query
    strings) in front of the terminator of `types` -/
def Fits (query : Bool) (n maxTypes maxArgs : Nat) : Prop :=
  maxTypes ≠ 0 ∧ (if query then 2 else 0) + 2 * n ≤ min (maxTypes - 1) maxArgs

theorem queryArgs_length (query : Bool) (str nd : Bytes) :
    (queryArgs query str nd).length = if query then 2 else 0 := by
  cases query <;> rfl

theorem below_perm {l1 l2 : List Bytes} (h : l1.Perm l2) (e : Bytes) : below l1 e = below l2 e := by
  have : below l1 e = true ↔ below l2 e = true := by
    rw [below_iff, below_iff]
    constructor
    · rintro ⟨d, hd, r⟩; exact ⟨d, h.mem_iff.mp hd, r⟩
    · rintro ⟨d, hd, r⟩; exact ⟨d, h.mem_iff.mpr hd, r⟩
  cases h1 : below l1 e <;> cases h2 : below l2 e <;> simp_all

theorem pathSearch_unmodified (S : Sorter) {root : List PortT} {str : Bytes} {needle : Option Bytes}
    {maxTypes maxArgs : Nat} {query : Bool} {rows : List PortT} {found : List Pair}
    (hrows : searchRows root str = .ok rows) (hcol : collect (needle.getD []) rows = some found)
    (hfit : Fits query found.length maxTypes maxArgs) :
    pathSearch S root str needle maxTypes maxArgs .unmodified query =
      .ok (queryTypes query ++ pairTypes found) (queryArgs query str (needle.getD []) ++ pairArgs found) := by
  obtain ⟨h0, hcap⟩ := hfit
  unfold pathSearch
  simp only [hrows, hcol, queryArgs_length]
  rw [if_neg (by omega)]

theorem pathSearch_sorted (S : Sorter) (hS : S.Correct) {root : List PortT} {str : Bytes} {needle : Option Bytes}
    {maxTypes maxArgs : Nat} {query : Bool} {rows : List PortT} {found : List Pair}
    (hrows : searchRows root str = .ok rows) (hcol : collect (needle.getD []) rows = some found)
    (hfit : Fits query found.length maxTypes maxArgs) :
    ∃ out : List Pair,
      pathSearch S root str needle maxTypes maxArgs .sorted query =
        .ok (queryTypes query ++ pairTypes out) (queryArgs query str (needle.getD []) ++ pairArgs out) ∧
      out.Perm found ∧ out.Pairwise (fun a b => strLt b.1 a.1 = false) := by
  obtain ⟨h0, hcap⟩ := hfit
  obtain ⟨hp, hs⟩ := hS pairLt found pairLt_strictWeak
  refine ⟨S.run pairLt found, ?_, hp, hs⟩
  unfold pathSearch
  simp only [hrows, hcol, queryArgs_length]
  rw [if_neg (by omega)]

theorem pathSearch_unique (S : Sorter) (hS : S.Correct) {root : List PortT} {str : Bytes} {needle : Option Bytes}
    {maxTypes maxArgs : Nat} {query : Bool} {rows : List PortT} {found : List Pair}
    (hrows : searchRows root str = .ok rows) (hcol : collect (needle.getD []) rows = some found)
    (hfit : Fits query found.length maxTypes maxArgs) (hne : ∀ e ∈ found, e.1 ≠ []) :
    ∃ out : List Pair,
      pathSearch S root str needle maxTypes maxArgs .sortedUniquePrefix query =
        .ok (queryTypes query ++ pairTypes out) (queryArgs query str (needle.getD []) ++ pairArgs out) ∧
      out.Perm (found.filter fun e => !below (found.map (·.1)) e.1) ∧
      out.Pairwise (fun a b => strLt b.1 a.1 = false) := by
  obtain ⟨h0, hcap⟩ := hfit
  obtain ⟨hp, hs⟩ := hS pairLt found pairLt_strictWeak
  let sorted := S.run pairLt found
  have hne' : ∀ e ∈ sorted, e.1 ≠ [] := fun e he => hne e (hp.mem_iff.mp he)
  have hmark := markAll_spec sorted hne' hs
  let names := sorted.map (·.1)
  let marked := sorted.map (markOf names)
  obtain ⟨hp2, hs2⟩ := hS markedLt marked markedLt_strictWeak
  let sorted2 := S.run markedLt marked
  have hcount : sorted.length - (marked.filter (·.1.isNone)).length = (sorted2.filter (·.1.isSome)).length := by
    have h1 : (marked.filter (·.1.isNone)).length + (marked.filter (·.1.isSome)).length = sorted.length :=
      isNone_markOf names sorted
    have h2 : (sorted2.filter (·.1.isSome)).length = (marked.filter (·.1.isSome)).length :=
      (hp2.filter _).length_eq
    omega
  have hcut := cut_spec sorted2 hs2
  refine ⟨sorted2.filterMap toPair, ?_, ?_, ?_⟩
  · unfold pathSearch
    simp only [hrows, hcol, queryArgs_length]
    rw [if_neg (by omega)]
    show (match markAll sorted with
      | none => Found.oob
      | some (marked : List Marked) =>
        match unmark ((S.run markedLt marked).take (sorted.length - (marked.filter (fun m : Marked => m.1.isNone)).length)) with
        | none => Found.oob
        | some kept => Found.ok (queryTypes query ++ pairTypes kept)
            (queryArgs query str (needle.getD []) ++ pairArgs kept)) = _
    rw [hmark]
    show (match unmark (sorted2.take (sorted.length - (marked.filter (·.1.isNone)).length)) with
        | none => Found.oob
        | some kept => Found.ok (queryTypes query ++ pairTypes kept)
            (queryArgs query str (needle.getD []) ++ pairArgs kept)) = _
    rw [hcount, hcut]
  · have h1 : (sorted2.filterMap toPair).Perm (marked.filterMap toPair) := hp2.filterMap _
    rw [filterMap_markOf] at h1
    have h2 : (sorted.filter fun e => !below names e.1).Perm (found.filter fun e => !below names e.1) :=
      hp.filter _
    have h3 : (found.filter fun e => !below names e.1) = found.filter fun e => !below (found.map (·.1)) e.1 := by
      apply List.filter_congr
      intro e _
      rw [below_perm (hp.map (·.1)) e.1]
    rw [← h3]
    exact h1.trans h2
  · refine List.Pairwise.filterMap toPair ?_ hs2
    intro a a' haa b hb b' hb'
    obtain ⟨an, ab⟩ := a
    obtain ⟨an', ab'⟩ := a'
    cases an <;> cases an' <;> simp [toPair] at hb hb'
    subst hb hb'
    simpa [markedLt] using haa

/-! ### reply assembly: encode, then decode -/

def NoNul (v : Bytes) : Prop := ∀ c ∈ v, c ≠ 0

theorem padStr_length_mod (s : Bytes) : (padStr s).length % 4 = 0 := by
  simp [padStr]; omega

theorem padBlob_length_mod (s : Bytes) : (padBlob s).length % 4 = 0 := by
  simp [padBlob]; omega

theorem decStr_padStr (v rest : Bytes) (hv : NoNul v) : decStr (padStr v ++ rest) = some (v, rest) := by
  have hk : 4 - v.length % 4 = (4 - v.length % 4 - 1) + 1 := by omega
  have e : padStr v ++ rest = v ++ 0 :: (List.replicate (4 - v.length % 4 - 1) 0 ++ rest) := by
    unfold padStr
    rw [hk, List.replicate_succ]
    simp
  unfold decStr
  rw [e, cstr_append_nul v _ hv]
  simp only
  rw [← e]
  congr 2
  unfold padStr
  rw [List.append_assoc, List.drop_append, List.drop_append]
  simp

theorem rd32_be32 (n : Nat) (hn : n < 4294967296) (r : Bytes) : rd32 (be32 n ++ r) = some (n, r) := by
  simp only [be32, List.cons_append, List.nil_append, rd32, UInt8.toNat_ofNat']
  congr 2
  omega

theorem bytes_length (b : Blob) (h : BlobOK b) : b.bytes.length = b.len := by
  unfold BlobOK at h
  unfold Blob.bytes
  cases hd : b.data with
  | none => simp
  | some d => rw [hd] at h; simp [h]

theorem encArg_blob (b : Blob) (h : BlobOK b) : encArg 98 (.b b) = some (be32 b.len ++ padBlob b.bytes) := by
  obtain ⟨data, len⟩ := b
  unfold BlobOK at h
  cases data with
  | none => simp [encArg, Blob.bytes]
  | some d => simp only at h; subst h; simp [encArg, Blob.bytes]

/-- one argument of the reply is well-formed for its type character -/
def WFArg (t : UInt8) (a : Arg) : Prop :=
  (t = 115 ∧ ∃ v, a = .s v ∧ NoNul v) ∨ (t = 98 ∧ ∃ b, a = .b b ∧ BlobOK b ∧ b.len < 4294967296)

/-- type string and argument list fit together -/
inductive WFArgs : Bytes → List Arg → Prop
  | nil : WFArgs [] []
  | cons {t a ts as} : WFArg t a → WFArgs ts as → WFArgs (t :: ts) (a :: as)

theorem enc_dec_args : ∀ (types : Bytes) (args : List Arg), WFArgs types args →
    ∃ body, encArgs types args = some body ∧ body.length % 4 = 0 ∧
      decArgs types body = some (args.map Arg.view)
  | [], [], _ => ⟨[], rfl, rfl, rfl⟩
  | t :: ts, a :: as, h => by
    obtain ⟨h1, h2⟩ : WFArg t a ∧ WFArgs ts as := by cases h; exact ⟨‹_›, ‹_›⟩
    obtain ⟨body, hb1, hb2, hb3⟩ := enc_dec_args ts as h2
    rcases h1 with ⟨rfl, v, rfl, hv⟩ | ⟨rfl, b, rfl, hb, hlen⟩
    · refine ⟨padStr v ++ body, by simp [encArgs, encArg, hb1], ?_, ?_⟩
      · have := padStr_length_mod v
        simp only [List.length_append]; omega
      · rw [decArgs]
        simp only [↓reduceIte, decStr_padStr v body hv, hb3, Option.map_some, List.map_cons, Arg.view]
    · refine ⟨be32 b.len ++ padBlob b.bytes ++ body, by simp [encArgs, encArg_blob b hb, hb1], ?_, ?_⟩
      · have := padBlob_length_mod b.bytes
        simp only [List.length_append, be32, List.length_cons, List.length_nil]; omega
      · have hbl := bytes_length b hb
        rw [decArgs]
        have e98 : ¬ ((98 : UInt8) = 115) := by decide
        rw [if_neg e98, if_pos rfl, List.append_assoc, rd32_be32 b.len hlen]
        simp only
        have hle : b.len ≤ (padBlob b.bytes ++ body).length := by
          simp only [padBlob, List.length_append, hbl]; omega
        rw [if_pos hle]
        have htake : (padBlob b.bytes ++ body).take b.len = b.bytes := by
          unfold padBlob
          rw [List.append_assoc, List.take_append_of_le_length (by omega), ← hbl, List.take_length]
        have hdrop : alignDrop b.len ((padBlob b.bytes ++ body).drop b.len) = body := by
          unfold padBlob alignDrop
          rw [List.append_assoc, ← hbl, List.drop_append, List.drop_length]
          simp only [Nat.sub_self, List.drop_zero, List.nil_append]
          rw [List.drop_append]
          simp
        rw [htake, hdrop, hb3]
        simp [Arg.view]
  | [], _ :: _, h => by cases h
  | _ :: _, [], h => by cases h

theorem enc_dec_msg (addr types : Bytes) (args : List Arg) (ha : NoNul addr) (ht : NoNul types)
    (h : WFArgs types args) :
    ∃ msg, encodeMsg addr types args = some msg ∧ msg.length % 4 = 0 ∧
      decodeMsg msg = some (addr, types, args.map Arg.view) := by
  obtain ⟨body, hb1, hb2, hb3⟩ := enc_dec_args types args h
  refine ⟨padStr addr ++ padStr (44 :: types) ++ body, by simp [encodeMsg, hb1], ?_, ?_⟩
  · have h1 := padStr_length_mod addr
    have h2 := padStr_length_mod (44 :: types)
    simp only [List.length_append]; omega
  · have ht' : NoNul (44 :: types) := by
      intro c hc
      rcases List.mem_cons.mp hc with rfl | hc
      · decide
      · exact ht c hc
    unfold decodeMsg
    rw [List.append_assoc, decStr_padStr addr _ ha]
    simp only
    rw [decStr_padStr (44 :: types) body ht']
    simp only [hb3, Option.map_some]

theorem wf_pairs (out : List Pair) (hn : ∀ e ∈ out, NoNul e.1) (hb : ∀ e ∈ out, BlobOK e.2 ∧ e.2.len < 4294967296) :
    WFArgs (pairTypes out) (pairArgs out) := by
  induction out with
  | nil => exact WFArgs.nil
  | cons e r ih =>
    have ih' := ih (fun x hx => hn x (List.mem_cons_of_mem _ hx)) (fun x hx => hb x (List.mem_cons_of_mem _ hx))
    simp only [pairTypes, pairArgs, List.map_cons, List.flatten_cons, List.cons_append, List.nil_append] at ih' ⊢
    refine WFArgs.cons (Or.inl ⟨rfl, e.1, rfl, hn e List.mem_cons_self⟩)
      (WFArgs.cons (Or.inr ⟨rfl, e.2, rfl, (hb e List.mem_cons_self).1, (hb e List.mem_cons_self).2⟩) ih')

theorem wf_query (query : Bool) (str nd : Bytes) (hs : NoNul str) (hn : NoNul nd) :
    WFArgs (queryTypes query) (queryArgs query str nd) := by
  cases query
  · exact WFArgs.nil
  · exact WFArgs.cons (Or.inl ⟨rfl, str, rfl, hs⟩)
      (WFArgs.cons (Or.inl ⟨rfl, nd, rfl, hn⟩) WFArgs.nil)

theorem wfArgs_append : ∀ {l1 : Bytes} {l2 : List Arg} {l3 : Bytes} {l4 : List Arg},
    WFArgs l1 l2 → WFArgs l3 l4 → WFArgs (l1 ++ l3) (l2 ++ l4)
  | _, _, _, _, WFArgs.nil, h => h
  | _, _, _, _, WFArgs.cons h t, h' => WFArgs.cons h (wfArgs_append t h')

theorem noNul_types (query : Bool) (out : List Pair) : NoNul (queryTypes query ++ pairTypes out) := by
  intro c hc
  rcases List.mem_append.mp hc with h | h
  · cases query
    · simp [queryTypes] at h
    · simp [queryTypes] at h; rcases h with rfl | rfl <;> decide
  · simp only [pairTypes, List.mem_flatten, List.mem_map] at h
    obtain ⟨l, ⟨_, _, rfl⟩, hl⟩ := h
    simp at hl; rcases hl with rfl | rfl <;> decide

/-- whatever the option: a reply `(types, args)` whose pairs were all found -/
theorem pathSearch_any (S : Sorter) (hS : S.Correct) {root : List PortT} {str : Bytes} {needle : Option Bytes}
    {maxTypes maxArgs : Nat} {query : Bool} {rows : List PortT} {found : List Pair}
    (hrows : searchRows root str = .ok rows) (hcol : collect (needle.getD []) rows = some found)
    (hfit : Fits query found.length maxTypes maxArgs) (hne : ∀ e ∈ found, e.1 ≠ []) (opts : Opts) :
    ∃ out : List Pair,
      pathSearch S root str needle maxTypes maxArgs opts query =
        .ok (queryTypes query ++ pairTypes out) (queryArgs query str (needle.getD []) ++ pairArgs out) ∧
      ∀ e ∈ out, e ∈ found := by
  cases opts with
  | unmodified => exact ⟨found, pathSearch_unmodified S hrows hcol hfit, fun _ h => h⟩
  | sorted =>
    obtain ⟨out, h1, h2, _⟩ := pathSearch_sorted S hS hrows hcol hfit
    exact ⟨out, h1, fun e he => h2.mem_iff.mp he⟩
  | sortedUniquePrefix =>
    obtain ⟨out, h1, h2, _⟩ := pathSearch_unique S hS hrows hcol hfit hne
    exact ⟨out, h1, fun e he => (List.mem_filter.mp (h2.mem_iff.mp he)).1⟩

/-- the inputs a child search is specified for: the location resolves to the table
    `rows`, the metadata of its rows is well-formed, and the caller's arrays are as large
    as documented -/
structure SearchHyp (root : List PortT) (str : Bytes) (needle : Option Bytes) (maxTypes maxArgs : Nat)
    (query : Bool) (rows : List PortT) : Prop where
  resolves : searchRows root str = .ok rows
  metaOK : ∀ p ∈ rows, MetaOK p
  fits : Fits query (childrenSpec rows (needle.getD [])).length maxTypes maxArgs

theorem SearchHyp.found {root : List PortT} {str : Bytes} {needle : Option Bytes} {maxTypes maxArgs : Nat}
    {query : Bool} {rows : List PortT}
    (h : SearchHyp root str needle maxTypes maxArgs query rows) :
    ∃ found, collect (needle.getD []) rows = some found ∧
      found.map Pair.view = childrenSpec rows (needle.getD []) ∧
      Fits query found.length maxTypes maxArgs ∧
      (∀ e ∈ found, (∃ p ∈ rows, e.1 = p.name ∧ e.2.len ≤ (p.metadata.getD []).length) ∧ BlobOK e.2) := by
  obtain ⟨found, h1, h2, h3⟩ := collect_spec (needle.getD []) rows h.metaOK
  refine ⟨found, h1, h2, ?_, h3⟩
  have : found.length = (childrenSpec rows (needle.getD [])).length := by rw [← h2]; simp
  rw [this]; exact h.fits

/-- a structurally recursive sorter, used to evaluate the model on concrete inputs in the
    non-vacuity examples (`List.mergeSort` does not reduce under `decide`) -/
def insertBy {α : Type} (lt : α → α → Bool) (a : α) : List α → List α
  | [] => [a]
  | b :: r => if lt a b then a :: b :: r else b :: insertBy lt a r

def insertionSorter : Sorter := ⟨fun lt l => l.foldr (insertBy lt) []⟩

end Rtosc.Path
