/-
  C10 — tier 3, compressed runs AND arrays (2): the printer.

  (A) the element loop of the array printer over an array body that `rtosc_convert_to_range` cuts
      into segments (`printArrayElems_segs`), and `rtosc_print_arg_val` on such an array
      (`printArgVal_arrSegs`): the text is `[` + a `SegsText none body` + `]`;
  (B) the loop of `rtosc_print_arg_vals` over a list of pieces (segments and arrays,
      `ASegmented`): the text is an `ASegsText` (`printLoop_asegs`).
-/
import RtoscModel.Proofs.PrettyRunsArrConv
set_option linter.unusedSimpArgs false
set_option linter.unusedVariables false
namespace Rtosc.Pretty
open Rtosc Rtosc.Libc
open Rtosc.ArgVal (Cell)

/-- `arg + i - 1` inside an array whose first `done` elements are printed: the last of them -/
private theorem arr_prev_drop (hdr : Cell) (done rest : List Cell) (hne : done ≠ []) :
    ∃ x xs, (hdr :: (done ++ rest)).drop (done.length + 1 - 1) = x :: xs ∧ done.getLast? = some x := by
  rcases List.eq_nil_or_concat done with rfl | ⟨init, x, rfl⟩
  · exact absurd rfl hne
  · refine ⟨x, rest, ?_, by simp⟩
    rw [List.concat_eq_append]
    have : (init ++ [x]).length + 1 - 1 = init.length + 1 := by simp
    rw [this, List.drop_succ_cons, List.append_assoc, List.drop_left]
    rfl

/-- one iteration of the element loop of the array printer -/
theorem arrLoop_step (pe : ElemPrinter) (opt : POpt) (arg : List Cell) (hdr : Cell) (done rest : List Cell)
    (harg : arg = hdr :: (done ++ rest)) (n lf : Nat)
    (conv : Option (Nat × List Cell)) (step : Nat)
    (out mid T : Bytes) (cols cols1 : Int) (wrt : Nat) (lastSep : Int) (awl : Nat)
    (hle : done.length + 1 ≤ n)
    (hconv : convertToRange opt rest (n - done.length) = .ok conv)
    (hprint : pe (match conv with | some (_, b) => b | none => rest) done.getLast? ⟨out ++ mid, cols⟩ =
        .ok (⟨out ++ mid ++ T, cols1⟩, T.length))
    (hstep : (match conv with | some (sk, _) => (pure sk : Res Nat) | none => nextArgOffset (rest.length + 1) rest) = .ok step)
    (hmid : mid.length ≤ 1)
    (hinv : awl = 0 ∨ ∃ base, out = base ++ [32] ∧ lastSep = (base.length : Int)) :
    ∃ (pre1 : Bytes) (cols2 : Int) (awl2 : Nat),
      (pre1 = out ∨ ∃ base, out = base ++ [32] ∧ pre1 = base ++ nl4) ∧
      printArrayElems pe opt arg n (done.length + 1) ⟨out ++ mid, cols⟩ wrt lastSep awl (lf + 1) =
        printArrayElems pe opt arg n (done.length + 1 + step) ⟨pre1 ++ mid ++ T ++ [32], cols2 + 1⟩
          (wrt + T.length + (pre1.length - out.length) + 1) ((pre1 ++ mid ++ T).length : Int) awl2 lf := by
  subst harg
  obtain ⟨pre1, cols2, awl2, hlb, _, hpre1⟩ :=
    linebreakCheck_mid out mid T cols1 (wrt + T.length) lastSep awl opt.linelength hmid hinv
  refine ⟨pre1, cols2, awl2, hpre1, ?_⟩
  have hcur : (hdr :: (done ++ rest)).drop (done.length + 1) = rest := by simp
  have hsz : n + 1 - (done.length + 1) = n - done.length := by omega
  rw [printArrayElems]
  by_cases hd1 : done.length + 1 = 1
  · have hnil : done = [] := List.length_eq_zero_iff.mp (by omega)
    subst hnil
    simp only [List.length_nil, Nat.zero_add, List.nil_append, Nat.sub_zero] at hle hcur hsz hconv ⊢
    cases conv with
    | none =>
      dsimp only at hprint hstep
      simp only [List.getLast?_nil] at hprint
      simp only [hle, ↓reduceIte, hcur, hsz, hconv, bind, Except.bind, pure, Except.pure, hprint, hstep, hlb]
    | some p =>
      obtain ⟨sk, block⟩ := p
      dsimp only at hprint hstep
      simp only [List.getLast?_nil] at hprint
      simp only [pure, Except.pure] at hstep
      cases hstep
      simp only [hle, ↓reduceIte, hcur, hsz, hconv, bind, Except.bind, pure, Except.pure, hprint, hlb]
  · have hne : done ≠ [] := by intro h; rw [h] at hd1; simp at hd1
    obtain ⟨x, xs, hdx, hlast⟩ := arr_prev_drop hdr done rest hne
    rw [hlast] at hprint
    cases conv with
    | none =>
      dsimp only at hprint hstep
      simp only [hle, hd1, ↓reduceIte, hcur, hsz, hconv, hdx, deref, bind, Except.bind, pure, Except.pure, hprint, hstep, hlb]
    | some p =>
      obtain ⟨sk, block⟩ := p
      dsimp only at hprint hstep
      simp only [pure, Except.pure] at hstep
      cases hstep
      simp only [hle, hd1, ↓reduceIte, hcur, hsz, hconv, hdx, deref, bind, Except.bind, pure, Except.pure, hprint, hlb]

/-- what the array loop does behind one printed segment -/
theorem arrLoop_cont (pe : ElemPrinter) (opt : POpt) (arg : List Cell) (n : Nat) (s : RSeg) (segs : List RSeg)
    (L : Option Cell) (i : Nat)
    (hn : n + 1 = i + s.cells.length + (cellsAll segs).length)
    (hsegs_pos : segs ≠ [] → 0 < (cellsAll segs).length)
    (ih : segs ≠ [] → ∀ (lf : Nat) (out : Bytes) (cols : Int) (wrt : Nat) (lastSep : Int) (awl : Nat), segs.length ≤ lf →
        (awl = 0 ∨ ∃ base, out = base ++ [32] ∧ lastSep = (base.length : Int)) →
        ∃ (pre text : Bytes) (cols' : Int),
          printArrayElems pe opt arg n (i + s.cells.length) ⟨out, cols⟩ wrt lastSep awl lf =
            .ok (⟨pre ++ text ++ [32], cols'⟩, wrt + text.length + 1 + (pre.length - out.length)) ∧
          (pre = out ∨ ∃ base, out = base ++ [32] ∧ pre = base ++ nl4) ∧ SegsText (some s.last) segs text)
    (lf : Nat) (out mid : Bytes) (cols : Int) (wrt : Nat) (lastSep : Int) (awl : Nat) (hlf : segs.length ≤ lf)
    (T pre1 : Bytes) (cols2 : Int) (awl2 : Nat) (hT : SegText L s T)
    (hpre1 : pre1 = out ∨ ∃ base, out = base ++ [32] ∧ pre1 = base ++ nl4)
    (hstep : printArrayElems pe opt arg n i ⟨out ++ mid, cols⟩ wrt lastSep awl (lf + 1) =
        printArrayElems pe opt arg n (i + s.cells.length) ⟨pre1 ++ mid ++ T ++ [32], cols2 + 1⟩
          (wrt + T.length + (pre1.length - out.length) + 1) ((pre1 ++ mid ++ T).length : Int) awl2 lf) :
    ∃ (pre text : Bytes) (cols' : Int),
      printArrayElems pe opt arg n i ⟨out ++ mid, cols⟩ wrt lastSep awl (lf + 1) =
        .ok (⟨pre ++ mid ++ text ++ [32], cols'⟩, wrt + text.length + 1 + (pre.length - out.length)) ∧
      (pre = out ∨ ∃ base, out = base ++ [32] ∧ pre = base ++ nl4) ∧ SegsText L (s :: segs) text := by
  have hpre1len : out.length ≤ pre1.length := by
    rcases hpre1 with h | ⟨base, h1, h2⟩
    · rw [h]; exact Nat.le_refl _
    · rw [h1, h2]; simp [nl4]
  rw [hstep]
  by_cases hmore : segs = []
  · subst hmore
    have hnot : ¬ (i + s.cells.length ≤ n) := by
      simp only [cellsAll, List.length_nil] at hn; omega
    refine ⟨pre1, T, cols2 + 1, ?_, hpre1, ?_⟩
    · unfold printArrayElems
      simp only [hnot, ↓reduceIte, pure, Except.pure]
      congr 2
      omega
    · have := SegsText.cons L s [] T [] [] hT (SegsText.nil _) (fun _ => rfl) (fun h => absurd rfl h)
      simpa using this
  · obtain ⟨pre', text', cols', hrun, hpre', htt⟩ :=
      ih hmore lf (pre1 ++ mid ++ T ++ [32]) (cols2 + 1) (wrt + T.length + (pre1.length - out.length) + 1)
        ((pre1 ++ mid ++ T).length : Int) awl2 hlf (Or.inr ⟨pre1 ++ mid ++ T, rfl, rfl⟩)
    rw [hrun]
    rcases hpre' with hp | ⟨base, hb1, hb2⟩
    · refine ⟨pre1, T ++ ([32] ++ text'), cols', ?_, hpre1,
        SegsText.cons L s segs T [32] text' hT htt (fun h => absurd h hmore) (fun _ => Or.inl rfl)⟩
      subst hp
      congr 2
      · simp
      · simp only [List.length_append, List.length_cons, List.length_nil]
        omega
    · have hbase : base = pre1 ++ mid ++ T := (List.append_inj_left' hb1 rfl).symm
      refine ⟨pre1, T ++ (nl4 ++ text'), cols', ?_, hpre1,
        SegsText.cons L s segs T nl4 text' hT htt (fun h => absurd h hmore) (fun _ => Or.inr rfl)⟩
      subst hb2; subst hbase
      congr 2
      · simp
      · simp only [nl4, List.length_append, List.length_cons, List.length_nil]
        omega

private theorem conv_more (opt : POpt) (l more : List Cell) (hsc : ∀ c ∈ l, c.isScalar = true) (sz : Nat) (hsz : sz = l.length)
    (r : Res (Option (Nat × List Cell))) (h : convertToRange opt l sz = r) : convertToRange opt (l ++ more) sz = r := by
  subst hsz
  rw [convertToRange_append opt l more hsc]
  exact h

/-- **the element loop of the array printer over a segmented array body** (behind `done`, the
    cells of the array printed so far): it writes a text of the segments and a final blank -/
theorem printArrayElems_segs (opt : POpt) (hc : opt.compress = true) (fuel : Nat) (hdr : Cell) (more : List Cell)
    {segs : List RSeg} (hseg : Segmented opt segs) :
    segs ≠ [] → ∀ (arg done : List Cell) (n : Nat), arg = hdr :: (done ++ (cellsAll segs ++ more)) →
      n = done.length + (cellsAll segs).length →
      ∀ (lf : Nat) (out mid : Bytes) (cols : Int) (wrt : Nat) (lastSep : Int) (awl : Nat), segs.length ≤ lf →
        mid.length ≤ 1 → (awl = 0 ∨ ∃ base, out = base ++ [32] ∧ lastSep = (base.length : Int)) →
        ∃ (pre text : Bytes) (cols' : Int),
          printArrayElems (printArgVal (fuel + 2) opt) opt arg n (done.length + 1) ⟨out ++ mid, cols⟩ wrt lastSep awl lf =
            .ok (⟨pre ++ mid ++ text ++ [32], cols'⟩, wrt + text.length + 1 + (pre.length - out.length)) ∧
          (pre = out ∨ ∃ base, out = base ++ [32] ∧ pre = base ++ nl4) ∧ SegsText done.getLast? segs text := by
  induction hseg with
  | nil => intro h; exact absurd rfl h
  | tok c segs hsc hpt hconv hrest ih =>
    intro _ arg done n harg hn lf out mid cols wrt lastSep awl hlf hmid hinv
    obtain ⟨f, rfl⟩ : ∃ g, lf = g + 1 := ⟨lf - 1, by simp only [List.length_cons] at hlf; omega⟩
    have hscal := (Segmented.tok c segs hsc hpt hconv hrest).scalars
    have hlen : (cellsAll (RSeg.tok c :: segs)).length = (cellsAll segs).length + 1 := by simp [cellsAll, RSeg.cells]
    have hcv : convertToRange opt (cellsAll (RSeg.tok c :: segs) ++ more) (n - done.length) = .ok none :=
      conv_more opt _ more hscal _ (by omega) _ (by
        rw [show n - done.length = (cellsAll segs).length + 1 from by omega]
        simpa [cellsAll, RSeg.cells] using hconv)
    obtain ⟨t, cols1, hprint, htok⟩ := hpt (fuel + 1) (cellsAll segs ++ more) done.getLast? ⟨out ++ mid, cols⟩
    have hnao : nextArgOffset ((cellsAll (RSeg.tok c :: segs) ++ more).length + 1) (cellsAll (RSeg.tok c :: segs) ++ more) =
        .ok 1 := nextArgOffset_scalar _ c (cellsAll segs ++ more) hsc
    obtain ⟨pre1, cols2, awl2, hpre1, hstep⟩ := arrLoop_step (printArgVal (fuel + 2) opt) opt arg hdr done _ harg n f
      none 1 out mid t cols cols1 wrt lastSep awl (by omega) hcv hprint hnao hmid hinv
    have hidx : (done ++ (RSeg.tok c).cells).length + 1 = done.length + 1 + (RSeg.tok c).cells.length := by
      simp only [List.length_append]; omega
    exact arrLoop_cont _ opt arg n (.tok c) segs _ (done.length + 1) (by simp only [RSeg.cells, List.length_cons, List.length_nil]; omega)
      hrest.cells_pos
      (fun hne lf out cols wrt lastSep awl hlf hinv => by
        have := ih hne arg (done ++ (RSeg.tok c).cells) n (by rw [harg]; simp [cellsAll])
          (by simp only [List.length_append, RSeg.cells, List.length_cons, List.length_nil]; omega)
          lf out [] cols wrt lastSep awl hlf (by simp) hinv
        rw [hidx] at this
        simpa [RSeg.cells, RSeg.last] using this)
      f out mid cols wrt lastSep awl (by simp only [List.length_cons] at hlf; omega) t pre1 cols2 awl2
      (SegText.tok t c htok hsc) hpre1 (by simpa [RSeg.cells] using hstep)
  | crun m c segs hsc hpt hn5 hn2 hconv hrest ih =>
    intro _ arg done n harg hn lf out mid cols wrt lastSep awl hlf hmid hinv
    obtain ⟨f, rfl⟩ : ∃ g, lf = g + 1 := ⟨lf - 1, by simp only [List.length_cons] at hlf; omega⟩
    have hscal := (Segmented.crun m c segs hsc hpt hn5 hn2 hconv hrest).scalars
    have hlen : (cellsAll (RSeg.crun m c :: segs)).length = m + (cellsAll segs).length := by simp [cellsAll, RSeg.cells]
    have hcv : convertToRange opt (cellsAll (RSeg.crun m c :: segs) ++ more) (n - done.length) =
        .ok (some (m, [Cell.rep m 0, c])) :=
      conv_more opt _ more hscal _ (by omega) _ (by
        rw [show n - done.length = m + (cellsAll segs).length from by omega]
        simpa [cellsAll, RSeg.cells] using hconv)
    obtain ⟨t, cols1, hprint, htok⟩ := printArgVal_constRun opt hc c hpt m (by omega) fuel done.getLast? ⟨out ++ mid, cols⟩
    obtain ⟨pre1, cols2, awl2, hpre1, hstep⟩ := arrLoop_step (printArgVal (fuel + 2) opt) opt arg hdr done _ harg n f
      (some (m, [Cell.rep m 0, c])) m out mid (runText m t) cols cols1 wrt lastSep awl (by omega) hcv hprint rfl hmid hinv
    have hidx : (done ++ (RSeg.crun m c).cells).length + 1 = done.length + 1 + (RSeg.crun m c).cells.length := by
      simp only [List.length_append]; omega
    have hlast : (done ++ (RSeg.crun m c).cells).getLast? = some c := getLast?_append_replicate done m c (by omega)
    exact arrLoop_cont _ opt arg n (.crun m c) segs _ (done.length + 1)
      (by simp only [RSeg.cells, List.length_replicate]; omega) hrest.cells_pos
      (fun hne lf out cols wrt lastSep awl hlf hinv => by
        have := ih hne arg (done ++ (RSeg.crun m c).cells) n (by rw [harg]; simp [cellsAll])
          (by simp only [List.length_append, RSeg.cells, List.length_replicate]; omega)
          lf out [] cols wrt lastSep awl hlf (by simp) hinv
        rw [hidx, hlast] at this
        simpa [RSeg.cells, RSeg.last] using this)
      f out mid cols wrt lastSep awl (by simp only [List.length_cons] at hlf; omega) (runText m t) pre1 cols2 awl2
      (SegText.crun m t c htok hsc (by omega) hn2) hpre1 (by simpa [RSeg.cells] using hstep)
  | irun a d m segs h hconv hrest ih =>
    intro _ arg done n harg hn lf out mid cols wrt lastSep awl hlf hmid hinv
    obtain ⟨f, rfl⟩ : ∃ g, lf = g + 1 := ⟨lf - 1, by simp only [List.length_cons] at hlf; omega⟩
    have hm := h.hn
    have hscal := (Segmented.irun a d m segs h hconv hrest).scalars
    have hlen : (cellsAll (RSeg.irun a d m :: segs)).length = m + (cellsAll segs).length := by
      simp [cellsAll, RSeg.cells, arithRun_length]
    have hcv : convertToRange opt (cellsAll (RSeg.irun a d m :: segs) ++ more) (n - done.length) =
        .ok (some (m, [Cell.rep m 1, Cell.int .i d, Cell.int .i a])) :=
      conv_more opt _ more hscal _ (by omega) _ (by
        rw [show n - done.length = m + (cellsAll segs).length from by omega]
        simpa [cellsAll, RSeg.cells] using hconv)
    obtain ⟨sep, cols1, hsep, hpr⟩ := printRange_runG opt hc h fuel done.getLast? ⟨out ++ mid, cols⟩
    have hprint : printArgVal (fuel + 2) opt [Cell.rep m 1, Cell.int .i d, Cell.int .i a] done.getLast? ⟨out ++ mid, cols⟩ =
        .ok (⟨out ++ mid ++ runTextL done.getLast? a d m sep, cols1⟩, (runTextL done.getLast? a d m sep).length) := by
      rw [printArgVal_rep]
      exact hpr
    obtain ⟨pre1, cols2, awl2, hpre1, hstep⟩ := arrLoop_step (printArgVal (fuel + 2) opt) opt arg hdr done _ harg n f
      (some (m, [Cell.rep m 1, Cell.int .i d, Cell.int .i a])) m out mid _ cols cols1 wrt lastSep awl (by omega) hcv
      hprint rfl hmid hinv
    have hidx : (done ++ (RSeg.irun a d m).cells).length + 1 = done.length + 1 + (RSeg.irun a d m).cells.length := by
      simp only [List.length_append]; omega
    have hlast : (done ++ (RSeg.irun a d m).cells).getLast? = some (Cell.int .i (zOf a d m)) :=
      getLast?_append_arithRun done a d m (by omega)
    have hT : SegText done.getLast? (.irun a d m) (runTextL done.getLast? a d m sep) := by
      unfold runTextL
      by_cases hsf : shortForm done.getLast? a d = true
      · simp only [hsf, ↓reduceIte]; exact SegText.short a d m sep h hsf hsep
      · have hsf' : shortForm done.getLast? a d = false := by simpa using hsf
        simp only [hsf', Bool.false_eq_true, ↓reduceIte]; exact SegText.long a d m sep h hsf' hsep
    exact arrLoop_cont _ opt arg n (.irun a d m) segs _ (done.length + 1)
      (by simp only [RSeg.cells, arithRun_length]; omega) hrest.cells_pos
      (fun hne lf out cols wrt lastSep awl hlf hinv => by
        have := ih hne arg (done ++ (RSeg.irun a d m).cells) n (by rw [harg]; simp [cellsAll])
          (by simp only [List.length_append, RSeg.cells, arithRun_length]; omega)
          lf out [] cols wrt lastSep awl hlf (by simp) hinv
        rw [hidx, hlast] at this
        simpa [RSeg.cells, RSeg.last] using this)
      f out mid cols wrt lastSep awl (by simp only [List.length_cons] at hlf; omega) _ pre1 cols2 awl2
      hT hpre1 (by simpa [RSeg.cells, arithRun_length] using hstep)

/-- **the printer on an array whose body `rtosc_convert_to_range` cuts into the segments `body`**:
    it writes `[`, a text of the segments, `]` (possibly turning the blank in front of the `[`
    into a line break) and returns the number of characters added -/
theorem printArgVal_arrSegsG (opt : POpt) (hc : opt.compress = true) {body : List RSeg} (hseg : Segmented opt body)
    (fuel : Nat) (more : List Cell) (prev : Option Cell) (st : PSt) (awl : Nat) (hawl : initArgsWritten st = .ok awl)
    (hinv : awl = 0 ∨ ∃ base, st.out = base ++ [32] ∧ (st.out.length : Int) - 1 = (base.length : Int)) :
    ∃ (pre B : Bytes) (cols' : Int),
      printArgVal (fuel + 3) opt ((arrHdr body :: cellsAll body) ++ more) prev st =
        .ok (⟨pre ++ (91 :: (B ++ [93])), cols'⟩, (B.length + 2) + (pre.length - st.out.length)) ∧
      (pre = st.out ∨ ∃ base, st.out = base ++ [32] ∧ pre = base ++ nl4) ∧ SegsText none body B := by
  have hneg : ¬ (((cellsAll body).length : Int) < 0) := by omega
  by_cases hb : body = []
  · subst hb
    refine ⟨st.out, [], st.cols + 1 + 1 + 1, ?_, Or.inl rfl, SegsText.nil none⟩
    unfold printArgVal
    simp [arrHdr, cellsAll, deref, bind, Except.bind, pure, Except.pure, hawl]
  · have hpos := hseg.cells_pos hb
    have hn0 : (cellsAll body).length ≠ 0 := by omega
    obtain ⟨pre, text, cols', hrun, hpre, htt⟩ :=
      printArrayElems_segs opt hc fuel (arrHdr body) more hseg hb
        ((arrHdr body :: cellsAll body) ++ more) [] (cellsAll body).length (by simp) (by simp)
        ((cellsAll body).length + 1) st.out [91] (st.cols + 1) 1 ((st.out.length : Int) - 1) awl
        (by have := hseg.length_le; omega) (by simp) hinv
    refine ⟨pre, text, cols' + 1, ?_, hpre, by simpa using htt⟩
    simp only [List.length_nil, Nat.zero_add] at hrun
    unfold printArgVal
    simp only [arrHdr, List.cons_append, deref, bind, Except.bind, hneg, ↓reduceIte, Int.toNat_natCast, hawl,
      ne_eq, hn0, not_false_eq_true, pure, Except.pure]
    simp only [arrHdr, List.cons_append] at hrun
    rw [hrun]
    have hdl : (pre ++ [91] ++ text ++ [32]).dropLast = pre ++ [91] ++ text := List.dropLast_concat
    simp only [hdl]
    congr 2
    · simp
    · omega

theorem printArgVal_arrSegs (opt : POpt) (hc : opt.compress = true) {body : List RSeg} (hseg : Segmented opt body)
    (fuel : Nat) (more : List Cell) (prev : Option Cell) (st : PSt) (hst : st.cols = 0 ∨ ∃ base, st.out = base ++ [32]) :
    ∃ (pre B : Bytes) (cols' : Int),
      printArgVal (fuel + 3) opt ((arrHdr body :: cellsAll body) ++ more) prev st =
        .ok (⟨pre ++ (91 :: (B ++ [93])), cols'⟩, (B.length + 2) + (pre.length - st.out.length)) ∧
      (pre = st.out ∨ ∃ base, st.out = base ++ [32] ∧ pre = base ++ nl4) ∧ SegsText none body B := by
  obtain ⟨awl, hawl, hinv⟩ := initArgsWritten_spec st hst
  exact printArgVal_arrSegsG opt hc hseg fuel more prev st awl hawl hinv

theorem initArgsWritten_x (pre : Bytes) (cols : Int) : initArgsWritten ⟨pre ++ [120], cols⟩ = .ok 0 := by
  by_cases hcols : cols ≠ 0
  · simp [initArgsWritten, hcols, show isspace 120 = false from by decide]
  · simp [initArgsWritten, hcols]

/-- **`nx[` body `]`**: the printer on the range block of `n` equal arrays -/
theorem printArgVal_arunSegs (opt : POpt) (hc : opt.compress = true) {body : List RSeg} (hseg : Segmented opt body)
    (n : Nat) (hn : 1 ≤ n) (fuel : Nat) (prev : Option Cell) (st : PSt) :
    ∃ (B : Bytes) (cols' : Int),
      printArgVal (fuel + 4) opt (Cell.rep n 0 :: arrHdr body :: cellsAll body) prev st =
        .ok (⟨st.out ++ runText n (91 :: (B ++ [93])), cols'⟩, (runText n (91 :: (B ++ [93]))).length) ∧
      SegsText none body B := by
  have hsa : st.out ++ (fmtDec (n : Int) ++ [120]) = (st.out ++ fmtDec (n : Int)) ++ [120] := by simp
  obtain ⟨pre, B, cols', hprint, hpre, hB⟩ := printArgVal_arrSegsG opt hc hseg fuel [] none
    ⟨st.out ++ (fmtDec (n : Int) ++ [120]), st.cols + ((fmtDec (n : Int) ++ [120]).length : Nat)⟩ 0
    (by rw [hsa]; exact initArgsWritten_x _ _) (Or.inl rfl)
  have hpre' : pre = st.out ++ (fmtDec (n : Int) ++ [120]) := by
    rcases hpre with h | ⟨base, h1, _⟩
    · exact h
    · exfalso
      simp only [] at h1
      rw [hsa] at h1
      have := List.append_inj_right' h1 rfl
      simp at this
  subst hpre'
  refine ⟨B, cols', ?_, hB⟩
  have hn0 : ¬ ((n : Int) = 0) := by omega
  simp only [List.append_nil, Nat.sub_self, Nat.add_zero] at hprint
  rw [show fuel + 4 = (fuel + 3) + 1 from rfl, printArgVal_rep]
  unfold printRange
  simp only [deref, bind, Except.bind, hc, true_or, ↓reduceIte, ne_eq, not_true_eq_false, hn0, or_self,
    List.drop_succ_cons, List.drop_zero, hprint, pure, Except.pure]
  obtain ⟨a, ha⟩ := initArgsWritten_ok ⟨st.out ++ (fmtDec (n : Int) ++ [120]) ++ 91 :: (B ++ [93]), cols'⟩ (by simp)
  simp only [ha, Int.sub_self, Int.toNat_zero, printRangeElems, Int.lt_irrefl, ↓reduceIte]
  simp only [runText, List.length_append, List.append_assoc, Nat.add_assoc, List.length_cons, List.length_nil]

/-! ### the loop of `rtosc_print_arg_vals` over segments and arrays -/

/-- what the top-level loop does behind one printed piece -/
theorem printLoop_contA (opt : POpt) (args : List Cell) (x : ASeg) (xs : List ASeg) (L : Option Cell) (done : List Cell)
    (hargs : args = done ++ (x.cells ++ cellsAllA xs)) (hxs_pos : xs ≠ [] → 0 < (cellsAllA xs).length)
    (ih : ∀ (fuel : Nat) (st : PSt) (wrt : Nat) (lastSep : Int) (awl : Nat), xs.length + 1 ≤ fuel →
        ((st.cols = 0 ∧ awl = 0) ∨ ∃ base, st.out = base ++ [32] ∧ lastSep = (base.length : Int)) →
        ∃ (st' : PSt) (pre body : Bytes),
          printArgValsLoop fuel opt args args.length (done.length + x.cells.length) st wrt lastSep awl =
            .ok (st', wrt + ((pre ++ body).length - st.out.length)) ∧
          st'.out = pre ++ body ∧ ASegsText (some x.plast) xs body ∧
          (pre = st.out ∨ ∃ base, st.out = base ++ [32] ∧ pre = base ++ nl4))
    (f : Nat) (st : PSt) (wrt : Nat) (lastSep : Int) (awl : Nat) (hf : xs.length + 1 ≤ f)
    (T pre1 : Bytes) (cols1 : Int) (awl1 : Nat) (hT : ASegText L x T)
    (hpre1 : pre1 = st.out ∨ ∃ base, st.out = base ++ [32] ∧ pre1 = base ++ nl4)
    (hstep : printArgValsLoop (f + 1) opt args args.length done.length st wrt lastSep awl =
        (if done.length + x.cells.length < args.length then
          printArgValsLoop f opt args args.length (done.length + x.cells.length) ⟨pre1 ++ T ++ [32], cols1 + 1⟩
            (wrt + T.length + (pre1.length - st.out.length) + 1) ((pre1 ++ T).length : Int) awl1
         else printArgValsLoop f opt args args.length (done.length + x.cells.length) ⟨pre1 ++ T, cols1⟩
            (wrt + T.length + (pre1.length - st.out.length)) lastSep awl1)) :
    ∃ (st' : PSt) (pre body : Bytes),
      printArgValsLoop (f + 1) opt args args.length done.length st wrt lastSep awl =
        .ok (st', wrt + ((pre ++ body).length - st.out.length)) ∧
      st'.out = pre ++ body ∧ ASegsText L (x :: xs) body ∧
      (pre = st.out ∨ ∃ base, st.out = base ++ [32] ∧ pre = base ++ nl4) := by
  have hlen : args.length = done.length + x.cells.length + (cellsAllA xs).length := by
    rw [hargs]; simp only [List.length_append]; omega
  have hpre1len : st.out.length ≤ pre1.length := by
    rcases hpre1 with h | ⟨base, h1, h2⟩
    · rw [h]; exact Nat.le_refl _
    · rw [h1, h2]; simp [nl4]
  rw [hstep]
  by_cases hmore : xs = []
  · subst hmore
    have hnot : ¬ (done.length + x.cells.length < args.length) := by
      rw [hlen]; simp [cellsAllA]
    simp only [hnot, ↓reduceIte]
    obtain ⟨g, rfl⟩ : ∃ g, f = g + 1 := ⟨f - 1, by simp at hf; omega⟩
    refine ⟨⟨pre1 ++ T, cols1⟩, pre1, T, ?_, rfl, ?_, hpre1⟩
    · rw [printArgValsLoop]
      simp only [hnot, ↓reduceIte, pure, Except.pure, List.length_append]
      congr 2
      omega
    · have := ASegsText.cons L x [] T [] [] hT (ASegsText.nil _) (fun _ => rfl) (fun h => absurd rfl h)
      simpa using this
  · have hlt2 : done.length + x.cells.length < args.length := by
      have := hxs_pos hmore
      omega
    simp only [hlt2, ↓reduceIte]
    obtain ⟨st', pre', body', hrun, hout, htt, hpre'⟩ :=
      ih f ⟨pre1 ++ T ++ [32], cols1 + 1⟩ (wrt + T.length + (pre1.length - st.out.length) + 1)
        ((pre1 ++ T).length : Int) awl1 hf (Or.inr ⟨pre1 ++ T, rfl, rfl⟩)
    rw [hrun]
    rcases hpre' with hp | ⟨base, hb1, hb2⟩
    · refine ⟨st', pre1, T ++ ([32] ++ body'), ?_, ?_,
        ASegsText.cons L x xs T [32] body' hT htt (fun h => absurd h hmore) (fun _ => Or.inl rfl), hpre1⟩
      · congr 2
        simp only [hp, List.length_append, List.length_cons, List.length_nil]
        omega
      · rw [hout, hp]; simp
    · have hbase : base = pre1 ++ T := by
        have := List.append_inj_left' hb1 rfl
        exact this.symm
      refine ⟨st', pre1, T ++ (nl4 ++ body'), ?_, ?_,
        ASegsText.cons L x xs T nl4 body' hT htt (fun h => absurd h hmore) (fun _ => Or.inr rfl), hpre1⟩
      · congr 2
        simp only [hb2, hbase, nl4, List.length_append, List.length_cons, List.length_nil]
        omega
      · rw [hout, hb2, hbase]; simp

theorem getLast?_append_arr (done : List Cell) (body : List RSeg) :
    (done ++ (ASeg.arr body).cells).getLast? = some (ASeg.arr body).plast := by
  simp [ASeg.cells, ASeg.plast, List.getLast?_append, List.getLast?_cons]

theorem arun_cells_length (n : Nat) (h : Cell) (es : List Cell) :
    ((List.replicate n (h :: es)).flatten).length = n * (es.length + 1) := by
  induction n with
  | zero => simp
  | succ k ih => simp only [List.replicate_succ, List.flatten_cons, List.length_append, List.length_cons, ih, Nat.succ_mul]; omega

theorem getLast?_append_arun (done : List Cell) (n : Nat) (hn : 1 ≤ n) (body : List RSeg) :
    (done ++ (ASeg.arun n body).cells).getLast? = some (ASeg.arun n body).plast := by
  obtain ⟨m, rfl⟩ : ∃ m, n = m + 1 := ⟨n - 1, by omega⟩
  have e : (List.replicate (m + 1) (arrHdr body :: cellsAll body)).flatten =
      (List.replicate m (arrHdr body :: cellsAll body)).flatten ++ (arrHdr body :: cellsAll body) := by
    rw [List.replicate_succ']; simp
  simp only [ASeg.cells, ASeg.plast, e]
  rw [← List.append_assoc, List.getLast?_append]
  simp [List.getLast?_cons]

/-- **the loop of `rtosc_print_arg_vals` over an argument list of segments and arrays** writes a
    text of the pieces -/
theorem printLoop_asegs (opt : POpt) (hc : opt.compress = true) {xs : List ASeg} (hseg : ASegmented opt xs) :
    ∀ (args done : List Cell), args = done ++ cellsAllA xs →
      ∀ (fuel : Nat) (st : PSt) (wrt : Nat) (lastSep : Int) (awl : Nat), xs.length + 1 ≤ fuel →
        ((st.cols = 0 ∧ awl = 0) ∨ ∃ base, st.out = base ++ [32] ∧ lastSep = (base.length : Int)) →
        ∃ (st' : PSt) (pre body : Bytes),
          printArgValsLoop fuel opt args args.length done.length st wrt lastSep awl =
            .ok (st', wrt + ((pre ++ body).length - st.out.length)) ∧
          st'.out = pre ++ body ∧ ASegsText done.getLast? xs body ∧
          (pre = st.out ∨ ∃ base, st.out = base ++ [32] ∧ pre = base ++ nl4) := by
  induction hseg with
  | nil =>
    intro args done hargs fuel st wrt lastSep awl hf _
    obtain ⟨g, rfl⟩ : ∃ g, fuel = g + 1 := ⟨fuel - 1, by omega⟩
    refine ⟨st, st.out, [], ?_, by simp, ASegsText.nil _, Or.inl rfl⟩
    rw [printArgValsLoop]
    have : ¬ (done.length < args.length) := by rw [hargs]; simp [cellsAllA]
    simp [this, pure, Except.pure]
  | tok c xs hsc hpt hconv hrest ih =>
    intro args done hargs fuel st wrt lastSep awl hf hinv0
    have hinv : awl = 0 ∨ ∃ base, st.out = base ++ [32] ∧ lastSep = (base.length : Int) := by
      rcases hinv0 with ⟨_, h⟩ | h
      · exact Or.inl h
      · exact Or.inr h
    obtain ⟨f, rfl⟩ : ∃ g, fuel = g + 1 := ⟨fuel - 1, by omega⟩
    have hi : args.drop done.length = c :: cellsAllA xs := by rw [hargs]; simp [cellsAllA, ASeg.cells, RSeg.cells]
    have hlen : args.length = done.length + ((cellsAllA xs).length + 1) := by
      rw [hargs]; simp [cellsAllA, ASeg.cells, RSeg.cells]
    have hlt : done.length < args.length := by omega
    obtain ⟨t, cols', hprint, htok⟩ := hpt ((c :: cellsAllA xs).length + 2) (cellsAllA xs)
      (if done.length = 0 then none else (args.drop (done.length - 1)).head?) st
    obtain ⟨pre1, cols1, awl1, hpre1, hstep⟩ := printLoop_step opt args c (cellsAllA xs) done.length f st wrt lastSep awl
      hi hlt hsc t cols' hprint (by rw [hlen, Nat.add_sub_cancel_left]; exact hconv) hinv
    have hargs' : args = (done ++ (ASeg.seg (RSeg.tok c)).cells) ++ cellsAllA xs := by rw [hargs]; simp [cellsAllA]
    exact printLoop_contA opt args (.seg (.tok c)) xs _ done (by rw [hargs]; simp [cellsAllA])
      (ASeg.cells_ne_nil_of opt hrest)
      (fun fuel st wrt lastSep awl hf hinv => by
        have := ih args (done ++ (ASeg.seg (RSeg.tok c)).cells) hargs' fuel st wrt lastSep awl hf hinv
        simpa [ASeg.cells, ASeg.plast, RSeg.cells, RSeg.last] using this)
      f st wrt lastSep awl (by simp only [List.length_cons] at hf; omega) t pre1 cols1 awl1
      (ASegText.seg _ _ (SegText.tok t c htok hsc)) hpre1 (by simpa [ASeg.cells, RSeg.cells] using hstep)
  | crun n c xs hsc hpt hn5 hn2 hconv hrest ih =>
    intro args done hargs fuel st wrt lastSep awl hf hinv0
    have hinv : awl = 0 ∨ ∃ base, st.out = base ++ [32] ∧ lastSep = (base.length : Int) := by
      rcases hinv0 with ⟨_, h⟩ | h
      · exact Or.inl h
      · exact Or.inr h
    obtain ⟨f, rfl⟩ : ∃ g, fuel = g + 1 := ⟨fuel - 1, by omega⟩
    obtain ⟨m, rfl⟩ : ∃ m, n = m + 1 := ⟨n - 1, by omega⟩
    have hi : args.drop done.length = c :: (List.replicate m c ++ cellsAllA xs) := by
      rw [hargs]; simp [cellsAllA, ASeg.cells, RSeg.cells, List.replicate_succ]
    have hlen : args.length = done.length + ((m + 1) + (cellsAllA xs).length) := by
      rw [hargs]; simp [cellsAllA, ASeg.cells, RSeg.cells]
    have hlt : done.length < args.length := by omega
    have hconv' : convertToRange opt (c :: (List.replicate m c ++ cellsAllA xs)) (args.length - done.length) =
        .ok (some (m + 1, [Cell.rep ((m + 1 : Nat) : Int) 0, c])) := by
      rw [hlen, Nat.add_sub_cancel_left]
      simpa [List.replicate_succ] using hconv
    obtain ⟨t, cols', hprint, htok⟩ := printArgVal_constRun opt hc c hpt (m + 1) (by omega)
      ((c :: (List.replicate m c ++ cellsAllA xs)).length + 1)
      (if done.length = 0 then none else (args.drop (done.length - 1)).head?) st
    obtain ⟨pre1, cols1, awl1, hpre1, hstep⟩ := printLoop_step_run opt args c _ done.length f st wrt lastSep awl
      hi hlt (m + 1) _ hconv' (runText (m + 1) t) cols' hprint hinv
    have hargs' : args = (done ++ (ASeg.seg (RSeg.crun (m + 1) c)).cells) ++ cellsAllA xs := by
      rw [hargs]; simp [cellsAllA]
    have hlast : (done ++ (ASeg.seg (RSeg.crun (m + 1) c)).cells).getLast? = some c :=
      getLast?_append_replicate done (m + 1) c (by omega)
    exact printLoop_contA opt args (.seg (.crun (m + 1) c)) xs _ done (by rw [hargs]; simp [cellsAllA])
      (ASeg.cells_ne_nil_of opt hrest)
      (fun fuel st wrt lastSep awl hf hinv => by
        have := ih args (done ++ (ASeg.seg (RSeg.crun (m + 1) c)).cells) hargs' fuel st wrt lastSep awl hf hinv
        rw [hlast] at this
        simpa [ASeg.cells, ASeg.plast, RSeg.cells, RSeg.last] using this)
      f st wrt lastSep awl (by simp only [List.length_cons] at hf; omega) (runText (m + 1) t) pre1 cols1 awl1
      (ASegText.seg _ _ (SegText.crun (m + 1) t c htok hsc (by omega) hn2)) hpre1
      (by simpa [ASeg.cells, RSeg.cells] using hstep)
  | irun a d n xs h hconv hrest ih =>
    intro args done hargs fuel st wrt lastSep awl hf hinv0
    have hinv : awl = 0 ∨ ∃ base, st.out = base ++ [32] ∧ lastSep = (base.length : Int) := by
      rcases hinv0 with ⟨_, h⟩ | h
      · exact Or.inl h
      · exact Or.inr h
    obtain ⟨f, rfl⟩ : ∃ g, fuel = g + 1 := ⟨fuel - 1, by omega⟩
    have hn := h.hn
    have hi : args.drop done.length = Cell.int .i a :: ((arithRun a d n).drop 1 ++ cellsAllA xs) := by
      rw [hargs]
      simp only [cellsAllA, ASeg.cells, RSeg.cells, List.drop_left']
      rw [arithRun_cons a d n (by omega)]
      simp
    have hlen : args.length = done.length + (n + (cellsAllA xs).length) := by
      rw [hargs]; simp [cellsAllA, ASeg.cells, RSeg.cells, arithRun_length]
    have hlt : done.length < args.length := by omega
    have hconv' : convertToRange opt (Cell.int .i a :: ((arithRun a d n).drop 1 ++ cellsAllA xs))
        (args.length - done.length) = .ok (some (n, [Cell.rep n 1, Cell.int .i d, Cell.int .i a])) := by
      rw [hlen, Nat.add_sub_cancel_left, ← List.cons_append, ← arithRun_cons a d n (by omega)]
      exact hconv
    have hprev := prev_eq done (cellsAllA (ASeg.seg (RSeg.irun a d n) :: xs))
    rw [← hargs] at hprev
    obtain ⟨sep, cols', hsep, hpr⟩ := printRange_runG opt hc h
      ((Cell.int .i a :: ((arithRun a d n).drop 1 ++ cellsAllA xs)).length + 1) done.getLast? st
    have hprint : printArgVal ((Cell.int .i a :: ((arithRun a d n).drop 1 ++ cellsAllA xs)).length + 3) opt
        [Cell.rep n 1, Cell.int .i d, Cell.int .i a]
        (if done.length = 0 then none else (args.drop (done.length - 1)).head?) st =
        .ok (⟨st.out ++ runTextL done.getLast? a d n sep, cols'⟩, (runTextL done.getLast? a d n sep).length) := by
      rw [hprev, printArgVal_rep]
      exact hpr
    obtain ⟨pre1, cols1, awl1, hpre1, hstep⟩ := printLoop_step_run opt args _ _ done.length f st wrt lastSep awl
      hi hlt n _ hconv' _ cols' hprint hinv
    have hargs' : args = (done ++ (ASeg.seg (RSeg.irun a d n)).cells) ++ cellsAllA xs := by
      rw [hargs]; simp [cellsAllA]
    have hlast : (done ++ (ASeg.seg (RSeg.irun a d n)).cells).getLast? = some (Cell.int .i (zOf a d n)) :=
      getLast?_append_arithRun done a d n (by omega)
    have hT : SegText done.getLast? (.irun a d n) (runTextL done.getLast? a d n sep) := by
      unfold runTextL
      by_cases hsf : shortForm done.getLast? a d = true
      · simp only [hsf, ↓reduceIte]; exact SegText.short a d n sep h hsf hsep
      · have hsf' : shortForm done.getLast? a d = false := by simpa using hsf
        simp only [hsf', Bool.false_eq_true, ↓reduceIte]; exact SegText.long a d n sep h hsf' hsep
    exact printLoop_contA opt args (.seg (.irun a d n)) xs _ done (by rw [hargs]; simp [cellsAllA])
      (ASeg.cells_ne_nil_of opt hrest)
      (fun fuel st wrt lastSep awl hf hinv => by
        have := ih args (done ++ (ASeg.seg (RSeg.irun a d n)).cells) hargs' fuel st wrt lastSep awl hf hinv
        rw [hlast] at this
        simpa [ASeg.cells, ASeg.plast, RSeg.cells, RSeg.last, arithRun_length] using this)
      f st wrt lastSep awl (by simp only [List.length_cons] at hf; omega) _ pre1 cols1 awl1
      (ASegText.seg _ _ hT) hpre1 (by simpa [ASeg.cells, RSeg.cells, arithRun_length] using hstep)
  | arr body xs hbody hty hconv hrest ih =>
    intro args done hargs fuel st wrt lastSep awl hf hinv0
    have hinv : awl = 0 ∨ ∃ base, st.out = base ++ [32] ∧ lastSep = (base.length : Int) := by
      rcases hinv0 with ⟨_, h⟩ | h
      · exact Or.inl h
      · exact Or.inr h
    have hst : st.cols = 0 ∨ ∃ base, st.out = base ++ [32] := by
      rcases hinv0 with ⟨h, _⟩ | ⟨base, h, _⟩
      · exact Or.inl h
      · exact Or.inr ⟨base, h⟩
    obtain ⟨f, rfl⟩ : ∃ g, fuel = g + 1 := ⟨fuel - 1, by omega⟩
    have hcells : ArgCells (arrHdr body :: cellsAll body) := ArgCells.array (lastTyS body 32) (cellsAll body) hbody.scalars
    have hi : args.drop done.length = (arrHdr body :: cellsAll body) ++ cellsAllA xs := by
      rw [hargs]; simp [cellsAllA, ASeg.cells]
    have hlen : args.length = done.length + ((cellsAll body).length + 1 + (cellsAllA xs).length) := by
      rw [hargs]; simp [cellsAllA, ASeg.cells]; omega
    have hprev := prev_eq done (cellsAllA (ASeg.arr body :: xs))
    rw [← hargs] at hprev
    obtain ⟨pre, B, cols', hprint, hpre, hB⟩ := printArgVal_arrSegs opt hc hbody
      ((arrHdr body :: cellsAll body) ++ cellsAllA xs).length (cellsAllA xs) done.getLast? st hst
    have htl : (91 :: (B ++ [93])).length = B.length + 2 := by simp
    obtain ⟨pre1, cols1, awl1, hpre1, hstep⟩ :=
      printLoop_step_arg opt args (arrHdr body :: cellsAll body) (cellsAllA xs) done.length f st wrt lastSep awl hi hcells
        pre (91 :: (B ++ [93])) cols' (by rw [hprev, htl]; exact hprint)
        (by
          rcases hpre with h | h
          · exact Or.inl h
          · exact Or.inr ⟨rfl, h⟩)
        (by rw [hlen, Nat.add_sub_cancel_left]; simpa using hconv) hinv
    have hargs' : args = (done ++ (ASeg.arr body).cells) ++ cellsAllA xs := by rw [hargs]; simp [cellsAllA]
    have hlast := getLast?_append_arr done body
    exact printLoop_contA opt args (.arr body) xs _ done (by rw [hargs]; simp [cellsAllA])
      (ASeg.cells_ne_nil_of opt hrest)
      (fun fuel st wrt lastSep awl hf hinv => by
        have := ih args (done ++ (ASeg.arr body).cells) hargs' fuel st wrt lastSep awl hf hinv
        rw [hlast] at this
        simpa [ASeg.cells] using this)
      f st wrt lastSep awl (by simp only [List.length_cons] at hf; omega) _ pre1 cols1 awl1
      (ASegText.arr body B hB hty) hpre1 (by simpa [ASeg.cells] using hstep)

  | arun n body xs hbody hty hn5 hn2 hconv hrest ih =>
    intro args done hargs fuel st wrt lastSep awl hf hinv0
    have hinv : awl = 0 ∨ ∃ base, st.out = base ++ [32] ∧ lastSep = (base.length : Int) := by
      rcases hinv0 with ⟨_, h⟩ | h
      · exact Or.inl h
      · exact Or.inr h
    obtain ⟨f, rfl⟩ : ∃ g, fuel = g + 1 := ⟨fuel - 1, by omega⟩
    obtain ⟨m, rfl⟩ : ∃ m, n = m + 1 := ⟨n - 1, by omega⟩
    have hclen := arun_cells_length (m + 1) (arrHdr body) (cellsAll body)
    have hcells : (ASeg.arun (m + 1) body).cells = arrHdr body ::
        (cellsAll body ++ (List.replicate m (arrHdr body :: cellsAll body)).flatten) := by
      simp [ASeg.cells, List.replicate_succ]
    have hi : args.drop done.length = arrHdr body ::
        (cellsAll body ++ (List.replicate m (arrHdr body :: cellsAll body)).flatten ++ cellsAllA xs) := by
      rw [hargs]; simp [cellsAllA, hcells]
    have hlen : args.length = done.length + ((m + 1) * ((cellsAll body).length + 1) + (cellsAllA xs).length) := by
      rw [hargs]; simp only [cellsAllA, List.length_append, ASeg.cells, hclen]
    have hlt : done.length < args.length := by
      rw [hlen]; simp only [Nat.succ_mul]; omega
    have hconv' : convertToRange opt (arrHdr body ::
          (cellsAll body ++ (List.replicate m (arrHdr body :: cellsAll body)).flatten ++ cellsAllA xs))
        (args.length - done.length) =
        .ok (some ((m + 1) * ((cellsAll body).length + 1), Cell.rep ((m + 1 : Nat) : Int) 0 :: arrHdr body :: cellsAll body)) := by
      rw [hlen, Nat.add_sub_cancel_left]
      have := hconv
      simp only [List.replicate_succ, List.flatten_cons, List.cons_append, List.append_assoc] at this
      simpa [List.append_assoc] using this
    have hprev := prev_eq done (cellsAllA (ASeg.arun (m + 1) body :: xs))
    rw [← hargs] at hprev
    obtain ⟨B, cols', hprint, hB⟩ := printArgVal_arunSegs opt hc hbody (m + 1) (by omega)
      ((arrHdr body :: (cellsAll body ++ (List.replicate m (arrHdr body :: cellsAll body)).flatten ++ cellsAllA xs)).length - 1)
      done.getLast? st
    have hfuel : (arrHdr body :: (cellsAll body ++ (List.replicate m (arrHdr body :: cellsAll body)).flatten ++
        cellsAllA xs)).length - 1 + 4 =
        (arrHdr body :: (cellsAll body ++ (List.replicate m (arrHdr body :: cellsAll body)).flatten ++ cellsAllA xs)).length + 3 := by
      simp only [List.length_cons]; omega
    rw [hfuel, ← hprev] at hprint
    obtain ⟨pre1, cols1, awl1, hpre1, hstep⟩ := printLoop_step_run opt args _ _ done.length f st wrt lastSep awl
      hi hlt _ _ hconv' _ cols' hprint hinv
    have hargs' : args = (done ++ (ASeg.arun (m + 1) body).cells) ++ cellsAllA xs := by rw [hargs]; simp [cellsAllA]
    have hlast := getLast?_append_arun done (m + 1) (by omega) body
    have hxl : (ASeg.arun (m + 1) body).cells.length = (m + 1) * ((cellsAll body).length + 1) := by
      simp only [ASeg.cells, hclen]
    exact printLoop_contA opt args (.arun (m + 1) body) xs _ done (by rw [hargs]; simp [cellsAllA])
      (ASeg.cells_ne_nil_of opt hrest)
      (fun fuel st wrt lastSep awl hf hinv => by
        have := ih args (done ++ (ASeg.arun (m + 1) body).cells) hargs' fuel st wrt lastSep awl hf hinv
        rw [hlast] at this
        simpa [List.length_append] using this)
      f st wrt lastSep awl (by simp only [List.length_cons] at hf; omega) _ pre1 cols1 awl1
      (ASegText.arun (m + 1) body B hB hty (by omega) hn2) hpre1 (by rw [hxl]; exact hstep)

end Rtosc.Pretty
