/-
  C11 — `nxA`: a repetition of any good argument `A` (a scalar in a proved spelling, an array …)
  is a good argument: the cells are the range header `n, no delta` followed by the cells of `A`.
  The number lemmas on the multiplier text are C10's (`Proofs/PrettyRunConst.lean`).
-/
import RtoscModel.Proofs.ScanTransfer
import RtoscModel.Proofs.PrettyRunConst
namespace Rtosc.Pretty.C11
open Rtosc Rtosc.Libc Rtosc.Pretty
open Rtosc.ArgVal (Cell)

/-- the text of `nxA` -/
def repText (n : Nat) (t : Bytes) : Bytes := fmtDec (n : Int) ++ 120 :: t

theorem repText_length (n : Nat) (t : Bytes) : (repText n t).length = (fmtDec (n : Int)).length + 1 + t.length := by
  simp [repText]; omega

theorem scanMultiplier_arg (se : ElemScanner) (n : Nat) (hn : 1 ≤ n) (hn2 : n ≤ 2147483647) (t rest : Bytes)
    (cs : List Cell) (hse : se (t ++ rest) [] 0 false = .ok (t.length, cs)) :
    scanMultiplier se (fmtDec (n : Int) ++ 120 :: (t ++ rest)) = .ok ⟨rest, Cell.rep n 0 :: cs, false⟩ := by
  unfold scanMultiplier
  simp only [sscanf_fmtMult n hn hn2 (t ++ rest), bind, Except.bind, pure, Except.pure, drop_mult, hse,
    advance_append, toI32_id (n : Int) (by omega) (by omega)]
  where advance_append (t rest : Bytes) : advance (t ++ rest) t.length = .ok rest := by simp [advance]

/-- **`nxA`** -/
theorem Arg11.rep {t : Bytes} {cs : List Cell} (h : Arg11 t cs) (n : Nat) (hn : 1 ≤ n) (hn2 : n ≤ 2147483647) :
    Arg11 (repText n t) (Cell.rep n 0 :: cs) := by
  have hdig : ∀ r, isdigit (hd (fmtDec (n : Int) ++ 120 :: r)) = true := fun r => hd_mult n hn r
  have hstart : TokStart (repText n t) := by
    obtain ⟨_, _, _, _, _, _, _, _, _, _, _, _, b1, b2, b3, b4, b5, b6, b7⟩ := numStart_facts _ (Or.inr (hdig t))
    exact ⟨by simp [repText], b1, b2, b3, b4, b5, b6, b7⟩
  have happ : ∀ rest, repText n t ++ rest = fmtDec (n : Int) ++ 120 :: (t ++ rest) := by
    intro rest; simp [repText]
  have hlen := repText_length n t
  refine ⟨hstart, by simp, ?_, ?_, ?_, ?_, ?_⟩
  · -- next_arg_offset
    have := h.off
    unfold nextArgOffset
    simp only [List.length_cons, deref, bind, Except.bind, List.drop_succ_cons, List.drop_zero, this, pure, Except.pure]
    congr 1
    simp; omega
  · -- can_precede_range
    obtain ⟨c, r, hc⟩ := List.exists_cons_of_ne_nil h.ne
    exact ⟨decide (c.type ≠ ArgVal.tyA), by simp [canPrecedeRange, deref, bind, Except.bind, pure, Except.pure, hc]⟩
  · -- the element type: the type of the repeated value's first cell
    obtain ⟨c, r, hc⟩ := List.exists_cons_of_ne_nil h.ne
    exact ⟨c.type, by simp [elemTy, deref, bind, Except.bind, pure, Except.pure, hc]⟩
  · intro rest fuel prev ab fe hs hf
    obtain ⟨f, rfl⟩ : ∃ f, fuel = f + 1 := ⟨fuel - 1, by omega⟩
    have hse := h.scan rest f [] 0 false hs (by omega)
    have h91 : hd (repText n t ++ rest) ≠ 91 := by
      rw [happ]
      exact (numStart_facts _ (Or.inr (hdig _))).2.2.2.2.2.2.2.2.1
    unfold C11.scanArgVal
    rw [scanValue_noBracket _ _ _ h91, happ,
      scanValue_mult _ _ _ (hdig _) (isRangeMultiplier_mult n hn _),
      scanMultiplier_arg _ n hn hn2 t rest cs hse]
    simp only [bind, Except.bind]
    have := finishArg_plain (C11.scanArgVal (f + 1)) (repText n t) rest (Cell.rep n 0 :: cs) false prev ab fe hs
    rw [happ] at this
    exact this
  · intro rest fuel ty llhs fe ib hs hf
    obtain ⟨f, rfl⟩ : ∃ f, fuel = f + 1 := ⟨fuel - 1, by omega⟩
    obtain ⟨r, hr, hsrc, hsk, hty⟩ := h.skip rest f 0 none false ib hs (by omega)
    have h3 := (sep_skipSpace_facts rest hs).2
    refine ⟨⟨some rest, 1 + r.skipped, 45⟩, ?_, rfl, by simp [hsk]; omega, rfl⟩
    unfold C11.skipNextPrintedArg
    rw [happ, skipValue_mult _ _ _ _ (hdig _) (isRangeMultiplier_mult n hn _)]
    unfold skipMultiplier
    simp only [afterX_mult n hn (t ++ rest), hr, bind, Except.bind, hsrc, pure, Except.pure, h3,
      Bool.false_eq_true, and_false, ↓reduceIte]

end Rtosc.Pretty.C11
