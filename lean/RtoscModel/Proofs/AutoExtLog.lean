/-
  C19 — the default mapping of a logarithmic-scale parameter, over any exact arithmetic.

  `IsExact A` says that the carrier is an ordered field and every arithmetic operation of `A`
  is the exact field operation (no rounding); `roundf`, `(int)`, `logf`, `expf` stay whatever
  `A` says.  Under `IsExact` the control points at gain 100 / offset 0 are the stored bounds
  themselves and a slot value in [0,1] is never clamped, so that a log-scale automation emits
  `expf (logf lo + x·(logf hi − logf lo))`.  Instances: `exactLog lg ex` over `Rat` (here) and
  the real numbers with `Real.log`/`Real.exp` (Proofs/AutoExtReal.lean).
-/
import Mathlib.Tactic.Linarith
import Mathlib.Tactic.Ring
import Mathlib.Tactic.FieldSimp
import Mathlib.Tactic.NormNum
import Mathlib.Algebra.Order.Field.Basic
import RtoscModel.AutoSpecLog
import RtoscModel.Proofs.AutoLemmas
namespace Rtosc.Auto
open Rtosc

variable {K : Type} [Field K] [LinearOrder K] [IsStrictOrderedRing K]

/-- every arithmetic operation of `A` is the exact operation of the ordered field `K` -/
structure IsExact (A : Arith K) : Prop where
  le_iff : ∀ x y, A.le x y = true ↔ x ≤ y
  zero : A.zero = 0
  one : A.one = 1
  half : A.half = 1 / 2
  two : A.two = 2
  hundred : A.hundred = 100
  add32 : ∀ x y, A.add32 x y = x + y
  sub32 : ∀ x y, A.sub32 x y = x - y
  mul32 : ∀ x y, A.mul32 x y = x * y
  add64 : ∀ x y, A.add64 x y = x + y
  sub64 : ∀ x y, A.sub64 x y = x - y
  mul64 : ∀ x y, A.mul64 x y = x * y
  div64 : ∀ x y, A.div64 x y = x / y
  to32 : ∀ x, A.to32 x = x

omit [IsStrictOrderedRing K] in
theorem IsExact.le_false {A : Arith K} (hA : IsExact A) (x y : K) : A.le x y = false ↔ y < x := by
  rw [← not_le, ← hA.le_iff]; simp

/-- at gain 100 and offset 0 the control points are the stored bounds -/
theorem mapping_default_exact {A : Arith K} (hA : IsExact A) (mn mx : K) :
    mapping A mn mx 100 0 = (mn, mx) := by
  simp only [mapping, hA.add32, hA.sub32, hA.mul32, hA.add64, hA.sub64, hA.mul64, hA.div64, hA.to32,
    hA.half, hA.two, hA.hundred]
  refine Prod.ext ?_ ?_ <;> simp only <;> field_simp <;> ring

/-- the message a log-scale automation must emit at slot value `x` (generic carrier) -/
def logMsgK (A : Arith K) (path : Bytes) (ty : Char) (lo hi x : K) : Msg K :=
  let a := A.logf lo + x * (A.logf hi - A.logf lo)
  if ty = 'i' then { addr := path, ty := 'i', val := .int (A.toInt (A.roundf (A.expf a))), expArg := some a }
  else { addr := path, ty := 'f', val := .flt (A.expf a), expArg := some a }

/-- the core computation: control points in sync at the default gain/offset, ordered stored
    bounds, slot value in [0,1] -/
theorem emit_default_log_core {A : Arith K} (hA : IsExact A) (au : Automation K) (x : K) (hu : au.used = true)
    (hty : au.ty = 'i' ∨ au.ty = 'f') (hl : au.logScale = true)
    (hcp : (au.cp1, au.cp3) = mapping A au.pmin au.pmax 100 0) (hm : au.pmin ≤ au.pmax)
    (hx0 : 0 ≤ x) (hx1 : x ≤ 1) :
    emit A au x =
      [ if au.ty = 'i' then
          { addr := au.path, ty := 'i',
            val := .int (A.toInt (A.roundf (A.expf (au.pmin + x * (au.pmax - au.pmin))))),
            expArg := some (au.pmin + x * (au.pmax - au.pmin)) }
        else
          { addr := au.path, ty := 'f', val := .flt (A.expf (au.pmin + x * (au.pmax - au.pmin))),
            expArg := some (au.pmin + x * (au.pmax - au.pmin)) } ] := by
  rw [mapping_default_exact hA] at hcp
  have h1 : au.cp1 = au.pmin := congrArg Prod.fst hcp
  have h3 : au.cp3 = au.pmax := congrArg Prod.snd hcp
  have hd : 0 ≤ au.pmax - au.pmin := by linarith
  have ha : 0 ≤ x * (au.pmax - au.pmin) := mul_nonneg hx0 hd
  have hb : 0 ≤ (1 - x) * (au.pmax - au.pmin) := mul_nonneg (by linarith) hd
  have hv : A.add32 (A.mul32 x (A.sub32 au.cp3 au.cp1)) au.cp1 = au.pmin + x * (au.pmax - au.pmin) := by
    rw [hA.add32, hA.mul32, hA.sub32, h1, h3]; ring
  have hc : clamp A au.pmin au.pmax (au.pmin + x * (au.pmax - au.pmin)) = au.pmin + x * (au.pmax - au.pmin) := by
    have e1 : A.le (au.pmin + x * (au.pmax - au.pmin)) au.pmax = true := (hA.le_iff _ _).mpr (by nlinarith)
    have e2 : A.le au.pmin (au.pmin + x * (au.pmax - au.pmin)) = true := (hA.le_iff _ _).mpr (by linarith)
    simp [clamp, Arith.gt, e1, e2]
  unfold emit
  simp only [hu, Bool.not_true, Bool.false_eq_true, ↓reduceIte, hv, hc, hl]
  rcases hty with hi | hf
  · simp [hi]
  · simp [hf]

/-- the declared range of a well-formed port is ordered (exact arithmetic) -/
theorem portRange_ordered_exact {A : Arith K} (hA : IsExact A) (p : PortInfo K) (hw : PortWF A p)
    (lo hi : K) (hr : portRange A p = some (lo, hi)) : lo ≤ hi := by
  obtain ⟨hw1, _, _⟩ := hw
  unfold portRange at hr
  split at hr
  · simp only [Option.some.injEq, Prod.mk.injEq] at hr
    rw [← hr.1, ← hr.2, hA.zero, hA.one]; norm_num
  · split at hr
    · rename_i mn mx hmn hmx
      obtain ⟨h1, h2⟩ := hw1 mn mx hmn hmx
      simp only [Option.some.injEq, Prod.mk.injEq, hA.to32] at hr
      rw [← hr.1, ← hr.2]
      split
      · cases hl : p.logmin with
        | none => simpa using (hA.le_iff _ _).mp h1
        | some l => simpa [hA.to32] using (hA.le_iff _ _).mp (h2 l hl)
      · exact (hA.le_iff _ _).mp h1
    · simp at hr

/-- **the default mapping of a log-scale automation**, from the invariant `Good`: an
    automation bound to the log-scale port `p` under `path` has a declared range `lo..hi`
    (`portRange`) that is positive and ordered, and the emitted message is `logMsgK`. -/
theorem emit_default_log {A : Arith K} (hA : IsExact A)
    (hmono : ∀ a b : K, 0 < a → a ≤ b → A.logf a ≤ A.logf b)
    (au : Automation K) (hgood : Good A au) (hu : au.used = true) (hg : au.gain = 100) (ho : au.offset = 0)
    (path : Bytes) (p : PortInfo K) (hbound : au.bound = some (path, p)) (hs : p.scaleLog = true)
    (x : K) (hx0 : 0 ≤ x) (hx1 : x ≤ 1) :
    ∃ (lo hi : K),
      (portType p = 'i' ∨ portType p = 'f') ∧ portRange A p = some (lo, hi) ∧ 0 < lo ∧ lo ≤ hi ∧
      emit A au x = [logMsgK A path (portType p) lo hi x] := by
  obtain ⟨hfp, hcp⟩ := hgood.1 hu
  obtain ⟨au0, b, path', p', hw, hp, hlen, hb, e0, e1, e2, e3, e4, e5⟩ := hfp
  rw [hbound] at e0
  simp only [Option.some.injEq, Prod.mk.injEq] at e0
  obtain ⟨rfl, rfl⟩ := e0
  obtain ⟨s1, s2, s3, lo, hi, hr, _, hlog⟩ := bindInfo_spec A au0 b path p hw hlen hb
  have hl : au.logScale = true := by rw [e5, s3]; exact hs
  obtain ⟨q1, q2⟩ := hlog hs
  have hpos : 0 < lo := by
    have := hw.2.2 hs lo hi hr
    rw [hA.le_false, hA.zero] at this; exact this
  have hle : lo ≤ hi := portRange_ordered_exact hA p hw lo hi hr
  have hty : portType p = 'i' ∨ portType p = 'f' := by
    unfold portType
    by_cases hF : p.hasF = true
    · simp [hF]
    · by_cases hT : p.hasT = true
      · have := hw.2.1 (by simpa using hF) hT
        rw [hs] at this; cases this
      · simp [hF, hT]
  have hty' : au.ty = 'i' ∨ au.ty = 'f' := by rw [e2, s2]; exact hty
  have hm : au.pmin ≤ au.pmax := by rw [e3, e4, q1, q2]; exact hmono lo hi hpos hle
  rw [hg, ho] at hcp
  refine ⟨lo, hi, hty, hr, hpos, hle, ?_⟩
  rw [emit_default_log_core hA au x hu hty' hl hcp hm hx0 hx1]
  simp only [logMsgK, e1, s1, e2, s2, e3, e4, q1, q2]

/-! ### the rational instance -/

theorem exactLog_isExact (lg ex : ℚ → ℚ) : IsExact (exactLog lg ex) := by
  constructor <;> intros <;> simp [exactLog]

theorem logMsgK_exactLog (lg ex : ℚ → ℚ) (path : Bytes) (ty : Char) (lo hi x : ℚ) :
    logMsgK (exactLog lg ex) path ty lo hi x = logMsg lg ex path ty lo hi x := rfl

/-- the order laws hold of `exactLog lg ex` as soon as `lg` is monotone on positive arguments
    and `ex` is monotone -/
theorem exactLog_laws (lg ex : ℚ → ℚ) (hlg : ∀ a b : ℚ, 0 < a → a ≤ b → lg a ≤ lg b)
    (hex : ∀ a b : ℚ, a ≤ b → ex a ≤ ex b) : Laws (exactLog lg ex) := by
  have E := exact_laws
  constructor
  · exact E.le_total
  · exact E.le_trans
  · exact E.zero_le_one
  · exact E.zero_le_two
  · exact E.zero_le_hundred
  · exact E.sub32_nonneg
  · exact E.mul32_nonneg
  · exact E.mul32_mono
  · exact E.add32_mono
  · exact E.div64_nonneg
  · exact E.sub64_le_add64
  · exact E.to32_mono
  · exact E.to32_zero
  · exact E.roundf_mono
  · exact E.toInt_mono
  · intro x y hx hxy
    simp only [exactLog, decide_eq_true_eq, decide_eq_false_iff_not, not_le] at hx hxy ⊢
    exact hlg x y hx hxy
  · intro x y hxy
    simp only [exactLog, decide_eq_true_eq] at hxy ⊢
    exact hex x y hxy

/-! ### the decade tables of RtoscModel/AutoSpecLog.lean are monotone -/

theorem lg10_mono (a b : ℚ) (hab : a ≤ b) : lg10 a ≤ lg10 b := by
  simp only [lg10]
  by_cases h1 : b ≤ 1
  · have : a ≤ 1 := le_trans hab h1
    simp [h1, this]
  · by_cases h2 : b ≤ 10
    · have : a ≤ 10 := le_trans hab h2
      simp only [h1, h2, ↓reduceIte, this]
      split <;> decide
    · simp only [h1, h2, ↓reduceIte]
      split
      · decide
      · split <;> decide

theorem ex10_mono (a b : ℚ) (hab : a ≤ b) : ex10 a ≤ ex10 b := by
  simp only [ex10]
  by_cases h1 : b ≤ 0
  · have : a ≤ 0 := le_trans hab h1
    simp [h1, this]
  · by_cases h2 : b ≤ 1
    · have : a ≤ 1 := le_trans hab h2
      simp only [h1, h2, ↓reduceIte, this]
      split <;> decide
    · simp only [h1, h2, ↓reduceIte]
      split
      · decide
      · split <;> decide

theorem lgAbs_mono_pos (a b : ℚ) (ha : 0 < a) (hab : a ≤ b) : lgAbs a ≤ lgAbs b := by
  have hb : 0 < b := lt_of_lt_of_le ha hab
  have na : ¬ a < 0 := not_lt.mpr (le_of_lt ha)
  have nb : ¬ b < 0 := not_lt.mpr (le_of_lt hb)
  simp only [lgAbs, na, nb, ↓reduceIte]
  exact lg10_mono a b hab

/-! ### a fresh manager binds a float port (non-vacuity of the theorems' hypotheses) -/

theorem bind_fresh {F : Type} (A : Arith F) (path : Bytes) (p : PortInfo F) (mn mx : F)
    (hF : p.hasF = true) (hmn : p.min = some mn) (hmx : p.max = some mx)
    (hi : p.internal = false) (hn : p.noLearn = false) :
    ∃ (m' : Mgr F) (sl : Slot F) (au : Automation F),
      step A (Mgr.init A 1 1) (.bind 0 path (some p) false) = some (m', []) ∧
      sl ∈ m'.slots ∧ au ∈ sl.autos ∧ au.used = true ∧ au.gain = A.hundred ∧ au.offset = A.zero ∧
      au.bound = some (path, p) := by
  cases hs : p.scaleLog <;> cases hl : p.logmin <;>
  simp [step, createBinding, portUsable, Mgr.init, Slot.init, Automation.init, firstFree, bindInfo,
    Mgr.slotOob, hF, hmn, hmx, hi, hn, hs, hl, Automation.remap]

/-! ### what the invariant says about an automation bound to a log-scale port (any arithmetic) -/

theorem bound_log_facts {F : Type} (A : Arith F) (au : Automation F) (hgood : Good A au) (hu : au.used = true)
    (path : Bytes) (p : PortInfo F) (hbound : au.bound = some (path, p)) (hs : p.scaleLog = true) :
    ∃ lo hi, portRange A p = some (lo, hi) ∧ PortWF A p ∧ au.path = path ∧ au.ty = portType p ∧
      (portType p = 'i' ∨ portType p = 'f') ∧ au.logScale = true ∧
      au.pmin = A.logf lo ∧ au.pmax = A.logf hi ∧
      (au.cp1, au.cp3) = mapping A au.pmin au.pmax au.gain au.offset ∧ FromPort A au := by
  obtain ⟨hfp, hcp⟩ := hgood.1 hu
  have hfp' := hfp
  obtain ⟨au0, b, path', p', hw, hp, hlen, hb, e0, e1, e2, e3, e4, e5⟩ := hfp
  rw [hbound] at e0
  simp only [Option.some.injEq, Prod.mk.injEq] at e0
  obtain ⟨rfl, rfl⟩ := e0
  obtain ⟨s1, s2, s3, lo, hi, hr, _, hlog⟩ := bindInfo_spec A au0 b path p hw hlen hb
  obtain ⟨q1, q2⟩ := hlog hs
  have hty : portType p = 'i' ∨ portType p = 'f' := by
    unfold portType
    by_cases hF : p.hasF = true
    · simp [hF]
    · by_cases hT : p.hasT = true
      · have := hw.2.1 (by simpa using hF) hT
        rw [hs] at this; cases this
      · simp [hF, hT]
  exact ⟨lo, hi, hr, hw, by rw [e1, s1], by rw [e2, s2], hty, by rw [e5, s3]; exact hs,
    by rw [e3, q1], by rw [e4, q2], hcp, hfp'⟩

end Rtosc.Auto
