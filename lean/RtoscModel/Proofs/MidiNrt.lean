/-
  C20 — the non-realtime half keeps `inv_map`, the learn queue and the current snapshot
  consistent (`NrtOk`), provided no controller is learned twice; explicit post-states of
  map / unMap / useFreeID under that invariant.
-/
import RtoscModel.Proofs.MidiLemmas
set_option linter.unusedSimpArgs false
namespace Rtosc.Midi

/-- A snapshot is well-formed: slots inside the vectors, distinct controller IDs. -/
structure StOk (st : Storage) : Prop where
  slots : ∀ e ∈ st.mapping, e.slot < st.callbacks.length
  vals : st.values.length = st.callbacks.length
  nodup : (ids st.mapping).Nodup

/-- coarse or fine controller of an `inv_map` entry -/
def sel (k : Bool) (im : Imap) : Option Nat := if k then im.coarse else im.fine

def NRT.mapping (n : NRT) : List MapEnt := match n.storage with | none => [] | some st => st.mapping
def NRT.callbacks (n : NRT) : List Cb := match n.storage with | none => [] | some st => st.callbacks

/-- Consistency of the non-realtime half. -/
structure NrtOk (P : List PortSpec) (n : NRT) : Prop where
  st_none : n.storage = none → n.invMap = []
  stok : ∀ st, n.storage = some st → StOk st
  inv_slot : ∀ a im, imLookup n.invMap a = some im →
    ∃ cb, n.callbacks[im.slot]? = some cb ∧ cb.addr = a
  inv_sel : ∀ a im k c, imLookup n.invMap a = some im → sel k im = some c →
    (⟨c, k, im.slot⟩ : MapEnt) ∈ n.mapping
  map_inv : ∀ e ∈ n.mapping, ∃ cb im, n.callbacks[e.slot]? = some cb ∧
    imLookup n.invMap cb.addr = some im ∧ im.slot = e.slot ∧ sel e.coarse im = some e.id
  q_nodup : n.learnQ.Nodup
  q_unbound : ∀ a k im, (a, k) ∈ n.learnQ → imLookup n.invMap a = some im → sel k im = none
  q_ports : ∀ a k, (a, k) ∈ n.learnQ → a < P.length

theorem nrtOk_init (P) : NrtOk P NRT.init := by
  constructor <;> simp [NRT.init, imLookup, NRT.mapping]

theorem NrtOk.storage_some {P n a im} (h : NrtOk P n) (hl : imLookup n.invMap a = some im) :
    ∃ st, n.storage = some st := by
  cases hs : n.storage with
  | none => have := h.st_none hs; simp [this, imLookup] at hl
  | some st => exact ⟨st, rfl⟩

/-- how `unMap a k` changes `inv_map` -/
structure InvUpd (old new : List (Nat × Imap)) (a : Nat) (k : Bool) : Prop where
  other : ∀ b, b ≠ a → imLookup new b = imLookup old b
  same : ∀ im', imLookup new a = some im' →
    ∃ im, imLookup old a = some im ∧ im'.slot = im.slot ∧ sel k im' = none ∧ sel (!k) im' = sel (!k) im
  gone : imLookup new a = none → ∀ im, imLookup old a = some im → sel (!k) im = none

def unMapInv (m : List (Nat × Imap)) (a : Nat) (k : Bool) (im : Imap) : List (Nat × Imap) :=
  let im' : Imap := if k then { im with coarse := none } else { im with fine := none }
  if im'.coarse = none ∧ im'.fine = none then imErase m a else imSet m a im'

theorem invUpd_step (m : List (Nat × Imap)) (a : Nat) (k : Bool) (im : Imap)
    (hl : imLookup m a = some im) : InvUpd m (unMapInv m a k im) a k := by
  cases k
  · by_cases hc : im.coarse = none
    · have : unMapInv m a false im = imErase m a := by simp [unMapInv, hc]
      rw [this]
      constructor
      · intro b hb; simp [imLookup_imErase, hb]
      · intro im'; simp [imLookup_imErase]
      · intro _ im2 h2; rw [hl] at h2; cases h2; simp [sel, hc]
    · have : unMapInv m a false im = imSet m a { im with fine := none } := by simp [unMapInv, hc]
      rw [this]
      constructor
      · intro b hb; simp [imLookup_imSet, hb]
      · intro im'; simp only [imLookup_imSet, ↓reduceIte, Option.some.injEq]
        rintro rfl; exact ⟨im, hl, rfl, rfl, rfl⟩
      · simp [imLookup_imSet]
  · by_cases hc : im.fine = none
    · have : unMapInv m a true im = imErase m a := by simp [unMapInv, hc]
      rw [this]
      constructor
      · intro b hb; simp [imLookup_imErase, hb]
      · intro im'; simp [imLookup_imErase]
      · intro _ im2 h2; rw [hl] at h2; cases h2; simp [sel, hc]
    · have : unMapInv m a true im = imSet m a { im with coarse := none } := by simp [unMapInv, hc]
      rw [this]
      constructor
      · intro b hb; simp [imLookup_imSet, hb]
      · intro im'; simp only [imLookup_imSet, ↓reduceIte, Option.some.injEq]
        rintro rfl; exact ⟨im, hl, rfl, rfl, rfl⟩
      · simp [imLookup_imSet]

/-- `unMap` under the invariant: nothing bound → only `inv_map` bookkeeping; otherwise the
    bound controller's single mapping entry is removed and a `midi-bind` is sent. -/
theorem unMap_eq {P n} (h : NrtOk P n) (a : Nat) (k : Bool) :
    (imLookup n.invMap a = none ∧ n.unMap a k = some (n, [])) ∨
    (∃ im, imLookup n.invMap a = some im ∧ sel k im = none ∧
        n.unMap a k = some ({ n with invMap := unMapInv n.invMap a k im }, [])) ∨
    (∃ im c st, imLookup n.invMap a = some im ∧ sel k im = some c ∧ n.storage = some st ∧
        c ∈ ids st.mapping ∧
        n.unMap a k = some
          ({ n with invMap := unMapInv n.invMap a k im,
                    storage := some ⟨st.mapping.filter (fun e => e.id != c), st.callbacks,
                                     List.replicate st.values.length 0⟩ },
           [.bind ⟨st.mapping.filter (fun e => e.id != c), st.callbacks,
                   List.replicate st.values.length 0⟩ none])) := by
  cases hl : imLookup n.invMap a with
  | none => left; simp [NRT.unMap, hl]
  | some im =>
    right
    cases hs : sel k im with
    | none =>
      left
      refine ⟨im, rfl, hs, ?_⟩
      cases k <;> simp_all [NRT.unMap, sel, unMapInv]
    | some c =>
      right
      obtain ⟨st, hst⟩ := h.storage_some hl
      have hmem := h.inv_sel a im k c hl hs
      simp only [NRT.mapping, hst] at hmem
      have hc : c ∈ ids st.mapping := mem_ids.mpr ⟨_, hmem, rfl⟩
      have hk := killMap_unique (h.stok st hst).nodup hc
      refine ⟨im, c, st, rfl, hs, hst, hc, ?_⟩
      cases k <;> simp_all [NRT.unMap, sel, unMapInv, Storage.clone]

theorem sel_cases (k k' : Bool) : k' = k ∨ k' = !k := by cases k <;> cases k' <;> simp

theorem nrtOk_unmap_nokill {P n a k im inv'} (h : NrtOk P n)
    (hl : imLookup n.invMap a = some im) (hs : sel k im = none)
    (hu : InvUpd n.invMap inv' a k) : NrtOk P { n with invMap := inv' } := by
  constructor
  · intro hn; have := h.st_none hn; simp [this, imLookup] at hl
  · exact h.stok
  · intro b im' hb
    by_cases hba : b = a
    · subst hba
      obtain ⟨im0, h0, hslot, _, _⟩ := hu.same im' hb
      rw [hslot]; exact h.inv_slot b im0 h0
    · rw [hu.other b hba] at hb; exact h.inv_slot b im' hb
  · intro b im' k' c hb hsel
    by_cases hba : b = a
    · subst hba
      obtain ⟨im0, h0, hslot, hk, hnk⟩ := hu.same im' hb
      rw [hl] at h0; cases h0
      rcases sel_cases k k' with rfl | rfl
      · rw [hk] at hsel; cases hsel
      · rw [hnk] at hsel; rw [hslot]; exact h.inv_sel b im (!k) c hl hsel
    · rw [hu.other b hba] at hb; exact h.inv_sel b im' k' c hb hsel
  · intro e he
    obtain ⟨cb, im0, hcb, hl0, hslot, hsel⟩ := h.map_inv e he
    by_cases hba : cb.addr = a
    · rw [hba, hl] at hl0; cases hl0
      rcases sel_cases k e.coarse with hk | hk
      · rw [hk, hs] at hsel; cases hsel
      · cases hn : imLookup inv' a with
        | none => have := hu.gone hn im hl; rw [hk, this] at hsel; cases hsel
        | some im' =>
          obtain ⟨im0, h0, hslot', _, hnk⟩ := hu.same im' hn
          rw [hl] at h0; cases h0
          exact ⟨cb, im', hcb, by rw [hba]; exact hn, by rw [hslot', hslot], by rw [hk, hnk, ← hk]; exact hsel⟩
    · exact ⟨cb, im0, hcb, by rw [hu.other _ hba]; exact hl0, hslot, hsel⟩
  · exact h.q_nodup
  · intro b k' im' hq hb
    by_cases hba : b = a
    · subst hba
      obtain ⟨im0, h0, _, hk, hnk⟩ := hu.same im' hb
      rcases sel_cases k k' with rfl | rfl
      · exact hk
      · rw [hnk]; exact h.q_unbound b (!k) im0 hq h0
    · rw [hu.other b hba] at hb; exact h.q_unbound b k' im' hq hb
  · exact h.q_ports

theorem stOk_filter {st : Storage} (h : StOk st) (c : Nat) :
    StOk ⟨st.mapping.filter (fun e => e.id != c), st.callbacks, List.replicate st.values.length 0⟩ := by
  constructor
  · intro e he; exact h.slots e (List.mem_filter.mp he).1
  · simp [h.vals]
  · exact List.Nodup.sublist (ids_filter_sublist _ _) h.nodup

theorem nrtOk_unmap_kill {P n a k im c st inv'} (h : NrtOk P n)
    (hl : imLookup n.invMap a = some im) (hs : sel k im = some c) (hst : n.storage = some st)
    (hu : InvUpd n.invMap inv' a k) :
    NrtOk P { n with invMap := inv',
                     storage := some ⟨st.mapping.filter (fun e => e.id != c), st.callbacks,
                                      List.replicate st.values.length 0⟩ } := by
  have hok := h.stok st hst
  have hent : (⟨c, k, im.slot⟩ : MapEnt) ∈ st.mapping := by
    have := h.inv_sel a im k c hl hs; simpa [NRT.mapping, hst] using this
  have huniq : ∀ e ∈ st.mapping, e.id = c → e = ⟨c, k, im.slot⟩ :=
    fun e he hc => eq_of_mem_nodup hok.nodup he hent hc
  have hcbs : n.callbacks = st.callbacks := by simp [NRT.callbacks, hst]
  have hmp : n.mapping = st.mapping := by simp [NRT.mapping, hst]
  obtain ⟨cba, hcba, hcbaddr⟩ := h.inv_slot a im hl
  constructor
  · intro hn; simp at hn
  · intro st' hst'; simp at hst'; subst hst'; exact stOk_filter hok c
  · intro b im' hb
    simp only [NRT.callbacks]
    rw [← hcbs]
    by_cases hba : b = a
    · subst hba
      obtain ⟨im0, h0, hslot, _, _⟩ := hu.same im' hb
      rw [hslot]; exact h.inv_slot b im0 h0
    · rw [hu.other b hba] at hb; exact h.inv_slot b im' hb
  · intro b im' k' c' hb hsel
    simp only [NRT.mapping, List.mem_filter, bne_iff_ne, ne_eq]
    by_cases hba : b = a
    · subst hba
      obtain ⟨im0, h0, hslot, hk, hnk⟩ := hu.same im' hb
      rw [hl] at h0; cases h0
      rcases sel_cases k k' with rfl | rfl
      · rw [hk] at hsel; cases hsel
      · rw [hnk] at hsel
        have hm := h.inv_sel b im (!k) c' hl hsel
        rw [hmp] at hm
        refine ⟨by rw [hslot]; exact hm, ?_⟩
        intro hcc; subst hcc
        have := huniq _ hm rfl
        simp at this
    · rw [hu.other b hba] at hb
      have hm := h.inv_sel b im' k' c' hb hsel
      rw [hmp] at hm
      refine ⟨hm, ?_⟩
      intro hcc; subst hcc
      have he := huniq _ hm rfl
      simp only [MapEnt.mk.injEq, true_and] at he
      obtain ⟨cbb, hcbb, hcbbaddr⟩ := h.inv_slot b im' hb
      rw [he.2, hcba] at hcbb; cases hcbb
      exact hba (hcbbaddr.symm.trans hcbaddr)
  · intro e he
    simp only [NRT.mapping, List.mem_filter, bne_iff_ne, ne_eq] at he
    simp only [NRT.callbacks]; rw [← hcbs]
    obtain ⟨cb, im0, hcb, hl0, hslot, hsel⟩ := h.map_inv e (by rw [hmp]; exact he.1)
    by_cases hba : cb.addr = a
    · rw [hba, hl] at hl0; cases hl0
      rcases sel_cases k e.coarse with hk | hk
      · rw [hk, hs] at hsel; cases hsel; exact absurd rfl he.2
      · cases hn : imLookup inv' a with
        | none => have := hu.gone hn im hl; rw [hk, this] at hsel; cases hsel
        | some im' =>
          obtain ⟨im0, h0, hslot', _, hnk⟩ := hu.same im' hn
          rw [hl] at h0; cases h0
          exact ⟨cb, im', hcb, by rw [hba]; exact hn, by rw [hslot', hslot], by rw [hk, hnk, ← hk]; exact hsel⟩
    · exact ⟨cb, im0, hcb, by rw [hu.other _ hba]; exact hl0, hslot, hsel⟩
  · exact h.q_nodup
  · intro b k' im' hq hb
    by_cases hba : b = a
    · subst hba
      obtain ⟨im0, h0, _, hk, hnk⟩ := hu.same im' hb
      rcases sel_cases k k' with rfl | rfl
      · exact hk
      · rw [hnk]; exact h.q_unbound b (!k) im0 hq h0
    · rw [hu.other b hba] at hb; exact h.q_unbound b k' im' hq hb
  · exact h.q_ports

/-- Generic post-state of a successful learn step (`useFreeID`): one mapping entry is
    appended, the callback vector is extended at most at its end, `inv_map` changes only
    at `a`. -/
theorem nrtOk_learn {P : List PortSpec} {n : NRT} {a : Nat} {k : Bool} {q : List (Nat × Bool)}
    {id slot : Nat} {inv' : List (Nat × Imap)} {cbs' extra : List Cb} {im' : Imap} {cb0 : Cb} {vals : List Nat}
    (h : NrtOk P n) (hq : n.learnQ = (a, k) :: q) (hid : id ∉ ids n.mapping)
    (hcbs : cbs' = n.callbacks ++ extra) (hcb0 : cbs'[slot]? = some cb0) (haddr : cb0.addr = a)
    (hvals : vals.length = cbs'.length)
    (hother : ∀ b, b ≠ a → imLookup inv' b = imLookup n.invMap b)
    (hnew : imLookup inv' a = some im') (hslot : im'.slot = slot) (hk : sel k im' = some id)
    (hold : ∀ im, imLookup n.invMap a = some im → sel (!k) im' = sel (!k) im ∧ im.slot = slot)
    (hfresh : imLookup n.invMap a = none → sel (!k) im' = none) :
    NrtOk P { learnQ := q, invMap := inv',
              storage := some ⟨n.mapping ++ [⟨id, k, slot⟩], cbs', vals⟩ } := by
  have hqn := h.q_nodup; rw [hq] at hqn
  have hpre : ∀ (i : Nat) (cb : Cb), n.callbacks[i]? = some cb → cbs'[i]? = some cb := by
    intro i cb hi; rw [hcbs, List.getElem?_append_left]; exact hi
    exact (List.getElem?_eq_some_iff.mp hi).1
  have hslotlt : slot < cbs'.length := (List.getElem?_eq_some_iff.mp hcb0).1
  have hksel : ∀ im, imLookup n.invMap a = some im → sel k im = none :=
    fun im hl => h.q_unbound a k im (by rw [hq]; exact List.mem_cons_self) hl
  constructor
  · intro hn; simp at hn
  · intro st hst; simp at hst; subst hst
    constructor
    · intro e he
      simp only [List.mem_append, List.mem_singleton] at he
      rcases he with he | rfl
      · obtain ⟨cb, _, hcb, _⟩ := h.map_inv e he
        exact (List.getElem?_eq_some_iff.mp (hpre _ _ hcb)).1
      · exact hslotlt
    · exact hvals
    · simp only [ids_append, ids_cons, ids_nil]
      rw [List.nodup_append]
      refine ⟨?_, by simp, ?_⟩
      · cases hs : n.storage with
        | none => simp [NRT.mapping, hs]
        | some st => simpa [NRT.mapping, hs] using (h.stok st hs).nodup
      · intro x hx y hy; simp at hy; subst hy; intro hxy; subst hxy; exact hid hx
  · intro b im2 hb
    simp only [NRT.callbacks]
    by_cases hba : b = a
    · subst hba; rw [hnew] at hb; cases hb; rw [hslot]; exact ⟨cb0, hcb0, haddr⟩
    · rw [hother b hba] at hb
      obtain ⟨cb, hcb, hcba⟩ := h.inv_slot b im2 hb
      exact ⟨cb, hpre _ _ hcb, hcba⟩
  · intro b im2 k' c hb hsel
    simp only [NRT.mapping, List.mem_append, List.mem_singleton]
    by_cases hba : b = a
    · subst hba; rw [hnew] at hb; cases hb
      rcases sel_cases k k' with rfl | rfl
      · rw [hk] at hsel; cases hsel; right; rw [hslot]
      · left
        cases hl : imLookup n.invMap b with
        | none => rw [hfresh hl] at hsel; cases hsel
        | some im =>
          obtain ⟨h1, h2⟩ := hold im hl
          rw [h1] at hsel; rw [hslot, ← h2]; exact h.inv_sel b im (!k) c hl hsel
    · rw [hother b hba] at hb; left; exact h.inv_sel b im2 k' c hb hsel
  · intro e he
    simp only [NRT.mapping, List.mem_append, List.mem_singleton] at he
    simp only [NRT.callbacks]
    rcases he with he | rfl
    · obtain ⟨cb, im, hcb, hl, hs1, hs2⟩ := h.map_inv e he
      refine ⟨cb, ?_⟩
      by_cases hba : cb.addr = a
      · rw [hba] at hl
        obtain ⟨h1, h2⟩ := hold im hl
        refine ⟨im', hpre _ _ hcb, by rw [hba]; exact hnew, by rw [hslot, ← h2, hs1], ?_⟩
        rcases sel_cases k e.coarse with hk' | hk'
        · rw [hk', hksel im hl] at hs2; cases hs2
        · rw [hk', h1, ← hk']; exact hs2
      · exact ⟨im, hpre _ _ hcb, by rw [hother _ hba]; exact hl, hs1, hs2⟩
    · exact ⟨cb0, im', hcb0, by rw [haddr]; exact hnew, hslot, hk⟩
  · exact (List.nodup_cons.mp hqn).2
  · intro b k' im2 hbq hb
    have hbq' : (b, k') ∈ n.learnQ := by rw [hq]; exact List.mem_cons_of_mem _ hbq
    by_cases hba : b = a
    · subst hba; rw [hnew] at hb; cases hb
      rcases sel_cases k k' with rfl | rfl
      · exact absurd hbq (List.nodup_cons.mp hqn).1
      · cases hl : imLookup n.invMap b with
        | none => exact hfresh hl
        | some im => rw [(hold im hl).1]; exact h.q_unbound b (!k) im hbq' hl
    · rw [hother b hba] at hb; exact h.q_unbound b k' im2 hbq' hb
  · intro b k' hbq; exact h.q_ports b k' (by rw [hq]; exact List.mem_cons_of_mem _ hbq)

def learnIm (k : Bool) (im : Imap) (id : Nat) : Imap :=
  if k then { im with coarse := some id } else { im with fine := some id }

theorem useFreeID_eq {P n a k q} (id : Nat) (h : NrtOk P n) (hq : n.learnQ = (a, k) :: q) :
    ∃ p, P[a]? = some p ∧
    ((imLookup n.invMap a = none ∧
      NRT.useFreeID P n id = some
        ({ learnQ := q,
           invMap := imSet (imSet n.invMap a ⟨n.callbacks.length, none, none⟩) a
                       (learnIm k ⟨n.callbacks.length, none, none⟩ id),
           storage := some ⟨n.mapping ++ [⟨id, k, n.callbacks.length⟩],
                            n.callbacks ++ [⟨a, p.isInt, p.min8, p.max8⟩],
                            List.replicate (n.callbacks.length + 1) 0⟩ },
         [.bind ⟨n.mapping ++ [⟨id, k, n.callbacks.length⟩],
                 n.callbacks ++ [⟨a, p.isInt, p.min8, p.max8⟩],
                 List.replicate (n.callbacks.length + 1) 0⟩ (some id)])) ∨
     (∃ im st, imLookup n.invMap a = some im ∧ n.storage = some st ∧
      NRT.useFreeID P n id = some
        ({ learnQ := q, invMap := imSet n.invMap a (learnIm k im id),
           storage := some ⟨st.mapping ++ [⟨id, k, im.slot⟩], st.callbacks,
                            List.replicate st.values.length 0⟩ },
         [.bind ⟨st.mapping ++ [⟨id, k, im.slot⟩], st.callbacks,
                 List.replicate st.values.length 0⟩ (some id)]))) := by
  have ha : a < P.length := h.q_ports a k (by rw [hq]; exact List.mem_cons_self)
  refine ⟨P[a], by simp [ha], ?_⟩
  cases hl : imLookup n.invMap a with
  | none =>
    left
    refine ⟨rfl, ?_⟩
    cases hs : n.storage with
    | none =>
      cases k <;>
        simp [NRT.useFreeID, NRT.finishLearn, hq, ha, hl, NRT.generateNewBijection, hs, imLookup_imSet, NRT.mapping,
          NRT.callbacks, learnIm]
    | some st =>
      have hv := (h.stok st hs).vals
      cases k <;>
        simp [NRT.useFreeID, NRT.finishLearn, hq, ha, hl, NRT.generateNewBijection, hs, imLookup_imSet, NRT.mapping,
          NRT.callbacks, learnIm, hv]
  | some im =>
    right
    obtain ⟨st, hs⟩ := h.storage_some hl
    have hsel := h.q_unbound a k im (by rw [hq]; exact List.mem_cons_self) hl
    refine ⟨im, st, rfl, hs, ?_⟩
    cases k <;> simp_all [NRT.useFreeID, NRT.finishLearn, sel, Storage.clone, learnIm]

theorem sel_learnIm (k : Bool) (im : Imap) (id : Nat) :
    sel k (learnIm k im id) = some id ∧ sel (!k) (learnIm k im id) = sel (!k) im ∧
    (learnIm k im id).slot = im.slot := by
  cases k <;> simp [sel, learnIm]

/-- `useFreeID` with a queued address and a controller that is not bound yet: the
    controller is bound to the OLDEST queued address; one mapping entry is appended. -/
theorem useFreeID_ok {P n a k q} (id : Nat) (h : NrtOk P n) (hq : n.learnQ = (a, k) :: q)
    (hid : id ∉ ids n.mapping) :
    ∃ n' ns slot cb p extra, NRT.useFreeID P n id = some (n', [.bind ns (some id)]) ∧ NrtOk P n' ∧
      n'.storage = some ns ∧ n'.learnQ = q ∧ ns.mapping = n.mapping ++ [⟨id, k, slot⟩] ∧
      ns.callbacks = n.callbacks ++ extra ∧ ns.callbacks[slot]? = some cb ∧ cb.addr = a ∧
      ns.values.length = ns.callbacks.length ∧
      P[a]? = some p ∧ (∀ c ∈ extra, c = ⟨a, p.isInt, p.min8, p.max8⟩) ∧
      (∃ im', imLookup n'.invMap a = some im' ∧ sel k im' = some id) ∧
      (∀ b, b ≠ a → imLookup n'.invMap b = imLookup n.invMap b) := by
  obtain ⟨p, hp, hcase⟩ := useFreeID_eq id h hq
  rcases hcase with ⟨hl, heq⟩ | ⟨im, st, hl, hs, heq⟩
  · let im0 : Imap := ⟨n.callbacks.length, none, none⟩
    have hsl := sel_learnIm k im0 id
    refine ⟨_, _, n.callbacks.length, ⟨a, p.isInt, p.min8, p.max8⟩, p, [⟨a, p.isInt, p.min8, p.max8⟩],
      heq, ?_, rfl, rfl, rfl, rfl, by simp, rfl, by simp, hp, by simp, ?_, ?_⟩
    · refine nrtOk_learn (extra := [⟨a, p.isInt, p.min8, p.max8⟩]) (im' := learnIm k im0 id)
        (cb0 := ⟨a, p.isInt, p.min8, p.max8⟩) h hq hid rfl (by simp) rfl (by simp) ?_ ?_ hsl.2.2 hsl.1 ?_ ?_
      · intro b hb; simp [imLookup_imSet, hb]
      · simp [imLookup_imSet, im0]
      · intro im him; rw [hl] at him; cases him
      · intro _; rw [hsl.2.1]; cases k <;> simp [sel, im0]
    · exact ⟨learnIm k im0 id, by simp [imLookup_imSet, im0], hsl.1⟩
    · intro b hb; simp [imLookup_imSet, hb]
  · have hsl := sel_learnIm k im id
    have hmp : n.mapping = st.mapping := by simp [NRT.mapping, hs]
    have hcbs : n.callbacks = st.callbacks := by simp [NRT.callbacks, hs]
    obtain ⟨cb, hcb, hcba⟩ := h.inv_slot a im hl
    rw [hcbs] at hcb
    refine ⟨_, _, im.slot, cb, p, [], heq, ?_, rfl, rfl, by rw [hmp], by simp [hcbs], hcb, hcba,
      by simp [(h.stok st hs).vals], hp, by simp, ?_, ?_⟩
    · rw [← hmp]
      refine nrtOk_learn (extra := []) (im' := learnIm k im id) (cb0 := cb) h hq hid
        (by simp [hcbs]) hcb hcba (by simp [(h.stok st hs).vals]) ?_ ?_ hsl.2.2 hsl.1 ?_ ?_
      · intro b hb; simp [imLookup_imSet, hb]
      · simp [imLookup_imSet]
      · intro im2 him; rw [hl] at him; cases him; exact ⟨hsl.2.1, rfl⟩
      · intro hn; rw [hl] at hn; cases hn
    · exact ⟨learnIm k im id, by simp [imLookup_imSet], hsl.1⟩
    · intro b hb; simp [imLookup_imSet, hb]

/-- `unMap` never crashes on a consistent state, keeps it consistent, leaves the learn
    queue and every other address alone and removes at most the one mapping entry of the
    controller bound to `(a,k)`. -/
theorem unMap_ok {P n} (h : NrtOk P n) (a : Nat) (k : Bool) :
    ∃ n' ms, n.unMap a k = some (n', ms) ∧ NrtOk P n' ∧ n'.learnQ = n.learnQ ∧
      n'.callbacks = n.callbacks ∧
      (∀ im', imLookup n'.invMap a = some im' → sel k im' = none) ∧
      (∀ b, b ≠ a → imLookup n'.invMap b = imLookup n.invMap b) ∧
      ((ms = [] ∧ n'.storage = n.storage) ∨
        ∃ c st ns im, n.storage = some st ∧ c ∈ ids st.mapping ∧
          imLookup n.invMap a = some im ∧ sel k im = some c ∧
          ns = ⟨st.mapping.filter (fun e => e.id != c), st.callbacks,
                List.replicate st.values.length 0⟩ ∧
          n'.storage = some ns ∧ ms = [.bind ns none]) := by
  rcases unMap_eq h a k with ⟨hl, heq⟩ | ⟨im, hl, hs, heq⟩ | ⟨im, c, st, hl, hs, hst, hc, heq⟩
  · refine ⟨n, [], heq, h, rfl, rfl, ?_, fun _ _ => rfl, Or.inl ⟨rfl, rfl⟩⟩
    intro im' h'; rw [hl] at h'; cases h'
  · have hu := invUpd_step n.invMap a k im hl
    refine ⟨_, _, heq, nrtOk_unmap_nokill h hl hs hu, rfl, rfl, ?_, hu.other, Or.inl ⟨rfl, rfl⟩⟩
    intro im' h'; obtain ⟨_, _, _, hk, _⟩ := hu.same im' h'; exact hk
  · have hu := invUpd_step n.invMap a k im hl
    refine ⟨_, _, heq, nrtOk_unmap_kill h hl hs hst hu, rfl, by simp [NRT.callbacks, hst], ?_, hu.other,
      Or.inr ⟨c, st, _, im, hst, hc, hl, hs, rfl, rfl, rfl⟩⟩
    intro im' h'; obtain ⟨_, _, _, hk, _⟩ := hu.same im' h'; exact hk

/-- `map`: a no-op when `(a,k)` is already queued; otherwise `unMap` followed by queueing
    and one `midi-add-watch`. -/
theorem map_ok {P : List PortSpec} {n} (h : NrtOk P n) (a : Nat) (k : Bool) (ha : a < P.length) :
    ((a, k) ∈ n.learnQ ∧ n.map a k = some (n, [])) ∨
    ((a, k) ∉ n.learnQ ∧ ∃ n1 ms, n.unMap a k = some (n1, ms) ∧
      n.map a k = some ({ n1 with learnQ := n.learnQ ++ [(a, k)] }, ms ++ [.addWatch]) ∧
      NrtOk P { n1 with learnQ := n.learnQ ++ [(a, k)] }) := by
  by_cases hm : (a, k) ∈ n.learnQ
  · left
    refine ⟨hm, ?_⟩
    have : n.learnQ.any (fun x => x.1 == a && x.2 == k) = true := by
      simp only [List.any_eq_true]; exact ⟨(a, k), hm, by simp⟩
    simp [NRT.map, this]
  · right
    refine ⟨hm, ?_⟩
    have : n.learnQ.any (fun x => x.1 == a && x.2 == k) = false := by
      simp only [List.any_eq_false]
      intro x hx hh; simp at hh
      apply hm; obtain ⟨h1, h2⟩ := hh; cases x; simp_all
    obtain ⟨n1, ms, heq, hok, hq, hcb, hsel, hoth, _⟩ := unMap_ok h a k
    refine ⟨n1, ms, heq, by simp [NRT.map, this, heq, hq], ?_⟩
    constructor
    · exact hok.st_none
    · exact hok.stok
    · exact hok.inv_slot
    · exact hok.inv_sel
    · exact hok.map_inv
    · simp only; rw [List.nodup_append]
      refine ⟨h.q_nodup, by simp, ?_⟩
      intro x hx y hy; simp at hy; subst hy; intro hxy; subst hxy; exact hm hx
    · intro b k' im hb hl
      simp only [List.mem_append, List.mem_singleton, Prod.mk.injEq] at hb
      rcases hb with hb | ⟨rfl, rfl⟩
      · exact hok.q_unbound b k' im (by rw [hq]; exact hb) hl
      · exact hsel im hl
    · intro b k' hb
      simp only [List.mem_append, List.mem_singleton, Prod.mk.injEq] at hb
      rcases hb with hb | ⟨rfl, rfl⟩
      · exact h.q_ports b k' hb
      · exact ha

end Rtosc.Midi
