/-
  C20 — the non-realtime half keeps `inv_map`, the learn queue and the current snapshot
  consistent (`NrtOk`), provided no controller is learned twice; explicit post-states of
  map / unMap / useFreeID under that invariant.
-/
import RtoscModel.Proofs.MidiLemmas
set_option linter.unusedSimpArgs false
namespace Rtosc.Midi

/-- A snapshot is well-formed: slots inside the vectors, distinct controller IDs. -/
structure StOk (st : Storage) : Prop where
  slots : ∀ e ∈ st.mapping, e.slot < st.callbacks.length
  vals : st.values.length = st.callbacks.length
  nodup : (ids st.mapping).Nodup

/-- coarse or fine controller of an `inv_map` entry -/
def sel (k : Bool) (im : Imap) : Option Nat := if k then im.coarse else im.fine

def NRT.mapping (n : NRT) : List MapEnt := match n.storage with | none => [] | some st => st.mapping
def NRT.callbacks (n : NRT) : List Cb := match n.storage with | none => [] | some st => st.callbacks

/-- Consistency of the non-realtime half. -/
structure NrtOk (P : List PortSpec) (n : NRT) : Prop where
  st_none : n.storage = none → n.invMap = []
  stok : ∀ st, n.storage = some st → StOk st
  inv_slot : ∀ a im, imLookup n.invMap a = some im →
    ∃ cb, n.callbacks[im.slot]? = some cb ∧ cb.addr = a
  inv_sel : ∀ a im k c, imLookup n.invMap a = some im → sel k im = some c →
    (⟨c, k, im.slot⟩ : MapEnt) ∈ n.mapping
  map_inv : ∀ e ∈ n.mapping, ∃ cb im, n.callbacks[e.slot]? = some cb ∧
    imLookup n.invMap cb.addr = some im ∧ im.slot = e.slot ∧ sel e.coarse im = some e.id
  q_nodup : n.learnQ.Nodup
  q_unbound : ∀ a k im, (a, k) ∈ n.learnQ → imLookup n.invMap a = some im → sel k im = none
  q_ports : ∀ a k, (a, k) ∈ n.learnQ → a < P.length

theorem nrtOk_init (P) : NrtOk P NRT.init := by
  constructor <;> simp [NRT.init, imLookup, NRT.mapping]

theorem NrtOk.storage_some {P n a im} (h : NrtOk P n) (hl : imLookup n.invMap a = some im) :
    ∃ st, n.storage = some st := by
  cases hs : n.storage with
  | none => have := h.st_none hs; simp [this, imLookup] at hl
  | some st => exact ⟨st, rfl⟩

end Rtosc.Midi
