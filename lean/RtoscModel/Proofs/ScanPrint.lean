/-
  C11 — printing the scanned values of a sentence of scalars, for `print_scan_fixpoint`:
  the printer (C10's model `printArgVals`, unchanged) writes for every such value a text that
  both `switch`es read back as the value (`PrintsVal`: C10's `printArgVal_*` equations combined
  with the `ValOK` lemmas), and its loop writes these texts separated by a blank or a line break
  (`printLoop_lay`: the loop analysis of `Proofs/PrettyList.lean`, `printLoop_step`, reused;
  the result is stated as an `ArgsLay`, so that the C11 list theorems apply to the printed text).
-/
import RtoscModel.Proofs.ScanSpec
namespace Rtosc.Pretty.C11
open Rtosc Rtosc.Libc Rtosc.Pretty
open Rtosc.ArgVal (Cell)

/-- the printer appends for the scalar cell `c` a text that both `switch`es read back as `c` -/
def PrintsVal (opt : POpt) (c : Cell) : Prop :=
  ∀ (fuel : Nat) (more : List Cell) (prev : Option Cell) (st : PSt),
    ∃ (t : Bytes) (cols' : Int),
      Pretty.printArgVal (fuel + 1) opt (c :: more) prev st = .ok (⟨st.out ++ t, cols'⟩, t.length) ∧ ValOK t c

theorem printsVal_int (opt : POpt) (v : Int) (h1 : -2147483648 ≤ v) (h2 : v ≤ 2147483647) :
    PrintsVal opt (Cell.int .i v) := by
  intro fuel more prev st
  exact ⟨fmtDec v, _, printArgVal_int fuel opt v more prev st, valOK_int v h1 h2⟩

theorem printsVal_huge (opt : POpt) (v : Int) (h1 : -9223372036854775808 ≤ v) (h2 : v ≤ 9223372036854775807) :
    PrintsVal opt (Cell.huge v) := by
  intro fuel more prev st
  exact ⟨fmtDec v ++ [104], _, printArgVal_huge fuel opt v more prev st, valOK_huge v h1 h2⟩

theorem valOK_charText (v : Int) (h : CharOK v) : ValOK (charText v) (Cell.int .c v) := by
  rcases charShape_inv _ _ (charShape_ok v h) with ⟨x, ht, hx, hv⟩ | ⟨e, ht, hv, he⟩
  · rw [ht, ← hv]; exact valOK_char_plain x hx
  · rw [ht, ← hv]; exact valOK_char_esc e he

theorem printsVal_char (opt : POpt) (v : Int) (h : CharOK v) : PrintsVal opt (Cell.int .c v) := by
  intro fuel more prev st
  exact ⟨charText v, _, printArgVal_char fuel opt v more prev st, valOK_charText v h⟩

theorem printsVal_color (opt : POpt) (v : Int) (h1 : -2147483648 ≤ v) (h2 : v ≤ 2147483647) :
    PrintsVal opt (Cell.int .r v) := by
  intro fuel more prev st
  exact ⟨_, _, printArgVal_color fuel opt v more prev st, valOK_color v h1 h2⟩

theorem printsVal_midi (opt : POpt) (a b c d : UInt8) : PrintsVal opt (Cell.midi a b c d) := by
  intro fuel more prev st
  exact ⟨_, _, printArgVal_midi fuel opt a b c d more prev st, valOK_midi a b c d⟩

theorem printsVal_flag (opt : POpt) (f : Rtosc.ArgVal.FlagTy) : PrintsVal opt (Cell.flag f) := by
  intro fuel more prev st
  cases f
  · exact ⟨lit "true", _, by simp [Pretty.printArgVal, deref, bind, Except.bind, pure, Except.pure]; rfl, valOK_true⟩
  · exact ⟨lit "false", _, by simp [Pretty.printArgVal, deref, bind, Except.bind, pure, Except.pure]; rfl, valOK_false⟩
  · exact ⟨lit "nil", _, by simp [Pretty.printArgVal, deref, bind, Except.bind, pure, Except.pure]; rfl, valOK_nil⟩
  · exact ⟨lit "inf", _, by simp [Pretty.printArgVal, deref, bind, Except.bind, pure, Except.pure]; rfl, valOK_inf⟩

theorem printsVal_immediately (opt : POpt) : PrintsVal opt (Cell.time 1) := by
  intro fuel more prev st
  exact ⟨lit "immediately", _,
    by simp [Pretty.printArgVal, deref, bind, Except.bind, pure, Except.pure]; rfl, valOK_immediately⟩

theorem printsVal_string (opt : POpt) (s : Bytes) (h : ∀ b ∈ s, StrByteOK b) :
    PrintsVal opt (Cell.str .s (some s)) := by
  intro fuel more prev st
  obtain ⟨body, cols', hB, hp⟩ := printArgVal_str_quoted fuel opt .s s h (by simp) more prev st
  exact ⟨34 :: body ++ [34], cols', by simpa using hp, valOK_string body s hB⟩

theorem printsVal_symbol (opt : POpt) (s : Bytes) (h : ∀ b ∈ s, StrByteOK b) :
    PrintsVal opt (Cell.str .S (some s)) := by
  intro fuel more prev st
  by_cases hq : symbolPlain s = true
  · obtain ⟨hs, _⟩ := symbolPlain_ident s hq
    refine ⟨s, st.cols + s.length, ?_, valOK_ident s hq⟩
    have htw : s.takeWhile (fun x => !decide (x = 0)) = s :=
      takeWhile_all _ s (fun x hx => by simp [(identChar_facts x (hs.2 x hx)).1])
    simp [Pretty.printArgVal, deref, bind, Except.bind, pure, Except.pure, htw, hq,
      printStrChars_plain _ s hs.2]
  · have hq' : symbolPlain s = false := by simpa using hq
    obtain ⟨body, cols', hB, hp⟩ := printArgVal_str_quoted fuel opt .S s h (by simp [hq']) more prev st
    exact ⟨34 :: body ++ [34, 83], cols', by simpa using hp, valOK_symbol_quoted body s hB⟩

theorem printsVal_blob (opt : POpt) (data : Bytes) (hlen : data.length ≤ 2147483647) :
    PrintsVal opt (Cell.blob data) := by
  intro fuel more prev st
  obtain ⟨l, cols', h1, h2, h3⟩ := printBlobBytes_spec opt.linelength data
    (st.out ++ lit "BLOB [" ++ fmtDec (data.length : Int))
    (st.cols + ((lit "BLOB [" ++ fmtDec (data.length : Int) ++ [32]).length : Nat))
    (lit "BLOB [" ++ fmtDec (data.length : Int) ++ [32]).length
  have hll : l.length = data.length := by rw [← h1]; simp
  refine ⟨blobText l.length l, cols', ?_, ?_⟩
  · simp only [Pretty.printArgVal, deref, bind, Except.bind, pure, Except.pure]
    simp only [← List.append_assoc]
    rw [h3]
    simp only [List.dropLast_concat]
    simp [blobText, lit_blob, hll]
    omega
  · subst h1
    exact valOK_blob l h2 (by simpa using hlen)

/-! ### the values of proved spellings are printable -/

instance (b : UInt8) : Decidable (StrByteOK b) :=
  inferInstanceAs (Decidable ((7 ≤ b ∧ b ≤ 13) ∨ (32 ≤ b ∧ b ≤ 126)))

instance (v : Int) : Decidable (CharOK v) :=
  inferInstanceAs (Decidable (v = 0 ∨ (7 ≤ v ∧ v ≤ 13) ∨ (32 ≤ v ∧ v ≤ 126)))

theorem strCh_byteOK (x : StrCh) (h : x.ok = true) : StrByteOK x.value := by
  cases x with
  | raw c =>
    simp only [StrCh.ok, Bool.and_eq_true, decide_eq_true_eq, bne_iff_ne, ne_eq] at h
    right; exact ⟨h.1.1.1, h.1.1.2⟩
  | esc c =>
    simp only [StrCh.ok] at h
    simp only [StrCh.value]
    revert h; revert c; apply UInt8.forall_of_fin; decide +kernel

theorem identChar_byteOK (c : UInt8) (h : isIdentChar c = true) : StrByteOK c := by
  revert h; revert c; apply UInt8.forall_of_fin; decide +kernel

theorem charEsc_ok (c : UInt8) (h : (asEscapedChar c true).isSome = true) : CharOK (c.toNat : Int) := by
  revert h; revert c; apply UInt8.forall_of_fin; decide +kernel

/-- the value of every proved spelling is printed as a text both `switch`es read back -/
theorem printsVal_tok (opt : POpt) (bl : List Nat → Blank) (t : Tok) (hwf : t.wf = true) (hp : t.proved bl = true) :
    PrintsVal opt t.cell := by
  cases t with
  | int v base sfx =>
    simp only [Tok.wf, Bool.and_eq_true, decide_eq_true_eq] at hwf
    exact printsVal_int opt v hwf.1 hwf.2
  | huge v base =>
    simp only [Tok.wf, Bool.and_eq_true, decide_eq_true_eq] at hwf
    exact printsVal_huge opt v hwf.1.1 hwf.1.2
  | flt dbl sfx l exact => simp [Tok.proved] at hp
  | chr c esc =>
    cases esc with
    | false =>
      simp only [Tok.wf, Bool.false_eq_true, ↓reduceIte, Bool.and_eq_true, decide_eq_true_eq, bne_iff_ne, ne_eq] at hwf
      have h1 : (32 : UInt8) ≤ c := hwf.1.1.1
      have h2 : c ≤ (126 : UInt8) := hwf.1.1.2
      have : CharOK (c.toNat : Int) := by
        right; right
        have a1 : (32 : UInt8).toNat ≤ c.toNat := h1
        have a2 : c.toNat ≤ (126 : UInt8).toNat := h2
        simp at a1 a2
        omega
      exact printsVal_char opt _ this
    | true =>
      simp only [Tok.wf, ↓reduceIte] at hwf
      exact printsVal_char opt _ (charEsc_ok c hwf)
  | str sym parts =>
    simp only [Tok.wf, Bool.and_eq_true, Bool.not_eq_eq_eq_not, Bool.not_true, List.all_eq_true] at hwf
    have hb : ∀ b ∈ (parts.flatten).map StrCh.value, StrByteOK b := by
      intro b hb
      simp only [List.mem_map, List.mem_flatten] at hb
      obtain ⟨x, ⟨p, hp1, hp2⟩, rfl⟩ := hb
      exact strCh_byteOK x (hwf.2 p hp1 x hp2)
    cases sym with
    | false => exact printsVal_string opt _ hb
    | true => exact printsVal_symbol opt _ hb
  | ident name =>
    simp only [Tok.wf, Bool.and_eq_true, Bool.not_eq_eq_eq_not, Bool.not_true, List.all_eq_true] at hwf
    exact printsVal_symbol opt name (fun b hb => identChar_byteOK b (hwf.1.2 b hb))
  | kw k =>
    cases k
    · exact printsVal_flag opt .T
    · exact printsVal_flag opt .F
    · exact printsVal_flag opt .N
    · exact printsVal_flag opt .I
    · exact printsVal_immediately opt
    · exact printsVal_immediately opt
  | color v upper =>
    simp only [Tok.wf, decide_eq_true_eq] at hwf
    exact printsVal_color opt _ (by unfold toI32; omega) (by unfold toI32; omega)
  | midi a b c d pad => exact printsVal_midi opt a b c d
  | blob data =>
    simp only [Tok.wf, decide_eq_true_eq] at hwf
    exact printsVal_blob opt data hwf

/-! ### the printer's loop -/

/-- the printed form of the cells `rem`: nothing, or a text of good arguments -/
def LayText (rem : List Cell) (body : Bytes) : Prop :=
  (rem = [] ∧ body = []) ∨ ∃ tcs, ArgsLay tcs body ∧ allCells tcs = rem

theorem gaps_sp : gapsBytes [Gap.ws .sp] = [32] := by simp [gapsBytes, Gap.bytes, Ws.byte]
theorem gaps_nl4 : gapsBytes [Gap.ws .nl, .ws .sp, .ws .sp, .ws .sp, .ws .sp] = nl4 := by
  simp [gapsBytes, Gap.bytes, Ws.byte, nl4]

/-- the printer's loop over scalar arguments that are not turned into ranges -/
theorem printLoop_lay (opt : POpt) (args : List Cell)
    (hP : ∀ c ∈ args, c.isScalar = true ∧ PrintsVal opt c)
    (hconv : ∀ i, i < args.length → convertToRange opt (args.drop i) (args.length - i) = .ok none) :
    ∀ (rem : List Cell) (i : Nat), args.drop i = rem →
      ∀ (fuel : Nat) (st : PSt) (wrt : Nat) (lastSep : Int) (awl : Nat), rem.length + 1 ≤ fuel →
        (awl = 0 ∨ ∃ base, st.out = base ++ [32] ∧ lastSep = (base.length : Int)) →
        ∃ (st' : PSt) (pre body : Bytes),
          Pretty.printArgValsLoop fuel opt args args.length i st wrt lastSep awl =
            .ok (st', wrt + ((pre ++ body).length - st.out.length)) ∧
          st'.out = pre ++ body ∧ LayText rem body ∧
          (pre = st.out ∨ ∃ base, st.out = base ++ [32] ∧ pre = base ++ nl4) := by
  intro rem
  induction rem with
  | nil =>
    intro i hi fuel st wrt lastSep awl hf _
    have hge : args.length ≤ i := List.drop_eq_nil_iff.mp hi
    cases fuel with
    | zero => omega
    | succ f =>
      refine ⟨st, st.out, [], ?_, by simp, Or.inl ⟨rfl, rfl⟩, Or.inl rfl⟩
      unfold Pretty.printArgValsLoop
      have : ¬ (i < args.length) := by omega
      simp [this, pure, Except.pure]
  | cons c more ih =>
    intro i hi fuel st wrt lastSep awl hf hinv
    obtain ⟨hlt, hdrop⟩ := drop_eq_cons_lt args i c more hi
    have hmem : c ∈ args := by
      have : c ∈ args.drop i := by rw [hi]; simp
      exact List.mem_of_mem_drop this
    obtain ⟨hsc, hpt⟩ := hP c hmem
    cases fuel with
    | zero => omega
    | succ f =>
      have hc := hconv i hlt
      rw [hi] at hc
      obtain ⟨t, cols', hprint, hval⟩ := hpt ((c :: more).length + 2) more
        (if i = 0 then none else (args.drop (i - 1)).head?) st
      have harg : Arg11 t [c] := hval.arg11
      obtain ⟨pre1, cols1, awl1, hpre1, hstep⟩ :=
        printLoop_step opt args c more i f st wrt lastSep awl hi hlt hsc t cols' hprint hc hinv
      have hpre1len : st.out.length ≤ pre1.length := by
        rcases hpre1 with h | ⟨base, h1, h2⟩
        · rw [h]; exact Nat.le_refl _
        · rw [h1, h2]; simp [nl4]
      rw [hstep]
      by_cases hmore : more = []
      · -- last argument
        subst hmore
        have hn : args.length = i + 1 := by
          have := congrArg List.length hi
          simp only [List.length_drop, List.length_singleton] at this
          omega
        have hnot : ¬ (i + 1 < args.length) := by omega
        simp only [hnot, ↓reduceIte]
        cases f with
        | zero => simp at hf
        | succ g =>
          have hlay : LayText [c] t := by
            right
            refine ⟨[(t, [c])], ?_, by simp [allCells]⟩
            simpa using ArgsLay.one t [c] [] harg Tail.none
          refine ⟨⟨pre1 ++ t, cols1⟩, pre1, t, ?_, rfl, hlay, hpre1⟩
          unfold Pretty.printArgValsLoop
          simp only [hnot, ↓reduceIte, pure, Except.pure, List.length_append]
          congr 2
          omega
      · have hlt2 : i + 1 < args.length := by
          have := congrArg List.length hdrop
          simp only [List.length_drop] at this
          have : 0 < more.length := List.length_pos_iff.mpr hmore
          omega
        simp only [hlt2, ↓reduceIte]
        obtain ⟨st', pre', body', hrun, hout, htt, hpre'⟩ :=
          ih (i + 1) hdrop f ⟨pre1 ++ t ++ [32], cols1 + 1⟩ (wrt + t.length + (pre1.length - st.out.length) + 1)
            ((pre1 ++ t).length : Int) awl1 (by simp only [List.length_cons] at hf; omega)
            (Or.inr ⟨pre1 ++ t, rfl, rfl⟩)
        rw [hrun]
        obtain ⟨tcs, hlay', hcells'⟩ : ∃ tcs, ArgsLay tcs body' ∧ allCells tcs = more := by
          rcases htt with ⟨h, _⟩ | h
          · exact absurd h hmore
          · exact h
        -- the separator in front of the next token
        rcases hpre' with hp | ⟨base, hb1, hb2⟩
        · have hlay : LayText (c :: more) (t ++ ([32] ++ body')) := by
            right
            refine ⟨(t, [c]) :: tcs, ?_, by simp [allCells] at hcells' ⊢; exact hcells'⟩
            have := ArgsLay.cons t [c] [Gap.ws .sp] tcs body' harg ⟨.sp, [], rfl⟩ hlay'
            rwa [gaps_sp] at this
          refine ⟨st', pre1, t ++ ([32] ++ body'), ?_, ?_, hlay, hpre1⟩
          · congr 2
            simp only [hp, List.length_append, List.length_cons, List.length_nil]
            omega
          · rw [hout, hp]; simp
        · have hbase : base = pre1 ++ t := by
            have := List.append_inj_left' hb1 rfl
            exact this.symm
          have hlay : LayText (c :: more) (t ++ (nl4 ++ body')) := by
            right
            refine ⟨(t, [c]) :: tcs, ?_, by simp [allCells] at hcells' ⊢; exact hcells'⟩
            have := ArgsLay.cons t [c] [Gap.ws .nl, .ws .sp, .ws .sp, .ws .sp, .ws .sp] tcs body' harg
              ⟨.nl, _, rfl⟩ hlay'
            rwa [gaps_nl4] at this
          refine ⟨st', pre1, t ++ (nl4 ++ body'), ?_, ?_, hlay, hpre1⟩
          · congr 2
            simp only [hb2, hbase, nl4, List.length_append, List.length_cons, List.length_nil]
            omega
          · rw [hout, hb2, hbase]; simp

/-- **printing scalar values**: the printer returns the length of the text it wrote, and the
    text is empty (no values) or a text of good arguments for exactly these values -/
theorem printArgVals_lay (opt : POpt) (args : List Cell)
    (hP : ∀ c ∈ args, c.isScalar = true ∧ PrintsVal opt c)
    (hconv : ∀ i, i < args.length → convertToRange opt (args.drop i) (args.length - i) = .ok none) :
    ∃ (st : PSt) (ret : Nat),
      Pretty.printArgVals opt args ⟨[], 0⟩ = .ok (st, ret) ∧ ret = st.out.length ∧ LayText args st.out := by
  obtain ⟨st', pre, body, hrun, hout, htt, hpre⟩ :=
    printLoop_lay opt args hP hconv args 0 (by simp) (args.length + 1) ⟨[], 0⟩ 0 (-1) 0 (Nat.le_refl _) (Or.inl rfl)
  have hpre0 : pre = [] := by
    rcases hpre with h | ⟨base, h1, _⟩
    · exact h
    · simp at h1
  subst hpre0
  simp only [List.nil_append, List.length_nil, Nat.sub_zero, Nat.zero_add] at hrun hout
  refine ⟨st', body.length, ?_, by rw [hout], by rw [hout]; exact htt⟩
  unfold Pretty.printArgVals
  simpa using hrun

end Rtosc.Pretty.C11
