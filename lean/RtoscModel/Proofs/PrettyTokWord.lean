/-
  C10 — tokens that are keywords: `true` `false` `nil` `inf` (the value-less types T F N I) and
  `immediately` (the time tag 1).  Scanner case `scanKeyword`, checker case `skipKeyword`.
-/
import RtoscModel.Proofs.PrettyTok
namespace Rtosc.Pretty
open Rtosc Rtosc.Libc
open Rtosc.ArgVal (Cell)

theorem lit_true : lit "true" = [116, 114, 117, 101] := by decide
theorem lit_false : lit "false" = [102, 97, 108, 115, 101] := by decide
theorem lit_nil : lit "nil" = [110, 105, 108] := by decide
theorem lit_inf : lit "inf" = [105, 110, 102] := by decide
theorem lit_now : lit "now" = [110, 111, 119] := by decide
theorem lit_immediately : lit "immediately" = [105, 109, 109, 101, 100, 105, 97, 116, 101, 108, 121] := by decide

/-- the character behind a token ends a word -/
theorem sep_wordEnd (rest : Bytes) (h : Sep rest) :
    (hd rest = 0 || hd rest = 47 || hd rest = 93 || hd rest = 46 || hd rest = 37 || isspace (hd rest)) = true := by
  rcases h.1 with h | h | h
  · subst h; decide
  · simp [h]
  · rw [h]; decide

theorem skipWord_self (w rest : Bytes) (h : Sep rest) : skipWord w (w ++ rest) = some rest := by
  have := sep_wordEnd rest h
  unfold skipWord
  simp [startsWith, this]

theorem skipWord_ne (w s : Bytes) (h : startsWith s w = false) : skipWord w s = none := by
  unfold skipWord; simp [h]


/-- a word that the keyword case of scanner and checker reads as the cell `c` is a good token -/
theorem tokOK_of_keyword (w : Bytes) (c : Cell) (hne : w ≠ [])
    (h1 : hd w = 116 ∨ hd w = 102 ∨ hd w = 110 ∨ hd w = 105)
    (hscan : ∀ rest, Sep rest → scanKeyword (w ++ rest) = ⟨rest, [c], true⟩)
    (hskip : ∀ rest, Sep rest → skipKeyword (w ++ rest) = ⟨some rest, 1, c.type, 0⟩) : TokOK w c := by
  refine ⟨⟨hne, ?_⟩, ?_, ?_⟩
  · rcases h1 with h | h | h | h <;> rw [h] <;> decide
  · intro rest fuel prev ab hs
    apply scanArgVal_of_value _ _ _ _ _ _ hs
    have hh : hd (w ++ rest) = hd w := hd_append_of_ne_nil _ _ hne
    unfold scanValue
    simp only [hh, h1, ↓reduceIte, hscan rest hs]
    rfl
  · intro rest fuel ty llhs ib hs
    apply skipNext_of_value _ _ c.type 0 _ _ _ _ hs
    have hh : hd (w ++ rest) = hd w := hd_append_of_ne_nil _ _ hne
    unfold skipValue
    simp only [hh, h1, ↓reduceIte, hskip rest hs]
    rfl

theorem tokOK_true : TokOK (lit "true") (Cell.flag .T) := by
  apply tokOK_of_keyword _ _ (by decide) (by decide)
  · intro rest hs
    have hw := skipWord_self (lit "true") rest hs
    unfold scanKeyword
    rw [hw]
    simp [lit_true, lit_immediately, lit_now, skipWord_ne, startsWith, List.isPrefixOf]
  · intro rest hs
    have hw := skipWord_self (lit "true") rest hs
    unfold skipKeyword
    rw [hw]
    simp [lit_true]
    rfl


theorem tokOK_false : TokOK (lit "false") (Cell.flag .F) := by
  apply tokOK_of_keyword _ _ (by decide) (by decide)
  · intro rest hs
    have hw := skipWord_self (lit "false") rest hs
    unfold scanKeyword
    rw [hw]
    simp [lit_false, lit_true, lit_immediately, lit_now, skipWord_ne, startsWith, List.isPrefixOf]
  · intro rest hs
    have hw := skipWord_self (lit "false") rest hs
    unfold skipKeyword
    rw [hw]
    simp [lit_false]
    rfl

theorem tokOK_nil : TokOK (lit "nil") (Cell.flag .N) := by
  apply tokOK_of_keyword _ _ (by decide) (by decide)
  · intro rest hs
    have hw := skipWord_self (lit "nil") rest hs
    unfold scanKeyword
    rw [hw]
    simp [lit_nil, lit_false, lit_true, lit_immediately, lit_now, skipWord_ne, startsWith, List.isPrefixOf]
  · intro rest hs
    have hw := skipWord_self (lit "nil") rest hs
    unfold skipKeyword
    rw [hw]
    simp [lit_nil]
    rfl

theorem tokOK_inf : TokOK (lit "inf") (Cell.flag .I) := by
  apply tokOK_of_keyword _ _ (by decide) (by decide)
  · intro rest hs
    have hw := skipWord_self (lit "inf") rest hs
    unfold scanKeyword
    rw [hw]
    simp [lit_inf, lit_nil, lit_false, lit_true, lit_immediately, lit_now, skipWord_ne, startsWith, List.isPrefixOf]
  · intro rest hs
    have hw := skipWord_self (lit "inf") rest hs
    unfold skipKeyword
    rw [hw]
    simp [lit_inf]
    rfl

theorem tokOK_immediately : TokOK (lit "immediately") (Cell.time 1) := by
  apply tokOK_of_keyword _ _ (by decide) (by decide)
  · intro rest hs
    have hw := skipWord_self (lit "immediately") rest hs
    unfold scanKeyword
    rw [hw]
  · intro rest hs
    have hw := skipWord_self (lit "immediately") rest hs
    unfold skipKeyword
    rw [hw]
    simp [lit_inf, lit_immediately, skipWord_ne, startsWith, List.isPrefixOf]
    rfl

/-- the four value-less types print as `true` `false` `nil` `inf` and scan back -/
theorem printsTok_flag (opt : POpt) (f : Rtosc.ArgVal.FlagTy) : PrintsTok opt (Cell.flag f) := by
  intro fuel more prev st
  cases f
  · exact ⟨lit "true", _, by simp [printArgVal, deref, bind, Except.bind, pure, Except.pure]; rfl, tokOK_true⟩
  · exact ⟨lit "false", _, by simp [printArgVal, deref, bind, Except.bind, pure, Except.pure]; rfl, tokOK_false⟩
  · exact ⟨lit "nil", _, by simp [printArgVal, deref, bind, Except.bind, pure, Except.pure]; rfl, tokOK_nil⟩
  · exact ⟨lit "inf", _, by simp [printArgVal, deref, bind, Except.bind, pure, Except.pure]; rfl, tokOK_inf⟩

/-- the time tag `immediately` (val.t = 1) -/
theorem printsTok_immediately (opt : POpt) : PrintsTok opt (Cell.time 1) := by
  intro fuel more prev st
  exact ⟨lit "immediately", _, by simp [printArgVal, deref, bind, Except.bind, pure, Except.pure]; rfl, tokOK_immediately⟩

end Rtosc.Pretty
