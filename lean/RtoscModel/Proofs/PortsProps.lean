/-
  C04 helper lemmas, part 6: properties of `semNo` / `semLoc`, i.e. of what every lookup
  strategy computes:
    * the callbacks are exactly those the specification `Answers` names;
    * with and without location buffer the callbacks, message pointers, objects and port
      pointers are the same;
    * `loc` seen by a callback, `matches`, the port pointer, the object, the high-water
      mark of `loc`.
-/
import RtoscModel.Proofs.PortsLoc
namespace Rtosc.Ports
open Rtosc Rtosc.Match Rtosc.Ports.Hash

/-! ### one name: `rtosc_match` against the specification -/

theorem noAlts_prefixFree {segs : List Seg} (h : noAlts segs = true) : segsPrefixFree segs = true := by
  simp only [noAlts, List.all_eq_true] at h
  simp only [segsPrefixFree, List.all_eq_true]
  intro s hs
  have := h s hs
  cases s <;> simp_all [Seg.isAlts, Seg.prefixFree]

theorem greedy_iff_pathSpec {p : Pat} (hna : noAlts p.segs = true) (a : Bytes) :
    (greedy p.segs p.sub a).isSome = true ↔ PathSpec p a := by
  constructor
  · intro h
    obtain ⟨t, ht⟩ := Option.isSome_iff_exists.mp h
    obtain ⟨rest, h1, h2⟩ := greedy_sound p.sub p.segs a t ht
    refine ⟨rest, h1, ?_⟩
    cases hs : p.sub with
    | true => simp only [hs, ↓reduceIte] at h2 ⊢; exact ⟨t, h2⟩
    | false => simp only [hs, Bool.false_eq_true, ↓reduceIte] at h2 ⊢; exact h2.1
  · rintro ⟨rest, h1, h2⟩
    have hg := greedy_complete p.sub [] h1 (noAlts_prefixFree hna)
    rw [List.append_nil] at hg
    rw [hg]
    cases hs : p.sub with
    | true =>
      simp only [hs, ↓reduceIte] at h2
      obtain ⟨t, rfl⟩ := h2
      simp [greedy]
    | false =>
      simp only [hs, Bool.false_eq_true, ↓reduceIte] at h2
      subst h2
      simp [greedy]

/-- **what `rtosc_match` accepts is what the specification admits** -/
theorem matchB_iff_admits {p : Pat} (hnw : nameWf p = true) (a tags : Bytes) :
    (matchB p a tags).isSome = true ↔ Admits p a tags := by
  obtain ⟨hp0, _, hpna, _⟩ := nameWf_unpack hnw
  have hg := greedy_iff_pathSpec hpna a
  unfold matchB Admits TypesAdmit
  cases hgr : greedy p.segs p.sub a with
  | none =>
    rw [hgr] at hg
    simp only [Option.isSome_none, Bool.false_eq_true, false_iff] at hg ⊢
    exact fun h => hg h.1
  | some t =>
    rw [hgr] at hg
    have hps : PathSpec p a := hg.mp rfl
    cases hty : p.types with
    | none => simp [hps]
    | some ts =>
      have htw := wf0_types hp0
      simp only [hty, typesWf, Bool.and_eq_true, Bool.not_eq_eq_eq_not, Bool.not_true,
        List.isEmpty_eq_false_iff] at htw
      have hex := typesCode_exact (tags := tags) htw.1
      by_cases hc : typesCode ts tags = true
      · simp only [hc, ↓reduceIte, Option.isSome_some, hps, true_and, Option.some.injEq, forall_eq', true_iff]
        exact hex.mp hc
      · simp only [hc, Bool.false_eq_true, ↓reduceIte, Option.isSome_none, hps, true_and,
          Option.some.injEq, forall_eq', false_iff]
        exact fun h => hc (hex.mpr h)

theorem matchB_none_iff {p : Pat} (hnw : nameWf p = true) (a tags : Bytes) :
    matchB p a tags = none ↔ ¬ Admits p a tags := by
  rw [← matchB_iff_admits hnw]
  cases matchB p a tags <;> simp

/-! ### the callbacks, against `Answers` -/

def whos (l : List Call) : List Who := l.map (·.who)

theorem semNo_flag : ∀ (t : PTable) (tp : List Nat) (i : Nat) (obj : List Nat) (a tags ex : Bytes)
    (d : RtData) (mt : Bool),
    (semNo t tp i obj a tags ex d mt).2.2 = (mt || t.pats.any (fun q => (matchB q a tags).isSome)) := by
  intro t
  induction t with
  | nil => intro tp i obj a tags ex d mt; simp [semNo, PTable.pats]
  | leaf p rest ih =>
    intro tp i obj a tags ex d mt
    simp only [semNo, PTable.pats, List.any_cons]
    cases h : matchB p a tags with
    | none => simp [ih]
    | some t => simp [ih]
  | node p child cd rest _ ihr =>
    intro tp i obj a tags ex d mt
    simp only [semNo, PTable.pats, List.any_cons]
    cases h : matchB p a tags with
    | none => simp [ihr]
    | some t => simp [ihr]

theorem any_iff_anyAdmits : ∀ {t : PTable}, t.WF → ∀ (a tags : Bytes),
    t.pats.any (fun q => (matchB q a tags).isSome) = true ↔ t.anyAdmits a tags := by
  intro t
  induction t with
  | nil => intro _ a tags; simp [PTable.pats, PTable.anyAdmits]
  | leaf p r ih =>
    intro h a tags
    simp only [PTable.WF, PTable.wf, Bool.and_eq_true] at h
    simp only [PTable.pats, List.any_cons, Bool.or_eq_true, PTable.anyAdmits, matchB_iff_admits h.1, ih h.2]
  | node p c cd r _ ih =>
    intro h a tags
    simp only [PTable.WF, PTable.wf, Bool.and_eq_true, nodeNameWf] at h
    simp only [PTable.pats, List.any_cons, Bool.or_eq_true, PTable.anyAdmits,
      matchB_iff_admits h.1.1.1.1, ih h.2]

theorem whos_finNo (cd : Bool) (tp obj : List Nat) (m : Bytes) (r : List Call × RtData × Bool) (w : Who) :
    w ∈ whos (finNo cd tp obj m r).1 ↔ w ∈ whos r.1 ∨ (cd = true ∧ r.2.2 = false ∧ w = .dflt tp) := by
  simp only [finNo, whos]
  cases hc : cd <;> cases hr : r.2.2 <;> simp [dfltCallOf]

/-- **the callbacks without location buffer are those of the specification** -/
theorem semNo_answers : ∀ (t : PTable), t.WF →
    ∀ (tp : List Nat) (i : Nat) (obj : List Nat) (a tags ex : Bytes) (d : RtData) (mt : Bool) (w : Who),
    w ∈ whos (semNo t tp i obj a tags ex d mt).1 ↔ Answers t i tp a tags w := by
  intro t
  induction t with
  | nil => intro _ tp i obj a tags ex d mt w; simp [semNo, whos, Answers]
  | leaf p rest ih =>
    intro hwf tp i obj a tags ex d mt w
    simp only [PTable.WF, PTable.wf, Bool.and_eq_true] at hwf
    simp only [semNo, Answers]
    cases hm : matchB p a tags with
    | none =>
      have := (matchB_none_iff hwf.1 a tags).mp hm
      simp only [this, false_and, false_or]
      exact ih hwf.2 _ _ _ _ _ _ _ _ _
    | some t =>
      have : Admits p a tags := (matchB_iff_admits hwf.1 a tags).mp (by simp [hm])
      simp only [this, true_and, whos, List.map_cons, List.mem_cons, callOf]
      have := ih hwf.2 tp (i + 1) obj a tags ex
        { loc := d.loc, locSize := d.locSize, locHigh := d.locHigh, obj := obj, nmatches := d.nmatches,
          port := some (tp ++ [i]) } true w
      simp only [whos] at this
      rw [this]
  | node p child cd rest ihc ihr =>
    intro hwf tp i obj a tags ex d mt w
    simp only [PTable.WF, PTable.wf, Bool.and_eq_true, nodeNameWf] at hwf
    have hnw := hwf.1.1.1.1
    simp only [semNo, Answers]
    cases hm : matchB p a tags with
    | none =>
      have := (matchB_none_iff hnw a tags).mp hm
      simp only [this, false_and, false_or]
      exact ihr hwf.2 _ _ _ _ _ _ _ _ _
    | some t =>
      have hadm : Admits p a tags := (matchB_iff_admits hnw a tags).mp (by simp [hm])
      simp only [hadm, true_and]
      have hmem : ∀ (x : Call) (l1 l2 : List Call), w ∈ whos (x :: (l1 ++ l2)) ↔
          w = x.who ∨ w ∈ whos l1 ∨ w ∈ whos l2 := by
        intro x l1 l2; simp [whos]
      rw [hmem, whos_finNo, ihc hwf.1.2, ihr hwf.2, semNo_flag]
      simp only [callOf, Bool.false_or]
      have hany := any_iff_anyAdmits hwf.1.2 (levelTail a) tags
      constructor
      · rintro (h | (h | ⟨h1, h2, h3⟩) | h)
        · exact Or.inl (Or.inl h)
        · exact Or.inl (Or.inr (Or.inl h))
        · refine Or.inl (Or.inr (Or.inr ⟨h1, ?_, h3⟩))
          intro hh
          rw [hany.mpr hh] at h2
          cases h2
        · exact Or.inr h
      · rintro ((h | h | ⟨h1, h2, h3⟩) | h)
        · exact Or.inl h
        · exact Or.inr (Or.inl (Or.inl h))
        · refine Or.inr (Or.inl (Or.inr ⟨h1, ?_, h3⟩))
          cases hb : child.pats.any (fun q => (matchB q (levelTail a) tags).isSome) with
          | false => rfl
          | true => exact absurd (hany.mp hb) h2
        · exact Or.inr (Or.inr h)

/-! ### with and without location buffer -/

/-- what a callback is handed, apart from `loc` -/
structure View where
  who : Who
  isLeaf : Bool
  m : Bytes
  obj : List Nat
  dport : Option (List Nat)
deriving DecidableEq, Repr

def Call.view (c : Call) : View :=
  { who := c.who, isLeaf := c.isLeaf, m := c.m, obj := c.obj, dport := c.dport }

def views (l : List Call) : List View := l.map Call.view

/-- the two runs are in step: same object, same port pointer -/
def InStep (dN dL : RtData) : Prop := dN.obj = dL.obj ∧ dN.port = dL.port

theorem fin_views (cd : Bool) (tp obj : List Nat) (m : Bytes)
    (rN rL : List Call × RtData × Bool) (hv : views rN.1 = views rL.1) (hs : InStep rN.2.1 rL.2.1)
    (hf : rN.2.2 = rL.2.2) :
    views (finNo cd tp obj m rN).1 = views (finLoc cd tp obj m rL).1 ∧
      InStep (finNo cd tp obj m rN).2 (finLoc cd tp obj m rL).2 := by
  obtain ⟨h1, h2⟩ := hs
  simp only [finNo, finLoc, hf]
  split
  · simp only [views, List.map_append, List.map_cons, List.map_nil] at hv ⊢
    refine ⟨?_, rfl, h2⟩
    rw [hv]
    simp [Call.view, dfltCallOf, h1, h2]
  · exact ⟨hv, h1, h2⟩

/-- **loc_independent, on the semantic functions**: the same callbacks in the same order,
    each handed the same message pointer, object and port pointer -/
theorem sem_views : ∀ (t : PTable) (tp : List Nat) (i : Nat) (obj : List Nat) (L a tags ex : Bytes)
    (dN dL : RtData) (mt : Bool), InStep dN dL →
    views (semNo t tp i obj a tags ex dN mt).1 = views (semLoc t tp i obj L a tags ex dL mt).1 ∧
    InStep (semNo t tp i obj a tags ex dN mt).2.1 (semLoc t tp i obj L a tags ex dL mt).2.1 ∧
    (semNo t tp i obj a tags ex dN mt).2.2 = (semLoc t tp i obj L a tags ex dL mt).2.2 := by
  intro t
  induction t with
  | nil => intro tp i obj L a tags ex dN dL mt h; exact ⟨rfl, h, rfl⟩
  | leaf p rest ih =>
    intro tp i obj L a tags ex dN dL mt h
    simp only [semNo, semLoc]
    cases hm : matchB p a tags with
    | none => exact ih _ _ _ _ _ _ _ _ _ _ h
    | some t =>
      obtain ⟨h1, h2, h3⟩ := ih tp (i + 1) obj L a tags ex
        { dN with port := some (tp ++ [i]), obj := obj }
        { ({ (RtData.setLoc { dL with nmatches := dL.nmatches + 1 } (L ++ consumed a t)) with
              port := some (tp ++ [i]) } : RtData) with obj := obj, loc := some L } true ⟨rfl, rfl⟩
      refine ⟨?_, h2, h3⟩
      simp only [views, List.map_cons] at h1 ⊢
      rw [h1]
      simp [Call.view, callOf, RtData.setLoc, h.1]
  | node p child cd rest ihc ihr =>
    intro tp i obj L a tags ex dN dL mt h
    simp only [semNo, semLoc]
    cases hm : matchB p a tags with
    | none => exact ihr _ _ _ _ _ _ _ _ _ _ h
    | some t =>
      obtain ⟨c1, c2, c3⟩ := ihc (tp ++ [i]) 0 (tp ++ [i]) (L ++ consumed a t) (levelTail a) tags ex
        { dN with port := some (tp ++ [i]), obj := tp ++ [i] }
        { ({ (RtData.setLoc dL (L ++ consumed a t)) with port := some (tp ++ [i]) } : RtData) with
            obj := tp ++ [i] } false ⟨rfl, rfl⟩
      obtain ⟨f1, f2⟩ := fin_views cd (tp ++ [i]) (tp ++ [i]) (levelTail a ++ 0 :: ex) _ _ c1 c2 c3
      obtain ⟨r1, r2, r3⟩ := ihr tp (i + 1) obj L a tags ex
        { (finNo cd (tp ++ [i]) (tp ++ [i]) (levelTail a ++ 0 :: ex)
            (semNo child (tp ++ [i]) 0 (tp ++ [i]) (levelTail a) tags ex
              { dN with port := some (tp ++ [i]), obj := tp ++ [i] } false)).2 with obj := obj }
        { (finLoc cd (tp ++ [i]) (tp ++ [i]) (levelTail a ++ 0 :: ex)
            (semLoc child (tp ++ [i]) 0 (tp ++ [i]) (L ++ consumed a t) (levelTail a) tags ex
              { ({ (RtData.setLoc dL (L ++ consumed a t)) with port := some (tp ++ [i]) } : RtData) with
                obj := tp ++ [i] } false)).2 with obj := obj, loc := some L } true ⟨rfl, f2.2⟩
      refine ⟨?_, r2, r3⟩
      simp only [views, List.map_cons, List.map_append] at f1 r1 ⊢
      rw [f1, r1]
      simp [Call.view, callOf, RtData.setLoc, h.1]

/-! ### what a callback sees -/

theorem mem_finLoc {cd : Bool} {tp obj : List Nat} {m : Bytes} {r : List Call × RtData × Bool} {c : Call}
    (h : c ∈ (finLoc cd tp obj m r).1) :
    c ∈ r.1 ∨ (cd = true ∧ r.2.2 = false ∧ c = dfltCallOf tp m { r.2.1 with nmatches := r.2.1.nmatches + 1 }) := by
  simp only [finLoc] at h
  split at h
  · next hc =>
    simp only [Bool.and_eq_true, Bool.not_eq_eq_eq_not, Bool.not_true] at hc
    rcases List.mem_append.mp h with h | h
    · exact Or.inl h
    · exact Or.inr ⟨hc.2, hc.1, by simpa using h⟩
  · exact Or.inl h

/-- `d.obj` is restored -/
theorem semLoc_obj : ∀ (t : PTable) (tp : List Nat) (i : Nat) (obj : List Nat) (L a tags ex : Bytes)
    (d : RtData) (mt : Bool), d.obj = obj → (semLoc t tp i obj L a tags ex d mt).2.1.obj = obj := by
  intro t
  induction t with
  | nil => intro tp i obj L a tags ex d mt h; exact h
  | leaf p rest ih =>
    intro tp i obj L a tags ex d mt h
    simp only [semLoc]
    split
    · exact ih _ _ _ _ _ _ _ _ _ h
    · exact ih _ _ _ _ _ _ _ _ _ rfl
  | node p child cd rest _ ihr =>
    intro tp i obj L a tags ex d mt h
    simp only [semLoc]
    split
    · exact ihr _ _ _ _ _ _ _ _ _ h
    · exact ihr _ _ _ _ _ _ _ _ _ rfl

/-- **port_pointer_own / obj_handed_down, on `semLoc`**: a port's callback sees its own
    port pointer and the object of its table; a default handler sees the object of its table -/
theorem semLoc_ptr : ∀ (t : PTable) (tp : List Nat) (i : Nat) (L a tags ex : Bytes) (d : RtData) (mt : Bool),
    d.obj = tp → ∀ c ∈ (semLoc t tp i tp L a tags ex d mt).1,
      (∀ q, c.who = .port q → c.dport = some q ∧ c.obj = q.dropLast) ∧ (∀ q, c.who = .dflt q → c.obj = q) := by
  intro t
  induction t with
  | nil => intro tp i L a tags ex d mt _ c hc; simp [semLoc] at hc
  | leaf p rest ih =>
    intro tp i L a tags ex d mt hobj c hc
    simp only [semLoc] at hc
    split at hc
    · exact ih _ _ _ _ _ _ _ _ hobj c hc
    · rcases List.mem_cons.mp hc with rfl | hc
      · refine ⟨?_, ?_⟩
        · intro q hq
          simp only [callOf, Who.port.injEq] at hq
          subst hq
          simp [callOf, RtData.setLoc, hobj]
        · intro q hq; simp [callOf] at hq
      · exact ih tp _ _ _ _ _ _ _ rfl c hc
  | node p child cd rest ihc ihr =>
    intro tp i L a tags ex d mt hobj c hc
    simp only [semLoc] at hc
    split at hc
    · exact ihr _ _ _ _ _ _ _ _ hobj c hc
    · next t hm =>
      rcases List.mem_cons.mp hc with rfl | hc
      · refine ⟨?_, ?_⟩
        · intro q hq
          simp only [callOf, Who.port.injEq] at hq
          subst hq
          simp [callOf, RtData.setLoc, hobj]
        · intro q hq; simp [callOf] at hq
      · rcases List.mem_append.mp hc with hc | hc
        · rcases mem_finLoc hc with hc | ⟨_, _, rfl⟩
          · exact ihc (tp ++ [i]) _ _ _ _ _ _ _ rfl c hc
          · refine ⟨?_, ?_⟩
            · intro q hq; simp [dfltCallOf] at hq
            · intro q hq
              simp only [dfltCallOf, Who.dflt.injEq] at hq
              subst hq
              simp only [dfltCallOf]
              exact semLoc_obj _ _ _ _ _ _ _ _ _ _ rfl
        · exact ihr tp _ _ _ _ _ _ _ rfl c hc

/-! ### `loc` -/

theorem spellsAll_suffix {segs : List Seg} {a r : Bytes} (h : SpellsAll segs a r) : ∃ pre, a = pre ++ r := by
  induction h with
  | nil r => exact ⟨[], rfl⟩
  | lit s _ ih => obtain ⟨pre, rfl⟩ := ih; exact ⟨s ++ pre, by simp⟩
  | enum ds idx _ _ _ _ _ ih => obtain ⟨pre, rfl⟩ := ih; exact ⟨idx ++ pre, by simp⟩
  | alts as x _ _ ih => obtain ⟨pre, rfl⟩ := ih; exact ⟨x ++ pre, by simp⟩

theorem levelTail_append_noslash (x y : Bytes) (hx : (47 : UInt8) ∉ x) : levelTail (x ++ y) = levelTail y := by
  induction x with
  | nil => rfl
  | cons c r ih =>
    simp only [List.mem_cons, not_or] at hx
    have : (c != 47) = true := by
      have : c ≠ 47 := fun h => hx.1 h.symm
      simp [this]
    simp only [levelTail, List.cons_append, List.dropWhile_cons, this, ↓reduceIte]
    exact ih hx.2

/-- the name of a sub-tree port accounts for exactly the first component -/
theorem spellsAll_levelTail {segs : List Seg} {a t : Bytes} (h : SpellsAll segs a (47 :: t))
    (hns : segs.all Seg.noSlash = true) (hna : noAlts segs = true) : levelTail a = t := by
  generalize hr : (47 :: t : Bytes) = r at h
  induction h with
  | nil r => subst hr; simp [levelTail]
  | lit s _ ih =>
    simp only [List.all_cons, Bool.and_eq_true, noAlts] at hns hna
    have hs : (47 : UInt8) ∉ s := by
      have := hns.1
      simp only [Seg.noSlash, Bool.not_eq_eq_eq_not, Bool.not_true] at this
      intro hm
      rw [List.contains_iff_mem.mpr hm] at this
      cases this
    rw [levelTail_append_noslash _ _ hs]
    exact ih hns.2 (by simpa [noAlts] using hna.2) hr
  | enum ds idx _ hd _ _ _ ih =>
    simp only [List.all_cons, Bool.and_eq_true, noAlts] at hns hna
    have hs : (47 : UInt8) ∉ idx := fun hm => (isDigit_ne (hd _ hm)).2.2.1 rfl
    rw [levelTail_append_noslash _ _ hs]
    exact ih hns.2 (by simpa [noAlts] using hna.2) hr
  | alts as x _ _ ih =>
    simp [noAlts, Seg.isAlts] at hna

/-- what a matching name accounts for: `a = consumed ++ t`; without trailing '/' nothing is
    left, with it the accounted part ends in '/' -/
theorem matchB_shape {p : Pat} {a tags t : Bytes} (hm : matchB p a tags = some t) :
    a = consumed a t ++ t ∧ (if p.sub then (consumed a t).getLast? = some 47 else t = []) := by
  have hg := matchB_greedy hm
  obtain ⟨pre, rfl⟩ := greedy_suffix _ _ _ _ hg
  rw [consumed_append]
  refine ⟨rfl, ?_⟩
  obtain ⟨rest, h1, h2⟩ := greedy_sound p.sub p.segs _ t hg
  cases hs : p.sub with
  | false => simp only [hs, Bool.false_eq_true, ↓reduceIte] at h2 ⊢; exact h2.2
  | true =>
    simp only [hs, ↓reduceIte] at h2 ⊢
    subst h2
    obtain ⟨pre', hpre'⟩ := spellsAll_suffix h1
    have : pre = pre' ++ [47] := by
      have h : pre ++ t = (pre' ++ [47]) ++ t := by rw [hpre']; simp
      exact List.append_cancel_right h
    rw [this]; simp

theorem node_tail {p : Pat} (hnw : nodeNameWf p = true) {a tags t : Bytes} (hm : matchB p a tags = some t) :
    levelTail a = t := by
  simp only [nodeNameWf, Bool.and_eq_true] at hnw
  obtain ⟨_, _, hna, _⟩ := nameWf_unpack hnw.1.1
  have hg := matchB_greedy hm
  obtain ⟨rest, h1, h2⟩ := greedy_sound p.sub p.segs _ t hg
  simp only [hnw.1.2, ↓reduceIte] at h2
  subst h2
  exact spellsAll_levelTail h1 hnw.2 hna

/-- the invariant of ports.h ("d.loc + m make the full path") for one log entry: `loc`
    holds the address up to and including the part the callback's own name accounts for -/
def LocOK (full ex : Bytes) (c : Call) : Prop :=
  ∃ l rest, c.loc = some l ∧ l ++ rest = full ∧
    match c.who with
    | .port _ => ∃ pre mid, l = pre ++ mid ∧ c.m = mid ++ rest ++ 0 :: ex ∧ (rest = [] ∨ mid.getLast? = some 47)
    | .dflt _ => c.m = rest ++ 0 :: ex

/-- **loc_full_address, on `semLoc`** -/
theorem semLoc_locOK : ∀ (t : PTable), t.WF →
    ∀ (tp : List Nat) (i : Nat) (obj : List Nat) (L a tags ex : Bytes) (d : RtData) (mt : Bool),
    d.loc = some L → ∀ c ∈ (semLoc t tp i obj L a tags ex d mt).1, LocOK (L ++ a) ex c := by
  intro t
  induction t with
  | nil => intro _ tp i obj L a tags ex d mt _ c hc; simp [semLoc] at hc
  | leaf p rest ih =>
    intro hwf tp i obj L a tags ex d mt hloc c hc
    simp only [PTable.WF, PTable.wf, Bool.and_eq_true] at hwf
    simp only [semLoc] at hc
    split at hc
    · exact ih hwf.2 _ _ _ _ _ _ _ _ _ hloc c hc
    · next t hm =>
      rcases List.mem_cons.mp hc with rfl | hc
      · obtain ⟨hsplit, hshape⟩ := matchB_shape hm
        refine ⟨L ++ consumed a t, t, by simp [callOf, RtData.setLoc], by rw [List.append_assoc, ← hsplit], ?_⟩
        simp only [callOf]
        refine ⟨L, consumed a t, rfl, by rw [← hsplit], ?_⟩
        cases hs : p.sub with
        | true => simp only [hs, ↓reduceIte] at hshape; exact Or.inr hshape
        | false => simp only [hs, Bool.false_eq_true, ↓reduceIte] at hshape; exact Or.inl hshape
      · exact ih hwf.2 _ _ _ _ _ _ _ _ _ rfl c hc
  | node p child cd rest ihc ihr =>
    intro hwf tp i obj L a tags ex d mt hloc c hc
    simp only [PTable.WF, PTable.wf, Bool.and_eq_true] at hwf
    simp only [semLoc] at hc
    split at hc
    · exact ihr hwf.2 _ _ _ _ _ _ _ _ _ hloc c hc
    · next t hm =>
      obtain ⟨hsplit, hshape⟩ := matchB_shape hm
      have htail := node_tail hwf.1.1 hm
      have hfull : L ++ consumed a t ++ levelTail a = L ++ a := by
        rw [htail, List.append_assoc, ← hsplit]
      rcases List.mem_cons.mp hc with rfl | hc
      · refine ⟨L ++ consumed a t, t, by simp [callOf, RtData.setLoc], by rw [List.append_assoc, ← hsplit], ?_⟩
        simp only [callOf]
        refine ⟨L, consumed a t, rfl, by rw [← hsplit], ?_⟩
        have hsub : p.sub = true := by
          have := hwf.1.1
          simp only [nodeNameWf, Bool.and_eq_true] at this
          exact this.1.2
        simp only [hsub, ↓reduceIte] at hshape
        exact Or.inr hshape
      · rcases List.mem_append.mp hc with hc | hc
        · rcases mem_finLoc hc with hc | ⟨_, _, rfl⟩
          · have := ihc hwf.1.2 _ _ _ _ _ _ _ _ _ rfl c hc
            rw [hfull] at this
            exact this
          · refine ⟨L ++ consumed a t, levelTail a, ?_, hfull, ?_⟩
            · simp only [dfltCallOf]
              exact semLoc_loc _ _ _ _ _ _ _ _ _ _ rfl
            · simp [dfltCallOf]
        · exact ihr hwf.2 _ _ _ _ _ _ _ _ _ rfl c hc

/-! ### `matches` -/

def leafCount (l : List Call) : Nat := (l.filter (·.isLeaf)).length

theorem leafCount_append (l1 l2 : List Call) : leafCount (l1 ++ l2) = leafCount l1 + leafCount l2 := by
  simp [leafCount]

theorem finLoc_count (cd : Bool) (tp obj : List Nat) (m : Bytes) (r : List Call × RtData × Bool) (n0 : Nat)
    (h : r.2.1.nmatches = n0 + leafCount r.1) :
    (finLoc cd tp obj m r).2.nmatches = n0 + leafCount (finLoc cd tp obj m r).1 := by
  simp only [finLoc]
  split
  · simp only [leafCount_append, h]
    simp [leafCount, dfltCallOf]
    omega
  · exact h

/-- **matches_eq_leaf_callbacks, on `semLoc`** -/
theorem semLoc_count : ∀ (t : PTable) (tp : List Nat) (i : Nat) (obj : List Nat) (L a tags ex : Bytes)
    (d : RtData) (mt : Bool),
    (semLoc t tp i obj L a tags ex d mt).2.1.nmatches =
      d.nmatches + leafCount (semLoc t tp i obj L a tags ex d mt).1 := by
  intro t
  induction t with
  | nil => intro tp i obj L a tags ex d mt; simp [semLoc, leafCount]
  | leaf p rest ih =>
    intro tp i obj L a tags ex d mt
    simp only [semLoc]
    split
    · exact ih _ _ _ _ _ _ _ _ _
    · rw [ih]
      simp [leafCount, callOf, RtData.setLoc]
      omega
  | node p child cd rest ihc ihr =>
    intro tp i obj L a tags ex d mt
    simp only [semLoc]
    split
    · exact ihr _ _ _ _ _ _ _ _ _
    · next t hm =>
      rw [ihr]
      have hc := finLoc_count cd (tp ++ [i]) (tp ++ [i]) (levelTail a ++ 0 :: ex) _ _ (ihc (tp ++ [i]) 0 (tp ++ [i])
        (L ++ consumed a t) (levelTail a) tags ex
        { ({ (RtData.setLoc d (L ++ consumed a t)) with port := some (tp ++ [i]) } : RtData) with obj := tp ++ [i] } false)
      simp only at hc ⊢
      rw [hc]
      simp only [leafCount, List.filter_cons, callOf, Bool.false_eq_true, ↓reduceIte, List.filter_append,
        List.length_append, RtData.setLoc]
      omega

/-! ### the high-water mark of `loc` -/

theorem consumed_length_le (a t : Bytes) : (consumed a t).length ≤ a.length := by
  simp only [consumed, List.length_take]; omega

theorem finLoc_high (cd : Bool) (tp obj : List Nat) (m : Bytes) (r : List Call × RtData × Bool) :
    (finLoc cd tp obj m r).2.locHigh = r.2.1.locHigh := by
  simp only [finLoc]; split <;> rfl

/-- **loc_in_bounds, on `semLoc`**: no write beyond `loc + remaining address + terminator` -/
theorem semLoc_high : ∀ (t : PTable), t.WF →
    ∀ (tp : List Nat) (i : Nat) (obj : List Nat) (L a tags ex : Bytes) (d : RtData) (mt : Bool),
    (semLoc t tp i obj L a tags ex d mt).2.1.locHigh ≤ max d.locHigh (L.length + a.length + 1) := by
  intro t
  induction t with
  | nil => intro _ tp i obj L a tags ex d mt; simp only [semLoc]; exact Nat.le_max_left _ _
  | leaf p rest ih =>
    intro hwf tp i obj L a tags ex d mt
    simp only [PTable.WF, PTable.wf, Bool.and_eq_true] at hwf
    simp only [semLoc]
    split
    · exact ih hwf.2 _ _ _ _ _ _ _ _ _
    · next t hm =>
      refine Nat.le_trans (ih hwf.2 _ _ _ _ _ _ _ _ _) ?_
      have := consumed_length_le a t
      simp only [RtData.setLoc, List.length_append]
      omega
  | node p child cd rest ihc ihr =>
    intro hwf tp i obj L a tags ex d mt
    simp only [PTable.WF, PTable.wf, Bool.and_eq_true] at hwf
    simp only [semLoc]
    split
    · exact ihr hwf.2 _ _ _ _ _ _ _ _ _
    · next t hm =>
      refine Nat.le_trans (ihr hwf.2 _ _ _ _ _ _ _ _ _) ?_
      have hc := ihc hwf.1.2 (tp ++ [i]) 0 (tp ++ [i]) (L ++ consumed a t) (levelTail a) tags ex
        { ({ (RtData.setLoc d (L ++ consumed a t)) with port := some (tp ++ [i]) } : RtData) with obj := tp ++ [i] } false
      obtain ⟨hsplit, _⟩ := matchB_shape hm
      have htail := node_tail hwf.1.1 hm
      have hlen : (consumed a t).length + (levelTail a).length = a.length := by
        rw [htail]
        conv => rhs; rw [hsplit]
        simp
      simp only [finLoc_high]
      simp only [RtData.setLoc, List.length_append] at hc ⊢
      omega

/-! ### every callback at most once -/

def Who.path : Who → List Nat
  | .port p => p
  | .dflt p => p

theorem whos_cons (x : Call) (l : List Call) : whos (x :: l) = x.who :: whos l := rfl
theorem whos_append (l1 l2 : List Call) : whos (l1 ++ l2) = whos l1 ++ whos l2 := by simp [whos]

theorem whos_finNo_eq (cd : Bool) (tp obj : List Nat) (m : Bytes) (r : List Call × RtData × Bool) :
    whos (finNo cd tp obj m r).1 = whos r.1 ∨ whos (finNo cd tp obj m r).1 = whos r.1 ++ [.dflt tp] := by
  simp only [finNo]
  split
  · right; simp [whos, dfltCallOf]
  · left; rfl

/-- the callbacks of the table reached with path `tp`, from port `i` on, lie below
    `tp ++ [j]` for some `j ≥ i` -/
theorem semNo_paths : ∀ (t : PTable) (tp : List Nat) (i : Nat) (obj : List Nat) (a tags ex : Bytes)
    (d : RtData) (mt : Bool), ∀ w ∈ whos (semNo t tp i obj a tags ex d mt).1,
      ∃ j s, i ≤ j ∧ w.path = tp ++ j :: s := by
  intro t
  induction t with
  | nil => intro tp i obj a tags ex d mt w hw; simp [semNo, whos] at hw
  | leaf p rest ih =>
    intro tp i obj a tags ex d mt w hw
    simp only [semNo] at hw
    split at hw
    · obtain ⟨j, s, hj, hp⟩ := ih _ _ _ _ _ _ _ _ w hw
      exact ⟨j, s, by omega, hp⟩
    · rw [whos_cons] at hw
      rcases List.mem_cons.mp hw with rfl | hw
      · exact ⟨i, [], Nat.le_refl _, by simp [callOf, Who.path]⟩
      · obtain ⟨j, s, hj, hp⟩ := ih _ _ _ _ _ _ _ _ w hw
        exact ⟨j, s, by omega, hp⟩
  | node p child cd rest ihc ihr =>
    intro tp i obj a tags ex d mt w hw
    simp only [semNo] at hw
    split at hw
    · obtain ⟨j, s, hj, hp⟩ := ihr _ _ _ _ _ _ _ _ w hw
      exact ⟨j, s, by omega, hp⟩
    · rw [whos_cons, whos_append] at hw
      rcases List.mem_cons.mp hw with rfl | hw
      · exact ⟨i, [], Nat.le_refl _, by simp [callOf, Who.path]⟩
      · rcases List.mem_append.mp hw with hw | hw
        · rcases (whos_finNo w).mp hw with hw | ⟨_, _, rfl⟩
          · obtain ⟨j, s, _, hp⟩ := ihc _ _ _ _ _ _ _ _ w hw
            exact ⟨i, j :: s, Nat.le_refl _, by rw [hp]; simp⟩
          · exact ⟨i, [], Nat.le_refl _, by simp [Who.path]⟩
        · obtain ⟨j, s, hj, hp⟩ := ihr _ _ _ _ _ _ _ _ w hw
          exact ⟨j, s, by omega, hp⟩
where
  whos_finNo {cd : Bool} {tp obj : List Nat} {m : Bytes} {r : List Call × RtData × Bool} (w : Who) :
      w ∈ whos (finNo cd tp obj m r).1 ↔ w ∈ whos r.1 ∨ (cd = true ∧ r.2.2 = false ∧ w = .dflt tp) :=
    Rtosc.Ports.whos_finNo cd tp obj m r w

theorem path_index_ne {tp s1 s2 : List Nat} {i j : Nat} (h : tp ++ i :: s1 = tp ++ j :: s2) : i = j := by
  have := List.append_cancel_left h
  simp only [List.cons.injEq] at this
  exact this.1

/-- **no callback is invoked twice** -/
theorem semNo_nodup : ∀ (t : PTable) (tp : List Nat) (i : Nat) (obj : List Nat) (a tags ex : Bytes)
    (d : RtData) (mt : Bool), (whos (semNo t tp i obj a tags ex d mt).1).Nodup := by
  intro t
  induction t with
  | nil => intro tp i obj a tags ex d mt; simp [semNo, whos]
  | leaf p rest ih =>
    intro tp i obj a tags ex d mt
    simp only [semNo]
    split
    · exact ih _ _ _ _ _ _ _ _
    · rw [whos_cons]
      refine List.nodup_cons.mpr ⟨?_, ih _ _ _ _ _ _ _ _⟩
      intro hmem
      obtain ⟨j, s, hj, hp⟩ := semNo_paths _ _ _ _ _ _ _ _ _ _ hmem
      simp only [callOf, Who.path] at hp
      have := path_index_ne (s1 := []) hp
      omega
  | node p child cd rest ihc ihr =>
    intro tp i obj a tags ex d mt
    simp only [semNo]
    split
    · exact ihr _ _ _ _ _ _ _ _
    · rw [whos_cons, whos_append]
      -- the entries of the sub-table, possibly followed by its default handler
      have hchild_paths : ∀ w ∈ whos (finNo cd (tp ++ [i]) (tp ++ [i]) (levelTail a ++ 0 :: ex)
          (semNo child (tp ++ [i]) 0 (tp ++ [i]) (levelTail a) tags ex
            { d with port := some (tp ++ [i]), obj := tp ++ [i] } false)).1,
          (∃ j s, w.path = tp ++ i :: j :: s) ∨ w = .dflt (tp ++ [i]) := by
        intro w hw
        rcases (Rtosc.Ports.whos_finNo _ _ _ _ _ w).mp hw with hw | ⟨_, _, rfl⟩
        · obtain ⟨j, s, _, hp⟩ := semNo_paths _ _ _ _ _ _ _ _ _ _ hw
          exact Or.inl ⟨j, s, by rw [hp]; simp⟩
        · exact Or.inr rfl
      have hchild_nodup : (whos (finNo cd (tp ++ [i]) (tp ++ [i]) (levelTail a ++ 0 :: ex)
          (semNo child (tp ++ [i]) 0 (tp ++ [i]) (levelTail a) tags ex
            { d with port := some (tp ++ [i]), obj := tp ++ [i] } false)).1).Nodup := by
        rcases whos_finNo_eq cd (tp ++ [i]) (tp ++ [i]) (levelTail a ++ 0 :: ex)
          (semNo child (tp ++ [i]) 0 (tp ++ [i]) (levelTail a) tags ex
            { d with port := some (tp ++ [i]), obj := tp ++ [i] } false) with h | h
        · rw [h]; exact ihc _ _ _ _ _ _ _ _
        · rw [h]
          refine List.nodup_append.mpr ⟨ihc _ _ _ _ _ _ _ _, by simp, ?_⟩
          intro w hw b hb
          simp only [List.mem_singleton] at hb
          subst hb
          intro hwb
          subst hwb
          obtain ⟨j, s, _, hp⟩ := semNo_paths _ _ _ _ _ _ _ _ _ _ hw
          simp only [Who.path] at hp
          have : (tp ++ [i]) ++ [] = (tp ++ [i]) ++ j :: s := by simpa using hp
          have := List.append_cancel_left this
          cases this
      refine List.nodup_cons.mpr ⟨?_, List.nodup_append.mpr ⟨hchild_nodup, ihr _ _ _ _ _ _ _ _, ?_⟩⟩
      · intro hmem
        rcases List.mem_append.mp hmem with hmem | hmem
        · rcases hchild_paths _ hmem with ⟨j, s, hp⟩ | h
          · simp only [callOf, Who.path] at hp
            have : tp ++ [i] = tp ++ i :: j :: s := hp
            have := List.append_cancel_left this
            simp at this
          · simp [callOf] at h
        · obtain ⟨j, s, hj, hp⟩ := semNo_paths _ _ _ _ _ _ _ _ _ _ hmem
          simp only [callOf, Who.path] at hp
          have := path_index_ne (s1 := []) hp
          omega
      · intro w hw b hb hwb
        subst hwb
        obtain ⟨j, s, hj, hp⟩ := semNo_paths _ _ _ _ _ _ _ _ _ _ hb
        rcases hchild_paths _ hw with ⟨j', s', hp'⟩ | h
        · rw [hp'] at hp
          have := path_index_ne hp
          omega
        · subst h
          simp only [Who.path] at hp
          have : tp ++ i :: [] = tp ++ j :: s := by simpa using hp
          have := path_index_ne this
          omega

end Rtosc.Ports
