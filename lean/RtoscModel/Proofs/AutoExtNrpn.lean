/-
  C19 — the learn-queue clause for NRPN controllers, spelled out on the four-message sequence
  (CC 99 = parameter MSB, CC 98 = parameter LSB, CC 6 = data MSB, CC 38 = data LSB): the
  first three messages only fill the NRPN registers (nothing is emitted, no slot and no queue
  entry changes), the fourth completes the controller `msb*128+lsb`.
-/
import RtoscModel.Proofs.AutoLemmas
namespace Rtosc.Auto
open Rtosc
variable {F : Type}

theorem handleMidi_nrpnhi (A : Arith F) (m : Mgr F) (c a : Int) :
    handleMidi A m c 99 a = ({ m with parhi := a, valhi := -1, vallo := -1 }, []) := by
  simp [handleMidi, setParameterNumber, nrpnComplete, C_dataentryhi, C_dataentrylo, C_nrpnhi, C_nrpnlo]

theorem handleMidi_nrpnlo (A : Arith F) (m : Mgr F) (c b : Int) :
    handleMidi A m c 98 b = ({ m with parlo := b, valhi := -1, vallo := -1 }, []) := by
  simp [handleMidi, setParameterNumber, nrpnComplete, C_dataentryhi, C_dataentrylo, C_nrpnhi, C_nrpnlo]

theorem handleMidi_datahi (A : Arith F) (m : Mgr F) (c v : Int) (h1 : 0 ≤ m.parhi) (h2 : 0 ≤ m.parlo)
    (h3 : m.vallo = -1) :
    handleMidi A m c 6 v = ({ m with valhi := v }, []) := by
  simp [handleMidi, setParameterNumber, nrpnComplete, C_dataentryhi, C_dataentrylo, C_nrpnhi, C_nrpnlo, h1, h2, h3]

/-- the registers after CC 99 = `a`, CC 98 = `b`, CC 6 = `v1` -/
def afterThree (m : Mgr F) (a b v1 : Int) : Mgr F :=
  { m with parhi := a, parlo := b, valhi := v1, vallo := -1 }

/-- the first three messages of an NRPN sequence emit nothing and change nothing but the
    registers; the fourth then carries a value for the NRPN controller `a*128+b` -/
theorem nrpn_prefix (A : Arith F) (m : Mgr F) (c a b v1 v2 : Int) (ha : 0 ≤ a) (hb : 0 ≤ b)
    (h1 : 0 ≤ v1) (h2 : 0 ≤ v2) :
    run A m [.midi c 99 a, .midi c 98 b, .midi c 6 v1] = some (afterThree m a b v1, [[], [], []]) ∧
    controllerOf (afterThree m a b v1) c 38 v2 = some (true, a * 128 + b) ∧
    midiValue A (regs (afterThree m a b v1) 38 v2) true v2 =
      A.to32 (A.div64 (A.ofInt (v1 * 128 + v2)) (A.ofInt 16383)) := by
  refine ⟨?_, ?_, ?_⟩
  · simp only [run, step, handleMidi_nrpnhi, handleMidi_nrpnlo]
    rw [handleMidi_datahi A _ c v1 ha hb rfl]
    rfl
  · simp [controllerOf, afterThree, setParameterNumber, nrpnComplete, C_dataentryhi, C_dataentrylo,
      C_nrpnhi, C_nrpnlo, ha, hb]
    omega
  · simp [midiValue, regs, afterThree, setParameterNumber, C_dataentryhi, C_dataentrylo,
      C_nrpnhi, C_nrpnlo, ha, hb]

theorem run_append (A : Arith F) (m m1 : Mgr F) (ops1 ops2 : List (Op F)) (mss1 : List (List (Msg F)))
    (h : run A m ops1 = some (m1, mss1)) :
    run A m (ops1 ++ ops2) = (run A m1 ops2).map (fun r => (r.1, mss1 ++ r.2)) := by
  induction ops1 generalizing m mss1 with
  | nil =>
    simp only [run, Option.some.injEq, Prod.mk.injEq] at h
    obtain ⟨rfl, rfl⟩ := h
    simp only [List.nil_append]
    cases hr : run A m ops2 <;> simp
  | cons op ops ih =>
    simp only [run, List.cons_append] at h ⊢
    cases hs : step A m op with
    | none => simp [hs] at h
    | some r =>
      obtain ⟨m2, ms⟩ := r
      simp only [hs] at h ⊢
      cases hr : run A m2 ops with
      | none => simp [hr] at h
      | some r2 =>
        obtain ⟨m3, mss⟩ := r2
        simp only [hr, Option.some.injEq, Prod.mk.injEq] at h
        obtain ⟨rfl, rfl⟩ := h
        rw [ih m2 mss hr]
        cases hr3 : run A m3 ops2 <;> simp

end Rtosc.Auto
