/-
  C01 helper lemmas: the index accessors and the iterator on `Spec.encode m ++ rest`,
  assembled from the loop lemmas of OscRead.  Property theorems are in Props/C01.lean.
-/
import RtoscModel.Proofs.OscLength
namespace Rtosc.Osc
open Rtosc

theorem denote_toC (args : List Arg) (hwf : ∀ a ∈ args, a.WF) : Denote (args.map Arg.toC) args := by
  induction args with
  | nil => simp [Denote]
  | cons a as ih =>
    have hwa := hwf a List.mem_cons_self
    refine ⟨?_, ih (fun x hx => hwf x (List.mem_cons_of_mem _ hx))⟩
    cases a with
    | blob d =>
      have hb : d.length < 2147483648 := hwa
      have hl : (UInt32.ofNat d.length).toNat = d.length := by simp; omega
      simp [Arg.toC, CArg.abs, hl]
    | _ => simp [Arg.toC, CArg.abs]

theorem mapM_length {α β : Type} (f : α → Option β) : ∀ (l : List α) (l' : List β),
    l.mapM f = some l' → l'.length = l.length := by
  intro l
  induction l with
  | nil => intro l' h; simp at h; simp [h]
  | cons x xs ih =>
    intro l' h
    simp only [List.mapM_cons] at h
    cases hx : f x with
    | none => simp [hx] at h
    | some y =>
      cases hxs : xs.mapM f with
      | none => simp [hx, hxs] at h
      | some ys =>
        simp [hx, hxs] at h
        rw [← h]; simp [ih ys hxs]

/-- entries of `valuesOf`: a payload tag carries its argument, any other tag its flag value -/
theorem valuesOf_entry (tags : Bytes) : ∀ (args : List Arg) (n : Nat) (t : UInt8) (v : Val),
    Matches tags args → (Spec.valuesOf tags args)[n]? = some (t, v) →
    (hasReserved t = false ∧ v = flagVal t) ∨ (hasReserved t = true ∧ ∃ a, v = .arg a) := by
  induction tags with
  | nil => intro args n t v _ h; simp [Spec.valuesOf] at h
  | cons c ts ih =>
    intro args n t v hm h
    rcases tag_step hm with ⟨_, _, _, hm', hv⟩ | ⟨_, _, hr, hm', hv⟩ | ⟨_, hr, a, as, rfl, _, hm', hv⟩
    · rw [hv] at h; exact ih args n t v hm' h
    · rw [hv] at h
      cases n with
      | zero =>
        simp only [List.getElem?_cons_zero, Option.some.injEq, Prod.mk.injEq] at h
        exact Or.inl ⟨by rw [← h.1]; exact hr, by rw [← h.1, ← h.2]⟩
      | succ n => simp only [List.getElem?_cons_succ] at h; exact ih args n t v hm' h
    · rw [hv] at h
      cases n with
      | zero =>
        simp only [List.getElem?_cons_zero, Option.some.injEq, Prod.mk.injEq] at h
        exact Or.inr ⟨by rw [← h.1]; exact hr, a, h.2.symm⟩
      | succ n => simp only [List.getElem?_cons_succ] at h; exact ih as n t v hm' h

theorem valuesOf_length (tags : Bytes) : ∀ (args : List Arg), Matches tags args →
    (Spec.valuesOf tags args).length = (tags.filter (fun t => !isBracket t)).length := by
  induction tags with
  | nil => intro args _; simp [Spec.valuesOf]
  | cons c ts ih =>
    intro args hm
    rcases tag_step hm with ⟨hb, _, _, hm', hv⟩ | ⟨hb, _, _, hm', hv⟩ | ⟨hb, _, a, as, rfl, _, hm', hv⟩
    · rw [hv, ih args hm']; simp [hb]
    · rw [hv]; simp [hb, ih args hm']
    · rw [hv]; simp [hb, ih as hm']

theorem argumentView_spec (m : Msg) (rest : Bytes) (hwf : m.WF) (n : Nat) (t : UInt8) (v : Val)
    (h : (Spec.values m)[n]? = some (t, v)) :
    typeAt (Spec.encode m ++ rest) n = some t ∧ argumentView (Spec.encode m ++ rest) n = some v := by
  have hsz : (Spec.encode m).length < 4294967296 := hwf.size
  have hlen := encode_length m
  have hA : Aoff m = m.addr.length + (4 - m.addr.length % 4) := padStr_length m.addr
  have hB : Boff m = m.tags.length + 1 + (4 - (m.tags.length + 1) % 4) := by
    simp [Boff, padStr_length]
  have hok : TagsOK m.tags := hwf.tags_ok
  have has := argString_enc m rest hwf
  have hdt := drop_tags m rest
  have hty : typeAt (Spec.encode m ++ rest) n = some t := by
    simp only [typeAt, has, hdt]
    exact typeLoop_spec m.tags m.args _ n t v hwf.matches_ hok h
  refine ⟨hty, ?_⟩
  rcases valuesOf_entry m.tags m.args n t v hwf.matches_ h with ⟨hr, hv⟩ | ⟨hr, a, hv⟩
  · have := extract_flag (Spec.encode m ++ rest) 0 hr
    simp only [argumentView, argument, hty, argOff, hr, Bool.not_false, if_true]
    cases hx : extractArg (Spec.encode m ++ rest) 0 t with
    | none => rw [hx] at this; simp at this
    | some cv => rw [hx] at this; simp only [Option.bind_some] at this; simp [this, hv]
  · obtain ⟨j, ts', hj1, hj2, hj3, hj4, hj5, hj6, hj7⟩ := lead_spec m.tags m.args
      (zeros (3 - (m.tags.length + 1) % 4) ++ (m.args.flatMap encArg ++ rest)) hwf.matches_ hok
    have hadv : advancePast (Spec.encode m ++ rest) (Aoff m + 1) = some (j + (Aoff m + 1)) := by
      simp [advancePast, hdt, hj1]
    have hdrop : (Spec.encode m ++ rest).drop (j + (Aoff m + 1)) = ts' ++ 0 ::
        (zeros (3 - (m.tags.length + 1) % 4) ++ (m.args.flatMap encArg ++ rest)) := by
      rw [Nat.add_comm, ← List.drop_drop, hdt, List.drop_append_of_le_length hj7, hj2]
    have h' : (Spec.valuesOf ts' m.args)[n]? = some (t, v) := by rw [hj4]; exact h
    obtain ⟨pos', hp1, hp2, hp3⟩ := offLoop_spec (Spec.encode m ++ rest) ts' m.args n (Aoff m + Boff m) rest
      (zeros (3 - (m.tags.length + 1) % 4) ++ (m.args.flatMap encArg ++ rest)) t v hj5 hj6 hwf.args_ok
      (drop_vals m rest) (by omega) h'
    obtain ⟨R', hd', hk, hwa⟩ := hp3 a hv
    have hoff : argOff (Spec.encode m ++ rest) n = some pos' := by
      simp only [argOff, hty, hr, Bool.not_true, if_false, has, argBase_enc m rest hwf, hadv, hdrop, hp1,
        Option.map_some, Bool.false_eq_true]
      rw [u32_id (by omega)]
    have := extract_enc hd' hk hwa
    simp only [argumentView, argument, hty, hoff]
    cases hx : extractArg (Spec.encode m ++ rest) pos' t with
    | none => rw [hx] at this; simp at this
    | some cv => rw [hx] at this; simp only [Option.bind_some] at this; simp [this, hv]

theorem iterate_spec (m : Msg) (rest : Bytes) (hwf : m.WF) (h31 : (Spec.encode m).length < 2147483648) :
    ∃ l, iterate (Spec.encode m ++ rest) = some l ∧
      l.mapM (viewPair (Spec.encode m ++ rest)) = some (Spec.values m) := by
  have hlen := encode_length m
  have hA : Aoff m = m.addr.length + (4 - m.addr.length % 4) := padStr_length m.addr
  have hB : Boff m = m.tags.length + 1 + (4 - (m.tags.length + 1) % 4) := by
    simp [Boff, padStr_length]
  have hok : TagsOK m.tags := hwf.tags_ok
  have has := argString_enc m rest hwf
  have hdt := drop_tags m rest
  obtain ⟨j, ts', hj1, hj2, hj3, hj4, hj5, hj6, hj7⟩ := lead_spec m.tags m.args
    (zeros (3 - (m.tags.length + 1) % 4) ++ (m.args.flatMap encArg ++ rest)) hwf.matches_ hok
  have hadv : advancePast (Spec.encode m ++ rest) (Aoff m + 1) = some (j + (Aoff m + 1)) := by
    simp [advancePast, hdt, hj1]
  have hdrop : (Spec.encode m ++ rest).drop (j + (Aoff m + 1)) = ts' ++ 0 ::
      (zeros (3 - (m.tags.length + 1) % 4) ++ (m.args.flatMap encArg ++ rest)) := by
    rw [Nat.add_comm, ← List.drop_drop, hdt, List.drop_append_of_le_length hj7, hj2]
  have hstart : argStart (Spec.encode m ++ rest) = some (Aoff m + Boff m) := by
    simp only [argStart, has, argBase_enc m rest hwf, Option.map_some]
    rw [u32_id (by omega)]
  have hbeg : itrBegin (Spec.encode m ++ rest) = some ⟨j + (Aoff m + 1), Aoff m + Boff m⟩ := by
    simp [itrBegin, has, hadv, hstart]
  have hfuel : ts'.length < (Spec.encode m ++ rest).length + 1 := by
    have : ts'.length ≤ m.tags.length := by rw [← hj2, List.length_drop]; omega
    simp only [List.length_append]; omega
  obtain ⟨l, hl1, hl2⟩ := iterLoop_spec (Spec.encode m ++ rest) _ ts' m.args (j + (Aoff m + 1))
    (Aoff m + Boff m) rest _ hj5 hj6 hj3 hwf.args_ok hdrop (drop_vals m rest) (by omega) hfuel
  exact ⟨l, by simp only [iterate, hbeg, hl1], by rw [hl2, hj4]; rfl⟩
end Rtosc.Osc
