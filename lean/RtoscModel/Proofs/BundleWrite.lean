/-
  C02 / C08 helper lemmas about the writer `rtosc_bundle` (repaired) and `append_bundle`.
-/
import RtoscModel.Proofs.BundleSpec
namespace Rtosc.Osc
open Rtosc

/-! ### stores -/

-- `stores_eq` (inside the buffer `stores` is a splice) lives next to the model: Osc/Bundle.lean

theorem stores_zeros (d l : Bytes) (k : Nat) (o : Bool) (h : l.length ≤ k) :
    (⟨d ++ zeros k, o⟩ : BW).stores d.length l = ⟨d ++ l ++ zeros (k - l.length), o⟩ := by
  rw [stores_eq l _ _ (by simp; omega)]
  have h1 : (d ++ zeros k).take d.length = d := List.take_left
  have h2 : (d ++ zeros k).drop (d.length + l.length) = zeros (k - l.length) := by
    rw [List.drop_append]; simp [zeros]
  simp only [h1, h2]

theorem stores_safe (l : Bytes) (w : BW) (i : Nat) (h : i + l.length ≤ w.buf.length) :
    (w.stores i l).oob = w.oob ∧ (w.stores i l).buf.length = w.buf.length := by
  rw [stores_eq l w i h]
  refine ⟨rfl, ?_⟩
  simp only [List.length_append, List.length_take, List.length_drop]
  omega

/-! ### the element loop on well-formed elements -/

theorem holds_split {blk : Bytes} {e : Elem} (h : Elem.Holds blk e) :
    ∃ t, blk = Spec.encodeElem e ++ t := by
  obtain ⟨t, ht⟩ := h; exact ⟨t, ht.symm⟩

theorem take4_zeros {t : Bytes} (h : t.take 4 = [0, 0, 0, 0]) : ∃ x, t = 0 :: 0 :: 0 :: 0 :: x := by
  match t, h with
  | a :: b :: c :: d :: x, h =>
    simp only [List.take_succ_cons, List.take_zero, List.cons.injEq, and_true] at h
    obtain ⟨rfl, rfl, rfl, rfl⟩ := h
    exact ⟨x, rfl⟩

/-- the size `rtosc_bundle` finds for an element -/
theorem messageLengthU_elem {blk : Bytes} {e : Elem} (hwf : e.WF) (hh : Elem.Holds blk e)
    (ht : Elem.Terminated blk e) : messageLengthU blk = .ok (Spec.encodeElem e).length := by
  obtain ⟨t, rfl⟩ := holds_split hh
  cases e with
  | msg m =>
    simp only [Elem.WF] at hwf
    simp only [Spec.encodeElem]
    exact messageLengthU_msg m t hwf.1 hwf.2
  | bundle tt es =>
    simp only [Elem.WF] at hwf
    have := ht rfl
    rw [List.drop_left] at this
    obtain ⟨x, rfl⟩ := take4_zeros this
    exact messageLengthU_bundle tt es x hwf.2

/-- what the theorems about `rtosc_bundle` ask of elements and blocks -/
def GoodBlocks : List Elem → List Bytes → Prop
  | [], [] => True
  | e :: es, blk :: blks => (e.WF ∧ Elem.Holds blk e ∧ Elem.Terminated blk e) ∧ GoodBlocks es blks
  | _, _ => False

theorem goodBlocks_of {es : List Elem} : ∀ {blks : List Bytes}, Elems.WF es → BlocksHold es blks →
    ¬ NestedUnterminated es blks → GoodBlocks es blks := by
  induction es with
  | nil => intro blks _ hb _; cases blks <;> simp_all [BlocksHold, GoodBlocks]
  | cons e es ih =>
    intro blks hwf hb hn
    cases blks with
    | nil => simp [BlocksHold] at hb
    | cons blk blks =>
      simp only [Elems.WF] at hwf
      simp only [BlocksHold] at hb
      simp only [NestedUnterminated, not_or, Classical.not_not] at hn
      exact ⟨⟨hwf.1, hb.1, hn.1⟩, ih hwf.2 hb.2 hn.2⟩

theorem bundleTotal_spec : ∀ (es : List Elem) (blks : List Bytes) (acc : Nat), GoodBlocks es blks →
    bundleTotal acc blks = .ok (acc + (Spec.encodeElems es).length) := by
  intro es
  induction es with
  | nil => intro blks acc h; cases blks <;> simp_all [GoodBlocks, bundleTotal, Spec.encodeElems]
  | cons e es ih =>
    intro blks acc h
    cases blks with
    | nil => simp [GoodBlocks] at h
    | cons blk blks =>
      simp only [GoodBlocks] at h
      simp only [bundleTotal, messageLengthU_elem h.1.1 h.1.2.1 h.1.2.2, ih blks _ h.2]
      rw [encodeElems_cons_length]; congr 1; omega

theorem bundleWrite_spec : ∀ (es : List Elem) (blks : List Bytes) (d : Bytes) (k : Nat) (o : Bool),
    GoodBlocks es blks → (Spec.encodeElems es).length ≤ k → (Spec.encodeElems es).length < 4294967296 →
    bundleWrite ⟨d ++ zeros k, o⟩ d.length blks =
      .ok (⟨d ++ Spec.encodeElems es ++ zeros (k - (Spec.encodeElems es).length), o⟩,
           d.length + (Spec.encodeElems es).length) := by
  intro es
  induction es with
  | nil => intro blks d k o h _ _; cases blks <;> simp_all [GoodBlocks, bundleWrite, Spec.encodeElems]
  | cons e es ih =>
    intro blks d k o h hk hlt
    cases blks with
    | nil => simp [GoodBlocks] at h
    | cons blk blks =>
      simp only [GoodBlocks] at h
      obtain ⟨t, rfl⟩ := holds_split h.1.2.1
      rw [encodeElems_cons_length] at hk hlt
      simp only [bundleWrite, messageLengthU_elem h.1.1 h.1.2.1 h.1.2.2]
      rw [if_pos (by simp), put32_eq, List.take_left]
      rw [stores_zeros d _ k o (by rw [be32_length]; omega)]
      have e1 : d.length + 4 = (d ++ be32 (UInt32.ofNat (Spec.encodeElem e).length)).length := by
        simp [be32_length]
      rw [e1, stores_zeros _ _ _ o (by rw [be32_length]; omega)]
      have e2 : (d ++ be32 (UInt32.ofNat (Spec.encodeElem e).length)).length + (Spec.encodeElem e).length =
          (d ++ be32 (UInt32.ofNat (Spec.encodeElem e).length) ++ Spec.encodeElem e).length := by
        simp only [List.length_append]
      rw [e2, ih blks _ _ o h.2 (by simp only [be32_length]; omega) (by omega)]
      simp only [Rd.ok.injEq, Prod.mk.injEq, BW.mk.injEq, and_true, Spec.encodeElems, List.append_assoc,
        List.length_append, be32_length]
      refine ⟨?_, by omega⟩
      simp only [Nat.sub_sub, Nat.add_assoc]

/-- `rtosc_bundle` on well-formed elements, destination large enough -/
theorem bundle_spec (es : List Elem) (blks : List Bytes) (tt : UInt64) (buf : Bytes)
    (h : GoodBlocks es blks) (hsz : (Spec.encodeElem (.bundle tt es)).length < 4294967296)
    (hcap : (Spec.encodeElem (.bundle tt es)).length ≤ buf.length) :
    bundle buf tt blks = .ok ⟨Spec.encodeElem (.bundle tt es) ++
        zeros (buf.length - (Spec.encodeElem (.bundle tt es)).length),
      (Spec.encodeElem (.bundle tt es)).length, false⟩ := by
  have hl := encodeElem_bundle_length tt es
  simp only [bundle, bundleTotal_spec es blks 16 h]
  rw [if_neg (by omega)]
  simp only [bundleBody]
  have s1 := stores_zeros [] bundleMagic buf.length false (by rw [bundleMagic_length]; omega)
  simp only [List.nil_append, List.length_nil, bundleMagic_length] at s1
  rw [s1]
  have s2 := stores_zeros bundleMagic (put64 tt) (buf.length - 8) false
    (by rw [put64_eq, be64_length]; omega)
  simp only [bundleMagic_length] at s2
  rw [s2, put64_eq]
  have hw := bundleWrite_spec es blks (bundleMagic ++ be64 tt) (buf.length - 8 - (be64 tt).length) false h
    (by rw [be64_length]; omega) (by omega)
  rw [show (bundleMagic ++ be64 tt).length = 16 from rfl] at hw
  rw [hw]
  simp only [Spec.encodeElem, List.length_append, be64_length, bundleMagic_length, Nat.sub_sub]

/-- if the bundle does not fit: zero-filled buffer, return value 0 -/
theorem bundle_small (es : List Elem) (blks : List Bytes) (tt : UInt64) (buf : Bytes)
    (h : GoodBlocks es blks) (hcap : buf.length < (Spec.encodeElem (.bundle tt es)).length) :
    bundle buf tt blks = .ok ⟨zeros buf.length, 0, false⟩ := by
  have hl := encodeElem_bundle_length tt es
  simp only [bundle, bundleTotal_spec es blks 16 h]
  rw [if_pos (by omega)]

/-! ### store safety for arbitrary element bytes -/

theorem bundleTotal_ge : ∀ (blks : List Bytes) (acc total : Nat), bundleTotal acc blks = .ok total →
    acc ≤ total := by
  intro blks
  induction blks with
  | nil => intro acc total h; simp [bundleTotal] at h; omega
  | cons blk blks ih =>
    intro acc total h
    simp only [bundleTotal] at h
    split at h
    · have := ih _ _ h; omega
    · cases h
    · cases h

/-- the second pass stores exactly the bytes the first pass counted -/
theorem bundleWrite_safe : ∀ (blks : List Bytes) (w : BW) (pos acc total : Nat),
    bundleTotal acc blks = .ok total → pos + (total - acc) ≤ w.buf.length →
    ∀ w' p', bundleWrite w pos blks = .ok (w', p') →
      w'.oob = w.oob ∧ w'.buf.length = w.buf.length ∧ p' = pos + (total - acc) := by
  intro blks
  induction blks with
  | nil =>
    intro w pos acc total ht _ w' p' hw
    simp only [bundleTotal, Rd.ok.injEq] at ht
    simp only [bundleWrite, Rd.ok.injEq, Prod.mk.injEq] at hw
    obtain ⟨rfl, rfl⟩ := hw
    subst ht; simp
  | cons blk blks ih =>
    intro w pos acc total ht hfit w' p' hw
    simp only [bundleTotal] at ht
    simp only [bundleWrite] at hw
    cases hm : messageLengthU blk with
    | oob => rw [hm] at hw; cases hw
    | hang => rw [hm] at hw; cases hw
    | ok size =>
      rw [hm] at ht hw
      simp only at ht hw
      have hge := bundleTotal_ge _ _ _ ht
      split at hw
      · next hsize =>
        have s1 := stores_safe (put32 (UInt32.ofNat size)) w pos (by simp [put32]; omega)
        have s2 := stores_safe (blk.take size) (w.stores pos (put32 (UInt32.ofNat size))) (pos + 4)
          (by rw [s1.2, List.length_take, Nat.min_eq_left hsize]; omega)
        have := ih _ (pos + 4 + size) _ total ht (by rw [s2.2, s1.2]; omega) w' p' hw
        refine ⟨by rw [this.1, s2.1, s1.1], by rw [this.2.1, s2.2, s1.2], by rw [this.2.2]; omega⟩
      · cases hw

/-- **no store outside the buffer**, whatever the element pointers point at -/
theorem bundle_safe (buf : Bytes) (tt : UInt64) (blks : List Bytes) (r : BResult)
    (h : bundle buf tt blks = .ok r) : r.oob = false ∧ r.buf.length = buf.length := by
  simp only [bundle] at h
  cases ht : bundleTotal 16 blks with
  | oob => rw [ht] at h; cases h
  | hang => rw [ht] at h; cases h
  | ok total =>
    rw [ht] at h
    simp only at h
    split at h
    · simp only [Rd.ok.injEq] at h; subst h; simp
    · next hfit =>
      have hge := bundleTotal_ge _ _ _ ht
      simp only [bundleBody] at h
      have s1 := stores_safe bundleMagic ⟨zeros buf.length, false⟩ 0 (by simp [bundleMagic_length]; omega)
      have s2 := stores_safe (put64 tt) ((⟨zeros buf.length, false⟩ : BW).stores 0 bundleMagic) 8
        (by rw [s1.2]; simp [put64]; omega)
      cases hw : bundleWrite (((⟨zeros buf.length, false⟩ : BW).stores 0 bundleMagic).stores 8 (put64 tt)) 16 blks with
      | oob => rw [hw] at h; cases h
      | hang => rw [hw] at h; cases h
      | ok res =>
        rw [hw] at h
        obtain ⟨w', p'⟩ := res
        simp only [Rd.ok.injEq] at h
        subst h
        have := bundleWrite_safe blks _ 16 16 total ht (by rw [s2.2, s1.2]; simp; omega) w' p' hw
        refine ⟨by rw [this.1, s2.1, s1.1], by rw [this.2.1, s2.2, s1.2]; simp⟩

/-- the return value and the fail-closed behaviour, whatever the element pointers point at -/
theorem bundle_ret (buf : Bytes) (tt : UInt64) (blks : List Bytes) (r : BResult)
    (h : bundle buf tt blks = .ok r) :
    ∃ total, bundleTotal 16 blks = .ok total ∧
      (buf.length < total → r = ⟨zeros buf.length, 0, false⟩) ∧ (total ≤ buf.length → r.ret = total) := by
  simp only [bundle] at h
  cases ht : bundleTotal 16 blks with
  | oob => rw [ht] at h; cases h
  | hang => rw [ht] at h; cases h
  | ok total =>
    rw [ht] at h
    simp only at h
    refine ⟨total, rfl, ?_, ?_⟩
    · intro hlt
      rw [if_pos (by omega)] at h
      simp only [Rd.ok.injEq] at h; exact h.symm
    · intro hle
      rw [if_neg (by omega)] at h
      have hge := bundleTotal_ge _ _ _ ht
      simp only [bundleBody] at h
      have s1 := stores_safe bundleMagic ⟨zeros buf.length, false⟩ 0 (by simp [bundleMagic_length]; omega)
      have s2 := stores_safe (put64 tt) ((⟨zeros buf.length, false⟩ : BW).stores 0 bundleMagic) 8
        (by rw [s1.2]; simp [put64]; omega)
      cases hw : bundleWrite (((⟨zeros buf.length, false⟩ : BW).stores 0 bundleMagic).stores 8 (put64 tt)) 16 blks with
      | oob => rw [hw] at h; cases h
      | hang => rw [hw] at h; cases h
      | ok res =>
        rw [hw] at h
        obtain ⟨w', p'⟩ := res
        simp only [Rd.ok.injEq] at h
        subst h
        have := bundleWrite_safe blks _ 16 16 total ht (by rw [s2.2, s1.2]; simp; omega) w' p' hw
        simp only [this.2.2]; omega

/-! ### `append_bundle` -/

theorem appendBundle_safe (dst src : Bytes) (maxLen dstLen srcLen : Nat) (r : BResult)
    (hmax : maxLen ≤ dst.length) (h : appendBundle dst src maxLen dstLen srcLen = .ok r) :
    r.oob = false ∧ r.buf.length = dst.length := by
  simp only [appendBundle] at h
  split at h
  · simp only [Rd.ok.injEq] at h; subst h; simp
  · next hc =>
    simp only [not_or, Nat.not_lt] at hc
    split at h
    · next hs =>
      simp only [Rd.ok.injEq] at h; subst h
      have s1 := stores_safe (put32 (UInt32.ofNat srcLen)) ⟨dst, false⟩ dstLen (by simp [put32]; omega)
      have s2 := stores_safe (src.take srcLen) ((⟨dst, false⟩ : BW).stores dstLen (put32 (UInt32.ofNat srcLen)))
        (dstLen + 4) (by rw [s1.2, List.length_take, Nat.min_eq_left hs]; simp; omega)
      exact ⟨by rw [s2.1, s1.1], by rw [s2.2, s1.2]⟩
    · cases h

theorem appendBundle_spec (tt : UInt64) (es : List Elem) (e : Elem) (tail srest : Bytes) (maxLen : Nat)
    (hsz : (Spec.encodeElem e).length < 4294967296)
    (hmax : maxLen ≤ (Spec.encodeElem (.bundle tt es) ++ tail).length)
    (hfit : (Spec.encodeElem (.bundle tt es)).length + (Spec.encodeElem e).length + 4 ≤ maxLen) :
    appendBundle (Spec.encodeElem (.bundle tt es) ++ tail) (Spec.encodeElem e ++ srest) maxLen
        (Spec.encodeElem (.bundle tt es)).length (Spec.encodeElem e).length =
      .ok ⟨Spec.encodeElem (.bundle tt (es ++ [e])) ++ tail.drop (4 + (Spec.encodeElem e).length),
        (Spec.encodeElem (.bundle tt (es ++ [e]))).length, false⟩ := by
  have h8 := encodeElem_length_ge e
  simp only [List.length_append] at hmax
  have hnew : Spec.encodeElem (.bundle tt (es ++ [e])) =
      Spec.encodeElem (.bundle tt es) ++ be32 (UInt32.ofNat (Spec.encodeElem e).length) ++ Spec.encodeElem e := by
    simp [Spec.encodeElem, encodeElems_append]
  rw [hnew]
  have hE : 16 ≤ (Spec.encodeElem (.bundle tt es)).length := by rw [encodeElem_bundle_length]; omega
  generalize Spec.encodeElem (.bundle tt es) = E at *
  generalize Spec.encodeElem e = S at *
  simp only [appendBundle]
  rw [if_neg (by omega), if_pos (by simp)]
  rw [put32_eq, List.take_left]
  have ht4 : S.length + 4 ≤ tail.length := by omega
  have hd1 : (E ++ tail).drop (E.length + 4) = tail.drop 4 := by
    rw [← List.drop_drop, List.drop_left]
  have hb1 : (⟨E ++ tail, false⟩ : BW).stores E.length (be32 (UInt32.ofNat S.length)) =
      ⟨(E ++ be32 (UInt32.ofNat S.length)) ++ tail.drop 4, false⟩ := by
    rw [stores_eq _ _ _ (by simp only [List.length_append, be32_length]; omega)]
    simp only [List.take_left, be32_length, hd1]
  rw [hb1]
  have hlen : E.length + 4 = (E ++ be32 (UInt32.ofNat S.length)).length := by simp [be32_length]
  have hd2 : ((E ++ be32 (UInt32.ofNat S.length)) ++ tail.drop 4).drop
      ((E ++ be32 (UInt32.ofNat S.length)).length + S.length) = tail.drop (4 + S.length) := by
    rw [← List.drop_drop, List.drop_left, List.drop_drop]
  rw [hlen, stores_eq _ _ _ (by simp only [List.length_append, be32_length, List.length_drop]; omega)]
  rw [List.take_left, hd2]
  simp only [List.length_append, be32_length, List.append_assoc, Nat.add_assoc, Nat.add_comm S.length 4]

end Rtosc.Osc
