/-
  C10 — tier 3, compressed runs in context (3): the printer.

  `rtosc_print_range` on an int32 run behind any left neighbour (`printRange_runG`), one iteration of
  the loop of `rtosc_print_arg_vals` for a converted run (`printLoop_step_run`), and the loop over an
  argument list that `rtosc_convert_to_range` cuts into the given segments (`Segmented`,
  `printLoop_segs`): the text is a `SegsText`, which scanner and checker read back
  (PrettyRunsExtScan / PrettyRunsExtCheck) — `runs_roundtrip_cells`.
-/
import RtoscModel.Proofs.PrettyRunsExtCheck
set_option linter.unusedSimpArgs false
set_option linter.unusedVariables false
namespace Rtosc.Pretty
open Rtosc Rtosc.Libc
open Rtosc.ArgVal (Cell)

theorem initArgsWritten_ellG (pre : Bytes) (cols : Int) :
    initArgsWritten ⟨pre ++ lit " ... ", cols⟩ = .ok (if cols ≠ 0 then 1 else 0) := by
  by_cases hcols : cols ≠ 0
  · simp [initArgsWritten, hcols, lit_ell, show isspace 32 = true from by decide]
  · simp [initArgsWritten, hcols]

theorem printRangeElems_lastG (opt : POpt) {a d : Int} {n : Nat} (h : RunHyp a d n) (f : Nat) (pre : Bytes)
    (cols : Int) (wrt : Nat) (awl : Nat) :
    ∃ (sep : Bytes) (cols' : Int), IsSepTxt sep ∧
      printRangeElems (printArgVal (f + 1) opt) opt [Cell.rep n 1, Cell.int .i d, Cell.int .i a] 1
        ((n - 1 : Nat) : Int) ⟨pre ++ lit " ... ", cols⟩ wrt (((pre ++ lit " ... ").length : Int) - 1) awl 1 =
      .ok (⟨pre ++ [32, 46, 46, 46] ++ sep ++ fmtDec (a + ((n - 1 : Nat) : Int) * d) ++ [32], cols'⟩,
           wrt + (fmtDec (a + ((n - 1 : Nat) : Int) * d)).length + (sep.length - 1) + 1) := by
  have hn := h.hn
  have hrz := h.hrange (n - 1) (by omega)
  have hmz := h.mul (n - 1) (by omega)
  have hz : rangeArg [Cell.rep n 1, Cell.int .i d, Cell.int .i a] ((n - 1 : Nat) : Int) =
      .ok (some (Cell.int .i (a + ((n - 1 : Nat) : Int) * d))) := by
    rw [rangeArg_int, toI32_id (((n - 1 : Nat) : Int) * d) (by omega) (by omega), toI32_id _ hrz.1 hrz.2]
  generalize hZ : fmtDec (a + ((n - 1 : Nat) : Int) * d) = Z at *
  have hout : pre ++ lit " ... " = (pre ++ [32, 46, 46, 46]) ++ [32] := by simp [lit_ell]
  obtain ⟨pre1, cols1, awl1, hlb, _, hpre1⟩ := linebreakCheck_tok (pre ++ lit " ... ") Z
    (cols + (Z.length : Nat)) (wrt + Z.length) (((pre ++ lit " ... ").length : Int) - 1) awl opt.linelength
    (Or.inr ⟨pre ++ [32, 46, 46, 46], hout, by rw [hout]; simp; omega⟩)
  unfold printRangeElems
  simp only [show ((1 : Int) ≠ 0) from by decide, ne_eq, not_false_eq_true, ↓reduceIte, hz, must, bind, Except.bind, pure, Except.pure,
    printArgVal_int_ri, hZ, hlb]
  unfold printRangeElems
  rcases hpre1 with hp | ⟨base, hb1, hb2⟩
  · refine ⟨[32], cols1 + 1, Or.inl rfl, ?_⟩
    subst hp
    simp [lit_ell]
  · have hbase : base = pre ++ [32, 46, 46, 46] := by
      rw [hout] at hb1
      exact (List.append_inj_left' hb1 rfl).symm
    refine ⟨nl4, cols1 + 1, Or.inr rfl, ?_⟩
    subst hb2; subst hbase
    simp [lit_ell, nl4]

/-- the text of an int32 run behind the left neighbour `L` -/
def runTextL (L : Option Cell) (a d : Int) (n : Nat) (sep : Bytes) : Bytes :=
  if shortForm L a d then fmtDec a ++ ellRest sep (fmtDec (zOf a d n))
  else fmtDec a ++ ([32] ++ (fmtDec (a + d) ++ ellRest sep (fmtDec (zOf a d n))))

theorem type_105 (c : Cell) (h : c.type = 105) : ∃ p, c = Cell.int .i p :=
  typesMatch_105 c (by simp [typesMatch, h])

theorem ite_ok_bool (b1 b2 : Bool) : (if b1 = true then (Except.ok true : Res Bool) else Except.ok b2) = .ok (b1 || b2) := by
  cases b1 <;> simp

theorem confusing_true {L : Option Cell} {a : Int} (h : confusing L a = true) : ∃ q, L = some (Cell.int .i q) ∧ q ≠ a := by
  cases L with
  | none => simp [confusing] at h
  | some c =>
    cases c with
    | int ty v =>
      cases ty with
      | i => exact ⟨v, rfl, by simpa [confusing] using h⟩
      | c => simp [confusing] at h
      | r => simp [confusing] at h
    | _ => simp [confusing] at h

/-- a left neighbour that is not confusing does not influence `rtosc_print_range` -/
theorem printRange_prev_irrel (pe : ElemPrinter) (opt : POpt) (n : Nat) (a d : Int) (prev : Option Cell) (st : PSt)
    (h : confusing prev a = false) :
    printRange pe opt [Cell.rep n 1, Cell.int .i d, Cell.int .i a] prev st =
      printRange pe opt [Cell.rep n 1, Cell.int .i d, Cell.int .i a] none st := by
  cases prev with
  | none => rfl
  | some p =>
    by_cases hp : p.type = 105
    · obtain ⟨q, rfl⟩ := type_105 p hp
      have hq : a = q := by
        simp only [confusing, ne_eq, decide_not, Bool.not_eq_false', decide_eq_true_eq] at h
        exact h.symm
      subst hq
      unfold printRange
      simp only [deref, bind, Except.bind, type_int_i, eqSingle_int, decide_true, Bool.not_true, ↓reduceIte, pure,
        Except.pure, List.drop_succ_cons, List.drop_zero, show ((1 : Int) ≠ 0) from by decide, ne_eq,
        not_false_eq_true, true_or, fromInt, must]
    · unfold printRange
      have hp' : ¬ (p.type = 105) := hp
      simp only [deref, bind, Except.bind, type_int_i, hp', ↓reduceIte, pure, Except.pure, List.drop_succ_cons,
        List.drop_zero, show ((1 : Int) ≠ 0) from by decide, ne_eq, not_false_eq_true, true_or, fromInt, must]

theorem printRange_runG (opt : POpt) (hc : opt.compress = true) {a d : Int} {n : Nat} (h : RunHyp a d n)
    (f : Nat) (prev : Option Cell) (st : PSt) :
    ∃ (sep : Bytes) (cols' : Int), IsSepTxt sep ∧
      printRange (printArgVal (f + 1) opt) opt [Cell.rep n 1, Cell.int .i d, Cell.int .i a] prev st =
        .ok (⟨st.out ++ runTextL prev a d n sep, cols'⟩, (runTextL prev a d n sep).length) := by
  have hn := h.hn
  have hdb := h.dbound
  have hr0 := h.r0
  have hr1 := h.r1
  have hn0 : ¬ ((n : Int) = 0) := by omega
  have hstart : (n : Int) - 1 = ((n - 1 : Nat) : Int) := by omega
  have hb : rangeArg [Cell.rep n 1, Cell.int .i d, Cell.int .i a] 1 = .ok (some (Cell.int .i (a + d))) := by
    rw [rangeArg_int, Int.one_mul, toI32_id d (by omega) (by omega), toI32_id _ hr1.1 hr1.2]
  have hone : ((n : Int) - ((n - 1 : Nat) : Int)).toNat = 1 := by omega
  have hlt : ((n - 1 : Nat) : Int) < (n : Int) := by omega
  by_cases hcf : confusing prev a = true
  · -- always `a b ... z`
    obtain ⟨q, rfl, hqa⟩ := confusing_true hcf
    have hne : ¬ (a = q) := fun e => hqa e.symm
    have hsf : shortForm (some (Cell.int .i q)) a d = false := by simp [shortForm, hcf]
    unfold printRange
    simp only [deref, bind, Except.bind, hc, ↓reduceIte, show ((1 : Int) ≠ 0) from by decide, ne_eq,
      List.drop_succ_cons, List.drop_zero, printArgVal_int_ri, fromInt, must, pure, Except.pure, eqSingle_int,
      hn0, not_false_eq_true, or_false, hstart, type_int_i, hne, decide_false, Bool.not_false, Bool.not_true,
      Bool.and_false, Bool.false_or, Bool.false_eq_true, hone, hlt, hb]
    simp only [ite_ok_bool]
    rw [initArgsWritten_ellG]
    obtain ⟨sep, cols', hsep, hpe⟩ := printRangeElems_lastG opt h f (st.out ++ fmtDec a ++ [32] ++ fmtDec (a + d))
      (st.cols + ((fmtDec a).length : Nat) + 1 + ((fmtDec (a + d)).length : Nat) + 5)
      ((fmtDec a).length + 1 + (fmtDec (a + d)).length + 5)
      (if st.cols + ((fmtDec a).length : Nat) + 1 + ((fmtDec (a + d)).length : Nat) + 5 ≠ 0 then 1 else 0)
    simp only [hpe]
    refine ⟨sep, cols', hsep, ?_⟩
    have hsl : 1 ≤ sep.length := by rcases hsep with rfl | rfl <;> simp
    rw [List.dropLast_concat]
    simp only [runTextL, hsf, Bool.false_eq_true, ↓reduceIte, ellRest, zOf, List.append_assoc, List.length_append,
      List.length_cons, List.cons_append, List.nil_append, List.length_nil]
    congr 2
    omega
  · have hcf' : confusing prev a = false := by simpa using hcf
    rw [printRange_prev_irrel _ opt n a d prev st hcf']
    have hn0' : ¬ ((n : Int) = 0) := hn0
    unfold printRange
    simp only [deref, bind, Except.bind, hc, ↓reduceIte, show ((1 : Int) ≠ 0) from by decide, ne_eq,
      List.drop_succ_cons, List.drop_zero, printArgVal_int_ri, fromInt, must, pure, Except.pure, eqSingle_int,
      hn0, not_false_eq_true, or_false, hstart, hone, hlt, hb, ite_ok_bool, decide_false, Bool.or_false,
      Bool.not_false, Bool.and_true]
    by_cases hu : d = 1 ∨ d = -1
    · have hsf : shortForm prev a d = true := by
        rcases hu with rfl | rfl <;> simp [shortForm, hcf']
      have hun : (decide (d = 1) || decide (d = -1)) = true := by rcases hu with rfl | rfl <;> simp
      simp only [hun, ↓reduceIte]
      rw [initArgsWritten_ellG]
      obtain ⟨sep, cols', hsep, hpe⟩ := printRangeElems_lastG opt h f (st.out ++ fmtDec a)
        (st.cols + ((fmtDec a).length : Nat) + 5) ((fmtDec a).length + 5)
        (if st.cols + ((fmtDec a).length : Nat) + 5 ≠ 0 then 1 else 0)
      simp only [hpe]
      refine ⟨sep, cols', hsep, ?_⟩
      have hsl : 1 ≤ sep.length := by rcases hsep with rfl | rfl <;> simp
      rw [List.dropLast_concat]
      simp only [runTextL, hsf, ↓reduceIte, ellRest, zOf, List.append_assoc, List.length_append,
        List.length_cons, List.cons_append, List.nil_append, List.length_nil]
      congr 2
      omega
    · have hsf : shortForm prev a d = false := by
        have h1 : ¬ d = 1 := fun e => hu (Or.inl e)
        have h2 : ¬ d = -1 := fun e => hu (Or.inr e)
        simp [shortForm, h1, h2]
      have hun : (decide (d = 1) || decide (d = -1)) = false := by
        have h1 : ¬ d = 1 := fun e => hu (Or.inl e)
        have h2 : ¬ d = -1 := fun e => hu (Or.inr e)
        simp [h1, h2]
      simp only [hun, Bool.false_eq_true, ↓reduceIte]
      rw [initArgsWritten_ellG]
      obtain ⟨sep, cols', hsep, hpe⟩ := printRangeElems_lastG opt h f (st.out ++ fmtDec a ++ [32] ++ fmtDec (a + d))
        (st.cols + ((fmtDec a).length : Nat) + 1 + ((fmtDec (a + d)).length : Nat) + 5)
        ((fmtDec a).length + 1 + (fmtDec (a + d)).length + 5)
        (if st.cols + ((fmtDec a).length : Nat) + 1 + ((fmtDec (a + d)).length : Nat) + 5 ≠ 0 then 1 else 0)
      simp only [hpe]
      refine ⟨sep, cols', hsep, ?_⟩
      have hsl : 1 ≤ sep.length := by rcases hsep with rfl | rfl <;> simp
      rw [List.dropLast_concat]
      simp only [runTextL, hsf, Bool.false_eq_true, ↓reduceIte, ellRest, zOf, List.append_assoc, List.length_append,
        List.length_cons, List.cons_append, List.nil_append, List.length_nil]
      congr 2
      omega

/-! ### the loop of `rtosc_print_arg_vals` -/

/-- one iteration of the printer's loop for a run that `rtosc_convert_to_range` has converted -/
theorem printLoop_step_run (opt : POpt) (args : List Cell) (c : Cell) (more : List Cell) (i f : Nat) (st : PSt)
    (wrt : Nat) (lastSep : Int) (awl : Nat)
    (hi : args.drop i = c :: more) (hlt : i < args.length)
    (sk : Nat) (block : List Cell)
    (hconv : convertToRange opt (c :: more) (args.length - i) = .ok (some (sk, block)))
    (t : Bytes) (cols' : Int)
    (hprint : printArgVal ((c :: more).length + 3) opt block
      (if i = 0 then none else (args.drop (i - 1)).head?) st = .ok (⟨st.out ++ t, cols'⟩, t.length))
    (hinv : awl = 0 ∨ ∃ base, st.out = base ++ [32] ∧ lastSep = (base.length : Int)) :
    ∃ (pre1 : Bytes) (cols1 : Int) (awl1 : Nat),
      (pre1 = st.out ∨ ∃ base, st.out = base ++ [32] ∧ pre1 = base ++ nl4) ∧
      printArgValsLoop (f + 1) opt args args.length i st wrt lastSep awl =
        (if i + sk < args.length then
          printArgValsLoop f opt args args.length (i + sk) ⟨pre1 ++ t ++ [32], cols1 + 1⟩
            (wrt + t.length + (pre1.length - st.out.length) + 1) ((pre1 ++ t).length : Int) awl1
         else printArgValsLoop f opt args args.length (i + sk) ⟨pre1 ++ t, cols1⟩
            (wrt + t.length + (pre1.length - st.out.length)) lastSep awl1) := by
  have hlb : ∃ pre1 cols1 awl1, (if !breaksItself c
        then linebreakCheck ⟨st.out ++ t, cols'⟩ (wrt + t.length) lastSep t.length awl opt.linelength
        else (pure (⟨st.out ++ t, cols'⟩, wrt + t.length, awl) : Res (PSt × Nat × Nat))) =
        .ok (⟨pre1 ++ t, cols1⟩, wrt + t.length + (pre1.length - st.out.length), awl1) ∧
      (pre1 = st.out ∨ ∃ base, st.out = base ++ [32] ∧ pre1 = base ++ nl4) := by
    by_cases hb : breaksItself c = true
    · exact ⟨st.out, cols', awl, by simp [hb, pure, Except.pure], Or.inl rfl⟩
    · obtain ⟨pre, cols1, awl1, h1, _, h3⟩ := linebreakCheck_tok st.out t cols' (wrt + t.length) lastSep awl opt.linelength hinv
      exact ⟨pre, cols1, awl1, by simp [hb, h1], h3⟩
  obtain ⟨pre1, cols1, awl1, hlb, hpre1⟩ := hlb
  refine ⟨pre1, cols1, awl1, hpre1, ?_⟩
  rw [printArgValsLoop]
  simp only [hlt, ↓reduceIte, hi, deref, hconv, bind, Except.bind]
  rw [hprint]
  cases hb : (!breaksItself c)
  · rw [hb] at hlb
    simp only [Bool.false_eq_true, ↓reduceIte] at hlb ⊢
    rw [hlb]
    simp only [pure, Except.pure]
  · rw [hb] at hlb
    simp only [↓reduceIte] at hlb ⊢
    rw [hlb]
    simp only [pure, Except.pure]


/-- the cells of a list of segments: the argument list -/
def cellsAll : List RSeg → List Cell
  | [] => []
  | s :: r => s.cells ++ cellsAll r

/-- **the side conditions of the printer**: `rtosc_convert_to_range`, called at the start of each
    segment on the rest of the argument list, finds exactly this segment — nothing for a `tok`, the
    whole constant run for a `crun`, the whole arithmetic run for an `irun` — and the values are
    in the domain of the token theorems / satisfy the overflow guards (`RunHyp`). -/
inductive Segmented (opt : POpt) : List RSeg → Prop
  | nil : Segmented opt []
  | tok (c : Cell) (segs : List RSeg) : c.isScalar = true → PrintsTok opt c →
      convertToRange opt (c :: cellsAll segs) ((cellsAll segs).length + 1) = .ok none →
      Segmented opt segs → Segmented opt (.tok c :: segs)
  | crun (n : Nat) (c : Cell) (segs : List RSeg) : c.isScalar = true → PrintsTok opt c → 5 ≤ n → n ≤ 2147483647 →
      convertToRange opt (List.replicate n c ++ cellsAll segs) (n + (cellsAll segs).length) =
        .ok (some (n, [Cell.rep n 0, c])) →
      Segmented opt segs → Segmented opt (.crun n c :: segs)
  | irun (a d : Int) (n : Nat) (segs : List RSeg) : RunHyp a d n →
      convertToRange opt (arithRun a d n ++ cellsAll segs) (n + (cellsAll segs).length) =
        .ok (some (n, [Cell.rep n 1, Cell.int .i d, Cell.int .i a])) →
      Segmented opt segs → Segmented opt (.irun a d n :: segs)

theorem Segmented.cells_pos {opt : POpt} {segs : List RSeg} (h : Segmented opt segs) (hne : segs ≠ []) :
    0 < (cellsAll segs).length := by
  cases h with
  | nil => exact absurd rfl hne
  | tok c segs _ _ _ _ => simp [cellsAll, RSeg.cells]
  | crun n c segs _ _ hn _ _ _ => simp [cellsAll, RSeg.cells]; omega
  | irun a d n segs h _ _ => have := h.hn; simp [cellsAll, RSeg.cells, arithRun_length]; omega

theorem Segmented.length_le {opt : POpt} {segs : List RSeg} (h : Segmented opt segs) :
    segs.length ≤ (cellsAll segs).length := by
  induction h with
  | nil => simp
  | tok c segs _ _ _ _ ih => simp [cellsAll, RSeg.cells]; omega
  | crun n c segs _ _ hn _ _ _ ih => simp [cellsAll, RSeg.cells]; omega
  | irun a d n segs h _ _ ih => have := h.hn; simp [cellsAll, RSeg.cells, arithRun_length]; omega

/-- `(i == 0) ? NULL : (args-1)` is the last cell printed so far -/
theorem prev_eq (done rest : List Cell) :
    (if done.length = 0 then none else ((done ++ rest).drop (done.length - 1)).head?) = done.getLast? := by
  rcases List.eq_nil_or_concat done with rfl | ⟨init, x, rfl⟩
  · rfl
  · rw [List.concat_eq_append]
    have hlen : (init ++ [x]).length - 1 = init.length := by simp
    have hne : ¬ ((init ++ [x]).length = 0) := by simp
    rw [if_neg hne, hlen, List.append_assoc, List.drop_left]
    simp

/-- what the loop does behind one printed segment -/
theorem printLoop_cont (opt : POpt) (args : List Cell) (s : RSeg) (segs : List RSeg) (L : Option Cell) (done : List Cell)
    (hargs : args = done ++ (s.cells ++ cellsAll segs)) (hsegs_pos : segs ≠ [] → 0 < (cellsAll segs).length)
    (ih : ∀ (fuel : Nat) (st : PSt) (wrt : Nat) (lastSep : Int) (awl : Nat), segs.length + 1 ≤ fuel →
        (awl = 0 ∨ ∃ base, st.out = base ++ [32] ∧ lastSep = (base.length : Int)) →
        ∃ (st' : PSt) (pre body : Bytes),
          printArgValsLoop fuel opt args args.length (done.length + s.cells.length) st wrt lastSep awl =
            .ok (st', wrt + ((pre ++ body).length - st.out.length)) ∧
          st'.out = pre ++ body ∧ SegsText (some s.last) segs body ∧
          (pre = st.out ∨ ∃ base, st.out = base ++ [32] ∧ pre = base ++ nl4))
    (f : Nat) (st : PSt) (wrt : Nat) (lastSep : Int) (awl : Nat) (hf : segs.length + 1 ≤ f)
    (T pre1 : Bytes) (cols1 : Int) (awl1 : Nat) (hT : SegText L s T)
    (hpre1 : pre1 = st.out ∨ ∃ base, st.out = base ++ [32] ∧ pre1 = base ++ nl4)
    (hstep : printArgValsLoop (f + 1) opt args args.length done.length st wrt lastSep awl =
        (if done.length + s.cells.length < args.length then
          printArgValsLoop f opt args args.length (done.length + s.cells.length) ⟨pre1 ++ T ++ [32], cols1 + 1⟩
            (wrt + T.length + (pre1.length - st.out.length) + 1) ((pre1 ++ T).length : Int) awl1
         else printArgValsLoop f opt args args.length (done.length + s.cells.length) ⟨pre1 ++ T, cols1⟩
            (wrt + T.length + (pre1.length - st.out.length)) lastSep awl1)) :
    ∃ (st' : PSt) (pre body : Bytes),
      printArgValsLoop (f + 1) opt args args.length done.length st wrt lastSep awl =
        .ok (st', wrt + ((pre ++ body).length - st.out.length)) ∧
      st'.out = pre ++ body ∧ SegsText L (s :: segs) body ∧
      (pre = st.out ∨ ∃ base, st.out = base ++ [32] ∧ pre = base ++ nl4) := by
  have hlen : args.length = done.length + s.cells.length + (cellsAll segs).length := by
    rw [hargs]; simp only [List.length_append]; omega
  have hpre1len : st.out.length ≤ pre1.length := by
    rcases hpre1 with h | ⟨base, h1, h2⟩
    · rw [h]; exact Nat.le_refl _
    · rw [h1, h2]; simp [nl4]
  rw [hstep]
  by_cases hmore : segs = []
  · subst hmore
    have hnot : ¬ (done.length + s.cells.length < args.length) := by
      rw [hlen]; simp [cellsAll]
    simp only [hnot, ↓reduceIte]
    obtain ⟨g, rfl⟩ : ∃ g, f = g + 1 := ⟨f - 1, by simp at hf; omega⟩
    refine ⟨⟨pre1 ++ T, cols1⟩, pre1, T, ?_, rfl, ?_, hpre1⟩
    · rw [printArgValsLoop]
      simp only [hnot, ↓reduceIte, pure, Except.pure, List.length_append]
      congr 2
      omega
    · have := SegsText.cons L s [] T [] [] hT (SegsText.nil _) (fun _ => rfl) (fun h => absurd rfl h)
      simpa using this
  · have hlt2 : done.length + s.cells.length < args.length := by
      have := hsegs_pos hmore
      omega
    simp only [hlt2, ↓reduceIte]
    obtain ⟨st', pre', body', hrun, hout, htt, hpre'⟩ :=
      ih f ⟨pre1 ++ T ++ [32], cols1 + 1⟩ (wrt + T.length + (pre1.length - st.out.length) + 1)
        ((pre1 ++ T).length : Int) awl1 hf (Or.inr ⟨pre1 ++ T, rfl, rfl⟩)
    rw [hrun]
    rcases hpre' with hp | ⟨base, hb1, hb2⟩
    · refine ⟨st', pre1, T ++ ([32] ++ body'), ?_, ?_,
        SegsText.cons L s segs T [32] body' hT htt (fun h => absurd h hmore) (fun _ => Or.inl rfl), hpre1⟩
      · congr 2
        simp only [hp, List.length_append, List.length_cons, List.length_nil]
        omega
      · rw [hout, hp]; simp
    · have hbase : base = pre1 ++ T := by
        have := List.append_inj_left' hb1 rfl
        exact this.symm
      refine ⟨st', pre1, T ++ (nl4 ++ body'), ?_, ?_,
        SegsText.cons L s segs T nl4 body' hT htt (fun h => absurd h hmore) (fun _ => Or.inr rfl), hpre1⟩
      · congr 2
        simp only [hb2, hbase, nl4, List.length_append, List.length_cons, List.length_nil]
        omega
      · rw [hout, hb2, hbase]; simp

theorem getLast?_append_replicate (done : List Cell) (n : Nat) (c : Cell) (hn : 1 ≤ n) :
    (done ++ List.replicate n c).getLast? = some c := by
  obtain ⟨m, rfl⟩ : ∃ m, n = m + 1 := ⟨n - 1, by omega⟩
  rw [List.replicate_succ', ← List.append_assoc, List.getLast?_append]
  simp

theorem getLast?_append_arithRun (done : List Cell) (a d : Int) (n : Nat) (hn : 1 ≤ n) :
    (done ++ arithRun a d n).getLast? = some (Cell.int .i (zOf a d n)) := by
  obtain ⟨m, rfl⟩ : ∃ m, n = m + 1 := ⟨n - 1, by omega⟩
  have : arithRun a d (m + 1) = arithRun a d m ++ [Cell.int .i (a + (m : Int) * d)] := by
    simp [arithRun, List.range_succ]
  rw [this, ← List.append_assoc, List.getLast?_append]
  simp [zOf]

/-- **the loop of `rtosc_print_arg_vals` over a segmented argument list** writes a text of the
    segments -/
theorem printLoop_segs (opt : POpt) (hc : opt.compress = true) {segs : List RSeg} (hseg : Segmented opt segs) :
    ∀ (args done : List Cell), args = done ++ cellsAll segs →
      ∀ (fuel : Nat) (st : PSt) (wrt : Nat) (lastSep : Int) (awl : Nat), segs.length + 1 ≤ fuel →
        (awl = 0 ∨ ∃ base, st.out = base ++ [32] ∧ lastSep = (base.length : Int)) →
        ∃ (st' : PSt) (pre body : Bytes),
          printArgValsLoop fuel opt args args.length done.length st wrt lastSep awl =
            .ok (st', wrt + ((pre ++ body).length - st.out.length)) ∧
          st'.out = pre ++ body ∧ SegsText done.getLast? segs body ∧
          (pre = st.out ∨ ∃ base, st.out = base ++ [32] ∧ pre = base ++ nl4) := by
  induction hseg with
  | nil =>
    intro args done hargs fuel st wrt lastSep awl hf _
    obtain ⟨g, rfl⟩ : ∃ g, fuel = g + 1 := ⟨fuel - 1, by omega⟩
    refine ⟨st, st.out, [], ?_, by simp, SegsText.nil _, Or.inl rfl⟩
    rw [printArgValsLoop]
    have : ¬ (done.length < args.length) := by rw [hargs]; simp [cellsAll]
    simp [this, pure, Except.pure]
  | tok c segs hsc hpt hconv hrest ih =>
    intro args done hargs fuel st wrt lastSep awl hf hinv
    obtain ⟨f, rfl⟩ : ∃ g, fuel = g + 1 := ⟨fuel - 1, by omega⟩
    have hi : args.drop done.length = c :: cellsAll segs := by rw [hargs]; simp [cellsAll, RSeg.cells]
    have hlen : args.length = done.length + ((cellsAll segs).length + 1) := by
      rw [hargs]; simp [cellsAll, RSeg.cells]
    have hlt : done.length < args.length := by omega
    obtain ⟨t, cols', hprint, htok⟩ := hpt ((c :: cellsAll segs).length + 2) (cellsAll segs)
      (if done.length = 0 then none else (args.drop (done.length - 1)).head?) st
    obtain ⟨pre1, cols1, awl1, hpre1, hstep⟩ := printLoop_step opt args c (cellsAll segs) done.length f st wrt lastSep awl
      hi hlt hsc t cols' hprint (by rw [hlen, Nat.add_sub_cancel_left]; exact hconv) hinv
    have hargs' : args = (done ++ (RSeg.tok c).cells) ++ cellsAll segs := by rw [hargs]; simp [cellsAll]
    exact printLoop_cont opt args (.tok c) segs _ done (by rw [hargs]; simp [cellsAll]) hrest.cells_pos
      (fun fuel st wrt lastSep awl hf hinv => by
        have := ih args (done ++ (RSeg.tok c).cells) hargs' fuel st wrt lastSep awl hf hinv
        simpa [RSeg.cells, RSeg.last] using this)
      f st wrt lastSep awl (by simp only [List.length_cons] at hf; omega) t pre1 cols1 awl1
      (SegText.tok t c htok hsc) hpre1 (by simpa [RSeg.cells] using hstep)
  | crun n c segs hsc hpt hn5 hn2 hconv hrest ih =>
    intro args done hargs fuel st wrt lastSep awl hf hinv
    obtain ⟨f, rfl⟩ : ∃ g, fuel = g + 1 := ⟨fuel - 1, by omega⟩
    obtain ⟨m, rfl⟩ : ∃ m, n = m + 1 := ⟨n - 1, by omega⟩
    have hi : args.drop done.length = c :: (List.replicate m c ++ cellsAll segs) := by
      rw [hargs]; simp [cellsAll, RSeg.cells, List.replicate_succ]
    have hlen : args.length = done.length + ((m + 1) + (cellsAll segs).length) := by
      rw [hargs]; simp [cellsAll, RSeg.cells]
    have hlt : done.length < args.length := by omega
    have hconv' : convertToRange opt (c :: (List.replicate m c ++ cellsAll segs)) (args.length - done.length) =
        .ok (some (m + 1, [Cell.rep ((m + 1 : Nat) : Int) 0, c])) := by
      rw [hlen, Nat.add_sub_cancel_left]
      simpa [List.replicate_succ] using hconv
    obtain ⟨t, cols', hprint, htok⟩ := printArgVal_constRun opt hc c hpt (m + 1) (by omega)
      ((c :: (List.replicate m c ++ cellsAll segs)).length + 1)
      (if done.length = 0 then none else (args.drop (done.length - 1)).head?) st
    obtain ⟨pre1, cols1, awl1, hpre1, hstep⟩ := printLoop_step_run opt args c _ done.length f st wrt lastSep awl
      hi hlt (m + 1) _ hconv' (runText (m + 1) t) cols' hprint hinv
    have hargs' : args = (done ++ (RSeg.crun (m + 1) c).cells) ++ cellsAll segs := by rw [hargs]; simp [cellsAll]
    have hlast : (done ++ (RSeg.crun (m + 1) c).cells).getLast? = some c :=
      getLast?_append_replicate done (m + 1) c (by omega)
    exact printLoop_cont opt args (.crun (m + 1) c) segs _ done (by rw [hargs]; simp [cellsAll]) hrest.cells_pos
      (fun fuel st wrt lastSep awl hf hinv => by
        have := ih args (done ++ (RSeg.crun (m + 1) c).cells) hargs' fuel st wrt lastSep awl hf hinv
        rw [hlast] at this
        simpa [RSeg.cells, RSeg.last] using this)
      f st wrt lastSep awl (by simp only [List.length_cons] at hf; omega) (runText (m + 1) t) pre1 cols1 awl1
      (SegText.crun (m + 1) t c htok hsc (by omega) hn2) hpre1 (by simpa [RSeg.cells] using hstep)
  | irun a d n segs h hconv hrest ih =>
    intro args done hargs fuel st wrt lastSep awl hf hinv
    obtain ⟨f, rfl⟩ : ∃ g, fuel = g + 1 := ⟨fuel - 1, by omega⟩
    have hn := h.hn
    have hi : args.drop done.length = Cell.int .i a :: ((arithRun a d n).drop 1 ++ cellsAll segs) := by
      rw [hargs]
      simp only [cellsAll, RSeg.cells, List.drop_left']
      rw [arithRun_cons a d n (by omega)]
      simp
    have hlen : args.length = done.length + (n + (cellsAll segs).length) := by
      rw [hargs]; simp [cellsAll, RSeg.cells, arithRun_length]
    have hlt : done.length < args.length := by omega
    have hconv' : convertToRange opt (Cell.int .i a :: ((arithRun a d n).drop 1 ++ cellsAll segs))
        (args.length - done.length) = .ok (some (n, [Cell.rep n 1, Cell.int .i d, Cell.int .i a])) := by
      rw [hlen, Nat.add_sub_cancel_left, ← List.cons_append, ← arithRun_cons a d n (by omega)]
      exact hconv
    have hprev := prev_eq done (cellsAll (RSeg.irun a d n :: segs))
    rw [← hargs] at hprev
    obtain ⟨sep, cols', hsep, hpr⟩ := printRange_runG opt hc h
      ((Cell.int .i a :: ((arithRun a d n).drop 1 ++ cellsAll segs)).length + 1) done.getLast? st
    have hprint : printArgVal ((Cell.int .i a :: ((arithRun a d n).drop 1 ++ cellsAll segs)).length + 3) opt
        [Cell.rep n 1, Cell.int .i d, Cell.int .i a]
        (if done.length = 0 then none else (args.drop (done.length - 1)).head?) st =
        .ok (⟨st.out ++ runTextL done.getLast? a d n sep, cols'⟩, (runTextL done.getLast? a d n sep).length) := by
      rw [hprev, printArgVal_rep]
      exact hpr
    obtain ⟨pre1, cols1, awl1, hpre1, hstep⟩ := printLoop_step_run opt args _ _ done.length f st wrt lastSep awl
      hi hlt n _ hconv' _ cols' hprint hinv
    have hargs' : args = (done ++ (RSeg.irun a d n).cells) ++ cellsAll segs := by rw [hargs]; simp [cellsAll]
    have hlast : (done ++ (RSeg.irun a d n).cells).getLast? = some (Cell.int .i (zOf a d n)) :=
      getLast?_append_arithRun done a d n (by omega)
    have hT : SegText done.getLast? (.irun a d n) (runTextL done.getLast? a d n sep) := by
      unfold runTextL
      by_cases hsf : shortForm done.getLast? a d = true
      · simp only [hsf, ↓reduceIte]; exact SegText.short a d n sep h hsf hsep
      · have hsf' : shortForm done.getLast? a d = false := by simpa using hsf
        simp only [hsf', Bool.false_eq_true, ↓reduceIte]; exact SegText.long a d n sep h hsf' hsep
    exact printLoop_cont opt args (.irun a d n) segs _ done (by rw [hargs]; simp [cellsAll]) hrest.cells_pos
      (fun fuel st wrt lastSep awl hf hinv => by
        have := ih args (done ++ (RSeg.irun a d n).cells) hargs' fuel st wrt lastSep awl hf hinv
        rw [hlast] at this
        simpa [RSeg.cells, RSeg.last, arithRun_length] using this)
      f st wrt lastSep awl (by simp only [List.length_cons] at hf; omega) _ pre1 cols1 awl1
      hT hpre1 (by simpa [RSeg.cells, arithRun_length] using hstep)

/-- **Tier 3, compressed runs in context.**  For an argument list that the printer cuts into the
    segments `segs` (values printed as they are, constant runs, int32 arithmetic runs, in any
    order): the printer returns the length of the text it wrote, the checker counts exactly the
    cells the scanner then writes, the scanner consumes the whole text and returns the range
    blocks of the segments. -/
theorem runs_roundtrip_cells (opt : POpt) (hc : opt.compress = true) (segs : List RSeg) (hseg : Segmented opt segs) :
    ∃ (st : PSt) (ret : Nat),
      printArgVals opt (cellsAll segs) ⟨[], 0⟩ = .ok (st, ret) ∧ ret = st.out.length ∧
      countPrintedArgVals st.out = .ok ((scannedAll none segs).length : Int) ∧
      scanArgVals st.out (scannedAll none segs).length = .ok (st.out.length, scannedAll none segs) := by
  have hle := hseg.length_le
  obtain ⟨st', pre, body, hrun, hout, htt, hpre⟩ :=
    printLoop_segs opt hc hseg (cellsAll segs) [] (by simp) ((cellsAll segs).length + 1) ⟨[], 0⟩ 0 (-1) 0 (by omega)
      (Or.inl rfl)
  have hpre0 : pre = [] := by
    rcases hpre with h | ⟨base, h1, _⟩
    · exact h
    · simp at h1
  subst hpre0
  simp only [List.nil_append, List.length_nil, Nat.sub_zero, Nat.zero_add, List.getLast?_nil] at hrun hout htt
  refine ⟨st', body.length, ?_, by rw [hout], ?_, ?_⟩
  · unfold printArgVals
    simpa using hrun
  · rw [hout]; exact countPrintedArgVals_segs htt
  · rw [hout]; exact scanArgVals_segs htt

end Rtosc.Pretty
