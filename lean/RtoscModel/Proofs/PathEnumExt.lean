/-
  C18 — the lookup clause for trees with enumerated rows (`walkE`, `TreeOKE`: Path/Enum.lean;
  `TreeNumOK`: Path/EnumNum.lean): `Ports::apropos` of every walked address returns the port
  the walk reported it with.  Helper lemmas; the property theorem is in Props/C18.lean.
-/
import RtoscModel.Proofs.PathHash
import RtoscModel.Path.EnumNum
namespace Rtosc.Path
open Rtosc

/-! ### `splitHash` -/

theorem isDigit_hd_dropWhile (r : Bytes) : isDigit (hd (r.dropWhile isDigit)) = false := by
  induction r with
  | nil => decide
  | cons c r ih =>
    rw [List.dropWhile_cons]
    by_cases h : isDigit c = true
    · simp only [h, ↓reduceIte]; exact ih
    · simp only [h, Bool.false_eq_true, ↓reduceIte, hd_cons]

theorem splitHash_none : ∀ l : Bytes, splitHash l = none → 35 ∉ l
  | [], _ => by simp
  | c :: r, h => by
    rw [splitHash] at h
    by_cases hc : c = 35
    · simp [hc] at h
    · simp only [hc, ↓reduceIte, Option.map_eq_none_iff] at h
      have := splitHash_none r h
      simp only [List.mem_cons, not_or]
      exact ⟨fun e => hc e.symm, this⟩

theorem splitHash_some : ∀ (l pre d post : Bytes), splitHash l = some (pre, d, post) →
    l = pre ++ 35 :: (d ++ post) ∧ 35 ∉ pre ∧ (∀ c ∈ d, isDigit c = true) ∧ isDigit (hd post) = false
  | [], _, _, _, h => by simp [splitHash] at h
  | c :: r, pre, d, post, h => by
    rw [splitHash] at h
    by_cases hc : c = 35
    · simp only [hc, ↓reduceIte, Option.some.injEq, Prod.mk.injEq] at h
      obtain ⟨rfl, rfl, rfl⟩ := h
      refine ⟨by simp [hc, List.takeWhile_append_dropWhile], by simp, ?_, isDigit_hd_dropWhile r⟩
      intro x hx
      exact mem_takeWhile_sat _ _ x hx
    · simp only [hc, ↓reduceIte, Option.map_eq_some_iff] at h
      obtain ⟨⟨pre', d', post'⟩, h1, h2⟩ := h
      simp only [Prod.mk.injEq] at h2
      obtain ⟨rfl, rfl, rfl⟩ := h2
      obtain ⟨e1, e2, e3, e4⟩ := splitHash_some r pre' d' post' h1
      refine ⟨by rw [e1]; rfl, ?_, e3, e4⟩
      simp only [List.mem_cons, not_or]
      exact ⟨fun e => hc e.symm, e2⟩

/-! ### `decimal` -/

theorem atoiAux_snoc : ∀ (l : Bytes) (c : UInt8) (acc : Nat), (∀ x ∈ l, isDigit x = true) → isDigit c = true →
    atoiAux acc (l ++ [c]) = atoiAux acc l * 10 + (c.toNat - 48)
  | [], c, acc, _, hc => by simp [atoiAux, hc]
  | x :: l, c, acc, hl, hc => by
    have hx : isDigit x = true := hl x List.mem_cons_self
    simp only [List.cons_append, atoiAux, hx, ↓reduceIte]
    exact atoiAux_snoc l c _ (fun y hy => hl y (List.mem_cons_of_mem _ hy)) hc

theorem digitChar (k : Nat) (h : k < 10) :
    isDigit (UInt8.ofNat (48 + k)) = true ∧ (UInt8.ofNat (48 + k)).toNat - 48 = k := by
  have : k = 0 ∨ k = 1 ∨ k = 2 ∨ k = 3 ∨ k = 4 ∨ k = 5 ∨ k = 6 ∨ k = 7 ∨ k = 8 ∨ k = 9 := by omega
  rcases this with rfl | rfl | rfl | rfl | rfl | rfl | rfl | rfl | rfl | rfl <;> decide

theorem decimalF_spec : ∀ (f k : Nat), k < f →
    (decimalF f k ≠ [] ∧ ∀ c ∈ decimalF f k, isDigit c = true) ∧ atoi (decimalF f k) = k
  | 0, k, h => by omega
  | f + 1, k, h => by
    rw [decimalF]
    by_cases hk : k < 10
    · obtain ⟨h1, h2⟩ := digitChar k hk
      simp only [hk, ↓reduceIte]
      refine ⟨⟨by simp, ?_⟩, ?_⟩
      · intro c hc
        simp only [List.mem_cons, List.not_mem_nil, or_false] at hc
        subst hc; exact h1
      · simp only [atoi, atoiAux, h1, ↓reduceIte, Nat.zero_mul, Nat.zero_add, h2]
    · simp only [hk, ↓reduceIte]
      obtain ⟨⟨_, ih2⟩, ih3⟩ := decimalF_spec f (k / 10) (by omega)
      obtain ⟨h1, h2⟩ := digitChar (k % 10) (by omega)
      refine ⟨⟨by simp, ?_⟩, ?_⟩
      · intro c hc
        rcases List.mem_append.mp hc with hc | hc
        · exact ih2 c hc
        · simp only [List.mem_cons, List.not_mem_nil, or_false] at hc
          subst hc; exact h1
      · unfold atoi at ih3 ⊢
        rw [atoiAux_snoc _ _ _ ih2 h1, ih3, h2]
        omega

theorem decimal_digits (k : Nat) : Digits (decimal k) := (decimalF_spec (k + 1) k (by omega)).1
theorem atoi_decimal (k : Nat) : atoi (decimal k) = k := (decimalF_spec (k + 1) k (by omega)).2

/-! ### `expandName` -/

theorem mem_expandName {l a : Bytes} (h : a ∈ expandName l) :
    (splitHash l = none ∧ a = l) ∨
    ∃ pre d post k, splitHash l = some (pre, d, post) ∧ k < atoi d ∧ a = pre ++ (decimal k ++ post) := by
  unfold expandName at h
  cases hs : splitHash l with
  | none =>
    rw [hs] at h
    simp only [List.mem_cons, List.not_mem_nil, or_false] at h
    exact Or.inl ⟨rfl, h⟩
  | some t =>
    obtain ⟨pre, d, post⟩ := t
    rw [hs] at h
    simp only [List.mem_map, List.mem_range] at h
    obtain ⟨k, hk, rfl⟩ := h
    exact Or.inr ⟨pre, d, post, k, rfl, hk, by simp⟩

/-- an expanded name is one of the names the row accepts -/
theorem accepts_of_expand {l a : Bytes} (h : a ∈ expandName l) : AcceptsName l a := by
  unfold AcceptsName
  rcases mem_expandName h with ⟨hs, rfl⟩ | ⟨pre, d, post, k, hs, hk, rfl⟩
  · rw [hs]
  · rw [hs]
    exact ⟨decimal k, decimal_digits k, by rw [atoi_decimal]; exact hk, rfl⟩

/-! ### inversion of `rtosc_match_path` on an enumerated pattern -/

theorem matchPath_pre_inv (l : Bytes) : ∀ (P msg : Bytes), (∀ c ∈ l, PlainChar c) → hd P ≠ 0 → hd P ≠ COLON →
    matchPath (l ++ P) msg = .null ∨ ∃ M, msg = l ++ M ∧ matchPath (l ++ P) msg = matchPath P M := by
  induction l with
  | nil => intro P msg _ _ _; exact Or.inr ⟨msg, rfl, rfl⟩
  | cons c l' ih =>
    intro P msg hl h0 h1
    obtain ⟨c0, _, _, _, c4⟩ := hl c List.mem_cons_self
    have hl' : ∀ d ∈ l', PlainChar d := fun d hd => hl d (List.mem_cons_of_mem _ hd)
    have hnext : ¬ (hd (l' ++ P) = 0 ∨ hd (l' ++ P) = COLON) := by
      cases l' with
      | nil => simp [h0, h1]
      | cons d _ =>
        obtain ⟨d0, _, _, _, d4⟩ := hl' d List.mem_cons_self
        simp [d0, d4]
    simp only [List.cons_append]
    rw [matchPath_plain (hl c List.mem_cons_self)]
    cases msg with
    | nil =>
      left
      have hs : ¬ ((0 : UInt8) = SLASH) := by decide
      simp [hs, c0]
    | cons m mr =>
      simp only [hd_cons, List.drop_succ_cons, List.drop_zero]
      by_cases hcm : c = m
      · subst hcm
        have hstep : (if c = SLASH ∧ c = SLASH then
              (if hd (l' ++ P) = 0 ∨ hd (l' ++ P) = COLON then MatchRes.ok (l' ++ P) mr else matchPath (l' ++ P) mr)
            else if c = c then (if c ≠ 0 then matchPath (l' ++ P) mr else .ok (c :: (l' ++ P)) (c :: mr)) else .null) =
            matchPath (l' ++ P) mr := by
          by_cases hs : c = SLASH
          · simp [hs, hnext]
          · simp [hs, c0]
        rw [hstep]
        rcases ih P mr hl' h0 h1 with h | ⟨M, hM, h⟩
        · exact Or.inl h
        · exact Or.inr ⟨M, by rw [hM], h⟩
      · left
        rw [if_neg (by intro h; exact hcm (h.1.trans h.2.symm)), if_neg hcm]

theorem digits_split (M : Bytes) (h : isDigit (hd M) = true) :
    Digits (M.takeWhile isDigit) ∧ M = M.takeWhile isDigit ++ M.dropWhile isDigit := by
  refine ⟨⟨?_, fun c hc => mem_takeWhile_sat _ _ c hc⟩, List.takeWhile_append_dropWhile.symm⟩
  cases M with
  | nil => simp at h; exact absurd h (by decide)
  | cons c r => simp only [hd_cons] at h; simp [h]

theorem matchPath_hash_inv (dn P M : Bytes) (hn : Digits dn) (hP : isDigit (hd P) = false)
    (hmax : atoi dn < 2147483648) :
    matchPath (35 :: (dn ++ P)) M = .null ∨
    (matchPath (35 :: (dn ++ P)) M = .unsupported ∧ 2147483648 ≤ atoi M) ∨
    ∃ D M', M = D ++ M' ∧ Digits D ∧ atoi D < atoi dn ∧ matchPath (35 :: (dn ++ P)) M = matchPath P M' := by
  by_cases hM : isDigit (hd M) = true
  · obtain ⟨hD, hsplit⟩ := digits_split M hM
    have hM' := isDigit_hd_dropWhile M
    have hat : atoi M = atoi (M.takeWhile isDigit) := by
      conv => lhs; rw [hsplit]
      exact atoi_append _ _ hD.2 hM'
    by_cases hv : atoi (M.takeWhile isDigit) < 2147483648
    · have := matchPath_hash dn (M.takeWhile isDigit) P (M.dropWhile isDigit) hn hD hP hM' hmax hv
      rw [← hsplit] at this
      by_cases hlt : atoi (M.takeWhile isDigit) < atoi dn
      · rw [if_pos hlt] at this
        exact Or.inr (Or.inr ⟨_, _, hsplit, hD, hlt, this⟩)
      · rw [if_neg hlt] at this
        exact Or.inl this
    · right; left
      refine ⟨?_, by omega⟩
      simp only [matchPath]
      rw [matchPathM]
      have e1 : ¬ ((35 : UInt8) = COLON) := by decide
      have e2 : ¬ ((35 : UInt8) = 123) := by decide
      have e3 : ¬ ((35 : UInt8) = 42) := by decide
      have e4 : ¬ ((35 : UInt8) = SLASH) := by decide
      have hv' : ¬ atoi M < 2147483648 := by omega
      simp only [Bool.false_eq_true, false_and, ↓reduceIte, e1, e2, e3, e4,
        hd_digits_append hn, hM, and_self, hv', and_false]
  · left
    simp only [matchPath]
    rw [matchPathM]
    have e1 : ¬ ((35 : UInt8) = COLON) := by decide
    have e2 : ¬ ((35 : UInt8) = 123) := by decide
    have e3 : ¬ ((35 : UInt8) = 42) := by decide
    have e4 : ¬ ((35 : UInt8) = SLASH) := by decide
    simp only [Bool.false_eq_true, false_and, ↓reduceIte, e1, e2, e3, e4, hM, and_false]


/-! ### what a name looks like -/

theorem lit_row {n : Bytes} (hn : EnumName n) (hs : splitHash (lit n) = none) : LitName n := by
  intro c hc
  obtain ⟨h0, h1, h2⟩ := hn.1 c hc
  refine ⟨h0, h1, h2, ?_⟩
  intro e
  exact splitHash_none _ hs (e ▸ hc)

theorem enum_row {n pre d post : Bytes} (hn : EnumName n) (hs : splitHash (lit n) = some (pre, d, post)) :
    lit n = pre ++ 35 :: (d ++ post) ∧
    n = pre ++ 35 :: (d ++ (post ++ n.dropWhile (· ≠ COLON))) ∧
    (∀ c ∈ pre, PlainChar c) ∧ (∀ c ∈ post, PlainChar c) ∧ Digits d ∧ atoi d < 2147483648 ∧
    isDigit (hd post) = false ∧ isDigit (hd (post ++ n.dropWhile (· ≠ COLON))) = false := by
  obtain ⟨hchars, hrest⟩ := hn
  rw [hs] at hrest
  obtain ⟨hd0, hmax, hpost35⟩ := hrest
  obtain ⟨e1, e2, e3, e4⟩ := splitHash_some _ _ _ _ hs
  have hplain : ∀ c ∈ lit n, c ≠ 35 → PlainChar c := by
    intro c hc h35
    obtain ⟨h0, h1, h2⟩ := hchars c hc
    exact ⟨h0, h1, h2, h35, lit_no_colon n c hc⟩
  refine ⟨e1, ?_, ?_, ?_, ⟨hd0, e3⟩, hmax, e4, ?_⟩
  · conv => lhs; rw [name_split n, e1]
    simp
  · intro c hc
    exact hplain c (by rw [e1]; simp [hc]) (fun e => e2 (e ▸ hc))
  · intro c hc
    exact hplain c (by rw [e1]; simp [hc]) (fun e => hpost35 (e ▸ hc))
  · cases post with
    | nil =>
      rcases tail_ok n with ht | ht
      · rw [ht]; decide
      · simp only [List.nil_append]; rw [ht]; decide
    | cons c _ => simpa using e4

/-- what `rtosc_match_path` can answer for an enumerated pattern: NULL, or an index that
    overflows `atoi`, or the address begins with a name the pattern accepts -/
theorem matchPath_enum_inv (pre dn post tail msg : Bytes)
    (hpre : ∀ c ∈ pre, PlainChar c) (hpost : ∀ c ∈ post, PlainChar c) (ht : TailOK tail)
    (hn : Digits dn) (hP : isDigit (hd (post ++ tail)) = false)
    (hmax : atoi dn < 2147483648) (hm : ∀ c ∈ msg, CleanChar c) :
    matchPath (pre ++ 35 :: (dn ++ (post ++ tail))) msg = .null ∨
    (∃ M, msg = pre ++ M ∧ 2147483648 ≤ atoi M) ∨
    ∃ D M', msg = pre ++ (D ++ M') ∧ Digits D ∧ atoi D < atoi dn ∧ post <+: M' := by
  rcases matchPath_pre_inv pre (35 :: (dn ++ (post ++ tail))) msg hpre (by simp) (by simp [COLON]) with h | ⟨M, hM, h⟩
  · exact Or.inl h
  · rw [h]
    rcases matchPath_hash_inv dn (post ++ tail) M hn hP hmax with h2 | ⟨_, h2⟩ | ⟨D, M', hM', hD, hlt, h2⟩
    · exact Or.inl h2
    · exact Or.inr (Or.inl ⟨M, hM, h2⟩)
    · rw [h2]
      have hclean : ∀ c ∈ M', CleanChar c := by
        intro c hc
        exact hm c (by rw [hM, hM']; simp [hc])
      obtain ⟨hA1, hA2⟩ := matchPath_lit post tail M' hpost ht hclean
      cases hr : matchPath (post ++ tail) M' with
      | null => exact Or.inl rfl
      | unsupported => exact absurd hr hA1
      | ok p e => exact Or.inr (Or.inr ⟨D, M', by rw [hM, hM'], hD, hlt, hA2 p e hr⟩)

theorem no35_prefix : ∀ (a pre t : Bytes), (∀ c ∈ a, c ≠ 35) → a <+: pre ++ 35 :: t → a <+: pre
  | [], _, _, _, _ => List.nil_prefix
  | c :: a, [], t, ha, h => by
    simp only [List.nil_append] at h
    exact absurd (List.cons_prefix_cons.mp h).1 (ha c List.mem_cons_self)
  | c :: a, x :: pre, t, ha, h => by
    simp only [List.cons_append] at h
    obtain ⟨rfl, h'⟩ := List.cons_prefix_cons.mp h
    exact List.cons_prefix_cons.mpr ⟨rfl, no35_prefix a pre t (fun y hy => ha y (List.mem_cons_of_mem _ hy)) h'⟩

theorem atoiAux_append_nondigit : ∀ (r x : Bytes) (acc : Nat), (∃ c ∈ r, isDigit c = false) →
    atoiAux acc (r ++ x) = atoiAux acc r
  | [], _, _, h => by simp at h
  | c :: r, x, acc, h => by
    simp only [List.cons_append, atoiAux]
    by_cases hc : isDigit c = true
    · simp only [hc, ↓reduceIte]
      apply atoiAux_append_nondigit r x
      obtain ⟨y, hy, hy2⟩ := h
      simp only [List.mem_cons] at hy
      rcases hy with rfl | hy
      · rw [hc] at hy2; cases hy2
      · exact ⟨y, hy, hy2⟩
    · simp [hc]

/-- a sibling `q` of the row taken: its pattern does not match an address that begins with an
    expanded name `a` of the row taken, and the address is not a prefix of `q`'s name -/
theorem sibling_nullE {q : Bytes} (hq : EnumName q)
    (hpos : EnumPos (lit q))
    {a msg : Bytes} (ha : ∀ c ∈ a, c ≠ 35) (hm : ∀ c ∈ msg, CleanChar c) (hpre : a <+: msg)
    (hend : msg = a ∨ a.getLast? = some SLASH)
    (hfit : IndexFits (lit q) a)
    (hno : ∀ b, AcceptsName (lit q) b → ¬ a <+: b ∧ ¬ b <+: a) :
    matchPath q msg = .null ∧ msg.isPrefixOf q = false := by
  have hmsgq : msg.isPrefixOf q = true → a <+: lit q := by
    intro hb
    have h1 : msg <+: q := List.isPrefixOf_iff_prefix.mp hb
    rw [name_split q] at h1
    exact hpre.trans (prefix_lit msg _ _ (fun c hc => (hm c hc).1) (tail_ok _) h1)
  cases hs : splitHash (lit q) with
  | none =>
    have hacc : AcceptsName (lit q) (lit q) := by unfold AcceptsName; rw [hs]
    obtain ⟨hs1, hs2⟩ := hno _ hacc
    have hplain := plain_of_lit (lit_row hq hs)
    have hA := matchPath_lit (lit q) (q.dropWhile (· ≠ COLON)) msg hplain (tail_ok _) hm
    rw [← name_split] at hA
    constructor
    · cases hmm : matchPath q msg with
      | null => rfl
      | unsupported => exact absurd hmm hA.1
      | ok pp e =>
        exfalso
        rcases List.prefix_or_prefix_of_prefix (hA.2 pp e hmm) hpre with h | h
        · exact hs2 h
        · exact hs1 h
    · cases hb : msg.isPrefixOf q with
      | false => rfl
      | true => exact absurd (hmsgq hb) hs1
  | some t =>
    obtain ⟨pre, d, post⟩ := t
    obtain ⟨elit, eq, hpreP, hpostP, hd', hmax, hpd, hP⟩ := enum_row hq hs
    unfold EnumPos at hpos
    rw [hs] at hpos
    simp only at hpos
    -- element 0 of the row is accepted
    have hacc : ∀ D : Bytes, Digits D → atoi D < atoi d → AcceptsName (lit q) (pre ++ (D ++ post)) := by
      intro D hD hlt
      unfold AcceptsName; rw [hs]
      exact ⟨D, hD, hlt, rfl⟩
    have hacc0 := hacc (decimal 0) (decimal_digits 0) (by rw [atoi_decimal]; exact hpos)
    have hnotpre : ¬ a <+: pre := fun h => (hno _ hacc0).1 (h.trans (List.prefix_append _ _))
    constructor
    · rw [eq]
      rcases matchPath_enum_inv pre d post _ msg hpreP hpostP (tail_ok _) hd' hP hmax hm with
        h | ⟨M, hM, hov⟩ | ⟨D, M', hM, hD, hlt, hpost⟩
      · exact h
      · exfalso
        have hpm : pre <+: msg := ⟨M, hM.symm⟩
        rcases List.prefix_or_prefix_of_prefix hpre hpm with h | ⟨r, hr⟩
        · exact hnotpre h
        · unfold IndexFits at hfit
          rw [hs] at hfit
          simp only at hfit
          have hr' := hfit r hr.symm
          rcases hend with he | he
          · rw [he, ← hr] at hM
            have : r = M := List.append_cancel_left hM
            rw [this] at hr'; omega
          · obtain ⟨x, hx⟩ := hpre
            rw [← hx, ← hr, List.append_assoc] at hM
            have hM2 : r ++ x = M := List.append_cancel_left hM
            have hrne : r ≠ [] := by
              intro e; rw [e, List.append_nil] at hr
              exact hnotpre (hr ▸ List.prefix_refl _)
            have hlast : r.getLast? = some SLASH := by
              rw [← hr, List.getLast?_append] at he
              cases hrl : r.getLast? with
              | none => exact absurd (List.getLast?_eq_none_iff.mp hrl) hrne
              | some z => rw [hrl] at he; simpa using he
            have hnd : ∃ c ∈ r, isDigit c = false :=
              ⟨SLASH, List.mem_of_getLast? hlast, by decide⟩
            have := atoiAux_append_nondigit r x 0 hnd
            unfold atoi at hov hr'
            rw [← hM2, this] at hov
            omega
      · exfalso
        have hb : pre ++ (D ++ post) <+: msg := by
          obtain ⟨y, hy⟩ := hpost
          exact ⟨y, by rw [hM, ← hy]; simp⟩
        obtain ⟨h1, h2⟩ := hno _ (hacc D hD hlt)
        rcases List.prefix_or_prefix_of_prefix hpre hb with h | h
        · exact h1 h
        · exact h2 h
    · cases hb : msg.isPrefixOf q with
      | false => rfl
      | true =>
        exfalso
        have h1 := hmsgq hb
        rw [elit] at h1
        exact hnotpre (no35_prefix a pre _ ha h1)


/-! ### the row taken -/

theorem digit_clean {c : UInt8} (h : isDigit c = true) : c ≠ COLON ∧ c ≠ 0 ∧ c ≠ 35 ∧ c ≠ SLASH := by
  refine ⟨?_, ?_, ?_, ?_⟩ <;> (intro e; subst e; revert h; decide)

theorem getLast?_append_ne (x y : Bytes) (hy : y ≠ []) : (x ++ y).getLast? = y.getLast? := by
  rw [List.getLast?_append]
  cases h : y.getLast? with
  | none => exact absurd (List.getLast?_eq_none_iff.mp h) hy
  | some z => rfl

theorem getLast_post {pre d post : Bytes} (hd' : Digits d)
    (h : (pre ++ 35 :: (d ++ post)).getLast? = some SLASH) : ∃ post', post = post' ++ [SLASH] := by
  by_cases hp : post = []
  · exfalso
    subst hp
    rw [List.append_nil, show pre ++ 35 :: d = (pre ++ [35]) ++ d by simp,
      getLast?_append_ne _ _ hd'.1] at h
    exact (digit_clean (hd'.2 _ (List.mem_of_getLast? h))).2.2.2 rfl
  · rw [show pre ++ 35 :: (d ++ post) = (pre ++ 35 :: d) ++ post by simp, getLast?_append_ne _ _ hp] at h
    exact List.getLast?_eq_some_iff.mp h

/-- facts about an expanded name of a row -/
theorem expand_facts {n e : Bytes} (hn : EnumName n) (hne : lit n ≠ []) (hhd : hd (lit n) ≠ SLASH)
    (he : e ∈ expandName (lit n)) :
    e ≠ [] ∧ hd e ≠ SLASH ∧ (∀ c ∈ e, CleanChar c ∧ c ≠ 35) ∧
    ((lit n).getLast? = some SLASH → e.getLast? = some SLASH) := by
  rcases mem_expandName he with ⟨hs, rfl⟩ | ⟨pre, d, post, k, hs, hk, rfl⟩
  · refine ⟨hne, hhd, ?_, fun h => h⟩
    intro c hc
    obtain ⟨h0, _, _, h35⟩ := lit_row hn hs c hc
    exact ⟨⟨lit_no_colon n c hc, h0⟩, h35⟩
  · obtain ⟨elit, _, hpreP, hpostP, hd', _, _, _⟩ := enum_row hn hs
    obtain ⟨hk1, hk2⟩ := decimal_digits k
    refine ⟨?_, ?_, ?_, ?_⟩
    · intro h
      have := (List.append_eq_nil_iff.mp h).2
      exact hk1 (List.append_eq_nil_iff.mp this).1
    · cases pre with
      | nil =>
        cases hdk : decimal k with
        | nil => exact absurd hdk hk1
        | cons z _ =>
          simp only [List.nil_append, List.cons_append, hd_cons]
          exact (digit_clean (hk2 z (by rw [hdk]; exact List.mem_cons_self))).2.2.2
      | cons z _ =>
        rw [elit] at hhd
        simpa using hhd
    · intro c hc
      rcases List.mem_append.mp hc with h | h
      · obtain ⟨c0, _, _, c3, c4⟩ := hpreP c h
        exact ⟨⟨c4, c0⟩, c3⟩
      · rcases List.mem_append.mp h with h | h
        · obtain ⟨a1, a2, a3, _⟩ := digit_clean (hk2 c h)
          exact ⟨⟨a1, a2⟩, a3⟩
        · obtain ⟨c0, _, _, c3, c4⟩ := hpostP c h
          exact ⟨⟨c4, c0⟩, c3⟩
    · intro hl
      rw [elit] at hl
      obtain ⟨post', rfl⟩ := getLast_post hd' hl
      rw [show pre ++ (decimal k ++ (post' ++ [SLASH])) = (pre ++ (decimal k ++ post')) ++ [SLASH] by simp]
      simp

/-- the row taken, leaf: its pattern matches each of its expanded names to the end -/
theorem own_leaf {n e : Bytes} (hn : EnumName n) (he : e ∈ expandName (lit n)) :
    ∃ p, matchPath n e = .ok p [] := by
  rcases mem_expandName he with ⟨hs, rfl⟩ | ⟨pre, d, post, k, hs, hk, rfl⟩
  · have := matchPath_self (lit n) (n.dropWhile (· ≠ COLON)) (plain_of_lit (lit_row hn hs)) (tail_ok _)
    rwa [← name_split] at this
  · obtain ⟨_, en, hpreP, hpostP, hd', hmax, hpd, _⟩ := enum_row hn hs
    have := matchPath_enum_leaf pre d post (n.dropWhile (· ≠ COLON)) (decimal k) hpreP hpostP (tail_ok _)
      hd' (decimal_digits k) hpd hmax (by rw [atoi_decimal]; exact hk)
    rwa [← en] at this

/-- the row taken, sub-tree: its pattern matches `expanded name ++ rest` and hands on `rest` -/
theorem own_dir {n e : Bytes} (hn : EnumName n) (he : e ∈ expandName (lit n))
    (hlast : (lit n).getLast? = some SLASH) (rest : Bytes) :
    matchPath n (e ++ rest) = .ok (n.dropWhile (· ≠ COLON)) rest := by
  rcases mem_expandName he with ⟨hs, rfl⟩ | ⟨pre, d, post, k, hs, hk, rfl⟩
  · obtain ⟨l', hl'⟩ := List.getLast?_eq_some_iff.mp hlast
    have hplain := plain_of_lit (lit_row hn hs)
    have hplain' : ∀ c ∈ l', PlainChar c := fun c hc => hplain c (by rw [hl']; simp [hc])
    have hdir := matchPath_dir l' (n.dropWhile (· ≠ COLON)) rest hplain' (tail_ok _)
    have hname : n = l' ++ SLASH :: n.dropWhile (· ≠ COLON) := by
      conv => lhs; rw [name_split n, hl']
      simp
    rw [hl']
    conv => lhs; arg 1; rw [hname]
    simpa using hdir
  · obtain ⟨elit, en, hpreP, hpostP, hd', hmax, hpd, _⟩ := enum_row hn hs
    rw [elit] at hlast
    obtain ⟨post', hpost'⟩ := getLast_post hd' hlast
    subst hpost'
    have hpostP' : ∀ c ∈ post', PlainChar c := fun c hc => hpostP c (by simp [hc])
    have := matchPath_enum_dir pre d post' (n.dropWhile (· ≠ COLON)) (decimal k) rest hpreP hpostP' (tail_ok _)
      hd' (decimal_digits k) hpd hmax (by rw [atoi_decimal]; exact hk)
    conv => lhs; arg 1; rw [en]
    simpa using this


/-! ### the lookup, by induction along the index path -/

theorem subTablesOKE_get : ∀ (ps : List PortT) (i : Nat) (p : PortT), SubTablesOKE ps → ps[i]? = some p →
    TreeOKE p.children := by
  intro ps
  induction ps with
  | nil => intro i p _ h; simp at h
  | cons a r ih =>
    intro i p hok h
    rw [SubTablesOKE] at hok
    cases i with
    | zero =>
      simp only [List.getElem?_cons_zero, Option.some.injEq] at h
      subst h
      cases a with
      | mk n m hp cs => rw [PortOKE] at hok; exact hok.1
    | succ k =>
      simp only [List.getElem?_cons_succ] at h
      exact ih k p hok.2 h

theorem subTablesNumOK_get : ∀ (ps : List PortT) (i : Nat) (p : PortT), SubTablesNumOK ps → ps[i]? = some p →
    TreeNumOK p.children := by
  intro ps
  induction ps with
  | nil => intro i p _ h; simp at h
  | cons a r ih =>
    intro i p hok h
    rw [SubTablesNumOK] at hok
    cases i with
    | zero =>
      simp only [List.getElem?_cons_zero, Option.some.injEq] at h
      subst h
      cases a with
      | mk n m hp cs => rw [PortNumOK] at hok; exact hok.1
    | succ k =>
      simp only [List.getElem?_cons_succ] at h
      exact ih k p hok.2 h

/-- every other row of the table neither matches an address that begins with an expanded name
    of row `i` nor is prefixed by it -/
theorem siblings_nullE {ps : List PortT} (hE : TableOKE ps) (hN : TableNumOK ps) {i : Nat} {p : PortT}
    (hp : ps[i]? = some p) {e msg : Bytes} (he : e ∈ expandName (lit p.name))
    (hm : ∀ c ∈ msg, CleanChar c) (hpre : e <+: msg) (hend : msg = e ∨ e.getLast? = some SLASH) :
    ∀ j q, ps[j]? = some q → j ≠ i →
      matchPath q.name msg = .null ∧ msg.isPrefixOf q.name = false := by
  intro j q hq hji
  have hpm : p ∈ ps := List.mem_of_getElem? hp
  have hqm : q ∈ ps := List.mem_of_getElem? hq
  obtain ⟨hfit, hno⟩ := hN.2 i j p q hp hq (fun h => hji h.symm) e he
  have hfacts := expand_facts (hE.1 p hpm).1 (hE.1 p hpm).2.1 (hE.1 p hpm).2.2.1 he
  exact sibling_nullE (hE.1 q hqm).1 (hN.1 q hqm) (fun c hc => (hfacts.2.2.1 c hc).2) hm hpre hend hfit hno

theorem apropos_addrE : ∀ (ix : List Nat) (ps : List PortT) (a : Bytes),
    TreeOKE ps → TreeNumOK ps → AddrE ps ix a →
    apropos ps a = .port ix ∧ (a ≠ [] ∧ hd a ≠ SLASH ∧ ∀ c ∈ a, CleanChar c) := by
  intro ix
  induction ix with
  | nil => intro ps a _ _ h; simp [AddrE] at h
  | cons i t ih =>
    intro ps a hE hN haddr
    cases t with
    | nil =>
      -- the reported port itself
      obtain ⟨p, hpi, hports, he⟩ := haddr
      have hpm : p ∈ ps := List.mem_of_getElem? hpi
      obtain ⟨hen, hne0, hhd0, _⟩ := hE.1.1 p hpm
      obtain ⟨hne, hhd, hcl, _⟩ := expand_facts hen hne0 hhd0 he
      have hclean : ∀ c ∈ a, CleanChar c := fun c hc => (hcl c hc).1
      refine ⟨?_, hne, hhd, hclean⟩
      obtain ⟨pre, post, hsplit, hlen, hpre⟩ := split_at ps i p hpi
      have hsib := siblings_nullE hE.1 hN.1 hpi he hclean (List.prefix_refl _) (Or.inl rfl)
      unfold apropos
      simp only [stripSlash_id _ hhd]
      have hpre1 : ∀ q ∈ pre, q.name.contains SLASH = true → matchPath q.name a = .null := by
        intro q hq _
        obtain ⟨j, hj, hqj⟩ := hpre q hq
        exact (hsib j q hqj hj).1
      obtain ⟨pp, hself⟩ := own_leaf hen he
      by_cases hc : p.name.contains SLASH = true
      · rw [hsplit, loop1_skip _ pre _ 0 hpre1, aproposLoop1, if_pos hc, hself]
        simp [hports, hlen]
      · have hall : ∀ q ∈ ps, q.name.contains SLASH = true → matchPath q.name a = .null := by
          intro q hq hqc
          obtain ⟨j, hj⟩ := List.mem_iff_getElem?.mp hq
          by_cases hji : j = i
          · subst hji; rw [hpi] at hj; cases hj; exact absurd hqc hc
          · exact (hsib j q hj hji).1
        have h1 := loop1_skip a ps [] 0 hall
        simp only [List.append_nil] at h1
        rw [h1, aproposLoop1]
        simp only
        have hp0 : hd a ≠ 0 := by
          cases hl : a with
          | nil => exact absurd hl hne
          | cons c r => simpa using (hclean c (by rw [hl]; exact List.mem_cons_self)).2
        have hpre2 : ∀ q ∈ pre, a.isPrefixOf q.name = false ∧ matchPath q.name a = .null := by
          intro q hq
          obtain ⟨j, hj, hqj⟩ := hpre q hq
          exact ⟨(hsib j q hqj hj).2, (hsib j q hqj hj).1⟩
        rw [hsplit, loop2_skip _ hp0 pre _ 0 hpre2, aproposLoop2]
        simp only [hp0, ↓reduceIte, hself]
        split <;> simp [hlen]
    | cons j ix' =>
      -- descend into a sub-table
      obtain ⟨p, hpi, hports, e, he, a', rfl, hsub⟩ := haddr
      have hpm : p ∈ ps := List.mem_of_getElem? hpi
      obtain ⟨hen, hne0, hhd0, hlast0⟩ := hE.1.1 p hpm
      have hlast := hlast0 hports
      obtain ⟨hne, hhd, hcl, hl⟩ := expand_facts hen hne0 hhd0 he
      have hel := hl hlast
      have hws : withSlash e = e := by simp [withSlash, hel]
      rw [hws]
      obtain ⟨hrec, hne', hhd', hclean'⟩ := ih p.children a'
        (subTablesOKE_get ps i p hE.2 hpi) (subTablesNumOK_get ps i p hN.2 hpi) hsub
      obtain ⟨l', hl'⟩ := List.getLast?_eq_some_iff.mp hel
      have hclean : ∀ c ∈ e ++ a', CleanChar c := by
        intro c hc
        rcases List.mem_append.mp hc with h | h
        · exact (hcl c h).1
        · exact hclean' c h
      have hhd2 : hd (e ++ a') ≠ SLASH := by
        cases hle : e with
        | nil => exact absurd hle hne
        | cons c r => rw [hle] at hhd; simpa using hhd
      refine ⟨?_, by simp [hne], hhd2, hclean⟩
      obtain ⟨pre, post, hsplit, hlen, hpre⟩ := split_at ps i p hpi
      have hsib := siblings_nullE hE.1 hN.1 hpi he hclean (List.prefix_append _ _) (Or.inr hel)
      have hpre1 : ∀ q ∈ pre, q.name.contains SLASH = true → matchPath q.name (e ++ a') = .null := by
        intro q hq _
        obtain ⟨j, hj, hqj⟩ := hpre q hq
        exact (hsib j q hqj hj).1
      have hmatch := own_dir hen he hlast a'
      have hc : p.name.contains SLASH = true := by
        rw [List.contains_iff_mem]
        obtain ⟨l0, hl0⟩ := List.getLast?_eq_some_iff.mp hlast
        rw [name_split p.name, hl0]; simp
      obtain ⟨Z, hZ, hdrop⟩ := dropWhile_slash l' a' hne'
      have hZ0 : hd Z ≠ 0 := by
        cases Z with
        | nil => exact absurd rfl hZ
        | cons z zr =>
          have hmem : z ∈ (l' ++ SLASH :: a').dropWhile (· ≠ SLASH) := by rw [hdrop]; simp
          have hsuf : z ∈ l' ++ SLASH :: a' := (List.dropWhile_sublist _).subset hmem
          have : z ∈ e ++ a' := by rw [hl']; simpa using hsuf
          simpa using (hclean z this).2
      unfold apropos
      simp only [stripSlash_id _ hhd2]
      rw [hsplit, loop1_skip _ pre _ 0 hpre1, aproposLoop1, if_pos hc, hmatch]
      simp only [hports, ↓reduceIte]
      rw [show e ++ a' = l' ++ SLASH :: a' by rw [hl']; simp, hdrop]
      simp only [ne_eq, hZ0, not_false_eq_true, ↓reduceIte]
      rw [aproposSub_eq, hrec]
      simp [Look.under, hlen]

/-! ### the enumerating walk reports addresses of `AddrE` -/

/-- address of the port `t` below `p` (`t = []`: `p` itself) -/
def AddrBelowE (p : PortT) : List Nat → Bytes → Prop
  | [], a => p.hasPorts = false ∧ a ∈ expandName (lit p.name)
  | j :: t, a => p.hasPorts = true ∧
      ∃ e ∈ expandName (lit p.name), ∃ a', a = withSlash e ++ a' ∧ AddrE p.children (j :: t) a'

theorem addrE_cons (ps : List PortT) (i : Nat) (t : List Nat) (a : Bytes) :
    AddrE ps (i :: t) a ↔ ∃ p, ps[i]? = some p ∧ AddrBelowE p t a := by
  cases t with
  | nil => simp [AddrE, AddrBelowE]
  | cons j ix => simp [AddrE, AddrBelowE]

mutual
theorem walkEL_sound : ∀ (rest : List PortT) (i : Nat) (a : Bytes) (ix : List Nat),
    (a, ix) ∈ walkEL rest i →
    ∃ k p t, ix = (i + k) :: t ∧ rest[k]? = some p ∧ AddrBelowE p t a
  | [], i, a, ix, h => by simp [walkEL] at h
  | p :: rest, i, a, ix, h => by
    rw [walkEL] at h
    rcases List.mem_append.mp h with h | h
    · obtain ⟨⟨a', t⟩, hm, heq⟩ := List.mem_map.mp h
      simp only [Prod.mk.injEq] at heq
      obtain ⟨rfl, rfl⟩ := heq
      exact ⟨0, p, t, rfl, rfl, walkEP_sound p a' t hm⟩
    · obtain ⟨k, q, t, h1, h2, h3⟩ := walkEL_sound rest (i + 1) a ix h
      exact ⟨k + 1, q, t, by rw [h1]; congr 1; omega, by simpa using h2, h3⟩
theorem walkEP_sound : ∀ (p : PortT) (a : Bytes) (t : List Nat), (a, t) ∈ walkEP p →
    AddrBelowE p t a
  | .mk n m hp cs, a, t, h => by
    rw [walkEP] at h
    split at h
    · rename_i hh
      obtain ⟨l, hl, hal⟩ := List.mem_flatten.mp h
      obtain ⟨e, he, rfl⟩ := List.mem_map.mp hl
      obtain ⟨⟨a', t'⟩, hm, heq⟩ := List.mem_map.mp hal
      simp only [Prod.mk.injEq] at heq
      obtain ⟨rfl, rfl⟩ := heq
      obtain ⟨k, q, t2, h1, h2, h3⟩ := walkEL_sound cs 0 a' t' hm
      subst h1
      simp only [Nat.zero_add]
      refine ⟨hh, e, he, a', rfl, ?_⟩
      rw [addrE_cons]
      exact ⟨q, h2, h3⟩
    · rename_i hh
      obtain ⟨e, he, heq⟩ := List.mem_map.mp h
      simp only [Prod.mk.injEq] at heq
      obtain ⟨rfl, rfl⟩ := heq
      exact ⟨by simpa [PortT.hasPorts] using hh, he⟩
end

theorem walkE_sound (ps : List PortT) (a : Bytes) (ix : List Nat) (h : (a, ix) ∈ walkE ps) :
    AddrE ps ix a := by
  obtain ⟨k, p, t, h1, h2, h3⟩ := walkEL_sound ps 0 a ix h
  subst h1
  rw [addrE_cons]
  exact ⟨p, by simpa using h2, h3⟩

/-- the lookup clause for trees with enumerated rows -/
theorem apropos_walkedE (ps : List PortT) (hok : TreeOKE ps) (hnum : TreeNumOK ps) (a : Bytes) (ix : List Nat)
    (hw : (a, ix) ∈ walkE ps) :
    apropos ps a = .port ix ∧ apropos ps (SLASH :: a) = .port ix := by
  obtain ⟨h1, _, h3, _⟩ := apropos_addrE ix ps a hok hnum (walkE_sound ps a ix hw)
  refine ⟨h1, ?_⟩
  have : apropos ps (SLASH :: a) = apropos ps a := by
    unfold apropos
    simp [stripSlash, h3]
  rw [this, h1]


/-! ### small tables: the hypotheses from finitely many checks -/

/-- what `TableOKE` asks of one row -/
def RowOKE (q : PortT) : Prop :=
  EnumName q.name ∧ lit q.name ≠ [] ∧ hd (lit q.name) ≠ SLASH ∧
    (q.hasPorts = true → (lit q.name).getLast? = some SLASH)

instance (q : PortT) : Decidable (RowOKE q) := by unfold RowOKE; infer_instance

theorem pair_cases {p q x y : PortT} {i j : Nat} (hx : [p, q][i]? = some x) (hy : [p, q][j]? = some y)
    (hij : i ≠ j) : (x = p ∧ y = q) ∨ (x = q ∧ y = p) := by
  rcases i with _ | _ | i <;> rcases j with _ | _ | j <;> simp at hx hy hij <;> simp [← hx, ← hy]

theorem tableOKE_two (p q : PortT) (hp : RowOKE p) (hq : RowOKE q)
    (hpq : ∀ a ∈ expandName (lit p.name), ∀ b ∈ expandName (lit q.name), ¬ a <+: b ∧ ¬ b <+: a) :
    TableOKE [p, q] := by
  refine ⟨?_, ?_⟩
  · intro x hx
    simp only [List.mem_cons, List.not_mem_nil, or_false] at hx
    rcases hx with rfl | rfl
    · exact hp
    · exact hq
  · intro i j x y hx hy hij a ha b hb
    rcases pair_cases hx hy hij with ⟨rfl, rfl⟩ | ⟨rfl, rfl⟩
    · exact (hpq a ha b hb).1
    · exact (hpq b hb a ha).2

theorem tableNumOK_two (p q : PortT) (hp : EnumPos (lit p.name)) (hq : EnumPos (lit q.name))
    (hpq : ∀ a ∈ expandName (lit p.name), IndexFits (lit q.name) a ∧
      ∀ b, AcceptsName (lit q.name) b → ¬ a <+: b ∧ ¬ b <+: a)
    (hqp : ∀ a ∈ expandName (lit q.name), IndexFits (lit p.name) a ∧
      ∀ b, AcceptsName (lit p.name) b → ¬ a <+: b ∧ ¬ b <+: a) :
    TableNumOK [p, q] := by
  refine ⟨?_, ?_⟩
  · intro x hx
    simp only [List.mem_cons, List.not_mem_nil, or_false] at hx
    rcases hx with rfl | rfl
    · exact hp
    · exact hq
  · intro i j x y hx hy hij a ha
    rcases pair_cases hx hy hij with ⟨rfl, rfl⟩ | ⟨rfl, rfl⟩
    · exact hpq a ha
    · exact hqp a ha

theorem tableOKE_nil : TableOKE [] := ⟨by simp, by simp⟩
theorem tableNumOK_nil : TableNumOK [] := ⟨by simp, by simp⟩

/-- every name a row accepts begins like the row's name (unless that begins with `#`) -/
theorem accepts_hd {l b : Bytes} (hl : l ≠ []) (h35 : hd l ≠ 35) (h : AcceptsName l b) :
    b ≠ [] ∧ hd b = hd l := by
  unfold AcceptsName at h
  cases hs : splitHash l with
  | none => rw [hs] at h; subst h; exact ⟨hl, rfl⟩
  | some t =>
    obtain ⟨pre, d, post⟩ := t
    rw [hs] at h
    obtain ⟨D, _, _, rfl⟩ := h
    obtain ⟨e1, _, _, _⟩ := splitHash_some _ _ _ _ hs
    cases pre with
    | nil => rw [e1] at h35; exact absurd rfl h35
    | cons c _ => rw [e1]; exact ⟨by simp, rfl⟩

/-- rows whose names begin differently: nothing one accepts is prefix-related to a name of
    the other, and trying the pattern of the one on the other stops at the first character -/
theorem apart_of_heads {lq a : Bytes} (hl : lq ≠ []) (h35 : hd lq ≠ 35) (ha : a ≠ []) (hne : hd a ≠ hd lq) :
    IndexFits lq a ∧ ∀ b, AcceptsName lq b → ¬ a <+: b ∧ ¬ b <+: a := by
  constructor
  · unfold IndexFits
    cases hs : splitHash lq with
    | none => trivial
    | some t =>
      obtain ⟨pre, d, post⟩ := t
      simp only
      intro r hr
      exfalso
      obtain ⟨e1, _, _, _⟩ := splitHash_some _ _ _ _ hs
      cases pre with
      | nil => rw [e1] at h35; exact absurd rfl h35
      | cons c _ => rw [e1, hr] at hne; exact hne rfl
  · intro b hb
    obtain ⟨hb0, hbh⟩ := accepts_hd hl h35 hb
    cases a with
    | nil => exact absurd rfl ha
    | cons x a' =>
      cases b with
      | nil => exact absurd rfl hb0
      | cons y b' =>
        simp only [hd_cons] at hbh hne
        constructor
        · intro h; exact hne ((List.cons_prefix_cons.mp h).1.trans hbh)
        · intro h; exact hne ((List.cons_prefix_cons.mp h).1.symm.trans hbh)



theorem subTablesOKE_leaves : ∀ ps : List PortT, (∀ p ∈ ps, p.children = []) → SubTablesOKE ps
  | [], _ => trivial
  | .mk n m h cs :: r, hl => by
    have : cs = [] := hl (.mk n m h cs) List.mem_cons_self
    subst this
    exact ⟨⟨tableOKE_nil, trivial⟩, subTablesOKE_leaves r (fun p hp => hl p (List.mem_cons_of_mem _ hp))⟩

theorem subTablesNumOK_leaves : ∀ ps : List PortT, (∀ p ∈ ps, p.children = []) → SubTablesNumOK ps
  | [], _ => trivial
  | .mk n m h cs :: r, hl => by
    have : cs = [] := hl (.mk n m h cs) List.mem_cons_self
    subst this
    exact ⟨⟨tableNumOK_nil, trivial⟩, subTablesNumOK_leaves r (fun p hp => hl p (List.mem_cons_of_mem _ hp))⟩

/-- two rows whose names begin with different characters (neither with `#`) -/
theorem tableNumOK_two_heads (p q : PortT) (hp : EnumPos (lit p.name)) (hq : EnumPos (lit q.name))
    (hlp : lit p.name ≠ [] ∧ hd (lit p.name) ≠ 35) (hlq : lit q.name ≠ [] ∧ hd (lit q.name) ≠ 35)
    (h1 : ∀ a ∈ expandName (lit p.name), a ≠ [] ∧ hd a ≠ hd (lit q.name))
    (h2 : ∀ a ∈ expandName (lit q.name), a ≠ [] ∧ hd a ≠ hd (lit p.name)) :
    TableNumOK [p, q] :=
  tableNumOK_two p q hp hq
    (fun a ha => apart_of_heads hlq.1 hlq.2 (h1 a ha).1 (h1 a ha).2)
    (fun a ha => apart_of_heads hlp.1 hlp.2 (h2 a ha).1 (h2 a ha).2)

/-- a table of two leaf rows -/
theorem treeOKE_leaves2 (p q : PortT) (hp : RowOKE p) (hq : RowOKE q) (hpc : p.children = []) (hqc : q.children = [])
    (hpq : ∀ a ∈ expandName (lit p.name), ∀ b ∈ expandName (lit q.name), ¬ a <+: b ∧ ¬ b <+: a) :
    TreeOKE [p, q] := by
  refine ⟨tableOKE_two p q hp hq hpq, subTablesOKE_leaves _ ?_⟩
  intro x hx
  simp only [List.mem_cons, List.not_mem_nil, or_false] at hx
  rcases hx with rfl | rfl <;> assumption



/-! ### on trees of literal names `walkE` is `walk` -/

mutual
/-- no name of the tree has a `#` in front of its `:` -/
def noHashPort : PortT → Bool
  | .mk n _ _ cs => !(lit n).contains 35 && noHashList cs
def noHashList : List PortT → Bool
  | [] => true
  | p :: r => noHashPort p && noHashList r
end

theorem splitHash_of_not_mem : ∀ l : Bytes, 35 ∉ l → splitHash l = none
  | [], _ => rfl
  | c :: r, h => by
    simp only [List.mem_cons, not_or] at h
    rw [splitHash, if_neg (fun e => h.1 e.symm), splitHash_of_not_mem r h.2]
    rfl

theorem expandName_lit {l : Bytes} (h : 35 ∉ l) : expandName l = [l] := by
  unfold expandName; rw [splitHash_of_not_mem l h]

mutual
theorem walkEL_eq_walkL : ∀ (ps : List PortT) (i : Nat), noHashList ps = true → walkEL ps i = walkL ps i
  | [], i, _ => by rw [walkEL, walkL]
  | p :: r, i, h => by
    simp only [noHashList, Bool.and_eq_true] at h
    rw [walkEL, walkL, walkEP_eq_walkP p h.1, walkEL_eq_walkL r (i + 1) h.2]
theorem walkEP_eq_walkP : ∀ (p : PortT), noHashPort p = true → walkEP p = walkP p
  | .mk n m hp cs, h => by
    simp only [noHashPort, Bool.and_eq_true, Bool.not_eq_true', List.contains_eq_mem,
      decide_eq_false_iff_not] at h
    rw [walkEP, walkP, expandName_lit h.1, walkEL_eq_walkL cs 0 h.2]
    cases hp <;> simp [withSlash, subPrefix]
end

mutual
theorem noHashList_of_ok : ∀ ps : List PortT, (∀ q ∈ ps, LitName q.name) → SubTablesOK ps →
    noHashList ps = true
  | [], _, _ => rfl
  | p :: r, hl, hs => by
    rw [SubTablesOK] at hs
    simp only [noHashList, Bool.and_eq_true]
    exact ⟨noHashPort_of_ok p (hl p List.mem_cons_self) hs.1,
      noHashList_of_ok r (fun q hq => hl q (List.mem_cons_of_mem _ hq)) hs.2⟩
theorem noHashPort_of_ok : ∀ p : PortT, LitName p.name → PortOK p → noHashPort p = true
  | .mk n m hp cs, hl, hok => by
    rw [PortOK] at hok
    simp only [noHashPort, Bool.and_eq_true, Bool.not_eq_true', List.contains_eq_mem,
      decide_eq_false_iff_not]
    exact ⟨fun h => (hl 35 h).2.2.2 rfl, noHashList_of_ok cs (fun q hq => (hok.1.1 q hq).1) hok.2⟩
end

/-- on a tree of literal names (`TreeOK`) the two walk specifications are the same list -/
theorem walkE_eq_walk (ps : List PortT) (hok : TreeOK ps) : walkE ps = walk ps :=
  walkEL_eq_walkL ps 0 (noHashList_of_ok ps (fun q hq => (hok.1.1 q hq).1) hok.2)


end Rtosc.Path
