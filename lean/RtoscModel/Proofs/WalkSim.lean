/-
  C09 helper lemmas, part 8: the dispatch model of the correspondence driver (`dispatchSim`,
  Walk/Dispatch.lean) on the address of a reported pair.

  1. `full_suffix`: `rtosc_match` on a name of the documented form and the rest of a message
     (`a ++ 0 :: tailOf k tags rest`) is C05's `greedy` + `typesCode`.
  2. `dispList_sim`: on a well-formed tree whose leaves are named, `dispList` is `simList`, the
     same recursion written with `greedy` / `typesCode` (total: no read leaves the message).
  3. `sim_list` / `sim_tree`: for a pair of `enumerate`, `simList` contains the reported port
     when the type string is admitted along the path, and — rows pairwise apart — nothing else.
-/
import RtoscModel.Proofs.WalkDispatch
import RtoscModel.Walk.DispatchSpec
namespace Rtosc.Walk
open Rtosc Rtosc.Path Rtosc.Match

/-! ### `rtosc_match` on the rest of a message -/

theorem argString_tail (a : Bytes) (ha : NulFree a) (k : Nat) (tags rest : Bytes) (h : a ≠ [] ∨ 1 ≤ k) :
    argString (a ++ 0 :: tailOf k tags rest) = some (tags ++ 0 :: rest) := by
  cases a with
  | cons c a' =>
    have hn := toNul_nulfree a' (tailOf k tags rest) ha.tail
    simp only [List.cons_append, argString, hn]
    have := skipZeros_replicate k 44 (tags ++ 0 :: rest) (by decide)
    simp only [tailOf, this]
  | nil =>
    have hk : 1 ≤ k := by
      rcases h with h | h
      · exact absurd rfl h
      · exact h
    obtain ⟨j, rfl⟩ : ∃ j, k = j + 1 := ⟨k - 1, by omega⟩
    have := skipZeros_replicate j 44 (tags ++ 0 :: rest) (by decide)
    simp only [List.nil_append, argString, tailOf, List.replicate_succ, List.cons_append, toNul, ↓reduceIte, this]

/-- **`rtosc_match` on a name of the documented form and the rest of a message**: what C05's
    `greedy` and `typesCode` say, provided the type string can be found: the rest of the address
    is not empty, or there is padding behind its terminator, or the name has no type part. -/
theorem full_suffix {p : Pat} (hwf : p.WF0) {a tags : Bytes} (k : Nat) (rest : Bytes)
    (ha : NulFree a) (hb : IdxBounded a) (ht : NulFree tags)
    (hne : ∀ t, greedy p.segs p.sub a = some t → p.types = none ∨ a ≠ [] ∨ 1 ≤ k) :
    full p.cstr (a ++ 0 :: tailOf k tags rest) =
      match greedy p.segs p.sub a with
      | none => some (false, none)
      | some t => some (match p.types with
                        | none => true
                        | some ts => typesCode ts tags, some (t ++ 0 :: tailOf k tags rest)) := by
  have hp := path_rendered hwf (tailOf k tags rest) ha hb
  cases hg : greedy p.segs p.sub a with
  | none =>
    simp only [hg] at hp
    simp [full, hp]
  | some t =>
    simp only [hg] at hp
    cases hty : p.types with
    | none =>
      simp only [hty, renderTypes, List.nil_append] at hp
      simp [full, hp]
    | some ts =>
      have htw := wf0_types hwf
      simp only [hty, typesWf, Bool.and_eq_true, Bool.not_eq_eq_eq_not, Bool.not_true,
        List.isEmpty_eq_false_iff, List.all_eq_true] at htw
      obtain ⟨x, ts', rfl⟩ := List.exists_cons_of_ne_nil htw.1
      simp only [hty, renderTypes, renderTypeAlts, List.cons_append, List.append_assoc] at hp
      have hk := argString_tail a ha k tags rest (by
        rcases hne t hg with h | h
        · rw [hty] at h; cases h
        · exact h)
      have hargs := argsStart_types_eq tags rest ht (x :: ts') htw.1 htw.2
      simp only at hargs
      simp only [full, hp, ↓reduceIte, hk, args_colon]
      simp [hargs]

/-! ### the same recursion as `dispList`, written with `greedy` and `typesCode` -/

/-- what `rtosc_match` computes for a port name: the rest of the address behind `*path_end`
    if the message matches -/
def matchW (w : WName) (a tags : Bytes) : Option Bytes :=
  match greedy w.toPat.segs w.slash a with
  | none => none
  | some t =>
    match w.types with
    | none => some t
    | some ts => if typesCode ts tags then some t else none

mutual
def simList (path : List Nat) : List STree → Nat → Bytes → Bytes → List (List Nat)
  | [], _, _, _ => []
  | t :: r, i, a, tags => simTree path i t a tags ++ simList path r (i + 1) a tags
def simTree (path : List Nat) (i : Nat) : STree → Bytes → Bytes → List (List Nat)
  | .leaf w _, a, tags => if (matchW w a tags).isSome then [path ++ [i]] else []
  | .sub w _ kids, a, tags =>
    match matchW w a tags with
    | none => []
    | some t => simList (path ++ [i]) kids 0 t tags
end

/-! ### `snip`: the callback of a sub-tree port skips the components of its name -/

theorem snip_skip (n : Nat) (c : UInt8) (m : Bytes) (h0 : c ≠ 0) (h47 : c ≠ 47) :
    snip (n + 1) (c :: m) = snip (n + 1) m := by
  have : (c != 0 && c != 47) = true := by simp [h0, h47]
  simp only [snip, List.dropWhile_cons, this, ↓reduceIte]

theorem snip_slash (n : Nat) (m : Bytes) : snip (n + 1) (47 :: m) = snip n m := by
  simp [snip]

/-- `s` holds `n` slashes and is followed by one more: `n + 1` components are skipped -/
theorem snip_count : ∀ (s : Bytes) (n : Nat) (x : Bytes), NulFree s → (s.filter (· == 47)).length = n →
    snip (n + 1) (s ++ 47 :: x) = x := by
  intro s
  induction s with
  | nil =>
    intro n x _ hn
    simp at hn
    subst hn
    simp [snip]
  | cons c r ih =>
    intro n x hs hn
    by_cases hc : c = 47
    · subst hc
      simp only [List.filter_cons, beq_self_eq_true, ↓reduceIte, List.length_cons] at hn
      obtain ⟨m, rfl⟩ : ∃ m, n = m + 1 := ⟨n - 1, by omega⟩
      rw [List.cons_append, snip_slash]
      exact ih m x hs.tail (by omega)
    · have hb : (c == 47) = false := by simp [hc]
      simp only [List.filter_cons, hb, Bool.false_eq_true, ↓reduceIte] at hn
      rw [List.cons_append, snip_skip n c _ hs.head hc]
      exact ih n x hs.tail hn

def slashes (s : Bytes) : Nat := (s.filter (· == 47)).length

theorem slashes_append (a b : Bytes) : slashes (a ++ b) = slashes a + slashes b := by
  simp [slashes]

theorem slashes_digits {d : Bytes} (h : ∀ c ∈ d, isDigit c = true) : slashes d = 0 := by
  unfold slashes
  rw [List.length_eq_zero_iff, List.filter_eq_nil_iff]
  intro c hc h47
  have := h c hc
  simp only [beq_iff_eq] at h47
  subst h47
  revert this
  decide

def partsSlashes : List (Bytes × Bytes) → Nat
  | [] => 0
  | (_, t) :: r => slashes t + partsSlashes r

theorem slashes_renderParts : ∀ (ps : List (Bytes × Bytes)), partsOk ps = true →
    slashes (renderParts ps) = partsSlashes ps := by
  intro ps
  induction ps with
  | nil => intro _; rfl
  | cons p r ih =>
    obtain ⟨ds, t⟩ := p
    intro hok
    obtain ⟨hnum, _, _, _, hrest⟩ := partsOk_cons hok
    have hd := (numOk_spec hnum)
    have e : renderParts ((ds, t) :: r) = [35] ++ ds ++ t ++ renderParts r := by simp [renderParts]
    rw [e, slashes_append, slashes_append, slashes_append, ih hrest, slashes_digits hd.2.1]
    simp [partsSlashes, slashes]

theorem slashes_expandParts : ∀ (ps : List (Bytes × Bytes)) (a : Bytes), a ∈ expandParts ps →
    slashes a = partsSlashes ps := by
  intro ps
  induction ps with
  | nil =>
    intro a ha
    simp [expandParts] at ha
    subst ha
    rfl
  | cons p r ih =>
    obtain ⟨ds, t⟩ := p
    intro a ha
    simp only [expandParts, List.mem_flatMap, List.mem_range, List.mem_map] at ha
    obtain ⟨i, _, a', ha', rfl⟩ := ha
    rw [slashes_append, slashes_append, ih a' ha', slashes_digits (natDigits_digits i)]
    simp [partsSlashes]

theorem takeWhile_colon (b tl : Bytes) (hb : ∀ c ∈ b, c ≠ 58) (htl : tl = [] ∨ ∃ r, tl = 58 :: r) :
    (b ++ tl).takeWhile (· ≠ COLON) = b := by
  induction b with
  | nil =>
    rcases htl with rfl | ⟨r, rfl⟩
    · rfl
    · simp [COLON]
  | cons c r ih =>
    have hc : c ≠ 58 := hb c List.mem_cons_self
    have : decide (c ≠ COLON) = true := by simp [COLON, hc]
    simp only [List.cons_append, List.takeWhile_cons, this, ↓reduceIte, List.cons.injEq, true_and]
    exact ih (fun x hx => hb x (List.mem_cons_of_mem _ hx))

theorem renderParts_no_colon : ∀ (ps : List (Bytes × Bytes)), partsOk ps = true → ∀ c ∈ renderParts ps, c ≠ 58 := by
  intro ps
  induction ps with
  | nil => intro _ c hc; simp [renderParts] at hc
  | cons p r ih =>
    obtain ⟨ds, t⟩ := p
    intro hok c hc
    obtain ⟨hnum, htext, _, _, hrest⟩ := partsOk_cons hok
    simp only [renderParts, List.mem_cons, List.mem_append] at hc
    rcases hc with ((rfl | hc) | hc) | hc
    · decide
    · exact (isDigit_ne ((numOk_spec hnum).2.1 c hc)).2.2.1
    · exact (textOk_ne htext c hc).2.2
    · exact ih hrest c hc

/-- the name up to its type part -/
theorem lit_render {w : WName} (hok : w.ok = true) : lit w.render = w.body := by
  obtain ⟨hhead, hparts, htypes⟩ := WName.ok_spec hok
  unfold lit WName.render
  apply takeWhile_colon
  · intro c hc
    simp only [WName.body, List.mem_append] at hc
    rcases hc with (hc | hc) | hc
    · exact (textOk_ne hhead c hc).2.2
    · exact renderParts_no_colon _ hparts c hc
    · cases hs : w.slash <;> simp [slashIf, hs] at hc
      subst hc; decide
  · exact renderTypes_shape htypes

/-- a sub-tree name has one '/' more than what stands in front of its trailing '/' -/
theorem slashCount_sub {w : WName} (hok : w.ok = true) (hslash : w.slash = true) :
    slashCount w.render = slashes w.head + partsSlashes w.parts + 1 := by
  obtain ⟨_, hparts, _⟩ := WName.ok_spec hok
  unfold slashCount
  rw [lit_render hok]
  show slashes w.body = _
  simp only [WName.body, slashes_append, slashes_renderParts _ hparts, hslash, slashIf, ↓reduceIte]
  rfl

def segSlashes : List Seg → Nat
  | [] => 0
  | .lit t :: r => slashes t + segSlashes r
  | _ :: r => segSlashes r

theorem segSlashes_append (a b : List Seg) : segSlashes (a ++ b) = segSlashes a + segSlashes b := by
  induction a with
  | nil => simp [segSlashes]
  | cons s r ih => cases s <;> simp [segSlashes, ih, Nat.add_assoc]

theorem segSlashes_litSeg (t : Bytes) : segSlashes (litSeg t) = slashes t := by
  cases t with
  | nil => rfl
  | cons c r => simp [litSeg, segSlashes]

theorem segSlashes_partSegs (ps : List (Bytes × Bytes)) : segSlashes (partSegs ps) = partsSlashes ps := by
  induction ps with
  | nil => rfl
  | cons p r ih =>
    obtain ⟨ds, t⟩ := p
    simp [partSegs, segSlashes, segSlashes_append, segSlashes_litSeg, ih, partsSlashes]

theorem noAlts_toPat (w : WName) : ∀ s ∈ w.toPat.segs, ∀ as, s ≠ .alts as := by
  have hl : ∀ t : Bytes, ∀ s ∈ litSeg t, ∀ as, s ≠ Seg.alts as := by
    intro t s hs as
    cases t with
    | nil => simp [litSeg] at hs
    | cons c r => simp [litSeg] at hs; subst hs; simp
  have hp : ∀ ps : List (Bytes × Bytes), ∀ s ∈ partSegs ps, ∀ as, s ≠ Seg.alts as := by
    intro ps
    induction ps with
    | nil => intro s hs; simp [partSegs] at hs
    | cons p r ih =>
      obtain ⟨ds, t⟩ := p
      intro s hs as
      simp only [partSegs, List.mem_cons, List.mem_append] at hs
      rcases hs with (rfl | hs) | hs
      · simp
      · exact hl t s hs as
      · exact ih s hs as
  intro s hs as
  simp only [WName.toPat, List.mem_append] at hs
  rcases hs with hs | hs
  · exact hl _ s hs as
  · exact hp _ s hs as

/-- what spells literal text and enumerations holds exactly the slashes of the literal text -/
theorem spells_slashes {segs : List Seg} {a r : Bytes} (h : SpellsAll segs a r)
    (hna : ∀ s ∈ segs, ∀ as, s ≠ .alts as) : ∃ s, a = s ++ r ∧ slashes s = segSlashes segs := by
  induction h with
  | nil r => exact ⟨[], rfl, rfl⟩
  | lit t _ ih =>
    obtain ⟨s, h1, h2⟩ := ih (fun s hs => hna s (List.mem_cons_of_mem _ hs))
    exact ⟨t ++ s, by simp [h1], by simp [slashes_append, h2, segSlashes]⟩
  | enum ds idx _ hd _ _ _ ih =>
    obtain ⟨s, h1, h2⟩ := ih (fun s hs => hna s (List.mem_cons_of_mem _ hs))
    exact ⟨idx ++ s, by simp [h1], by simp [slashes_append, h2, segSlashes, slashes_digits hd]⟩
  | alts as x _ _ _ => exact absurd rfl (hna _ List.mem_cons_self as)

/-- the callback of a sub-tree port whose name accepted the address hands on what `rtosc_match`
    left in `*path_end` -/
theorem snip_matched {w : WName} (hok : w.ok = true) (hslash : w.slash = true) {a t : Bytes} (x : Bytes)
    (ha : NulFree a) (hg : greedy w.toPat.segs w.slash a = some t) :
    snip (slashCount w.render) (a ++ x) = t ++ x := by
  obtain ⟨rest, hsp, hr⟩ := greedy_sound w.slash _ a t hg
  simp only [hslash, ↓reduceIte] at hr
  subst hr
  obtain ⟨s, h1, h2⟩ := spells_slashes hsp (noAlts_toPat w)
  rw [slashCount_sub hok hslash, h1]
  have hs : NulFree s := by
    rw [h1] at ha
    exact fun c hc => ha c (List.mem_append_left _ hc)
  have := snip_count s (slashes w.head + partsSlashes w.parts) (t ++ x) hs (by
    have : segSlashes w.toPat.segs = slashes w.head + partsSlashes w.parts := by
      simp [WName.toPat, segSlashes_append, segSlashes_litSeg, segSlashes_partSegs]
    rw [← this, ← h2]; rfl)
  simpa using this

/-- `*path_end` lies inside the address -/
theorem greedy_suffix (sub : Bool) {segs : List Seg} {a t : Bytes} (hg : greedy segs sub a = some t) :
    ∃ s, a = s ++ t := by
  obtain ⟨rest, hsp, hr⟩ := greedy_sound sub segs a t hg
  have hsuf : ∀ {segs a r}, SpellsAll segs a r → ∃ s, a = s ++ r := by
    intro segs a r h
    induction h with
    | nil r => exact ⟨[], rfl⟩
    | lit t _ ih => obtain ⟨s, h⟩ := ih; exact ⟨t ++ s, by simp [h]⟩
    | enum ds idx _ _ _ _ _ ih => obtain ⟨s, h⟩ := ih; exact ⟨idx ++ s, by simp [h]⟩
    | alts as x _ _ ih => obtain ⟨s, h⟩ := ih; exact ⟨x ++ s, by simp [h]⟩
  obtain ⟨s, hs⟩ := hsuf hsp
  cases sub with
  | true => simp only [↓reduceIte] at hr; subst hr; exact ⟨s ++ [47], by simp [hs]⟩
  | false => simp only [Bool.false_eq_true, ↓reduceIte] at hr; obtain ⟨rfl, rfl⟩ := hr; exact ⟨s, hs⟩

/-- only a name without text, enumeration and trailing '/' accepts the empty address -/
theorem greedy_nil {w : WName} {t : Bytes} (hg : greedy w.toPat.segs w.slash [] = some t) :
    w.head = [] ∧ w.parts = [] ∧ w.slash = false := by
  cases hh : w.head with
  | cons c r => simp [WName.toPat, hh, litSeg, greedy] at hg
  | nil =>
    cases hp : w.parts with
    | cons p r =>
      obtain ⟨ds, x⟩ := p
      simp [WName.toPat, hh, hp, litSeg, partSegs, greedy] at hg
    | nil =>
      cases hs : w.slash with
      | true => simp [WName.toPat, hh, hp, hs, litSeg, partSegs, greedy] at hg
      | false => exact ⟨rfl, rfl, rfl⟩

/-- `Match.full` on a table row of a well-formed tree -/
theorem full_row {w : WName} (hok : w.ok = true) (hn : w.named = true ∨ w.head ≠ []) {a tags : Bytes} (k : Nat)
    (rest : Bytes) (ha : NulFree a) (hb : IdxBounded a) (ht : NulFree tags) :
    ∃ e, Match.full (w.render ++ [0]) (a ++ 0 :: tailOf k tags rest) = some ((matchW w a tags).isSome, e) := by
  have h := full_suffix (toPat_wf0 hok) k rest ha hb ht (by
    intro t hg
    by_cases hane : a = []
    · subst hane
      obtain ⟨h1, h2, h3⟩ := greedy_nil hg
      rcases hn with hn | hn
      · left
        simp only [WName.named, h1, h2, h3, List.isEmpty_nil, Bool.not_false, Bool.and_self, Bool.true_and,
          Bool.not_eq_eq_eq_not, Bool.not_true, Option.isSome_eq_false_iff, Option.isNone_iff_eq_none] at hn
        simpa [WName.toPat] using hn
      · exact absurd h1 hn
    · exact Or.inr (Or.inl hane))
  rw [← toPat_cstr, h]
  unfold matchW
  simp only [WName.toPat]
  cases greedy (litSeg w.head ++ partSegs w.parts) w.slash a with
  | none => exact ⟨_, rfl⟩
  | some t =>
    cases w.types with
    | none => exact ⟨_, rfl⟩
    | some ts => by_cases hc : typesCode ts tags = true <;> simp [hc]

theorem matchW_rest {w : WName} {a tags t : Bytes} (h : matchW w a tags = some t) :
    greedy w.toPat.segs w.slash a = some t := by
  unfold matchW at h
  cases hg : greedy w.toPat.segs w.slash a with
  | none => simp [hg] at h
  | some t' =>
    simp only [hg] at h
    cases hty : w.types with
    | none => simpa [hty] using h
    | some ts =>
      simp only [hty] at h
      split at h
      · simpa using h
      · cases h

mutual
/-- **the dispatch model on a well-formed tree is `simList`**: it returns (no read leaves the
    message), and the callbacks are those the recursion over `greedy` / `typesCode` names -/
theorem dispList_sim : ∀ (ts : List STree) (path : List Nat) (i : Nat) (a : Bytes) (k : Nat) (tags rest : Bytes),
    wfList ts = true → namedList ts = true → NulFree a → IdxBounded a → NulFree tags →
    dispList path (toPorts ts) i (a ++ 0 :: tailOf k tags rest) = some (simList path ts i a tags)
  | [], _, _, _, _, _, _, _, _, _, _, _ => by simp [toPorts, dispList, simList]
  | t :: r, path, i, a, k, tags, rest, hwf, hn, ha, hb, ht => by
    simp only [wfList, Bool.and_eq_true] at hwf
    simp only [namedList, Bool.and_eq_true] at hn
    simp only [toPorts, dispList, simList,
      dispPort_sim t path i a k tags rest hwf.1 hn.1 ha hb ht,
      dispList_sim r path (i + 1) a k tags rest hwf.2 hn.2 ha hb ht]
theorem dispPort_sim : ∀ (t : STree) (path : List Nat) (i : Nat) (a : Bytes) (k : Nat) (tags rest : Bytes),
    t.wf = true → t.named = true → NulFree a → IdxBounded a → NulFree tags →
    dispPort path i t.toPort (a ++ 0 :: tailOf k tags rest) = some (simTree path i t a tags)
  | .leaf w md, path, i, a, k, tags, rest, hwf, hn, ha, hb, ht => by
    have hok : w.ok = true := by simpa [STree.wf, WName.leafOk] using hwf
    obtain ⟨e, he⟩ := full_row hok (Or.inl (by simpa [STree.named] using hn)) k rest ha hb ht
    simp only [STree.toPort, dispPort, he, simTree]
    cases (matchW w a tags).isSome <;> simp
  | .sub w md kids, path, i, a, k, tags, rest, hwf, hn, ha, hb, ht => by
    simp only [STree.wf, Bool.and_eq_true] at hwf
    obtain ⟨hok, hhead, hslash, _⟩ := WName.subOk_spec hwf.1
    obtain ⟨e, he⟩ := full_row hok (Or.inr hhead) k rest ha hb ht
    simp only [STree.toPort, dispPort, he, simTree]
    cases hm : matchW w a tags with
    | none => simp
    | some t =>
      have hg := matchW_rest hm
      obtain ⟨s, hs⟩ := greedy_suffix w.slash hg
      have hat : NulFree t := by rw [hs] at ha; exact nulFree_append_right ha
      have hbt : IdxBounded t := by rw [hs] at hb; exact hb.suffix
      simp only [Option.isSome_some, ↓reduceIte, snip_matched hok hslash (0 :: tailOf k tags rest) ha hg]
      exact dispList_sim kids (path ++ [i]) 0 t k tags rest hwf.2 (by simpa [STree.named] using hn) hat hbt ht
end

/-! ### a reported address -/

theorem tagsAdmitted_typesCode {ts : List Bytes} (hne : ts ≠ []) (tags : Bytes) :
    tagsAdmitted (some ts) tags = typesCode ts tags := by
  rw [Bool.eq_iff_iff, typesCode_exact hne]
  simp only [tagsAdmitted, Bool.or_eq_true, List.contains_iff_mem]
  constructor
  · rintro (h | h)
    · exact Or.inl h
    · cases hl : ts.getLast? with
      | none => simp [hl] at h
      | some l =>
        simp only [hl, Bool.and_eq_true, Bool.not_eq_eq_eq_not, Bool.not_true, List.isEmpty_eq_false_iff] at h
        exact Or.inr ⟨l, rfl, h.1, List.isPrefixOf_iff_prefix.mp h.2⟩
  · rintro (h | ⟨l, hl, h1, h2⟩)
    · exact Or.inl h
    · right
      simp only [hl, Bool.and_eq_true, Bool.not_eq_eq_eq_not, Bool.not_true, List.isEmpty_eq_false_iff]
      exact ⟨h1, List.isPrefixOf_iff_prefix.mpr h2⟩

theorem matchW_types {w : WName} (hok : w.ok = true) {a tags t : Bytes}
    (hg : greedy w.toPat.segs w.slash a = some t) :
    matchW w a tags = if tagsAdmitted w.types tags then some t else none := by
  unfold matchW
  rw [hg]
  cases hty : w.types with
  | none => simp [tagsAdmitted]
  | some ts =>
    have := (WName.ok_spec hok).2.2
    simp only [hty, typesOk, Bool.and_eq_true, Bool.not_eq_eq_eq_not, Bool.not_true, List.isEmpty_eq_false_iff] at this
    simp only [tagsAdmitted_typesCode this.1]

/-- the row the address was built from accepts it; `*path_end` is what follows the name's part -/
theorem greedy_own {w : WName} (hok : w.ok = true) {a x : Bytes} (ha : a ∈ expandParts w.parts)
    (hx : startsWithDigit x = false) :
    greedy w.toPat.segs w.slash (w.head ++ a ++ x) = greedy [] w.slash x := by
  have hsp := spells_name w hok a x ha hx
  have hg := greedy_complete w.slash [] hsp (toPat_prefixFree w)
  rwa [List.append_nil] at hg

theorem greedy_pathSpec {w : WName} {a t : Bytes} (hg : greedy w.toPat.segs w.slash a = some t) :
    PathSpec w.toPat a := by
  obtain ⟨rest, h1, h2⟩ := greedy_sound w.slash _ a t hg
  refine ⟨rest, h1, ?_⟩
  show if w.slash = true then _ else _
  cases hs : w.slash with
  | true => simp only [hs, ↓reduceIte] at h2 ⊢; exact ⟨t, h2⟩
  | false => simp only [hs, Bool.false_eq_true, ↓reduceIte] at h2 ⊢; exact h2.1

theorem mem_simList (path : List Nat) (a tags : Bytes) (x : List Nat) : ∀ (ts : List STree) (i0 : Nat),
    x ∈ simList path ts i0 a tags ↔ ∃ n t, ts[n]? = some t ∧ x ∈ simTree path (i0 + n) t a tags := by
  intro ts
  induction ts with
  | nil => intro i0; simp [simList]
  | cons u r ih =>
    intro i0
    simp only [simList, List.mem_append, ih]
    constructor
    · rintro (h | ⟨n, t, h1, h2⟩)
      · exact ⟨0, u, by simp, by simpa using h⟩
      · exact ⟨n + 1, t, by simpa using h1, by
          have : i0 + (n + 1) = i0 + 1 + n := by omega
          rw [this]; exact h2⟩
    · rintro ⟨n, t, h1, h2⟩
      cases n with
      | zero => simp at h1; subst h1; left; simpa using h2
      | succ n =>
        right
        refine ⟨n, t, by simpa using h1, ?_⟩
        have : i0 + (n + 1) = i0 + 1 + n := by omega
        rw [this] at h2; exact h2

theorem simList_single (path : List Nat) (a tags : Bytes) : ∀ (ts : List STree) (i0 n : Nat) (t : STree),
    ts[n]? = some t → (∀ j u, j ≠ n → ts[j]? = some u → simTree path (i0 + j) u a tags = []) →
    simList path ts i0 a tags = simTree path (i0 + n) t a tags := by
  intro ts
  induction ts with
  | nil => intro i0 n t h; simp at h
  | cons u r ih =>
    intro i0 n t hn hoth
    cases n with
    | zero =>
      simp at hn; subst hn
      have hr : simList path r (i0 + 1) a tags = [] := by
        cases hx : simList path r (i0 + 1) a tags with
        | nil => rfl
        | cons x l =>
          have hm : x ∈ simList path r (i0 + 1) a tags := by rw [hx]; exact List.mem_cons_self
          obtain ⟨m, t', h1, h2⟩ := (mem_simList path a tags x r (i0 + 1)).mp hm
          have := hoth (m + 1) t' (by omega) (by simpa using h1)
          have e : i0 + (m + 1) = i0 + 1 + m := by omega
          rw [e] at this
          rw [this] at h2
          cases h2
      simp [simList, hr]
    | succ n =>
      have h0 := hoth 0 u (by omega) (by simp)
      simp only [Nat.add_zero] at h0
      simp only [simList, h0, List.nil_append]
      have e : i0 + (n + 1) = i0 + 1 + n := by omega
      rw [e]
      apply ih (i0 + 1) n t (by simpa using hn)
      intro j v hj hv
      have := hoth (j + 1) v (by omega) (by simpa using hv)
      have e2 : i0 + (j + 1) = i0 + 1 + j := by omega
      rw [e2] at this
      exact this

/-- no other row of a table with pairwise apart rows accepts the address -/
theorem sim_other (path : List Nat) (tags : Bytes) (tab : List STree) (n : Nat) (t : STree) (rel : Bytes)
    (ht : tab[n]? = some t) (hs : SiblingsApart tab) (hspec : PathSpec t.name.toPat rel) :
    ∀ j u, j ≠ n → tab[j]? = some u → simTree path (0 + j) u rel tags = [] := by
  intro j u hj hu
  have hnone : matchW u.name rel tags = none := by
    cases hm : matchW u.name rel tags with
    | none => rfl
    | some t' =>
      have hps := greedy_pathSpec (matchW_rest hm)
      exact absurd ⟨hspec, hps⟩ ((siblingsApart_spec hs).1 n j t u (Ne.symm hj) ht hu rel)
  cases u with
  | leaf w md => simp only [STree.name] at hnone; simp [simTree, hnone]
  | sub w md kids => simp only [STree.name] at hnone; simp [simTree, hnone]

/-- what the dispatch model does with the address of a reported pair: the reported port is called
    when the type string is admitted along the path, and — `only`: rows pairwise apart — nothing
    else is -/
def Reaches (only : Bool) (tags : Bytes) (path ixr : List Nat) (tab : List STree) (rel : Bytes) : Prop :=
  (admittedAlong tags ixr tab = true → path ++ ixr ∈ simList path tab 0 rel tags) ∧
  (only = true → simList path tab 0 rel tags = if admittedAlong tags ixr tab then [path ++ ixr] else [])

mutual
theorem sim_list (only : Bool) (tags : Bytes) : ∀ (ts front : List STree) (pre : Bytes) (path ix : List Nat)
    (addr : Bytes), wfList (front ++ ts) = true → (only = true → SiblingsApart (front ++ ts)) →
    (ix, addr) ∈ enumList pre path ts front.length →
    ∃ n ixr rel, ix = path ++ n :: ixr ∧ addr = pre ++ rel ∧ NulFree rel ∧
      Reaches only tags path (n :: ixr) (front ++ ts) rel
  | [], _, _, _, _, _, _, _, h => by simp [enumList] at h
  | t :: r, front, pre, path, ix, addr, hwf, hs, h => by
    simp only [enumList, List.mem_append] at h
    rcases h with h | h
    · have hget : (front ++ t :: r)[front.length]? = some t := by simp
      obtain ⟨ixr, rel, h1, h2, h3, h4⟩ := sim_tree only tags t (front ++ t :: r) front.length pre path ix addr hget hwf hs h
      exact ⟨front.length, ixr, rel, h1, h2, h3, h4⟩
    · have e : front ++ t :: r = (front ++ [t]) ++ r := by simp
      have el : front.length + 1 = (front ++ [t]).length := by simp
      rw [e] at hwf hs ⊢
      rw [el] at h
      exact sim_list only tags r (front ++ [t]) pre path ix addr hwf hs h
theorem sim_tree (only : Bool) (tags : Bytes) : ∀ (t : STree) (tab : List STree) (n : Nat) (pre : Bytes)
    (path ix : List Nat) (addr : Bytes), tab[n]? = some t → wfList tab = true →
    (only = true → SiblingsApart tab) → (ix, addr) ∈ enumTree pre (path ++ [n]) t →
    ∃ ixr rel, ix = path ++ n :: ixr ∧ addr = pre ++ rel ∧ NulFree rel ∧
      Reaches only tags path (n :: ixr) tab rel
  | .leaf w md, tab, n, pre, path, ix, addr, ht, hwf, hs, h => by
    simp only [enumTree, List.mem_map, Prod.mk.injEq] at h
    obtain ⟨a, ha, h1, h2⟩ := h
    have hok : w.ok = true := wf_name_ok (t := .leaf w md) (wfList_get hwf ht)
    obtain ⟨hhead, hparts, _⟩ := WName.ok_spec hok
    have hnul : NulFree (w.head ++ a ++ slashIf w.slash) :=
      NulFree.append (NulFree.append (textOk_nulfree hhead) (expandParts_nulfree w.parts hparts a ha)) (nulFree_slashIf _)
    refine ⟨[], w.head ++ a ++ slashIf w.slash, by simp [← h1], by simp [← h2], hnul, ?_⟩
    have hg : greedy w.toPat.segs w.slash (w.head ++ a ++ slashIf w.slash) = some [] := by
      rw [greedy_own hok ha (startsWithDigit_slashIf _)]
      cases hsl : w.slash <;> simp [greedy, slashIf]
    have hadm : admittedAlong tags [n] tab = tagsAdmitted w.types tags := by
      simp [admittedAlong, typesAlong, ht]
    have hst : simTree path n (.leaf w md) (w.head ++ a ++ slashIf w.slash) tags =
        if tagsAdmitted w.types tags then [path ++ [n]] else [] := by
      simp only [simTree, matchW_types hok hg]
      cases tagsAdmitted w.types tags <;> simp
    constructor
    · intro hadm'
      rw [hadm] at hadm'
      rw [mem_simList]
      exact ⟨n, _, ht, by rw [Nat.zero_add, hst, hadm']; simp⟩
    · intro ho
      have hsp := spells_name w hok a (slashIf w.slash) ha (startsWithDigit_slashIf _)
      have hspec : PathSpec (STree.leaf w md).name.toPat (w.head ++ a ++ slashIf w.slash) := by
        refine ⟨slashIf w.slash, hsp, ?_⟩
        cases hsl : w.slash <;> simp [WName.toPat, STree.name, hsl, slashIf]
      rw [simList_single path _ tags tab 0 n _ ht (sim_other path tags tab n _ _ ht (hs ho) hspec),
        Nat.zero_add, hst, hadm]
  | .sub w md kids, tab, n, pre, path, ix, addr, ht, hwf, hs, h => by
    have hwft := wfList_get hwf ht
    have hok : w.ok = true := wf_name_ok (t := .sub w md kids) hwft
    simp only [STree.wf, Bool.and_eq_true] at hwft
    obtain ⟨_, _, hslash, _⟩ := WName.subOk_spec hwft.1
    simp only [enumTree, List.mem_flatMap] at h
    obtain ⟨a, ha, h⟩ := h
    have hs' : only = true → SiblingsApart ([] ++ kids) := by
      intro ho
      simpa using kidsApart_get (siblingsApart_spec (hs ho)).2 ht
    obtain ⟨m, ixr, rel', h1, h2, hnul', h3⟩ := sim_list only tags kids [] (pre ++ w.head ++ a ++ [47]) (path ++ [n]) ix addr
      (by simpa using hwft.2) hs' (by simpa using h)
    obtain ⟨hhead, hparts, _⟩ := WName.ok_spec hok
    have hnul : NulFree (w.head ++ a ++ 47 :: rel') := by
      have e : w.head ++ a ++ 47 :: rel' = (w.head ++ a ++ [47]) ++ rel' := by simp
      rw [e]
      exact NulFree.append (NulFree.append (NulFree.append (textOk_nulfree hhead)
        (expandParts_nulfree w.parts hparts a ha)) nulFree_slash) hnul'
    refine ⟨m :: ixr, w.head ++ a ++ 47 :: rel', by simp [h1], by simp [h2], hnul, ?_⟩
    have hg : greedy w.toPat.segs w.slash (w.head ++ a ++ 47 :: rel') = some rel' := by
      rw [greedy_own hok ha (startsWithDigit_slash rel')]
      simp [greedy, hslash]
    have hadm : admittedAlong tags (n :: m :: ixr) tab =
        (tagsAdmitted w.types tags && admittedAlong tags (m :: ixr) kids) := by
      simp [admittedAlong, typesAlong, ht]
    have hst : simTree path n (.sub w md kids) (w.head ++ a ++ 47 :: rel') tags =
        if tagsAdmitted w.types tags then simList (path ++ [n]) kids 0 rel' tags else [] := by
      simp only [simTree, matchW_types hok hg]
      cases tagsAdmitted w.types tags <;> simp
    simp only [List.nil_append] at h3
    have epath : path ++ n :: m :: ixr = path ++ [n] ++ m :: ixr := by simp
    constructor
    · intro hadm'
      rw [hadm, Bool.and_eq_true] at hadm'
      rw [mem_simList]
      refine ⟨n, _, ht, ?_⟩
      rw [Nat.zero_add, hst, hadm'.1, epath]
      exact h3.1 hadm'.2
    · intro ho
      have hsp := spells_name w hok a (47 :: rel') ha (startsWithDigit_slash rel')
      have hspec : PathSpec (STree.sub w md kids).name.toPat (w.head ++ a ++ 47 :: rel') :=
        ⟨47 :: rel', hsp, by simp [WName.toPat, STree.name, hslash]⟩
      rw [simList_single path _ tags tab 0 n _ ht (sim_other path tags tab n _ _ ht (hs ho) hspec),
        Nat.zero_add, hst, hadm, h3.2 ho, epath]
      cases tagsAdmitted w.types tags <;> cases admittedAlong tags (m :: ixr) kids <;> simp
end

/-! ### trees whose sub-tree ports declare no argument types -/

theorem subsUntypedList_get {ts : List STree} (h : subsUntypedList ts = true) {n : Nat} {t : STree}
    (ht : ts[n]? = some t) : t.subsUntyped = true := by
  induction ts generalizing n with
  | nil => simp at ht
  | cons u r ih =>
    simp only [subsUntypedList, Bool.and_eq_true] at h
    cases n with
    | zero => simp at ht; subst ht; exact h.1
    | succ n => simp at ht; exact ih h.2 ht

/-- a reported pair ends at a leaf; without typed sub-tree ports only its type part matters -/
def EndsAtLeaf (tags : Bytes) (ixr : List Nat) (tab : List STree) : Prop :=
  ∃ w, leafAt ixr tab = some w ∧
    (subsUntypedList tab = true → admittedAlong tags ixr tab = tagsAdmitted w.types tags)

mutual
theorem leaf_list (tags : Bytes) : ∀ (ts front : List STree) (pre : Bytes) (path ix : List Nat) (addr : Bytes),
    (ix, addr) ∈ enumList pre path ts front.length →
    ∃ n ixr, ix = path ++ n :: ixr ∧ EndsAtLeaf tags (n :: ixr) (front ++ ts)
  | [], _, _, _, _, _, h => by simp [enumList] at h
  | t :: r, front, pre, path, ix, addr, h => by
    simp only [enumList, List.mem_append] at h
    rcases h with h | h
    · have hget : (front ++ t :: r)[front.length]? = some t := by simp
      obtain ⟨ixr, h1, h2⟩ := leaf_tree tags t (front ++ t :: r) front.length pre path ix addr hget h
      exact ⟨front.length, ixr, h1, h2⟩
    · have e : front ++ t :: r = (front ++ [t]) ++ r := by simp
      have el : front.length + 1 = (front ++ [t]).length := by simp
      rw [e]
      rw [el] at h
      exact leaf_list tags r (front ++ [t]) pre path ix addr h
theorem leaf_tree (tags : Bytes) : ∀ (t : STree) (tab : List STree) (n : Nat) (pre : Bytes) (path ix : List Nat)
    (addr : Bytes), tab[n]? = some t → (ix, addr) ∈ enumTree pre (path ++ [n]) t →
    ∃ ixr, ix = path ++ n :: ixr ∧ EndsAtLeaf tags (n :: ixr) tab
  | .leaf w md, tab, n, pre, path, ix, addr, ht, h => by
    simp only [enumTree, List.mem_map, Prod.mk.injEq] at h
    obtain ⟨a, _, h1, _⟩ := h
    exact ⟨[], by simp [← h1], w, by simp [leafAt, ht], by intro _; simp [admittedAlong, typesAlong, ht]⟩
  | .sub w md kids, tab, n, pre, path, ix, addr, ht, h => by
    simp only [enumTree, List.mem_flatMap] at h
    obtain ⟨a, _, h⟩ := h
    obtain ⟨m, ixr, h1, v, h2, h3⟩ := leaf_list tags kids [] (pre ++ w.head ++ a ++ [47]) (path ++ [n]) ix addr
      (by simpa using h)
    simp only [List.nil_append] at h2 h3
    have hl : leafAt (n :: m :: ixr) tab = leafAt (m :: ixr) kids := by
      rw [leafAt]; simp only [ht]
    refine ⟨m :: ixr, by simp [h1], v, by rw [hl, h2], ?_⟩
    intro hu
    have := subsUntypedList_get hu ht
    simp only [STree.subsUntyped, Bool.and_eq_true, Option.isNone_iff_eq_none] at this
    simp only [admittedAlong, typesAlong, ht, List.all_cons, this.1, tagsAdmitted, Bool.true_and]
    exact h3 this.2
end

/-! ### a decidable criterion for `SiblingsApart` -/

theorem headsApart_comm (w v : WName) : headsApart w v = headsApart v w := by
  simp only [headsApart, Bool.and_comm]

theorem pairwiseHeads_lt : ∀ {ts : List STree}, pairwiseHeads ts = true → ∀ (i j : Nat) (t u : STree), i < j →
    ts[i]? = some t → ts[j]? = some u → headsApart t.name u.name = true := by
  intro ts
  induction ts with
  | nil => intro _ i j t u _ h; simp at h
  | cons x r ih =>
    intro h i j t u hij hi hj
    simp only [pairwiseHeads, Bool.and_eq_true, List.all_eq_true] at h
    cases j with
    | zero => omega
    | succ j =>
      simp only [List.getElem?_cons_succ] at hj
      cases i with
      | zero =>
        simp at hi; subst hi
        exact h.1 u (List.mem_of_getElem? hj)
      | succ i =>
        simp only [List.getElem?_cons_succ] at hi
        exact ih h.2 i j t u (by omega) hi hj

theorem pairwiseHeads_apart {ts : List STree} (h : pairwiseHeads ts = true) (i j : Nat) (t u : STree) (hij : i ≠ j)
    (hi : ts[i]? = some t) (hj : ts[j]? = some u) : Apart t.name u.name := by
  rcases Nat.lt_or_gt_of_ne hij with hlt | hlt
  · exact apart_of_heads (pairwiseHeads_lt h i j t u hlt hi hj)
  · have := pairwiseHeads_lt h j i u t hlt hj hi
    rw [headsApart_comm] at this
    exact apart_of_heads this

mutual
theorem siblingsApart_of_heads : ∀ (ts : List STree), pairwiseHeads ts = true → headsOkList ts = true →
    SiblingsApart ts
  | ts, hp, hk => by
    unfold SiblingsApart
    exact ⟨fun i j t u hij hi hj => pairwiseHeads_apart hp i j t u hij hi hj, kidsApart_of_heads ts hk⟩
theorem kidsApart_of_heads : ∀ (ts : List STree), headsOkList ts = true → kidsApart ts
  | [], _ => by simp [kidsApart]
  | .leaf w md :: r, h => by
    simp only [headsOkList, Bool.and_eq_true] at h
    simp only [kidsApart]
    exact kidsApart_of_heads r h.2
  | .sub w md kids :: r, h => by
    simp only [headsOkList, STree.headsOk, Bool.and_eq_true] at h
    simp only [kidsApart]
    exact ⟨siblingsApart_of_heads kids h.1.1 h.1.2, kidsApart_of_heads r h.2⟩
end

theorem headsApart_siblingsApart {ts : List STree} (h : HeadsApart ts) : SiblingsApart ts := by
  simp only [HeadsApart, Bool.and_eq_true] at h
  exact siblingsApart_of_heads ts h.1 h.2

/-! ### `dispatchSim` -/

/-- the message the harness builds, behind its leading '/' -/
theorem zeroMsg_shape (rel tags : Bytes) :
    ∃ k rest, zeroMsg (47 :: rel) tags = 47 :: (rel ++ 0 :: tailOf k tags rest) := by
  obtain ⟨k1, h1⟩ := pad4_eq (47 :: rel)
  obtain ⟨k2, h2⟩ := pad4_eq (44 :: tags)
  exact ⟨k1, List.replicate k2 0 ++ List.replicate ((tags.map Match.zeroArgSize).sum) 0, by
    simp [zeroMsg, mkMsg, h1, h2, tailOf]⟩

theorem dispatchSim_eq (ts : List STree) (hwf : TreeWF ts) (hn : LeavesNamed ts) (rel tags : Bytes)
    (hrel : NulFree rel) (hb : IdxBounded rel) (ht : NulFree tags) :
    dispatchSim (toPorts ts) (47 :: rel) tags = some (simList [] ts 0 rel tags) := by
  obtain ⟨k, rest, h⟩ := zeroMsg_shape rel tags
  simp only [dispatchSim, h]
  exact dispList_sim ts [] 0 rel k tags rest hwf hn hrel hb ht

/-- **the dispatch model on the address of a reported pair** -/
theorem dispatchSim_reported (only : Bool) (ts : List STree) (hwf : TreeWF ts) (hn : LeavesNamed ts)
    (hs : only = true → SiblingsApart ts) (pre : Bytes) (ix : List Nat) (addr : Bytes)
    (h : (ix, addr) ∈ enumerate ts pre) (tags : Bytes) (ht : NulFree tags) :
    ∃ rel, addr = pre ++ rel ∧ NulFree rel ∧
      (IdxBounded rel → ∃ l, dispatchSim (toPorts ts) (47 :: rel) tags = some l ∧
        (admittedAlong tags ix ts = true → ix ∈ l) ∧
        (only = true → l = if admittedAlong tags ix ts then [ix] else [])) := by
  obtain ⟨n, ixr, rel, h1, h2, h3, h4⟩ := sim_list only tags ts [] pre [] ix addr
    (by simpa [TreeWF] using hwf) (by intro ho; simpa using hs ho) (by simpa [enumerate] using h)
  refine ⟨rel, h2, h3, ?_⟩
  intro hb
  simp only [List.nil_append] at h1 h4
  refine ⟨_, dispatchSim_eq ts hwf hn rel tags h3 hb ht, ?_, ?_⟩
  · rw [h1]; exact h4.1
  · rw [h1]; exact h4.2

/-- … in a tree whose sub-tree ports declare no argument types: the reported leaf's type part
    decides -/
theorem dispatchSim_reported_leaf (ts : List STree) (hu : SubsUntyped ts) (pre : Bytes) (ix : List Nat)
    (addr : Bytes) (h : (ix, addr) ∈ enumerate ts pre) (tags : Bytes) :
    ∃ w, leafAt ix ts = some w ∧ admittedAlong tags ix ts = tagsAdmitted w.types tags := by
  obtain ⟨n, ixr, h1, w, h2, h3⟩ := leaf_list tags ts [] pre [] ix addr (by simpa [enumerate] using h)
  simp only [List.nil_append] at h1 h2 h3
  subst h1
  exact ⟨w, h2, h3 hu⟩

end Rtosc.Walk
