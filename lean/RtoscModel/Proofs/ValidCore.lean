/-
  C07 helper lemmas, part 1: the model of `rtosc_message_length` / `rtosc_valid_message_p`
  (`Osc/Valid.lean`: fuel, `unsigned` wrap-around, every read explicit) run on a block of exactly
  `len` bytes, `len < 2^31`, equals closed forms without fuel, wrap-around or failing reads:
  `scanZ`, `nullWordZ`, `walk`, `msgLenZ`, `validZ`.  Property theorems are in Props/C07.lean.
-/
import RtoscModel.Osc.Valid
import RtoscModel.Proofs.OscRead
namespace Rtosc.Osc.V
open Rtosc Rtosc.Osc

@[simp] theorem Res.ok_bind {α β : Type} (a : α) (f : α → Res β) : (Res.ok a).bind f = f a := rfl

/-- the byte at `i`, 0 behind the end: what `deref` yields on an exact-size block -/
def dz (bs : Bytes) (i : Nat) : UInt8 := bs[i]?.getD 0

theorem dz_of_lt {bs : Bytes} {i : Nat} (h : i < bs.length) : dz bs i = bs[i] := by
  simp [dz, List.getElem?_eq_getElem h]

theorem dz_of_ge {bs : Bytes} {i : Nat} (h : bs.length ≤ i) : dz bs i = 0 := by
  simp [dz, List.getElem?_eq_none h]

theorem lt_of_dz_ne {bs : Bytes} {i : Nat} (h : dz bs i ≠ 0) : i < bs.length := by
  apply Classical.byContradiction; intro hn
  exact h (dz_of_ge (Nat.le_of_not_lt hn))

theorem deref_eq (mem : Bytes) (pos : Nat) : deref mem mem.length pos = .ok (dz mem pos) := by
  unfold deref rd
  split
  · rename_i h; simp [dz, List.getElem?_eq_getElem h]
  · rename_i h; rw [dz_of_ge (Nat.le_of_not_lt h)]

/-! ### scanning for a NUL -/

/-- first position `≥ pos` whose byte is 0 (the end of the block counts as 0) -/
def scanZ (bs : Bytes) (pos : Nat) : Nat := pos + ((bs.drop pos).takeWhile (· ≠ 0)).length

theorem drop_eq_cons {bs : Bytes} {i : Nat} (h : i < bs.length) : bs.drop i = bs[i] :: bs.drop (i + 1) :=
  List.drop_eq_getElem_cons h

theorem tw_nz_cons {c : UInt8} (l : Bytes) (h : c ≠ 0) :
    (c :: l).takeWhile (· ≠ 0) = c :: l.takeWhile (· ≠ 0) := by
  simp [List.takeWhile_cons, h]

theorem tw_nz_zero (l : Bytes) : ((0 : UInt8) :: l).takeWhile (· ≠ 0) = [] := by
  simp [List.takeWhile_cons]

theorem scanZ_stop {bs : Bytes} {pos : Nat} (h : dz bs pos = 0) : scanZ bs pos = pos := by
  unfold scanZ
  by_cases hl : pos < bs.length
  · rw [drop_eq_cons hl]; rw [dz_of_lt hl] at h; rw [h, tw_nz_zero]; rfl
  · rw [List.drop_eq_nil_of_le (Nat.le_of_not_lt hl)]; rfl

theorem scanZ_step {bs : Bytes} {pos : Nat} (h : dz bs pos ≠ 0) : scanZ bs pos = scanZ bs (pos + 1) := by
  have hl := lt_of_dz_ne h
  unfold scanZ
  rw [drop_eq_cons hl]; rw [dz_of_lt hl] at h
  rw [tw_nz_cons _ h, List.length_cons]; omega

theorem scanZ_ge (bs : Bytes) (pos : Nat) : pos ≤ scanZ bs pos := by unfold scanZ; omega

theorem scanZ_le (bs : Bytes) (pos : Nat) (h : pos ≤ bs.length) : scanZ bs pos ≤ bs.length := by
  unfold scanZ
  have := (List.takeWhile_sublist (l := bs.drop pos) (fun b : UInt8 => decide (b ≠ 0))).length_le
  simp only [List.length_drop] at this
  omega

theorem scanZ_of_ge (bs : Bytes) (pos : Nat) (h : bs.length ≤ pos) : scanZ bs pos = pos :=
  scanZ_stop (dz_of_ge h)

theorem scan_eq (mem : Bytes) (h31 : mem.length < 2147483648) : ∀ (f pos : Nat),
    1 ≤ f → mem.length + 1 ≤ f + pos → pos ≤ mem.length + 16 →
    scan mem mem.length f pos = .ok (scanZ mem pos) := by
  intro f
  induction f with
  | zero => intro pos h; omega
  | succ f ih =>
    intro pos _ hf hp
    simp only [scan, deref_eq, Res.ok_bind]
    by_cases hc : dz mem pos = 0
    · simp [hc, scanZ_stop hc]
    · have hl := lt_of_dz_ne hc
      simp only [hc, if_false]
      rw [u32_id (by omega), scanZ_step hc]
      exact ih (pos + 1) (by omega) (by omega) (by omega)

/-- the byte at `scanZ` is 0 -/
theorem dz_scanZ (bs : Bytes) : ∀ (k pos : Nat), bs.length ≤ pos + k → dz bs (scanZ bs pos) = 0 := by
  intro k
  induction k with
  | zero => intro pos h; rw [scanZ_of_ge bs pos (by omega)]; exact dz_of_ge (by omega)
  | succ k ih =>
    intro pos h
    by_cases hc : dz bs pos = 0
    · rw [scanZ_stop hc]; exact hc
    · rw [scanZ_step hc]; exact ih (pos + 1) (by omega)

theorem dz_scanZ' (bs : Bytes) (pos : Nat) : dz bs (scanZ bs pos) = 0 := dz_scanZ bs bs.length pos (by omega)

/-- no byte before `scanZ` is 0 -/
theorem dz_before_scanZ (bs : Bytes) : ∀ (k pos i : Nat), bs.length ≤ pos + k → pos ≤ i → i < scanZ bs pos →
    dz bs i ≠ 0 := by
  intro k
  induction k with
  | zero =>
    intro pos i h h1 h2; rw [scanZ_of_ge bs pos (by omega)] at h2; omega
  | succ k ih =>
    intro pos i h h1 h2
    by_cases hc : dz bs pos = 0
    · rw [scanZ_stop hc] at h2; omega
    · rw [scanZ_step hc] at h2
      by_cases hi : i = pos
      · rw [hi]; exact hc
      · exact ih (pos + 1) i (by omega) (by omega) h2

/-! ### the null word behind the path -/

def nullWordZ (bs : Bytes) : Nat → Nat → Nat
  | 0, pos => pos
  | k + 1, pos => if dz bs (pos + 1) ≠ 0 then pos + 1 else nullWordZ bs k (pos + 1)

theorem nullWord_eq (mem : Bytes) : ∀ (k pos : Nat), pos + k < 4294967296 →
    nullWord mem mem.length k pos = .ok (nullWordZ mem k pos) := by
  intro k
  induction k with
  | zero => intro pos _; rfl
  | succ k ih =>
    intro pos h
    simp only [nullWord, nullWordZ, deref_eq, Res.ok_bind]
    rw [u32_id (by omega)]
    by_cases hc : dz mem (pos + 1) = 0
    · simp only [hc, ne_eq, not_true_eq_false, if_false]; exact ih (pos + 1) (by omega)
    · simp [hc]

/-! ### the type tags -/

theorem tagsFrom_eq (mem : Bytes) (h31 : mem.length < 2147483648) : ∀ (f p : Nat),
    1 ≤ f → mem.length + 1 ≤ f + p → p ≤ mem.length + 16 →
    tagsFrom mem mem.length f p = .ok ((mem.drop p).takeWhile (· ≠ 0)) := by
  intro f
  induction f with
  | zero => intro p h; omega
  | succ f ih =>
    intro p _ hf hp
    simp only [tagsFrom, deref_eq, Res.ok_bind]
    by_cases hc : dz mem p = 0
    · simp only [hc, if_true]
      by_cases hl : p < mem.length
      · rw [drop_eq_cons hl]; rw [dz_of_lt hl] at hc; rw [hc, tw_nz_zero]
      · rw [List.drop_eq_nil_of_le (Nat.le_of_not_lt hl)]; rfl
    · have hl := lt_of_dz_ne hc
      simp only [hc, if_false]
      rw [u32_id (by omega), ih (p + 1) (by omega) (by omega) (by omega)]
      rw [drop_eq_cons hl, dz_of_lt hl]; rw [dz_of_lt hl] at hc
      rw [tw_nz_cons _ hc]; rfl

/-- four bytes at `pos`, big-endian, 0 behind the end -/
def rdz (bs : Bytes) (pos : Nat) : UInt32 :=
  get32 (dz bs pos) (dz bs (pos + 1)) (dz bs (pos + 2)) (dz bs (pos + 3))

theorem rd32_eq (mem : Bytes) (pos : Nat) (h : pos + 3 < 4294967296) :
    rd32 mem mem.length pos = .ok (rdz mem pos) := by
  simp only [rd32, deref_eq, Res.ok_bind, rdz]
  rw [u32_id (by omega), u32_id (by omega), u32_id (by omega)]

/-! ### the argument walk -/

/-- the `while(toparse)` loop without fuel and wrap-around; `none` = `return 0` -/
def walk (bs : Bytes) (al : Nat) : Bytes → Nat → Option Nat
  | [], pos => some pos
  | t :: ts, pos =>
    if nreserved (t :: ts) = 0 then some pos
    else if pos > bs.length then none
    else if t = 104 ∨ t = 116 ∨ t = 100 then walk bs al ts (pos + 8)
    else if t = 109 ∨ t = 114 ∨ t = 99 ∨ t = 102 ∨ t = 105 then walk bs al ts (pos + 4)
    else if t = 83 ∨ t = 115 then
      walk bs al ts (scanZ bs pos + (4 - (scanZ bs pos - al) % 4))
    else if t = 98 then
      if pos + 4 > bs.length ∨ (rdz bs pos).toNat > bs.length - (pos + 4) then none
      else
        let q := pos + 4 + (rdz bs pos).toNat
        walk bs al ts (if (q - al) % 4 ≠ 0 then q + (4 - (q - al) % 4) else q)
    else walk bs al ts pos

theorem usub_eq' {a b : Nat} (hb : b ≤ a) (ha : a < 4294967296) : usub a b = a - b := by
  unfold usub
  have : b % 4294967296 = b := Nat.mod_eq_of_lt (by omega)
  rw [this]; omega

theorem nreserved_cons_payload {t : UInt8} {ts : Bytes} (h : hasReserved t = true) :
    nreserved (t :: ts) = nreserved ts + 1 := by simp [nreserved, h]; omega

theorem nreserved_cons_free {t : UInt8} {ts : Bytes} (h : hasReserved t = false) :
    nreserved (t :: ts) = nreserved ts := by simp [nreserved, h]

theorem lenLoop_eq (mem : Bytes) (al : Nat) (h31 : mem.length < 2147483648) : ∀ (tags : Bytes) (pos : Nat),
    al ≤ pos → pos ≤ mem.length + 8 →
    lenLoop mem mem.length al (nreserved tags) tags pos = .ok (walk mem al tags pos) := by
  intro tags
  induction tags with
  | nil => intro pos _ _; simp [nreserved, lenLoop, walk]
  | cons t ts ih =>
    intro pos hal hpos
    by_cases h0 : nreserved (t :: ts) = 0
    · rw [h0]; simp [lenLoop, walk, h0]
    · obtain ⟨tp, htp⟩ : ∃ tp, nreserved (t :: ts) = tp + 1 := ⟨nreserved (t :: ts) - 1, by omega⟩
      rw [htp]
      unfold walk
      simp only [h0, if_false]
      unfold lenLoop
      by_cases hgt : pos > mem.length
      · simp [hgt]
      · simp only [hgt, if_false]
        by_cases h64 : t = 104 ∨ t = 116 ∨ t = 100
        · have hr : hasReserved t = true := by rcases h64 with rfl | rfl | rfl <;> decide
          have : tp = nreserved ts := by rw [nreserved_cons_payload hr] at htp; omega
          simp only [h64, if_true]
          rw [u32_id (by omega), this]; exact ih (pos + 8) (by omega) (by omega)
        · simp only [h64, if_false]
          by_cases h32 : t = 109 ∨ t = 114 ∨ t = 99 ∨ t = 102 ∨ t = 105
          · have hr : hasReserved t = true := by rcases h32 with rfl | rfl | rfl | rfl | rfl <;> decide
            have : tp = nreserved ts := by rw [nreserved_cons_payload hr] at htp; omega
            simp only [h32, if_true]
            rw [u32_id (by omega), this]; exact ih (pos + 4) (by omega) (by omega)
          · simp only [h32, if_false]
            by_cases hs : t = 83 ∨ t = 115
            · have hr : hasReserved t = true := by rcases hs with rfl | rfl <;> decide
              have : tp = nreserved ts := by rw [nreserved_cons_payload hr] at htp; omega
              simp only [hs, if_true]
              rw [scan_eq mem h31 (fuel mem.length) pos (by simp [fuel]) (by simp [fuel]; omega) (by omega)]
              simp only [Res.ok_bind]
              have h1 := scanZ_ge mem pos
              have h2 := scanZ_le mem pos (by omega)
              rw [usub_eq' (by omega) (by omega), u32_id (by omega), this]
              exact ih _ (by omega) (by omega)
            · simp only [hs, if_false]
              by_cases hb : t = 98
              · have hr : hasReserved t = true := by rw [hb]; decide
                have : tp = nreserved ts := by rw [nreserved_cons_payload hr] at htp; omega
                simp only [hb, if_true]
                rw [rd32_eq mem pos (by omega)]
                simp only [Res.ok_bind]
                rw [u32_id (by omega : pos + 4 < 4294967296)]
                by_cases hfit : pos + 4 > mem.length ∨ (rdz mem pos).toNat > mem.length - (pos + 4)
                · simp [hfit]
                · simp only [hfit, if_false]
                  have hq : pos + 4 + (rdz mem pos).toNat ≤ mem.length := by omega
                  rw [u32_id (by omega : pos + 4 + (rdz mem pos).toNat < 4294967296)]
                  rw [usub_eq' (by omega) (by omega), this]
                  by_cases hm : (pos + 4 + (rdz mem pos).toNat - al) % 4 ≠ 0
                  · rw [if_pos hm, if_pos hm, u32_id (by omega)]
                    exact ih _ (by omega) (by omega)
                  · rw [if_neg hm, if_neg hm]
                    exact ih _ (by omega) (by omega)
              · simp only [hb, if_false]
                have hr : hasReserved t = false := by
                  simp only [not_or] at h64 h32 hs
                  simp [hasReserved, h64, h32, hs, hb]
                have : tp + 1 = nreserved ts := by rw [nreserved_cons_free hr] at htp; omega
                rw [this]; exact ih pos hal hpos

/-- the walk never moves backwards -/
theorem walk_ge (bs : Bytes) (al : Nat) : ∀ (tags : Bytes) (pos r : Nat), walk bs al tags pos = some r → pos ≤ r := by
  intro tags
  induction tags with
  | nil => intro pos r h; simp [walk] at h; omega
  | cons t ts ih =>
    intro pos r h
    unfold walk at h
    split at h
    · simp at h; omega
    · split at h
      · simp at h
      · split at h
        · have := ih _ _ h; omega
        · split at h
          · have := ih _ _ h; omega
          · split at h
            · have := ih _ _ h; have := scanZ_ge bs pos; omega
            · split at h
              · split at h
                · simp at h
                · have := ih _ _ h
                  split at this <;> omega
              · exact ih _ _ h

/-! ### bundles: terminates, reads nothing outside, result inside -/

theorem bundleLoop_ok (mem : Bytes) (h31 : mem.length < 2147483648) : ∀ (f pos : Nat),
    1 ≤ f → mem.length + 2 ≤ f + pos → pos ≤ mem.length + 16 →
    ∃ r, bundleLoop mem mem.length f pos = .ok r ∧ ∀ p, r = some p → p ≤ mem.length := by
  intro f
  induction f with
  | zero => intro pos h; omega
  | succ f ih =>
    intro pos _ hf hp
    unfold bundleLoop
    by_cases hgt : pos > mem.length
    · exact ⟨none, by simp [hgt], by simp⟩
    · simp only [hgt, if_false]
      rw [rd32_eq mem pos (by omega)]
      simp only [Res.ok_bind]
      by_cases hfit : (rdz mem pos).toNat > mem.length - pos
      · exact ⟨none, by simp [hfit], by simp⟩
      · -- the guard of fix C06-bundle-length-wrap cannot fire below 2^31
        have hnw : ¬ ((rdz mem pos).toNat ≠ 0 ∧ pos + 4 + (rdz mem pos).toNat > 4294967295) := by omega
        simp only [hfit, hnw, or_self, if_false]
        by_cases ha : (rdz mem pos).toNat ≠ 0
        · rw [if_pos ha]
          rw [u32_id (by omega : 4 + (rdz mem pos).toNat < 4294967296), u32_id (by omega)]
          exact ih _ (by omega) (by omega) (by omega)
        · rw [if_neg ha]
          exact ⟨some pos, rfl, by intro p hp'; cases hp'; omega⟩

theorem bundleRingLength_ok (mem : Bytes) (h31 : mem.length < 2147483648) :
    ∃ v, bundleRingLength mem mem.length = .ok v ∧ (v = 0 ∨ v ≤ mem.length) := by
  obtain ⟨r, hr, hle⟩ := bundleLoop_ok mem h31 (fuel mem.length) 16 (by simp [fuel]) (by simp [fuel]) (by omega)
  unfold bundleRingLength
  rw [hr]; simp only [Res.ok_bind]
  cases r with
  | none => exact ⟨0, rfl, Or.inl rfl⟩
  | some p =>
    refine ⟨_, rfl, ?_⟩
    split
    · right; assumption
    · left; rfl

/-- the first bytes are `#bundle\0` -/
def isBundleZ (bs : Bytes) : Nat → Bytes → Bool
  | _, [] => true
  | p, c :: cs => if dz bs p = c then isBundleZ bs (p + 1) cs else false

theorem isBundle_eq (mem : Bytes) : ∀ (cs : Bytes) (p : Nat),
    isBundle mem mem.length p cs = .ok (isBundleZ mem p cs) := by
  intro cs
  induction cs with
  | nil => intro p; rfl
  | cons c cs ih =>
    intro p
    simp only [isBundle, isBundleZ, deref_eq, Res.ok_bind]
    split
    · exact ih (p + 1)
    · rfl

/-! ### rtosc_message_length of a message (not a bundle) -/

/-- position of the ',' candidate: behind the path and its null word -/
def commaOf (bs : Bytes) : Nat := nullWordZ bs 4 (scanZ bs 0)
/-- the type tags -/
def tagsOf (bs : Bytes) : Bytes := (bs.drop (commaOf bs + 1)).takeWhile (· ≠ 0)
/-- position of the first argument -/
def argsOf (bs : Bytes) : Nat :=
  scanZ bs (commaOf bs + 1) + (4 - (scanZ bs (commaOf bs + 1) - commaOf bs) % 4)

def msgLenZ (bs : Bytes) : Nat :=
  if dz bs (commaOf bs) ≠ 44 then 0
  else
    match walk bs (commaOf bs) (tagsOf bs) (argsOf bs) with
    | none => 0
    | some r => if r ≤ bs.length then r else 0

theorem msgLenZ_le (bs : Bytes) : msgLenZ bs = 0 ∨ msgLenZ bs ≤ bs.length := by
  unfold msgLenZ
  split
  · left; rfl
  · split
    · left; rfl
    · split
      · right; assumption
      · left; rfl

theorem nullWordZ_bounds (bs : Bytes) : ∀ (k pos : Nat), pos ≤ nullWordZ bs k pos ∧ nullWordZ bs k pos ≤ pos + k := by
  intro k
  induction k with
  | zero => intro pos; simp [nullWordZ]
  | succ k ih =>
    intro pos
    unfold nullWordZ
    split
    · omega
    · have := ih (pos + 1); omega

theorem ringLength_msg (mem : Bytes) (h31 : mem.length < 2147483648) (hb : isBundleZ mem 0 bundleMagic = false) :
    ringLength mem mem.length = .ok (msgLenZ mem) := by
  unfold ringLength
  rw [isBundle_eq, Res.ok_bind, hb]
  simp only [Bool.false_eq_true, if_false]
  have hp0 := scanZ_le mem 0 (Nat.zero_le _)
  rw [scan_eq mem h31 (fuel mem.length) 0 (by simp [fuel]) (by simp [fuel]) (by omega), Res.ok_bind]
  have hc := nullWordZ_bounds mem 4 (scanZ mem 0)
  rw [nullWord_eq mem 4 (scanZ mem 0) (by omega), Res.ok_bind, deref_eq, Res.ok_bind]
  unfold msgLenZ tagsOf argsOf commaOf
  by_cases h44 : dz mem (nullWordZ mem 4 (scanZ mem 0)) ≠ 44
  · simp [h44]
  · simp only [h44, if_false]
    generalize hcdef : nullWordZ mem 4 (scanZ mem 0) = c at hc h44 ⊢
    rw [u32_id (by omega : c + 1 < 4294967296)]
    rw [scan_eq mem h31 (fuel mem.length) (c + 1) (by simp [fuel]) (by simp [fuel]; omega) (by omega), Res.ok_bind]
    have hz1 := scanZ_ge mem (c + 1)
    have hz2 : scanZ mem (c + 1) ≤ mem.length + 5 := by
      by_cases hl : c + 1 ≤ mem.length
      · have := scanZ_le mem (c + 1) hl; omega
      · rw [scanZ_of_ge mem (c + 1) (by omega)]; omega
    rw [usub_eq' (by omega) (by omega), u32_id (by omega)]
    rw [tagsFrom_eq mem h31 (fuel mem.length) (c + 1) (by simp [fuel]) (by simp [fuel]; omega) (by omega), Res.ok_bind]
    by_cases hfar : scanZ mem (c + 1) + (4 - (scanZ mem (c + 1) - c) % 4) ≤ mem.length + 8
    · rw [lenLoop_eq mem c h31 _ _ (by omega) hfar, Res.ok_bind]
      cases walk mem c (List.takeWhile (fun x => decide (x ≠ 0)) (List.drop (c + 1) mem))
        (scanZ mem (c + 1) + (4 - (scanZ mem (c + 1) - c) % 4)) <;> rfl
    · -- the type string ends behind the block: c + 1 > len, there are no tags
      have hcl : mem.length < c + 1 := by
        apply Classical.byContradiction; intro hn
        have := scanZ_le mem (c + 1) (by omega); omega
      have : List.drop (c + 1) mem = [] := List.drop_eq_nil_of_le (by omega)
      simp only [this, List.takeWhile_nil, nreserved, lenLoop, walk, Res.ok_bind]

theorem messageLength_ok (mem : Bytes) (h31 : mem.length < 2147483648) :
    ∃ v, messageLength mem mem.length = .ok v ∧ (v = 0 ∨ v ≤ mem.length) := by
  unfold messageLength
  cases hb : isBundleZ mem 0 bundleMagic with
  | true =>
    unfold ringLength
    rw [isBundle_eq, Res.ok_bind, hb]
    simp only [if_true]
    exact bundleRingLength_ok mem h31
  | false =>
    exact ⟨_, ringLength_msg mem h31 hb, msgLenZ_le mem⟩

/-! ### rtosc_valid_message_p -/

def printableZ (c : UInt8) : Bool := isprint c

/-- the path loop: offset of the first NUL (or the end), `none` if a byte before it is not printable -/
def pathZ (bs : Bytes) (tmp : Nat) : Option Nat :=
  if ((bs.drop tmp).takeWhile (· ≠ 0)).all isprint then some (scanZ bs tmp) else none

theorem pathZ_stop {bs : Bytes} {tmp : Nat} (h : dz bs tmp = 0) : pathZ bs tmp = some tmp := by
  unfold pathZ
  rw [scanZ_stop h]
  by_cases hl : tmp < bs.length
  · rw [drop_eq_cons hl]; rw [dz_of_lt hl] at h; rw [h, tw_nz_zero]; rfl
  · rw [List.drop_eq_nil_of_le (Nat.le_of_not_lt hl)]; rfl

theorem pathZ_step {bs : Bytes} {tmp : Nat} (h : dz bs tmp ≠ 0) :
    pathZ bs tmp = if isprint (dz bs tmp) then pathZ bs (tmp + 1) else none := by
  have hl := lt_of_dz_ne h
  unfold pathZ
  rw [scanZ_step h, drop_eq_cons hl]
  rw [dz_of_lt hl] at h ⊢
  rw [tw_nz_cons _ h, List.all_cons]
  cases isprint bs[tmp] <;> simp

theorem pathLoop_eq (mem : Bytes) : ∀ (k tmp : Nat), tmp + k = mem.length →
    pathLoop mem k tmp = .ok (pathZ mem tmp) := by
  intro k
  induction k with
  | zero =>
    intro tmp h
    rw [pathZ_stop (dz_of_ge (by omega))]; rfl
  | succ k ih =>
    intro tmp h
    have hl : tmp < mem.length := by omega
    simp only [pathLoop, rd, List.getElem?_eq_getElem hl, Res.ok_bind]
    by_cases hc : mem[tmp] = 0
    · have hd : dz mem tmp = 0 := by rw [dz_of_lt hl]; exact hc
      rw [pathZ_stop hd]; simp [hc]
    · have hd : dz mem tmp ≠ 0 := by rw [dz_of_lt hl]; exact hc
      rw [pathZ_step hd, dz_of_lt hl]
      simp only [hc, if_false]
      by_cases hp : isprint mem[tmp] = true
      · simp only [hp, Bool.not_true, Bool.false_eq_true, if_false, if_true]
        exact ih (tmp + 1) (by omega)
      · simp [hp]

/-- first position `≥ off` that holds a ',' (or the end) -/
def commaZ (bs : Bytes) (off : Nat) : Nat := off + ((bs.drop off).takeWhile (· ≠ 44)).length

theorem commaZ_stop {bs : Bytes} {off : Nat} (h : off < bs.length → bs[off]? = some 44) : commaZ bs off = off := by
  unfold commaZ
  by_cases hl : off < bs.length
  · rw [drop_eq_cons hl]
    have := h hl
    rw [List.getElem?_eq_getElem hl] at this
    simp only [Option.some.injEq] at this
    rw [this]; simp [List.takeWhile_cons]
  · rw [List.drop_eq_nil_of_le (Nat.le_of_not_lt hl)]; rfl

theorem tw44_cons {c : UInt8} (l : Bytes) (h : c ≠ 44) :
    (c :: l).takeWhile (· ≠ 44) = c :: l.takeWhile (· ≠ 44) := by
  simp [List.takeWhile_cons, h]

theorem commaZ_step {bs : Bytes} {off : Nat} (hl : off < bs.length) (h : bs[off] ≠ 44) :
    commaZ bs off = commaZ bs (off + 1) := by
  unfold commaZ
  rw [drop_eq_cons hl, tw44_cons _ h, List.length_cons]; omega

theorem commaLoop_eq (mem : Bytes) : ∀ (k off : Nat), off + k = mem.length →
    commaLoop mem k off = .ok (commaZ mem off) := by
  intro k
  induction k with
  | zero =>
    intro off h
    rw [commaZ_stop (by intro hl; omega)]; rfl
  | succ k ih =>
    intro off h
    have hl : off < mem.length := by omega
    simp only [commaLoop, rd, List.getElem?_eq_getElem hl, Res.ok_bind]
    by_cases hc : mem[off] = 44
    · rw [commaZ_stop (by intro _; rw [List.getElem?_eq_getElem hl, hc])]; simp [hc]
    · simp only [hc, if_false]
      rw [commaZ_step hl hc]
      exact ih (off + 1) (by omega)

def validZ (bs : Bytes) : Bool :=
  if bs.length = 0 then false
  else if dz bs 0 ≠ 47 then false
  else
    match pathZ bs 0 with
    | none => false
    | some o1 =>
      if commaZ bs o1 - o1 > 4 then false
      else if commaZ bs o1 % 4 ≠ 0 then false
      else decide (msgLenZ bs = bs.length)

theorem pathZ_le (bs : Bytes) (o1 : Nat) (h : pathZ bs 0 = some o1) : o1 ≤ bs.length := by
  unfold pathZ at h
  split at h
  · simp at h; rw [← h]; exact scanZ_le bs 0 (Nat.zero_le _)
  · simp at h

theorem not_bundle_of_slash (bs : Bytes) (h : dz bs 0 = 47) : isBundleZ bs 0 bundleMagic = false := by
  simp [isBundleZ, bundleMagic, h]

theorem validMessageP_eq (mem : Bytes) (h31 : mem.length < 2147483648) :
    validMessageP mem mem.length = .ok (validZ mem) := by
  unfold validMessageP validZ
  by_cases h0 : mem.length = 0
  · simp [h0]
  · simp only [h0, if_false]
    have hl : 0 < mem.length := by omega
    have hd0 : dz mem 0 = mem[0] := dz_of_lt hl
    simp only [rd, List.getElem?_eq_getElem hl, Res.ok_bind]
    rw [hd0]
    by_cases h47 : mem[0] ≠ 47
    · simp [h47]
    · simp only [h47, if_false]
      rw [pathLoop_eq mem mem.length 0 (by omega), Res.ok_bind]
      cases hp : pathZ mem 0 with
      | none => rfl
      | some o1 =>
        have ho1 := pathZ_le mem o1 hp
        simp only
        rw [commaLoop_eq mem (mem.length - o1) o1 (by omega), Res.ok_bind]
        split
        · rfl
        · split
          · rfl
          · have hb := not_bundle_of_slash mem (by rw [hd0]; simpa using h47)
            unfold messageLength
            rw [ringLength_msg mem h31 hb, Res.ok_bind]

end Rtosc.Osc.V
