/-
  C08: the recursive decomposition of an encoded packet gives back the packet, for every nesting
  depth — mutual structural induction over `Elem` / `List Elem`.
-/
import RtoscModel.Proofs.BundleRead
namespace Rtosc.Osc
open Rtosc

theorem drop_cons_getElem {α : Type} {l : List α} {k : Nat} {e : α} {r : List α}
    (h : l.drop k = e :: r) : ∃ hk : k < l.length, l[k] = e ∧ l.drop (k + 1) = r := by
  have hk : k < l.length := by
    apply Nat.lt_of_not_le
    intro hle
    rw [List.drop_eq_nil_of_le hle] at h
    cases h
  rw [List.drop_eq_getElem_cons hk] at h
  injection h with h1 h2
  exact ⟨hk, h1, h2⟩

/-- a message is not taken for a bundle (address not starting with '#') -/
theorem bundleP_msg (m : Msg) (rest : Bytes) (hwf : m.WF) (hnb : m.addr.head? ≠ some 35) :
    bundleP (Spec.encode m ++ rest) = some false := by
  unfold bundleP
  obtain ⟨c, s, hcs⟩ : ∃ c s, m.addr = c :: s := by
    cases h' : m.addr with
    | nil => exact absurd h' hwf.addr_ne
    | cons c s => exact ⟨c, s, rfl⟩
  have hc35 : c ≠ 35 := by intro hc; rw [hcs, hc] at hnb; simp at hnb
  rw [encode_layout m rest, hcs, List.cons_append]
  exact magicU_head_ne _ _ hc35

theorem bundleP_bundle (tt : UInt64) (es : List Elem) (rest : Bytes) :
    bundleP (Spec.encodeElem (.bundle tt es) ++ rest) = some true := by
  unfold bundleP
  rw [magicU_eq, List.drop_zero]
  have : Spec.encodeElem (.bundle tt es) ++ rest =
      bundleMagic ++ (be64 tt ++ (Spec.encodeElems es ++ rest)) := by simp [Spec.encodeElem]
  rw [this]; exact magicL_magic _

theorem bundleElements_exact (tt : UInt64) (es : List Elem) (rest : Bytes)
    (hsz : (Spec.encodeElem (.bundle tt es)).length < 4294967296) :
    bundleElements (Spec.encodeElem (.bundle tt es) ++ rest) (Spec.encodeElem (.bundle tt es)).length =
      .ok es.length := by
  have hl := encodeElem_bundle_length tt es
  have hle := elems_length_le es
  unfold bundleElements
  rw [elementsLoop_spec _ es 16 0 _ rest (drop16_bundle tt es rest) (by unfold SmallElems; omega)
    (by omega) (Or.inl (by omega))]
  simp

/-- element `k` of a bundle as the readers deliver it: offset, size, and the memory from there on -/
theorem elem_view (tt : UInt64) (all : List Elem) (rest : Bytes) (k : Nat) (hk : k < all.length)
    (hsz : (Spec.encodeElem (.bundle tt all)).length < 4294967296) :
    bundleFetch (Spec.encodeElem (.bundle tt all) ++ rest) k = some (some (Spec.elemOffset all k)) ∧
    bundleSize (Spec.encodeElem (.bundle tt all) ++ rest) k = some (Spec.encodeElem all[k]).length ∧
    (Spec.encodeElem (.bundle tt all) ++ rest).drop (Spec.elemOffset all k) =
      Spec.encodeElem all[k] ++ (Spec.encodeElems (all.drop (k + 1)) ++ rest) := by
  have hl := encodeElem_bundle_length tt all
  have hle := elems_length_le all
  have hs : SmallElems all := by unfold SmallElems; omega
  have hd := drop16_bundle tt all rest
  refine ⟨?_, ?_, ?_⟩
  · unfold bundleFetch
    rw [fetchLoop_spec all k 16 rest hd hk hs]
    simp only [Spec.elemOffset]; congr 2; omega
  · unfold bundleSize
    rw [u32_id (by omega)]
    exact bsizeLoop_spec all k 16 0 rest hk hd hs
  · have h1 := drop_elem all k 16 rest hk hd
    have h2 := drop_add_of_drop h1
    rw [be32_length] at h2
    have : Spec.elemOffset all k = 16 + Spec.elemRel all k + 4 := by simp only [Spec.elemOffset]; omega
    rw [this, h2]

mutual
theorem decompose_spec : ∀ (e : Elem) (rest : Bytes) (d : Nat), Elem.WF e → Elem.depth e < d →
    decompose d (Spec.encodeElem e ++ rest) (Spec.encodeElem e).length = .ok (Elem.packet e)
  | .msg m, rest, d, hwf, hd => by
    obtain ⟨d', rfl⟩ : ∃ d', d = d' + 1 := ⟨d - 1, by omega⟩
    simp only [Elem.WF] at hwf
    have he : Spec.encodeElem (.msg m) = Spec.encode m := by simp only [Spec.encodeElem]
    rw [he]
    simp only [decompose, bundleP_msg m rest hwf.1 hwf.2, Elem.packet]
    rw [if_pos (by simp), List.take_left]
  | .bundle tt es, rest, d, hwf, hd => by
    obtain ⟨d', rfl⟩ : ∃ d', d = d' + 1 := ⟨d - 1, by omega⟩
    simp only [Elem.WF] at hwf
    simp only [Elem.depth] at hd
    have hel := decompElems_spec es es tt rest 0 d' hwf.1 (by omega) (by simp) hwf.2
    simp only [decompose, bundleP_bundle tt es rest, rd64_of_drop (drop8_bundle tt es rest), bundleTimetag,
      bundleElements_exact tt es rest hwf.2, hel, Elem.packet]
theorem decompElems_spec : ∀ (es all : List Elem) (tt : UInt64) (rest : Bytes) (k d : Nat),
    Elems.WF es → Elems.depth es < d → all.drop k = es →
    (Spec.encodeElem (.bundle tt all)).length < 4294967296 →
    elemsVia (decompose d) (Spec.encodeElem (.bundle tt all) ++ rest) (List.range' k es.length) =
      .ok (Elems.packets es)
  | [], all, tt, rest, k, d, _, _, _, _ => by simp [elemsVia, Elems.packets]
  | e :: es, all, tt, rest, k, d, hwf, hd, hdrop, hsz => by
    obtain ⟨hk, hek, hrest⟩ := drop_cons_getElem hdrop
    simp only [Elems.WF] at hwf
    simp only [Elems.depth] at hd
    obtain ⟨hf, hs, hv⟩ := elem_view tt all rest k hk hsz
    rw [hek] at hs hv
    have h1 := decompose_spec e (Spec.encodeElems (all.drop (k + 1)) ++ rest) d hwf.1 (by omega)
    have h2 := decompElems_spec es all tt rest (k + 1) d hwf.2 (by omega) hrest hsz
    simp only [List.length_cons, List.range'_succ, elemsVia, hf, hs, hv, h1, h2, Elems.packets]
end

end Rtosc.Osc
