/-
  C14 — specification side: what "clamped", "ordered comparison", "the number an address
  names" and "the symbol an option metadata block declares" mean, stated without reference
  to the structure of the callbacks.
-/
import RtoscModel.Param.Port
namespace Rtosc.Param
open Rtosc

/-- The order facts the clamping and change-detection arguments use, for the values in a
    domain `D` (for floats: the non-NaN patterns).  Hypotheses of the theorems, proved for
    the two concrete structures (`intOps_ordered`, `fltOps_ordered`). -/
structure Ordered {α : Type} (N : NumOps α) (D : α → Prop) : Prop where
  lt_trans : ∀ a b c, N.lt a b = true → N.lt b c = true → N.lt a c = true
  lt_irrefl : ∀ a, N.lt a a = false
  ne_iff : ∀ a b, D a → D b → (N.ne a b = true ↔ (N.lt a b = true ∨ N.lt b a = true))

/-- `r` is `v` clamped to the range `[lo, hi]`; an absent bound does not restrict. -/
structure Clamped {α : Type} (N : NumOps α) (lo hi : Option α) (v r : α) : Prop where
  below : ∀ l, lo = some l → N.lt v l = true → r = l
  above : ∀ h, hi = some h → N.lt h v = true → r = h
  inside : (∀ l, lo = some l → N.lt v l = false) → (∀ h, hi = some h → N.lt h v = false) → r = v

/-- the number written by a string of decimal digits (leading zeros allowed) -/
def digitsVal (ds : Bytes) : Nat := ds.foldl (fun acc c => acc * 10 + (c.toNat - 48)) 0

def AllDigits (ds : Bytes) : Prop := ∀ c ∈ ds, isDigit c = true

/-- the events of a callback that are undo events -/
def undoEvents (ev : List Event) : List Event := ev.filter (fun e => e.addr == undoAddr)

/-- "map " -/
def mapPrefix : Bytes := [109, 97, 112, 32]

/-- `ps` declares `sym ↦ k`: the first `map …` entry whose value is `sym` is titled
    `map <k>`; every earlier `map` entry has a different value. -/
structure Declares (ps : List Meta.Pair) (sym : Bytes) (k : Int) : Prop where
  split : ∃ pre num post, ps = pre ++ (mapPrefix ++ num, some sym) :: post ∧ atoi num = some k ∧
    ∀ p ∈ pre, hasMap p.1 = true → ∃ v, p.2 = some v ∧ v ≠ sym

/-! ### decimal literals as metadata bounds of integer ports (finding C14-K1) -/

/-- a decimal literal `[-]ip[.fp]` (`ip`, `fp` digit strings) -/
structure DecLit where
  neg : Bool
  ip : Bytes
  fp : Bytes
deriving Repr, DecidableEq

/-- the text of the literal, as `STRINGIFY` puts it into the metadata -/
def DecLit.bytes (l : DecLit) : Bytes :=
  (if l.neg then [45] else []) ++ (l.ip ++ (if l.fp.isEmpty then [] else 46 :: l.fp))

/-- the literal denotes the rational `num / 10^fp.length` -/
def DecLit.num (l : DecLit) : Int :=
  let n : Int := ((digitsVal l.ip * 10 ^ l.fp.length + digitsVal l.fp : Nat) : Int)
  if l.neg then -n else n

structure DecLit.WF (l : DecLit) : Prop where
  ip_ne : l.ip ≠ []
  ip_digits : AllDigits l.ip
  fp_digits : AllDigits l.fp
  fits : digitsVal l.ip ≤ 2147483647

/-- Trigger of finding C14-K1: converting the literal with `atoi` moves the bound
    *outward* — a positive non-integral minimum or a negative non-integral maximum. -/
def boundTruncatedOutward (isMin : Bool) (l : DecLit) : Bool :=
  decide (digitsVal l.fp ≠ 0) && (if isMin then !l.neg else l.neg)

/-- the bound `m` used by the callback respects the declared literal: it is not below a
    declared minimum / not above a declared maximum -/
def BoundRespects (isMin : Bool) (l : DecLit) (m : Int) : Prop :=
  if isMin then l.num ≤ m * (10 ^ l.fp.length : Nat) else m * (10 ^ l.fp.length : Nat) ≤ l.num

end Rtosc.Param
