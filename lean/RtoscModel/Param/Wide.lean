/-
  C14 — the integer parameter callbacks (rParamCb / rParamICb / the element part of
  rArrayICb, include/rtosc/port-sugar.h) for *every* C integer type a field or the macro's
  `var` can have on an LP64 target: besides `char`, `unsigned char`, `short`, `int` (the
  `IntTy` of Param/Num.lean, which the `param` engine executes and compares with the compiled
  macros) also `unsigned short`, `unsigned`, `long`, `unsigned long`.

  This file is a conservative extension: `intCbW` restricted to the four `IntTy` types *is*
  `intCb` (Proofs/ParamWide.lean, `intCbW_eq_intCb`); it is not linked into the driver and
  nothing of the executable model changes.  What is new for the wide types:
    * `rLIMIT` compares in `decltype(var+0)`: `int` for the types below `int`, the type itself
      for `unsigned`, `long`, `unsigned long` — the declared bound `atoi(…)` is converted to
      that type first (`CTy.prom`), so a negative bound of an unsigned variable becomes huge;
    * the values handed to the variadic `reply` / `broadcast` are read back as `int32_t`
      (`rtosc_v2args`: `va_arg(ap, int)`): the low 32 bits (`w32`).
  No Mathlib import.
-/
import RtoscModel.Param.Sugar
namespace Rtosc.Param
open Rtosc

/-- C integer types (LP64) -/
inductive CTy
  | i8 | u8 | i16 | u16 | i32 | u32 | i64 | u64
deriving Repr, DecidableEq

def CTy.min : CTy → Int
  | .i8 => -128 | .u8 => 0 | .i16 => -32768 | .u16 => 0 | .i32 => -2147483648 | .u32 => 0
  | .i64 => -9223372036854775808 | .u64 => 0

def CTy.max : CTy → Int
  | .i8 => 127 | .u8 => 255 | .i16 => 32767 | .u16 => 65535 | .i32 => 2147483647 | .u32 => 4294967295
  | .i64 => 9223372036854775807 | .u64 => 18446744073709551615

def CTy.modulus : CTy → Int
  | .i8 => 256 | .u8 => 256 | .i16 => 65536 | .u16 => 65536 | .i32 => 4294967296 | .u32 => 4294967296
  | .i64 => 18446744073709551616 | .u64 => 18446744073709551616

/-- conversion of an integer value to the type (modular) -/
def CTy.wrap (t : CTy) (v : Int) : Int := (v - t.min) % t.modulus + t.min

def CTy.InRange (t : CTy) (v : Int) : Prop := t.min ≤ v ∧ v ≤ t.max

instance (t : CTy) (v : Int) : Decidable (t.InRange v) := by unfold CTy.InRange; infer_instance

/-- `decltype(var+0)`: the type `var` is promoted to in a comparison -/
def CTy.prom : CTy → CTy
  | .i8 | .u8 | .i16 | .u16 | .i32 => .i32
  | .u32 => .u32
  | .i64 => .i64
  | .u64 => .u64

def CTy.ofIntTy : IntTy → CTy
  | .i8 => .i8 | .u8 => .u8 | .i16 => .i16 | .i32 => .i32

/-- an integer handed to the variadic `reply` / `broadcast` for an `i` / `c` tag and read
    back with `va_arg(ap, int)`: its low 32 bits -/
def w32 (v : Int) : Int := IntTy.i32.wrap v

/-- `rLIMIT(var, atoi)` for a variable of type `ty`: the bound is converted to
    `decltype(var+0)` for the comparison and to `decltype(var)` for the assignment -/
def limitIntW (ty : CTy) (mn mx : Option Int) (v : Int) : Int :=
  let v1 := match mn with
    | some m => if v < ty.prom.wrap m then ty.wrap m else v
    | none => v
  match mx with
  | some M => if ty.prom.wrap M < v1 then ty.wrap M else v1
  | none => v1

/-- `rParamCb` / `rParamICb` / the element part of `rArrayICb` for a `var` of type `varTy`
    and a field of type `storeTy` -/
def intCbW (varTy storeTy : CTy) (tag : Int → Arg) (pm : Meta.Ptr) (loc : Bytes)
    (old : Int) (args : List Arg) : Except Err (Int × List Event) :=
  match args with
  | [] => .ok (old, [reply loc [tag (w32 old)]])
  | a :: _ => do
    let raw ← argI a
    let var0 := varTy.wrap raw                                   -- T var = rtosc_argument(msg,0).i
    let mn ← bound atoi pm kMin
    let mx ← bound atoi pm kMax
    let var := limitIntW varTy mn mx var0                         -- rLIMIT(var, atoi)
    let undo := undoEvent intOps (varTy.wrap old) var loc (tag (w32 (varTy.wrap old))) (tag (w32 var))
    let new := storeTy.wrap var                                   -- obj->name = var
    pure (new, undo ++ [broadcast loc [tag (w32 new)]])

end Rtosc.Param
