/-
  C14 — a macro-generated parameter port as a whole: the `Port` entry the macro writes
  (name pattern, metadata block, callback kind), the part of `Ports::dispatch` that the
  callbacks depend on (path and argument-type match of src/dispatch.c restricted to the
  patterns the macros generate: literal name, optional `#N`, `:tags` alternatives; the
  location string handed to the callback), and the callback itself.
-/
import RtoscModel.Param.Sugar
namespace Rtosc.Param
open Rtosc

/-- which macro generated the port -/
inductive Kind
  | param | paramF | paramI | option | toggle | string
  | arrayF | arrayT | arrayI | arrayOption | arrayTMember
deriving Repr, DecidableEq

/-- the value(s) of the field behind a port -/
inductive Field
  | ints (xs : List Int)
  | flts (xs : List UInt32)
  | bools (xs : List Bool)
  | str (b : Bytes)
deriving Repr, DecidableEq

structure Port where
  kind : Kind
  /-- C type of the field (elements), for the integer-backed kinds -/
  ty : IntTy
  /-- declared array length / string capacity -/
  len : Nat
  /-- `Port::name`, e.g. `arr#4::f` -/
  pattern : Bytes
  /-- `Port::metadata` -/
  block : Bytes
deriving Repr

/-! ### src/dispatch.c, restricted -/

def dropDigits : Bytes → Bytes
  | [] => []
  | c :: r => if isDigit c then dropDigits r else c :: r

/-- `rtosc_match_path` for patterns made of literal characters and `#N`; returns the
    rest of the pattern (the argument specification) on success.  Patterns with `{`, `*`
    or `/` are outside the model. -/
def matchPath : Nat → Bytes → Bytes → Except Err (Option Bytes)
  | 0, _, _ => .error .unsup
  | fuel + 1, pat, msg =>
    match pat, msg with
    | 58 :: _, [] => .ok (some pat)                                  -- ':' and end of path
    | 58 :: _, _ :: _ => .ok none                                    -- ':' but the path goes on
    | 123 :: _, _ => .error .unsup
    | 42 :: _, _ => .error .unsup
    | 47 :: _, _ => .error .unsup
    | 35 :: p, _ =>                                                  -- '#': rtosc_match_number
      (match p, msg with
       | pc :: _, mc :: _ =>
         if isDigit pc && isDigit mc then
           match atoi p, atoi msg with
           | some mx, some v =>
             if v < mx then matchPath fuel (dropDigits p) (dropDigits msg) else .ok none
           | _, _ => .error .unsup
         else .ok none
       | _, _ => .ok none)
    | [], [] => .ok (some [])                                        -- both at their NUL
    | pc :: p, mc :: m => if pc = mc then matchPath fuel p m else .ok none
    | _, _ => .ok none

/-- `rtosc_match_args` -/
def matchArgs : Nat → Bytes → Bytes → Bool
  | 0, _, _ => false
  | fuel + 1, pat, tags =>
    match pat with
    | 58 :: p =>
      let am0 : Bool := !p.isEmpty || tags.isEmpty                   -- *pattern || *pattern == *arg_str
      let alt := p.takeWhile (· ≠ 58)
      let rest := p.dropWhile (· ≠ 58)
      -- while(*pattern && *pattern != ':') arg_match &= (*pattern++ == *arg_str++);
      let am := am0 && (alt == tags.take alt.length)
      let tagsRest := tags.drop alt.length
      match rest with
      | 58 :: _ => if am && tagsRest.isEmpty then true else matchArgs fuel rest tags
      | _ => am
    | _ => true

/-- `rtosc_match(port.name, m, …)` -/
def portMatches (pattern path tags : Bytes) : Except Err Bool :=
  match matchPath (pattern.length + path.length + 2) pattern path with
  | .error e => .error e
  | .ok none => .ok false
  | .ok (some spec) => .ok (matchArgs (spec.length + 2) spec tags)

/-- the literal name in front of `#`/`:` -/
def patternName (pattern : Bytes) : Bytes := pattern.takeWhile (fun c => c ≠ 35 ∧ c ≠ 58)

/-! ### the callback of a port -/

/-- runs the port's callback on its field.  `loc` is `data.loc` (the full address),
    `path` the message path below the object (what the callback receives as `msg`). -/
def callback (p : Port) (loc path : Bytes) (fld : Field) (args : List Arg) : Except Err (Field × List Event) :=
  match Meta.container p.block with
  | none => .error .oob
  | some pm =>
    match p.kind, fld with
    | .param, .ints [x] => (rParamCb p.ty pm loc x args).map fun (v, ev) => (.ints [v], ev)
    | .paramI, .ints [x] => (rParamICb p.ty pm loc x args).map fun (v, ev) => (.ints [v], ev)
    | .paramF, .flts [x] => (rParamFCb pm loc x args).map fun (v, ev) => (.flts [v], ev)
    | .option, .ints [x] => (rOptionCb p.ty pm loc x args).map fun (v, ev) => (.ints [v], ev)
    | .toggle, .bools [x] => (rToggleCb loc x args).map fun (v, ev) => (.bools [v], ev)
    | .string, .str b => (rStringCb p.len loc b args).map fun (v, ev) => (.str v, ev)
    | .arrayF, .flts xs => (rArrayFCb pm loc p.pattern path xs args).map fun (v, ev) => (.flts v, ev)
    | .arrayT, .bools xs => (rArrayTCb loc p.pattern path xs args).map fun (v, ev) => (.bools v, ev)
    | .arrayTMember, .bools xs => (rArrayTCbMember loc p.pattern path xs args).map fun (v, ev) => (.bools v, ev)
    | .arrayI, .ints xs => (rArrayICb p.ty pm loc p.pattern path xs args).map fun (v, ev) => (.ints v, ev)
    | .arrayOption, .ints xs => (rArrayOptionCb p.ty pm loc p.pattern path xs args).map fun (v, ev) => (.ints v, ev)
    | _, _ => .error .unsup

/-- One message sent to the port table: `prefix` is the address of the object
    (`/` or `/sub/`), `path` the rest of the address.  Result: `d.matches`, the field and
    the logged messages (`none`: the port does not match, nothing happens). -/
def dispatch (p : Port) (pfx path : Bytes) (fld : Field) (args : List Arg) :
    Except Err (Option (Field × List Event)) :=
  match portMatches p.pattern path (args.map Arg.tag) with
  | .error e => .error e
  | .ok false => .ok none
  | .ok true =>
    match callback p (pfx ++ path) path fld args with
    | .error e => .error e
    | .ok r => .ok (some r)

end Rtosc.Param
