/-
  C14 — numeric building blocks of the port-sugar callbacks (include/rtosc/port-sugar.h):
  C integer types with explicit conversion (`IntTy.wrap`), `atoi`, binary32 values as bit
  patterns with the IEEE comparisons `<` and `!=`, `(float)atof(s)` for decimal literals,
  and the `rLIMIT` macro over an arbitrary comparison structure (`NumOps`).

  No Mathlib import: this file is linked into the `drv_param` executable.
-/
import RtoscModel.Basic
namespace Rtosc.Param
open Rtosc

/-! ### C integer types -/

/-- the integer types a parameter field / the macro's `var` can have -/
inductive IntTy
  | i8 | u8 | i16 | i32
deriving Repr, DecidableEq

def IntTy.min : IntTy → Int
  | .i8 => -128 | .u8 => 0 | .i16 => -32768 | .i32 => -2147483648

def IntTy.max : IntTy → Int
  | .i8 => 127 | .u8 => 255 | .i16 => 32767 | .i32 => 2147483647

def IntTy.modulus : IntTy → Int
  | .i8 => 256 | .u8 => 256 | .i16 => 65536 | .i32 => 4294967296

/-- conversion of an integer value to the type (modular, as gcc/clang define it) -/
def IntTy.wrap (t : IntTy) (v : Int) : Int := (v - t.min) % t.modulus + t.min

/-- the values the type can represent -/
def IntTy.InRange (t : IntTy) (v : Int) : Prop := t.min ≤ v ∧ v ≤ t.max

instance (t : IntTy) (v : Int) : Decidable (t.InRange v) := by unfold IntTy.InRange; infer_instance

/-! ### atoi -/

def isSpace (c : UInt8) : Bool := c == 32 || (9 ≤ c && c ≤ 13)
def isDigit (c : UInt8) : Bool := 48 ≤ c && c ≤ 57

/-- value of the leading decimal digits, and the rest -/
def takeDigits : Bytes → Nat → Nat × Bytes
  | [], acc => (acc, [])
  | c :: r, acc => if isDigit c then takeDigits r (acc * 10 + (c.toNat - 48)) else (acc, c :: r)

def skipSpaces : Bytes → Bytes
  | [] => []
  | c :: r => if isSpace c then skipSpaces r else c :: r

/-- digits of `atoi` after white space and sign; `none` when the value does not fit an
    `int` (undefined behaviour in C). -/
def atoiBody (neg : Bool) (s : Bytes) : Option Int :=
  let n : Int := ((takeDigits s 0).1 : Nat)
  let v : Int := if neg then -n else n
  if IntTy.i32.min ≤ v ∧ v ≤ IntTy.i32.max then some v else none

/-- `atoi(s)`: white space, optional sign, decimal digits (0 when there are none). -/
def atoi (s : Bytes) : Option Int :=
  match skipSpaces s with
  | 45 :: r => atoiBody true r
  | 43 :: r => atoiBody false r
  | r => atoiBody false r

/-! ### comparison structures and rLIMIT -/

/-- the two C comparisons the macros apply to a value of the parameter's type -/
structure NumOps (α : Type) where
  /-- `a < b` -/
  lt : α → α → Bool
  /-- `a != b` -/
  ne : α → α → Bool

/-- `rLIMIT(var, convert)`:
    `if(prop["min"] && var < (T)convert(prop["min"])) var = (T)convert(prop["min"]);`
    `if(prop["max"] && var > (T)convert(prop["max"])) var = (T)convert(prop["max"]);` -/
def limit {α : Type} (N : NumOps α) (mn mx : Option α) (v : α) : α :=
  let v1 := match mn with
    | some m => if N.lt v m then m else v
    | none => v
  match mx with
  | some M => if N.lt M v1 then M else v1
  | none => v1

def intOps : NumOps Int := ⟨fun a b => decide (a < b), fun a b => decide (a ≠ b)⟩

/-! ### binary32 values as bit patterns -/

def fExp (b : UInt32) : Nat := (b.toNat / 8388608) % 256
def fMant (b : UInt32) : Nat := b.toNat % 8388608

def isNaN (b : UInt32) : Bool := fExp b == 255 && fMant b != 0

/-- monotone key of a non-NaN pattern: sign-magnitude reading (`+0` and `-0` both 0) -/
def fKey (b : UInt32) : Int :=
  let m : Int := ((b.toNat % 2147483648 : Nat) : Int)
  if b.toNat ≥ 2147483648 then -m else m

/-- IEEE `<` : false when either side is a NaN -/
def fLt (a b : UInt32) : Bool := !isNaN a && !isNaN b && decide (fKey a < fKey b)
/-- IEEE `!=` : true when either side is a NaN -/
def fNe (a b : UInt32) : Bool := isNaN a || isNaN b || decide (fKey a ≠ fKey b)

def fltOps : NumOps UInt32 := ⟨fLt, fNe⟩

/-! ### `(float) atof(s)` for decimal literals

  The value of the literal is the exact rational `mant * 10^exp10`; it is rounded to
  binary64 (what `atof` returns) and then to binary32 (the cast), both to nearest, ties
  to even.  Hexadecimal literals, `inf`, `nan` and absurdly long exponents are outside
  the modelled domain (`none`). -/

structure Dec where
  neg : Bool
  mant : Nat
  exp10 : Int
deriving Repr

/-- digits after the decimal point: accumulates the mantissa and counts the digits -/
def takeFrac : Bytes → Nat → Nat → Nat × Nat × Bytes
  | [], acc, k => (acc, k, [])
  | c :: r, acc, k => if isDigit c then takeFrac r (acc * 10 + (c.toNat - 48)) (k + 1) else (acc, k, c :: r)

def parseDec (s : Bytes) : Option Dec :=
  let s := skipSpaces s
  let (neg, s) : Bool × Bytes :=
    match s with
    | 45 :: r => (true, r)
    | 43 :: r => (false, r)
    | _ => (false, s)
  match s with
  | 105 :: _ | 73 :: _ | 110 :: _ | 78 :: _ => none           -- inf / nan
  | 48 :: 120 :: _ | 48 :: 88 :: _ => none                    -- hexadecimal
  | _ =>
    let hasInt := match s with | c :: _ => isDigit c | [] => false
    let (ip, s1) := takeDigits s 0
    let (m, k, s2, hasFrac) : Nat × Nat × Bytes × Bool :=
      match s1 with
      | 46 :: r =>
        let hf := match r with | c :: _ => isDigit c | [] => false
        let (m, k, r') := takeFrac r ip 0
        (m, k, r', hf)
      | _ => (ip, 0, s1, false)
    if !hasInt && !hasFrac then some ⟨neg, 0, 0⟩               -- no conversion: 0.0
    else
      let e10 : Option Int :=
        match s2 with
        | 101 :: r | 69 :: r =>
          let (eneg, r) : Bool × Bytes :=
            match r with
            | 45 :: r' => (true, r')
            | 43 :: r' => (false, r')
            | _ => (false, r)
          (match r with
           | c :: _ =>
             if isDigit c then
               let e : Nat := (takeDigits r 0).1
               if e > 400 then none else some (if eneg then -(e : Int) else (e : Int))
             else some 0
           | [] => some 0)
        | _ => some 0
      match e10 with
      | none => none
      | some e => if k > 400 then none else some ⟨neg, m, e - (k : Int)⟩

/-- quotient and remainder of `n / (d * 2^e)` -/
def scaledDiv (n d : Nat) (e : Int) : Nat × Nat × Nat :=
  let num := if e ≥ 0 then n else n * 2 ^ (-e).toNat
  let den := if e ≥ 0 then d * 2 ^ e.toNat else d
  (num / den, num % den, den)

/-- round the positive rational `n/d` to `m * 2^e` with `m < 2^prec` (or `= 2^prec` after
    a carry), `e ≥ emin`, to nearest, ties to even -/
def roundBin (n d : Nat) (prec : Nat) (emin : Int) : Nat × Int :=
  if n = 0 ∨ d = 0 then (0, emin) else
  let e1 : Int := (Nat.log2 n : Int) - (Nat.log2 d : Int) - (prec : Int) + 1
  let q1 := (scaledDiv n d e1).1
  let e2 : Int := if q1 < 2 ^ (prec - 1) then e1 - 1 else e1
  let e : Int := if e2 < emin then emin else e2
  let (q, r, den) := scaledDiv n d e
  let up : Bool := decide (2 * r > den) || (decide (2 * r = den) && q % 2 == 1)
  (if up then q + 1 else q, e)

/-- bit pattern of the binary32 value `(-1)^neg * m * 2^e` as produced by `roundBin 24 (-149)` -/
def encodeF32 (neg : Bool) (m : Nat) (e : Int) : UInt32 :=
  let s : Nat := if neg then 2147483648 else 0
  let (m, e) : Nat × Int := if m ≥ 16777216 then (m / 2, e + 1) else (m, e)
  if m < 8388608 then UInt32.ofNat (s + m)
  else
    let be : Int := e + 150
    if be ≥ 255 then UInt32.ofNat (s + 2139095040)
    else UInt32.ofNat (s + be.toNat * 8388608 + (m - 8388608))

/-- `(float) atof(s)` -/
def atofF32 (s : Bytes) : Option UInt32 :=
  match parseDec s with
  | none => none
  | some d =>
    let n : Nat := if d.exp10 ≥ 0 then d.mant * 10 ^ d.exp10.toNat else d.mant
    let dd : Nat := if d.exp10 ≥ 0 then 1 else 10 ^ (-d.exp10).toNat
    -- binary64
    let (m, e) := roundBin n dd 53 (-1074)
    if e + 53 > 1024 ∨ (m ≥ 2 ^ 53 ∧ e + 54 > 1024) then some (encodeF32 d.neg 16777216 200)   -- HUGE_VAL
    else
      -- binary32 of m * 2^e
      let n2 : Nat := if e ≥ 0 then m * 2 ^ e.toNat else m
      let d2 : Nat := if e ≥ 0 then 1 else 2 ^ (-e).toNat
      let (m2, e2) := roundBin n2 d2 24 (-149)
      some (encodeF32 d.neg m2 e2)

end Rtosc.Param
