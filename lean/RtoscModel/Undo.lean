/-
  C15 — model of `rtosc::UndoHistory` (src/cpp/undo-history.cpp), no Mathlib.

  State of the real object: `std::deque<pair<time_t,const char*>> history` and
  `long history_pos`.  An event message `/undo_change s<t><t> path old new` is kept as the
  record `Event` (path bytes, the type tag `<t>`, the 4 payload bytes of argument 1 and of
  argument 2 as a `UInt32`; the tags the library emits — `rCAPPLY` in port-sugar.h — are
  `i`, `f`, `c`, all with a 4-byte payload that `rtosc_argument`/`rtosc_amessage` move
  through the `rtosc_arg_t` union bit for bit).  `time(NULL)` is the parameter `now`
  (seconds, `Int`); `difftime(a,b) > w` on `time_t` values below 2^53 is `a - b > w`.

  The model mirrors the code with fixes/C15-merge-scan.patch applied (see `mergeRev`).
-/
import RtoscModel.Basic
import RtoscModel.Generated.UndoConst
namespace Rtosc.Undo
open Rtosc

structure Event where
  addr : Bytes
  tag  : UInt8
  old  : UInt32
  new  : UInt32
deriving DecidableEq, Repr, Inhabited

/-- A message handed to the callback: `<addr> ,<tag> <val>`. -/
structure Msg where
  addr : Bytes
  tag  : UInt8
  val  : UInt32
deriving DecidableEq, Repr

/-- What one callback invocation receives: a set-message, or (`none`) the zeroed
    256-byte buffer when `rtosc_amessage` refused to build the message in `rewind`. -/
abbrev Emit := Option Msg

abbrev Entry := Int × Event

structure State where
  hist : List Entry
  pos  : Nat
deriving DecidableEq, Repr

/-- `UndoHistory::UndoHistory()` -/
def init : State := ⟨[], 0⟩

/-- `UndoHistory::size()` -/
def size (s : State) : Nat := s.hist.length
/-- `UndoHistory::getPos()` -/
def getPos (s : State) : Nat := s.pos

/-! ### rewind / replay: the set-message built into `static char tmp[256]` -/

/-- `pos += 4 - pos%4` -/
def pad4 (n : Nat) : Nat := n + (4 - n % 4)

/-- `vsosc_null(addr, "<t>", arg)` for a 4-byte tag: padded address, `,<t>\0\0`, payload. -/
def setMsgLen (addr : Bytes) : Nat := pad4 addr.length + 4 + 4

/-- `rtosc_amessage(tmp, 256, …)` succeeds iff `total_len <= len`. -/
def fits (addr : Bytes) : Bool := setMsgLen addr ≤ Generated.tmpSize

/-- `UndoHistoryImpl::rewind`: `memset(tmp,0)`, build `<path> ,<t> <arg 1>`, `cb(tmp)`
    unconditionally (a refused message leaves the zeroed buffer). -/
def rewindMsg (e : Event) : Emit :=
  if fits e.addr then some ⟨e.addr, e.tag, e.old⟩ else none

/-- `UndoHistoryImpl::replay`: build `<path> ,<t> <arg 2>`; `if(len) cb(tmp)`. -/
def replayMsg (e : Event) : List Emit :=
  if fits e.addr then [some ⟨e.addr, e.tag, e.new⟩] else []

/-! ### mergeEvent -/

/-- The spliced event: `args[0] = msg.arg0` (path), `args[1] = history[i].arg1` (first
    old value), `args[2] = msg.arg2` (last new value), type string of `msg`. -/
def splice (e ev : Event) : Event := { addr := ev.addr, tag := ev.tag, old := e.old, new := ev.new }

/-- The loop `for(i = history_pos-1; i >= 0; --i)` of `mergeEvent` over the applied
    entries *newest first* (`l = (history[0..pos)).reverse`): entries of other addresses
    are skipped (`continue`); the first entry with the same address decides: older than
    the window → `break` (no merge), otherwise it is replaced by the spliced event stamped
    `now`.  `none` = `return false`. -/
def mergeRev (now : Int) (ev : Event) : List Entry → Option (List Entry)
  | [] => none
  | (t, e) :: rest =>
    if e.addr ≠ ev.addr then (mergeRev now ev rest).map ((t, e) :: ·)
    else if now - t > Generated.mergeWindow then none
    else some ((now, splice e ev) :: rest)

/-- `UndoHistoryImpl::mergeEvent` on a history that has just been resized to
    `history_pos` entries (so `history[0..pos)` is all of `h`). -/
def mergeEvent (now : Int) (ev : Event) (h : List Entry) (pos : Nat) : Option (List Entry) :=
  if pos = 0 then none else (mergeRev now ev h.reverse).map List.reverse

/-! ### recordEvent -/

/-- `UndoHistory::recordEvent`.  `history.resize(history_pos)` is `take`: growing would
    need `pos > size`, which `Props/C15.lean` (`wf_record`, `wf_seek`) shows never happens. -/
def recordEvent (now : Int) (ev : Event) (s : State) : State :=
  let h := if s.hist.length ≠ s.pos then s.hist.take s.pos else s.hist
  match mergeEvent now ev h s.pos with
  | some h' => ⟨h', s.pos⟩
  | none =>
    let h1 := h ++ [(now, ev)]
    let p1 := s.pos + 1
    if h1.length > Generated.maxHistory then ⟨h1.drop 1, p1 - 1⟩ else ⟨h1, p1⟩

/-! ### seekHistory -/

/-- `while(distance++) rewind(history[--history_pos])`, `n` iterations.  `none`: an index
    outside the deque would be read. -/
def rewindN : Nat → State → Option (State × List Emit)
  | 0, s => some (s, [])
  | n + 1, s =>
    match s.pos with
    | 0 => none
    | p + 1 =>
      match s.hist[p]? with
      | none => none
      | some (_, e) => (rewindN n ⟨s.hist, p⟩).map fun (s', ms) => (s', rewindMsg e :: ms)

/-- `while(distance--) replay(history[history_pos++])`, `n` iterations. -/
def replayN : Nat → State → Option (State × List Emit)
  | 0, s => some (s, [])
  | n + 1, s =>
    match s.hist[s.pos]? with
    | none => none
    | some (_, e) => (replayN n ⟨s.hist, s.pos + 1⟩).map fun (s', ms) => (s', replayMsg e ++ ms)

/-- `UndoHistory::seekHistory(int distance)`: returns the new state and the messages the
    callback received, in order. -/
def seekHistory (s : State) (distance : Int) : Option (State × List Emit) :=
  let dest : Int := (s.pos : Int) + distance
  let d1 : Int := if dest < 0 then distance - dest else distance
  let d2 : Int := if dest > (s.hist.length : Int) then (s.hist.length : Int) - (s.pos : Int) else d1
  if d2 = 0 then some (s, [])
  else if d2 < 0 then rewindN d2.natAbs s
  else replayN d2.toNat s

/-! ### Application store (observable "application state after dispatching them") -/

abbrev Store := Bytes → UInt32

def Store.set (σ : Store) (a : Bytes) (v : UInt32) : Store := fun b => if b = a then v else σ b

/-- Dispatching one callback message into the application: a set-message stores its
    value at its address; the zeroed buffer addresses nothing. -/
def applyEmit (σ : Store) : Emit → Store
  | none => σ
  | some m => σ.set m.addr m.val

def applyEmits (σ : Store) (ms : List Emit) : Store := ms.foldl applyEmit σ

/-- An application with undo support, as in test/undo-test.cpp: parameters live in `σ`;
    a parameter port that changes a value reports `/undo_change path old new` with the true
    old value (`rCAPPLY`), which is recorded; undo/redo messages are dispatched back into
    the ports with recording disabled. -/
structure App where
  u     : State
  σ     : Store
  clock : Int

inductive Op where
  | set  (a : Bytes) (tag : UInt8) (v : UInt32)
  | seek (k : Int)
  | tick (d : Int)
deriving Repr

def App.init (σ0 : Store) (t0 : Int) : App := ⟨Undo.init, σ0, t0⟩

/-- One application step; also returns what the undo callback received. -/
def App.step (A : App) : Op → Option (App × List Emit)
  | .set a tag v =>
    if A.σ a = v then some (A, [])
    else some ({ A with u := recordEvent A.clock ⟨a, tag, A.σ a, v⟩ A.u, σ := A.σ.set a v }, [])
  | .seek k =>
    (seekHistory A.u k).map fun (u', ms) => ({ A with u := u', σ := applyEmits A.σ ms }, ms)
  | .tick d => some ({ A with clock := A.clock + d }, [])

def App.run (A : App) : List Op → Option App
  | [] => some A
  | o :: os => (A.step o).bind fun (A', _) => A'.run os

end Rtosc.Undo
