/-
  C05 — model of the path-pattern matcher in src/dispatch.c
  (rtosc_match_number, rtosc_match_options, rtosc_match_path, rtosc_match_args,
  rtosc_match) and of rtosc_argument_string (src/rtosc.c) as far as the matcher uses it.

  Conventions
  * A `const char*` is the suffix of the buffer it points into (`Bytes`), *including*
    everything up to the end of the allocation (terminating NULs, padding, payload).
    Reading the byte under a pointer whose suffix is `[]` is a read past the buffer:
    every function then returns `oob` / `none`; a read is never defaulted.
  * A function that returns a pointer-or-NULL returns `Res`: `oob`, `fail` (= NULL / false)
    or `ok …`.
  * The model mirrors the code with the repair `fixes/C05-colon-address.patch` applied
    (a ':' in the pattern ends the pattern's path; it is never compared with a message
    character).  `bodyUnfixed` keeps the unrepaired cascade for the record.
  * It also mirrors the repair `fixes/C05-args-overread.patch`: `rtosc_match_args` stops
    reading (and advancing) `arg_str` at the first mismatch of an alternative, so it never
    reads behind the NUL of the type string.  `argsGoUnfixed`/`argsUnfixed` keep the
    unrepaired loop for the record (`args_overread_counterexample` in Props/C05.lean).
  * `atoi`: glibc's `atoi` is `(int) strtol(s, NULL, 10)`; `strtol` saturates at
    `LONG_MAX = 2^63-1`, the conversions `long → int → unsigned` keep the low 32 bits.

  API used by other properties (C04):
    `Match.path pat msg`      rtosc_match_path  (returned pattern pointer, *path_end)
    `Match.args pat argstr`   rtosc_match_args on an already located type string
    `Match.full pat msg`      rtosc_match       (result, *path_end if it was written)
    `Match.matchMsg pat addr tags`  convenience: C-string pattern vs. a message laid out
                              as rtosc_amessage does (no payload)
  No Mathlib import: linked into drv_match.
-/
import RtoscModel.Basic
namespace Rtosc.Match
open Rtosc

/-- pointer-or-NULL / bool results with an explicit out-of-bounds outcome -/
inductive Res (α : Type) where
  | oob
  | fail
  | ok (a : α)
deriving DecidableEq, Repr

/-- `isdigit` in the C locale -/
def isDigit (c : UInt8) : Bool := 48 ≤ c && c ≤ 57

/-- value of a string of decimal digits (leading zeros allowed) -/
def decVal (ds : Bytes) : Nat := ds.foldl (fun acc c => acc * 10 + (c.toNat - 48)) 0

/-- `(unsigned) atoi(s)` for a string `s` whose maximal leading digit run is `ds`
    (glibc: `strtol` saturating at `LONG_MAX`, then truncation to 32 bits). -/
def atoiU (ds : Bytes) : Nat := (min (decVal ds) (2 ^ 63 - 1)) % 2 ^ 32

/-- `while(isdigit(*p)) ++p;` → (the digits, the pointer after them);
    `none` when the scan leaves the buffer. -/
def spanDigits : Bytes → Option (Bytes × Bytes)
  | [] => none
  | c :: r =>
    if isDigit c then
      match spanDigits r with
      | none => none
      | some (d, t) => some (c :: d, t)
    else some ([], c :: r)

/-- `rtosc_match_number(&pattern, &msg)`: `ok (pattern', msg')` when it returns true. -/
def number (p m : Bytes) : Res (Bytes × Bytes) :=
  match p with
  | [] => .oob
  | c :: _ =>
    if !isDigit c then .fail
    else match m with
      | [] => .oob
      | d :: _ =>
        if !isDigit d then .fail
        else match spanDigits p, spanDigits m with
          | some (pd, p'), some (md, m') =>
            if atoiU md < atoiU pd then .ok (p', m') else .fail
          | _, _ => .oob

/-- `advance_until_end:` `while(*pattern && *pattern != '}') pattern++;
    if(*pattern == '}') pattern++; return pattern;` -/
def optEnd : Bytes → Option Bytes
  | [] => none
  | c :: r => if c = 0 then some (c :: r) else if c = 125 then some r else optEnd r

/-- The `retry:` loop (`skip = false`) and the `try_next:` scan (`skip = true`) of
    `rtosc_match_options` as one state machine over the pattern pointer.
    `pre` is `preserve`; whenever the code jumps to `try_next` it resets `*msg = preserve`,
    which is the message the next `retry` starts from. -/
def optGo (pre : Bytes) : Bool → Bytes → Bytes → Res (Bytes × Bytes)
  | _, [], _ => .oob
  | true, c :: r, m =>
    -- while(*pattern && *pattern != '}' && *pattern != ',') pattern++;
    if c = 0 ∨ c = 125 then .fail                 -- return NULL
    else if c = 44 then optGo pre false r pre     -- pattern++; goto retry
    else optGo pre true r m
  | false, c :: r, m =>
    if c = 44 ∨ c = 125 then                      -- goto advance_until_end
      match optEnd (c :: r) with
      | none => .oob
      | some p' => .ok (p', m)
    else match m with
      | [] => .oob
      | d :: mr =>
        if c = d ∧ d ≠ 0 then optGo pre false r mr      -- ++pattern, ++*msg
        else if c = 0 then .fail                         -- try_next: scan stops at once, no ','
        else optGo pre true r pre                        -- try_next: *msg = preserve; scan on

/-- `rtosc_match_options(pattern, &msg)`; `pattern` points at the '{'. -/
def options (p m : Bytes) : Res (Bytes × Bytes) :=
  match p with
  | [] => .oob
  | _ :: r => optGo m false r m

/-- `while(*pattern && *pattern != '/' && *pattern != ':') pattern++;` -/
def starPat : Bytes → Option Bytes
  | [] => none
  | c :: r => if c = 0 ∨ c = 47 ∨ c = 58 then some (c :: r) else starPat r

/-- `while(*msg && *msg != '/') msg++;` -/
def starMsg : Bytes → Option Bytes
  | [] => none
  | c :: r => if c = 0 ∨ c = 47 then some (c :: r) else starMsg r

/-- One iteration of the `while(1)` cascade of `rtosc_match_path`; `k` is "go round the
    loop again".  `ok (pattern, path_end)` is `return *path_end = msg, pattern`. -/
def body (k : Bytes → Bytes → Res (Bytes × Bytes)) (p m : Bytes) : Res (Bytes × Bytes) :=
  match p with
  | [] => .oob
  | c :: r =>
    if c = 58 then                                  -- ':'  (end of the pattern's path)
      match m with
      | [] => .oob
      | d :: _ => if d = 0 then .ok (c :: r, m) else .fail
    else if c = 123 then                            -- '{'
      match options (c :: r) m with
      | .oob => .oob
      | .fail => .fail
      | .ok (p', m') => k p' m'
    else if c = 42 then                             -- '*'
      match starPat (c :: r) with
      | none => .oob
      | some [] => .oob
      | some (e :: p') =>
        if e = 47 ∨ e = 58 then
          match starMsg m with
          | none => .oob
          | some m' => k (e :: p') m'
        else k (e :: p') m
    else if c = 47 then                             -- '/' && *msg == '/'
      match m with
      | [] => .oob
      | d :: mr =>
        if d = 47 then
          match r with
          | [] => .oob
          | e :: _ => if e = 0 ∨ e = 58 then .ok (r, mr) else k r mr
        else .fail                                  -- '/' is neither '#' nor equal to *msg
    else if c = 35 then                             -- '#'
      match number r m with
      | .oob => .oob
      | .fail => .fail
      | .ok (p', m') => k p' m'
    else match m with                               -- verbatim compare
      | [] => .oob
      | d :: mr =>
        if c = d then
          if d ≠ 0 then k r mr else .ok (c :: r, m)
        else .fail

/-- The cascade of the *unrepaired* code (kept for `colon_address_counterexample`):
    a ':' in the pattern that meets a non-NUL message character falls through to the
    verbatim compare. -/
def bodyUnfixed (k : Bytes → Bytes → Res (Bytes × Bytes)) (p m : Bytes) : Res (Bytes × Bytes) :=
  match p, m with
  | c :: r, d :: mr =>
    if c = 58 ∧ d ≠ 0 then (if d = 58 then k r mr else .fail)
    else body k p m
  | p, m => body k p m

def pathGo : Nat → Bytes → Bytes → Res (Bytes × Bytes)
  | 0 => fun _ _ => .oob
  | f + 1 => body (pathGo f)

def pathGoUnfixed : Nat → Bytes → Bytes → Res (Bytes × Bytes)
  | 0 => fun _ _ => .oob
  | f + 1 => bodyUnfixed (pathGoUnfixed f)

/-- `rtosc_match_path(pattern, msg, &path_end)`.  Every iteration that does not return
    moves the pattern pointer forward, so `pattern.length + 1` iterations suffice
    (`path_eq_body` in Proofs/MatchLemmas.lean). -/
def path (p m : Bytes) : Res (Bytes × Bytes) := pathGo (p.length + 1) p m

def pathUnfixed (p m : Bytes) : Res (Bytes × Bytes) := pathGoUnfixed (p.length + 1) p m

/-- The body of `rtosc_match_args` after `arg_str` has been initialised:
    the `while` loop, the test at ':' and the recursive retry, as one recursion over
    the pattern pointer.  `args0` is the start of the type string (each retry starts
    there again), `a` the running `arg_str`, `am` is `arg_match`. -/
def argsGo (args0 : Bytes) : Bytes → Bytes → Bool → Option Bool
  | [], _, _ => none
  | c :: r, a, am =>
    if c = 0 then some am                           -- loop ends, `*pattern != ':'`: return arg_match
    else if c = 58 then
      -- retry = rtosc_match_args(pattern, msg): skip the ':', then
      -- arg_match = *pattern || *pattern == *arg_str
      let retry : Option Bool :=
        match r with
        | [] => none
        | e :: _ =>
          if e ≠ 0 then argsGo args0 r args0 true
          else match args0 with
            | [] => none
            | x :: _ => argsGo args0 r args0 (x = 0)
      if am then
        match a with
        | [] => none
        | x :: _ => if x = 0 then some true else retry
      else retry
    else if am then                                 -- arg_match = arg_match && (*pattern == *arg_str++);
      match a with                                  -- ++pattern;
      | [] => none
      | x :: ar => argsGo args0 r ar (c == x)
    else argsGo args0 r a false                     -- short-circuit: arg_str is neither read nor advanced

/-- `rtosc_match_args(pattern, msg)` with `arg_str = argstr` already located. -/
def args (p argstr : Bytes) : Option Bool :=
  match p with
  | [] => none
  | c :: r =>
    if c ≠ 58 then some true
    else match r with
      | [] => none
      | e :: _ =>
        if e ≠ 0 then argsGo argstr r argstr true
        else match argstr with
          | [] => none
          | x :: _ => argsGo argstr r argstr (x = 0)

/-- The loop of the *unrepaired* `rtosc_match_args`
    (`arg_match &= (*pattern++==*arg_str++)`: `arg_str` is read and advanced once per
    pattern character, also after a mismatch and after the type string has ended). -/
def argsGoUnfixed (args0 : Bytes) : Bytes → Bytes → Bool → Option Bool
  | [], _, _ => none
  | c :: r, a, am =>
    if c = 0 then some am
    else if c = 58 then
      let retry : Option Bool :=
        match r with
        | [] => none
        | e :: _ =>
          if e ≠ 0 then argsGoUnfixed args0 r args0 true
          else match args0 with
            | [] => none
            | x :: _ => argsGoUnfixed args0 r args0 (x = 0)
      if am then
        match a with
        | [] => none
        | x :: _ => if x = 0 then some true else retry
      else retry
    else match a with
      | [] => none
      | x :: ar => argsGoUnfixed args0 r ar (am && c == x)

/-- the unrepaired `rtosc_match_args` -/
def argsUnfixed (p argstr : Bytes) : Option Bool :=
  match p with
  | [] => none
  | c :: r =>
    if c ≠ 58 then some true
    else match r with
      | [] => none
      | e :: _ =>
        if e ≠ 0 then argsGoUnfixed argstr r argstr true
        else match argstr with
          | [] => none
          | x :: _ => argsGoUnfixed argstr r argstr (x = 0)

/-- `while(!*++msg);` seen from the byte *after* the current one -/
def skipZeros : Bytes → Option Bytes
  | [] => none
  | c :: r => if c = 0 then skipZeros r else some (c :: r)

/-- `rtosc_argument_string(msg)`: `while(*++msg); while(!*++msg); return msg+1;` -/
def argString (msg : Bytes) : Option Bytes :=
  match msg with
  | [] => none
  | _ :: r =>
    match toNul r with
    | none => none
    | some [] => none
    | some (_ :: z) =>
      match skipZeros z with
      | none => none
      | some [] => none
      | some (_ :: t) => some t

/-- `rtosc_match(pattern, msg, &path_end)`: the result and `*path_end` if it was written. -/
def full (p msg : Bytes) : Option (Bool × Option Bytes) :=
  match path p msg with
  | .oob => none
  | .fail => some (false, none)
  | .ok (ap, e) =>
    match ap with
    | [] => none
    | c :: _ =>
      if c = 58 then
        match argString msg with
        | none => none
        | some a => (args ap a).map (fun b => (b, some e))
      else some (true, some e)

/-- the same on the unrepaired cascade -/
def fullUnfixed (p msg : Bytes) : Option Bool :=
  match pathUnfixed p msg with
  | .oob => none
  | .fail => some false
  | .ok (ap, _) =>
    match ap with
    | [] => none
    | c :: _ =>
      if c = 58 then
        match argString msg with
        | none => none
        | some a => args ap a
      else some true

/-! ### Message layout (what `rtosc_amessage` writes for an address and a type string) -/

/-- `s` followed by 1..4 NULs up to the next multiple of four -/
def pad4 (s : Bytes) : Bytes := s ++ List.replicate (4 - s.length % 4) 0

/-- address, ',' + type tags, then whatever follows in the buffer (argument payload,
    unused space) -/
def mkMsg (addr tags rest : Bytes) : Bytes := pad4 addr ++ pad4 (44 :: tags) ++ rest

/-- payload size `rtosc_amessage` reserves for a tag whose argument is all-zero
    (empty string, empty blob, zero numbers) -/
def zeroArgSize (t : UInt8) : Nat :=
  if t = 105 ∨ t = 102 ∨ t = 99 ∨ t = 114 ∨ t = 109 ∨ t = 115 ∨ t = 83 ∨ t = 98 then 4   -- i f c r m s S b
  else if t = 104 ∨ t = 100 ∨ t = 116 then 8                                              -- h d t
  else 0

/-- Convenience for callers that have pattern, address and type string as plain byte
    strings: the message is laid out without payload and with `slack` spare NUL bytes. -/
def matchMsg (pat addr tags : Bytes) (slack : Nat := 0) : Option Bool :=
  (full (pat ++ [0]) (mkMsg addr tags (List.replicate slack 0))).map (·.1)

/-- offset of a suffix pointer inside the buffer `buf` -/
def offsetIn (buf suffix : Bytes) : Nat := buf.length - suffix.length

end Rtosc.Match
