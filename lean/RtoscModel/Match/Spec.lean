/-
  C05 — the specification: the documented pattern language and what it means for a
  message to match, written without reference to the code's structure.

  A pattern (`Pat`) is a sequence of segments — literal text, `#N` enumerations,
  `{a,b,…}` alternatives —, an optional trailing '/', and optional ':types'
  alternatives.  `Pat.render` is the string a port table contains.

  `PathSpec p addr` is the sentence of the property statement:
    the address spells the literal text, carries at each enumeration a decimal index
    strictly smaller than N (the index is the whole run of digits found there; leading
    zeros allowed), spells one of the alternatives, and ends where the pattern's path
    ends — or, for a pattern ending in '/', continues arbitrarily after that '/'.
  `TypesExact` / `TypesLoose` are the two sides of the sandwich the statement gives for
  the type string.

  Everything that restricts the inputs is a decidable `Bool` function (`Pat.wf0`,
  `Pat.prefixFree`) so that it can be evaluated by `decide` and by the driver.
-/
import RtoscModel.Match.Path
namespace Rtosc.Match
open Rtosc

inductive Seg where
  | lit (s : Bytes)            -- literal text
  | enum (ds : Bytes)          -- `#N`, N written with the decimal digits `ds`
  | alts (as : List Bytes)     -- `{a,b,…}`
deriving DecidableEq, Repr

structure Pat where
  segs : List Seg
  sub : Bool                          -- trailing '/'
  types : Option (List Bytes)         -- `:t1:t2…`
deriving DecidableEq, Repr

/-- alternatives separated by ',' -/
def joinAlts : List Bytes → Bytes
  | [] => []
  | [a] => a
  | a :: b :: r => a ++ 44 :: joinAlts (b :: r)

def Seg.render : Seg → Bytes
  | .lit s => s
  | .enum ds => 35 :: ds
  | .alts as => 123 :: (joinAlts as ++ [125])

def renderSegs : List Seg → Bytes
  | [] => []
  | s :: r => s.render ++ renderSegs r

def renderTypeAlts : List Bytes → Bytes
  | [] => []
  | t :: r => 58 :: t ++ renderTypeAlts r

def renderTypes : Option (List Bytes) → Bytes
  | none => []
  | some ts => renderTypeAlts ts

/-- what follows the segments: the trailing '/' if any, then the type part -/
def Pat.tail (p : Pat) : Bytes := (if p.sub then [47] else []) ++ renderTypes p.types

/-- the pattern string -/
def Pat.render (p : Pat) : Bytes := renderSegs p.segs ++ p.tail

/-- the pattern as the C string handed to `rtosc_match` -/
def Pat.cstr (p : Pat) : Bytes := p.render ++ [0]

/-! ### What the statement says -/

/-- `SpellsAll segs a r`: the byte string `a` spells the segments one after the other
    and `r` is what is left of it afterwards. -/
inductive SpellsAll : List Seg → Bytes → Bytes → Prop where
  | nil (r : Bytes) : SpellsAll [] r r
  | lit {segs a r} (s : Bytes) :
      SpellsAll segs a r → SpellsAll (.lit s :: segs) (s ++ a) r
  | enum {segs a r} (ds idx : Bytes) :
      idx ≠ [] → (∀ c ∈ idx, isDigit c = true) →
      (∀ c t, a = c :: t → isDigit c = false) →        -- `idx` is the whole run of digits
      decVal idx < decVal ds →                          -- strictly smaller than N
      SpellsAll segs a r → SpellsAll (.enum ds :: segs) (idx ++ a) r
  | alts {segs a r} (as : List Bytes) (x : Bytes) :
      x ∈ as → SpellsAll segs a r → SpellsAll (.alts as :: segs) (x ++ a) r

/-- the address part of the statement -/
def PathSpec (p : Pat) (addr : Bytes) : Prop :=
  ∃ rest, SpellsAll p.segs addr rest ∧
    (if p.sub then ∃ t, rest = 47 :: t else rest = [])

/-- "if type alternatives are given, its type tag string equals one of them" -/
def TypesExact (p : Pat) (tags : Bytes) : Prop :=
  ∀ ts, p.types = some ts → tags ∈ ts

/-- "…equal to or an extension of an alternative" -/
def TypesLoose (p : Pat) (tags : Bytes) : Prop :=
  ∀ ts, p.types = some ts → ∃ a ∈ ts, a <+: tags

/-- a message that must match -/
def SpecMatch (p : Pat) (addr tags : Bytes) : Prop := PathSpec p addr ∧ TypesExact p tags

/-- a message that may match (anything outside must not) -/
def SpecMayMatch (p : Pat) (addr tags : Bytes) : Prop := PathSpec p addr ∧ TypesLoose p tags

/-! ### The documented form (decidable) -/

/-- characters of literal text: anything but NUL and the pattern's own syntax `# { * :`
    ('/' is allowed inside literal text, see `segsWf`) -/
def litChar (c : UInt8) : Bool := c != 0 && c != 35 && c != 123 && c != 42 && c != 58

/-- characters of an alternative: anything but NUL `,` `}` -/
def altChar (c : UInt8) : Bool := c != 0 && c != 44 && c != 125

/-- characters of a type alternative: anything but NUL and ':' -/
def tagChar (c : UInt8) : Bool := c != 0 && c != 58

def Seg.wf : Seg → Bool
  | .lit s => !s.isEmpty && s.all litChar
  | .enum ds => !ds.isEmpty && ds.all isDigit && decide (decVal ds < 2 ^ 31)
  | .alts as => !as.isEmpty && as.all (·.all altChar)

def Seg.startsWithDigit : Seg → Bool
  | .lit (c :: _) => isDigit c
  | _ => false

/-- the segments, given whether a trailing '/' follows them:
    * every segment is well formed;
    * literal text directly after `#N` does not begin with a digit (it would read as
      part of N);
    * without a trailing '/', the last segment is not literal text ending in '/'
      (that '/' *is* the trailing '/'). -/
def segsWf (sub : Bool) : List Seg → Bool
  | [] => true
  | [s] => s.wf && (sub || match s with
                            | .lit t => t.getLast? != some 47
                            | _ => true)
  | s :: t :: r =>
    s.wf && (match s with
             | .enum _ => !t.startsWithDigit
             | _ => true) && segsWf sub (t :: r)

def typesWf : Option (List Bytes) → Bool
  | none => true
  | some ts => !ts.isEmpty && ts.all (·.all tagChar)

/-- "a pattern of the documented form" -/
def Pat.wf0 (p : Pat) : Bool := segsWf p.sub p.segs && typesWf p.types

/-- no alternative of a `{}` group is a proper prefix of another one of the same group -/
def Seg.prefixFree : Seg → Bool
  | .alts as => as.all fun a => as.all fun b => !(a.isPrefixOf b) || a == b
  | _ => true

def segsPrefixFree (l : List Seg) : Bool := l.all Seg.prefixFree

def Pat.prefixFree (p : Pat) : Bool := segsPrefixFree p.segs

/-- trigger predicate of known finding C05-K1 (no backtracking in `{}`) -/
def Pat.hasPrefixAlts (p : Pat) : Bool := !p.prefixFree

/-- the patterns for which the full equivalence is proved -/
def Pat.wf (p : Pat) : Bool := p.wf0 && p.prefixFree

def Pat.WF0 (p : Pat) : Prop := p.wf0 = true
def Pat.WF (p : Pat) : Prop := p.wf = true

instance (p : Pat) : Decidable p.WF0 := by unfold Pat.WF0; infer_instance
instance (p : Pat) : Decidable p.WF := by unfold Pat.WF; infer_instance

/-- no NUL inside (addresses and type strings are C strings) -/
def NulFree (b : Bytes) : Prop := ∀ c ∈ b, c ≠ 0

/-- every run of decimal digits in the address denotes a number below 2^31
    (in particular: every index of up to 9 digits, with any number of leading zeros) -/
def IdxBounded (a : Bytes) : Prop :=
  ∀ pre run post, a = pre ++ run ++ post → (∀ c ∈ run, isDigit c = true) → decVal run < 2 ^ 31

/-- decidable form of `IdxBounded` (all sub-strings; `idxBounded_of_check` in
    Proofs/MatchLemmas.lean) -/
def idxBoundedCheck (a : Bytes) : Bool :=
  (List.range (a.length + 1)).all fun i =>
    (List.range (a.length + 1)).all fun j =>
      let run := (a.drop i).take j
      !(run.all isDigit) || decide (decVal run < 2 ^ 31)

/-- (Legacy.)  Before the repair fixes/C05-args-overread.patch `rtosc_match_args` advanced
    `arg_str` once per pattern character, also after the type string had ended, and the C05
    theorems assumed that the buffer behind the type string is long enough for every type
    alternative.  The repaired code reads nothing behind the type string's NUL and no C05
    theorem uses this predicate any more; it is kept only because lemmas of C04
    (Proofs/Ports*.lean) still carry it as a (now superfluous) hypothesis. -/
def ArgsInBounds (p : Pat) (avail : Nat) : Prop :=
  ∀ ts, p.types = some ts → ∀ a ∈ ts, a.length ≤ avail

end Rtosc.Match
