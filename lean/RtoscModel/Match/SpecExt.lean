/-
  C05 — specification, second part (no Mathlib; nothing here is used by the driver).

  * `SpellsLeftmost` / `PathSpecLeftmost`: the *leftmost-alternative reading* of an address.
    It is `SpellsAll` / `PathSpec` of Match/Spec.lean with one more condition at every
    `{a,b,…}` group: the alternative the address spells there is the first one of the
    group (in the order written in the pattern) that is a prefix of what is left of the
    address.  For prefix-free groups this is no condition at all; for the K1 class
    (`Pat.hasPrefixAlts`) it says exactly which of the readings the matcher follows.
  * `EnumIdxBounded p addr`: the digit runs of the address *that stand at enumerations of
    the pattern* (on the leftmost reading of the segments in front of the enumeration) denote
    numbers below 2^31 — the weakening of `IdxBounded`, which bounds every digit run of the
    whole address.  `enumIdxCheck` is its decidable form.
-/
import RtoscModel.Match.Spec
namespace Rtosc.Match
open Rtosc

/-- `SpellsLeftmost segs a r`: `a` spells the segments one after the other, at every
    `{}` group by the first alternative (in pattern order) that is a prefix of what is left
    of `a`; `r` is what is left afterwards. -/
inductive SpellsLeftmost : List Seg → Bytes → Bytes → Prop where
  | nil (r : Bytes) : SpellsLeftmost [] r r
  | lit {segs a r} (s : Bytes) :
      SpellsLeftmost segs a r → SpellsLeftmost (.lit s :: segs) (s ++ a) r
  | enum {segs a r} (ds idx : Bytes) :
      idx ≠ [] → (∀ c ∈ idx, isDigit c = true) →
      (∀ c t, a = c :: t → isDigit c = false) →        -- `idx` is the whole run of digits
      decVal idx < decVal ds →                          -- strictly smaller than N
      SpellsLeftmost segs a r → SpellsLeftmost (.enum ds :: segs) (idx ++ a) r
  | alts {segs a r} (as before : List Bytes) (x : Bytes) (after : List Bytes) :
      as = before ++ x :: after →
      (∀ y ∈ before, ¬ y <+: x ++ a) →                 -- no earlier alternative fits here
      SpellsLeftmost segs a r → SpellsLeftmost (.alts as :: segs) (x ++ a) r

/-- the address part of the statement, read with the leftmost alternatives -/
def PathSpecLeftmost (p : Pat) (addr : Bytes) : Prop :=
  ∃ rest, SpellsLeftmost p.segs addr rest ∧
    (if p.sub then ∃ t, rest = 47 :: t else rest = [])

/-- The digit run the address carries at an enumeration `#N` of the pattern — after the
    segments in front of it have been read (groups by their first fitting alternative) —
    denotes a number below 2^31.  Nothing is said about digit runs elsewhere in the address
    (inside literal text, inside alternatives, behind a trailing '/'). -/
def EnumRunsBounded (segs : List Seg) (addr : Bytes) : Prop :=
  ∀ pre ds post x, segs = pre ++ .enum ds :: post → SpellsLeftmost pre addr x →
    decVal (x.takeWhile isDigit) < 2 ^ 31

def EnumIdxBounded (p : Pat) (addr : Bytes) : Prop := EnumRunsBounded p.segs addr

/-- decidable form of `EnumRunsBounded` (`enumRunsBounded_iff_check` in
    Proofs/MatchExtLeft.lean): walk along the leftmost reading and test the digit run found
    at every enumeration that is reached -/
def enumIdxCheck : List Seg → Bytes → Bool
  | [], _ => true
  | .lit s :: r, a => if s.isPrefixOf a then enumIdxCheck r (a.drop s.length) else true
  | .enum ds :: r, a =>
    decide (decVal (a.takeWhile isDigit) < 2 ^ 31) &&
      (if a.takeWhile isDigit ≠ [] ∧ decVal (a.takeWhile isDigit) < decVal ds
       then enumIdxCheck r (a.dropWhile isDigit) else true)
  | .alts as :: r, a =>
    match as.find? (·.isPrefixOf a) with
    | some x => enumIdxCheck r (a.drop x.length)
    | none => true

/-- What the type matcher really accepts (`types_exact`): the type string is one of the
    alternatives, or an extension of the last one if that is not empty. -/
def TypesCode (p : Pat) (tags : Bytes) : Prop :=
  ∀ ts, p.types = some ts → tags ∈ ts ∨ ∃ l, ts.getLast? = some l ∧ l ≠ [] ∧ l <+: tags

end Rtosc.Match
