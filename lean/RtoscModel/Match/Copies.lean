/-
  C05 — the two further copies of the type matcher, in src/cpp/ports.cpp:
  `arg_matcher(pattern, args)` (line 219) and
  `Port_Matcher::rtosc_match_args(pattern, msg)` (line 271, used by `hard_match` on the
  hashed dispatch path).  They are modelled on their own, literally as the C++ text
  reads (a `while` loop function, then the test at ':' and the recursive call, the
  recursion bounded by fuel), and `Props/C05.lean` proves them equal to `Match.args`.
-/
import RtoscModel.Match.Path
namespace Rtosc.Match
open Rtosc

/-- `while(*pattern && *pattern != ':') { arg_match = arg_match && (*pattern==*arg_str++); ++pattern; }`
    (the loop as repaired by fixes/C05-args-overread.patch, which changes all three copies alike)
    returns (pattern, arg_str, arg_match) after the loop -/
def argWhile : Bytes → Bytes → Bool → Option (Bytes × Bytes × Bool)
  | [], _, _ => none
  | c :: r, a, am =>
    if c ≠ 0 ∧ c ≠ 58 then
      if am then
        match a with
        | [] => none
        | x :: ar => argWhile r ar (c == x)
      else argWhile r a false
    else some (c :: r, a, am)

/-- `arg_matcher(pattern, args)`; one unit of fuel per (recursive) call -/
def argMatcherFuel : Nat → Bytes → Bytes → Option Bool
  | 0, _, _ => none
  | f + 1, pattern, args =>
    match pattern with
    | [] => none
    | c :: p =>
      if c ≠ 58 then some true                         -- if(*pattern++ != ':') return true;
      else
        -- bool arg_match = *pattern || *pattern == *arg_str;
        let init : Option Bool :=
          match p with
          | [] => none
          | e :: _ =>
            if e ≠ 0 then some true
            else match args with
              | [] => none
              | x :: _ => some (e == x)
        match init with
        | none => none
        | some am0 =>
          match argWhile p args am0 with
          | none => none
          | some (p', a', am) =>
            match p' with
            | [] => none
            | e :: _ =>
              if e = 58 then                             -- if(*pattern==':')
                if am then
                  match a' with
                  | [] => none
                  | x :: _ => if x = 0 then some true    -- arg_match && !*arg_str
                              else argMatcherFuel f p' args
                else argMatcherFuel f p' args            -- retry
              else some am                               -- return arg_match;

/-- `arg_matcher` (ports.cpp:219) -/
def argMatcher (pattern args : Bytes) : Option Bool :=
  argMatcherFuel (pattern.length + 1) pattern args

/-- `Port_Matcher::rtosc_match_args` (ports.cpp:271): the same text, with
    `arg_str = rtosc_argument_string(msg)` -/
def portMatcherFuel : Nat → Bytes → Bytes → Option Bool
  | 0, _, _ => none
  | f + 1, pattern, msg =>
    match pattern with
    | [] => none
    | c :: p =>
      if c ≠ 58 then some true
      else
        match argString msg with
        | none => none
        | some argStr =>
          let init : Option Bool :=
            match p with
            | [] => none
            | e :: _ =>
              if e ≠ 0 then some true
              else match argStr with
                | [] => none
                | x :: _ => some (e == x)
          match init with
          | none => none
          | some am0 =>
            match argWhile p argStr am0 with
            | none => none
            | some (p', a', am) =>
              match p' with
              | [] => none
              | e :: _ =>
                if e = 58 then
                  if am then
                    match a' with
                    | [] => none
                    | x :: _ => if x = 0 then some true
                                else portMatcherFuel f p' msg
                  else portMatcherFuel f p' msg
                else some am

def portMatcherArgs (pattern msg : Bytes) : Option Bool :=
  portMatcherFuel (pattern.length + 1) pattern msg

/-- `rtosc_match_args(pattern, msg)` of dispatch.c seen from the message:
    what the two copies are compared with -/
def argsOfMsg (pattern msg : Bytes) : Option Bool :=
  match pattern with
  | [] => none
  | c :: _ =>
    if c ≠ 58 then some true
    else match argString msg with
      | none => none
      | some a => args pattern a

end Rtosc.Match
