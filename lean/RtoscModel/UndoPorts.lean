/-
  C15 — the end-to-end application over C14's port model (no Mathlib).

  `Undo.App` (RtoscModel/Undo.lean) is a hand-written application: a parameter store and
  the rule "a set that changes a value is recorded with the true old value".  `PApp` below is
  the same application built from the *real* parameter ports as C14 models them
  (`Param.dispatch` of RtoscModel/Param/Port.lean = `rtosc_match` on the port's own name
  plus the macro-generated callback of RtoscModel/Param/Sugar.lean), wired to the undo
  history exactly as test/undo-test.cpp and harness/undo.cpp (`E` lines) do:

    * a message is dispatched to a port; every `/undo_change` *reply* of the callback is
      handed to `UndoHistory::recordEvent` (`Rt::reply` of the harness; broadcasts and other
      replies go elsewhere);
    * the `UndoHistory` callback dispatches each set-message it receives back into the
      port table with recording disabled (`rt.enable = false`), skipping the zeroed buffer
      (`if(m[0])`).

  Nothing here is compiled into a driver; the file holds definitions only.  The theorems
  (the ports refine `App.step`) are in Proofs/UndoPorts*.lean and Props/C15Ports.lean.
-/
import RtoscModel.Undo
import RtoscModel.Param.Port
namespace Rtosc.Undo
open Rtosc

/-- the 4 payload bytes of an OSC `i`/`c` argument holding `v` (two's complement) -/
def w32 (v : Int) : UInt32 := UInt32.ofNat (v % 4294967296).toNat

/-- `rtosc_argument(msg, 0).i` of a 4-byte payload -/
def s32 (w : UInt32) : Int :=
  if w.toNat < 2147483648 then (w.toNat : Int) else (w.toNat : Int) - 4294967296

/-- the payload of an event argument as `UndoHistory` keeps it (`i f c` only) -/
def payload : Param.Arg → Option UInt32
  | .i v => some (w32 v)
  | .c v => some (w32 v)
  | .f b => some b
  | _ => none

/-- the messages `Rt::reply` hands to `recordEvent`: replies (not broadcasts) at "/undo_change" -/
def undoReplies (ev : List Param.Event) : List Param.Event :=
  ev.filter (fun e => !e.bcast && e.addr == Param.undoAddr)

/-- `/undo_change s<t><t> path old new` as the history model's `Event`; `none`: a shape the
    history model does not cover (never produced by the scalar numeric ports). -/
def decodeUndo (e : Param.Event) : Option Event :=
  match e.args with
  | [.s loc, oa, na] =>
    if oa.tag = na.tag then
      match payload oa, payload na with
      | some o, some n => some ⟨loc, oa.tag, o, n⟩
      | _, _ => none
    else none
  | _ => none

def decodeAll : List Param.Event → Option (List Event)
  | [] => some []
  | e :: es =>
    match decodeUndo e, decodeAll es with
    | some x, some xs => some (x :: xs)
    | _, _ => none

/-- `recordEvent` for every event, in the order the callback sent them -/
def recordAll (now : Int) : List Event → State → State
  | [], s => s
  | e :: es, s => recordAll now es (recordEvent now e s)

/-- the argument list of the set-message `<addr> ,<t> <val>` -/
def msgArg (m : Msg) : Option Param.Arg :=
  if m.tag = 105 then some (.i (s32 m.val))
  else if m.tag = 99 then some (.c (s32 m.val))
  else if m.tag = 102 then some (.f m.val)
  else none

/-- one entry of the application's port table: C14's port, the address of its object and
    its own part of the address -/
structure PStat where
  port : Param.Port
  pfx  : Bytes
  path : Bytes

/-- the port's full address (`data.loc` in its callback) -/
def PStat.loc (c : PStat) : Bytes := c.pfx ++ c.path

/-- the application: undo history, the fields behind the ports (same order as the table), clock -/
structure PApp where
  u     : State
  flds  : List Param.Field
  clock : Int

inductive POp where
  /-- a message with these arguments (none: a query) sent to the address of port `i` -/
  | msg  (i : Nat) (args : List Param.Arg)
  | seek (k : Int)
  | tick (d : Int)

/-- one undo/redo message dispatched into the port table with recording disabled: every
    port whose address is the message's address runs (`Ports::dispatch` visits all) -/
def deliverTo (m : Msg) : List PStat → List Param.Field → Option (List Param.Field)
  | c :: cs, f :: fs =>
    if c.loc = m.addr then
      match msgArg m with
      | none => none
      | some a =>
        match Param.dispatch c.port c.pfx c.path f [a] with
        | .error _ => none
        | .ok none => (deliverTo m cs fs).map (f :: ·)
        | .ok (some (f', _)) => (deliverTo m cs fs).map (f' :: ·)
    else (deliverTo m cs fs).map (f :: ·)
  | _, fs => some fs

/-- the `UndoHistory` callback of the application -/
def deliver (tbl : List PStat) (fs : List Param.Field) : Emit → Option (List Param.Field)
  | none => some fs                       -- `if(m[0])`: the zeroed buffer is not dispatched
  | some m => deliverTo m tbl fs

def deliverAll (tbl : List PStat) : List Param.Field → List Emit → Option (List Param.Field)
  | fs, [] => some fs
  | fs, m :: ms =>
    match deliver tbl fs m with
    | none => none
    | some fs' => deliverAll tbl fs' ms

/-- One step of the application; `none`: C14's model reports an error (outside its domain)
    or the history would be read out of range.  Also returns what the undo callback received. -/
def PApp.step (tbl : List PStat) (P : PApp) : POp → Option (PApp × List Emit)
  | .msg i args =>
    match tbl[i]?, P.flds[i]? with
    | some c, some f =>
      match Param.dispatch c.port c.pfx c.path f args with
      | .error _ => none
      | .ok none => some (P, [])
      | .ok (some (f', ev)) =>
        match decodeAll (undoReplies ev) with
        | none => none
        | some es => some ({ P with u := recordAll P.clock es P.u, flds := P.flds.set i f' }, [])
    | _, _ => none
  | .seek k =>
    match seekHistory P.u k with
    | none => none
    | some (u', ms) =>
      match deliverAll tbl P.flds ms with
      | none => none
      | some fs => some ({ P with u := u', flds := fs }, ms)
  | .tick d => some ({ P with clock := P.clock + d }, [])

def PApp.run (tbl : List PStat) (P : PApp) : List POp → Option PApp
  | [] => some P
  | o :: os =>
    match P.step tbl o with
    | none => none
    | some (P', _) => P'.run tbl os

def PApp.init (fs : List Param.Field) (t0 : Int) : PApp := ⟨Undo.init, fs, t0⟩

end Rtosc.Undo
