/-
  C17 — model of the port-metadata reader in src/cpp/ports.cpp
  (metaiterator_advance, MetaIterator::operator++, MetaContainer::begin / find /
  length / operator[], Port::meta()).

  A `const char*` is modelled as the suffix of the metadata block it points to
  (`Bytes`); the NULL pointer is `none` (`Ptr`).  Reading the byte under a pointer
  whose suffix is `[]` is a read past the block: every function returns `none`
  in the outer `Option` in that case ("oob"), it is never defaulted.
-/
import RtoscModel.Basic
namespace Rtosc.Meta
open Rtosc

abbrev Ptr := Option Bytes

/-- `metaiterator_advance(title, value)`: computes `value` from `title`. -/
def advance (title : Ptr) : Option Ptr :=
  match title with
  | none => some none
  | some [] => none                                  -- `*title` past the block
  | some (c :: r) =>
    if c = 0 then some none
    else match toNul (c :: r) with                   -- while(*value) ++value;
      | none => none
      | some [] => none
      | some (_ :: r1) =>                            -- *++value
        match r1 with
        | [] => none
        | d :: r2 => if d = 61 then some (some r2) else some none

/-- The scan loop of `operator++`:
    `prev = 0; while(prev || (*title && *title != ':')) prev = *title++;`
    Returns the suffix at which the loop stops. -/
def scanNext : UInt8 → Bytes → Option Bytes
  | _, [] => none
  | prev, c :: r =>
    if prev ≠ 0 ∨ (c ≠ 0 ∧ c ≠ 58) then scanNext c r else some (c :: r)

structure Iter where
  title : Ptr
  value : Ptr
deriving Repr, DecidableEq

/-- `MetaIterator::MetaIterator(str)` -/
def Iter.mk' (p : Ptr) : Option Iter := do
  let v ← advance p
  pure ⟨p, v⟩

/-- `MetaIterator::operator++` -/
def Iter.next (it : Iter) : Option Iter :=
  match it.title with
  | none => some { it with title := none }
  | some [] => none
  | some (c :: r) =>
    if c = 0 then some { it with title := none }
    else match scanNext 0 (c :: r) with
      | none => none
      | some [] => none
      | some (d :: r') =>
        let t : Ptr := if d = 0 then none else some r'
        Iter.mk' t

/-- `Port::meta()`: strip one leading ':' -/
def portMeta (metadata : Ptr) : Option Ptr :=
  match metadata with
  | none => some none
  | some [] => none
  | some (c :: r) => if c = 58 then some (some r) else some (some (c :: r))

/-- the container `Port::meta()` builds for a metadata block -/
def container (block : Bytes) : Option Ptr := portMeta (some block)

/-- `MetaContainer::begin()` -/
def begin (strPtr : Ptr) : Option Iter :=
  match strPtr with
  | none => Iter.mk' none
  | some [] => none
  | some (c :: r) => if c = 58 then Iter.mk' (some r) else Iter.mk' (some (c :: r))

/-- One observed pair: the title C string and the value C string (or NULL). -/
abbrev Pair := Bytes × Option Bytes

def Iter.deref (it : Iter) : Option Pair :=
  match it.title with
  | none => none
  | some t => do
    let k ← cstr t
    match it.value with
    | none => pure (k, none)
    | some v => do
      let vv ← cstr v
      pure (k, some vv)

/-- Range-for over the container: `for(auto x : meta)`; the loop ends when
    `title == NULL`.  `fuel` bounds the number of iterations (each iteration
    strictly shortens the title suffix; `block.length + 1` always suffices, see
    `Props/C17.lean`). -/
def iterate : Nat → Iter → Option (List Pair)
  | 0, _ => none
  | fuel + 1, it =>
    match it.title with
    | none => some []
    | some _ => do
      let p ← it.deref
      let it' ← it.next
      let rest ← iterate fuel it'
      pure (p :: rest)

def pairs (strPtr : Ptr) : Option (List Pair) := do
  let it ← begin strPtr
  iterate ((strPtr.getD []).length + 2) it

/-- `MetaContainer::operator[]` : value of the first entry whose title equals `key`
    (NULL if absent or valueless).  Outer option = oob. -/
def lookupFuel : Nat → Iter → Bytes → Option (Option Bytes)
  | 0, _, _ => none
  | fuel + 1, it, key =>
    match it.title with
    | none => some none
    | some _ => do
      let p ← it.deref
      if p.1 = key then pure p.2
      else do
        let it' ← it.next
        lookupFuel fuel it' key

def lookup (strPtr : Ptr) (key : Bytes) : Option (Option Bytes) := do
  let it ← begin strPtr
  lookupFuel ((strPtr.getD []).length + 2) it key

/-- `MetaContainer::find`: is there an entry with this title? -/
def findFuel : Nat → Iter → Bytes → Option Bool
  | 0, _, _ => none
  | fuel + 1, it, key =>
    match it.title with
    | none => some false
    | some _ => do
      let p ← it.deref
      if p.1 = key then pure true
      else do
        let it' ← it.next
        findFuel fuel it' key

def find (strPtr : Ptr) (key : Bytes) : Option Bool := do
  let it ← begin strPtr
  findFuel ((strPtr.getD []).length + 2) it key

/-- the loop of `length()`: `prev=0; while(prev || *itr) prev = *itr++;`
    returns the number of bytes consumed. -/
def lenScan : UInt8 → Bytes → Option Nat
  | _, [] => none
  | prev, c :: r => if prev ≠ 0 ∨ c ≠ 0 then (lenScan c r).map (· + 1) else some 0

/-- `MetaContainer::length()` -/
def length (strPtr : Ptr) : Option Nat :=
  match strPtr with
  | none => some 0
  | some [] => none
  | some (c :: r) => if c = 0 then some 0 else (lenScan 0 (c :: r)).map (· + 2)

/-! ### Specification side: how the macros serialise metadata -/

/-- One entry `:key` or `:key\0=value`, each followed by NUL
    (rProp(k) = ":k\0", rMap(k,v) = ":k\0=v\0"). -/
def serEntry (e : Bytes × Option Bytes) : Bytes :=
  match e.2 with
  | none => 58 :: e.1 ++ [0]
  | some v => 58 :: e.1 ++ [0, 61] ++ v ++ [0]

/-- The metadata block: concatenated entries plus the string literal's own NUL. -/
def serialize (es : List (Bytes × Option Bytes)) : Bytes :=
  (es.map serEntry).flatten ++ [0]

def NoNul (b : Bytes) : Prop := ∀ x ∈ b, x ≠ 0

/-- Well-formed entry: key non-empty, NUL-free, not starting with ':';
    value NUL-free. -/
def EntryWF (e : Bytes × Option Bytes) : Prop :=
  NoNul e.1 ∧ (∃ c r, e.1 = c :: r ∧ c ≠ 58) ∧ (∀ v, e.2 = some v → NoNul v)

end Rtosc.Meta
